(* GcIsoCollect.v — C03, part 14: the collector on ARBITRARY worlds.
   (a) a liveness closure over addresses AND payload ids, defined on the left machine from the
       roots the collector marks ([nlive] / [held]);
   (b) [reach_iso]: whatever is live in that sense has a renamed image that the collector
       reaches in the right machine (inclusion of [val_refs], not equality: jump targets);
   (c) the world restricted to it, with [wtop] dropped to %sp, is a world for the collected
       right machine ([collect_shrink]). *)
From Coq Require Import Lia List Permutation.
From MW Require Import Model.Base Model.Num Model.VmTypes Model.Heap Model.Gc Model.VmBase Model.Vm
  Proofs.GcProofs Proofs.SymtabProofs Proofs.GcObsProofs Proofs.GcIso Proofs.GcIsoPrim Proofs.GcIsoStep
  Proofs.GcIsoSched Proofs.GcIsoAll Proofs.GcIsoSched2.
Open Scope N_scope.

(* the positions of a code vector that are not the operand of JMP / JNT *)
Fixpoint bc_in (j : bool) (l : list vcell) (x : vcell) : Prop :=
  match l with
  | [] => False
  | v :: r => (if j then False else x = v) \/ bc_in (is_jump v) r x
  end.

Lemma bc_in_live W f x : forall l j, bclive W j l -> bc_in j l x ->
  vlive W x /\ In (vmap f x) (bcmap f j l).
Proof.
  induction l as [|v r IH]; intros j L H; [destruct H|].
  cbn [bclive bc_in bcmap] in *. destruct L as [Lv Lr]. destruct H as [H|H].
  - destruct j; [destruct H|]. subst x. split; [exact Lv|left; reflexivity].
  - destruct (IH _ Lr H) as [A B]. split; [exact A|right; exact B].
Qed.
Lemma bc_in_In x : forall l j, bc_in j l x -> In x l.
Proof.
  induction l as [|v r IH]; intros j H; [destruct H|]. cbn [bc_in] in H. destruct H as [H|H].
  - destruct j; [destruct H|]. left. symmetry. exact H.
  - right. eapply IH, H.
Qed.

Lemma orel_some {A B} (R : A -> B -> Prop) a o2 : orel R (Some a) o2 -> exists b, o2 = Some b /\ R a b.
Proof. destruct o2 as [b|]; cbn; [intros H; exists b; auto|intros []]. Qed.

Lemma val_refs_addrs s f v a : In a (vaddrs v) -> In (f a) (val_refs s 1 (vmap f v)).
Proof.
  destruct v; cbn [vaddrs vmap val_refs In]; try tauto;
    intros H; repeat (destruct H as [H|H]; [subst; auto|]); try destruct H; auto.
Qed.
Lemma val_refs_plain s n v : vaddrs v = [] -> vids v = [] -> val_refs s n v = [].
Proof. destruct n; [reflexivity|]. destruct v; cbn [vaddrs vids val_refs]; try discriminate; reflexivity. Qed.
Lemma vref_ptr s p b : vref s (VPtr p) b -> b = p.
Proof. intros [[|n] H]; cbn in H; [destruct H|]. destruct H as [H|[]]. symmetry. exact H. Qed.
Lemma followed_cref s c b : followed_cell c -> vref s c b -> cref s c b.
Proof.
  intros [F1 F2] [n H]. exists n.
  destruct c; try (apply (val_refs_mono s n (S n)); [lia|exact H]).
  - destruct n; destruct H.
  - exfalso. eapply F1. reflexivity.
  - exfalso. eapply F2. reflexivity.
Qed.
Lemma no_lexenv_vmap f x : no_lexenv (vmap f x) -> no_lexenv x.
Proof. intros H i ->. apply (H i). reflexivity. Qed.

(* ------------------------------------------------------------------ (a) the liveness closure *)
Section Live.
Variable W : world.
Variable s1 : vm.

Inductive nlive : N -> Prop :=
| nl_bind : forall x, In x (g_bind s1) -> nlive (fst x)
| nl_ip : nlive (fst (ip s1))
| nl_ep : nlive (ep s1)
| nl_val : forall v a, held v -> In a (vaddrs v) -> nlive a
| nl_kep : forall i k, held (VCont i) -> tget (conts (st s1)) i = Some k -> nlive (k_ep k)
| nl_kip : forall i k, held (VCont i) -> tget (conts (st s1)) i = Some k -> nlive (fst (k_ip k))
with held : vcell -> Prop :=
| h_acc : held (acc s1)
| h_stack : forall i, i <= sp s1 -> held (sget s1 i)
| h_slot : forall x, In x (g_slots s1) -> held x
| h_cell : forall a, nlive a -> wa W a -> held (cell_at (hp s1) a)
| h_env : forall a i l x, nlive a -> wa W a -> cell_at (hp s1) a = VLexEnv i ->
    tget (envs (st s1)) i = Some l -> In x l -> held x
| h_vec : forall i l x, held (VVec i) -> tget (vecs (st s1)) i = Some l -> In x l -> held x
| h_kstack : forall i k x, held (VCont i) -> tget (conts (st s1)) i = Some k -> In x (k_stack k) -> held x
| h_bc : forall i l x, held (VLambda i) -> tget (lams (st s1)) i = Some l -> bc_in false (l_bc l) x -> held x
| h_args : forall i l x, held (VLambda i) -> tget (lams (st s1)) i = Some l -> In x (l_args l) -> held x
| h_envmap : forall i l x, held (VLambda i) -> tget (lams (st s1)) i = Some l ->
    In x (map fst (l_envmap l)) -> held x.

Scheme nlive_ind2 := Minimality for nlive Sort Prop
  with held_ind2 := Minimality for held Sort Prop.
Combined Scheme live_mutind from nlive_ind2, held_ind2.

Definition pheld (p : pid) : Prop :=
  match p with
  | PVec i => held (VVec i) | PCont i => held (VCont i) | PLam i => held (VLambda i)
  | PEnv i => exists a, nlive a /\ wa W a /\ cell_at (hp s1) a = VLexEnv i
  end.

(* (c) the restricted world: live addresses and payload ids, same renaming, top = %sp *)
Definition wshrink : world :=
  mk_world (fun a => wa W a /\ nlive a) (fun p => wi W p /\ pheld p) (wf W) (sp s1).
End Live.

(* ------------------------------------------------------------------ (b) reachability is preserved *)
Section ReachIso.
Variable W : world.
Variables s1 s2 : vm.
Hypothesis R : srel W s1 s2.
Hypothesis G : gc_natural s2.

Let root2 := root (map fst (g_bind s2)) s2.

Lemma root_reach a : root2 a -> reach s2 a.
Proof. intros H. apply rf_root. exact H. Qed.

Lemma sget_in_stack i : i <= sp s2 -> In (sget s2 i) (stack_to_sp s2).
Proof.
  intros H. unfold stack_to_sp. apply in_map. apply in_range_asc. lia.
Qed.

Theorem reach_iso :
  (forall a, nlive W s1 a -> wa W a -> reach s2 (wf W a)) /\
  (forall v, held W s1 v -> vlive W v /\ forall b, vref (st s2) (vmap (wf W) v) b -> reach s2 b).
Proof.
  apply live_mutind.
  - (* binding key *)
    intros x Hx _. apply root_reach. left. destruct (sr_bind _ _ _ R) as [E _]. rewrite E, map_map.
    cbn [fst]. apply (in_map (fun y => wf W (fst y))), Hx.
  - intros _. apply root_reach. do 4 right. left. symmetry. apply (sr_ip _ _ _ R).
  - intros _. apply root_reach. do 5 right. symmetry. apply (sr_ep _ _ _ R).
  - (* an address of a held value *)
    intros v a _ [_ IH] Ha _. apply IH. exists 1%nat. apply val_refs_addrs, Ha.
  - intros i k _ [[_ L] IH] Hk _.
    destruct (orel_some _ _ _ (eq_ind _ (fun o => orel (contr W) o _)
               (sr_conts _ _ _ (sr_store _ _ _ R) i (L _ (or_introl eq_refl))) _ Hk)) as (k2 & E2 & -> & _).
    apply IH. exists 1%nat. cbn [vmap val_refs]. rewrite E2. apply in_or_app. right.
    cbn [kmap k_ep k_ip fst]. right. left. reflexivity.
  - intros i k _ [[_ L] IH] Hk _.
    destruct (orel_some _ _ _ (eq_ind _ (fun o => orel (contr W) o _)
               (sr_conts _ _ _ (sr_store _ _ _ R) i (L _ (or_introl eq_refl))) _ Hk)) as (k2 & E2 & -> & _).
    apply IH. exists 1%nat. cbn [vmap val_refs]. rewrite E2. apply in_or_app. right.
    cbn [kmap k_ep k_ip fst]. left. reflexivity.
  - (* acc *)
    destruct (sr_acc _ _ _ R) as [E L]. split; [exact L|]. intros b Hb. rewrite <- E in Hb.
    apply root_reach. do 3 right. left. exact Hb.
  - (* stack *)
    intros i Hi. pose proof (sr_top _ _ _ R) as Ht.
    destruct (sr_stack _ _ _ R i ltac:(lia)) as [E L]. split; [exact L|]. intros b Hb. rewrite <- E in Hb.
    apply root_reach. do 2 right. left. exists (sget s2 i). split; [|exact Hb].
    apply sget_in_stack. rewrite (sr_sp _ _ _ R). exact Hi.
  - (* global slot *)
    intros x Hx. destruct (sr_slots _ _ _ R) as [E L]. rewrite Forall_forall in L.
    split; [apply L, Hx|]. intros b Hb.
    assert (I2 : In (vmap (wf W) x) (g_slots s2)) by (rewrite E; apply in_map, Hx).
    pose proof (gn_slots _ G) as S. rewrite Forall_forall in S. destruct (S _ I2) as [[p Ep]|[A1 A2]].
    + rewrite Ep in Hb, I2. apply vref_ptr in Hb. subst b.
      apply root_reach. right. left. apply slot_ptrs_in. exact I2.
    + destruct Hb as [n Hb]. rewrite (val_refs_plain _ _ _ A1 A2) in Hb. destruct Hb.
  - (* heap cell *)
    intros a _ IHa Ha. destruct (sr_cell _ _ _ R a Ha) as [E L]. split; [exact L|]. intros b Hb.
    rewrite <- E in Hb. destruct (sr_al2 _ _ _ R a Ha) as [Lt Al].
    apply rf_step with (wf W a); [apply IHa, Ha|exact Lt|].
    apply followed_cref; [|exact Hb]. apply (gn_cells _ G). split; assumption.
  - (* slot of an environment held by a cell *)
    intros a i l x _ IHa Ha Hc Hl Hx. destruct (sr_cell _ _ _ R a Ha) as [E [_ L]].
    rewrite Hc in E, L. cbn [vmap] in E.
    pose proof (sr_envs _ _ _ (sr_store _ _ _ R) i (L _ (or_introl eq_refl))) as O. rewrite Hl in O.
    destruct (orel_some _ _ _ O) as (l2 & E2 & -> & Ll). rewrite Forall_forall in Ll.
    split; [apply Ll, Hx|]. intros b [n Hb]. destruct (sr_al2 _ _ _ R a Ha) as [Lt Al].
    apply rf_step with (wf W a); [apply IHa, Ha|exact Lt|]. rewrite E. exists n.
    cbn [cell_refs]. rewrite E2. apply in_flat_map. exists (vmap (wf W) x). split; [apply in_map, Hx|exact Hb].
  - (* vector element *)
    intros i l x _ [[_ L] IH] Hl Hx.
    pose proof (sr_vecs _ _ _ (sr_store _ _ _ R) i (L _ (or_introl eq_refl))) as O. rewrite Hl in O.
    destruct (orel_some _ _ _ O) as (l2 & E2 & -> & Ll). rewrite Forall_forall in Ll.
    split; [apply Ll, Hx|]. intros b [n Hb]. apply IH. exists (S n). cbn [vmap val_refs]. rewrite E2.
    apply in_flat_map. exists (vmap (wf W) x). split; [apply in_map, Hx|exact Hb].
  - (* saved stack slot *)
    intros i k x _ [[_ L] IH] Hk Hx.
    pose proof (sr_conts _ _ _ (sr_store _ _ _ R) i (L _ (or_introl eq_refl))) as O. rewrite Hk in O.
    destruct (orel_some _ _ _ O) as (k2 & E2 & -> & Lk & _). rewrite Forall_forall in Lk.
    split; [apply Lk, Hx|]. intros b [n Hb]. apply IH. exists (S n). cbn [vmap val_refs]. rewrite E2.
    apply in_or_app. left. cbn [kmap k_stack].
    apply in_flat_map. exists (vmap (wf W) x). split; [apply in_map, Hx|exact Hb].
  - (* bytecode, not a jump target *)
    intros i l x _ [[_ L] IH] Hl Hx.
    pose proof (sr_lams _ _ _ (sr_store _ _ _ R) i (L _ (or_introl eq_refl))) as O. rewrite Hl in O.
    destruct (orel_some _ _ _ O) as (l2 & E2 & -> & Lb & _).
    destruct (bc_in_live W (wf W) x _ _ Lb Hx) as [Lx Ix].
    split; [exact Lx|]. intros b [n Hb]. apply IH. exists (S n). cbn [vmap val_refs]. rewrite E2.
    apply in_or_app. left. cbn [lmap l_bc].
    apply in_flat_map. exists (vmap (wf W) x). split; [exact Ix|exact Hb].
  - intros i l x _ [[_ L] IH] Hl Hx.
    pose proof (sr_lams _ _ _ (sr_store _ _ _ R) i (L _ (or_introl eq_refl))) as O. rewrite Hl in O.
    destruct (orel_some _ _ _ O) as (l2 & E2 & -> & _ & La & _). rewrite Forall_forall in La.
    split; [apply La, Hx|]. intros b [n Hb]. apply IH. exists (S n). cbn [vmap val_refs]. rewrite E2.
    apply in_or_app. right. apply in_or_app. left. cbn [lmap l_args].
    apply in_flat_map. exists (vmap (wf W) x). split; [apply in_map, Hx|exact Hb].
  - intros i l x _ [[_ L] IH] Hl Hx.
    pose proof (sr_lams _ _ _ (sr_store _ _ _ R) i (L _ (or_introl eq_refl))) as O. rewrite Hl in O.
    destruct (orel_some _ _ _ O) as (l2 & E2 & -> & _ & _ & Le). rewrite Forall_forall in Le.
    split; [apply Le, Hx|]. intros b [n Hb]. apply IH. exists (S n). cbn [vmap val_refs]. rewrite E2.
    apply in_or_app. right. apply in_or_app. right. cbn [lmap l_envmap]. rewrite map_map. cbn [fst].
    apply in_flat_map. exists (vmap (wf W) x). split; [|exact Hb].
    rewrite <- (map_map fst (vmap (wf W))). apply in_map, Hx.
Qed.
End ReachIso.

(* ------------------------------------------------------------------ (c) the restricted world is a world *)
Lemma nolex_map f l : Forall no_lexenv (map (vmap f) l) -> Forall no_lexenv l.
Proof.
  rewrite !Forall_forall. intros H x Hx. apply (no_lexenv_vmap f), H, in_map, Hx.
Qed.
Lemma nolex_bcmap f : forall l j, Forall no_lexenv (bcmap f j l) -> Forall no_lexenv l.
Proof.
  induction l as [|v r IH]; intros j H; [constructor|]. cbn [bcmap] in H. inversion H as [|? ? Hv Hr]; subst.
  constructor; [|eapply IH, Hr]. destruct j; [exact Hv|apply (no_lexenv_vmap f), Hv].
Qed.
Lemma slot_ok_nolex v : slot_ok v -> no_lexenv v.
Proof. intros [[p ->]|[_ H]] i E; [discriminate|]. subst v. discriminate. Qed.
Lemma lexenv_dec c : (exists i, c = VLexEnv i) \/ no_lexenv c.
Proof. destruct c; try (right; intros j; discriminate). left. eexists. reflexivity. Qed.

Section Shrink.
Variable W : world.
Variables s1 s2 : vm.
Hypothesis R : srel W s1 s2.
Hypothesis G : gc_natural s2.
Local Notation W' := (wshrink W s1).

Lemma alive_shrink a : alive W a -> nlive W s1 a -> alive W' a.
Proof. intros [H|H] N; [left; split; assumption|right; exact H]. Qed.

Lemma held_vlive x : held W s1 x -> no_lexenv x -> vlive W' x.
Proof.
  intros H NL. destruct (proj2 (reach_iso W s1 s2 R G) x H) as [[La Li] _]. split.
  - intros a Ha. apply alive_shrink; [apply La, Ha|eapply nl_val; eassumption].
  - intros p Hp. split; [apply Li, Hp|].
    destruct x; cbn [vids In] in Hp; try (destruct Hp as [<-|[]]); try contradiction; cbn [pheld]; try exact H.
    exfalso. eapply NL. reflexivity.
Qed.

Lemma cell_vlive a : wa W a -> nlive W s1 a -> vlive W' (cell_at (hp s1) a).
Proof.
  intros Ha Na. destruct (lexenv_dec (cell_at (hp s1) a)) as [[i E]|NL].
  - destruct (sr_cell _ _ _ R a Ha) as [_ [_ Li]]. rewrite E in *. split; [intros x []|].
    intros p [<-|[]]. split; [apply Li; left; reflexivity|]. exists a. auto.
  - apply held_vlive; [apply h_cell; assumption|exact NL].
Qed.

Lemma list_vlive l : (forall x, In x l -> held W s1 x) -> Forall no_lexenv l -> Forall (vlive W') l.
Proof.
  rewrite !Forall_forall. intros H NL x Hx. apply held_vlive; [apply H, Hx|apply NL, Hx].
Qed.
Lemma lr_shrink l l2 : lr W l l2 -> (forall x, In x l -> held W s1 x) -> Forall no_lexenv l2 -> lr W' l l2.
Proof.
  intros [-> _] H NL. split; [reflexivity|]. apply list_vlive; [exact H|eapply nolex_map, NL].
Qed.
Lemma bclive_shrink : forall l j, (forall x, bc_in j l x -> vlive W' x) -> bclive W' j l.
Proof.
  induction l as [|v r IH]; intros j H; [exact I|]. cbn [bclive]. split.
  - destruct j; [exact I|]. apply H. left. reflexivity.
  - apply IH. intros x Hx. apply H. right. exact Hx.
Qed.

Lemma store_shrink : store_rel W' (st s1) (st s2).
Proof.
  destruct (sr_store _ _ _ R) as [A1 A2 A3 A4 A5 A6 A7]. constructor; try assumption.
  - intros i [Hi (a & Na & Ha & Hc)]. specialize (A4 i Hi).
    destruct (tget (envs (st s1)) i) as [l|] eqn:E1, (tget (envs (st s2)) i) as [l2|] eqn:E2;
      cbn [orel] in *; try exact A4.
    apply lr_shrink; [exact A4| |apply (gn_envs _ G i _ E2)].
    intros x Hx. eapply h_env; eassumption.
  - intros i [Hi Ph]. cbn [pheld] in Ph. specialize (A5 i Hi).
    destruct (tget (vecs (st s1)) i) as [l|] eqn:E1, (tget (vecs (st s2)) i) as [l2|] eqn:E2;
      cbn [orel] in *; try exact A5.
    apply lr_shrink; [exact A5| |apply (gn_vecs _ G i _ E2)].
    intros x Hx. eapply h_vec; eassumption.
  - intros i [Hi Ph]. cbn [pheld] in Ph. specialize (A6 i Hi).
    destruct (tget (conts (st s1)) i) as [k|] eqn:E1, (tget (conts (st s2)) i) as [k2|] eqn:E2;
      cbn [orel] in *; try exact A6.
    destruct A6 as [-> (L1 & L2 & L3)]. split; [reflexivity|]. split; [|split].
    + apply list_vlive; [intros x Hx; eapply h_kstack; eassumption|].
      apply (nolex_map (wf W)). apply (gn_conts _ G i _ E2).
    + apply alive_shrink; [exact L2|eapply nl_kep; eassumption].
    + apply alive_shrink; [exact L3|eapply nl_kip; eassumption].
  - intros i [Hi Ph]. cbn [pheld] in Ph. specialize (A7 i Hi).
    destruct (tget (lams (st s1)) i) as [l|] eqn:E1, (tget (lams (st s2)) i) as [l2|] eqn:E2;
      cbn [orel] in *; try exact A7.
    destruct A7 as [-> (L1 & L2 & L3)]. destruct (gn_lams _ G i _ E2) as (N1 & N2 & N3).
    cbn [lmap l_bc l_args l_envmap] in N1, N2, N3. split; [reflexivity|]. split; [|split].
    + apply bclive_shrink. intros x Hx. apply held_vlive; [eapply h_bc; eassumption|].
      apply nolex_bcmap in N1. rewrite Forall_forall in N1. apply N1. eapply bc_in_In, Hx.
    + apply list_vlive; [intros x Hx; eapply h_args; eassumption|]. apply (nolex_map (wf W)), N2.
    + apply list_vlive; [intros x Hx; eapply h_envmap; eassumption|]. apply (nolex_map (wf W)).
      rewrite map_map in N3. cbn [fst] in N3. rewrite map_map. exact N3.
Qed.

Theorem collect_shrink vd fuel order h' :
  reach_allocated s2 -> no_used (hp s2) -> Permutation order (map fst (g_bind s2)) ->
  collect vd fuel order s2 = Ok h' ->
  (forall a, wa W' a -> wa W a /\ wf W' a = wf W a /\ reach s2 (wf W a)) /\
  srel W' s1 (with_heap s2 h').
Proof.
  intros ND Hnu P H. destruct (reach_iso W s1 s2 R G) as [RA RV].
  split; [intros a [Ha Na]; split; [exact Ha|split; [reflexivity|apply RA; assumption]]|].
  assert (Live : forall a, wa W a -> nlive W s1 a ->
            g_get (gcmap h') (wf W a) = GAllocated /\ cell_at h' (wf W a) = cell_at (hp s2) (wf W a)).
  { intros a Ha Na. destruct (sr_al2 _ _ _ R a Ha) as [L _].
    apply (gc_preserves_live vd fuel order s2 h' Hnu H _ L).
    apply (reach_perm s2 order _ P). apply RA; assumption. }
  assert (HI : heap_inv h').
  { apply (heap_inv_collect vd fuel order s2 h' (sr_hi2 _ _ _ R) Hnu); [|exact H].
    intros a L Ra. apply ND; [exact L|]. apply (reach_perm s2 order a P), Ra. }
  pose proof (collect_hlen _ _ _ _ _ H) as Hl.
  constructor; sr_simpl; cbn [wshrink wa wi wf wtop].
  - apply (sr_null _ _ _ R).
  - apply (sr_b1 _ _ _ R).
  - intros a b [Ha _] [Hb _]. apply (sr_inj _ _ _ R); assumption.
  - intros a [Ha _]. apply (sr_al1 _ _ _ R), Ha.
  - intros a [Ha Na]. destruct (Live a Ha Na) as [E _]. destruct (sr_al2 _ _ _ R a Ha) as [L _].
    split; [rewrite Hl; exact L|rewrite E; discriminate].
  - apply (sr_hi1 _ _ _ R).
  - exact HI.
  - intros a [Ha Na]. destruct (Live a Ha Na) as [_ C]. rewrite C.
    destruct (sr_cell _ _ _ R a Ha) as [E _]. split; [exact E|apply cell_vlive; assumption].
  - exact store_shrink.
  - destruct (sr_bind _ _ _ R) as [E K]. split; [exact E|].
    intros x Hx. split; [apply K, Hx|apply nl_bind, Hx].
  - apply lr_shrink; [apply (sr_slots _ _ _ R)|intros x Hx; apply h_slot, Hx|].
    eapply Forall_impl; [|apply (gn_slots _ G)]. intros v. apply slot_ok_nolex.
  - intros i Hi. pose proof (sr_top _ _ _ R) as Ht. destruct (sr_stack _ _ _ R i ltac:(lia)) as [E _].
    split; [exact E|]. apply held_vlive; [apply h_stack, Hi|].
    apply (no_lexenv_vmap (wf W)). rewrite <- E. apply (gn_stack _ G). rewrite (sr_sp _ _ _ R). exact Hi.
  - lia.
  - apply (sr_scap _ _ _ R).
  - apply (sr_sp _ _ _ R).
  - apply (sr_bp _ _ _ R).
  - destruct (sr_ep _ _ _ R) as [E L]. split; [exact E|apply alive_shrink; [exact L|apply nl_ep]].
  - destruct (sr_ip _ _ _ R) as [[E L] E']. split; [|exact E'].
    split; [exact E|apply alive_shrink; [exact L|apply nl_ip]].
  - destruct (sr_acc _ _ _ R) as [E _]. split; [exact E|]. apply held_vlive; [apply h_acc|].
    apply (no_lexenv_vmap (wf W)). rewrite <- E. apply (gn_acc _ G).
  - apply (sr_log _ _ _ R).
Qed.
End Shrink.
