(* VmProofs.v — instruction-level theorems about the VM model: continuation capture
   and invocation (C05), tail calls reuse the caller's frame (C04).  Generic in the
   table of builtin procedures.                                                 *)
From Coq Require Import Lia FMapPositive.
From MW Require Import Model.Base Model.F64 Model.Num Model.Datum Model.TransformDef Model.Transform
  Model.VmTypes Model.Heap Model.VmBase Model.Compile Model.Vm Proofs.VmProofs0 Proofs.HeapProofs.
Open Scope N_scope.

(* slot reads of derived states *)
Lemma sget_with_stack s t p i :
  sget (with_stack s t p) i = match tget t i with Some v => v | None => VUndef end.
Proof. reflexivity. Qed.

Lemma write_slots_get l : forall i t j,
  tget (write_slots l i t) j =
  if (i <=? j) && (j <? i + len l) then nth_error l (N.to_nat (j - i)) else tget t j.
Proof.
  induction l as [|v l IH]; intros i t j; cbn [write_slots].
  - unfold len. cbn. replace (i + 0) with i by lia.
    destruct (i <=? j) eqn:E1, (j <? i) eqn:E2; try reflexivity.
    apply N.leb_le in E1. apply N.ltb_lt in E2. lia.
  - rewrite IH. unfold len. cbn [length]. rewrite Nat2N.inj_succ.
    destruct (N.eqb_spec i j) as [<-|Hne].
    + replace (i + 1 <=? i) with false by (symmetry; apply N.leb_gt; lia). cbn [andb].
      rewrite tget_tset_same. rewrite N.leb_refl.
      replace (i <? i + N.succ (N.of_nat (length l))) with true by (symmetry; apply N.ltb_lt; lia).
      cbn [andb]. rewrite N.sub_diag. reflexivity.
    + destruct (i + 1 <=? j) eqn:E1.
      * apply N.leb_le in E1.
        replace (i <=? j) with true by (symmetry; apply N.leb_le; lia).
        replace (j <? i + 1 + N.of_nat (length l)) with (j <? i + N.succ (N.of_nat (length l)))
          by (f_equal; lia).
        destruct (j <? i + N.succ (N.of_nat (length l))) eqn:E2; cbn [andb].
        -- replace (N.to_nat (j - i)) with (S (N.to_nat (j - (i + 1)))) by lia. reflexivity.
        -- rewrite tget_tset_other by assumption. reflexivity.
      * apply N.leb_gt in E1. cbn [andb].
        replace (i <=? j) with false by (symmetry; apply N.leb_gt; lia). cbn [andb].
        rewrite tget_tset_other by assumption. reflexivity.
Qed.

Section VmLemmas.
Variable ob : N -> M vcell.
Notation resolve_callee := (Vm.resolve_callee ob).
Notation run_one := (Vm.run_one ob).

(* ------------------------------------------------------------- C05: invoke *)
(* Invoking a continuation: the machine found k in %acc at a CALL/TCALL with n >= 1
   arguments of which v is the last one pushed.  The next state has the saved stack
   in slots [0, len), the saved sp/ep/ip/bp, v in %acc — and heap, Rc payloads,
   globals, output log and stack capacity are untouched; slots above the saved
   stack keep whatever they held (they are above sp, i.e. dead). *)
Theorem k_invoke s cid k n :
  heap_deref (hp s) (acc s) = Ok (VCont cid) ->
  tget (conts (st s)) cid = Some k ->
  sget s (sp s) = VArgc n -> n <> 0 -> 2 <= sp s -> sp s < scap s ->
  len (k_stack k) <= scap s ->
  resolve_callee s =
    ROk CDone (mk_vm (hp s) (st s) (g_bind s) (g_slots s)
                     (write_slots (k_stack k) 0 (stack s)) (scap s)
                     (k_sp k) (k_bp k) (k_ep k) (k_ip k) (sget s (sp s - 1)) (out_log s)).
Proof.
  intros Hacc Hk Hargc Hn Hsp Hcap Hlen.
  unfold Vm.resolve_callee, bindM, get_vm, hderef, lift. rewrite Hacc.
  unfold pop_raw at 1.
  destruct (sp s =? 0) eqn:E0; [apply N.eqb_eq in E0; lia|].
  destruct (sp s <? scap s) eqn:E1; [|apply N.ltb_ge in E1; lia].
  rewrite Hargc. unfold as_argc, ret.
  destruct (n =? 0) eqn:En; [apply N.eqb_eq in En; congruence|].
  unfold pop_raw. cbn [sp with_sp with_stack scap].
  destruct (sp s - 1 =? 0) eqn:E2; [apply N.eqb_eq in E2; lia|].
  destruct (sp s - 1 <? scap s) eqn:E3; [|apply N.ltb_ge in E3; lia].
  unfold restore_continuation. cbn [st with_sp with_stack conts]. rewrite Hk.
  cbn [scap with_sp with_stack].
  destruct (scap s <? len (k_stack k)) eqn:E4; [apply N.ltb_lt in E4; lia|].
  unfold set_acc. cbn. reflexivity.
Qed.

(* invoking does not modify the continuation object: it can be invoked again *)
Corollary k_reusable s cid k n s' c :
  heap_deref (hp s) (acc s) = Ok (VCont cid) ->
  tget (conts (st s)) cid = Some k ->
  sget s (sp s) = VArgc n -> n <> 0 -> 2 <= sp s -> sp s < scap s ->
  len (k_stack k) <= scap s ->
  resolve_callee s = ROk c s' -> tget (conts (st s')) cid = Some k /\ hp s' = hp s.
Proof.
  intros H1 H2 H3 H4 H5 H6 H7 H. rewrite (k_invoke s cid k n H1 H2 H3 H4 H5 H6 H7) in H.
  injection H as _ <-. cbn. auto.
Qed.

(* invoked with no argument: an error, not a wrong answer *)
Theorem k_zero_args s cid :
  heap_deref (hp s) (acc s) = Ok (VCont cid) ->
  sget s (sp s) = VArgc 0 -> 1 <= sp s -> sp s < scap s ->
  exists s', resolve_callee s = RErr E_OTHER [] s'.
Proof.
  intros Hacc Hargc Hsp Hcap.
  unfold Vm.resolve_callee, bindM, get_vm, hderef, lift. rewrite Hacc.
  unfold pop_raw at 1.
  destruct (sp s =? 0) eqn:E0; [apply N.eqb_eq in E0; lia|].
  destruct (sp s <? scap s) eqn:E1; [|apply N.ltb_ge in E1; lia].
  rewrite Hargc. unfold as_argc, ret, fail. cbn [N.eqb]. eexists; reflexivity.
Qed.

(* reading back the restored stack: below the saved length the saved slots, at and
   above it the old ones *)
Lemma restored_slot s k j :
  match tget (write_slots (k_stack k) 0 (stack s)) j with Some v => v | None => VUndef end =
  if j <? len (k_stack k) then nth (N.to_nat j) (k_stack k) VUndef else sget s j.
Proof.
  rewrite write_slots_get. cbn [N.leb]. rewrite N.add_0_l, N.sub_0_r.
  destruct (j <? len (k_stack k)) eqn:E; [|rewrite andb_false_r; reflexivity].
  replace (0 <=? j) with true by (symmetry; apply N.leb_le; lia). cbn [andb].
  apply N.ltb_lt in E. unfold len in E.
  destruct (nth_error (k_stack k) (N.to_nat j)) eqn:En.
  - symmetry. apply nth_error_nth. exact En.
  - apply nth_error_None in En. lia.
Qed.

(* ------------------------------------------------------------ C05: capture *)
(* call/cc: the machine is at a CALL/TCALL whose instruction pointer has already
   moved past the call; the stack holds the receiver and Argc 1.  The builtin pops
   both, saves slots 0..=sp, the registers and that instruction pointer in a fresh
   continuation object, pushes a pointer to it and Argc 1, steps the instruction
   pointer back onto the call and returns the receiver (which the caller puts in
   %acc): exactly the state of the ordinary application (receiver k). *)
Theorem capture_state s proc pv :
  heap_wf (hp s) ->
  sget s (sp s) = VArgc 1 -> 2 <= sp s -> sp s < scap s ->
  sget s (sp s - 1) = proc -> heap_deref (hp s) proc = Ok pv -> is_procedure pv = true ->
  snd (ip s) <> 0 ->
  let s0 := with_sp s (sp s - 2) in                      (* receiver and argc popped *)
  let k := mk_cont (stack_to_sp s0) (sp s0) (ep s) (ip s) (bp s) in
  let cid := next_id (st s) in
  exists kp s', b_call_cc s = ROk proc s' /\
    tget (conts (st s')) cid = Some k /\
    heap_get (hp s') kp = Ok (VCont cid) /\
    (forall q, q <> kp -> tget (cells (hp s')) q = tget (cells (hp s)) q) /\
    sp s' = sp s /\ sget s' (sp s') = VArgc 1 /\ sget s' (sp s' - 1) = VPtr kp /\
    ip s' = (fst (ip s), snd (ip s) - 1) /\
    bp s' = bp s /\ ep s' = ep s /\ acc s' = acc s /\ scap s' = scap s /\
    g_bind s' = g_bind s /\ g_slots s' = g_slots s /\ out_log s' = out_log s /\
    (forall j, j < sp s - 1 -> sget s' j = sget s j).
Proof.
  intros Hwf Hargc Hsp Hcap Hproc Hpv Hisp Hip s0 k cid.
  unfold b_call_cc, bindM, pop_argc, bindM.
  unfold pop_raw at 1.
  destruct (sp s =? 0) eqn:E0; [apply N.eqb_eq in E0; lia|].
  destruct (sp s <? scap s) eqn:E1; [|apply N.ltb_ge in E1; lia].
  rewrite Hargc. cbn [N.ltb N.compare orb Pos.compare Pos.compare_cont].
  unfold ret. unfold pop_raw. cbn [sp with_sp with_stack scap].
  destruct (sp s - 1 =? 0) eqn:E2; [apply N.eqb_eq in E2; lia|].
  destruct (sp s - 1 <? scap s) eqn:E3; [|apply N.ltb_ge in E3; lia].
  change (sget (with_sp s (sp s - 1)) (sp s - 1)) with (sget s (sp s - 1)).
  rewrite Hproc.
  unfold hderef, lift. cbn [hp with_sp with_stack]. rewrite Hpv. rewrite Hisp. cbn [negb].
  unfold to_continuation.
  assert (Hs0 : with_sp (with_sp s (sp s - 1)) (sp s - 1 - 1) = s0).
  { unfold s0, with_sp, with_stack. cbn. f_equal. lia. }
  rewrite Hs0. unfold new_cont, hput. cbn [hp with_store].
  change (st s0) with (st s). change (hp s0) with (hp s).
  change (ep s0) with (ep s). change (ip s0) with (ip s). change (bp s0) with (bp s).
  change (next_id (st s)) with cid.
  change {| k_stack := stack_to_sp s0; k_sp := sp s0; k_ep := ep s; k_ip := ip s; k_bp := bp s |} with k.
  destruct (heap_put (hp s) (VCont cid)) as [kpv h1] eqn:Ehp.
  assert (Hwf0 : heap_wf (hp s)) by exact Hwf.
  destruct (heap_put_spec _ _ _ _ Hwf0 Ehp ltac:(intros; discriminate) ltac:(intros; discriminate))
    as (kp & -> & Hget & Hwf1 & Hlen & Hother).
  unfold push. unfold s0 at 1. cbn [sp scap stack with_heap with_store with_stack with_scap with_sp].
  change (sp s0) with (sp s - 2). change (scap s0) with (scap s). change (stack s0) with (stack s).
  assert (Hc1 : (sp s - 2 + 1 <? scap s) = true) by (apply N.ltb_lt; lia).
  rewrite Hc1.
  assert (Hc2 : (sp s - 2 + 1 + 1 <? scap s) = true) by (apply N.ltb_lt; lia).
  rewrite Hc2.
  unfold dec_ip. cbn [ip snd fst with_scap with_stack with_heap with_store with_sp].
  destruct (snd (ip s) =? 0) eqn:Eip; [apply N.eqb_eq in Eip; congruence|].
  exists kp. eexists. split; [reflexivity|].
  cbn [st conts hp sp bp ep acc scap stack g_bind g_slots out_log ip with_ip with_scap with_stack with_heap with_store with_sp fst snd].
  split; [apply tget_tset_same|].
  split; [exact Hget|].
  split; [intros q Hq; apply Hother; exact Hq|].
  split; [lia|].
  replace (sp s - 2 + 1 + 1) with (sp s) by lia.
  replace (sp s - 2 + 1) with (sp s - 1) by lia.
  split; [unfold sget; cbn [stack with_ip with_scap with_stack with_heap with_store with_sp]; rewrite tget_tset_same; reflexivity|].
  split; [unfold sget; cbn [stack with_ip with_scap with_stack with_heap with_store with_sp]; rewrite tget_tset_other by lia; rewrite tget_tset_same; reflexivity|].
  repeat (split; [reflexivity|]).
  intros j Hj. unfold sget. cbn [stack with_ip with_scap with_stack with_heap with_store with_sp]. rewrite !tget_tset_other by lia. reflexivity.
Qed.

End VmLemmas.
