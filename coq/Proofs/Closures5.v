(* Closures5.v — C01 (work package c01d, groundwork): the reference semantics of the closure
   fragment with MUTABLE LOCAL VARIABLES.

     e ::= c | (quote d) | (if e e e) | (if e e) | x | (define x e) | (set! x e)
         | (lambda (x1 ... xn) body) | (e0 e1 ... en)

   as in Proofs/Closures3.v, but (set! x e) is also allowed when x is a parameter of the
   current lambda or a variable captured from an enclosing one ([VSetL]).  Capturing VALUES (as
   [ref_eval3] does) is no longer adequate: the semantics has a STORE OF LOCATIONS.  The
   environment of a lambda activation is a list of locations (one per name of the scope, in slot
   order), the store is a list of values indexed by location; an application allocates fresh
   locations for the parameters at the end of the store; a lambda expression captures the
   LOCATIONS of its captured variables; (set! x e) on a local overwrites the store at the
   location of x.  The store only grows; locations are never reused.

   What marwood does (Model/Vm.v store_lex_slot, Proofs/FrameSteps5.v): a location is the
   DIRECT slot of the activation environment that owns the variable; the owner reads/writes it
   directly, every closure that captured it through one pointer (heap address of that
   environment, slot).

   This file: syntax [expr5], values [rval5], [ref_eval5], two example derivations and the
   corresponding runs of the model ([Vm.eval] on [vm_empty 8192]), and the toggling counter as a
   pure model run (bodies of several expressions are outside [expr5]).                      *)
From Coq Require Import String Lia FMapPositive.
From MW Require Import Model.Base Model.F64 Model.Num Model.Datum Model.Lex Model.Parse Model.TransformDef Model.Transform
  Model.VmTypes Model.Heap Model.Gc Model.VmBase Model.Compile Model.Vm Model.Builtins
  Proofs.VmProofs0 Proofs.GcProofs Proofs.SymtabProofs Proofs.QuoteHeapProofs
  Proofs.CompileProofs Proofs.RunProofs Proofs.CompileCorrect Proofs.TailProofs Proofs.FrameSteps
  Proofs.CellFuelProofs Proofs.CompileCorrect2 Proofs.FrameSteps3 Proofs.Closures3.
From MW Require Proofs.ScopeProofs.
Open Scope N_scope.

Arguments N.add : simpl never.
Arguments N.sub : simpl never.
Arguments N.mul : simpl never.
Arguments N.eqb : simpl never.
Arguments N.ltb : simpl never.
Arguments N.leb : simpl never.

(* ============================================================ syntax *)
(* [VSet] is set! on a global, [VSetL] set! on a local (parameter or captured variable); the
   datum is the same, the semantics checks the scope: [VSet x] demands that the scope does not
   bind x, [VSetL x] that it does.  [VLam ps fs body]: fs is the free-symbol annotation as in
   [expr3]. *)
Inductive expr5 :=
| VConst (c : cell)
| VQuote (d : cell)
| VIf (c a b : expr5)
| VIf1 (c a : expr5)
| VVar (x : text)
| VDefine (x : text) (e : expr5)
| VSet (x : text) (e : expr5)
| VSetL (x : text) (e : expr5)
| VApp (f : expr5) (args : list expr5)
| VLam (ps fs : list text) (body : expr5).

Fixpoint cell_of5 (e : expr5) : cell :=
  match e with
  | VConst c => c
  | VQuote d => quote_of d
  | VIf c a b => CPair IF_ (CPair (cell_of5 c) (CPair (cell_of5 a) (CPair (cell_of5 b) CNil)))
  | VIf1 c a => CPair IF_ (CPair (cell_of5 c) (CPair (cell_of5 a) CNil))
  | VVar x => CSym x
  | VDefine x e => CPair DEFINE_ (CPair (CSym x) (CPair (cell_of5 e) CNil))
  | VSet x e | VSetL x e => CPair SET_ (CPair (CSym x) (CPair (cell_of5 e) CNil))
  | VApp f args => CPair (cell_of5 f) (fold_right CPair CNil (map cell_of5 args))
  | VLam ps fs body => lam_cell ps (cell_of5 body)
  end.

(* the embedding of the fragment with immutable locals *)
Fixpoint expr5_of3 (e : expr3) : expr5 :=
  match e with
  | YConst c => VConst c
  | YQuote d => VQuote d
  | YIf c a b => VIf (expr5_of3 c) (expr5_of3 a) (expr5_of3 b)
  | YIf1 c a => VIf1 (expr5_of3 c) (expr5_of3 a)
  | YVar x => VVar x
  | YDefine x e => VDefine x (expr5_of3 e)
  | YSet x e => VSet x (expr5_of3 e)
  | YApp f args => VApp (expr5_of3 f) (map expr5_of3 args)
  | YLam ps fs body => VLam ps fs (expr5_of3 body)
  end.
Lemma cell_of5_of3 e : cell_of5 (expr5_of3 e) = cell_of3 e.
Proof.
  induction e as [c|d|c IHc a IHa b IHb|c IHc a IHa|x|x e IH|x e IH|f args IHf IHargs|ps fs body IH] using expr3_ind2;
    cbn [expr5_of3 cell_of5 cell_of3]; try congruence.
  rewrite IHf. f_equal. rewrite map_map. f_equal.
  induction IHargs as [|y r Hy _ IHr]; cbn [map]; [reflexivity|]. rewrite Hy, IHr. reflexivity.
Qed.

(* ============================================================ values, store *)
(* a closure: parameters, captured names, body, the LOCATIONS of the captured variables *)
Inductive rval5 :=
| R5Base (r : rval)
| R5Clo (ps cs : list text) (body : expr5) (clocs : list nat).

Definition rcell5 (r : rval5) : cell :=
  match r with R5Base b => rcell b | R5Clo _ _ _ _ => CProc None end.
Definition is_false5 (r : rval5) : bool := match r with R5Base b => is_false b | _ => false end.

Definition env5 := text -> option rval5.
Definition upd5 (rho : env5) (x : text) (r : rval5) : env5 :=
  fun y => if text_eqb y x then Some r else rho y.
Definition rho5_empty : env5 := fun _ => None.

(* the store: location l is position l of the list *)
Definition store5 := list rval5.
Fixpoint sset5 (sigma : store5) (l : nat) (r : rval5) : store5 :=
  match sigma, l with
  | [], _ => []
  | _ :: t, O => r :: t
  | x :: t, S l' => x :: sset5 t l' r
  end.
Lemma sset5_length sigma : forall l r, length (sset5 sigma l r) = length sigma.
Proof. induction sigma as [|x t IH]; intros [|l] r; cbn [sset5 length]; auto. Qed.
Lemma sset5_same sigma : forall l r, (l < length sigma)%nat -> nth_error (sset5 sigma l r) l = Some r.
Proof.
  induction sigma as [|x t IH]; intros [|l] r H; cbn [sset5 length nth_error] in *; try lia; [reflexivity|].
  apply IH. lia.
Qed.
Lemma sset5_other sigma : forall l k r, l <> k -> nth_error (sset5 sigma l r) k = nth_error sigma k.
Proof.
  induction sigma as [|x t IH]; intros [|l] [|k] r H; cbn [sset5 nth_error]; try reflexivity; try congruence.
  apply IH. congruence.
Qed.
(* the fresh locations of an activation with n parameters *)
Definition fresh5 (sigma : store5) (n : nat) : list nat := seq (length sigma) n.

(* ============================================================ reference semantics *)
Section Sem5.
Variable bsem : N -> list rval -> option rval.

(* [ref_eval5 sc lv sigma rho e r sigma' rho']: inside a lambda whose environment binds the names
   sc to the locations lv (top level: both empty), with the store sigma and the global
   environment rho, e has the value r and leaves the store sigma' and the globals rho'.  Call by
   value, operands left to right, then the operator (the order of the compiled code). *)
Inductive ref_eval5 : list text -> list nat -> store5 -> env5 -> expr5 -> rval5 -> store5 -> env5 -> Prop :=
| R5_const sc lv sg rho c : ref_eval5 sc lv sg rho (VConst c) (R5Base (RDatum c)) sg rho
| R5_quote sc lv sg rho d : ref_eval5 sc lv sg rho (VQuote d) (R5Base (RDatum d)) sg rho
| R5_local sc lv sg rho x i l r : pindex x sc = Some i -> nth_error lv (N.to_nat i) = Some l ->
    nth_error sg l = Some r ->
    ref_eval5 sc lv sg rho (VVar x) r sg rho
| R5_global sc lv sg rho x r : pindex x sc = None -> rho x = Some r -> r <> R5Base (RDatum CUndef) ->
    ref_eval5 sc lv sg rho (VVar x) r sg rho
| R5_if_t sc lv sg rho c a b rc sg1 rho1 r sg2 rho2 :
    ref_eval5 sc lv sg rho c rc sg1 rho1 -> is_false5 rc = false -> ref_eval5 sc lv sg1 rho1 a r sg2 rho2 ->
    ref_eval5 sc lv sg rho (VIf c a b) r sg2 rho2
| R5_if_f sc lv sg rho c a b rc sg1 rho1 r sg2 rho2 :
    ref_eval5 sc lv sg rho c rc sg1 rho1 -> is_false5 rc = true -> ref_eval5 sc lv sg1 rho1 b r sg2 rho2 ->
    ref_eval5 sc lv sg rho (VIf c a b) r sg2 rho2
| R5_if1_t sc lv sg rho c a rc sg1 rho1 r sg2 rho2 :
    ref_eval5 sc lv sg rho c rc sg1 rho1 -> is_false5 rc = false -> ref_eval5 sc lv sg1 rho1 a r sg2 rho2 ->
    ref_eval5 sc lv sg rho (VIf1 c a) r sg2 rho2
| R5_if1_f sc lv sg rho c a rc sg1 rho1 :
    ref_eval5 sc lv sg rho c rc sg1 rho1 -> is_false5 rc = true ->
    ref_eval5 sc lv sg rho (VIf1 c a) (R5Base (RDatum CVoid)) sg1 rho1
| R5_define sc lv sg rho x e r sg1 rho1 :
    pindex x sc = None -> ref_eval5 sc lv sg rho e r sg1 rho1 ->
    ref_eval5 sc lv sg rho (VDefine x e) (R5Base (RDatum CVoid)) sg1 (upd5 rho1 x r)
| R5_set sc lv sg rho x e r sg1 rho1 old :
    pindex x sc = None -> ref_eval5 sc lv sg rho e r sg1 rho1 -> rho1 x = Some old ->
    ref_eval5 sc lv sg rho (VSet x e) (R5Base (RDatum CVoid)) sg1 (upd5 rho1 x r)
| R5_setl sc lv sg rho x e r sg1 rho1 i l :
    pindex x sc = Some i -> nth_error lv (N.to_nat i) = Some l ->
    ref_eval5 sc lv sg rho e r sg1 rho1 -> (l < length sg1)%nat ->
    ref_eval5 sc lv sg rho (VSetL x e) (R5Base (RDatum CVoid)) (sset5 sg1 l r) rho1
| R5_lam sc lv sg rho ps fs body clocs :
    Forall2 (fun x l => exists i, pindex x sc = Some i /\ nth_error lv (N.to_nat i) = Some l)
            (capnames sc fs) clocs ->
    ref_eval5 sc lv sg rho (VLam ps fs body) (R5Clo ps (capnames sc fs) body clocs) sg rho
| R5_app_builtin sc lv sg rho f args rbs sg1 rho1 b sg2 rho2 r :
    ref_evals5 sc lv sg rho args (map R5Base rbs) sg1 rho1 ->
    ref_eval5 sc lv sg1 rho1 f (R5Base (RBuiltin b)) sg2 rho2 ->
    bsem b rbs = Some r ->
    ref_eval5 sc lv sg rho (VApp f args) (R5Base r) sg2 rho2
| R5_app_closure sc lv sg rho f args rs sg1 rho1 ps cs body clocs sg2 rho2 r sg3 rho3 :
    ref_evals5 sc lv sg rho args rs sg1 rho1 ->
    ref_eval5 sc lv sg1 rho1 f (R5Clo ps cs body clocs) sg2 rho2 ->
    length rs = length ps ->
    ref_eval5 (ps ++ cs) (fresh5 sg2 (length rs) ++ clocs) (sg2 ++ rs) rho2 body r sg3 rho3 ->
    ref_eval5 sc lv sg rho (VApp f args) r sg3 rho3
with ref_evals5 : list text -> list nat -> store5 -> env5 -> list expr5 -> list rval5 -> store5 -> env5 -> Prop :=
| R5_nil sc lv sg rho : ref_evals5 sc lv sg rho [] [] sg rho
| R5_cons sc lv sg rho x r sg1 rho1 xs rs sg2 rho2 :
    ref_eval5 sc lv sg rho x r sg1 rho1 -> ref_evals5 sc lv sg1 rho1 xs rs sg2 rho2 ->
    ref_evals5 sc lv sg rho (x :: xs) (r :: rs) sg2 rho2.

Scheme ref_eval5_mut := Induction for ref_eval5 Sort Prop
  with ref_evals5_mut := Induction for ref_evals5 Sort Prop.
Scheme ref_eval5_min := Minimality for ref_eval5 Sort Prop
  with ref_evals5_min := Minimality for ref_evals5 Sort Prop.

(* the store only grows: no location is ever deallocated *)
Lemma ref_eval5_store_grows :
  (forall sc lv sg rho e r sg' rho', ref_eval5 sc lv sg rho e r sg' rho' -> (length sg <= length sg')%nat) /\
  (forall sc lv sg rho es rs sg' rho', ref_evals5 sc lv sg rho es rs sg' rho' -> (length sg <= length sg')%nat).
Proof.
  split.
  - apply (ref_eval5_min
      (fun _ _ sg _ _ _ sg' _ => (length sg <= length sg')%nat)
      (fun _ _ sg _ _ _ sg' _ => (length sg <= length sg')%nat)); intros; try lia.
    + rewrite sset5_length. lia.
    + rewrite app_length in *. lia.
  - apply (ref_evals5_min
      (fun _ _ sg _ _ _ sg' _ => (length sg <= length sg')%nat)
      (fun _ _ sg _ _ _ sg' _ => (length sg <= length sg')%nat)); intros; try lia.
    + rewrite sset5_length. lia.
    + rewrite app_length in *. lia.
Qed.
End Sem5.

(* ============================================================ well-formedness *)
Definition is_define5 (e : expr5) : bool := match e with VDefine _ _ => true | _ => false end.
Fixpoint allvars5 (e : expr5) : list text :=
  match e with
  | VConst _ | VQuote _ => []
  | VIf c a b => allvars5 c ++ allvars5 a ++ allvars5 b
  | VIf1 c a => allvars5 c ++ allvars5 a
  | VVar x => [x]
  | VDefine x e | VSet x e | VSetL x e => x :: allvars5 e
  | VApp f args => allvars5 f ++ flat_map allvars5 args
  | VLam _ _ body => allvars5 body
  end.
(* as [wf3]; the target of [VDefine]/[VSet] is not bound by the scope, the target of [VSetL] is *)
Fixpoint wf5 (e : expr5) (sc : list text) {struct e} : Prop :=
  match e with
  | VConst c => self_eval c = true /\ heap_datum c
  | VQuote d => heap_datum d
  | VIf c a b => wf5 c sc /\ wf5 a sc /\ wf5 b sc
  | VIf1 c a => wf5 c sc /\ wf5 a sc
  | VVar x => is_primitive_symbol (CSym x) = false
  | VDefine x e | VSet x e => is_primitive_symbol (CSym x) = false /\ pindex x sc = None /\ wf5 e sc
  | VSetL x e => is_primitive_symbol (CSym x) = false /\ bound_in sc x = true /\ wf5 e sc
  | VApp f args => special_head (cell_of5 f) = false /\ wf5 f sc /\
                   (fix all (l : list expr5) : Prop := match l with [] => True | x :: r => wf5 x sc /\ all r end) args
  | VLam ps fs body =>
      (forall x, In x ps -> is_primitive_symbol (CSym x) = false) /\ is_define5 body = false /\
      free_symbols (lam_cell ps (cell_of5 body)) = Ok (map CSym fs) /\
      (forall x, In x (allvars5 body) -> In x ps \/ bound_in sc x = false \/ In x fs) /\
      wf5 body (ps ++ capnames sc fs)
  end.

(* ============================================================ examples *)
Definition n5 : text := S_ "n".
Definition u5 : text := S_ "u".
Definition f5 : text := S_ "f".
Definition T5 : expr5 := VConst (CBool true).
Definition F5 : expr5 := VConst (CBool false).
Definition vT5 : rval5 := R5Base (RDatum (CBool true)).
Definition vF5 : rval5 := R5Base (RDatum (CBool false)).
Definition vVoid5 : rval5 := R5Base (RDatum CVoid).

(* (lambda (u) n): returns the current content of the captured n *)
Definition get5 : expr5 := VLam [u5] [n5] (VVar n5).

(* (a)  ((lambda (n) ((lambda (u) n) (set! n #t))) #f)  — set! on a parameter that the lambda
   executing the set! owns (direct slot), in operand position; observed afterwards through a
   closure that captures n *)
Definition ex5a_body : expr5 := VApp get5 [VSetL n5 T5].
Definition ex5a : expr5 := VApp (VLam [n5] [] ex5a_body) [F5].

(* (b)  ((lambda (n) ((lambda (f) ((lambda (u) n) (f))) (lambda () (set! n #t)))) #f)  — set!
   through a CAPTURED variable (the thunk f), observed by another closure over the same n *)
Definition setter5 : expr5 := VLam [] [n5] (VSetL n5 T5).
Definition ex5b_inner : expr5 := VApp get5 [VApp (VVar f5) []].
Definition ex5b_body : expr5 := VApp (VLam [f5] [n5] ex5b_inner) [setter5].
Definition ex5b : expr5 := VApp (VLam [n5] [] ex5b_body) [F5].

Ltac in_cases5 H := repeat (destruct H as [<-|H]; [|]); try contradiction.

Lemma ex5a_wf : wf5 ex5a [].
Proof.
  cbn [wf5 ex5a ex5a_body get5 T5 F5 cell_of5 is_define5 allvars5 app flat_map].
  split; [reflexivity|]. split; [|split; [split; [reflexivity|exact I]|exact I]].
  split; [intros x Hx; in_cases5 Hx; reflexivity|]. split; [reflexivity|]. split; [vm_compute; reflexivity|].
  split; [intros x Hx; in_cases5 Hx; left; left; reflexivity|].
  split; [reflexivity|]. split.
  - split; [intros x Hx; in_cases5 Hx; reflexivity|]. split; [reflexivity|]. split; [vm_compute; reflexivity|].
    split; [intros x Hx; in_cases5 Hx; right; right; left; reflexivity|]. reflexivity.
  - split; [|exact I]. split; [reflexivity|]. split; [reflexivity|]. split; [reflexivity|exact I].
Qed.

Lemma ex5a_ref bsem :
  ref_eval5 bsem [] [] [] rho5_empty ex5a vT5 [vT5; vVoid5] rho5_empty.
Proof.
  unfold ex5a. eapply R5_app_closure.
  - eapply R5_cons; [apply R5_const|apply R5_nil].
  - apply R5_lam. constructor.
  - reflexivity.
  - (* the body, n at location 0 *)
    unfold ex5a_body. eapply R5_app_closure.
    + eapply R5_cons; [|apply R5_nil].
      eapply (R5_setl bsem _ _ _ _ n5 T5 _ _ _ 0 0%nat); [reflexivity|reflexivity|apply R5_const|cbn; lia].
    + unfold get5. apply R5_lam.
      constructor; [exists 0; split; reflexivity|constructor].
    + reflexivity.
    + (* n is slot 1 of the inner activation, still location 0 *)
      eapply (R5_local bsem _ _ _ _ n5 1 0%nat); reflexivity.
Qed.

Lemma ex5b_wf : wf5 ex5b [].
Proof.
  cbn [wf5 ex5b ex5b_body ex5b_inner setter5 get5 T5 F5 cell_of5 is_define5 allvars5 app flat_map].
  split; [reflexivity|]. split; [|split; [split; [reflexivity|exact I]|exact I]].
  split; [intros x Hx; in_cases5 Hx; reflexivity|]. split; [reflexivity|]. split; [vm_compute; reflexivity|].
  split; [intros x Hx; in_cases5 Hx; first [left; left; reflexivity|left; right; left; reflexivity|right; left; reflexivity]|].
  split; [reflexivity|]. split.
  - split; [intros x Hx; in_cases5 Hx; reflexivity|]. split; [reflexivity|]. split; [vm_compute; reflexivity|].
    split; [intros x Hx; in_cases5 Hx; first [left; left; reflexivity|right; right; left; reflexivity]|].
    split; [reflexivity|]. split.
    + split; [intros x Hx; in_cases5 Hx; reflexivity|]. split; [reflexivity|]. split; [vm_compute; reflexivity|].
      split; [intros x Hx; in_cases5 Hx; right; right; left; reflexivity|]. reflexivity.
    + split; [|exact I]. split; [reflexivity|]. split; [reflexivity|exact I].
  - split; [|exact I]. split; [intros x []|]. split; [reflexivity|]. split; [vm_compute; reflexivity|].
    split; [intros x Hx; in_cases5 Hx; right; right; left; reflexivity|].
    split; [reflexivity|]. split; [reflexivity|]. split; [reflexivity|exact I].
Qed.

Definition setter5_val : rval5 := R5Clo [] [n5] (VSetL n5 T5) [0%nat].

Lemma ex5b_ref bsem :
  ref_eval5 bsem [] [] [] rho5_empty ex5b vT5 [vT5; setter5_val; vVoid5] rho5_empty.
Proof.
  unfold ex5b. eapply R5_app_closure.
  - eapply R5_cons; [apply R5_const|apply R5_nil].
  - apply R5_lam. constructor.
  - reflexivity.
  - (* n at location 0 *)
    unfold ex5b_body. eapply R5_app_closure.
    + eapply R5_cons; [|apply R5_nil]. unfold setter5. apply R5_lam.
      constructor; [exists 0; split; reflexivity|constructor].
    + apply R5_lam. constructor; [exists 0; split; reflexivity|constructor].
    + reflexivity.
    + (* f at location 1 holds the setter; n is slot 1, location 0 *)
      unfold ex5b_inner. eapply R5_app_closure.
      * eapply R5_cons; [|apply R5_nil].
        (* (f): the body of the setter runs with n = slot 0 -> location 0 *)
        eapply R5_app_closure.
        -- apply R5_nil.
        -- eapply (R5_local bsem _ _ _ _ f5 0 1%nat); reflexivity.
        -- reflexivity.
        -- eapply (R5_setl bsem _ _ _ _ n5 T5 _ _ _ 0 0%nat); [reflexivity|reflexivity|apply R5_const|cbn; lia].
      * unfold get5. apply R5_lam.
        constructor; [exists 1; split; reflexivity|constructor].
      * reflexivity.
      * eapply (R5_local bsem _ _ _ _ n5 1 0%nat); reflexivity.
Qed.

(* ============================================================ the model on the examples *)
(* the macro expander leaves both forms alone, and Vm::eval computes #t, registers back at their
   initial values *)
Lemma ex5a_run :
  match eval other_builtin 300 (cell_of5 ex5a) (vm_empty 8192) with
  | ROk (Done c) s' => c = CBool true /\ sp s' = 0 /\ bp s' = 0 /\ ep s' = USIZE_MAX
  | _ => False
  end.
Proof. vm_compute. repeat split. Qed.
Lemma ex5b_run :
  match eval other_builtin 300 (cell_of5 ex5b) (vm_empty 8192) with
  | ROk (Done c) s' => c = CBool true /\ sp s' = 0 /\ bp s' = 0 /\ ep s' = USIZE_MAX
  | _ => False
  end.
Proof. vm_compute. repeat split. Qed.
Lemma ex5_transform :
  transform_expr TRANSFORM_FUEL (vm_empty 8192) (cell_of5 ex5a) = Ok (cell_of5 ex5a) /\
  transform_expr TRANSFORM_FUEL (vm_empty 8192) (cell_of5 ex5b) = Ok (cell_of5 ex5b).
Proof. split; vm_compute; reflexivity. Qed.

(* the counter without numeric builtins, as a pure model run (a lambda body of two expressions
   is outside [expr5]): n toggles #f -> #t -> #f, the value of the second (inc) is #f; with a
   third call it is #t *)
Definition counter_src : text :=
  S_ "((lambda (n) ((lambda (inc) (inc) (inc)) (lambda () (set! n (if n #f #t)) n))) #f)"%string.
Definition counter_datum : cell := match parse_text counter_src with Ok (d, _) => d | _ => CNil end.
Lemma counter_run :
  match eval other_builtin 300 counter_datum (vm_empty 8192) with
  | ROk (Done c) s' => c = CBool false /\ sp s' = 0 /\ bp s' = 0 /\ ep s' = USIZE_MAX
  | _ => False
  end.
Proof. vm_compute. repeat split. Qed.
Definition counter3_src : text :=
  S_ "((lambda (n) ((lambda (inc) (inc) (inc) (inc)) (lambda () (set! n (if n #f #t)) n))) #f)"%string.
Definition counter3_datum : cell := match parse_text counter3_src with Ok (d, _) => d | _ => CNil end.
Lemma counter3_run :
  match eval other_builtin 300 counter3_datum (vm_empty 8192) with
  | ROk (Done c) s' => c = CBool true /\ sp s' = 0 /\ bp s' = 0 /\ ep s' = USIZE_MAX
  | _ => False
  end.
Proof. vm_compute. repeat split. Qed.
(* one (inc): #t *)
Definition counter1_src : text :=
  S_ "((lambda (n) ((lambda (inc) (inc)) (lambda () (set! n (if n #f #t)) n))) #f)"%string.
Definition counter1_datum : cell := match parse_text counter1_src with Ok (d, _) => d | _ => CNil end.
Lemma counter1_run :
  match eval other_builtin 300 counter1_datum (vm_empty 8192) with
  | ROk (Done c) s' => c = CBool true /\ sp s' = 0 /\ bp s' = 0 /\ ep s' = USIZE_MAX
  | _ => False
  end.
Proof. vm_compute. repeat split. Qed.
