(* SymtabProofs.v — C18: the interning invariant of the heap and its preservation by
   every heap operation (alloc, put, maybe_put, put_cell, free, sweep, grow). *)
From Coq Require Import Lia FMapPositive.
From MW Require Import Model.Base Model.F64 Model.Num Model.Datum Model.TransformDef
  Model.VmTypes Model.Heap Model.Gc Proofs.GcProofs.
Open Scope N_scope.

(* [hi_symtab] is the property's statement: the table maps a name to an address iff that
   cell is allocated (not Free) and holds the symbol of that name.  The other fields are
   what the heap operations need in order to preserve it. *)
Record heap_inv (h : heap) : Prop := {
  hi_symtab : forall n a, symtab_find (symtab h) n = Some a <->
                (a < hlen h /\ g_get (gcmap h) a <> GFree /\ cell_at h a = VSym n);
  hi_free_sound : forall a, In a (free_list h) -> a < hlen h /\ g_get (gcmap h) a = GFree;
  hi_free_nodup : NoDup (free_list h);
  hi_free_undef : forall a, g_get (gcmap h) a = GFree -> cell_at h a = VUndef;
  hi_range : forall a, hlen h <= a -> g_get (gcmap h) a = GFree;
  hi_chunk : 0 < chunk h /\ chunk h <= hlen h
}.

Definition allocated (h : heap) (a : N) : Prop := a < hlen h /\ g_get (gcmap h) a <> GFree.

(* at most one allocated cell per name; same name iff same cell *)
Theorem same_name_iff_same_cell : forall h a a' n n',
  heap_inv h -> allocated h a -> allocated h a' ->
  cell_at h a = VSym n -> cell_at h a' = VSym n' -> (n = n' <-> a = a').
Proof.
  intros h a a' n n' HI [L N0] [L' N0'] C C'. split.
  - intros <-.
    assert (E : symtab_find (symtab h) n = Some a) by (apply (hi_symtab h HI); auto).
    assert (E' : symtab_find (symtab h) n = Some a') by (apply (hi_symtab h HI); auto).
    congruence.
  - intros <-. congruence.
Qed.

Lemma cell_at_set : forall h p v a,
  cell_at (mk_heap (tset (cells h) p v) (hlen h) (free_list h) (gcmap h) (symtab h) (chunk h)) a
  = if a =? p then v else cell_at h a.
Proof.
  intros. unfold cell_at. cbn [cells].
  destruct (N.eqb_spec a p) as [->|Hne]; [now rewrite tget_tset_same|].
  now rewrite tget_tset_other by congruence.
Qed.

Lemma cell_at_set' : forall c l f g st ch p v a,
  cell_at (mk_heap (tset c p v) l f g st ch) a
  = if a =? p then v else match tget c a with Some x => x | None => VUndef end.
Proof.
  intros. unfold cell_at. cbn [cells].
  destruct (N.eqb_spec a p) as [->|Hne]; [now rewrite tget_tset_same|].
  now rewrite tget_tset_other by congruence.
Qed.

Lemma NoDup_app_intro : forall A (l1 l2 : list A),
  NoDup l1 -> NoDup l2 -> (forall a, In a l1 -> In a l2 -> False) -> NoDup (l1 ++ l2).
Proof.
  induction l1 as [|x r IH]; intros l2 H1 H2 D; [assumption|].
  inversion H1; subst. cbn. constructor.
  - intros Hin. apply in_app_or in Hin as [Hin|Hin]; [contradiction|].
    apply (D x); [now left|assumption].
  - apply IH; try assumption. intros a Ha. apply D. now right.
Qed.

(* ---- Heap::new *)
Lemma range_asc_lt : forall n a x, In x (range_asc a n) -> a <= x < a + N.of_nat n.
Proof. intros. now apply in_range_asc. Qed.

Theorem heap_inv_new : forall c, 0 < c -> heap_inv (heap_new c).
Proof.
  intros c Hc. unfold heap_new. constructor; cbn [symtab hlen gcmap cells free_list chunk].
  - intros n a. cbn. split; [discriminate|]. intros [_ [H _]]. unfold g_get in H.
    now rewrite tget_tempty in H.
  - intros a Ha. apply in_range_asc in Ha. rewrite N2Nat.id in Ha. split; [lia|].
    unfold g_get. now rewrite tget_tempty.
  - apply range_asc_nodup.
  - intros a _. unfold cell_at. cbn. now rewrite tget_tempty.
  - intros a _. unfold g_get. now rewrite tget_tempty.
  - lia.
Qed.

(* ---- Heap::grow *)
Lemma grow_size : forall h, 0 < chunk h -> chunk h <= hlen h ->
  hlen h < ((hlen h / chunk h * 3 + 1) / 2) * chunk h.
Proof.
  intros h H0 H1.
  pose proof (N.div_mod' (hlen h) (chunk h)) as D.
  pose proof (N.mod_lt (hlen h) (chunk h)) as M.
  assert (Q : 1 <= hlen h / chunk h) by (apply N.div_le_lower_bound; lia).
  set (q := hlen h / chunk h) in *.
  assert (q + 1 <= (q * 3 + 1) / 2) by (apply N.div_le_lower_bound; lia).
  nia.
Qed.

Theorem heap_inv_grow : forall h, heap_inv h -> heap_inv (heap_grow h).
Proof.
  intros h HI. pose proof (hi_chunk h HI) as [C0 C1]. pose proof (grow_size h C0 C1) as G.
  unfold heap_grow. set (new := (hlen h / chunk h * 3 + 1) / 2 * chunk h) in *.
  constructor; cbn [symtab hlen gcmap cells free_list chunk].
  - intros n a. rewrite (hi_symtab h HI). unfold cell_at. cbn [cells]. split.
    + intros [L R]. split; [lia|assumption].
    + intros [L [N0 C]]. split; [|now split].
      destruct (N.lt_ge_cases a (hlen h)) as [?|Hge]; [assumption|].
      now rewrite (hi_range h HI a Hge) in N0.
  - intros a Ha. apply in_app_or in Ha as [Ha|Ha].
    + apply in_rev, in_range_asc in Ha. rewrite N2Nat.id in Ha.
      split; [lia|]. apply (hi_range h HI). lia.
    + destruct (hi_free_sound h HI a Ha). split; [lia|assumption].
  - apply NoDup_app_intro.
    + apply NoDup_rev, range_asc_nodup.
    + apply (hi_free_nodup h HI).
    + intros a Ha Hb. apply in_rev, in_range_asc in Ha.
      destruct (hi_free_sound h HI a Hb). lia.
  - intros a Ha. apply (hi_free_undef h HI a Ha).
  - intros a Ha. apply (hi_range h HI). lia.
  - lia.
Qed.

(* ---- Heap::alloc *)
Lemma heap_inv_pop : forall h p fl, heap_inv h -> free_list h = p :: fl ->
  heap_inv (mk_heap (cells h) (hlen h) fl (tset (gcmap h) p GAllocated) (symtab h) (chunk h))
  /\ p < hlen h /\ cell_at h p = VUndef /\ g_get (gcmap h) p = GFree.
Proof.
  intros h p fl HI E.
  assert (Hp : p < hlen h /\ g_get (gcmap h) p = GFree)
    by (apply (hi_free_sound h HI); rewrite E; now left).
  destruct Hp as [Lp Fp]. pose proof (hi_free_undef h HI p Fp) as Up.
  pose proof (hi_free_nodup h HI) as ND. rewrite E in ND. inversion ND as [|x r Nin ND']; subst.
  split; [|auto]. constructor; cbn [symtab hlen gcmap cells free_list chunk].
  - intros n a. rewrite (hi_symtab h HI). unfold cell_at at 2. cbn [cells]. fold (cell_at h a).
    destruct (N.eq_dec a p) as [->|Hne].
    + rewrite g_get_tset_same. split.
      * intros [_ [N0 _]]. congruence.
      * intros [_ [_ C]]. congruence.
    + now rewrite g_get_tset_other by congruence.
  - intros a Ha. destruct (N.eq_dec a p) as [->|Hne]; [contradiction|].
    rewrite g_get_tset_other by congruence. apply (hi_free_sound h HI). rewrite E. now right.
  - assumption.
  - intros a Ha. destruct (N.eq_dec a p) as [->|Hne].
    + rewrite g_get_tset_same in Ha. discriminate.
    + rewrite g_get_tset_other in Ha by congruence. apply (hi_free_undef h HI a Ha).
  - intros a Ha. rewrite g_get_tset_other by lia. now apply (hi_range h HI).
  - apply (hi_chunk h HI).
Qed.

Lemma grow_free_nonempty : forall h, heap_inv h -> free_list (heap_grow h) <> [].
Proof.
  intros h HI. pose proof (hi_chunk h HI) as [C0 C1]. pose proof (grow_size h C0 C1) as G.
  unfold heap_grow. cbn [free_list].
  set (new := (hlen h / chunk h * 3 + 1) / 2 * chunk h) in *.
  destruct (N.to_nat (new - hlen h)) eqn:En; [lia|].
  cbn [range_asc rev]. intros H. apply app_eq_nil in H as [H _]. apply app_eq_nil in H as [_ H].
  discriminate.
Qed.

Theorem heap_inv_alloc : forall h p h', heap_inv h -> heap_alloc h = (p, h') ->
  heap_inv h' /\ p < hlen h' /\ cell_at h' p = VUndef /\ g_get (gcmap h') p = GAllocated
  /\ symtab h' = symtab h
  /\ (forall a, a <> p -> g_get (gcmap h') a = g_get (gcmap (match free_list h with [] => heap_grow h | _ => h end)) a).
Proof.
  intros h p h' HI H. unfold heap_alloc in H.
  set (h1 := match free_list h with [] => heap_grow h | _ :: _ => h end) in *.
  assert (HI1 : heap_inv h1) by (unfold h1; destruct (free_list h); [now apply heap_inv_grow|assumption]).
  assert (NE : free_list h1 <> []).
  { unfold h1. destruct (free_list h) eqn:E; [now apply grow_free_nonempty|]. rewrite E. discriminate. }
  assert (ST : symtab h1 = symtab h) by (unfold h1; now destruct (free_list h)).
  destruct (free_list h1) as [|q fl] eqn:E1; [contradiction|]. injection H as <- <-.
  destruct (heap_inv_pop h1 q fl HI1 E1) as [HI2 [L [U F]]].
  split; [assumption|]. cbn [hlen gcmap symtab].
  split; [exact L|]. split; [unfold cell_at in *; cbn [cells]; exact U|].
  split; [apply g_get_tset_same|]. split; [exact ST|].
  intros a Hne. apply g_get_tset_other. congruence.
Qed.

(* storing a non-symbol value in a fresh cell *)
Lemma heap_inv_store : forall h p v, heap_inv h -> p < hlen h -> g_get (gcmap h) p <> GFree ->
  (forall n, cell_at h p <> VSym n) -> (forall n, v <> VSym n) ->
  heap_inv (mk_heap (tset (cells h) p v) (hlen h) (free_list h) (gcmap h) (symtab h) (chunk h)).
Proof.
  intros h p v HI L N0 Cold Cnew. constructor; cbn [symtab hlen gcmap free_list chunk].
  - intros n a. rewrite (hi_symtab h HI), cell_at_set.
    destruct (N.eqb_spec a p) as [->|Hne]; [|reflexivity].
    split; intros [_ [_ C]]; exfalso; [now apply (Cold n)|now apply (Cnew n)].
  - apply (hi_free_sound h HI).
  - apply (hi_free_nodup h HI).
  - intros a Ha. rewrite cell_at_set. destruct (N.eqb_spec a p) as [->|Hne]; [contradiction|].
    now apply (hi_free_undef h HI).
  - apply (hi_range h HI).
  - apply (hi_chunk h HI).
Qed.

Theorem heap_inv_store_new : forall h v p h', heap_inv h -> (forall n, v <> VSym n) ->
  heap_store_new h v = (p, h') -> heap_inv h' /\ symtab h' = symtab h.
Proof.
  intros h v p h' HI Hv H. unfold heap_store_new in H.
  destruct (heap_alloc h) as [q h1] eqn:Ea. injection H as <- <-.
  destruct (heap_inv_alloc h q h1 HI Ea) as [HI1 [L [U [A [ST _]]]]].
  split; [|assumption]. apply heap_inv_store; try assumption; congruence.
Qed.

(* ---- Heap::put / maybe_put *)
Theorem heap_inv_put : forall h v r h', heap_inv h -> heap_put h v = (r, h') -> heap_inv h'.
Proof.
  intros h v r h' HI H. unfold heap_put in H.
  destruct v; try (destruct (heap_store_new h _) as [q h1] eqn:Es; injection H as <- <-;
                   apply (heap_inv_store_new _ _ _ _ HI) in Es as [? _]; [assumption|discriminate]);
    try (injection H as <- <-; assumption).
  (* VSym *)
  destruct (symtab_find (symtab h) s) as [q|] eqn:Ef; [injection H as <- <-; assumption|].
  unfold heap_store_new in H. destruct (heap_alloc h) as [q h1] eqn:Ea. injection H as <- <-.
  destruct (heap_inv_alloc h q h1 HI Ea) as [HI1 [L [U [A [ST _]]]]].
  constructor; cbn [symtab hlen gcmap free_list chunk cells].
  - intros n a. cbn [symtab_find]. rewrite cell_at_set'.
    change (match tget (cells h1) a with Some x => x | None => VUndef end) with (cell_at h1 a).
    destruct (text_eqb s n) eqn:En.
    + apply text_eqb_eq in En. subst n. split.
      * intros E. injection E as <-. rewrite N.eqb_refl. repeat split; [assumption|congruence].
      * intros [La [Na Ca]]. destruct (N.eqb_spec a q) as [->|Hne]; [reflexivity|].
        exfalso. assert (symtab_find (symtab h1) s = Some a) by (apply (hi_symtab h1 HI1); auto).
        rewrite ST in H. congruence.
    + rewrite (hi_symtab h1 HI1). destruct (N.eqb_spec a q) as [->|Hne]; [|reflexivity].
      split.
      * intros [_ [_ C]]. congruence.
      * intros [_ [_ C]]. injection C as ->. rewrite text_eqb_refl in En. discriminate.
  - apply (hi_free_sound h1 HI1).
  - apply (hi_free_nodup h1 HI1).
  - intros a Ha. rewrite cell_at_set'.
    change (match tget (cells h1) a with Some x => x | None => VUndef end) with (cell_at h1 a).
    destruct (N.eqb_spec a q) as [->|Hne]; [congruence|].
    now apply (hi_free_undef h1 HI1).
  - apply (hi_range h1 HI1).
  - apply (hi_chunk h1 HI1).
Qed.

Theorem heap_inv_maybe_put : forall h v r h', heap_inv h -> heap_maybe_put h v = (r, h') -> heap_inv h'.
Proof.
  intros h v r h' HI H. unfold heap_maybe_put in H.
  destruct v; try (injection H as <- <-; assumption); now apply heap_inv_put in H.
Qed.

(* interning: putting a symbol yields an allocated cell holding it, and putting the same
   name again yields the same cell *)
Theorem heap_put_sym : forall h n r h', heap_inv h -> heap_put h (VSym n) = (r, h') ->
  exists p, r = VPtr p /\ allocated h' p /\ cell_at h' p = VSym n
            /\ heap_put h' (VSym n) = (VPtr p, h').
Proof.
  intros h n r h' HI H. pose proof (heap_inv_put _ _ _ _ HI H) as HI'.
  unfold heap_put in H. destruct (symtab_find (symtab h) n) as [q|] eqn:Ef.
  - injection H as <- <-. exists q. apply (hi_symtab h HI) in Ef as Hq. destruct Hq as [L [N0 C]].
    repeat split; try assumption. unfold heap_put. now rewrite Ef.
  - unfold heap_store_new in H. destruct (heap_alloc h) as [q h1] eqn:Ea. injection H as <- <-.
    exists q.
    assert (Ef' : symtab_find (symtab (mk_heap (tset (cells h1) q (VSym n)) (hlen h1) (free_list h1)
                    (gcmap h1) ((n, q) :: symtab h1) (chunk h1))) n = Some q)
      by (cbn; now rewrite text_eqb_refl).
    apply (hi_symtab _ HI') in Ef' as Hq. destruct Hq as [L [N0 C]].
    repeat split; try assumption. unfold heap_put. now rewrite Ef'.
Qed.

(* ---- Heap::free *)
Theorem heap_inv_free : forall h p h', heap_inv h -> g_get (gcmap h) p <> GFree ->
  heap_free h p = Ok h' -> heap_inv h'.
Proof.
  intros h p h' HI N0 H. unfold heap_free in H.
  destruct (N.ltb_spec p (hlen h)) as [L|]; [|discriminate]. injection H as <-.
  constructor; cbn [symtab hlen gcmap free_list chunk cells].
  - intros n a. rewrite cell_at_set'; change (match tget (cells h) a with Some x => x | None => VUndef end) with (cell_at h a).
    assert (Hsym : symtab_find (match cell_at h p with VSym sym => symtab_remove (symtab h) sym | _ => symtab h end) n
                   = if holds_sym (cell_at h p) n then None else symtab_find (symtab h) n).
    { destruct (cell_at h p); cbn [holds_sym]; try reflexivity. apply symtab_find_remove. }
    rewrite Hsym. destruct (N.eqb_spec a p) as [->|Hne].
    + rewrite g_get_tset_same. split.
      * destruct (holds_sym (cell_at h p) n) eqn:Eh; [discriminate|].
        intros E. apply (hi_symtab h HI) in E as [_ [_ C]]. rewrite C in Eh. cbn in Eh.
        rewrite text_eqb_refl in Eh. discriminate.
      * intros [_ [? _]]. congruence.
    + rewrite g_get_tset_other by congruence.
      destruct (holds_sym (cell_at h p) n) eqn:Eh.
      * split; [discriminate|]. intros [La [Na Ca]]. exfalso.
        destruct (cell_at h p) eqn:Cp; cbn in Eh; try discriminate.
        apply text_eqb_eq in Eh. subst s.
        assert (E1 : symtab_find (symtab h) n = Some a) by (apply (hi_symtab h HI); auto).
        assert (E2 : symtab_find (symtab h) n = Some p) by (apply (hi_symtab h HI); auto).
        congruence.
      * apply (hi_symtab h HI).
  - intros a [<-|Ha].
    + split; [assumption|apply g_get_tset_same].
    + destruct (hi_free_sound h HI a Ha) as [La Fa]. split; [assumption|].
      destruct (N.eq_dec p a) as [->|Hne]; [apply g_get_tset_same|]. now rewrite g_get_tset_other.
  - constructor; [|apply (hi_free_nodup h HI)]. intros Hin.
    destruct (hi_free_sound h HI p Hin). contradiction.
  - intros a Ha. rewrite cell_at_set'; change (match tget (cells h) a with Some x => x | None => VUndef end) with (cell_at h a). destruct (N.eqb_spec a p) as [->|Hne]; [reflexivity|].
    rewrite g_get_tset_other in Ha by congruence. now apply (hi_free_undef h HI).
  - intros a Ha. rewrite g_get_tset_other by lia. now apply (hi_range h HI).
  - apply (hi_chunk h HI).
Qed.

(* ---- sweep *)
Lemma heap_inv_sweep_step : forall h it h', heap_inv h -> sweep_step h it = Ok h' -> heap_inv h'.
Proof.
  intros h it h' HI H. unfold sweep_step in H. destruct (g_get (gcmap h) it) eqn:Eg.
  - injection H as <-. assumption.
  - eapply heap_inv_free; [eassumption| |eassumption]. congruence.
  - injection H as <-. unfold set_gcmap.
    constructor; cbn [symtab hlen gcmap free_list chunk cells].
    + intros n a. rewrite (hi_symtab h HI). unfold cell_at. cbn [cells].
      destruct (N.eq_dec it a) as [->|Hne].
      * rewrite g_get_tset_same, Eg. split; intros [? [? ?]]; repeat split; congruence.
      * now rewrite g_get_tset_other.
    + intros a Ha. destruct (hi_free_sound h HI a Ha) as [La Fa]. split; [assumption|].
      destruct (N.eq_dec it a) as [->|Hne]; [congruence|]. now rewrite g_get_tset_other.
    + apply (hi_free_nodup h HI).
    + intros a Ha. destruct (N.eq_dec it a) as [->|Hne].
      * rewrite g_get_tset_same in Ha. discriminate.
      * rewrite g_get_tset_other in Ha by assumption. unfold cell_at. cbn [cells].
        now apply (hi_free_undef h HI).
    + intros a Ha. destruct (N.eq_dec it a) as [->|Hne].
      * pose proof (hi_range h HI a Ha). congruence.
      * rewrite g_get_tset_other by assumption. now apply (hi_range h HI).
    + apply (hi_chunk h HI).
Qed.

Theorem heap_inv_sweep : forall h h', heap_inv h -> sweep h = Ok h' -> heap_inv h'.
Proof.
  intros h h'. unfold sweep. generalize (N.to_nat (hlen h)) as n, 0 as it. intros n. revert h.
  induction n as [|n IH]; intros h it HI H.
  - cbn in H. now injection H as <-.
  - rewrite sweep_from_unfold in H. apply bind_ok_inv in H as [h1 [H1 H2]].
    apply (IH h1 (it + 1)); [|assumption]. now apply heap_inv_sweep_step in H1.
Qed.

(* marking only changes states of cells that are not Free (no dangling reference):
   then the invariant survives the whole collection *)
Lemma heap_inv_set_gcmap : forall h m, heap_inv h ->
  (forall a, g_get m a = g_get (gcmap h) a \/ (g_get m a <> GFree /\ g_get (gcmap h) a <> GFree)) ->
  heap_inv (set_gcmap h m).
Proof.
  intros h m HI F. unfold set_gcmap. constructor; cbn [symtab hlen gcmap free_list chunk cells].
  - intros n a. rewrite (hi_symtab h HI). unfold cell_at. cbn [cells].
    destruct (F a) as [->|[A B]]; [reflexivity|]. tauto.
  - intros a Ha. destruct (hi_free_sound h HI a Ha) as [La Fa]. split; [assumption|].
    destruct (F a) as [->|[A B]]; [assumption|contradiction].
  - apply (hi_free_nodup h HI).
  - intros a Ha. unfold cell_at. cbn [cells]. apply (hi_free_undef h HI).
    destruct (F a) as [<-|[A B]]; [assumption|contradiction].
  - intros a Ha. destruct (F a) as [->|[A B]]; [now apply (hi_range h HI)|].
    now rewrite (hi_range h HI a Ha) in B.
  - apply (hi_chunk h HI).
Qed.

Theorem heap_inv_collect : forall vd fuel order v h',
  heap_inv (hp v) -> no_used (hp v) ->
  (forall a, a < hlen (hp v) -> reach_from (hp v) (st v) (root order v) a ->
             g_get (gcmap (hp v)) a <> GFree) ->                    (* no_dangling *)
  collect vd fuel order v = Ok h' -> heap_inv h'.
Proof.
  intros vd fuel order v h' HI Hnu ND H. apply collect_inv in H as [m [Hm Hs]].
  apply heap_inv_sweep in Hs; [assumption|]. apply heap_inv_set_gcmap; [assumption|].
  intros a. pose proof (mark_roots_spec _ _ _ _ _ _ Hm) as MS.
  destruct (ms_frame _ _ _ _ _ MS a) as [E|[U [L _]]]; [now left|]. right.
  pose proof (proj1 (mark_exact vd fuel order v _ m Hnu Hm a) U) as [_ R].
  apply g_is_used_get in U. split; [congruence|now apply ND].
Qed.

(* C03/C18: a reachable allocated symbol keeps its cell and its table entry across a
   collection (symbols keep their identity) *)
Theorem gc_preserves_symbols : forall vd fuel order v h' a n,
  heap_inv (hp v) -> no_used (hp v) ->
  collect vd fuel order v = Ok h' ->
  a < hlen (hp v) -> reach_from (hp v) (st v) (root order v) a ->
  g_get (gcmap (hp v)) a <> GFree -> cell_at (hp v) a = VSym n ->
  symtab_find (symtab h') n = Some a /\ cell_at h' a = VSym n /\ g_get (gcmap h') a = GAllocated.
Proof.
  intros vd fuel order v h' a n HI Hnu H L R N0 C.
  destruct (gc_preserves_live vd fuel order v h' Hnu H a L R) as [GA CA].
  split; [|split; [congruence|assumption]].
  apply collect_inv in H as [m [Hm Hs]].
  pose proof (mark_roots_spec _ _ _ _ _ _ Hm) as MS.
  destruct (sweep_exact (set_gcmap (hp v) m)) as [h2 [E2 [_ [_ [_ [_ [_ SY]]]]]]].
  rewrite Hs in E2. injection E2 as <-. rewrite SY. cbn [set_gcmap gcmap symtab hlen].
  assert (Ex : existsb (fun b => st_alloc (g_get m b) && holds_sym (cell_at (set_gcmap (hp v) m) b) n)
                       (range_asc 0 (N.to_nat (hlen (hp v)))) = false).
  { apply not_true_iff_false. intros Hex. apply existsb_exists in Hex as [b [Hb Hc]].
    apply in_range_asc in Hb. rewrite N2Nat.id in Hb. apply andb_true_iff in Hc as [Sb Cb].
    unfold cell_at in Cb. cbn [set_gcmap cells] in Cb. fold (cell_at (hp v) b) in Cb.
    destruct (cell_at (hp v) b) eqn:Ecb; cbn in Cb; try discriminate.
    apply text_eqb_eq in Cb. subst s.
    assert (Gb : g_get (gcmap (hp v)) b = GAllocated).
    { destruct (ms_frame _ _ _ _ _ MS b) as [E|[U _]].
      - rewrite <- E. now destruct (g_get m b).
      - apply g_is_used_get in U. rewrite U in Sb. discriminate. }
    assert (b = a).
    { apply (same_name_iff_same_cell (hp v) b a n n HI); try assumption; try reflexivity.
      - split; [lia|congruence].
      - now split. }
    subst b. pose proof (proj2 (mark_exact vd fuel order v _ m Hnu Hm a) (conj L R)) as U.
    apply g_is_used_get in U. rewrite U in Sb. discriminate. }
  rewrite Ex. apply (hi_symtab (hp v) HI). auto.
Qed.

(* ---- Heap::put_cell / maybe_put_cell *)
Section CellInd.
Variable P : cell -> Prop.
Hypothesis Hatom : forall c, (forall a d, c <> CPair a d) -> (forall l, c <> CVec l) -> P c.
Hypothesis Hpair : forall a d, P a -> P d -> P (CPair a d).
Hypothesis Hvec : forall l, Forall P l -> P (CVec l).
Fixpoint cell_ind2 (c : cell) : P c :=
  match c with
  | CPair a d => Hpair a d (cell_ind2 a) (cell_ind2 d)
  | CVec l => Hvec l ((fix go (l : list cell) : Forall P l :=
                         match l with
                         | [] => Forall_nil P
                         | x :: r => Forall_cons x (cell_ind2 x) (go r)
                         end) l)
  | c' => Hatom c' ltac:(discriminate) ltac:(discriminate)
  end.
End CellInd.

Lemma heap_inv_put_any : forall h v, heap_inv h -> heap_inv (snd (heap_put h v)).
Proof. intros h v HI. destruct (heap_put h v) eqn:E. now apply heap_inv_put in E. Qed.

Theorem heap_inv_maybe_put_cell : forall c h s v h' s',
  heap_inv h -> maybe_put_cell h s c = Ok (v, h', s') -> heap_inv h'.
Proof.
  induction c as [c Hnp Hnv|ca cd IHa IHd|l HF] using cell_ind2; intros h s v h' s' HI H.
  - destruct c; cbn [maybe_put_cell] in H;
      try (injection H as <- <- <-; assumption); try discriminate.
    + exfalso. now apply (Hnp c1 c2).
    + destruct (new_str s s0) as [sid s1]. destruct (heap_put h (VStr sid)) as [p h1] eqn:E.
      injection H as <- <- <-. now apply heap_inv_put in E.
    + destruct (heap_put h (VSym s0)) as [p h1] eqn:E.
      injection H as <- <- <-. now apply heap_inv_put in E.
    + exfalso. now apply (Hnv l).
  - cbn [maybe_put_cell] in H. apply bind_ok_inv in H as [[[va h1] s1] [H1 H]].
    apply IHa in H1; [|assumption].
    set (r2 := match va with VPtr _ => (va, h1) | _ => heap_put h1 va end) in *.
    assert (HI2 : heap_inv (snd r2)).
    { unfold r2. destruct va; try apply heap_inv_put_any; assumption. }
    destruct r2 as [pa h2]. cbn [snd] in HI2.
    apply bind_ok_inv in H as [[[vd h3] s3] [H3 H]].
    apply IHd in H3; [|assumption].
    set (r4 := match vd with VPtr _ => (vd, h3) | _ => heap_put h3 vd end) in *.
    assert (HI4 : heap_inv (snd r4)).
    { unfold r4. destruct vd; try apply heap_inv_put_any; assumption. }
    destruct r4 as [pd h4]. cbn [snd] in HI4.
    destruct pa; try discriminate. destruct pd; try discriminate.
    destruct (heap_put h4 (VPair p p0)) as [pp h5] eqn:E5. injection H as <- <- <-.
    now apply heap_inv_put in E5.
  - cbn [maybe_put_cell] in H.
    set (elems := fix elems (h : heap) (s : store) (l : list cell) (acc : list vcell) {struct l} :
                    out (list vcell * heap * store) :=
                    match l with
                    | [] => Ok (rev acc, h, s)
                    | x :: r => do (v, h1, s1) <- maybe_put_cell h s x; elems h1 s1 r (v :: acc)
                    end) in *.
    assert (HE : forall l0, Forall (fun c => forall h s v h' s', heap_inv h ->
                   maybe_put_cell h s c = Ok (v, h', s') -> heap_inv h') l0 ->
                 forall h s acc vs h' s', heap_inv h -> elems h s l0 acc = Ok (vs, h', s') -> heap_inv h').
    { induction l0 as [|x r IHr]; intros F h0 s0 acc vs h0' s0' HI0 HE.
      - cbn in HE. now injection HE as <- <- <-.
      - cbn in HE. apply bind_ok_inv in HE as [[[vx hx] sx] [HX HE]].
        inversion F; subst. eapply IHr; [eassumption| |eassumption]. eapply H2; eassumption. }
    apply bind_ok_inv in H as [[[vs h1] s1] [H1 H]].
    apply (HE l HF h s [] vs h1 s1 HI) in H1.
    destruct (new_vec s1 vs) as [vid s2]. destruct (heap_put h1 (VVec vid)) as [p h2] eqn:E.
    injection H as <- <- <-. now apply heap_inv_put in E.
Qed.

Theorem heap_inv_put_cell : forall c h s v h' s',
  heap_inv h -> put_cell h s c = Ok (v, h', s') -> heap_inv h'.
Proof.
  intros c h s v h' s' HI H. unfold put_cell in H.
  apply bind_ok_inv in H as [[[v1 h1] s1] [H1 H]].
  apply heap_inv_maybe_put_cell in H1; [|assumption].
  destruct v1; try (destruct (heap_put h1 _) as [pp h2] eqn:E; injection H as <- <- <-;
                    now apply heap_inv_put in E).
  now injection H as <- <- <-.
Qed.
