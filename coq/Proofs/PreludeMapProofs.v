(* PreludeMapProofs.v — the hand model of prelude.scm's caar cdar cddr, map, for-each
   (Model/PreludeLists.v) against the abstract list view of Model/ListVecSpec.v
   (work package c19c).

   Part 1 (this file): what the bookkeeping steps of the hand model (car cdr null? pair? cons
   entered through the CALL sequence) leave alone, their specification on abstract values,
   and caar / cdar / cddr.  Part 2: Proofs/PreludeMapProofs2.v (map, for-each). *)
From Coq Require Import Lia FMapPositive.
From MW Require Import Model.Base Model.F64 Model.Num Model.Datum Model.TransformDef
  Model.VmTypes Model.Heap Model.VmBase Model.ListVec Model.PreludeLists Model.ListVecSpec
  Proofs.ListVecProofs Proofs.PreludeMemProofs.
Open Scope N_scope.

(* ============================================ the registers a data builtin never touches *)
(* everything except the heap, the stack table, its capacity and sp *)
Definition rest (s : vm) :=
  (st s, g_bind s, g_slots s, bp s, ep s, ip s, acc s, out_log s).
Definition keeps {A} (m : M A) : Prop := forall s a s', m s = ROk a s' -> rest s' = rest s.

Lemma keeps_ret {A} (a : A) : keeps (ret a).
Proof. intros s x s' [= <- <-]. reflexivity. Qed.
Lemma keeps_fail {A} e : keeps (@fail A e).
Proof. intros s x s' E. discriminate. Qed.
Lemma keeps_bind {A B} (m : M A) (f : A -> M B) :
  keeps m -> (forall a, keeps (f a)) -> keeps (bindM m f).
Proof.
  intros Hm Hf s b s' E. unfold bindM in E. destruct (m s) as [a s1| | |] eqn:E1; try discriminate.
  rewrite (Hf a _ _ _ E). exact (Hm _ _ _ E1).
Qed.
Lemma keeps_lift {A} (o : out A) : keeps (lift o).
Proof. intros s a s' E. unfold lift in E. destruct o; try discriminate. injection E as <- <-. reflexivity. Qed.
Lemma keeps_pop_raw : keeps pop_raw.
Proof.
  intros s a s' E. unfold pop_raw in E. destruct (sp s =? 0); [discriminate|].
  destruct (sp s <? scap s); [|discriminate]. injection E as <- <-. reflexivity.
Qed.
Lemma keeps_push v : keeps (push v).
Proof. intros s a s' E. unfold push in E. injection E as <- <-. reflexivity. Qed.
Lemma keeps_hderef v : keeps (hderef v).
Proof. intros s a s' E. rewrite hderef_eq in E. exact (keeps_lift _ s a s' E). Qed.
Lemma keeps_hput v : keeps (hput v).
Proof. intros s a s' E. unfold hput in E. destruct (heap_put (hp s) v). injection E as <- <-. reflexivity. Qed.
Lemma keeps_hmaybe_put v : keeps (hmaybe_put v).
Proof.
  intros s a s' E. unfold hmaybe_put in E. destruct (heap_maybe_put (hp s) v). injection E as <- <-. reflexivity.
Qed.
Lemma keeps_as_cell bn f v : keeps (as_cell bn f v).
Proof. intros s a s' E. unfold as_cell in E. exact (keeps_lift _ s a s' E). Qed.
Lemma keeps_fail_cell {A} f v : keeps (@fail_cell f A v).
Proof. unfold fail_cell. apply keeps_bind; [apply keeps_as_cell | intros; apply keeps_fail]. Qed.
Lemma keeps_pop_argc lo hi : keeps (pop_argc lo hi).
Proof.
  unfold pop_argc. apply keeps_bind; [apply keeps_pop_raw|]. intros v.
  destruct v; try apply keeps_fail. destruct (_ || _); [apply keeps_fail | apply keeps_ret].
Qed.
Lemma keeps_pop_value : keeps pop_value.
Proof. unfold pop_value, pop_deref. apply keeps_bind; [apply keeps_pop_raw | intros; apply keeps_hderef]. Qed.
Lemma keeps_as_ptr v : keeps (as_ptr v).
Proof. unfold as_ptr. destruct v; try apply keeps_fail; apply keeps_ret. Qed.

Lemma keeps_car f : keeps (car f).
Proof.
  unfold car. apply keeps_bind; [apply keeps_pop_argc|]. intros _.
  apply keeps_bind; [apply keeps_pop_value|]. intros v. destruct v; try apply keeps_fail_cell. apply keeps_ret.
Qed.
Lemma keeps_cdr f : keeps (cdr f).
Proof.
  unfold cdr. apply keeps_bind; [apply keeps_pop_argc|]. intros _.
  apply keeps_bind; [apply keeps_pop_value|]. intros v. destruct v; try apply keeps_fail_cell. apply keeps_ret.
Qed.
Lemma keeps_type_pred p : keeps (type_pred p).
Proof.
  unfold type_pred. apply keeps_bind; [apply keeps_pop_argc|]. intros _.
  apply keeps_bind; [apply keeps_pop_value|]. intros v. apply keeps_ret.
Qed.
Lemma keeps_cons : keeps cons_.
Proof.
  unfold cons_. apply keeps_bind; [apply keeps_pop_argc|]. intros _.
  apply keeps_bind; [apply keeps_pop_raw|]. intros a.
  apply keeps_bind; [apply keeps_hput|]. intros pd.
  apply keeps_bind; [apply keeps_as_ptr|]. intros d.
  apply keeps_bind; [apply keeps_pop_raw|]. intros b.
  apply keeps_bind; [apply keeps_hput|]. intros pa.
  apply keeps_bind; [apply keeps_as_ptr|]. intros a'. apply keeps_ret.
Qed.
Lemma keeps_call_builtin b : keeps b -> keeps (call_builtin b).
Proof.
  intros Hb. unfold call_builtin. apply keeps_bind; [exact Hb|]. intros r.
  destruct r; try apply keeps_hmaybe_put. apply keeps_ret.
Qed.
Lemma keeps_push_all args : keeps (push_all args).
Proof.
  induction args as [|a r IH]; cbn [push_all]; [apply keeps_ret|].
  apply keeps_bind; [apply keeps_push | intros _; exact IH].
Qed.
Lemma keeps_callb b args : keeps b -> keeps (callb b args).
Proof.
  intros Hb. unfold callb, apply_builtin.
  apply keeps_bind; [apply keeps_push_all|]. intros _.
  apply keeps_bind; [apply keeps_push|]. intros _. apply keeps_call_builtin. exact Hb.
Qed.

(* ====================================================== relations between machine states *)
(* [same]: only the stack moved.  [quiet]: besides the stack, only fresh cells were allocated
   (every live cell, vector and string is unchanged: [pres]) *)
Definition same (s s' : vm) : Prop := hp s' = hp s /\ rest s' = rest s.
Definition quiet (s s' : vm) : Prop := pres s s' /\ rest s' = rest s.
Definition inv (s : vm) : Prop := values_are_refs s /\ sp s < scap s.

Lemma rest_st s s' : rest s' = rest s -> st s' = st s.
Proof. unfold rest. intros H. now injection H. Qed.
Lemma pres_of_eq s s' : hp s' = hp s -> st s' = st s -> pres s s'.
Proof. intros E1 E2. unfold pres. rewrite E1, E2. split; [auto|]. split; [auto|]. split; auto. Qed.
Lemma same_quiet s s' : same s s' -> quiet s s'.
Proof. intros (E1 & E2). split; [apply pres_of_eq; [exact E1 | exact (rest_st _ _ E2)] | exact E2]. Qed.
Lemma same_refl s : same s s.
Proof. split; reflexivity. Qed.
Lemma same_trans a b c : same a b -> same b c -> same a c.
Proof. intros (A1 & A2) (B1 & B2). split; congruence. Qed.
Lemma quiet_refl s : quiet s s.
Proof. split; [apply pres_refl | reflexivity]. Qed.
Lemma quiet_trans a b c : quiet a b -> quiet b c -> quiet a c.
Proof. intros (A1 & A2) (B1 & B2). split; [eapply pres_trans; eauto | congruence]. Qed.
Lemma same_wf s s' : same s s' -> values_are_refs s -> values_are_refs s'.
Proof. intros (E1 & E2). apply wf_hp_st; [exact E1 | exact (rest_st _ _ E2)]. Qed.
Lemma same_absv s s' v : same s s' -> absv s' v = absv s v.
Proof. intros (E1 & _). now apply absv_hp. Qed.
Lemma same_val_ok s s' v : same s s' -> val_ok s v -> val_ok s' v.
Proof. intros (E1 & _). now apply val_ok_hp. Qed.
Lemma same_a_pair s s' p : same s s' -> a_pair (abs s') p = a_pair (abs s) p.
Proof. intros (E1 & _). now apply abs_pair_hp. Qed.
Lemma same_achain s s' v xs e : same s s' -> achain (abs s) v xs e -> achain (abs s') v xs e.
Proof.
  intros Hs H. induction H as [v Hv | p x d xs e Hp Hc IH]; [now constructor|].
  econstructor; [rewrite (same_a_pair _ _ _ Hs); exact Hp | exact IH].
Qed.

(* ================================================= the builtins on abstract values *)
Lemma mono_as_ptr v : regs_mono (as_ptr v).
Proof. unfold as_ptr. destruct v; try apply mono_fail; apply mono_ret. Qed.
Lemma mono_cons : regs_mono cons_.
Proof.
  unfold cons_. apply mono_bind; [apply mono_pop_argc|]. intros _.
  apply mono_bind; [apply mono_pop_raw|]. intros a.
  apply mono_bind; [apply mono_hput|]. intros pd.
  apply mono_bind; [apply mono_as_ptr|]. intros d.
  apply mono_bind; [apply mono_pop_raw|]. intros b.
  apply mono_bind; [apply mono_hput|]. intros pa.
  apply mono_bind; [apply mono_as_ptr|]. intros a'. apply mono_ret.
Qed.

Lemma callA_car fuel s v p x d :
  inv s -> val_ok s v -> absv s v = ALoc (LPair p) -> a_pair (abs s) p = Some (x, d) ->
  exists r s', callb (car fuel) [v] s = ROk r s' /\ same s s' /\ sp s' < scap s' /\
               val_ok s r /\ absv s r = x.
Proof.
  intros (W & Hinv) Hv Ha Hp.
  destruct (absv_pair_inv s v p Hv Ha) as (-> & a0 & d0 & Hg & Hp').
  rewrite Hp in Hp'. injection Hp' as -> ->.
  destruct (callb_car fuel s (VPtr p) a0 d0 Hinv Hg) as (s' & E & Eh & Es & Hinv').
  exists (VPtr a0), s'. split; [exact E|]. split.
  { split; [exact Eh|]. exact (keeps_callb _ _ (keeps_car fuel) _ _ _ E). }
  split; [exact Hinv'|]. split; [|reflexivity].
  pose proof W as (_ & Hpairs & _). cbn [heap_deref] in Hg. exact (proj1 (Hpairs _ _ _ Hg)).
Qed.
Lemma callA_cdr fuel s v p x d :
  inv s -> val_ok s v -> absv s v = ALoc (LPair p) -> a_pair (abs s) p = Some (x, d) ->
  exists r s', callb (cdr fuel) [v] s = ROk r s' /\ same s s' /\ sp s' < scap s' /\
               val_ok s r /\ absv s r = d.
Proof.
  intros (W & Hinv) Hv Ha Hp.
  destruct (absv_pair_inv s v p Hv Ha) as (-> & a0 & d0 & Hg & Hp').
  rewrite Hp in Hp'. injection Hp' as -> ->.
  destruct (callb_cdr fuel s (VPtr p) a0 d0 Hinv Hg) as (s' & E & Eh & Es & Hinv').
  exists (VPtr d0), s'. split; [exact E|]. split.
  { split; [exact Eh|]. exact (keeps_callb _ _ (keeps_cdr fuel) _ _ _ E). }
  split; [exact Hinv'|]. split; [|reflexivity].
  pose proof W as (_ & Hpairs & _). cbn [heap_deref] in Hg. exact (proj2 (Hpairs _ _ _ Hg)).
Qed.
(* car / cdr of something that is not a pair: an error is reported *)
Lemma callA_cxr_fail fuel s v :
  inv s -> val_ok s v -> (forall p, absv s v <> ALoc (LPair p)) ->
  render_fail (callb (car fuel) [v] s) /\ render_fail (callb (cdr fuel) [v] s).
Proof.
  intros (W & Hinv) Hv Hnp. destruct (absv_not_pair s v Hv Hnp) as (c & Hd & Hc).
  exact (callb_car_fail fuel s v c Hinv Hd Hc).
Qed.

Lemma kind_of_deref s v c :
  val_ok s v -> heap_deref (hp s) v = Ok c ->
  is_nil c = akind_null (absv s v) /\ is_pair c = akind_pair (absv s v).
Proof.
  intros Hv Hd. destruct (val_deref s v Hv) as (c' & Hd' & Ha & _).
  rewrite Hd in Hd'. injection Hd' as <-. rewrite Ha.
  destruct v; try contradiction;
    try (cbn [heap_deref] in Hd; injection Hd as <-; split; reflexivity).
  destruct c; split; reflexivity.
Qed.
Lemma callA_null s v :
  inv s -> val_ok s v ->
  exists s', callb is_null [v] s = ROk (VBool (akind_null (absv s v))) s' /\ same s s' /\ sp s' < scap s'.
Proof.
  intros (W & Hinv) Hv. destruct (val_deref s v Hv) as (c & Hd & _).
  destruct (callb_pred is_nil s v c Hinv Hd) as (s' & E & Eh & Es & Hinv').
  rewrite (proj1 (kind_of_deref s v c Hv Hd)) in E.
  exists s'. split; [exact E|]. split; [|exact Hinv'].
  split; [exact Eh|]. exact (keeps_callb _ _ (keeps_type_pred is_nil) _ _ _ E).
Qed.
Lemma callA_pair s v :
  inv s -> val_ok s v ->
  exists s', callb is_pair_b [v] s = ROk (VBool (akind_pair (absv s v))) s' /\ same s s' /\ sp s' < scap s'.
Proof.
  intros (W & Hinv) Hv. destruct (val_deref s v Hv) as (c & Hd & _).
  destruct (callb_pred is_pair s v c Hinv Hd) as (s' & E & Eh & Es & Hinv').
  rewrite (proj2 (kind_of_deref s v c Hv Hd)) in E.
  exists s'. split; [exact E|]. split; [|exact Hinv'].
  split; [exact Eh|]. exact (keeps_callb _ _ (keeps_type_pred is_pair) _ _ _ E).
Qed.

Lemma callA_cons s a b :
  inv s -> val_ok s a -> val_ok s b ->
  exists p s', callb cons_ [a; b] s = ROk (VPtr p) s' /\ ~ live (hp s) p /\
    a_pair (abs s') p = Some (absv s a, absv s b) /\ quiet s s' /\ inv s' /\ target_ok s' p.
Proof.
  intros (W & Hinv) Ha Hb.
  destruct (apply_cons s a b Hinv W Ha Hb) as (p & s' & E & Hnl & Hp & P & W' & T').
  exists p, s'. split; [exact E|]. split; [exact Hnl|]. split; [exact Hp|].
  split; [split; [exact P | exact (keeps_callb _ _ keeps_cons _ _ _ E)]|].
  split; [|exact T']. split; [exact W'|].
  exact (callb_inv _ _ _ _ _ mono_cons Hinv E).
Qed.

(* ======================================================== caar cadr cdar cddr *)
(* prelude.scm:147-150: (define (cXYr o) (cXr (cYr o))) — the inner accessor first *)
Definition sel (is_car : bool) (xd : aval * aval) : aval := if is_car then fst xd else snd xd.
Definition cxr (fuel : nat) (is_car : bool) : M vcell := if is_car then car fuel else cdr fuel.
Definition p_cxr2 (fuel : nat) (inner outer : bool) (args : list vcell) : M vcell :=
  match args with
  | [o] => dom x <- callb (cxr fuel inner) [o]; callb (cxr fuel outer) [x]
  | _ => fail E_OTHER
  end.
Lemma p_caar_eq fuel : p_caar fuel = p_cxr2 fuel true true. Proof. reflexivity. Qed.
Lemma p_cadr_eq fuel : p_cadr fuel = p_cxr2 fuel false true. Proof. reflexivity. Qed.
Lemma p_cdar_eq fuel : p_cdar fuel = p_cxr2 fuel true false. Proof. reflexivity. Qed.
Lemma p_cddr_eq fuel : p_cddr fuel = p_cxr2 fuel false false. Proof. reflexivity. Qed.

Lemma callA_cxr fuel b s v p xd :
  inv s -> val_ok s v -> absv s v = ALoc (LPair p) -> a_pair (abs s) p = Some xd ->
  exists r s', callb (cxr fuel b) [v] s = ROk r s' /\ same s s' /\ sp s' < scap s' /\
               val_ok s r /\ absv s r = sel b xd.
Proof.
  intros I Hv Ha Hp. destruct xd as (x, d). destruct b; cbn [cxr sel fst snd].
  - exact (callA_car fuel s v p x d I Hv Ha Hp).
  - exact (callA_cdr fuel s v p x d I Hv Ha Hp).
Qed.
Lemma callA_cxr_fail' fuel b s v :
  inv s -> val_ok s v -> (forall p, absv s v <> ALoc (LPair p)) -> render_fail (callb (cxr fuel b) [v] s).
Proof.
  intros I Hv Hnp. destruct (callA_cxr_fail fuel s v I Hv Hnp) as (A & B). destruct b; assumption.
Qed.

Lemma same_inv s s' : same s s' -> values_are_refs s -> sp s' < scap s' -> inv s'.
Proof. intros Hs W Hsp. split; [exact (same_wf _ _ Hs W) | exact Hsp]. Qed.

Theorem cxr2_spec fuel inner outer s o p xd q ye :
  inv s -> val_ok s o -> absv s o = ALoc (LPair p) -> a_pair (abs s) p = Some xd ->
  sel inner xd = ALoc (LPair q) -> a_pair (abs s) q = Some ye ->
  exists r s', p_cxr2 fuel inner outer [o] s = ROk r s' /\ same s s' /\ sp s' < scap s' /\
               val_ok s r /\ absv s r = sel outer ye.
Proof.
  intros I Ho Ha Hp Hx Hq. unfold p_cxr2.
  destruct (callA_cxr fuel inner s o p xd I Ho Ha Hp) as (x & s1 & E1 & S1 & Hsp1 & Hvx & Hax).
  rewrite (bind_ok _ _ _ _ _ E1).
  assert (I1 : inv s1) by exact (same_inv _ _ S1 (proj1 I) Hsp1).
  destruct (callA_cxr fuel outer s1 x q ye I1 (same_val_ok _ _ _ S1 Hvx)
              ltac:(rewrite (same_absv _ _ _ S1), Hax; exact Hx)
              ltac:(rewrite (same_a_pair _ _ _ S1); exact Hq))
    as (r & s2 & E2 & S2 & Hsp2 & Hvr & Har).
  exists r, s2. split; [exact E2|]. split; [exact (same_trans _ _ _ S1 S2)|]. split; [exact Hsp2|].
  split.
  - destruct S1 as (Eh & _). exact (val_ok_hp s1 s r (eq_sym Eh) Hvr).
  - rewrite <- (same_absv _ _ r S1). exact Har.
Qed.

Theorem cxr2_fail fuel inner outer s o :
  inv s -> val_ok s o ->
  (forall p, absv s o <> ALoc (LPair p)) \/
  (exists p xd, absv s o = ALoc (LPair p) /\ a_pair (abs s) p = Some xd /\
                forall q, sel inner xd <> ALoc (LPair q)) ->
  render_fail (p_cxr2 fuel inner outer [o] s).
Proof.
  intros I Ho [Hnp | (p & xd & Ha & Hp & Hnq)]; unfold p_cxr2.
  - apply render_fail_bind. exact (callA_cxr_fail' fuel inner s o I Ho Hnp).
  - destruct (callA_cxr fuel inner s o p xd I Ho Ha Hp) as (x & s1 & E1 & S1 & Hsp1 & Hvx & Hax).
    rewrite (bind_ok _ _ _ _ _ E1).
    apply (callA_cxr_fail' fuel outer s1 x (same_inv _ _ S1 (proj1 I) Hsp1) (same_val_ok _ _ _ S1 Hvx)).
    intros q. rewrite (same_absv _ _ _ S1), Hax. apply Hnq.
Qed.

(* the four procedures, spelled out *)
Theorem prelude_caar_spec fuel s o p x d q y e :
  inv s -> val_ok s o -> absv s o = ALoc (LPair p) -> a_pair (abs s) p = Some (x, d) ->
  x = ALoc (LPair q) -> a_pair (abs s) q = Some (y, e) ->
  exists r s', p_caar fuel [o] s = ROk r s' /\ same s s' /\ sp s' < scap s' /\ val_ok s r /\ absv s r = y.
Proof. intros I Ho Ha Hp Hx Hq. rewrite p_caar_eq. exact (cxr2_spec fuel true true s o p (x, d) q (y, e) I Ho Ha Hp Hx Hq). Qed.
Theorem prelude_cadr_abs_spec fuel s o p x d q y e :
  inv s -> val_ok s o -> absv s o = ALoc (LPair p) -> a_pair (abs s) p = Some (x, d) ->
  d = ALoc (LPair q) -> a_pair (abs s) q = Some (y, e) ->
  exists r s', p_cadr fuel [o] s = ROk r s' /\ same s s' /\ sp s' < scap s' /\ val_ok s r /\ absv s r = y.
Proof. intros I Ho Ha Hp Hx Hq. rewrite p_cadr_eq. exact (cxr2_spec fuel false true s o p (x, d) q (y, e) I Ho Ha Hp Hx Hq). Qed.
Theorem prelude_cdar_spec fuel s o p x d q y e :
  inv s -> val_ok s o -> absv s o = ALoc (LPair p) -> a_pair (abs s) p = Some (x, d) ->
  x = ALoc (LPair q) -> a_pair (abs s) q = Some (y, e) ->
  exists r s', p_cdar fuel [o] s = ROk r s' /\ same s s' /\ sp s' < scap s' /\ val_ok s r /\ absv s r = e.
Proof. intros I Ho Ha Hp Hx Hq. rewrite p_cdar_eq. exact (cxr2_spec fuel true false s o p (x, d) q (y, e) I Ho Ha Hp Hx Hq). Qed.
Theorem prelude_cddr_spec fuel s o p x d q y e :
  inv s -> val_ok s o -> absv s o = ALoc (LPair p) -> a_pair (abs s) p = Some (x, d) ->
  d = ALoc (LPair q) -> a_pair (abs s) q = Some (y, e) ->
  exists r s', p_cddr fuel [o] s = ROk r s' /\ same s s' /\ sp s' < scap s' /\ val_ok s r /\ absv s r = e.
Proof. intros I Ho Ha Hp Hx Hq. rewrite p_cddr_eq. exact (cxr2_spec fuel false false s o p (x, d) q (y, e) I Ho Ha Hp Hx Hq). Qed.

(* an error is reported when the argument, or the field the inner accessor selects, is not a pair *)
Theorem prelude_cxxr_fail fuel s o :
  inv s -> val_ok s o ->
  ((forall p, absv s o <> ALoc (LPair p)) ->
     render_fail (p_caar fuel [o] s) /\ render_fail (p_cadr fuel [o] s) /\
     render_fail (p_cdar fuel [o] s) /\ render_fail (p_cddr fuel [o] s)) /\
  (forall p x d, absv s o = ALoc (LPair p) -> a_pair (abs s) p = Some (x, d) ->
     ((forall q, x <> ALoc (LPair q)) -> render_fail (p_caar fuel [o] s) /\ render_fail (p_cdar fuel [o] s)) /\
     ((forall q, d <> ALoc (LPair q)) -> render_fail (p_cadr fuel [o] s) /\ render_fail (p_cddr fuel [o] s))).
Proof.
  intros I Ho. split.
  - intros Hnp. rewrite p_caar_eq, p_cadr_eq, p_cdar_eq, p_cddr_eq.
    repeat split; apply cxr2_fail; auto.
  - intros p x d Ha Hp. rewrite p_caar_eq, p_cadr_eq, p_cdar_eq, p_cddr_eq. split; intros Hn; split;
      apply cxr2_fail; auto; right; exists p, (x, d); auto.
Qed.
