(* GcIsoEx3.v — C03: non-vacuity of [collect_shrink].  A machine with two heap cells: cell 0 holds
   the code object (PUSH %acc; HALT), %ip = (0, 0); cell 1 holds '() and nothing points to it.
   The world contains BOTH cells: it is not tight.  The collection frees cell 1 and the shrunk
   world forgets it. *)
From Coq Require Import Lia List Permutation.
From MW Require Import Model.Base Model.Num Model.VmTypes Model.Heap Model.Gc Model.VmBase Model.Vm
  Proofs.GcProofs Proofs.SymtabProofs Proofs.GcIso Proofs.GcIsoPrim Proofs.GcIsoStep Proofs.GcIsoSched
  Proofs.GcIsoSched2 Proofs.GcIsoCollect Proofs.GcIsoSched3.
Open Scope N_scope.

Definition cx_lam : lambda := mk_lambda true false [] [] [VOp OPushAcc; VOp OHalt] None.
Definition cx_heap : heap := snd (heap_put (snd (heap_put (heap_new 2) (VLambda 0))) VNil).
Definition cx_store : store := mk_store tempty tempty tempty (tset tempty 0 cx_lam) tempty tempty 1.
Definition cx_vm : vm := mk_vm cx_heap cx_store [] [] tempty 256 0 0 USIZE_MAX (0, 0) VUndef [].
Definition cx_W : world := mk_world (fun a => a = 0 \/ a = 1) (fun i => i = PLam 0) (fun a => a) 0.

Lemma cx_heap_inv : heap_inv cx_heap.
Proof. apply heap_inv_put_any, heap_inv_put_any, heap_inv_new. reflexivity. Qed.

Lemma cx_alloc a : a = 0 \/ a = 1 -> allocated cx_heap a.
Proof. intros [->| ->]; (split; [reflexivity|vm_compute; discriminate]). Qed.

Lemma cx_srel : srel cx_W cx_vm cx_vm.
Proof.
  constructor; cbn [cx_W cx_vm wa wi wf wtop hp st g_bind g_slots stack scap sp bp ep ip acc out_log fst snd].
  - reflexivity.
  - vm_compute. discriminate.
  - intros a b _ _ E. exact E.
  - exact cx_alloc.
  - exact cx_alloc.
  - exact cx_heap_inv.
  - exact cx_heap_inv.
  - intros a [->| ->].
    + change (cell_at cx_heap 0) with (VLambda 0). split; [reflexivity|].
      split; [intros x []|intros i [<-|[]]; reflexivity].
    + change (cell_at cx_heap 1) with VNil. apply vr_plain; reflexivity.
  - constructor; try reflexivity; intros i Hi; try discriminate Hi.
    injection Hi as ->. cbn [cx_store lams]. rewrite tget_tset_same. cbn [orel]. split; [reflexivity|].
    split; [|split; constructor].
    cbn [bclive cx_lam l_bc is_jump]. repeat split; intros x [].
  - split; [reflexivity|intros x []].
  - split; [reflexivity|constructor].
  - intros i Hi. unfold sget. cbn [stack cx_vm]. rewrite tget_tempty. apply vr_plain; reflexivity.
  - reflexivity.
  - reflexivity.
  - reflexivity.
  - reflexivity.
  - split; [reflexivity|right; reflexivity].
  - split; [split; [reflexivity|left; left; reflexivity]|reflexivity].
  - apply vr_plain; reflexivity.
  - reflexivity.
Qed.

Lemma cx_natural : gc_natural cx_vm.
Proof.
  constructor; cbn [cx_vm hp st acc sp g_slots].
  - intros a [L _]. change (hlen cx_heap) with 2 in L.
    assert (D : a = 0 \/ a = 1) by lia. destruct D as [->| ->]; split; intros; discriminate.
  - intros i. discriminate.
  - intros i _ j. unfold sget. cbn [stack cx_vm]. rewrite tget_tempty. discriminate.
  - constructor.
  - intros i l H. cbn [cx_store vecs] in H. rewrite tget_tempty in H. discriminate.
  - intros i l H. cbn [cx_store envs] in H. rewrite tget_tempty in H. discriminate.
  - intros i k H. cbn [cx_store conts] in H. rewrite tget_tempty in H. discriminate.
  - intros i l H. cbn [cx_store lams] in H. destruct (N.eq_dec i 0) as [->|Ne].
    + rewrite tget_tset_same in H. injection H as <-. cbn [cx_lam l_bc l_args l_envmap map].
      repeat split; repeat constructor; intros j; discriminate.
    + rewrite tget_tset_other in H by (intros E; apply Ne; symmetry; exact E).
      rewrite tget_tempty in H. discriminate.
Qed.

Lemma cx_hyps : reach_allocated cx_vm /\ no_used (hp cx_vm) /\ Permutation [] (map fst (g_bind cx_vm)).
Proof.
  split; [|split; [apply no_used_by_elements; vm_compute; reflexivity|constructor]].
  intros a L _. change (hlen (hp cx_vm)) with 2 in L.
  assert (D : a = 0 \/ a = 1) by lia. destruct D as [->| ->]; vm_compute; discriminate.
Qed.

(* the world is NOT tight, the collection succeeds, frees cell 1, and the restricted world is a
   world for the collected machine that no longer contains cell 1 *)
Lemma cx_example : exists h',
  collect 2 3 [] cx_vm = Ok h' /\ g_get (gcmap h') 1 = GFree /\
  wa cx_W 1 /\ ~ reach cx_vm 1 /\ ~ tight cx_W cx_vm /\
  srel (wshrink cx_W cx_vm) cx_vm (with_heap cx_vm h') /\
  ~ wa (wshrink cx_W cx_vm) 1 /\ wa (wshrink cx_W cx_vm) 0.
Proof.
  destruct cx_hyps as (ND & NU & P).
  assert (C : exists h', collect 2 3 [] cx_vm = Ok h' /\ g_get (gcmap h') 1 = GFree).
  { eexists. split; [vm_compute; reflexivity|reflexivity]. }
  destruct C as (h' & C & F). exists h'.
  assert (NR : ~ reach cx_vm 1).
  { intros Rc. apply (reach_perm cx_vm [] 1 P) in Rc.
    destruct (gc_preserves_live 2 3 [] cx_vm h' NU C 1 eq_refl Rc) as [A _]. rewrite F in A. discriminate. }
  destruct (collect_shrink cx_W cx_vm cx_vm cx_srel cx_natural 2 3 [] h' ND NU P C) as [S1 S2].
  split; [exact C|]. split; [exact F|]. split; [right; reflexivity|]. split; [exact NR|].
  split; [intros T; apply NR; apply (T 1); right; reflexivity|]. split; [exact S2|]. split.
  - intros H1. destruct (S1 1 H1) as (_ & _ & Rc). exact (NR Rc).
  - split; [left; reflexivity|]. apply nl_ip.
Qed.

(* the invariant hypotheses of [sched_unobservable_natural] are satisfiable: [gc_ready cx_vm] *)
Lemma cx_ready : gc_ready cx_vm.
Proof.
  destruct cx_hyps as (ND & NU & P). split; [exact cx_natural|]. split; [exact ND|]. split; [exact NU|].
  eexists. exists 2%nat, 3%nat, []. eexists. split; [exact P|]. split; [vm_compute; reflexivity|reflexivity].
Qed.
