(* VarArgExamples.v — C01 (work package c01e): non-vacuity of VarArgList.vararg_step_rest_list.
   The model is run on ((lambda (a . rest) rest) 1 2 3) from the empty machine up to the VARARG
   instruction of the callee (14 instructions after prepare_eval); every hypothesis of the theorem
   holds in that state (the heap invariant by preservation: FlatAll), three actual arguments, one
   fixed formal; the evaluation returns (2 3).  Also (lambda args args) and the empty rest list. *)
From Coq Require Import String List Lia.
From MW Require Import Model.Base Model.Datum Model.Lex Model.Parse Model.VmTypes Model.Heap Model.Gc Model.VmBase
  Model.Compile Model.Vm Model.Builtins Proofs.SymtabProofs Proofs.RunProofs Proofs.EnvProofs Proofs.FlatProofs
  Proofs.VarArgProofs Proofs.VarArgList.
From MW Require Proofs.FlatAll.
Import ListNotations.
Open Scope N_scope.

Definition va_src : text := S_ "((lambda (a . rest) rest) 1 2 3)"%string.
Definition va_e : cell := match parse_text va_src with Ok (e, _) => e | _ => CNil end.
Definition va_m0 : vm := match prepare_eval va_e (vm_empty 8192) with ROk _ m => m | _ => vm_empty 1 end.
Definition va_s0 : vm := match steps other_builtin 14 va_m0 with Some s => s | None => vm_empty 1 end.
Definition va_s : vm := match read_opcode va_s0 with ROk _ s => s | _ => vm_empty 1 end.
Definition va_l : lambda := match cur_lambda va_s with ROk l _ => l | _ => lambda_new [] end.

Lemma steps_finv n : forall s s', finv s -> steps other_builtin n s = Some s' -> finv s'.
Proof.
  induction n as [|n IH]; intros s s' F H; cbn [steps] in H; [injection H as <-; exact F|].
  destruct (run_one other_builtin s) as [[|] s1| | |] eqn:E; try discriminate.
  exact (IH s1 s' (FlatAll.step_finv s false s1 F E) H).
Qed.

Lemma va_reach :
  prepare_eval va_e (vm_empty 8192) = ROk tt va_m0 /\ steps other_builtin 14 va_m0 = Some va_s0 /\
  read_opcode va_s0 = ROk OVarArg va_s /\ hp va_s = hp va_s0.
Proof. vm_compute. repeat split. Qed.

Lemma va_heap_inv : heap_inv (hp va_s).
Proof.
  destruct va_reach as (E0 & E1 & _ & ->).
  apply li_heap, fi_lex. apply (steps_finv 14 va_m0 va_s0); [|exact E1].
  apply (FlatAll.prepare_eval_state va_e (vm_empty 8192) tt va_m0); [apply finv_empty; reflexivity|exact E0].
Qed.

Lemma va_hypotheses :
  read_opcode va_s0 = ROk OVarArg va_s /\ cur_lambda va_s = ROk va_l va_s /\
  len (l_args va_l) = 2 /\ 3 + 3 <= sp va_s /\ sget va_s (sp va_s - 2) = VArgc 3 /\
  sp va_s + 1 < scap va_s /\ heap_inv (hp va_s).
Proof.
  split; [exact (proj1 (proj2 (proj2 va_reach)))|]. split; [vm_compute; reflexivity|].
  split; [vm_compute; reflexivity|]. split; [vm_compute; discriminate|]. split; [vm_compute; reflexivity|].
  split; [vm_compute; reflexivity|exact va_heap_inv].
Qed.

Definition result_of (src : text) : option cell :=
  match parse_text src with
  | Ok (e, _) => match eval other_builtin 300 e (vm_empty 8192) with ROk (Done c) _ => Some c | _ => None end
  | _ => None
  end.
Definition datum_of (src : text) : option cell :=
  match parse_text src with Ok (e, _) => Some e | _ => None end.

Lemma va_runs :
  result_of va_src = datum_of (S_ "(2 3)"%string) /\
  result_of (S_ "((lambda args args) 1 2)"%string) = datum_of (S_ "(1 2)"%string) /\
  result_of (S_ "((lambda (a . rest) rest) 1)"%string) = datum_of (S_ "()"%string) /\
  result_of (S_ "((lambda (a b . rest) rest) 1 2 3)"%string) = datum_of (S_ "(3)"%string) /\
  datum_of (S_ "(2 3)"%string) <> None.
Proof. vm_compute. repeat split. discriminate. Qed.
