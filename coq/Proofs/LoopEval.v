(* LoopEval.v — C04: the run-time theorem of the closure fragment (Proofs/EvalFragment3.v) with the
   high-water bounds of Proofs/LoopSpace.v: exec3b_lam, callee_run3b, exec3b_app_closure,
   compile_correct3b (by induction on the depth-indexed derivation dref3), eval_fragment3b.
   The step structure is that of EvalFragment3.v; the stack pointer of every intermediate
   state is added.                                                                          *)
From Coq Require Import String Lia FMapPositive.
From MW Require Import Model.Base Model.F64 Model.Num Model.Datum Model.TransformDef Model.Transform
  Model.VmTypes Model.Heap Model.Gc Model.VmBase Model.Compile Model.Vm
  Proofs.VmProofs0 Proofs.GcProofs Proofs.SymtabProofs Proofs.QuoteHeapProofs
  Proofs.CompileProofs Proofs.RunProofs Proofs.CompileCorrect Proofs.TailProofs Proofs.FrameSteps
  Proofs.CellFuelProofs Proofs.CompileCorrect2 Proofs.FrameSteps3 Proofs.Closures3 Proofs.CompileCorrect3 Proofs.CompileStatic3
  Proofs.FragmentCorollaries Proofs.EvalFragment3 Proofs.LoopSpace Proofs.LoopExec.
From MW Require Proofs.ScopeProofs.
Open Scope N_scope.

Arguments N.add : simpl never.
Arguments N.sub : simpl never.
Arguments N.mul : simpl never.
Arguments N.eqb : simpl never.
Arguments N.ltb : simpl never.
Arguments N.leb : simpl never.
Arguments N.max : simpl never.

Section Run3b.
Variable ob : N -> M vcell.
Variable bsem : N -> list rval -> option rval.
Notation run_one := (Vm.run_one ob).
Notation steps := (RunProofs.steps ob).
Notation hwb := (LoopSpace.hwb ob).

(* ------------------------------------------------------------ (lambda ...) evaluates to a closure *)
Lemma exec3b_lam s0 p lamp lamF caps sc ps cs body tail lv rho cvals :
  lam_in s0 lamp lamF -> l_envmap lamF = ScopeProofs.enum_args (l_args lamF) 0 ++ caps ->
  Forall2 (pname s0) (l_args lamF) ps ->
  Forall2 (fun e x => pname s0 (fst e) x /\ exists k, snd e = BIofEnvironment k /\ pindex x sc = Some k) caps cs ->
  closure_code s0 lamp ps cs body ->
  Forall2 (fun x v => exists i, pindex x sc = Some i /\ nth_error lv (N.to_nat i) = Some v) cs cvals ->
  exec3b ob s0 p [VOp OMovImmediate; VPtr lamp; VAcc; VOp OClosureAcc] tail lv rho (R3Clo ps cs body cvals) rho 0 0 0.
Proof.
  intros Hlam Hem Fa Fc CC Fv m lp bc hi X MI Hc Hs Hip G L Hhi _. left.
  change [VOp OMovImmediate; VPtr lamp; VAcc; VOp OClosureAcc]
    with ([VOp OMovImmediate; VPtr lamp; VAcc] ++ [VOp OClosureAcc]) in Hs.
  apply seg_app in Hs as [Hsm Hscl]. rewrite len3 in Hscl.
  pose proof (step_movimm ob m lp p bc (VPtr lamp) Hc Hip Hsm ltac:(discriminate)) as Em.
  set (m3 := with_acc (with_ip m (lp, p + 3)) (VPtr lamp)) in *.
  assert (SM3 : same_mem m m3) by (repeat split).
  pose proof (same_mem_minv _ _ SM3 MI) as MI3.
  assert (Hc3 : code_in m3 lp bc) by (eapply code_in_regs; [| |exact Hc]; reflexivity).
  destruct (lam_in_ext _ _ _ _ X Hlam) as (lid & Al & Cl & Ltl & Tl).
  (* the current environment, needed when something is captured *)
  assert (Henv : exists eid slots,
            (caps = [] \/ (heap_get (hp m3) (ep m3) = Ok (VLexEnv eid) /\ tget (envs (st m3)) eid = Some slots /\
                           caps_ok caps (len slots))) /\
            forall k e x cv, nth_error caps k = Some e -> nth_error cs k = Some x -> nth_error cvals k = Some cv ->
              exists kk v, snd e = BIofEnvironment kk /\ allocated (hp m) (ep m) /\ cell_at (hp m) (ep m) = VLexEnv eid /\
                eid < next_id (st m) /\ tget (envs (st m)) eid = Some slots /\ list_get slots kk = Some v /\
                slot_holds m v cv).
  { destruct caps as [|e0 caps'].
    - exists 0, []. split; [left; reflexivity|]. intros k e x cv Hk. destruct k; discriminate.
    - inversion Fc as [|e0' x0 caps'' cs' (_ & k0 & Hs0 & Hp0) Fc' E1 E2]; subst.
      inversion Fv as [|x0' v0 cs'' cvals' (i0 & Hi0 & Hn0) Fv' E1 E2]; subst.
      destruct (lrel3_env lv m i0 v0 L Hn0) as (eid & slots & w0 & Hg & Lt & A & C & T & G0 & H0).
      exists eid, slots.
      assert (Hall : forall k e x cv, nth_error (e0 :: caps') k = Some e -> nth_error (x0 :: cs') k = Some x ->
                 nth_error (v0 :: cvals') k = Some cv ->
                 exists kk v, snd e = BIofEnvironment kk /\ allocated (hp m) (ep m) /\ cell_at (hp m) (ep m) = VLexEnv eid /\
                   eid < next_id (st m) /\ tget (envs (st m)) eid = Some slots /\ list_get slots kk = Some v /\
                   slot_holds m v cv).
      { intros k e x cv Hk Hx Hcv.
        destruct (Forall2_nth_l _ _ _ Fc _ _ Hk) as (x' & Hx' & _ & kk & Hsk & Hpk).
        assert (x' = x) as -> by congruence.
        destruct (Forall2_nth_l _ _ _ Fv _ _ Hx) as (cv' & Hcv' & ii & Hii & Hnn).
        assert (cv' = cv) as -> by congruence. assert (ii = kk) as -> by congruence.
        destruct (lrel3_env lv m kk cv L Hnn) as (eid' & slots' & w & Hg' & Lt' & A' & C' & T' & G' & H').
        assert (eid' = eid) as -> by congruence. assert (slots' = slots) as -> by congruence.
        exists kk, w. auto 10. }
      split; [|exact Hall]. right. split; [exact Hg|]. split; [exact T|].
      unfold caps_ok. rewrite Forall_forall. intros e He.
      destruct (In_nth_error _ _ He) as (k & Hk).
      destruct (Forall2_nth_l _ _ _ Fc _ _ Hk) as (x & Hx & _).
      destruct (Forall2_nth_l _ _ _ Fv _ _ Hx) as (cv & Hcv & _).
      destruct (Hall k e x cv Hk Hx Hcv) as (kk & v & Hs & _ & _ & _ & _ & Gk & _).
      exists kk. split; [exact Hs|]. eapply list_get_lt. exact Gk. }
  destruct Henv as (eid & slots & Henv & Hall).
  destruct (step_closure3 ob m3 lp (p + 3) bc lamp lid lamF (l_args lamF) caps eid slots Hc3 eq_refl Hscl MI3 eq_refl
              ltac:(change (hp m3) with (hp m); rewrite (heap_get_alloc _ _ Al), Cl; reflexivity) Tl Hem Henv)
    as (m4 & cp & cep & ceid & E4 & MI4 & X34 & Hsp4 & Hbp4 & Hep4 & Hcap4 & Hstk4 & Hlog4 & Hg4 & Hip4 & Hacc4 &
        Acp & Ccp & Acep & Ccep & Ltc & Tc).
  assert (F34 : frame2 m3 m4).
  { split; [|apply X34]. constructor; auto. apply X34. intros j _. unfold sget. rewrite Hstk4. reflexivity. }
  assert (F04 : frame2 m m4) by (eapply frame2_trans; [apply same_mem_frame2; exact SM3|exact F34]).
  pose proof (frame2_rext _ _ F04) as R04.
  exists 2%nat, m4. split; [eapply (steps_trans ob 1 1); apply steps_one; eassumption|].
  split.
  { eapply hwb_weak; [eapply (hwb_trans ob 1 1 m m3); [apply steps_one; exact Em| |]| |].
    - apply (hwb_one_same ob m m3 hi Em eq_refl). lia.
    - apply (hwb_one_same ob m3 m4 hi E4 Hsp4). change (sp m3) with (sp m). lia.
    - change (sp m3) with (sp m). lia.
    - lia. }
  split; [exact F04|]. split; [exact MI4|].
  split; [rewrite Hip4; f_equal; change (len [VOp OMovImmediate; VPtr lamp; VAcc; VOp OClosureAcc]) with 4; lia|].
  split; [|eapply genv_rel3_ext; [exact R04|rewrite Hg4; reflexivity|exact G]].
  rewrite Hacc4. cbn [vrep3].
  exists cp, lamp, cep, ceid, (repeat VUndef (length (l_args lamF)) ++ map (cap_val (ep m3) slots) caps).
  pose proof (Forall2_length _ _ _ Fa) as La. pose proof (Forall2_length _ _ _ Fc) as Lc.
  pose proof (Forall2_length _ _ _ Fv) as Lv.
  split; [reflexivity|]. split; [exact Acp|]. split; [exact Ccp|]. split; [exact Acep|]. split; [exact Ccep|].
  split; [exact Ltc|]. split; [exact Tc|].
  split; [rewrite len_app, len_repeat, len_map; unfold len; lia|]. split; [lia|].
  split; [eapply closure_code_ext; [|exact CC]; eapply cext_trans; [exact X|apply R04]|].
  rewrite all_idx_nth. intros k cv Hk.
  assert (Hkc : exists x, nth_error cs k = Some x).
  { destruct (nth_error cs k) eqn:E; [eauto|]. apply nth_error_None in E. apply nth_error_lt in Hk. lia. }
  destruct Hkc as (x & Hx).
  assert (Hke : exists e, nth_error caps k = Some e).
  { destruct (nth_error caps k) eqn:E; [eauto|]. apply nth_error_None in E. apply nth_error_lt in Hx. lia. }
  destruct Hke as (e & He).
  destruct (Hall k e x cv He Hx Hk) as (kk & v & Hs & A & C & Lt & T & Gk & Hh).
  exists (cap_val (ep m3) slots e). split.
  { replace (len ps + N.of_nat k) with (len (repeat VUndef (length (l_args lamF))) + N.of_nat k)
      by (rewrite len_repeat; unfold len; lia).
    rewrite list_get_app_r, list_get_nth, Nat2N.id. apply map_nth_error. exact He. }
  unfold cap_val. rewrite Hs, Gk. change (ep m3) with (ep m).
  destruct Hh as [[Hn V]|PS].
  - assert (E : match v with VLexPtr a j => VLexPtr a j | _ => VLexPtr (ep m) kk end = VLexPtr (ep m) kk)
      by (destruct v; try reflexivity; exfalso; eapply Hn; reflexivity).
    rewrite E. eapply ptr_slot_ext; [exact R04|intros w; apply vrep3_ext; exact R04|].
    exists (ep m), kk, eid, slots, v. auto 10.
  - pose proof PS as PS'. destruct PS' as (a & j & _ & _ & _ & -> & _).
    eapply ptr_slot_ext; [exact R04|intros w; apply vrep3_ext; exact R04|exact PS].
Qed.
(* ------------------------------------------------------------ running a closure *)
(* what the induction on the reference derivation provides for the body of a closure *)
Definition body_okb (tail : bool) (sc : list text) (lv : list rval3) (rho : env3) (body : expr3) (r : rval3) (rho' : env3)
                    (dl dn dt : N) : Prop :=
  forall f l s l' s' code, wf3 body sc -> (cell_size (cell_of3 body) < f)%nat -> hdr3 l sc s -> minv s ->
    compile_expression f l tail (cell_of3 body) s = ROk l' s' -> fwd l' = fwd l ++ code ->
    exec3b ob s' (len (fwd l)) code tail lv rho r rho' dl dn dt.



(* from the first instruction (ENTER) of a closure entered with n arguments above the base B and
   the return information (e, l0, i0) to the state after its RET — or after the RET of a frame
   that a tail call of the body put in its place *)
Lemma callee_run3b ps cs body cvals n B e l0 i0 vs rs rho1 r rho2 m5 lamp dlb dnb dtb hi :
  body_okb true (ps ++ cs) (rs ++ cvals) rho1 body r rho2 dlb dnb dtb ->
  B + n + 4 + dnb <= hi -> B + dtb <= hi ->
  minv m5 -> vrep3 m5 (acc m5) (R3Clo ps cs body cvals) ->
  (exists cp cep, acc m5 = VPtr cp /\ heap_get (hp m5) cp = Ok (VClosure lamp cep)) -> ip m5 = (lamp, 0) ->
  length rs = length ps -> n = len ps ->
  sp m5 = B + n + 3 -> sget m5 (B + n + 1) = VArgc n -> sget m5 (B + n + 2) = VEp e ->
  sget m5 (B + n + 3) = VIp l0 i0 ->
  len vs = n -> (forall i v, list_get vs i = Some v -> sget m5 (B + 1 + i) = v) ->
  Forall2 (fun v r => vrep3 m5 v r) vs rs ->
  genv_rel3 rho1 m5 ->
  exists k m8, steps k m5 = Some m8 /\ hwb (B + n + 4 + dlb) hi k m5 /\ rext m5 m8 /\ minv m8 /\ vrep3 m8 (acc m8) r /\
    genv_rel3 rho2 m8 /\ sp m8 = B /\ ep m8 = e /\ ip m8 = (l0, i0) /\ bp m8 = bp m5 /\
    out_log m8 = out_log m5 /\ (forall j, j <= B -> sget m8 j = sget m5 j).
Proof.
  intros IHb Hhi1 Hhi2 MI5 Vc (cp0 & cep0 & Hacc0 & Hcp0) Hip Hlrs Hn Hsp H1 H2 H3 Hvl Hvs Vvs G5.
  cbn [vrep3] in Vc.
  destruct Vc as (cp & lamp' & cep & ceid & cslots & Hacc & Acp & Ccp & Acep & Ccep & Ltc & Tc & Lcs & Lcv & CC & All).
  assert (cp0 = cp) as -> by congruence.
  assert (Hcp : heap_get (hp m5) cp = Ok (VClosure lamp' cep)) by (rewrite (heap_get_alloc _ _ Acp), Ccp; reflexivity).
  assert (lamp' = lamp /\ cep0 = cep) as [-> ->] by (split; congruence).
  assert (Hcep : heap_get (hp m5) cep = Ok (VLexEnv ceid)) by (rewrite (heap_get_alloc _ _ Acep), Ccep; reflexivity).
  destruct CC as (lam & caps & cb & f & lam2 & s0 & lam3 & s0' & Hlam & Hem & Fa & Hce & Lcaps & Hbc & Hf & Wb & Hh2 & MI0 & Ecomp & F2 & F3 & XB).
  pose proof (IHb f lam2 s0 lam3 s0' cb Wb Hf Hh2 MI0 Ecomp F3) as EXb.
  rewrite F2 in EXb. change (len [VOp OEnter]) with 1 in EXb.
  pose proof (lam_in_code _ _ _ Hlam) as Hc5. rewrite Hbc in Hc5.
  destruct Hlam as (lid & Al & Cl & Ltl & Tl).
  assert (Hgl : heap_get (hp m5) lamp = Ok (VLambda lid)) by (rewrite (heap_get_alloc _ _ Al), Cl; reflexivity).
  assert (Hlen : len (l_args lam) = n) by (rewrite Hn; unfold len; rewrite (Forall2_length _ _ _ Fa); reflexivity).
  assert (Lcaps' : len caps = len cs) by (unfold len; rewrite Lcaps; reflexivity).
  rewrite all_idx_nth in All.
  assert (Hptr : forall j, n <= j -> j < n + len caps -> exists a k, list_get cslots j = Some (VLexPtr a k)).
  { intros j Hj1 Hj2.
    assert (Hk : exists cv, nth_error cvals (N.to_nat (j - n)) = Some cv).
    { destruct (nth_error cvals (N.to_nat (j - n))) eqn:E; [eauto|]. apply nth_error_None in E. unfold len in *. lia. }
    destruct Hk as (cv & Hk). destruct (All _ _ Hk) as (v' & Gv & (a & k & _ & _ & _ & -> & _)).
    exists a, k. rewrite <- Gv. f_equal. lia. }
  destruct (step_enter_closure3 ob m5 lamp _ cp cep lid lam (l_args lam) caps ceid cslots n Hc5 Hip eq_refl MI5 Hacc Hcp Hgl Tl
              eq_refl Hem Hlen Hce Hcep Tc ltac:(rewrite Lcs, Lcaps', <- Hn; reflexivity) Hptr ltac:(lia)
              ltac:(rewrite Hsp; replace (B + n + 3 - 2) with (B + n + 1) by lia; exact H1))
    as (m6 & evp & env & E6 & MI6 & X56 & Hsp6 & Hbp6 & Hep6 & Hip6 & Hacc6 & Hlog6 & Hg6 & Htop6 & Hst6 &
        Aev & Cev & Tev & Ltev & Lenv & Henvj & Henvc).
  assert (Hbp6' : bp m6 = B + n) by (rewrite Hbp6, Hsp; lia).
  assert (Hk6 : forall j, j <= B + n + 3 -> sget m6 j = sget m5 j) by (intros j Hj; apply Hst6; lia).
  assert (Hfr6 : frame_at m6 n e (l0, i0) (bp m5)).
  { unfold frame_at. rewrite Hbp6'. rewrite !Hk6 by lia.
    replace (B + n + 4) with (sp m5 + 1) by lia. rewrite Htop6. cbn [fst snd]. repeat split; auto. lia. }
  assert (Ht6 : tframe m6) by (exists n, e, (l0, i0), (bp m5); split; [exact Hfr6|lia]).
  assert (L6 : lrel3 (rs ++ cvals) m6).
  { intros i ri Hi. exists (next_id (st m5)), env. rewrite Hep6.
    assert (Hnl : N.of_nat (length rs) = n) by (rewrite Hn, Hlrs; reflexivity).
    destruct (N.ltb_spec i n) as [Hlt|Hge].
    - rewrite nth_error_app1 in Hi by lia.
      destruct (Forall2_nth_r _ _ _ Vvs _ _ Hi) as (v & Hv & Vv). exists v.
      split; [exact Aev|]. split; [exact Cev|]. split; [exact Ltev|]. split; [exact Tev|]. split.
      + rewrite (Henvj i Hlt). f_equal. rewrite <- (Hvs i v Hv). f_equal. lia.
      + left. split; [eapply vrep3_not_lexptr; exact Vv|eapply vrep3_ext; eassumption].
    - rewrite nth_error_app2 in Hi by lia.
      destruct (All _ _ Hi) as (v' & Gv & PS). exists v'.
      split; [exact Aev|]. split; [exact Cev|]. split; [exact Ltev|]. split; [exact Tev|]. split.
      + rewrite (Henvc i Hge), <- Gv. f_equal. lia.
      + right. eapply ptr_slot_ext; [exact X56|intros w; apply vrep3_ext; exact X56|exact PS]. }
  assert (Hc6 : code_in m6 lamp ([VOp OEnter] ++ cb ++ [VOp ORet])) by (eapply code_in_ext; [exact Hc5|apply X56]).
  assert (Hsb : seg ([VOp OEnter] ++ cb ++ [VOp ORet]) 1 cb) by (exists [VOp OEnter], [VOp ORet]; auto).
  assert (G6 : genv_rel3 rho1 m6) by (eapply genv_rel3_ext; [apply X56|exact Hg6|exact G5]).
  assert (Htb6 : tbound true m6 dtb hi).
  { exists n, e, (l0, i0), (bp m5). split; [exact Hfr6|]. split; [lia|]. rewrite Hbp6'. lia. }
  destruct (EXb m6 lamp _ hi (cext_trans _ _ _ XB (rx_cext _ _ X56)) MI6 Hc6 Hsb Hip6 G6 L6 ltac:(lia) Htb6)
    as [(n7 & m7 & St7 & HW7 & Fr7 & MI7 & Hip7 & V7 & G7)|[_ (n7 & m8 & k' & e' & i' & b' & St8 & HW8 & Hfr' & X68 & MI8 & V8 & G8 & E1 & E2 & E3 & E4 & E5 & K8)]].
  - (* the body ends at RET *)
    pose proof (f2_frame _ _ Fr7) as Fr7'.
    pose proof (code_in_ext _ _ _ _ Hc6 (fr_ext _ _ Fr7')) as Hc7.
    assert (Hsr : seg ([VOp OEnter] ++ cb ++ [VOp ORet]) (1 + len cb) [VOp ORet]).
    { exists ([VOp OEnter] ++ cb), []. rewrite app_nil_r, <- app_assoc. split; [reflexivity|]. lens. lia. }
    assert (Hbp7 : bp m7 = B + n) by (rewrite (fr_bp _ _ Fr7'); exact Hbp6').
    assert (Hsp7 : sp m7 = B + n + 4) by (rewrite (fr_sp _ _ Fr7'), Hsp6, Hsp; lia).
    assert (Hk7 : forall j, j <= B + n + 4 -> sget m7 j = sget m6 j) by (intros j Hj; apply (fr_stack _ _ Fr7'); lia).
    destruct Hfr6 as (F1 & F2' & F3' & F4 & _). rewrite Hbp6' in F1, F2', F3', F4. cbn [fst snd] in F3'.
    pose proof (step_ret_n ob m7 lamp (1 + len cb) _ n e l0 i0 (bp m5) Hc7 Hip7 Hsr
                  ltac:(rewrite Hbp7, <- Hsp7; apply MI7) ltac:(lia)
                  ltac:(rewrite Hbp7, Hk7 by lia; exact F1) ltac:(rewrite Hbp7, Hk7 by lia; exact F2')
                  ltac:(rewrite Hbp7, Hk7 by lia; exact F3') ltac:(rewrite Hbp7, Hk7 by lia; exact F4)) as E8.
    set (m8 := with_bp (with_ip (with_ep (with_sp (with_ip m7 (lamp, 1 + len cb + 1)) (bp m7 - n)) e) (l0, i0)) (bp m5)) in *.
    assert (X78 : rext m7 m8) by (apply rext_same; try reflexivity; lia).
    exists (1 + n7 + 1)%nat, m8.
    split; [eapply steps_trans; [eapply steps_trans; [apply steps_one; exact E6|exact St7]|apply steps_one; exact E8]|].
    split.
    { eapply hwb_weak; [eapply hwb_trans; [eapply steps_trans; [apply steps_one; exact E6|exact St7]|
        eapply hwb_trans; [apply steps_one; exact E6|eapply (hwb_one ob (sp m5) hi m5 m6 E6)|exact HW7]|
        eapply (hwb_one ob (sp m7) hi m7 m8 E8)]| |]; try lia.
      cbn [sp m8 with_bp with_ip with_ep with_sp with_stack]. lia. }
    split; [eapply rext_trans; [exact X56|]; eapply rext_trans; [apply frame2_rext; exact Fr7|exact X78]|].
    split.
    { destruct MI7 as [HI GI SP]. constructor; [exact HI|exact GI|].
      cbn [sp scap m8 with_bp with_ip with_ep with_sp with_stack]. lia. }
    split; [eapply vrep3_ext; [exact X78|exact V7]|]. split; [eapply genv_rel3_ext; [apply X78|reflexivity|exact G7]|].
    split; [cbn [sp m8 with_bp with_ip with_ep with_sp with_stack]; lia|].
    split; [reflexivity|]. split; [reflexivity|]. split; [reflexivity|].
    split; [cbn [out_log m8 with_bp with_ip with_ep with_sp with_stack]; rewrite (fr_log _ _ Fr7'); exact Hlog6|].
    intros j Hj. change (sget m8 j) with (sget m7 j). rewrite Hk7, Hk6 by lia. reflexivity.
  - (* the body left through a tail call *)
    destruct Hfr6 as (F1 & F2' & F3' & F4 & _). destruct Hfr' as (F1' & F2'' & F3'' & F4' & _).
    rewrite F1 in F1'. rewrite F2' in F2''. rewrite F3' in F3''. rewrite F4 in F4'.
    injection F1' as <-. injection F2'' as <-. injection F4' as <-. cbn [fst snd] in F3''.
    assert (i' = (l0, i0)) as -> by (destruct i'; cbn [fst snd] in F3''; congruence).
    exists (1 + n7)%nat, m8. split; [eapply steps_trans; [apply steps_one; exact E6|exact St8]|].
    split; [eapply hwb_weak; [eapply hwb_trans; [apply steps_one; exact E6|eapply (hwb_one ob (sp m5) hi m5 m6 E6)|exact HW8]| |]; lia|].
    split; [eapply rext_trans; eassumption|]. split; [exact MI8|]. split; [exact V8|]. split; [exact G8|].
    split; [rewrite E1, Hbp6'; lia|]. split; [exact E2|]. split; [exact E3|]. split; [exact E4|].
    split; [rewrite E5; exact Hlog6|].
    intros j Hj. rewrite K8 by (rewrite Hbp6'; lia). apply Hk6. lia.
Qed.
(* ------------------------------------------------------------ application of a closure *)
Lemma exec3b_app_closure s0 p ca cf n (tail : bool) lv rho rs rho1 ps cs body cvals rho2 r rho3
      dla dna dlf dnf dtf dlb dnb dtb :
  exec_args3b ob s0 p ca n lv rho rs rho1 dla dna ->
  exec3b ob s0 (p + len ca + 2) cf false lv rho1 (R3Clo ps cs body cvals) rho2 dlf dnf dtf ->
  length rs = length ps -> n = len ps ->
  body_okb true (ps ++ cs) (rs ++ cvals) rho2 body r rho3 dlb dnb dtb ->
  exec3b ob s0 p (ca ++ [VOp OPushImmediate; VArgc n] ++ cf ++ [VOp (if tail then OTCallAcc else OCallAcc)])
        tail lv rho r rho3
        (N.max (N.max dla (n + 1 + dlf)) (if tail then 0 else n + 4 + dlb))
        (N.max dna (n + 1 + N.max dnf dtf)) (N.max (n + 4 + dnb) dtb).
Proof.
  intros EX1 EX3 Hlrs Hn IHb m lp bc hi X MIm Hc Hs Hip G L Hhi Ht.
  set (callop := VOp (if tail then OTCallAcc else OCallAcc)) in *.
  apply seg_app in Hs as [Hsa Hs]. apply seg_app in Hs as [Hsi Hs]. rewrite len2 in Hs.
  apply seg_app in Hs as [Hsf Hsc].
  (* operands *)
  destruct (EX1 m lp bc hi X MIm Hc Hsa Hip G L ltac:(lia))
    as (n1 & m1 & vs & St1 & HW1 & MIm1 & Hip1 & G1 & Xm1 & Hsp1 & Hbp1 & Hep1 & Hlog1 & Hst1 & Hvl & Hvs & Vvs).
  pose proof (code_in_ext _ _ _ _ Hc (rx_cext _ _ Xm1)) as Hc1.
  (* PUSH Argc n *)
  pose proof (step_pushimm ob m1 lp _ bc _ Hc1 Hip1 Hsi ltac:(discriminate)) as Ei.
  set (m2 := pushed (with_ip m1 (lp, p + len ca + 2)) (VArgc n)) in *.
  assert (Xm12 : rext m1 m2) by (apply rext_same; try reflexivity; lia).
  assert (MIm2 : minv m2).
  { destruct MIm1 as [HI GI SP]. constructor; [exact HI|exact GI|]. apply pushed_sp_lt. exact SP. }
  assert (Hc2 : code_in m2 lp bc) by (eapply code_in_regs; [| |exact Hc1]; reflexivity).
  assert (G2 : genv_rel3 rho1 m2) by (eapply genv_rel3_ext; [apply Xm12|reflexivity|exact G1]).
  assert (Xs2m2 : cext s0 m2) by (eapply cext_trans; [exact X|]; eapply cext_trans; [apply Xm1|apply Xm12]).
  assert (Hsp2 : sp m2 = sp m + n + 1) by (cbn [sp m2 pushed with_scap with_stack with_ip]; rewrite Hsp1; reflexivity).
  assert (L2' : lrel3 lv m2).
  { eapply lrel3_rext; [exact Xm12|reflexivity|]. eapply lrel3_rext; [exact Xm1|exact Hep1|exact L]. }
  (* operator *)
  destruct (exec3b_n ob _ _ _ _ _ _ _ _ _ _ EX3 m2 lp bc hi Xs2m2 MIm2 Hc2 Hsf eq_refl G2 L2' ltac:(lia))
    as (n3 & m3 & St3 & HW3 & Fr3 & MIm3 & Hip3 & V3 & G3).
  pose proof (f2_frame _ _ Fr3) as Fr3'.
  pose proof (code_in_ext _ _ _ _ Hc2 (fr_ext _ _ Fr3')) as Hc3.
  set (q := p + len ca + 2 + len cf) in *.
  assert (Hclo : exists cp lamp cep, acc m3 = VPtr cp /\ heap_get (hp m3) cp = Ok (VClosure lamp cep)).
  { pose proof V3 as V3'. cbn [vrep3] in V3'.
    destruct V3' as (cp & lamp & cep & ceid & cslots & Hacc & Acp & Ccp & _).
    exists cp, lamp, cep. split; [exact Hacc|]. rewrite (heap_get_alloc _ _ Acp), Ccp. reflexivity. }
  destruct Hclo as (cp & lamp & cep & Hacc3 & Hgcp).
  assert (Xm03 : rext m m3).
  { eapply rext_trans; [exact Xm1|]. eapply rext_trans; [exact Xm12|]. apply frame2_rext. exact Fr3. }
  assert (Hsp3 : sp m3 = sp m + n + 1) by (rewrite (fr_sp _ _ Fr3'); exact Hsp2).
  assert (Hk3 : forall j, j <= sp m + n + 1 -> sget m3 j = sget m2 j) by (intros j Hj; apply (fr_stack _ _ Fr3'); lia).
  assert (Hk3lo : forall j, j <= sp m + n -> sget m3 j = sget m1 j).
  { intros j Hj. rewrite Hk3 by lia. unfold m2. rewrite sget_pushed_other by (cbn [sp with_ip]; lia). reflexivity. }
  assert (Htop3 : sget m3 (sp m + n + 1) = VArgc n).
  { rewrite Hk3 by lia. unfold m2. replace (sp m + n + 1) with (sp (with_ip m1 (lp, p + len ca + 2)) + 1) by (cbn [sp with_ip]; lia).
    apply sget_pushed_top. }
  assert (Hargs3 : forall i v, list_get vs i = Some v -> sget m3 (sp m + 1 + i) = v).
  { intros i v Hi. pose proof (list_get_lt _ _ _ Hi) as Hlt. rewrite Hk3lo by lia. apply Hvs. exact Hi. }
  assert (Hlow3 : forall j, j <= sp m -> sget m3 j = sget m j).
  { intros j Hj. rewrite Hk3lo by lia. apply Hst1. exact Hj. }
  assert (Vvs3 : Forall2 (fun v r => vrep3 m3 v r) vs rs).
  { eapply Forall2_vrep3_ext; [|exact Vvs]. eapply rext_trans; [exact Xm12|apply frame2_rext; exact Fr3]. }
  assert (Hbp3 : bp m3 = bp m) by (rewrite (fr_bp _ _ Fr3'); exact Hbp1).
  assert (Hep3 : ep m3 = ep m) by (rewrite (fr_ep _ _ Fr3'); exact Hep1).
  assert (Hlog3 : out_log m3 = out_log m) by (rewrite (fr_log _ _ Fr3'); exact Hlog1).
  assert (St03 : steps (n1 + 1 + n3) m = Some m3).
  { eapply steps_trans; [eapply steps_trans; [exact St1|apply steps_one; exact Ei]|exact St3]. }
  assert (St12 : steps (n1 + 1) m = Some m2) by (eapply steps_trans; [exact St1|apply steps_one; exact Ei]).
  assert (HW12 : hwb (sp m + dla) hi (n1 + 1) m).
  { eapply hwb_weak; [eapply hwb_trans; [exact St1|exact HW1|eapply (hwb_one ob (sp m1) hi m1 m2 Ei)]| |]; lia. }
  assert (HW03 : hwb (N.max (sp m + dla) (sp m2 + dlf)) hi (n1 + 1 + n3) m) by (eapply hwb_trans; eassumption).
  assert (Hq : p + len (ca ++ [VOp OPushImmediate; VArgc n] ++ cf ++ [callop]) = q + 1).
  { unfold q. lens. lia. }
  destruct tail.
  - (* tail position: TCALL re-uses the current frame *)
    right. split; [reflexivity|].
    cbn [tbound] in Ht. destruct Ht as (k & e & i & b & Hfr & Hspf & Hbt).
    assert (Hfr3 : frame_at m3 k e i b) by (eapply frame_at_keep; [exact Hfr|exact Hspf|exact Hbp3|exact Hlow3]).
    destruct (step_tcall_closure ob m3 lp q bc cp lamp cep k e i b n Hc3 Hip3 Hsc Hacc3 Hgcp Hfr3
                ltac:(rewrite Hsp3; exact Htop3) ltac:(rewrite Hbp3, Hsp3; lia) (mi_sp _ MIm3))
      as (T & Et & TT1 & TT2 & TT3 & TT4 & TT5).
    rewrite Hbp3 in Et, TT1, TT2, TT3, TT4, TT5.
    set (B := bp m - k) in *.
    set (m5 := with_ip (with_bp (with_stack (with_ip m3 (lp, q + 1)) T (B + n + 3)) b) (lamp, 0)) in *.
    assert (Hs5 : forall j, sget m5 j = slot T j) by reflexivity.
    assert (Hkb : k <= bp m) by (destruct Hfr as (_ & _ & _ & _ & H5); exact H5).
    assert (X35 : rext m3 m5) by (apply rext_same; try reflexivity; lia).
    assert (MIm5 : minv m5).
    { destruct MIm3 as [HI GI SP]. constructor; [exact HI|exact GI|].
      cbn [sp scap m5 with_ip with_bp with_stack]. unfold B. lia. }
    assert (Hsp5t : sp m5 = B + n + 3) by reflexivity.
    destruct (callee_run3b ps cs body cvals n B e (fst i) (snd i) vs rs rho2 r rho3 m5 lamp dlb dnb dtb hi IHb
                ltac:(unfold B; lia) ltac:(unfold B; lia) MIm5
                ltac:(eapply vrep3_ext; [exact X35|exact V3])
                ltac:(exists cp, cep; split; [exact Hacc3|exact Hgcp]) eq_refl Hlrs Hn eq_refl
                ltac:(rewrite Hs5; exact TT2) ltac:(rewrite Hs5; exact TT3) ltac:(rewrite Hs5; exact TT4) Hvl)
      as (k8 & m8 & St8 & HW8 & X58 & MI8 & V8 & G8 & Hsp8 & Hep8 & Hip8 & Hbp8 & Hlog8 & Hk8).
    { intros j v Hj. pose proof (list_get_lt _ _ _ Hj) as Hlt. rewrite Hs5, TT1 by lia.
      rewrite Hsp3. replace (sp m + n + 1 - n + j) with (sp m + 1 + j) by lia. apply Hargs3. exact Hj. }
    { eapply Forall2_vrep3_ext; [exact X35|exact Vvs3]. }
    { eapply genv_rel3_ext; [apply X35|reflexivity|exact G3]. }
    exists (n1 + 1 + n3 + 1 + k8)%nat, m8, k, e, i, b.
    split; [eapply steps_trans; [eapply steps_trans; [exact St03|apply steps_one; exact Et]|exact St8]|].
    split.
    { eapply hwb_weak; [eapply hwb_trans; [eapply steps_trans; [exact St03|apply steps_one; exact Et]|
        eapply hwb_trans; [exact St03|exact HW03|eapply (hwb_one ob (sp m3) hi m3 m5 Et)]|exact HW8]| |]; lia. }
    split; [exact Hfr|]. split; [eapply rext_trans; [exact Xm03|]; eapply rext_trans; eassumption|].
    split; [exact MI8|]. split; [exact V8|]. split; [exact G8|]. split; [exact Hsp8|]. split; [exact Hep8|].
    split; [rewrite Hip8; destruct i; reflexivity|]. split; [exact Hbp8|].
    split; [rewrite Hlog8; exact Hlog3|].
    intros j Hj. rewrite Hk8 by exact Hj. rewrite Hs5, TT5 by exact Hj. apply Hlow3. unfold B in Hj. lia.
  - (* non-tail position: CALL pushes a new frame above %sp *)
    left.
    pose proof (step_call_closure ob m3 lp q bc cp lamp cep Hc3 Hip3 Hsc Hacc3 Hgcp) as Ecall.
    set (m5 := with_ip (pushed (pushed (with_ip m3 (lp, q + 1)) (VEp (ep m3))) (VIp lp (q + 1))) (lamp, 0)) in *.
    assert (X35 : rext m3 m5) by (apply rext_same; try reflexivity; lia).
    assert (MIm5 : minv m5).
    { destruct MIm3 as [HI GI SP]. constructor; [exact HI|exact GI|].
      unfold m5. change (sp (with_ip ?x _)) with (sp x). change (scap (with_ip ?x _)) with (scap x).
      apply pushed_sp_lt. apply pushed_sp_lt. exact SP. }
    assert (Hsp5 : sp m5 = sp m + n + 3) by (cbn [sp m5 pushed with_scap with_stack with_ip]; rewrite Hsp3; lia).
    assert (Hk5 : forall j, j <= sp m + n + 1 -> sget m5 j = sget m3 j).
    { intros j Hj. unfold m5. change (sget (with_ip ?x _) ?jj) with (sget x jj).
      rewrite sget_pushed_other by (cbn [sp pushed with_scap with_stack with_ip]; rewrite Hsp3; lia).
      rewrite sget_pushed_other by (cbn [sp with_ip]; rewrite Hsp3; lia). reflexivity. }
    assert (H52 : sget m5 (sp m + n + 2) = VEp (ep m3)).
    { unfold m5. change (sget (with_ip ?x _) ?jj) with (sget x jj).
      rewrite sget_pushed_other by (cbn [sp pushed with_scap with_stack with_ip]; rewrite Hsp3; lia).
      replace (sp m + n + 2) with (sp (with_ip m3 (lp, q + 1)) + 1) by (cbn [sp with_ip]; rewrite Hsp3; lia).
      apply sget_pushed_top. }
    assert (H53 : sget m5 (sp m + n + 3) = VIp lp (q + 1)).
    { unfold m5. change (sget (with_ip ?x _) ?jj) with (sget x jj).
      replace (sp m + n + 3) with (sp (pushed (with_ip m3 (lp, q + 1)) (VEp (ep m3))) + 1)
        by (cbn [sp pushed with_scap with_stack with_ip]; rewrite Hsp3; lia).
      apply sget_pushed_top. }
    cbn [tbound] in Ht.
    destruct (callee_run3b ps cs body cvals n (sp m) (ep m3) lp (q + 1) vs rs rho2 r rho3 m5 lamp dlb dnb dtb hi IHb
                ltac:(lia) ltac:(lia) MIm5
                ltac:(eapply vrep3_ext; [exact X35|exact V3])
                ltac:(exists cp, cep; split; [exact Hacc3|exact Hgcp]) eq_refl Hlrs Hn Hsp5
                ltac:(rewrite Hk5 by lia; exact Htop3) H52 H53 Hvl)
      as (k8 & m8 & St8 & HW8 & X58 & MI8 & V8 & G8 & Hsp8 & Hep8 & Hip8 & Hbp8 & Hlog8 & Hk8).
    { intros j v Hj. pose proof (list_get_lt _ _ _ Hj) as Hlt. rewrite Hk5 by lia. apply Hargs3. exact Hj. }
    { eapply Forall2_vrep3_ext; [exact X35|exact Vvs3]. }
    { eapply genv_rel3_ext; [apply X35|reflexivity|exact G3]. }
    assert (Xm08 : rext m m8) by (eapply rext_trans; [exact Xm03|]; eapply rext_trans; eassumption).
    exists (n1 + 1 + n3 + 1 + k8)%nat, m8.
    split; [eapply steps_trans; [eapply steps_trans; [exact St03|apply steps_one; exact Ecall]|exact St8]|].
    split.
    { eapply hwb_weak; [eapply hwb_trans; [eapply steps_trans; [exact St03|apply steps_one; exact Ecall]|
        eapply hwb_trans; [exact St03|exact HW03|eapply (hwb_one ob (sp m3) hi m3 m5 Ecall)]|exact HW8]| |]; lia. }
    split.
    { split; [|apply Xm08]. constructor.
      - apply Xm08.
      - exact Hsp8.
      - rewrite Hbp8. exact Hbp3.
      - rewrite Hep8. exact Hep3.
      - rewrite Hlog8. exact Hlog3.
      - intros j Hj. rewrite Hk8 by exact Hj. rewrite Hk5 by lia. apply Hlow3. exact Hj. }
    split; [exact MI8|]. split; [rewrite Hip8, Hq; reflexivity|]. split; [exact V8|exact G8].
Qed.
(* ------------------------------------------------------------ the induction on the reference derivation *)
Definition args_okPb (sc : list text) (lv : list rval3) (rho : env3) (args : list expr3) (rs : list rval3)
                    (rho' : env3) (dl dn : N) : Prop :=
  forall f l n s l' n' s' code, Forall (fun x => wf3 x sc) args -> (cell_size (cells_of3 args) < f)%nat ->
    hdr3 l sc s -> minv s ->
    args_loop (compile_expression f) (cells_of3 args) l n s = ROk (l', n') s' -> fwd l' = fwd l ++ code ->
    exec_args3b ob s' (len (fwd l)) code (len args) lv rho rs rho' dl dn.
Lemma dyn_datumb tl sc lv rho (e : expr3) d :
  (forall f l tail, compile_expression (S f) l tail (cell_of3 e) =
     (dom v <- maybe_put_cell_m d; ret (emit (emit (emit_op l OMovImmediate) v) VAcc))) ->
  heap_datum d -> body_okb tl sc lv rho e (R3Base (RDatum d)) rho 0 0 0.
Proof.
  intros Heq Hd f l s l' s' code _ Hf Hh MI Hcomp Hfwd. destruct f as [|f]; [lia|].
  rewrite Heq in Hcomp. destruct (maybe_put_cell_m_ok d s Hd MI) as (v & s1 & E & MI1 & X & R & V).
  unfold bindM in Hcomp. rewrite E in Hcomp. unfold ret in Hcomp. injection Hcomp as <- <-.
  rewrite fwd_emit3 in Hfwd. apply app_inv_head in Hfwd. subst code. apply exec3b_movimm. exact V.
Qed.
Lemma dyn_storeb tl sc lv rho (e0 : expr3) x e r1 rho1 dl dn dt :
  (wf3 e0 sc -> forall f l tail s, compile_expression (S f) l tail (cell_of3 e0) s =
    (dom l1 <- compile_expression f l false (cell_of3 e);
     dom sym_ref <- put_cell_m (CSym x);
     dom operand <- location_operand (emit (emit_op l1 OMov) VAcc) sym_ref;
     ret (emit (emit (emit_op (emit (emit (emit_op l1 OMov) VAcc) operand) OMovImmediate) VVoid) VAcc)) s) ->
  (cell_size (cell_of3 e) < cell_size (cell_of3 e0))%nat ->
  (wf3 e0 sc -> pindex x sc = None /\ wf3 e sc) ->
  body_okb false sc lv rho e r1 rho1 dl dn dt -> body_okb tl sc lv rho e0 (R3Base (RDatum CVoid)) (upd3 rho1 x r1) dl (N.max dn dt) 0.
Proof.
  intros Heq Hsz Hw IH f l s l' s' code Hwf Hf Hh MI Hcomp Hfwd. destruct f as [|f]; [lia|].
  destruct (Hw Hwf) as [Hpx We]. rewrite (Heq Hwf) in Hcomp.
  destruct (static3 e sc We f l false s ltac:(lia) Hh MI) as (l1 & s1 & c1 & E1 & F1 & S1 & MI1 & X1 & R1 & _).
  destruct (put_sym_m_ok x s1 MI1) as (a & s2 & E2 & MI2 & X2 & R2 & A & C & Eb & Eg).
  destruct (get_binding_ok a s2 MI2) as (k & s3 & E3 & MI3 & X3 & R3 & Eh & Es & B).
  assert (Hh2 : hdr3 (emit (emit_op l1 OMov) VAcc) sc s2).
  { eapply hdr3_same; [|eapply hdr3_ext; [|exact Hh]].
    - eapply same_hdr_trans; [exact S1|repeat split].
    - eapply cext_trans; eassumption. }
  unfold bindM at 1 in Hcomp. rewrite E1 in Hcomp. unfold bindM at 1 in Hcomp. rewrite E2 in Hcomp.
  unfold bindM at 1 in Hcomp. rewrite (location_global3 _ sc s2 a x Hh2 (mi_heap _ MI2) A C Hpx) in Hcomp.
  unfold bindM at 1 in Hcomp. rewrite E3 in Hcomp. unfold ret in Hcomp. injection Hcomp as <- <-.
  rewrite fwd_store, F1, <- app_assoc in Hfwd. apply app_inv_head in Hfwd. subst code.
  apply (exec3b_store ob s3 _ c1 a k x).
  - apply (exec3b_ext ob s3 s1); [eapply cext_trans; eassumption|]. exact (IH f l s l1 s1 c1 We ltac:(lia) Hh MI E1 F1).
  - rewrite Eh. exact A.
  - rewrite Eh. exact C.
  - exact B.
Qed.
Lemma dyn_ifb tl sc lv rho c a b rc rho1 r rho2 (eb : bool) dlc dnc dtc dl dn dt :
  body_okb false sc lv rho c rc rho1 dlc dnc dtc -> is_false3 rc = eb ->
  (if eb then body_okb tl sc lv rho1 b r rho2 dl dn dt else body_okb tl sc lv rho1 a r rho2 dl dn dt) ->
  body_okb tl sc lv rho (YIf c a b) r rho2 (N.max dlc dl) (N.max (N.max dnc dtc) dn) dt.
Proof.
  intros IHc Hrc IHx f l s l' s' code (Wc & Wa & Wb) Hf Hh MI Hcomp Hfwd. destruct f as [|f]; [lia|].
  cbn [cell_of3] in *. cbn [cell_size] in Hf. rewrite compile_if3_eq in Hcomp.
  destruct (static3 c sc Wc f l false s ltac:(lia) Hh MI) as (l1 & s1 & cc & E1 & F1 & S1 & MI1 & X1 & R1 & _).
  set (l3 := emit (emit_op l1 OJnt) (VPtr CAFEBEEF)) in *.
  assert (S3 : same_hdr l l3) by (eapply same_hdr_trans; [exact S1|repeat split]).
  pose proof (hdr3_same _ _ _ _ S3 (hdr3_ext _ _ _ _ X1 Hh)) as Hh3.
  destruct (static3 a sc Wa f l3 tl s1 ltac:(lia) Hh3 MI1) as (l4 & s2 & ca & E4 & F4 & S4 & MI2 & X2 & R2 & _).
  destruct (if_layout l l1 l4 cc ca F1 F4) as [L6 F7].
  set (l6 := emit (emit_op l4 OJmp) (VPtr CAFEBEEF)) in *.
  set (l7 := bc_patch l6 (bc_len (emit_op l1 OJnt)) (VPtr (bc_len l6))) in *.
  assert (S7 : same_hdr l l7).
  { eapply same_hdr_trans; [exact S3|]. eapply same_hdr_trans; [exact S4|]. repeat split. }
  assert (X12 : cext s s2) by (eapply cext_trans; eassumption).
  pose proof (hdr3_same _ _ _ _ S7 (hdr3_ext _ _ _ _ X12 Hh)) as Hh7.
  destruct (static3 b sc Wb f l7 tl s2 ltac:(lia) Hh7 MI2) as (l8 & s3 & cb & E8 & F8 & S8 & MI3 & X3 & R3 & _).
  set (p := len (fwd l)) in *.
  assert (L7 : len (fwd l7) = bc_len l6) by (rewrite F7, L6; lens; fold p; lia).
  assert (L3 : len (fwd l3) = p + len cc + 2) by (unfold l3; rewrite fwd_emit, fwd_emit_op, F1; lens; fold p; lia).
  assert (L8 : bc_len l8 = bc_len l6 + len cb) by (rewrite (bc_len_fwd l8), F8, len_app, L7; reflexivity).
  unfold bindM at 1 in Hcomp. rewrite E1 in Hcomp. unfold bindM at 1 in Hcomp. fold l3 in Hcomp. rewrite E4 in Hcomp.
  unfold bindM at 1 in Hcomp. fold l6 l7 in Hcomp. rewrite E8 in Hcomp. unfold ret in Hcomp. injection Hcomp as <- <-.
  rewrite (if_final l8 l4 (fwd l ++ cc ++ [VOp OJnt; VPtr (bc_len l6)] ++ ca) cb) in Hfwd;
    [|rewrite F8, F7, <- !app_assoc; reflexivity
     |rewrite bc_len_fwd, fwd_emit_op, F4; lens; rewrite L3; lens; fold p; lia].
  rewrite <- !app_assoc in Hfwd. apply app_inv_head in Hfwd. subst code.
  assert (X13 : cext s1 s3) by (eapply cext_trans; eassumption).
  apply (exec3b_if ob s3 p cc ca cb _ _ tl lv rho rc rho1 r rho2 eb dlc dnc dtc dl dn dt L6 L8).
  - apply (exec3b_ext ob s3 s1); [exact X13|]. exact (IHc f l s l1 s1 cc Wc ltac:(lia) Hh MI E1 F1).
  - exact Hrc.
  - destruct eb.
    + rewrite <- L7. exact (IHx f l7 s2 l8 s3 cb Wb ltac:(lia) Hh7 MI2 E8 F8).
    + rewrite <- L3. apply (exec3b_ext ob s3 s2); [exact X3|]. exact (IHx f l3 s1 l4 s2 ca Wa ltac:(lia) Hh3 MI1 E4 F4).
Qed.
Lemma dyn_if1b tl sc lv rho c a rc rho1 r rho2 (eb : bool) dlc dnc dtc dl dn dt :
  body_okb false sc lv rho c rc rho1 dlc dnc dtc -> is_false3 rc = eb ->
  (if eb then r = R3Base (RDatum CVoid) /\ rho2 = rho1 /\ dl = 0 /\ dn = 0 /\ dt = 0 else body_okb tl sc lv rho1 a r rho2 dl dn dt) ->
  body_okb tl sc lv rho (YIf1 c a) r rho2 (N.max dlc dl) (N.max (N.max dnc dtc) dn) dt.
Proof.
  intros IHc Hrc IHx f l s l' s' code (Wc & Wa) Hf Hh MI Hcomp Hfwd. destruct f as [|f]; [lia|].
  cbn [cell_of3] in *. cbn [cell_size] in Hf. rewrite compile_if2_eq in Hcomp.
  destruct (static3 c sc Wc f l false s ltac:(lia) Hh MI) as (l1 & s1 & cc & E1 & F1 & S1 & MI1 & X1 & R1 & _).
  set (l3 := emit (emit_op l1 OJnt) (VPtr CAFEBEEF)) in *.
  assert (S3 : same_hdr l l3) by (eapply same_hdr_trans; [exact S1|repeat split]).
  pose proof (hdr3_same _ _ _ _ S3 (hdr3_ext _ _ _ _ X1 Hh)) as Hh3.
  destruct (static3 a sc Wa f l3 tl s1 ltac:(lia) Hh3 MI1) as (l4 & s2 & ca & E4 & F4 & S4 & MI2 & X2 & R2 & _).
  destruct (if_layout l l1 l4 cc ca F1 F4) as [L6 F7].
  set (l6 := emit (emit_op l4 OJmp) (VPtr CAFEBEEF)) in *.
  set (l7 := bc_patch l6 (bc_len (emit_op l1 OJnt)) (VPtr (bc_len l6))) in *.
  set (cb := [VOp OMovImmediate; VVoid; VAcc]).
  set (l8 := emit (emit (emit_op l7 OMovImmediate) VVoid) VAcc) in *.
  assert (F8 : fwd l8 = fwd l7 ++ cb) by apply fwd_emit3.
  set (p := len (fwd l)) in *.
  assert (L7 : len (fwd l7) = bc_len l6) by (rewrite F7, L6; lens; fold p; lia).
  assert (L3 : len (fwd l3) = p + len cc + 2) by (unfold l3; rewrite fwd_emit, fwd_emit_op, F1; lens; fold p; lia).
  assert (L8 : bc_len l8 = bc_len l6 + len cb) by (rewrite (bc_len_fwd l8), F8, len_app, L7; reflexivity).
  unfold bindM at 1 in Hcomp. rewrite E1 in Hcomp. unfold bindM at 1 in Hcomp. fold l3 in Hcomp. rewrite E4 in Hcomp.
  fold l6 l7 l8 in Hcomp. unfold ret in Hcomp. injection Hcomp as <- <-.
  rewrite (if_final l8 l4 (fwd l ++ cc ++ [VOp OJnt; VPtr (bc_len l6)] ++ ca) cb) in Hfwd;
    [|rewrite F8, F7, <- !app_assoc; reflexivity
     |rewrite bc_len_fwd, fwd_emit_op, F4; lens; rewrite L3; lens; fold p; lia].
  rewrite <- !app_assoc in Hfwd. apply app_inv_head in Hfwd. subst code.
  destruct eb.
  - destruct IHx as (-> & -> & -> & -> & ->).
    apply (exec3b_if ob s2 p cc ca cb _ _ tl lv rho rc rho1 (R3Base (RDatum CVoid)) rho1 true dlc dnc dtc 0 0 0 L6 L8).
    + apply (exec3b_ext ob s2 s1); [exact X2|]. exact (IHc f l s l1 s1 cc Wc ltac:(lia) Hh MI E1 F1).
    + exact Hrc.
    + cbv iota. apply exec3b_movimm. apply vrep_void.
  - apply (exec3b_if ob s2 p cc ca cb _ _ tl lv rho rc rho1 r rho2 false dlc dnc dtc dl dn dt L6 L8).
    + apply (exec3b_ext ob s2 s1); [exact X2|]. exact (IHc f l s l1 s1 cc Wc ltac:(lia) Hh MI E1 F1).
    + exact Hrc.
    + cbv iota. rewrite <- L3. exact (IHx f l3 s1 l4 s2 ca Wa ltac:(lia) Hh3 MI1 E4 F4).
Qed.
Lemma dyn_localb tl sc lv rho x i r : pindex x sc = Some i -> nth_error lv (N.to_nat i) = Some r ->
  body_okb tl sc lv rho (YVar x) r rho 0 0 0.
Proof.
  intros Hpi Hn f l s l' s' code Hx Hf Hh MI Hcomp Hfwd. destruct f as [|f]; [lia|].
  cbn [wf3] in Hx. cbn [cell_of3] in Hcomp. rewrite (compile_var_eq _ _ _ _ _ Hx) in Hcomp.
  destruct (put_sym_m_ok x s MI) as (a & s1 & E1 & MI1 & X1 & R1 & A & C & Eb & Eg).
  unfold bindM at 1 in Hcomp. rewrite E1 in Hcomp. unfold bindM at 1 in Hcomp.
  rewrite (location_local3 l sc s1 a x i (hdr3_ext _ _ _ _ X1 Hh) (mi_heap _ MI1) A C Hpi) in Hcomp.
  unfold ret in Hcomp. injection Hcomp as <- <-.
  rewrite fwd_emit3 in Hfwd. apply app_inv_head in Hfwd. subst code. apply exec3b_load_local. exact Hn.
Qed.

Lemma dyn_globalb tl sc lv rho x r : pindex x sc = None -> rho x = Some r -> r <> R3Base (RDatum CUndef) ->
  body_okb tl sc lv rho (YVar x) r rho 0 0 0.
Proof.
  intros Hpi Hr Hu f l s l' s' code Hx Hf Hh MI Hcomp Hfwd. destruct f as [|f]; [lia|].
  cbn [wf3] in Hx. cbn [cell_of3] in Hcomp. rewrite (compile_var_eq _ _ _ _ _ Hx) in Hcomp.
  destruct (put_sym_m_ok x s MI) as (a & s1 & E1 & MI1 & X1 & R1 & A & C & Eb & Eg).
  destruct (get_binding_ok a s1 MI1) as (k & s2 & E2 & MI2 & X2 & R2 & Eh & Es & B).
  unfold bindM at 1 in Hcomp. rewrite E1 in Hcomp. unfold bindM at 1 in Hcomp.
  rewrite (location_global3 l sc s1 a x (hdr3_ext _ _ _ _ X1 Hh) (mi_heap _ MI1) A C Hpi) in Hcomp.
  unfold bindM at 1 in Hcomp. rewrite E2 in Hcomp. unfold ret in Hcomp. injection Hcomp as <- <-.
  rewrite fwd_emit3 in Hfwd. apply app_inv_head in Hfwd. subst code.
  apply (exec3b_load_global ob s2 _ a k x); auto; rewrite Eh; assumption.
Qed.
Lemma dyn_lamb tl sc lv rho ps fs body cvals :
  Forall2 (fun x v => exists i, pindex x sc = Some i /\ nth_error lv (N.to_nat i) = Some v) (capnames sc fs) cvals ->
  body_okb tl sc lv rho (YLam ps fs body) (R3Clo ps (capnames sc fs) body cvals) rho 0 0 0.
Proof.
  intros Fv f l s l' s' code Hwf Hf Hh MI Hcomp Hfwd.
  pose proof Hwf as Hwf'. cbn [wf3] in Hwf'. destruct Hwf' as (_ & _ & _ & _ & Wb).
  cbn [cell_of3] in *.
  destruct (lam_static3 sc ps fs body Hwf (static3 body _ Wb) f l tl s Hf Hh MI)
    as (l2 & s2 & lamp & lamF & caps & cb & f' & lam2 & s3 & lam3 & s4 & E & F & _ & MI2 & X2 & _ & _ &
        Hlam & Hem & Fa & Fc & Hbc & Hf' & Hh2 & MI3 & Ecomp & F2 & F3 & X4).
  rewrite E in Hcomp. injection Hcomp as <- <-.
  rewrite F in Hfwd. apply app_inv_head in Hfwd. subst code.
  apply (exec3b_lam s2 _ lamp lamF caps sc ps (capnames sc fs) body tl lv rho cvals Hlam Hem Fa Fc); [|exact Fv].
  exists lamF, caps, cb, f', lam2, s3, lam3, s4.
  split; [exact Hlam|]. split; [exact Hem|]. split; [exact Fa|].
  split.
  { clear -Fc. induction Fc as [|e x caps cs (_ & k & Hk & _) _ IH]; constructor; [exists k; exact Hk|exact IH]. }
  split; [eapply Forall2_length; exact Fc|]. split; [exact Hbc|]. split; [exact Hf'|]. split; [exact Wb|].
  split; [exact Hh2|]. split; [exact MI3|]. split; [exact Ecomp|]. split; [exact F2|]. split; [exact F3|exact X4].
Qed.
Lemma dyn_args_nilb sc lv rho : args_okPb sc lv rho [] [] rho 0 0.
Proof.
  intros f l n s l' n' s' code _ _ _ _ Hcomp Hfwd.
  cbn [cells_of3 map fold_right args_loop] in Hcomp. unfold ret in Hcomp. injection Hcomp as <- _ <-.
  rewrite <- (app_nil_r (fwd l)) in Hfwd at 1. apply app_inv_head in Hfwd. subst code.
  apply exec_args3b_nil.
Qed.

Lemma dyn_args_consb sc lv rho x r rho1 xs rs rho2 dl dn dt dls dns :
  body_okb false sc lv rho x r rho1 dl dn dt -> args_okPb sc lv rho1 xs rs rho2 dls dns ->
  args_okPb sc lv rho (x :: xs) (r :: rs) rho2 (N.max dl (1 + dls)) (N.max (N.max dn dt) (1 + dns)).
Proof.
  intros IHx IHr f l n s l' n' s' code Wall Hf Hh MI Hcomp Hfwd.
  inversion Wall as [|x' xs' Wx Wr]; subst.
  destruct (cells3_size x xs) as [Sx Sr].
  change (cells_of3 (x :: xs)) with (CPair (cell_of3 x) (cells_of3 xs)) in *. cbn [args_loop] in Hcomp.
  destruct (static3 x sc Wx f l false s ltac:(lia) Hh MI) as (l1 & s1 & cx & E1 & F1 & S1 & MI1 & X1 & R1 & _).
  assert (S1' : same_hdr l (emit_op l1 OPushAcc)) by (eapply same_hdr_trans; [exact S1|repeat split]).
  pose proof (hdr3_same _ _ _ _ S1' (hdr3_ext _ _ _ _ X1 Hh)) as Hh1.
  destruct (args_static3 sc xs (statics sc xs Wr) f (emit_op l1 OPushAcc) (n + 1) s1 ltac:(lia) Hh1 MI1)
    as (l2 & s2 & cr & E2 & F2 & S2 & MI2 & X2 & R2 & _).
  unfold bindM at 1 in Hcomp. rewrite E1 in Hcomp. rewrite E2 in Hcomp. injection Hcomp as <- _ <-.
  rewrite F2, fwd_emit_op, F1, <- !app_assoc in Hfwd. apply app_inv_head in Hfwd. subst code.
  rewrite len_cons.
  apply (exec_args3b_cons ob s2 _ cx cr (len xs) lv rho r rho1 rs rho2 dl dn dt dls dns).
  - apply (exec3b_ext ob s2 s1); [exact X2|]. exact (IHx f l s l1 s1 cx Wx ltac:(lia) Hh MI E1 F1).
  - pose proof (IHr f (emit_op l1 OPushAcc) (n + 1) s1 l2 _ s2 cr Wr ltac:(lia) Hh1 MI1 E2 F2) as H.
    rewrite fwd_emit_op, F1 in H. replace (len ((fwd l ++ cx) ++ [VOp OPushAcc])) with (len (fwd l) + len cx + 1) in H by (lens; lia).
    exact H.
Qed.

Section Main3b.
Hypothesis Hb : forall b, builtin_ok ob bsem b.
Hypothesis He : forall b, builtin_envs ob bsem b.

Lemma dyn_app_builtinb tl sc lv rho f0 args rbs rho1 b rho2 r dla dna dlf dnf dtf :
  args_okPb sc lv rho args (map R3Base rbs) rho1 dla dna ->
  body_okb false sc lv rho1 f0 (R3Base (RBuiltin b)) rho2 dlf dnf dtf ->
  bsem b rbs = Some r ->
  body_okb tl sc lv rho (YApp f0 args) (R3Base r) rho2
           (N.max dla (len args + 1 + dlf)) (N.max dna (len args + 1 + N.max dnf dtf)) 0.
Proof.
  intros IHa IHf Hsem f l s l' s' code Hwf Hf Hh MI Hcomp Hfwd.
  destruct (app_shape sc f0 args f l tl s l' s' code Hwf Hf Hh MI Hcomp Hfwd)
    as (f1 & l1 & s1 & ca & l2 & l3 & cf & Wf & Wargs & Hf1 & Hf2 & E1 & F1 & Hh2 & MI1 & L2 & E3 & F3 & X2 & ->).
  apply (exec3b_app_builtin ob bsem s' _ ca cf (len args) tl lv rho rbs rho1 b rho2 r dla dna dlf dnf dtf Hb He).
  - apply (exec_args3b_ext ob s' s1); [exact X2|]. exact (IHa f1 l 0 s l1 _ s1 ca Wargs Hf1 Hh MI E1 F1).
  - rewrite <- L2. exact (IHf f1 l2 s1 l3 s' cf Wf Hf2 Hh2 MI1 E3 F3).
  - exact Hsem.
Qed.

Lemma dyn_app_closureb tl sc lv rho f0 args rs rho1 ps cs body cvals rho2 r rho3 dla dna dlf dnf dtf dlb dnb dtb :
  length rs = length args ->
  args_okPb sc lv rho args rs rho1 dla dna ->
  body_okb false sc lv rho1 f0 (R3Clo ps cs body cvals) rho2 dlf dnf dtf ->
  length rs = length ps -> body_okb true (ps ++ cs) (rs ++ cvals) rho2 body r rho3 dlb dnb dtb ->
  body_okb tl sc lv rho (YApp f0 args) r rho3
           (N.max (N.max dla (len args + 1 + dlf)) (if tl then 0 else len args + 4 + dlb))
           (N.max dna (len args + 1 + N.max dnf dtf)) (N.max (len args + 4 + dnb) dtb).
Proof.
  intros Hla IHa IHf Hlrs IHb f l s l' s' code Hwf Hf Hh MI Hcomp Hfwd.
  destruct (app_shape sc f0 args f l tl s l' s' code Hwf Hf Hh MI Hcomp Hfwd)
    as (f1 & l1 & s1 & ca & l2 & l3 & cf & Wf & Wargs & Hf1 & Hf2 & E1 & F1 & Hh2 & MI1 & L2 & E3 & F3 & X2 & ->).
  apply (exec3b_app_closure s' _ ca cf (len args) tl lv rho rs rho1 ps cs body cvals rho2 r rho3 dla dna dlf dnf dtf dlb dnb dtb).
  - apply (exec_args3b_ext ob s' s1); [exact X2|]. exact (IHa f1 l 0 s l1 _ s1 ca Wargs Hf1 Hh MI E1 F1).
  - rewrite <- L2. exact (IHf f1 l2 s1 l3 s' cf Wf Hf2 Hh2 MI1 E3 F3).
  - exact Hlrs.
  - unfold len. rewrite <- Hla, Hlrs. reflexivity.
  - exact IHb.
Qed.

(* THE THEOREM with stack bounds: for every depth-indexed derivation of e, every successful
   compilation of e (tail flag as in the derivation) produces code that computes the reference
   value with the stack pointer of every intermediate state between sp + dl and any hi above
   sp + dn and base + dt *)
Theorem compile_correct3b : forall tl sc lv rho e r rho' dl dn dt, dref3 bsem tl sc lv rho e r rho' dl dn dt ->
  body_okb tl sc lv rho e r rho' dl dn dt.
Proof.
  apply (dref3_min bsem body_okb args_okPb).
  - intros tl sc lv rho c f l s l' s' code Hwf. pose proof Hwf as [Hs Hd]. revert f l s l' s' code Hwf.
    apply (dyn_datumb tl sc lv rho (YConst c) c); [intros; apply compile_const_eq; [exact Hs|exact Hd]|exact Hd].
  - intros tl sc lv rho d f l s l' s' code Hwf. pose proof Hwf as Hd. cbn [wf3] in Hd. revert f l s l' s' code Hwf.
    apply (dyn_datumb tl sc lv rho (YQuote d) d); [intros; apply compile_quote_form; exact Hd|exact Hd].
  - intros tl sc lv rho x i r Hp Hn. apply (dyn_localb tl sc lv rho x i r Hp Hn).
  - intros tl sc lv rho x r Hp Hr Hu. apply dyn_globalb; assumption.
  - intros tl sc lv rho c a b rc rho1 r rho2 dlc dnc dtc dl dn dt _ IHc Hrc _ IHa.
    apply (dyn_ifb tl sc lv rho c a b rc rho1 r rho2 false dlc dnc dtc dl dn dt IHc Hrc IHa).
  - intros tl sc lv rho c a b rc rho1 r rho2 dlc dnc dtc dl dn dt _ IHc Hrc _ IHb.
    apply (dyn_ifb tl sc lv rho c a b rc rho1 r rho2 true dlc dnc dtc dl dn dt IHc Hrc IHb).
  - intros tl sc lv rho c a rc rho1 r rho2 dlc dnc dtc dl dn dt _ IHc Hrc _ IHa.
    apply (dyn_if1b tl sc lv rho c a rc rho1 r rho2 false dlc dnc dtc dl dn dt IHc Hrc IHa).
  - intros tl sc lv rho c a rc rho1 dlc dnc dtc _ IHc Hrc.
    apply (dyn_if1b tl sc lv rho c a rc rho1 _ rho1 true dlc dnc dtc 0 0 0 IHc Hrc). repeat split; reflexivity.
  - intros tl sc lv rho x e r rho1 dl dn dt _ IH. apply (dyn_storeb tl sc lv rho (YDefine x e) x e r rho1 dl dn dt); [| | |exact IH].
    + intros (Hx & _ & _) f l tail s. apply compile_define_eq. exact Hx.
    + cbn [cell_of3 cell_size]. lia.
    + intros (_ & Hp & We). split; assumption.
  - intros tl sc lv rho x e r rho1 old dl dn dt _ IH _. apply (dyn_storeb tl sc lv rho (YSet x e) x e r rho1 dl dn dt); [| | |exact IH].
    + intros (Hx & _ & _) f l tail s. apply compile_set_eq. exact Hx.
    + cbn [cell_of3 cell_size]. lia.
    + intros (_ & Hp & We). split; assumption.
  - intros tl sc lv rho ps fs body cvals Fv. apply dyn_lamb. exact Fv.
  - intros tl sc lv rho f0 args rbs rho1 b rho2 r dla dna dlf dnf dtf _ IHa _ IHf Hsem.
    exact (dyn_app_builtinb tl sc lv rho f0 args rbs rho1 b rho2 r dla dna dlf dnf dtf IHa IHf Hsem).
  - intros tl sc lv rho f0 args rs rho1 ps cs body cvals rho2 r rho3 dla dna dlf dnf dtf dlb dnb dtb HRa IHa _ IHf Hlrs _ IHb.
    exact (dyn_app_closureb tl sc lv rho f0 args rs rho1 ps cs body cvals rho2 r rho3 dla dna dlf dnf dtf dlb dnb dtb
             (drefs3_len _ _ _ _ _ _ _ _ _ HRa) IHa IHf Hlrs IHb).
  - intros sc lv rho. apply dyn_args_nilb.
  - intros sc lv rho x r rho1 xs rs rho2 dl dn dt dls dns _ IHx _ IHr.
    exact (dyn_args_consb sc lv rho x r rho1 xs rs rho2 dl dn dt dls dns IHx IHr).
Qed.
End Main3b.


Lemma hwb_cons lo hi n m m' : run_one m = ROk false m' -> sp m <= hi -> hwb lo hi n m' -> hwb lo hi (S n) m.
Proof. intros E H [H1 H2]. unfold LoopSpace.hwb. rewrite (hw_S ob _ _ _ E). lia. Qed.

Section Eval3b.
Hypothesis Hb : forall b, builtin_ok ob bsem b.
Hypothesis He : forall b, builtin_envs ob bsem b.

(* Vm::eval on a well-formed top-level expression of the closure fragment *)
Theorem eval_fragment3b e rho r rho' s dl dn dt :
  wf3 e [] -> dref3 bsem true [] [] rho e r rho' dl dn dt -> minv s -> genv_rel3 rho s ->
  transform_expr TRANSFORM_FUEL s (cell_of3 e) = Ok (cell_of3 e) ->
  exists n m, (forall fuel, (n <= fuel)%nat -> eval ob fuel (cell_of3 e) s = halt_result m) /\
    (exists m0 k m6, prepare_eval (cell_of3 e) s = ROk tt m0 /\ sp m0 = sp s /\ steps k m0 = Some m6 /\
       run_one m6 = ROk true m /\ n = S k /\ hwb (sp s + 4 + dl) (sp s + N.max (4 + dn) dt) k m0) /\
    vrep3 m (acc m) r /\ genv_rel3 rho' m /\ minv m /\ cext s m /\
    sp m = sp s /\ bp m = bp s /\ ep m = ep s /\ out_log m = out_log s.
Proof.
  intros Hwf HR MI G Htr.
  assert (Ht : top_hdr top_lam) by (split; reflexivity).
  destruct (static3 e [] Hwf (S (S (cell_size (cell_of3 e)))) top_lam true s ltac:(lia) (top_hdr_hdr3 top_lam s Ht) MI)
    as (l1 & sA & code & E1 & F1 & S1 & MIA & XA & RA & EnA).
  assert (Hfu : (cell_size (cell_of3 e) < S (S (cell_size (cell_of3 e))))%nat) by lia.
  pose proof (compile_correct3b Hb He true [] [] rho e r rho' dl dn dt HR _ top_lam s l1 sA code Hwf Hfu (top_hdr_hdr3 top_lam s Ht) MI E1 F1) as EX.
  set (hi := sp s + N.max (4 + dn) dt).
  destruct (put_lambda_spec (emit_op l1 ORet) sA MIA) as (a & sB & E2 & MIB & XB & RB & GbB & _ & AB & CB & LB & TB).
  destruct (put_lambda_spec (entry_lam (VPtr a)) sB MIB) as (a0 & sC & E3 & MIC & XC & RC & GbC & _ & AC & CC & LC & TC).
  set (m0 := with_ip sC (a0, 0)).
  assert (Hprep : prepare_eval (cell_of3 e) s = ROk tt m0).
  { unfold prepare_eval. unfold bindM at 1. rewrite compile_runnable_eq.
    unfold bindM at 1. unfold compile. rewrite Htr, E1. unfold bindM at 1. rewrite E2. unfold ret at 1.
    unfold bindM at 1. rewrite E3. reflexivity. }
  assert (XsC : cext s sC) by (eapply cext_trans; [exact XA|]; eapply cext_trans; eassumption).
  assert (RsC : same_regs s sC) by (eapply same_regs_trans; [exact RA|]; eapply same_regs_trans; eassumption).
  destruct RsC as (Rsp & Rbp & Rep & Rcap & Rstk & Rlog & more & Rg).
  assert (EnC : envs (st sC) = envs (st s)).
  { rewrite (put_lambda_envs _ _ _ _ E3), (put_lambda_envs _ _ _ _ E2). exact EnA. }
  pose proof (genv_rel3_compile rho s sC XsC (conj Rsp (conj Rbp (conj Rep (conj Rcap (conj Rstk (conj Rlog (ex_intro _ more Rg))))))) EnC G) as GC.
  (* the two code blocks *)
  set (bc0 := [VOp OPushImmediate; VArgc 0; VOp OMovImmediate; VPtr a; VAcc; VOp OCallAcc; VOp OHalt]).
  set (bc1 := ([VOp OEnter] ++ code) ++ [VOp ORet]).
  assert (Hbc1 : l_bc (lambda_finish (emit_op l1 ORet)) = bc1).
  { change (l_bc (lambda_finish (emit_op l1 ORet))) with (fwd (emit_op l1 ORet)). rewrite fwd_emit_op, F1. reflexivity. }
  assert (HcB : code_in sB a bc1).
  { eexists; eexists. split; [exact AB|]. split; [exact CB|]. split; [exact LB|]. split; [exact TB|exact Hbc1]. }
  assert (Hc1C : code_in sC a bc1) by (eapply code_in_ext; eassumption).
  assert (Hc0C : code_in sC a0 bc0).
  { eexists; eexists. split; [exact AC|]. split; [exact CC|]. split; [exact LC|]. split; [exact TC|reflexivity]. }
  assert (HgetA : heap_get (hp sC) a = Ok (VLambda (next_id (st sA)))).
  { destruct (ce_heap _ _ XC a AB) as [A' C']. rewrite (heap_get_alloc _ _ A'), C', CB. reflexivity. }
  assert (HlamA : tget (lams (st sC)) (next_id (st sA)) = Some (lambda_finish (emit_op l1 ORet))).
  { rewrite (ce_lams _ _ XC) by exact LB. exact TB. }
  assert (HargsA : l_args (lambda_finish (emit_op l1 ORet)) = []).
  { change (l_args (lambda_finish (emit_op l1 ORet))) with (l_args l1). destruct S1 as (_ & _ & _ & -> & _). reflexivity. }
  (* segments *)
  assert (Sg0 : forall pre x post, bc0 = pre ++ x ++ post -> seg bc0 (len pre) x) by (intros pre x post Hx; exists pre, post; auto).
  assert (Sg1 : forall pre x post, bc1 = pre ++ x ++ post -> seg bc1 (len pre) x) by (intros pre x post Hx; exists pre, post; auto).
  pose proof (mi_sp _ MIC) as HcapC.
  (* PUSH Argc 0 *)
  pose proof (step_pushimm ob m0 a0 0 bc0 (VArgc 0) (code_in_ip _ _ _ _ Hc0C) eq_refl
                (Sg0 [] [VOp OPushImmediate; VArgc 0] _ eq_refl) ltac:(discriminate)) as St1.
  set (m1 := pushed (with_ip m0 (a0, 0 + 2)) (VArgc 0)) in *.
  assert (Hc0_1 : code_in m1 a0 bc0) by (eapply code_in_regs; [| |exact Hc0C]; reflexivity).
  (* MOV lambda %acc *)
  pose proof (step_movimm ob m1 a0 (0 + 2) bc0 (VPtr a) Hc0_1 eq_refl
                (Sg0 [VOp OPushImmediate; VArgc 0] [VOp OMovImmediate; VPtr a; VAcc] _ eq_refl) ltac:(discriminate)) as St2.
  set (m2 := with_acc (with_ip m1 (a0, 0 + 2 + 3)) (VPtr a)) in *.
  assert (Hc0_2 : code_in m2 a0 bc0) by (eapply code_in_regs; [| |exact Hc0C]; reflexivity).
  (* CALL *)
  pose proof (step_call_lambda ob m2 a0 (0 + 2 + 3) bc0 a _ Hc0_2 eq_refl
                (Sg0 [VOp OPushImmediate; VArgc 0; VOp OMovImmediate; VPtr a; VAcc] [VOp OCallAcc] _ eq_refl)
                eq_refl HgetA) as St3.
  set (m3 := with_ip (pushed (pushed (with_ip m2 (a0, 0 + 2 + 3 + 1)) (VEp (ep m2))) (VIp a0 (0 + 2 + 3 + 1))) (a, 0)) in *.
  assert (Hc1_3 : code_in m3 a bc1) by (eapply code_in_regs; [| |exact Hc1C]; reflexivity).
  assert (Hsp3 : sp m3 = sp s + 3) by (cbn [sp m3 m2 m1 m0 pushed with_scap with_stack with_ip with_acc]; rewrite Rsp; lia).
  assert (Hcap3 : sp m3 < scap m3).
  { unfold m3. change (sp (with_ip ?x _)) with (sp x). change (scap (with_ip ?x _)) with (scap x).
    apply pushed_sp_lt. apply pushed_sp_lt. unfold m2, m1. cbn [sp scap with_ip with_acc].
    apply pushed_sp_lt. exact HcapC. }
  assert (Hs3_1 : sget m3 (sp s + 1) = VArgc 0).
  { unfold m3. change (sget (with_ip ?x _) ?j) with (sget x j).
    rewrite sget_pushed_other by (cbn [sp m2 m1 m0 pushed with_scap with_stack with_ip with_acc]; rewrite Rsp; lia).
    rewrite sget_pushed_other by (cbn [sp m2 m1 m0 pushed with_scap with_stack with_ip with_acc]; rewrite Rsp; lia).
    change (sget (with_ip m2 _) ?j) with (sget m1 j). unfold m1.
    replace (sp s + 1) with (sp (with_ip m0 (a0, 0 + 2)) + 1) by (cbn [sp m0 with_ip]; rewrite Rsp; reflexivity).
    apply sget_pushed_top. }
  assert (Hs3_2 : sget m3 (sp s + 2) = VEp (ep s)).
  { unfold m3. change (sget (with_ip ?x _) ?j) with (sget x j).
    rewrite sget_pushed_other by (cbn [sp m2 m1 m0 pushed with_scap with_stack with_ip with_acc]; rewrite Rsp; lia).
    replace (sp s + 2) with (sp (with_ip m2 (a0, 0 + 2 + 3 + 1)) + 1)
      by (cbn [sp m2 m1 m0 pushed with_scap with_stack with_ip with_acc]; rewrite Rsp; lia).
    rewrite sget_pushed_top. cbn [ep m2 m1 m0 pushed with_scap with_stack with_ip with_acc]. rewrite Rep. reflexivity. }
  assert (Hs3_3 : sget m3 (sp s + 3) = VIp a0 (0 + 2 + 3 + 1)).
  { unfold m3. change (sget (with_ip ?x _) ?j) with (sget x j).
    replace (sp s + 3) with (sp (pushed (with_ip m2 (a0, 0 + 2 + 3 + 1)) (VEp (ep m2))) + 1)
      by (cbn [sp m2 m1 m0 pushed with_scap with_stack with_ip with_acc]; rewrite Rsp; lia).
    apply sget_pushed_top. }
  (* ENTER *)
  pose proof (step_enter_top ob m3 a bc1 _ _ Hc1_3 eq_refl eq_refl eq_refl HgetA HlamA HargsA
                ltac:(lia) Hcap3 ltac:(rewrite Hsp3; replace (sp s + 3 - 2) with (sp s + 1) by lia; exact Hs3_1)) as St4.
  set (m4 := with_bp (pushed (with_ip m3 (a, 1)) (VBp (bp m3))) (sp m3 + 1 - 4)) in *.
  assert (Hsp4 : sp m4 = sp s + 4) by (cbn [sp m4 pushed with_bp with_scap with_stack with_ip]; rewrite Hsp3; lia).
  assert (Hbp4 : bp m4 = sp s) by (cbn [bp m4 with_bp]; rewrite Hsp3; lia).
  assert (Hkeep4 : forall j, j <= sp s + 3 -> sget m4 j = sget m3 j).
  { intros j Hj. unfold m4. change (sget (with_bp ?x _) ?k) with (sget x k).
    rewrite sget_pushed_other by (cbn [sp with_ip]; rewrite Hsp3; lia). reflexivity. }
  assert (Hs4_4 : sget m4 (sp s + 4) = VBp (bp s)).
  { unfold m4. change (sget (with_bp ?x _) ?k) with (sget x k).
    replace (sp s + 4) with (sp (with_ip m3 (a, 1)) + 1) by (cbn [sp with_ip]; rewrite Hsp3; lia).
    rewrite sget_pushed_top. cbn [bp m3 m2 m1 m0 pushed with_scap with_stack with_ip with_acc]. rewrite Rbp. reflexivity. }
  assert (RC4 : rext sC m4) by (apply rext_same; try reflexivity; lia).
  pose proof (rx_cext _ _ RC4) as XC4.
  assert (MI4 : minv m4).
  { destruct MIC as [HI GI SP]. constructor; [exact HI|exact GI|].
    unfold m4. change (sp (with_bp ?x _)) with (sp x). change (scap (with_bp ?x _)) with (scap x).
    apply pushed_sp_lt. exact Hcap3. }
  assert (Hc1_4 : code_in m4 a bc1) by (eapply code_in_regs; [| |exact Hc1C]; reflexivity).
  assert (G4 : genv_rel3 rho m4) by (eapply genv_rel3_ext; [exact RC4|reflexivity|exact GC]).
  (* the code of e: it ends at RET, or a tail call in it returns from the frame *)
  assert (Hfr4 : frame_at m4 0 (ep s) (a0, 0 + 2 + 3 + 1) (bp s)).
  { unfold frame_at. rewrite Hbp4. rewrite !Hkeep4 by lia. cbn [fst snd]. repeat split; auto. lia. }
  assert (Ht4 : tframe m4) by (exists 0, (ep s), (a0, 0 + 2 + 3 + 1), (bp s); split; [exact Hfr4|lia]).
  assert (Htb4 : tbound true m4 dt hi).
  { exists 0, (ep s), (a0, 0 + 2 + 3 + 1), (bp s). split; [exact Hfr4|]. split; [lia|]. rewrite Hbp4. unfold hi. lia. }
  assert (Hret : exists k m6, steps k m4 = Some m6 /\ hwb (sp s + 4 + dl) hi k m4 /\ cext m4 m6 /\ minv m6 /\ vrep3 m6 (acc m6) r /\
            genv_rel3 rho' m6 /\ sp m6 = sp s /\ ep m6 = ep s /\ ip m6 = (a0, 0 + 2 + 3 + 1) /\ bp m6 = bp s /\
            out_log m6 = out_log m4).
  { destruct (EX m4 a bc1 hi (cext_trans _ _ _ XB (cext_trans _ _ _ XC XC4)) MI4 Hc1_4
              (Sg1 [VOp OEnter] code [VOp ORet] ltac:(unfold bc1; rewrite <- app_assoc; reflexivity)) eq_refl G4
              (lrel3_nil m4) ltac:(unfold hi; lia) Htb4)
      as [(n & m5 & St5 & HW5 & Fr5' & MI5 & Hip5 & V5 & G5)|[_ (n & m6 & k' & e' & i' & b' & St6 & HW6 & Hfr' & X46 & MI6 & V6 & G6 & Q1 & Q2 & Q3 & Q4 & Q5 & _)]].
    - pose proof (f2_frame _ _ Fr5') as Fr5.
      change (len (fwd top_lam)) with 1 in Hip5.
      pose proof (code_in_ext _ _ _ _ Hc1_4 (fr_ext _ _ Fr5)) as Hc1_5.
      assert (Hbp5 : bp m5 = sp s) by (rewrite (fr_bp _ _ Fr5); exact Hbp4).
      assert (Hsp5 : sp m5 = sp s + 4) by (rewrite (fr_sp _ _ Fr5); exact Hsp4).
      assert (Hk5 : forall j, j <= sp s + 4 -> sget m5 j = sget m4 j) by (intros j Hj; apply (fr_stack _ _ Fr5); lia).
      assert (SgR : seg bc1 (1 + len code) [VOp ORet]).
      { replace (1 + len code) with (len ([VOp OEnter] ++ code)) by (lens; lia).
        apply (Sg1 _ _ []). unfold bc1. rewrite app_nil_r. reflexivity. }
      pose proof (step_ret ob m5 a (1 + len code) bc1 (ep s) a0 (0 + 2 + 3 + 1) (bp s) Hc1_5 Hip5 SgR) as St6.
      assert (Hcap5 : bp m5 + 4 < scap m5) by (rewrite Hbp5, <- Hsp5; apply MI5).
      specialize (St6 Hcap5).
      rewrite Hbp5 in St6.
      specialize (St6 ltac:(rewrite Hk5, Hkeep4 by lia; exact Hs3_1) ltac:(rewrite Hk5, Hkeep4 by lia; exact Hs3_2)
                      ltac:(rewrite Hk5, Hkeep4 by lia; exact Hs3_3) ltac:(rewrite Hk5 by lia; exact Hs4_4)).
      set (m6 := with_bp (with_ip (with_ep (with_sp (with_ip m5 (a, 1 + len code + 1)) (sp s - 0)) (ep s)) (a0, 0 + 2 + 3 + 1)) (bp s)) in *.
      assert (R56 : rext m5 m6) by (apply rext_same; try reflexivity; lia).
      pose proof (rx_cext _ _ R56) as X56.
      exists (n + 1)%nat, m6. split; [eapply steps_trans; [exact St5|apply steps_one; exact St6]|].
      split.
      { eapply hwb_weak; [eapply hwb_trans; [exact St5|exact HW5|eapply (hwb_one ob (sp m5) hi m5 m6 St6)]| |]; try lia.
        all: cbn [sp m6 with_bp with_ip with_ep with_sp with_stack]; unfold hi; lia. }
      split; [eapply cext_trans; [apply Fr5|exact X56]|].
      split.
      { destruct MI5 as [HI GI SP]. constructor; [exact HI|exact GI|].
        cbn [sp scap m6 with_bp with_ip with_ep with_sp with_stack]. lia. }
      split; [eapply vrep3_ext; [exact R56|exact V5]|]. split; [eapply genv_rel3_ext; [exact R56|reflexivity|exact G5]|].
      split; [cbn [sp m6 with_bp with_ip with_ep with_sp with_stack]; lia|].
      split; [reflexivity|]. split; [reflexivity|]. split; [reflexivity|].
      cbn [out_log m6 with_bp with_ip with_ep with_sp with_stack]. apply Fr5.
    - destruct Hfr4 as (W1 & W2 & W3 & W4 & _). destruct Hfr' as (W1' & W2' & W3' & W4' & _).
      rewrite W1 in W1'. rewrite W2 in W2'. rewrite W3 in W3'. rewrite W4 in W4'.
      injection W1' as <-. injection W2' as <-. injection W4' as <-. cbn [fst snd] in W3'.
      assert (i' = (a0, 0 + 2 + 3 + 1)) as -> by (destruct i'; cbn [fst snd] in W3'; congruence).
      exists n, m6. split; [exact St6|]. split; [rewrite <- Hsp4; exact HW6|]. split; [apply X46|]. split; [exact MI6|]. split; [exact V6|].
      split; [exact G6|]. split; [rewrite Q1, Hbp4; lia|]. split; [exact Q2|]. split; [exact Q3|].
      split; [exact Q4|exact Q5]. }
  destruct Hret as (n & m6 & St6 & HW6 & X46 & MI6 & V6 & G6 & Hsp6 & Hep6 & Hip6 & Hbp6 & Hlog6).
  (* HALT *)
  assert (Hc0_6 : code_in m6 a0 bc0).
  { eapply code_in_ext; [|exact X46]. eapply code_in_ext; [exact Hc0C|exact XC4]. }
  pose proof (step_halt ob m6 a0 (0 + 2 + 3 + 1) bc0 Hc0_6 Hip6
                (Sg0 [VOp OPushImmediate; VArgc 0; VOp OMovImmediate; VPtr a; VAcc; VOp OCallAcc] [VOp OHalt] [] eq_refl)) as St7.
  set (m7 := with_ip m6 (a0, 0 + 2 + 3 + 1 + 1)) in *.
  exists (1 + 1 + 1 + 1 + n + 1)%nat, m7. split.
  { intros fuel Hfuel. unfold eval. rewrite Hprep. unfold run_count.
    replace fuel with ((1 + 1 + 1 + 1 + n) + S (fuel - (1 + 1 + 1 + 1 + n + 1)))%nat by lia.
    rewrite (run_loop_steps ob (1 + 1 + 1 + 1 + n) m0 m6).
    - rewrite run_loop_S, St7. reflexivity.
    - eapply steps_trans; [|exact St6].
      eapply steps_trans; [|apply steps_one; exact St4].
      eapply steps_trans; [|apply steps_one; exact St3].
      eapply steps_trans; [apply steps_one; exact St1|apply steps_one; exact St2]. }
  split.
  { exists m0, (1 + 1 + 1 + 1 + n)%nat, m6. split; [exact Hprep|]. split; [exact Rsp|].
    split.
    { eapply steps_trans; [|exact St6].
      eapply steps_trans; [|apply steps_one; exact St4].
      eapply steps_trans; [|apply steps_one; exact St3].
      eapply steps_trans; [apply steps_one; exact St1|apply steps_one; exact St2]. }
    split; [exact St7|]. split; [lia|].
    apply (hwb_cons _ _ _ m0 m1 St1); [cbn [sp m0 with_ip]; unfold hi; lia|].
    apply (hwb_cons _ _ _ m1 m2 St2); [cbn [sp m1 m0 pushed with_scap with_stack with_ip]; unfold hi; lia|].
    apply (hwb_cons _ _ _ m2 m3 St3); [cbn [sp m2 m1 m0 pushed with_scap with_stack with_ip with_acc]; unfold hi; lia|].
    apply (hwb_cons _ _ _ m3 m4 St4); [rewrite Hsp3; unfold hi; lia|]. exact HW6. }
  assert (R67 : rext m6 m7) by (apply rext_same; try reflexivity; lia).
  pose proof (rx_cext _ _ R67) as X67.
  split; [eapply vrep3_ext; [exact R67|exact V6]|].
  split; [eapply genv_rel3_ext; [exact R67|reflexivity|exact G6]|].
  split.
  { destruct MI6 as [HI GI SP]. constructor; [exact HI|exact GI|exact SP]. }
  split; [eapply cext_trans; [exact XsC|]; eapply cext_trans; [exact XC4|]; eapply cext_trans; [exact X46|exact X67]|].
  split; [exact Hsp6|]. split; [exact Hbp6|]. split; [exact Hep6|].
  change (out_log m7) with (out_log m6). rewrite Hlog6.
  cbn [out_log m4 m3 m2 m1 m0 pushed with_bp with_scap with_stack with_ip with_acc]. exact Rlog.
Qed.
End Eval3b.

End Run3b.
