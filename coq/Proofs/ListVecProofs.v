(* ListVecProofs.v — lemmas behind Props/C14.v: the list and vector builtins of
   Model/ListVec.v refine the abstract store of Model/ListVecSpec.v.               *)
From Coq Require Import Lia FMapPositive.
From MW Require Import Model.Base Model.F64 Model.Num Model.Datum Model.TransformDef
  Model.VmTypes Model.Heap Model.VmBase Model.ListVec Model.ListVecSpec.
Open Scope N_scope.

(* ===================================================================== monad *)
Lemma bind_ok {A B} (m : M A) (f : A -> M B) s a s' :
  m s = ROk a s' -> bindM m f s = f a s'.
Proof. unfold bindM; intros ->; reflexivity. Qed.

Lemma bind_err {A B} (m : M A) (f : A -> M B) s e msg s' :
  m s = RErr e msg s' -> bindM m f s = RErr e msg s'.
Proof. unfold bindM; intros ->; reflexivity. Qed.

(* the outcome "an error was reported" (possibly after an unbounded rendering of the
   payload: NoFuel stands for a hang there, which is C06's subject) *)
Definition reports_error {A} (r : res A) : Prop :=
  match r with RErr _ _ _ | RNoFuel => True | _ => False end.
Definition is_ok {A} (r : res A) : Prop := match r with ROk _ _ => True | _ => False end.

(* ===================================================================== stack *)
Lemma pop_raw_top s v r :
  stack_top (stack s) (scap s) (sp s) (v :: r) -> pop_raw s = ROk v (with_sp s (sp s - 1)).
Proof.
  cbn [stack_top]; intros (Hne & Hlt & Hget & _). unfold pop_raw, sget.
  rewrite (proj2 (N.eqb_neq _ _) Hne), (proj2 (N.ltb_lt _ _) Hlt), Hget. reflexivity.
Qed.

Lemma stack_top_tail stk cap p v r : stack_top stk cap p (v :: r) -> stack_top stk cap (p - 1) r.
Proof. cbn [stack_top]; tauto. Qed.

Lemma pop_argc_top s n r min max :
  stack_top (stack s) (scap s) (sp s) (VArgc n :: r) ->
  pop_argc min max s =
    if (n <? min) || (match max with Some m => m <? n | None => false end)
    then RErr E_OTHER [] (with_sp s (sp s - 1)) else ROk n (with_sp s (sp s - 1)).
Proof.
  intros H. unfold pop_argc. rewrite (bind_ok _ _ _ _ _ (pop_raw_top _ _ _ H)).
  destruct ((n <? min) || _); reflexivity.
Qed.

Lemma hderef_eq v s : hderef v s = lift (heap_deref (hp s) v) s.
Proof. reflexivity. Qed.

(* ====================================================================== heap *)
Lemma heap_get_lt h p c : heap_get h p = Ok c -> p < hlen h.
Proof. unfold heap_get. destruct (p <? hlen h) eqn:E; [intros _; now apply N.ltb_lt | discriminate]. Qed.

Lemma tget_tset_same {A} (t : tbl A) i a : tget (tset t i a) i = Some a.
Proof. unfold tget, tset. apply PositiveMap.gss. Qed.

Lemma tget_tset_other {A} (t : tbl A) i j a : i <> j -> tget (tset t i a) j = tget t j.
Proof.
  intros H. unfold tget, tset. apply PositiveMap.gso.
  intros E. apply H. apply (f_equal Pos.pred_N) in E. now rewrite !N.pos_pred_succ in E.
Qed.

(* ================================================================= allocator *)
Lemma range_asc_in a n x : In x (range_asc a n) <-> a <= x /\ x < a + N.of_nat n.
Proof.
  revert a; induction n as [|n IH]; intros a; cbn [range_asc In].
  - split; [tauto | lia].
  - rewrite IH. lia.
Qed.

Lemma range_asc_nodup a n : NoDup (range_asc a n).
Proof.
  revert a; induction n as [|n IH]; intros a; cbn [range_asc]; constructor.
  - rewrite range_asc_in. lia.
  - apply IH.
Qed.

Lemma live_lt h p : live h p -> p < hlen h.
Proof. now intros [H _]. Qed.

Lemma heap_get_live h p : live h p -> exists c, heap_get h p = Ok c.
Proof.
  intros [H _]. unfold heap_get. apply N.ltb_lt in H. rewrite H. eauto.
Qed.

Lemma heap_alloc_spec h p h' :
  heap_ok h -> heap_alloc h = (p, h') ->
  heap_ok h' /\ ~ live h p /\ (forall q, live h' q <-> q = p \/ live h q) /\
  cells h' = cells h /\ hlen h <= hlen h' /\ symtab h' = symtab h /\ chunk h' = chunk h.
Proof.
  intros (Hc & Hlen & Hnd & Hin & Hblank) Halloc.
  unfold heap_alloc in Halloc.
  destruct (free_list h) as [|q0 fl] eqn:Efl.
  - (* grow *)
    set (cur := hlen h) in *.
    set (new := (cur / chunk h * 3 + 1) / 2 * chunk h) in *.
    assert (Hnew : cur < new).
    { subst new cur.
      pose proof (N.div_mod (hlen h) (chunk h) ltac:(lia)) as Hdm.
      pose proof (N.mod_lt (hlen h) (chunk h) ltac:(lia)) as Hml.
      assert (1 <= hlen h / chunk h) by (apply N.div_le_lower_bound; lia).
      set (k := hlen h / chunk h) in *.
      assert (k + 1 <= (k * 3 + 1) / 2) by (apply N.div_le_lower_bound; lia).
      nia. }
    cbn [heap_grow free_list cells hlen gcmap symtab chunk] in Halloc.
    rewrite Efl, app_nil_r in Halloc. fold cur new in Halloc.
    destruct (rev (range_asc cur (N.to_nat (new - cur)))) as [|p0 rest] eqn:Erev.
    { exfalso. apply (f_equal (@length N)) in Erev. rewrite rev_length in Erev.
      assert (Hin0 : In cur (range_asc cur (N.to_nat (new - cur)))) by (apply range_asc_in; lia).
      destruct (range_asc cur (N.to_nat (new - cur))); [contradiction | discriminate]. }
    injection Halloc as <- <-.
    assert (Hrange : forall x, In x (p0 :: rest) <-> cur <= x /\ x < new).
    { intros x. rewrite <- Erev, <- in_rev, range_asc_in. lia. }
    assert (Hnd' : NoDup (p0 :: rest)).
    { rewrite <- Erev. apply NoDup_rev, range_asc_nodup. }
    assert (Hp0 : cur <= p0 /\ p0 < new) by (apply Hrange; now left).
    inversion Hnd' as [|? ? Hnotin Hnd'']; subst.
    assert (Hlive : forall q, live h q <-> q < cur).
    { intros q. unfold live. rewrite Efl. cbn [In]. subst cur. tauto. }
    refine (conj _ (conj _ (conj _ (conj _ (conj _ (conj _ _)))))); cbn [chunk hlen free_list cells symtab];
      try reflexivity; try lia.
    + unfold heap_ok; refine (conj _ (conj _ (conj _ (conj _ _)))); cbn [chunk hlen free_list cells symtab];
        try assumption; try lia.
      * intros q Hq. apply Hrange. now right.
      * intros q Hq. unfold blank. cbn [cells].
        apply Hblank. rewrite Hlive. intros Hlt. apply Hq. unfold live. cbn [hlen free_list].
        split; [lia|]. intros Hr. assert (cur <= q /\ q < new) by (apply Hrange; now right). lia.
    + intros Hl. apply Hlive in Hl. lia.
    + intros q. unfold live at 1; cbn [hlen free_list]. split.
      * intros [Hlt Hni].
        destruct (N.lt_ge_cases q cur) as [Hc1|Hc1]; [right; now apply Hlive|].
        left. assert (Hq : In q (p0 :: rest)) by (apply Hrange; lia).
        destruct Hq as [<-|Hq]; [reflexivity | contradiction].
      * intros [->|Hl]; split; try lia; try assumption.
        -- apply Hlive in Hl. lia.
        -- intros Hr. apply Hlive in Hl. assert (cur <= q /\ q < new) by (apply Hrange; now right). lia.
  - rewrite Efl in Halloc. injection Halloc as <- <-.
    inversion Hnd as [|? ? Hnotin Hnd']; subst.
    assert (Hq0 : q0 < hlen h) by (apply Hin; now left).
    refine (conj _ (conj _ (conj _ (conj _ (conj _ (conj _ _)))))); cbn [chunk hlen free_list cells symtab];
      try reflexivity; try lia.
    + unfold heap_ok; refine (conj _ (conj _ (conj _ (conj _ _)))); cbn [chunk hlen free_list cells symtab];
        try assumption; try lia.
      * intros q Hq. apply Hin. now right.
      * intros q Hq. unfold blank; cbn [cells]. apply Hblank. intros [Hlt Hni]. apply Hq.
        split; cbn [hlen free_list]; [assumption|]. intros Hr. apply Hni. rewrite Efl. now right.
    + intros [_ Hni]. apply Hni. rewrite Efl. now left.
    + intros q. unfold live; cbn [hlen free_list]. rewrite Efl. cbn [In]. split.
      * intros [Hlt Hni].
        destruct (N.eq_dec q q0) as [->|Hne]; [now left|right]. split; [assumption|].
        intros [E|E]; [congruence|contradiction].
      * intros [->|[Hlt Hni]]; split; try assumption. tauto.
Qed.

(* a cell that holds something is live (free cells are blank) *)
Lemma nonblank_live h q c :
  heap_ok h -> heap_get h q = Ok c -> c <> VUndef -> live h q.
Proof.
  intros (_ & _ & _ & _ & Hblank) Hget Hc.
  pose proof (heap_get_lt _ _ _ Hget) as Hlt.
  destruct (in_dec N.eq_dec q (free_list h)) as [Hin|Hni]; [|now split].
  exfalso. assert (Hb : blank h q) by (apply Hblank; intros [_ Hn]; contradiction).
  unfold heap_get in Hget. apply N.ltb_lt in Hlt. rewrite Hlt in Hget.
  unfold blank in Hb. destruct (tget (cells h) q) as [x|]; [destruct x; try contradiction|];
    injection Hget as <-; now apply Hc.
Qed.

(* [h'] is [h] with the fresh cell [p] holding [v] *)
Definition fresh_cell (h : heap) (v : vcell) (p : N) (h' : heap) : Prop :=
  heap_ok h' /\ ~ live h p /\ (forall q, live h' q <-> q = p \/ live h q) /\
  hlen h <= hlen h' /\ heap_get h' p = Ok v /\
  (forall q, q <> p -> tget (cells h') q = tget (cells h) q) /\ symtab h' = symtab h.

Lemma heap_store_new_spec h v p h' :
  heap_ok h -> heap_store_new h v = (p, h') -> fresh_cell h v p h'.
Proof.
  intros Hok. unfold heap_store_new. destruct (heap_alloc h) as [p0 h1] eqn:E.
  intros Heq; injection Heq as <- <-.
  destruct (heap_alloc_spec _ _ _ Hok E) as (Hok1 & Hnl & Hlive & Hcells & Hlen & Hsym & Hch).
  destruct Hok1 as (H1 & H2 & H3 & H4 & H5).
  assert (Hp : live h1 p0) by (apply Hlive; now left).
  refine (conj _ (conj Hnl (conj _ (conj _ (conj _ (conj _ _)))))); cbn [hlen symtab cells].
  - unfold heap_ok; refine (conj _ (conj _ (conj _ (conj _ _)))); cbn [chunk hlen free_list cells]; try assumption.
    intros q Hq. unfold blank; cbn [cells].
    assert (Hne : p0 <> q) by (intros ->; apply Hq; exact Hp).
    rewrite (tget_tset_other _ _ _ _ Hne). apply H5. exact Hq.
  - intros q. exact (Hlive q).
  - exact Hlen.
  - unfold heap_get; cbn [hlen cells]. destruct Hp as [Hlt _]. apply N.ltb_lt in Hlt. rewrite Hlt.
    now rewrite tget_tset_same.
  - intros q Hne. rewrite tget_tset_other by congruence. now rewrite Hcells.
  - exact Hsym.
Qed.

Definition plain_cell (v : vcell) : Prop :=
  match v with VPtr _ | VSym _ => False | _ => True end.

Lemma heap_put_fresh h v :
  heap_ok h -> plain_cell v ->
  exists p h', heap_put h v = (VPtr p, h') /\ fresh_cell h v p h'.
Proof.
  intros Hok Hv.
  destruct (heap_store_new h v) as [p h'] eqn:E.
  exists p, h'. split; [|now apply heap_store_new_spec].
  destruct v; try contradiction; cbn [heap_put]; now rewrite E.
Qed.

Lemma fresh_get_old h v p h' q :
  fresh_cell h v p h' -> live h q -> heap_get h' q = heap_get h q.
Proof.
  intros (_ & Hnl & _ & Hlen & _ & Hcells & _) Hq.
  assert (Hne : q <> p) by (intros ->; contradiction).
  pose proof (live_lt _ _ Hq) as Hlt.
  unfold heap_get. rewrite (Hcells _ Hne).
  assert (E1 : (q <? hlen h) = true) by (apply N.ltb_lt; lia).
  assert (E2 : (q <? hlen h') = true) by (apply N.ltb_lt; lia).
  now rewrite E1, E2.
Qed.

(* ================================================= preservation of old objects *)
(* [pres s s']: every object of [s] exists unchanged in [s'] (which may have more) *)
Definition pres (s s' : vm) : Prop :=
  (forall q, live (hp s) q -> live (hp s') q) /\
  (forall q, live (hp s) q -> heap_get (hp s') q = heap_get (hp s) q) /\
  (forall vid l, tget (vecs (st s)) vid = Some l -> tget (vecs (st s')) vid = Some l) /\
  (forall sid t, tget (strs (st s)) sid = Some t -> tget (strs (st s')) sid = Some t).

Lemma pres_refl s : pres s s.
Proof. unfold pres; auto. Qed.

Lemma pres_trans s1 s2 s3 : pres s1 s2 -> pres s2 s3 -> pres s1 s3.
Proof.
  intros (A1 & A2 & A3 & A4) (B1 & B2 & B3 & B4). unfold pres. repeat apply conj; auto.
  intros q Hq. rewrite B2 by auto. auto.
Qed.

Lemma pres_target_ok s s' p : pres s s' -> target_ok s p -> target_ok s' p.
Proof.
  intros (A1 & A2 & _) (Hl & c & Hc & Hd). split; [auto|]. exists c. rewrite A2 by assumption. auto.
Qed.

Lemma pres_val_ok s s' v : pres s s' -> val_ok s v -> val_ok s' v.
Proof. intros P. destruct v; cbn [val_ok]; auto. apply pres_target_ok; assumption. Qed.

Lemma pres_absv s s' v : pres s s' -> val_ok s v -> absv s' v = absv s v.
Proof.
  intros (A1 & A2 & _). destruct v; cbn [val_ok absv]; try reflexivity; try contradiction.
  intros (Hl & _). now rewrite A2.
Qed.

Lemma pres_a_pair s s' q :
  values_are_refs s -> pres s s' -> live (hp s) q -> a_pair (abs s') q = a_pair (abs s) q.
Proof.
  intros (_ & Hpairs & _) P Hq. pose proof P as (A1 & A2 & _).
  cbn [abs a_pair]. rewrite A2 by assumption.
  destruct (heap_get (hp s) q) as [c| | |] eqn:E; try reflexivity.
  destruct c; try reflexivity.
  destruct (Hpairs _ _ _ E) as (Ha & Hd).
  rewrite (pres_absv s s' (VPtr car)), (pres_absv s s' (VPtr cdr)); auto.
Qed.

Lemma pres_a_vec s s' vid l :
  values_are_refs s -> pres s s' -> tget (vecs (st s)) vid = Some l ->
  a_vec (abs s') vid = a_vec (abs s) vid.
Proof.
  intros (_ & _ & Hvecs & _) P Hv. pose proof P as (_ & _ & A3 & _).
  cbn [abs a_vec]. rewrite (A3 _ _ Hv), Hv. f_equal.
  apply map_ext_in. intros v Hin. apply pres_absv; [assumption|].
  specialize (Hvecs _ _ Hv). rewrite Forall_forall in Hvecs. auto.
Qed.

(* adding a fresh cell preserves every old object *)
Lemma fresh_pres s v p h' :
  fresh_cell (hp s) v p h' -> pres s (with_heap s h').
Proof.
  intros F. pose proof F as (_ & _ & Hlive & _).
  unfold pres; repeat apply conj; cbn [with_heap hp st]; auto.
  - intros q Hq. apply Hlive. now right.
  - intros q Hq. eapply fresh_get_old; eauto.
Qed.

(* what may be stored in a fresh cell *)
Definition new_cell_ok (s : vm) (v : vcell) : Prop :=
  match v with
  | VBool _ | VChar _ | VNil | VNum _ | VVoid | VUndef => True
  | VPair a d => target_ok s a /\ target_ok s d
  | VVec vid => tget (vecs (st s)) vid <> None
  | _ => False
  end.

Lemma new_cell_plain s v : new_cell_ok s v -> plain_cell v /\ data_cell v.
Proof. destruct v; cbn; tauto. Qed.

Lemma fresh_wf s v p h' :
  values_are_refs s -> new_cell_ok s v -> fresh_cell (hp s) v p h' ->
  values_are_refs (with_heap s h') /\ target_ok (with_heap s h') p.
Proof.
  intros W Hv F.
  pose proof (fresh_pres _ _ _ _ F) as P.
  pose proof W as (Hok & Hpairs & Hvecs & Hvc & Hid).
  pose proof F as (Hok' & Hnl & Hlive & Hlen & Hgetp & Hcells & Hsym).
  assert (Hold : forall q c, q <> p -> c <> VUndef -> heap_get h' q = Ok c -> heap_get (hp s) q = Ok c /\ live (hp s) q).
  { intros q c Hne Hc Hg.
    assert (Hl : live h' q) by (eapply nonblank_live; eauto).
    apply Hlive in Hl. destruct Hl as [->|Hl]; [congruence|].
    split; [|assumption]. rewrite <- Hg. symmetry. eapply fresh_get_old; eauto. }
  split.
  - unfold values_are_refs; refine (conj _ (conj _ (conj _ (conj _ _)))); cbn [with_heap hp st].
    + exact Hok'.
    + intros q a d Hg. destruct (N.eq_dec q p) as [->|Hne].
      * rewrite Hgetp in Hg. injection Hg as ->. cbn in Hv. destruct Hv.
        split; eapply pres_target_ok; eauto.
      * destruct (Hold q (VPair a d) Hne ltac:(discriminate) Hg) as (Hg0 & _).
        destruct (Hpairs _ _ _ Hg0). split; eapply pres_target_ok; eauto.
    + intros vid l Hl. specialize (Hvecs _ _ Hl). eapply Forall_impl; [|exact Hvecs].
      intros x. apply pres_val_ok. exact P.
    + intros q vid Hg. destruct (N.eq_dec q p) as [->|Hne].
      * rewrite Hgetp in Hg. injection Hg as ->. exact Hv.
      * destruct (Hold q (VVec vid) Hne ltac:(discriminate) Hg) as (Hg0 & _). eauto.
    + exact Hid.
  - split; [apply Hlive; now left|]. exists v. split; [exact Hgetp|]. now apply new_cell_plain in Hv.
Qed.

Lemma hput_new s v :
  values_are_refs s -> new_cell_ok s v ->
  exists p h', hput v s = ROk (VPtr p) (with_heap s h') /\ fresh_cell (hp s) v p h'.
Proof.
  intros W Hv. destruct W as (Hok & _).
  destruct (heap_put_fresh (hp s) v Hok (proj1 (new_cell_plain _ _ Hv))) as (p & h' & E & F).
  exists p, h'. split; [|exact F]. unfold hput. now rewrite E.
Qed.

Lemma with_heap_same s : with_heap s (hp s) = s.
Proof. destruct s; reflexivity. Qed.

Lemma hput_ptr s q : hput (VPtr q) s = ROk (VPtr q) s.
Proof. unfold hput; cbn [heap_put]. now rewrite with_heap_same. Qed.

(* heap.put of a value: a pointer is returned as it is, an immediate gets a fresh cell;
   either way the result is a pointer that denotes the same value *)
Lemma hput_val s v :
  values_are_refs s -> val_ok s v ->
  exists p s', hput v s = ROk (VPtr p) s' /\ pres s s' /\ values_are_refs s' /\
    target_ok s' p /\ absv s' (VPtr p) = absv s v /\
    stack s' = stack s /\ sp s' = sp s /\ scap s' = scap s /\ st s' = st s.
Proof.
  intros W Hv.
  destruct v; cbn [val_ok] in Hv; try contradiction;
  try (match goal with |- context [hput (VPtr ?q)] =>
         exists q, s;
         exact (conj (hput_ptr s q) (conj (pres_refl s) (conj W (conj Hv (conj eq_refl (conj eq_refl (conj eq_refl (conj eq_refl eq_refl))))))))
       end).
  all: match goal with |- context [hput ?v] =>
    assert (Hn : new_cell_ok s v) by exact I;
    destruct (hput_new s v W Hn) as (p & h' & E & F);
    destruct (fresh_wf s v p h' W Hn F) as (W' & T');
    pose proof (fresh_pres _ _ _ _ F) as P;
    exists p, (with_heap s h');
    refine (conj E (conj P (conj W' (conj T' (conj _ (conj eq_refl (conj eq_refl (conj eq_refl eq_refl))))))));
    destruct F as (_ & _ & _ & _ & Hg & _); unfold absv; cbn [with_heap hp]; rewrite Hg; reflexivity
  end.
Qed.

(* ======================================================= rendering of payloads *)
(* The Rust error constructors render their payload with heap.get_as_cell.  The text is
   never compared; the conversion can only run out of fuel (circular data: C06's hang)
   or hit the panics of get_as_cell itself on an ill-formed machine (sites 10 13 14:
   C06's display_err_total).  [render_fail] = "no answer was returned, and nothing but
   the payload rendering went wrong". *)
Definition render_fail {A} (r : res A) : Prop :=
  match r with
  | RErr _ _ _ | RNoFuel => True
  | RPanic k => k = 10 \/ k = 13 \/ k = 14
  | ROk _ _ => False
  end.

Lemma heap_get_panic h p k : heap_get h p = Panic k -> k = 10.
Proof. unfold heap_get. destruct (p <? hlen h); [discriminate | now intros [= <-]]. Qed.

Lemma get_as_cell_sites bn h x f :
  forall v k, get_as_cell bn h x f v = Panic k -> k = 10 \/ k = 13 \/ k = 14.
Proof.
  induction f as [|f IH]; intros v k; cbn [get_as_cell]; [discriminate|].
  destruct v; try discriminate; try (intros [= <-]; now auto).
  - (* pair *)
    unfold bind.
    destruct (get_as_cell bn h x f (VPtr car)) eqn:E1; try discriminate;
      [|intros [= <-]; eapply IH; eauto].
    destruct (heap_get h cdr) as [dv| |k2|] eqn:E2; try discriminate;
      [|intros [= <-]; left; eapply heap_get_panic; eauto].
    destruct dv; try discriminate;
      match goal with |- context [get_as_cell bn h x f ?w] =>
        destruct (get_as_cell bn h x f w) eqn:E3; try discriminate; intros [= <-]; eapply IH; eauto end.
  - (* string *) destruct (tget (strs x) sid); [discriminate | intros [= <-]; auto].
  - (* vector *)
    destruct (tget (vecs x) vid) as [l|]; [|intros [= <-]; now auto].
    unfold bind.
    match goal with |- context [?F l] => set (elems := F) end.
    assert (Hel : forall l k, elems l = Panic k -> k = 10 \/ k = 13 \/ k = 14).
    { induction l0 as [|y r IHr]; intros k0; cbn; [discriminate|].
      destruct (get_as_cell bn h x f y) eqn:E1; try discriminate; [|intros [= <-]; eapply IH; eauto].
      destruct (elems r) eqn:E2; try discriminate. intros [= <-]. eapply IHr; eauto. }
    destruct (elems l) eqn:E; try discriminate. intros [= <-]. eapply Hel; eauto.
  - (* closure *)
    unfold bind. destruct (heap_get h lam) as [lv| |k2|] eqn:E2; try discriminate;
      [|intros [= <-]; left; eapply heap_get_panic; eauto].
    destruct lv; try discriminate.
    destruct (tget (lams x) lid); [discriminate | intros [= <-]; auto].
  - (* lambda *) destruct (tget (lams x) lid); [discriminate | intros [= <-]; auto].
  - (* pointer *)
    unfold bind. destruct (heap_get h p) as [c| |k2|] eqn:E2; try discriminate;
      [|intros [= <-]; left; eapply heap_get_panic; eauto].
    apply IH.
Qed.

Lemma fail_cell_render_fail {A} fuel v s : render_fail (@fail_cell fuel A v s).
Proof.
  unfold fail_cell, bindM, as_cell, lift.
  destruct (get_as_cell builtin_name_default (hp s) (st s) fuel v) eqn:E; cbn; auto.
  eapply get_as_cell_sites; eauto.
Qed.

(* ============================================================== the builtins *)
Lemma absv_hp s s' v : hp s' = hp s -> absv s' v = absv s v.
Proof. intros E. destruct v; cbn [absv]; try reflexivity. now rewrite E. Qed.

Lemma abs_pair_hp s s' p : hp s' = hp s -> a_pair (abs s') p = a_pair (abs s) p.
Proof.
  intros E. cbn [abs a_pair]. rewrite E. destruct (heap_get (hp s) p) as [c| | |]; try reflexivity.
  destruct c; try reflexivity. now rewrite !(absv_hp s s' _ E).
Qed.

(* popping argc *)
Ltac pop_argc_tac H s n lo hi :=
  let Hp := fresh "Hp" in
  assert (Hp : pop_argc lo hi s = ROk n (with_sp s (sp s - 1)))
    by (rewrite (pop_argc_top _ _ _ _ _ H); reflexivity);
  rewrite (bind_ok _ _ _ _ _ Hp); clear Hp.

(* popping one raw value: H is the stack_top fact for the current state *)
Ltac pop_raw_tac H :=
  rewrite (bind_ok _ _ _ _ _ (pop_raw_top _ _ _ H)).

Lemma pop_value_top s v r :
  stack_top (stack s) (scap s) (sp s) (v :: r) ->
  pop_value s = lift (heap_deref (hp s) v) (with_sp s (sp s - 1)).
Proof.
  intros H. unfold pop_value, pop_deref. rewrite (bind_ok _ _ _ _ _ (pop_raw_top _ _ _ H)). reflexivity.
Qed.

(* what a value dereferences to, in terms of its denotation *)
Lemma deref_pair s v p :
  absv s v = ALoc (LPair p) ->
  v = VPtr p /\ exists a d, heap_get (hp s) p = Ok (VPair a d).
Proof.
  destruct v; cbn [absv]; try discriminate.
  destruct (heap_get (hp s) p0) as [c| | |] eqn:E; try discriminate.
  destruct c; cbn [cell_val]; try discriminate. intros [= ->]. eauto.
Qed.

Lemma deref_not_pair s v :
  val_ok s v -> (forall p, absv s v <> ALoc (LPair p)) ->
  exists c, heap_deref (hp s) v = Ok c /\ is_pair c = false.
Proof.
  intros Hv Hn. destruct v; cbn [val_ok] in Hv; try contradiction;
    try (eexists; split; [reflexivity | reflexivity]).
  destruct Hv as (_ & c & Hc & Hd). exists c. split; [exact Hc|].
  destruct c; try reflexivity. exfalso. apply (Hn p). cbn [absv]. now rewrite Hc.
Qed.

Theorem car_refines fuel s v :
  called_with s [v] ->
  match absv s v with
  | ALoc (LPair p) =>
      exists x d r s', a_pair (abs s) p = Some (x, d) /\ car fuel s = ROk r s' /\
                       absv s' r = x /\ hp s' = hp s /\ st s' = st s
  | _ => val_ok s v -> render_fail (car fuel s)
  end.
Proof.
  intros H. unfold called_with in H. cbn [len length rev app N.of_nat Pos.of_succ_nat] in H.
  assert (Hcar : car fuel s =
     bindM (fun s0 => lift (heap_deref (hp s0) v) s0)
       (fun v0 => match v0 with VPair a _ => ret (VPtr a) | arg => fail_cell fuel arg end)
       (with_sp s (sp s - 1 - 1))).
  { unfold car. pop_argc_tac H s 1 1 (Some 1).
    pose proof (stack_top_tail _ _ _ _ _ H) as H1.
    unfold bindM at 1. rewrite (pop_value_top (with_sp s (sp s - 1)) v [] H1). reflexivity. }
  destruct (absv s v) as [w|l|] eqn:Ea.
  2: destruct l as [p| | |].
  2: { destruct (deref_pair _ _ _ Ea) as (-> & a & d & Hg).
       exists (absv s (VPtr a)), (absv s (VPtr d)), (VPtr a), (with_sp s (sp s - 1 - 1)).
       repeat apply conj; try reflexivity.
       - cbn [abs a_pair]. now rewrite Hg.
       - rewrite Hcar. unfold bindM, lift. cbn [heap_deref with_sp with_stack hp]. rewrite Hg. reflexivity. }
  all: intros Hv;
    destruct (deref_not_pair s v Hv) as (c & Hc & Hp); [intros q0; rewrite Ea; discriminate|];
    rewrite Hcar; unfold bindM, lift; cbn [with_sp with_stack hp]; rewrite Hc;
    destruct c; try discriminate Hp; apply fail_cell_render_fail.
Qed.

Theorem cdr_refines fuel s v :
  called_with s [v] ->
  match absv s v with
  | ALoc (LPair p) =>
      exists x d r s', a_pair (abs s) p = Some (x, d) /\ cdr fuel s = ROk r s' /\
                       absv s' r = d /\ hp s' = hp s /\ st s' = st s
  | _ => val_ok s v -> render_fail (cdr fuel s)
  end.
Proof.
  intros H. unfold called_with in H. cbn [len length rev app N.of_nat Pos.of_succ_nat] in H.
  assert (Hcdr : cdr fuel s =
     bindM (fun s0 => lift (heap_deref (hp s0) v) s0)
       (fun v0 => match v0 with VPair _ d => ret (VPtr d) | arg => fail_cell fuel arg end)
       (with_sp s (sp s - 1 - 1))).
  { unfold cdr. pop_argc_tac H s 1 1 (Some 1).
    pose proof (stack_top_tail _ _ _ _ _ H) as H1.
    unfold bindM at 1. rewrite (pop_value_top (with_sp s (sp s - 1)) v [] H1). reflexivity. }
  destruct (absv s v) as [w|l|] eqn:Ea.
  2: destruct l as [p| | |].
  2: { destruct (deref_pair _ _ _ Ea) as (-> & a & d & Hg).
       exists (absv s (VPtr a)), (absv s (VPtr d)), (VPtr d), (with_sp s (sp s - 1 - 1)).
       repeat apply conj; try reflexivity.
       - cbn [abs a_pair]. now rewrite Hg.
       - rewrite Hcdr. unfold bindM, lift. cbn [heap_deref with_sp with_stack hp]. rewrite Hg. reflexivity. }
  all: intros Hv;
    destruct (deref_not_pair s v Hv) as (c & Hc & Hp); [intros q0; rewrite Ea; discriminate|];
    rewrite Hcdr; unfold bindM, lift; cbn [with_sp with_stack hp]; rewrite Hc;
    destruct c; try discriminate Hp; apply fail_cell_render_fail.
Qed.

(* states that differ in sp only *)
Lemma wf_with_sp s n : values_are_refs s -> values_are_refs (with_sp s n).
Proof. intros W. exact W. Qed.
Lemma val_ok_with_sp s n v : val_ok s v -> val_ok (with_sp s n) v.
Proof. intros W. exact W. Qed.
Lemma pres_with_sp s n : pres s (with_sp s n).
Proof. exact (pres_refl s). Qed.

Theorem cons_refines s a b :
  values_are_refs s -> val_ok s a -> val_ok s b -> called_with s [a; b] ->
  exists p s', call_builtin cons_ s = ROk (VPtr p) s' /\
    ~ live (hp s) p /\
    a_pair (abs s') p = Some (absv s a, absv s b) /\
    pres s s' /\ values_are_refs s' /\ target_ok s' p /\ st s' = st s.
Proof.
  intros W Ha Hb H. unfold called_with in H. cbn [len length rev app N.of_nat Pos.of_succ_nat] in H.
  set (s1 := with_sp s (sp s - 1)).
  set (s2 := with_sp s1 (sp s1 - 1)).
  pose proof (stack_top_tail _ _ _ _ _ H) as H1.
  pose proof (stack_top_tail _ _ _ _ _ H1) as H2.
  (* heap.put of the cdr *)
  destruct (hput_val s2 b W Hb) as (d & s3 & E3 & P3 & W3 & T3 & A3 & Hst3 & Hsp3 & Hcp3 & Hx3).
  set (s4 := with_sp s3 (sp s3 - 1)).
  assert (Ha3 : val_ok s3 a) by (eapply pres_val_ok; eauto).
  destruct (hput_val s4 a W3 Ha3) as (a' & s5 & E5 & P5 & W5 & T5 & A5 & Hst5 & Hsp5 & Hcp5 & Hx5).
  assert (Hcons : cons_ s = ROk (VPair a' d) s5).
  { unfold cons_. pop_argc_tac H s 2 2 (Some 2).
    fold s1. rewrite (bind_ok _ _ _ _ _ (pop_raw_top s1 b _ H1)). fold s2.
    rewrite (bind_ok _ _ _ _ _ E3). cbn [as_ptr]. unfold bindM at 1, ret at 1.
    assert (H2' : stack_top (stack s3) (scap s3) (sp s3) [a]) by (rewrite Hst3, Hcp3, Hsp3; exact H2).
    rewrite (bind_ok _ _ _ _ _ (pop_raw_top s3 a _ H2')). fold s4.
    rewrite (bind_ok _ _ _ _ _ E5). reflexivity. }
  assert (Hn : new_cell_ok s5 (VPair a' d)).
  { split; [exact T5|]. eapply pres_target_ok; [exact P5|]. exact T3. }
  destruct (hput_new s5 _ W5 Hn) as (p & h' & E6 & F6).
  destruct (fresh_wf s5 _ p h' W5 Hn F6) as (W6 & T6).
  pose proof (fresh_pres _ _ _ _ F6) as P6.
  assert (P : pres s (with_heap s5 h')).
  { eapply pres_trans; [exact P3|]. eapply pres_trans; [exact P5|]. exact P6. }
  exists p, (with_heap s5 h'). refine (conj _ (conj _ (conj _ (conj P (conj W6 (conj T6 _)))))).
  - unfold call_builtin. rewrite (bind_ok _ _ _ _ _ Hcons). exact E6.
  - intros Hl. destruct F6 as (_ & Hnl & _). apply Hnl. destruct P3 as (Q3 & _), P5 as (Q5 & _). auto.
  - destruct F6 as (_ & _ & _ & _ & Hg & _). cbn [abs a_pair with_heap hp]. rewrite Hg. f_equal. f_equal.
    + rewrite (pres_absv s5 (with_heap s5 h') (VPtr a') P6 T5). rewrite A5.
      apply (pres_absv s s3 a P3 Ha).
    + assert (T3' : target_ok s5 d) by (eapply pres_target_ok; eauto).
      rewrite (pres_absv s5 (with_heap s5 h') (VPtr d) P6 T3').
      rewrite (pres_absv s3 s5 (VPtr d) P5 T3). exact A3.
  - cbn [with_heap st]. rewrite Hx5. cbn [s4 with_sp with_stack st]. rewrite Hx3. reflexivity.
Qed.

(* ------------------------------------------------ overwriting the fields of a pair *)
Lemma heap_set_spec h p v h'' :
  heap_set h p v = Ok h'' ->
  p < hlen h /\ hlen h'' = hlen h /\ free_list h'' = free_list h /\ chunk h'' = chunk h /\
  heap_get h'' p = Ok v /\ (forall q, q <> p -> heap_get h'' q = heap_get h q) /\
  (forall q, q <> p -> tget (cells h'') q = tget (cells h) q).
Proof.
  unfold heap_set. destruct (p <? hlen h) eqn:E; [|discriminate]. intros [= <-].
  apply N.ltb_lt in E. cbn [hlen free_list chunk cells].
  repeat apply conj; try reflexivity; try assumption.
  - unfold heap_get; cbn [hlen cells]. apply N.ltb_lt in E. rewrite E. now rewrite tget_tset_same.
  - intros q Hne. unfold heap_get; cbn [hlen cells]. rewrite tget_tset_other by congruence. reflexivity.
  - intros q Hne. rewrite tget_tset_other by congruence. reflexivity.
Qed.

Lemma set_pair_fields t p a d a' d' h'' :
  values_are_refs t -> heap_get (hp t) p = Ok (VPair a d) ->
  target_ok t a' -> target_ok t d' ->
  heap_set (hp t) p (VPair a' d') = Ok h'' ->
  values_are_refs (with_heap t h'') /\
  (forall v, absv (with_heap t h'') v = absv t v) /\
  (forall v, val_ok t v -> val_ok (with_heap t h'') v) /\
  a_pair (abs (with_heap t h'')) p = Some (absv t (VPtr a'), absv t (VPtr d')) /\
  (forall q, q <> p -> a_pair (abs (with_heap t h'')) q = a_pair (abs t) q) /\
  (forall vid, a_vec (abs (with_heap t h'')) vid = a_vec (abs t) vid).
Proof.
  intros W Hg Ta Td Hs.
  destruct (heap_set_spec _ _ _ _ Hs) as (Hlt & Hlen & Hfl & Hch & Hgp & Hgo & Hco).
  pose proof W as (Hok & Hpairs & Hvecs & Hvc & Hid).
  set (t' := with_heap t h'').
  assert (Hlive : forall q, live h'' q <-> live (hp t) q).
  { intros q. unfold live. rewrite Hlen, Hfl. tauto. }
  assert (Hplive : live (hp t) p) by (eapply nonblank_live; eauto; discriminate).
  assert (Habsv : forall v, absv t' v = absv t v).
  { intros v. destruct v; cbn [absv t' with_heap hp]; try reflexivity.
    destruct (N.eq_dec p0 p) as [->|Hne]; [now rewrite Hgp, Hg | now rewrite Hgo]. }
  assert (Htgt : forall q, target_ok t q -> target_ok t' q).
  { intros q (Hl & c & Hc & Hd). split; [cbn [t' with_heap hp]; now apply Hlive|].
    cbn [t' with_heap hp]. destruct (N.eq_dec q p) as [->|Hne].
    - exists (VPair a' d'). split; [exact Hgp | exact I].
    - exists c. rewrite Hgo by assumption. auto. }
  assert (Hval : forall v, val_ok t v -> val_ok t' v).
  { intros v. destruct v; cbn [val_ok]; auto. }
  refine (conj _ (conj Habsv (conj Hval (conj _ (conj _ _))))).
  - unfold values_are_refs; refine (conj _ (conj _ (conj _ (conj _ _)))); cbn [t' with_heap hp st].
    + destruct Hok as (H1 & H2 & H3 & H4 & H5).
      unfold heap_ok. rewrite Hlen, Hfl, Hch. refine (conj H1 (conj H2 (conj H3 (conj H4 _)))).
      intros q Hq. unfold blank. rewrite Hco.
      * apply H5. intros Hl. apply Hq. now apply Hlive.
      * intros ->. apply Hq. now apply Hlive.
    + intros q x y Hq. destruct (N.eq_dec q p) as [->|Hne].
      * rewrite Hgp in Hq. injection Hq as <- <-. split; apply Htgt; assumption.
      * rewrite Hgo in Hq by assumption. destruct (Hpairs _ _ _ Hq). split; apply Htgt; assumption.
    + intros vid l Hl. specialize (Hvecs _ _ Hl). eapply Forall_impl; [|exact Hvecs]. exact Hval.
    + intros q vid Hq. destruct (N.eq_dec q p) as [->|Hne].
      * rewrite Hgp in Hq. discriminate.
      * rewrite Hgo in Hq by assumption. eauto.
    + exact Hid.
  - cbn [abs a_pair t' with_heap hp]. rewrite Hgp. fold t'. now rewrite !Habsv.
  - intros q Hne. cbn [abs a_pair t' with_heap hp]. rewrite Hgo by assumption. fold t'.
    destruct (heap_get (hp t) q) as [c| | |]; try reflexivity. destruct c; try reflexivity.
    now rewrite !Habsv.
  - intros vid. cbn [abs a_vec t' with_heap st]. destruct (tget (vecs (st t)) vid); [|reflexivity].
    f_equal. apply map_ext. exact Habsv.
Qed.

Lemma pres_deref s s' v : pres s s' -> val_ok s v -> heap_deref (hp s') v = heap_deref (hp s) v.
Proof.
  intros (_ & A2 & _). destruct v; cbn [val_ok heap_deref]; try reflexivity; try contradiction.
  intros (Hl & _). auto.
Qed.

Lemma heap_set_ok h p v : p < hlen h -> exists h'', heap_set h p v = Ok h''.
Proof. intros H. unfold heap_set. apply N.ltb_lt in H. rewrite H. eauto. Qed.

Theorem set_car_refines s pv o :
  values_are_refs s -> val_ok s pv -> val_ok s o -> called_with s [pv; o] ->
  match absv s pv with
  | ALoc (LPair p) =>
      exists x d s', a_pair (abs s) p = Some (x, d) /\ set_car s = ROk VVoid s' /\
        a_pair (abs s') p = Some (absv s o, d) /\
        (forall q, q <> p -> live (hp s) q -> a_pair (abs s') q = a_pair (abs s) q) /\
        (forall vid l, tget (vecs (st s)) vid = Some l -> a_vec (abs s') vid = a_vec (abs s) vid) /\
        (forall v, val_ok s v -> val_ok s' v /\ absv s' v = absv s v) /\
        values_are_refs s'
  | _ => exists s', set_car s = RErr E_OTHER [] s'
  end.
Proof.
  intros W Hpv Ho H. unfold called_with in H. cbn [len length rev app N.of_nat Pos.of_succ_nat] in H.
  set (s1 := with_sp s (sp s - 1)).
  set (s2 := with_sp s1 (sp s1 - 1)).
  pose proof (stack_top_tail _ _ _ _ _ H) as H1.
  pose proof (stack_top_tail _ _ _ _ _ H1) as H2.
  destruct (hput_val s2 o W Ho) as (op & s3 & E3 & P3 & W3 & T3 & A3 & Hst3 & Hsp3 & Hcp3 & Hx3).
  set (s4 := with_sp s3 (sp s3 - 1)).
  assert (Hrun : set_car s =
    bindM (fun s0 => lift (heap_deref (hp s0) pv) s0)
      (fun pv0 => match pv0 with
                  | VPair _ d => dom op0 <- as_ptr (VPtr op); dom pp <- as_ptr pv;
                                 dom _ <- hset pp (VPair op0 d); ret VVoid
                  | _ => fail E_OTHER end) s4).
  { unfold set_car. pop_argc_tac H s 2 2 (Some 2).
    fold s1. rewrite (bind_ok _ _ _ _ _ (pop_raw_top s1 o _ H1)). fold s2.
    rewrite (bind_ok _ _ _ _ _ E3).
    assert (H2' : stack_top (stack s3) (scap s3) (sp s3) [pv]) by (rewrite Hst3, Hcp3, Hsp3; exact H2).
    rewrite (bind_ok _ _ _ _ _ (pop_raw_top s3 pv _ H2')). fold s4. reflexivity. }
  assert (Hd : heap_deref (hp s4) pv = heap_deref (hp s) pv) by (apply (pres_deref s s3 pv P3 Hpv)).
  destruct (absv s pv) as [w|l|] eqn:Ea.
  2: destruct l as [p| | |].
  2: { destruct (deref_pair _ _ _ Ea) as (-> & a & d & Hg).
       assert (Hg3 : heap_get (hp s3) p = Ok (VPair a d)) by (rewrite <- Hg; exact Hd).
       destruct (heap_set_ok (hp s3) p (VPair op d) (heap_get_lt _ _ _ Hg3)) as (h'' & Hs).
       pose proof W3 as (_ & Hpairs3 & _). destruct (Hpairs3 _ _ _ Hg3) as (Ta3 & Td3).
       destruct (set_pair_fields s4 p a d op d h'' W3 Hg3 T3 Td3 Hs) as (W' & Habsv & Hval & Hpp & Hpo & Hvo).
       pose proof W as (_ & Hpairs & _). destruct (Hpairs _ _ _ Hg) as (Ta & Td).
       exists (absv s (VPtr a)), (absv s (VPtr d)), (with_heap s4 h'').
       refine (conj _ (conj _ (conj _ (conj _ (conj _ (conj _ W')))))).
       - cbn [abs a_pair]. now rewrite Hg.
       - rewrite Hrun. unfold bindM at 1, lift. rewrite Hd. cbn [heap_deref]. rewrite Hg.
         cbn [as_ptr]. unfold bindM, ret, hset. cbn [s4 with_sp with_stack hp] in *. rewrite Hs. reflexivity.
       - rewrite Hpp. f_equal. f_equal; [exact A3|]. apply (pres_absv s s3 (VPtr d) P3 Td).
       - intros q Hne Hq. rewrite Hpo by assumption. apply (pres_a_pair s s3 q W P3 Hq).
       - intros vid l Hl. rewrite Hvo. apply (pres_a_vec s s3 vid l W P3 Hl).
       - intros v Hv. split.
         + apply Hval. apply (pres_val_ok s s3 v P3 Hv).
         + rewrite Habsv. apply (pres_absv s s3 v P3 Hv). }
  all: destruct (deref_not_pair s pv Hpv) as (c & Hc & Hp); [intros q0; rewrite Ea; discriminate|];
    exists s4; rewrite Hrun; unfold bindM, lift; rewrite Hd, Hc;
    destruct c; try discriminate Hp; reflexivity.
Qed.

Theorem set_cdr_refines s pv o :
  values_are_refs s -> val_ok s pv -> val_ok s o -> called_with s [pv; o] ->
  match absv s pv with
  | ALoc (LPair p) =>
      exists x d s', a_pair (abs s) p = Some (x, d) /\ set_cdr s = ROk VVoid s' /\
        a_pair (abs s') p = Some (x, absv s o) /\
        (forall q, q <> p -> live (hp s) q -> a_pair (abs s') q = a_pair (abs s) q) /\
        (forall vid l, tget (vecs (st s)) vid = Some l -> a_vec (abs s') vid = a_vec (abs s) vid) /\
        (forall v, val_ok s v -> val_ok s' v /\ absv s' v = absv s v) /\
        values_are_refs s'
  | _ => exists s', set_cdr s = RErr E_OTHER [] s'
  end.
Proof.
  intros W Hpv Ho H. unfold called_with in H. cbn [len length rev app N.of_nat Pos.of_succ_nat] in H.
  set (s1 := with_sp s (sp s - 1)).
  set (s2 := with_sp s1 (sp s1 - 1)).
  pose proof (stack_top_tail _ _ _ _ _ H) as H1.
  pose proof (stack_top_tail _ _ _ _ _ H1) as H2.
  destruct (hput_val s2 o W Ho) as (op & s3 & E3 & P3 & W3 & T3 & A3 & Hst3 & Hsp3 & Hcp3 & Hx3).
  set (s4 := with_sp s3 (sp s3 - 1)).
  assert (Hrun : set_cdr s =
    bindM (fun s0 => lift (heap_deref (hp s0) pv) s0)
      (fun pv0 => match pv0 with
                  | VPair a _ => dom op0 <- as_ptr (VPtr op); dom pp <- as_ptr pv;
                                 dom _ <- hset pp (VPair a op0); ret VVoid
                  | _ => fail E_OTHER end) s4).
  { unfold set_cdr. pop_argc_tac H s 2 2 (Some 2).
    fold s1. rewrite (bind_ok _ _ _ _ _ (pop_raw_top s1 o _ H1)). fold s2.
    rewrite (bind_ok _ _ _ _ _ E3).
    assert (H2' : stack_top (stack s3) (scap s3) (sp s3) [pv]) by (rewrite Hst3, Hcp3, Hsp3; exact H2).
    rewrite (bind_ok _ _ _ _ _ (pop_raw_top s3 pv _ H2')). fold s4. reflexivity. }
  assert (Hd : heap_deref (hp s4) pv = heap_deref (hp s) pv) by (apply (pres_deref s s3 pv P3 Hpv)).
  destruct (absv s pv) as [w|l|] eqn:Ea.
  2: destruct l as [p| | |].
  2: { destruct (deref_pair _ _ _ Ea) as (-> & a & d & Hg).
       assert (Hg3 : heap_get (hp s3) p = Ok (VPair a d)) by (rewrite <- Hg; exact Hd).
       destruct (heap_set_ok (hp s3) p (VPair a op) (heap_get_lt _ _ _ Hg3)) as (h'' & Hs).
       pose proof W3 as (_ & Hpairs3 & _). destruct (Hpairs3 _ _ _ Hg3) as (Ta3 & Td3).
       destruct (set_pair_fields s4 p a d a op h'' W3 Hg3 Ta3 T3 Hs) as (W' & Habsv & Hval & Hpp & Hpo & Hvo).
       pose proof W as (_ & Hpairs & _). destruct (Hpairs _ _ _ Hg) as (Ta & Td).
       exists (absv s (VPtr a)), (absv s (VPtr d)), (with_heap s4 h'').
       refine (conj _ (conj _ (conj _ (conj _ (conj _ (conj _ W')))))).
       - cbn [abs a_pair]. now rewrite Hg.
       - rewrite Hrun. unfold bindM at 1, lift. rewrite Hd. cbn [heap_deref]. rewrite Hg.
         cbn [as_ptr]. unfold bindM, ret, hset. cbn [s4 with_sp with_stack hp] in *. rewrite Hs. reflexivity.
       - rewrite Hpp. f_equal. f_equal; [|exact A3]. apply (pres_absv s s3 (VPtr a) P3 Ta).
       - intros q Hne Hq. rewrite Hpo by assumption. apply (pres_a_pair s s3 q W P3 Hq).
       - intros vid l Hl. rewrite Hvo. apply (pres_a_vec s s3 vid l W P3 Hl).
       - intros v Hv. split.
         + apply Hval. apply (pres_val_ok s s3 v P3 Hv).
         + rewrite Habsv. apply (pres_absv s s3 v P3 Hv). }
  all: destruct (deref_not_pair s pv Hpv) as (c & Hc & Hp); [intros q0; rewrite Ea; discriminate|];
    exists s4; rewrite Hrun; unfold bindM, lift; rewrite Hd, Hc;
    destruct c; try discriminate Hp; reflexivity.
Qed.

(* ================================================================== vectors *)
Definition aindex (x : aval) : option N :=
  match x with AImm (VNum n) => num_to_usize n | _ => None end.

Lemma val_deref s v :
  val_ok s v -> exists c, heap_deref (hp s) v = Ok c /\
    absv s v = match v with VPtr p => cell_val p c | _ => AImm c end /\ data_cell c.
Proof.
  destruct v; cbn [val_ok]; try contradiction; try (intros _; eexists; repeat split; reflexivity).
  intros (_ & c & Hc & Hd). exists c. cbn [heap_deref absv]. rewrite Hc. auto.
Qed.

Lemma pop_index_spec s v r :
  val_ok s v -> stack_top (stack s) (scap s) (sp s) (v :: r) ->
  pop_index s = match aindex (absv s v) with
                | Some i => ROk i (with_sp s (sp s - 1))
                | None => RErr E_OTHER [] (with_sp s (sp s - 1))
                end.
Proof.
  intros Hv H. unfold pop_index, bindM. rewrite (pop_value_top s v r H). unfold lift.
  destruct (val_deref s v Hv) as (c & Hc & Ha & Hd). rewrite Hc, Ha.
  destruct v; cbn [val_ok] in Hv; try contradiction;
    try (cbn [heap_deref] in Hc; injection Hc as <-; cbn [aindex];
         try reflexivity; destruct (num_to_usize n); reflexivity).
  destruct c; cbn [cell_val aindex data_cell] in *; try contradiction; try reflexivity.
  destruct (num_to_usize n); reflexivity.
Qed.

Lemma pop_vector_spec s v r :
  val_ok s v -> stack_top (stack s) (scap s) (sp s) (v :: r) ->
  pop_vector s = match absv s v with
                 | ALoc (LVec vid) => ROk vid (with_sp s (sp s - 1))
                 | _ => RErr E_OTHER [] (with_sp s (sp s - 1))
                 end.
Proof.
  intros Hv H. unfold pop_vector, bindM. rewrite (pop_value_top s v r H). unfold lift.
  destruct (val_deref s v Hv) as (c & Hc & Ha & Hd). rewrite Hc, Ha.
  destruct v; cbn [val_ok] in Hv; try contradiction;
    try (cbn [heap_deref] in Hc; injection Hc as <-; reflexivity).
  destruct c; cbn [cell_val data_cell] in *; try contradiction; reflexivity.
Qed.

Lemma vec_registered s v vid :
  values_are_refs s -> absv s v = ALoc (LVec vid) ->
  exists l, tget (vecs (st s)) vid = Some l /\ a_vec (abs s) vid = Some (map (absv s) l) /\
            Forall (val_ok s) l.
Proof.
  intros (_ & _ & Hvecs & Hvc & _) Ha.
  destruct v; cbn [absv] in Ha; try discriminate.
  destruct (heap_get (hp s) p) as [c| | |] eqn:E; try discriminate.
  destruct c; cbn [cell_val] in Ha; try discriminate. injection Ha as ->.
  specialize (Hvc _ _ E). destruct (tget (vecs (st s)) vid) as [l|] eqn:El; [|contradiction].
  exists l. repeat split; [|eauto]. cbn [abs a_vec]. now rewrite El.
Qed.

Lemma vget_nth l i : vget l i = nth_error l (N.to_nat i).
Proof.
  unfold vget, len. destruct (i <? N.of_nat (length l)) eqn:E.
  - destruct l; reflexivity.
  - symmetry. apply nth_error_None. apply N.ltb_ge in E. lia.
Qed.

Lemma vec_get_ok s vid l : tget (vecs (st s)) vid = Some l -> vec_get vid s = ROk l s.
Proof. intros H. unfold vec_get. now rewrite H. Qed.

Theorem vector_length_refines s v :
  values_are_refs s -> val_ok s v -> called_with s [v] ->
  match absv s v with
  | ALoc (LVec vid) =>
      exists xs s', a_vec (abs s) vid = Some xs /\
        vector_length s = ROk (VNum (Fixnum (Z.of_nat (length xs)))) s' /\ hp s' = hp s /\ st s' = st s
  | _ => exists s', vector_length s = RErr E_OTHER [] s'
  end.
Proof.
  intros W Hv H. unfold called_with in H. cbn [len length rev app N.of_nat Pos.of_succ_nat] in H.
  set (s1 := with_sp s (sp s - 1)).
  pose proof (stack_top_tail _ _ _ _ _ H) as H1.
  assert (Hrun : vector_length s =
     match absv s v with
     | ALoc (LVec vid) => (dom l <- vec_get vid; ret (VNum (Fixnum (Z.of_N (len l))))) (with_sp s1 (sp s1 - 1))
     | _ => RErr E_OTHER [] (with_sp s1 (sp s1 - 1))
     end).
  { unfold vector_length. pop_argc_tac H s 1 1 (Some 1). fold s1.
    unfold bindM at 1. rewrite (pop_vector_spec s1 v [] Hv H1). change (absv s1 v) with (absv s v).
    destruct (absv s v) as [w|l|]; try reflexivity. destruct l; reflexivity. }
  rewrite Hrun.
  destruct (absv s v) as [w|l|] eqn:Ea; try (eexists; reflexivity).
  destruct l as [p|vid|sid|p]; try (eexists; reflexivity).
  destruct (vec_registered s v vid W Ea) as (l & Hl & Hal & _).
  exists (map (absv s) l), (with_sp s1 (sp s1 - 1)). repeat apply conj; try reflexivity; [exact Hal|].
  rewrite (bind_ok _ _ _ _ _ (vec_get_ok (with_sp s1 (sp s1 - 1)) vid l Hl)).
  unfold ret. rewrite map_length. unfold len. now rewrite nat_N_Z.
Qed.

Theorem vector_ref_refines s v k :
  values_are_refs s -> val_ok s v -> val_ok s k -> called_with s [v; k] ->
  match absv s v with
  | ALoc (LVec vid) =>
      exists xs, a_vec (abs s) vid = Some xs /\
        match aindex (absv s k) with
        | Some i =>
            match nth_error xs (N.to_nat i) with
            | Some x => exists r s', vector_ref s = ROk r s' /\ absv s' r = x /\ val_ok s' r /\
                                     hp s' = hp s /\ st s' = st s
            | None => exists s', vector_ref s = RErr E_OTHER [] s'      (* index out of range *)
            end
        | None => exists s', vector_ref s = RErr E_OTHER [] s'          (* not an index *)
        end
  | _ => exists s', vector_ref s = RErr E_OTHER [] s'
  end.
Proof.
  intros W Hv Hk H. unfold called_with in H. cbn [len length rev app N.of_nat Pos.of_succ_nat] in H.
  set (s1 := with_sp s (sp s - 1)).
  set (s2 := with_sp s1 (sp s1 - 1)).
  set (s3 := with_sp s2 (sp s2 - 1)).
  pose proof (stack_top_tail _ _ _ _ _ H) as H1.
  pose proof (stack_top_tail _ _ _ _ _ H1) as H2.
  assert (Hrun : vector_ref s =
    match aindex (absv s k) with
    | Some idx =>
        match absv s v with
        | ALoc (LVec vid) =>
            (dom l <- vec_get vid; match vget l idx with Some v0 => ret v0 | None => fail E_OTHER end) s3
        | _ => RErr E_OTHER [] s3
        end
    | None => RErr E_OTHER [] s2
    end).
  { unfold vector_ref. pop_argc_tac H s 2 2 (Some 2). fold s1.
    unfold bindM at 1. rewrite (pop_index_spec s1 k _ Hk H1). change (absv s1 k) with (absv s k).
    destruct (aindex (absv s k)) as [i|]; [|reflexivity]. fold s2.
    unfold bindM at 1. rewrite (pop_vector_spec s2 v [] Hv H2). change (absv s2 v) with (absv s v).
    destruct (absv s v) as [w|l|]; try reflexivity. destruct l; reflexivity. }
  rewrite Hrun.
  destruct (absv s v) as [w|l|] eqn:Ea.
  1,3: destruct (aindex (absv s k)); eexists; reflexivity.
  destruct l as [p|vid|sid|p].
  1,3,4: destruct (aindex (absv s k)); eexists; reflexivity.
  destruct (vec_registered s v vid W Ea) as (l & Hl & Hal & Hfl).
  exists (map (absv s) l). split; [exact Hal|].
  destruct (aindex (absv s k)) as [i|]; [|eexists; reflexivity].
  rewrite (bind_ok _ _ _ _ _ (vec_get_ok s3 vid l Hl)).
  rewrite vget_nth, nth_error_map.
  destruct (nth_error l (N.to_nat i)) as [x|] eqn:En; cbn [option_map]; [|eexists; reflexivity].
  exists x, s3. repeat apply conj; try reflexivity.
  rewrite Forall_forall in Hfl. apply Hfl. eapply nth_error_In; eauto.
Qed.

Lemma target_ok_hp s s' p : hp s' = hp s -> target_ok s p -> target_ok s' p.
Proof. intros E (Hl & c & Hc & Hd). unfold target_ok. rewrite E. eauto. Qed.
Lemma val_ok_hp s s' v : hp s' = hp s -> val_ok s v -> val_ok s' v.
Proof. intros E. destruct v; cbn [val_ok]; auto. now apply target_ok_hp. Qed.

(* replacing the contents of one vector *)
Lemma set_vec_fields t vid l l' :
  values_are_refs t -> tget (vecs (st t)) vid = Some l -> Forall (val_ok t) l' ->
  values_are_refs (with_store t (set_vec (st t) vid l')) /\
  a_vec (abs (with_store t (set_vec (st t) vid l'))) vid = Some (map (absv t) l') /\
  (forall u, u <> vid -> a_vec (abs (with_store t (set_vec (st t) vid l'))) u = a_vec (abs t) u) /\
  (forall q, a_pair (abs (with_store t (set_vec (st t) vid l'))) q = a_pair (abs t) q).
Proof.
  intros W Hl Hl'. pose proof W as (Hok & Hpairs & Hvecs & Hvc & Hid).
  set (t' := with_store t (set_vec (st t) vid l')).
  assert (Ehp : hp t' = hp t) by reflexivity.
  refine (conj _ (conj _ (conj _ _))).
  - unfold values_are_refs; refine (conj Hok (conj _ (conj _ (conj _ _)))); cbn [t' with_store hp st set_vec vecs next_id].
    + intros q a d Hq. destruct (Hpairs _ _ _ Hq). split; apply (target_ok_hp t t'); auto.
    + intros u lu Hu. destruct (N.eq_dec vid u) as [<-|Hne].
      * rewrite tget_tset_same in Hu. injection Hu as <-.
        eapply Forall_impl; [|exact Hl']. intros x. now apply val_ok_hp.
      * rewrite tget_tset_other in Hu by assumption. specialize (Hvecs _ _ Hu).
        eapply Forall_impl; [|exact Hvecs]. intros x. now apply val_ok_hp.
    + intros q u Hq. destruct (N.eq_dec vid u) as [<-|Hne].
      * rewrite tget_tset_same. discriminate.
      * rewrite tget_tset_other by assumption. eauto.
    + intros u Hu. destruct (N.eq_dec vid u) as [<-|Hne].
      * rewrite (Hid _ Hu) in Hl. discriminate.
      * rewrite tget_tset_other by assumption. auto.
  - cbn [abs a_vec t' with_store st set_vec vecs]. rewrite tget_tset_same. reflexivity.
  - intros u Hne. cbn [abs a_vec t' with_store st set_vec vecs]. rewrite tget_tset_other by congruence.
    reflexivity.
  - intros q. now apply abs_pair_hp.
Qed.

Lemma map_list_set_nat {A B} (f : A -> B) l i x :
  map f (list_set_nat l i x) = list_set_nat (map f l) i (f x).
Proof. revert i; induction l as [|y r IH]; intros [|i]; cbn; try reflexivity. now rewrite IH. Qed.

Lemma Forall_list_set_nat {A} (P : A -> Prop) l i x :
  Forall P l -> P x -> Forall P (list_set_nat l i x).
Proof.
  intros Hl Hx. revert i; induction Hl as [|y r Hy Hr IH]; intros [|i]; cbn; auto.
Qed.

Theorem vector_set_refines s v k x :
  values_are_refs s -> val_ok s v -> val_ok s k -> val_ok s x -> called_with s [v; k; x] ->
  match absv s v, aindex (absv s k) with
  | ALoc (LVec vid), Some i =>
      exists xs, a_vec (abs s) vid = Some xs /\
        if i <? N.of_nat (length xs) then
          exists s', vector_set s = ROk VVoid s' /\
            a_vec (abs s') vid = Some (list_set_nat xs (N.to_nat i) (absv s x)) /\
            (forall u, u <> vid -> a_vec (abs s') u = a_vec (abs s) u) /\
            (forall q, a_pair (abs s') q = a_pair (abs s) q) /\
            hp s' = hp s /\ values_are_refs s'
        else exists s', vector_set s = RErr E_OTHER [] s'              (* index out of range *)
  | _, _ => exists s', vector_set s = RErr E_OTHER [] s'
  end.
Proof.
  intros W Hv Hk Hx H. unfold called_with in H. cbn [len length rev app N.of_nat Pos.of_succ_nat] in H.
  set (s1 := with_sp s (sp s - 1)).
  set (s2 := with_sp s1 (sp s1 - 1)).
  set (s3 := with_sp s2 (sp s2 - 1)).
  set (s4 := with_sp s3 (sp s3 - 1)).
  pose proof (stack_top_tail _ _ _ _ _ H) as H1.
  pose proof (stack_top_tail _ _ _ _ _ H1) as H2.
  pose proof (stack_top_tail _ _ _ _ _ H2) as H3.
  assert (Hrun : vector_set s =
    match aindex (absv s k) with
    | Some idx =>
        match absv s v with
        | ALoc (LVec vid) =>
            (dom l <- vec_get vid;
             if len l <=? idx then fail E_OTHER
             else dom _ <- vec_set vid (vput l idx x); ret VVoid) s4
        | _ => RErr E_OTHER [] s4
        end
    | None => RErr E_OTHER [] s3
    end).
  { unfold vector_set. pop_argc_tac H s 3 3 (Some 3). fold s1.
    rewrite (bind_ok _ _ _ _ _ (pop_raw_top s1 x _ H1)). fold s2.
    unfold bindM at 1. rewrite (pop_index_spec s2 k _ Hk H2). change (absv s2 k) with (absv s k).
    destruct (aindex (absv s k)) as [i|]; [|reflexivity]. fold s3.
    unfold bindM at 1. rewrite (pop_vector_spec s3 v [] Hv H3). change (absv s3 v) with (absv s v).
    destruct (absv s v) as [w|l|]; try reflexivity. destruct l; reflexivity. }
  rewrite Hrun.
  destruct (absv s v) as [w|l|] eqn:Ea.
  1,3: destruct (aindex (absv s k)); eexists; reflexivity.
  destruct l as [p|vid|sid|p].
  1,3,4: destruct (aindex (absv s k)); eexists; reflexivity.
  destruct (aindex (absv s k)) as [i|]; [|eexists; reflexivity].
  destruct (vec_registered s v vid W Ea) as (l & Hl & Hal & Hfl).
  exists (map (absv s) l). split; [exact Hal|].
  rewrite (bind_ok _ _ _ _ _ (vec_get_ok s4 vid l Hl)).
  rewrite map_length. unfold len.
  destruct (i <? N.of_nat (length l)) eqn:Ei.
  - assert (Ei' : (N.of_nat (length l) <=? i) = false) by (apply N.leb_gt; now apply N.ltb_lt).
    rewrite Ei'. unfold vput, len. rewrite Ei.
    assert (Hfl' : Forall (val_ok s4) (list_set l i x)).
    { unfold list_set. apply Forall_list_set_nat; assumption. }
    destruct (set_vec_fields s4 vid l (list_set l i x) W Hl Hfl') as (W' & Hvv & Hvo & Hpo).
    eexists. refine (conj eq_refl (conj _ (conj Hvo (conj Hpo (conj eq_refl W'))))).
    rewrite Hvv. unfold list_set. now rewrite map_list_set_nat.
  - assert (Ei' : (N.of_nat (length l) <=? i) = true) by (apply N.leb_le; now apply N.ltb_ge).
    rewrite Ei'. eexists; reflexivity.
Qed.

Theorem vector_fill_refines s v x :
  values_are_refs s -> val_ok s v -> val_ok s x -> called_with s [v; x] ->
  match absv s v with
  | ALoc (LVec vid) =>
      exists xs s', a_vec (abs s) vid = Some xs /\ vector_fill s = ROk VVoid s' /\
        a_vec (abs s') vid = Some (map (fun _ => absv s x) xs) /\
        (forall u, u <> vid -> a_vec (abs s') u = a_vec (abs s) u) /\
        (forall q, a_pair (abs s') q = a_pair (abs s) q) /\
        hp s' = hp s /\ values_are_refs s'
  | _ => exists s', vector_fill s = RErr E_OTHER [] s'
  end.
Proof.
  intros W Hv Hx H. unfold called_with in H. cbn [len length rev app N.of_nat Pos.of_succ_nat] in H.
  set (s1 := with_sp s (sp s - 1)).
  set (s2 := with_sp s1 (sp s1 - 1)).
  set (s3 := with_sp s2 (sp s2 - 1)).
  pose proof (stack_top_tail _ _ _ _ _ H) as H1.
  pose proof (stack_top_tail _ _ _ _ _ H1) as H2.
  assert (Hrun : vector_fill s =
    match absv s v with
    | ALoc (LVec vid) =>
        (dom l <- vec_get vid; dom _ <- vec_set vid (map (fun _ => x) l); ret VVoid) s3
    | _ => RErr E_OTHER [] s3
    end).
  { unfold vector_fill. pop_argc_tac H s 2 2 (Some 2). fold s1.
    rewrite (bind_ok _ _ _ _ _ (pop_raw_top s1 x _ H1)). fold s2.
    unfold bindM at 1. rewrite (pop_vector_spec s2 v [] Hv H2). change (absv s2 v) with (absv s v).
    destruct (absv s v) as [w|l|]; try reflexivity. destruct l; reflexivity. }
  rewrite Hrun.
  destruct (absv s v) as [w|l|] eqn:Ea; try (eexists; reflexivity).
  destruct l as [p|vid|sid|p]; try (eexists; reflexivity).
  destruct (vec_registered s v vid W Ea) as (l & Hl & Hal & Hfl).
  assert (Hfl' : Forall (val_ok s3) (map (fun _ => x) l)).
  { apply Forall_forall. intros y Hy. apply in_map_iff in Hy. destruct Hy as (_ & <- & _). exact Hx. }
  destruct (set_vec_fields s3 vid l _ W Hl Hfl') as (W' & Hvv & Hvo & Hpo).
  exists (map (absv s) l). eexists.
  refine (conj Hal (conj _ (conj _ (conj Hvo (conj Hpo (conj eq_refl W')))))).
  - rewrite (bind_ok _ _ _ _ _ (vec_get_ok s3 vid l Hl)). reflexivity.
  - rewrite Hvv. rewrite !map_map. reflexivity.
Qed.

(* ============================================================== constructors *)
Lemma with_sp_same s : with_sp s (sp s) = s.
Proof. destruct s; reflexivity. Qed.

Lemma pop_n_spec l : forall acc s, stack_top (stack s) (scap s) (sp s) l ->
  exists n, pop_n (length l) acc s = ROk (rev l ++ acc) (with_sp s n).
Proof.
  induction l as [|v r IH]; intros acc s H; cbn [length pop_n].
  - exists (sp s). unfold ret. now rewrite with_sp_same.
  - rewrite (bind_ok _ _ _ _ _ (pop_raw_top s v r H)).
    destruct (IH (v :: acc) (with_sp s (sp s - 1)) (stack_top_tail _ _ _ _ _ H)) as (n & En).
    exists n. rewrite En. cbn [rev]. rewrite <- app_assoc. reflexivity.
Qed.

(* a new vector object *)
Lemma new_vec_fields t l :
  values_are_refs t -> Forall (val_ok t) l ->
  values_are_refs (with_store t (snd (new_vec (st t) l))) /\
  pres t (with_store t (snd (new_vec (st t) l))) /\
  tget (vecs (st t)) (next_id (st t)) = None /\
  tget (vecs (st (with_store t (snd (new_vec (st t) l))))) (next_id (st t)) = Some l.
Proof.
  intros W Hl. pose proof W as (Hok & Hpairs & Hvecs & Hvc & Hid).
  set (vid := next_id (st t)).
  set (t' := with_store t (snd (new_vec (st t) l))).
  assert (Hnone : tget (vecs (st t)) vid = None) by (apply Hid; subst vid; lia).
  assert (Hother : forall u, u <> vid -> tget (vecs (st t')) u = tget (vecs (st t)) u).
  { intros u Hne. cbn [t' with_store st new_vec snd vecs].
    rewrite tget_tset_other; [reflexivity|]. intros E. apply Hne. symmetry. exact E. }
  assert (Hsame : tget (vecs (st t')) vid = Some l).
  { cbn [t' with_store st new_vec snd vecs]. apply tget_tset_same. }
  assert (P : pres t t').
  { unfold pres; refine (conj _ (conj _ (conj _ _))); auto.
    intros u lu Hu. rewrite Hother; [exact Hu|]. intros ->. rewrite Hnone in Hu. discriminate. }
  refine (conj _ (conj P (conj Hnone Hsame))).
  unfold values_are_refs; refine (conj Hok (conj _ (conj _ (conj _ _)))).
  - intros q a d Hq. destruct (Hpairs _ _ _ Hq). split; apply (target_ok_hp t t'); auto.
  - intros u lu Hu. destruct (N.eq_dec u vid) as [->|Hne].
    + rewrite Hsame in Hu. injection Hu as <-. eapply Forall_impl; [|exact Hl]. intros x. now apply val_ok_hp.
    + rewrite Hother in Hu by assumption. specialize (Hvecs _ _ Hu).
      eapply Forall_impl; [|exact Hvecs]. intros x. now apply val_ok_hp.
  - intros q u Hq. destruct (N.eq_dec u vid) as [->|Hne].
    + rewrite Hsame. discriminate.
    + rewrite Hother by assumption. apply (Hvc q u Hq).
  - intros u Hu. cbn [t' with_store st new_vec snd next_id] in Hu.
    rewrite Hother by (subst vid; lia). apply Hid. lia.
Qed.

(* the CALL wrapper around a builtin that ends by creating the vector [l] *)
Lemma wrap_new_vector t l :
  values_are_refs t -> Forall (val_ok t) l ->
  exists p vid s',
    (dom r <- vec_new l; match r with VPtr q => ret (VPtr q) | v => hmaybe_put v end) t = ROk (VPtr p) s' /\
    absv s' (VPtr p) = ALoc (LVec vid) /\ a_vec (abs t) vid = None /\
    a_vec (abs s') vid = Some (map (absv t) l) /\
    pres t s' /\ values_are_refs s' /\ ~ live (hp t) p /\ target_ok s' p.
Proof.
  intros W Hl.
  destruct (new_vec_fields t l W Hl) as (W1 & P1 & Hnone & Hsame).
  set (vid := next_id (st t)) in *.
  set (t1 := with_store t (snd (new_vec (st t) l))) in *.
  assert (Hn : new_cell_ok t1 (VVec vid)) by (cbn [new_cell_ok]; rewrite Hsame; discriminate).
  destruct (hput_new t1 _ W1 Hn) as (p & h' & E & F).
  destruct (fresh_wf t1 _ p h' W1 Hn F) as (W2 & T2).
  pose proof (fresh_pres _ _ _ _ F) as P2.
  exists p, vid, (with_heap t1 h').
  refine (conj _ (conj _ (conj _ (conj _ (conj _ (conj W2 (conj _ T2))))))).
  - unfold bindM, vec_new. cbn [new_vec]. fold vid. exact E.
  - destruct F as (_ & _ & _ & _ & Hg & _). cbn [absv with_heap hp]. now rewrite Hg.
  - cbn [abs a_vec]. fold vid. now rewrite Hnone.
  - rewrite (pres_a_vec t1 (with_heap t1 h') vid l W1 P2 Hsame).
    cbn [abs a_vec]. rewrite Hsame. reflexivity.
  - eapply pres_trans; eauto.
  - destruct F as (_ & Hnl & _). exact Hnl.
Qed.

Theorem vector_refines s args :
  values_are_refs s -> Forall (val_ok s) args -> called_with s args ->
  exists p vid s', call_builtin vector s = ROk (VPtr p) s' /\
    absv s' (VPtr p) = ALoc (LVec vid) /\ a_vec (abs s) vid = None /\
    a_vec (abs s') vid = Some (map (absv s) args) /\
    pres s s' /\ values_are_refs s' /\ ~ live (hp s) p /\ target_ok s' p.
Proof.
  intros W Hargs H. unfold called_with in H.
  set (s1 := with_sp s (sp s - 1)).
  pose proof (stack_top_tail _ _ _ _ _ H) as H1.
  destruct (pop_n_spec (rev args) [] s1 H1) as (n & En).
  rewrite rev_involutive, app_nil_r in En.
  destruct (wrap_new_vector (with_sp s1 n) args W Hargs) as (p & vid & s' & E & R).
  exists p, vid, s'. split; [|exact R].
  unfold call_builtin, vector.
  assert (Hp : pop_argc 0 None s = ROk (len args) s1).
  { rewrite (pop_argc_top _ _ _ _ _ H). rewrite (proj2 (N.ltb_ge _ 0) (N.le_0_l _)). reflexivity. }
  unfold bindM at 1. unfold bindM at 1. rewrite Hp.
  unfold bindM at 1. unfold len. rewrite Nat2N.id, <- (rev_length args), En.
  exact E.
Qed.

(* ================================================== store / retrieve identity *)
(* A value stored in a container is retrieved as the same abstract value — for a heap
   object: the same LOCATION —, through every alias of the container. *)
Lemma wf_hp_st s t : hp t = hp s -> st t = st s -> values_are_refs s -> values_are_refs t.
Proof.
  intros E1 E2 (Hok & Hpairs & Hvecs & Hvc & Hid).
  unfold values_are_refs, target_ok. rewrite E1, E2.
  refine (conj Hok (conj Hpairs (conj _ (conj Hvc Hid)))).
  intros vid l Hl. specialize (Hvecs _ _ Hl). eapply Forall_impl; [|exact Hvecs].
  intros x. now apply val_ok_hp.
Qed.

Theorem cons_then_car_cdr fuel s a b :
  values_are_refs s -> val_ok s a -> val_ok s b -> called_with s [a; b] ->
  exists p s', call_builtin cons_ s = ROk (VPtr p) s' /\ values_are_refs s' /\
    forall t, hp t = hp s' -> called_with t [VPtr p] ->
      (exists r t', car fuel t = ROk r t' /\ absv t' r = absv s a) /\
      (exists r t', cdr fuel t = ROk r t' /\ absv t' r = absv s b).
Proof.
  intros W Ha Hb H.
  destruct (cons_refines s a b W Ha Hb H) as (p & s' & E & Hnl & Hp & P & W' & T' & Hst).
  exists p, s'. refine (conj E (conj W' _)). intros t Ehp Ht.
  assert (Ea : absv t (VPtr p) = ALoc (LPair p)).
  { rewrite (absv_hp s' t _ Ehp). cbn [abs a_pair] in Hp. cbn [absv].
    destruct (heap_get (hp s') p) as [c| | |]; try discriminate. destruct c; try discriminate. reflexivity. }
  split.
  - pose proof (car_refines fuel t (VPtr p) Ht) as C. rewrite Ea in C.
    destruct C as (x & d & r & t' & Hx & Ec & Hr & _). exists r, t'. split; [exact Ec|].
    rewrite (abs_pair_hp s' t p Ehp), Hp in Hx. now injection Hx as <- <-.
  - pose proof (cdr_refines fuel t (VPtr p) Ht) as C. rewrite Ea in C.
    destruct C as (x & d & r & t' & Hx & Ec & Hr & _). exists r, t'. split; [exact Ec|].
    rewrite (abs_pair_hp s' t p Ehp), Hp in Hx. now injection Hx as <- <-.
Qed.

Theorem set_car_then_car fuel s pv o p :
  values_are_refs s -> val_ok s pv -> val_ok s o -> called_with s [pv; o] ->
  absv s pv = ALoc (LPair p) ->
  exists s', set_car s = ROk VVoid s' /\ values_are_refs s' /\
    forall t alias, hp t = hp s' -> val_ok s alias -> absv s alias = ALoc (LPair p) ->
      called_with t [alias] ->
      exists r t', car fuel t = ROk r t' /\ absv t' r = absv s o.
Proof.
  intros W Hpv Ho H Ea.
  pose proof (set_car_refines s pv o W Hpv Ho H) as R. rewrite Ea in R.
  destruct R as (x & d & s' & Hx & E & Hp & Hfr & Hfv & Hval & W').
  exists s'. refine (conj E (conj W' _)). intros t alias Ehp Hal Eal Ht.
  pose proof (car_refines fuel t alias Ht) as C.
  rewrite (absv_hp s' t _ Ehp), (proj2 (Hval _ Hal)), Eal in C.
  destruct C as (x' & d' & r & t' & Hx' & Ec & Hr & _). exists r, t'. split; [exact Ec|].
  rewrite (abs_pair_hp s' t p Ehp), Hp in Hx'. now injection Hx' as <- <-.
Qed.

Theorem set_cdr_then_cdr fuel s pv o p :
  values_are_refs s -> val_ok s pv -> val_ok s o -> called_with s [pv; o] ->
  absv s pv = ALoc (LPair p) ->
  exists s', set_cdr s = ROk VVoid s' /\ values_are_refs s' /\
    forall t alias, hp t = hp s' -> val_ok s alias -> absv s alias = ALoc (LPair p) ->
      called_with t [alias] ->
      exists r t', cdr fuel t = ROk r t' /\ absv t' r = absv s o.
Proof.
  intros W Hpv Ho H Ea.
  pose proof (set_cdr_refines s pv o W Hpv Ho H) as R. rewrite Ea in R.
  destruct R as (x & d & s' & Hx & E & Hp & Hfr & Hfv & Hval & W').
  exists s'. refine (conj E (conj W' _)). intros t alias Ehp Hal Eal Ht.
  pose proof (cdr_refines fuel t alias Ht) as C.
  rewrite (absv_hp s' t _ Ehp), (proj2 (Hval _ Hal)), Eal in C.
  destruct C as (x' & d' & r & t' & Hx' & Ec & Hr & _). exists r, t'. split; [exact Ec|].
  rewrite (abs_pair_hp s' t p Ehp), Hp in Hx'. now injection Hx' as <- <-.
Qed.

Lemma nth_error_list_set_nat_same {A} (l : list A) i x :
  (i < length l)%nat -> nth_error (list_set_nat l i x) i = Some x.
Proof. revert i; induction l as [|y r IH]; intros [|i] H; cbn in *; try lia; auto. apply IH. lia. Qed.

Lemma abs_vec_hp_st s t vid : hp t = hp s -> st t = st s -> a_vec (abs t) vid = a_vec (abs s) vid.
Proof.
  intros E1 E2. cbn [abs a_vec]. rewrite E2. destruct (tget (vecs (st s)) vid); [|reflexivity].
  f_equal. apply map_ext. intros x. now apply absv_hp.
Qed.

Theorem vector_set_then_ref s v k x vid i :
  values_are_refs s -> val_ok s v -> val_ok s k -> val_ok s x -> called_with s [v; k; x] ->
  absv s v = ALoc (LVec vid) -> aindex (absv s k) = Some i ->
  forall xs, a_vec (abs s) vid = Some xs -> i < N.of_nat (length xs) ->
  exists s', vector_set s = ROk VVoid s' /\ values_are_refs s' /\
    forall t alias k', hp t = hp s' -> st t = st s' ->
      val_ok s alias -> absv s alias = ALoc (LVec vid) ->
      val_ok s k' -> aindex (absv s k') = Some i ->
      called_with t [alias; k'] ->
      exists r t', vector_ref t = ROk r t' /\ absv t' r = absv s x.
Proof.
  intros W Hv Hk Hx H Ea Ei xs Hxs Hlt.
  pose proof (vector_set_refines s v k x W Hv Hk Hx H) as R. rewrite Ea, Ei in R.
  destruct R as (xs' & Hxs' & R). rewrite Hxs in Hxs'. injection Hxs' as <-.
  apply N.ltb_lt in Hlt. rewrite Hlt in R. apply N.ltb_lt in Hlt.
  destruct R as (s' & E & Hvv & Hvo & Hpo & Ehp & W').
  exists s'. refine (conj E (conj W' _)). intros t alias k' E1 E2 Hal Eal Hk' Ek' Ht.
  assert (Wt : values_are_refs t) by (eapply wf_hp_st; eauto).
  assert (Eh : hp t = hp s) by congruence.
  pose proof (vector_ref_refines t alias k' Wt (val_ok_hp s t _ Eh Hal) (val_ok_hp s t _ Eh Hk') Ht) as C.
  rewrite (absv_hp s t _ Eh), Eal in C.
  destruct C as (ys & Hys & C). rewrite (absv_hp s t _ Eh), Ek' in C.
  rewrite (abs_vec_hp_st s' t vid E1 E2), Hvv in Hys. injection Hys as <-.
  rewrite nth_error_list_set_nat_same in C by lia.
  destruct C as (r & t' & Ec & Hr & _). exists r, t'. split; [exact Ec | exact Hr].
Qed.

Theorem vector_fill_then_ref s v x vid :
  values_are_refs s -> val_ok s v -> val_ok s x -> called_with s [v; x] ->
  absv s v = ALoc (LVec vid) ->
  forall xs, a_vec (abs s) vid = Some xs ->
  exists s', vector_fill s = ROk VVoid s' /\ values_are_refs s' /\
    forall t alias k' i, hp t = hp s' -> st t = st s' ->
      val_ok s alias -> absv s alias = ALoc (LVec vid) ->
      val_ok s k' -> aindex (absv s k') = Some i -> i < N.of_nat (length xs) ->
      called_with t [alias; k'] ->
      exists r t', vector_ref t = ROk r t' /\ absv t' r = absv s x.
Proof.
  intros W Hv Hx H Ea xs Hxs.
  pose proof (vector_fill_refines s v x W Hv Hx H) as R. rewrite Ea in R.
  destruct R as (xs' & s' & Hxs' & E & Hvv & Hvo & Hpo & Ehp & W').
  rewrite Hxs in Hxs'. injection Hxs' as <-.
  exists s'. refine (conj E (conj W' _)). intros t alias k' i E1 E2 Hal Eal Hk' Ek' Hlt Ht.
  assert (Wt : values_are_refs t) by (eapply wf_hp_st; eauto).
  assert (Eh : hp t = hp s) by congruence.
  pose proof (vector_ref_refines t alias k' Wt (val_ok_hp s t _ Eh Hal) (val_ok_hp s t _ Eh Hk') Ht) as C.
  rewrite (absv_hp s t _ Eh), Eal in C.
  destruct C as (ys & Hys & C). rewrite (absv_hp s t _ Eh), Ek' in C.
  rewrite (abs_vec_hp_st s' t vid E1 E2), Hvv in Hys. injection Hys as <-.
  rewrite nth_error_map in C.
  destruct (nth_error xs (N.to_nat i)) eqn:En.
  - cbn [option_map] in C. destruct C as (r & t' & Ec & Hr & _). exists r, t'. split; [exact Ec | exact Hr].
  - exfalso. apply nth_error_None in En. lia.
Qed.

Theorem vector_then_ref s args :
  values_are_refs s -> Forall (val_ok s) args -> called_with s args ->
  exists p s', call_builtin vector s = ROk (VPtr p) s' /\ values_are_refs s' /\
    forall t k' i a, hp t = hp s' -> st t = st s' ->
      val_ok s k' -> aindex (absv s k') = Some i -> nth_error args (N.to_nat i) = Some a ->
      called_with t [VPtr p; k'] ->
      exists r t', vector_ref t = ROk r t' /\ absv t' r = absv s a.
Proof.
  intros W Hargs H.
  destruct (vector_refines s args W Hargs H) as (p & vid & s' & E & Ep & Hnone & Hvv & P & W' & Hnl & T').
  exists p, s'. refine (conj E (conj W' _)). intros t k' i a E1 E2 Hk' Ek' Hn Ht.
  assert (Wt : values_are_refs t) by (eapply wf_hp_st; eauto).
  assert (Hk2 : val_ok t k') by (apply (val_ok_hp s' t _ E1); eapply pres_val_ok; eauto).
  assert (Hp2 : val_ok t (VPtr p)) by (apply (val_ok_hp s' t _ E1); exact T').
  pose proof (vector_ref_refines t (VPtr p) k' Wt Hp2 Hk2 Ht) as C.
  rewrite (absv_hp s' t _ E1), Ep in C.
  destruct C as (ys & Hys & C).
  rewrite (absv_hp s' t _ E1), (pres_absv s s' k' P Hk'), Ek' in C.
  rewrite (abs_vec_hp_st s' t vid E1 E2), Hvv in Hys. injection Hys as <-.
  rewrite nth_error_map, Hn in C. cbn [option_map] in C.
  destruct C as (r & t' & Ec & Hr & _). exists r, t'. split; [exact Ec | exact Hr].
Qed.

(* ================================================================ non-vacuity *)
Lemma wf_empty n : 0 < n -> values_are_refs (vm_empty n).
Proof.
  intros Hn. unfold values_are_refs, vm_empty; cbn [hp st heap_new store_empty vecs next_id].
  assert (Hnone : forall (A : Type) i, @tget A tempty i = None).
  { intros A i. unfold tget, tempty. apply PositiveMap.gempty. }
  refine (conj _ (conj _ (conj _ (conj _ _)))).
  - unfold heap_ok, heap_new; cbn [chunk hlen free_list cells]. refine (conj Hn (conj _ (conj _ (conj _ _)))).
    + lia.
    + apply range_asc_nodup.
    + intros p Hp. apply range_asc_in in Hp. lia.
    + intros p _. unfold blank; cbn [cells]. now rewrite Hnone.
  - intros p a d Hg. unfold heap_get, heap_new in Hg; cbn [hlen cells] in Hg. rewrite Hnone in Hg.
    destruct (p <? n); discriminate.
  - intros vid l Hl. rewrite Hnone in Hl. discriminate.
  - intros p vid Hg. unfold heap_get, heap_new in Hg; cbn [hlen cells] in Hg. rewrite Hnone in Hg.
    destruct (p <? n); discriminate.
  - intros vid _. apply Hnone.
Qed.

(* the machine after pushing [args] and their count on an empty machine *)
Definition ex_state (args : list vcell) : vm :=
  match (dom _ <- push_all args; push (VArgc (len args))) (vm_empty 16) with
  | ROk _ s => s
  | _ => vm_empty 16
  end.

Lemma ex_state_ok args :
  hp (ex_state args) = hp (vm_empty 16) -> st (ex_state args) = st (vm_empty 16) ->
  values_are_refs (ex_state args).
Proof. intros E1 E2. eapply wf_hp_st; eauto. apply wf_empty. lia. Qed.

(* ============================================== make-vector, vector-copy, vector-copy! *)
Lemma deref_index s v :
  val_ok s v -> exists c, heap_deref (hp s) v = Ok c /\
    aindex (absv s v) = match c with VNum n => num_to_usize n | _ => None end.
Proof.
  intros Hv. destruct (val_deref s v Hv) as (c & Hc & Ha & Hd). exists c. split; [exact Hc|].
  rewrite Ha. destruct v; cbn [val_ok] in Hv; try contradiction;
    try (cbn [heap_deref] in Hc; injection Hc as <-; reflexivity).
  destruct c; cbn [cell_val aindex data_cell] in *; try contradiction; reflexivity.
Qed.

Definition MAX_VEC : N := 0x3ffffffffffffff.

Lemma map_repeat' {A B} (f : A -> B) x n : map f (repeat x n) = repeat (f x) n.
Proof. induction n as [|n IH]; cbn; [reflexivity | now rewrite IH]. Qed.

Theorem make_vector_refines s k fill :
  values_are_refs s -> val_ok s k -> val_ok s fill -> called_with s [k; fill] ->
  match aindex (absv s k) with
  | Some i =>
      i <= MAX_VEC ->
      exists p vid s', call_builtin make_vector s = ROk (VPtr p) s' /\
        absv s' (VPtr p) = ALoc (LVec vid) /\ a_vec (abs s) vid = None /\
        a_vec (abs s') vid = Some (repeat (absv s fill) (N.to_nat i)) /\
        pres s s' /\ values_are_refs s' /\ ~ live (hp s) p /\ target_ok s' p
  | None => exists s', call_builtin make_vector s = RErr E_OTHER [] s'
  end.
Proof.
  intros W Hk Hf H. unfold called_with in H. cbn [len length rev app N.of_nat Pos.of_succ_nat] in H.
  set (s1 := with_sp s (sp s - 1)).
  set (s2 := with_sp s1 (sp s1 - 1)).
  set (s3 := with_sp s2 (sp s2 - 1)).
  pose proof (stack_top_tail _ _ _ _ _ H) as H1.
  pose proof (stack_top_tail _ _ _ _ _ H1) as H2.
  destruct (deref_index s k Hk) as (c & Hc & Hi).
  assert (Hrun : make_vector s =
    match c with
    | VNum n => match num_to_usize n with
                | Some j => if MAX_VEC <? j then RPanic P_CAPACITY else vec_new (repeat fill (N.to_nat j)) s3
                | None => RErr E_OTHER [] s3
                end
    | _ => RErr E_OTHER [] s3
    end).
  { unfold make_vector. pop_argc_tac H s 2 1 (Some 2). fold s1.
    change (2 =? 2) with true. cbv iota.
    rewrite (bind_ok _ _ _ _ _ (pop_raw_top s1 fill _ H1)). fold s2.
    unfold bindM at 1. rewrite (pop_value_top s2 k [] H2). fold s3. unfold lift.
    change (hp s2) with (hp s). rewrite Hc.
    destruct c; try reflexivity. destruct (num_to_usize n); try reflexivity.
    unfold MAX_VEC. destruct (_ <? n0); reflexivity. }
  rewrite Hi.
  destruct c; try (exists s3; unfold call_builtin; rewrite (bind_err _ _ _ _ _ _ Hrun); reflexivity).
  destruct (num_to_usize n) as [i|]; [|exists s3; unfold call_builtin; rewrite (bind_err _ _ _ _ _ _ Hrun); reflexivity].
  intros Hle. assert (Ei : (MAX_VEC <? i) = false) by (apply N.ltb_ge; exact Hle). rewrite Ei in Hrun.
  assert (Hl : Forall (val_ok s3) (repeat fill (N.to_nat i))).
  { apply Forall_forall. intros y Hy. apply repeat_spec in Hy. subst y. exact Hf. }
  destruct (wrap_new_vector s3 _ W Hl) as (p & vid & s' & E & Ep & Hnone & Hvv & R).
  exists p, vid, s'. refine (conj _ (conj Ep (conj Hnone (conj _ R)))).
  - unfold call_builtin. unfold bindM at 1. rewrite Hrun. exact E.
  - rewrite Hvv. rewrite map_repeat'. reflexivity.
Qed.

Lemma take_firstn {A} n (l : list A) : take n l = firstn n l.
Proof. revert l; induction n as [|n IH]; intros [|x r]; cbn; try reflexivity. now rewrite IH. Qed.
Lemma drop_skipn {A} n (l : list A) : drop n l = skipn n l.
Proof. revert l; induction n as [|n IH]; intros [|x r]; cbn; try reflexivity. apply IH. Qed.

Lemma clone_vector_suffix l start :
  start <= len l ->
  forall s, clone_vector l (Some start) None s = ROk (skipn (N.to_nat start) l) s.
Proof.
  intros Hle s. unfold clone_vector.
  assert (E1 : (len l <? start) = false) by (apply N.ltb_ge; exact Hle). rewrite E1. rewrite E1.
  unfold ret. f_equal. rewrite take_firstn, drop_skipn.
  apply firstn_all2. rewrite skipn_length. unfold len in *. lia.
Qed.

Lemma clone_vector_all l s : clone_vector l None None s = ROk l s.
Proof.
  unfold clone_vector.
  assert (E1 : (len l <? 0) = false) by (apply N.ltb_ge; lia). rewrite E1. rewrite E1.
  unfold ret. f_equal. rewrite take_firstn, drop_skipn. cbn [N.to_nat skipn].
  apply firstn_all2. unfold len. lia.
Qed.

(* vector-copy with a start index (the end argument is excluded by the property):
   a NEW vector holding the suffix; start = length gives the empty vector (fix F2) *)
Theorem vector_copy_refines s v k :
  values_are_refs s -> val_ok s v -> val_ok s k -> called_with s [v; k] ->
  match absv s v, aindex (absv s k) with
  | ALoc (LVec vid0), Some i =>
      exists xs, a_vec (abs s) vid0 = Some xs /\
        if i <=? N.of_nat (length xs) then
          exists p vid s', call_builtin vector_copy s = ROk (VPtr p) s' /\
            absv s' (VPtr p) = ALoc (LVec vid) /\ a_vec (abs s) vid = None /\
            a_vec (abs s') vid = Some (skipn (N.to_nat i) xs) /\
            pres s s' /\ values_are_refs s' /\ ~ live (hp s) p /\ target_ok s' p
        else exists s', call_builtin vector_copy s = RErr E_OTHER [] s'
  | _, _ => exists s', call_builtin vector_copy s = RErr E_OTHER [] s'
  end.
Proof.
  intros W Hv Hk H. unfold called_with in H. cbn [len length rev app N.of_nat Pos.of_succ_nat] in H.
  set (s1 := with_sp s (sp s - 1)).
  set (s2 := with_sp s1 (sp s1 - 1)).
  set (s3 := with_sp s2 (sp s2 - 1)).
  pose proof (stack_top_tail _ _ _ _ _ H) as H1.
  pose proof (stack_top_tail _ _ _ _ _ H1) as H2.
  assert (Hrun : vector_copy s =
    match aindex (absv s k) with
    | Some i =>
        match absv s v with
        | ALoc (LVec vid) =>
            (dom l <- vec_get vid;
             if len l <? i then fail E_OTHER
             else dom out <- clone_vector l (Some i) None; vec_new out) s3
        | _ => RErr E_OTHER [] s3
        end
    | None => RErr E_OTHER [] s2
    end).
  { unfold vector_copy. pop_argc_tac H s 2 1 (Some 3). fold s1.
    change (2 =? 3) with false. change (1 <? 2) with true. cbv iota.
    unfold bindM at 1. unfold ret at 1.
    unfold bindM at 1. unfold bindM at 1. rewrite (pop_index_spec s1 k _ Hk H1). change (absv s1 k) with (absv s k).
    destruct (aindex (absv s k)) as [i|]; [|reflexivity]. fold s2. unfold ret at 1.
    unfold bindM at 1. rewrite (pop_vector_spec s2 v [] Hv H2). change (absv s2 v) with (absv s v).
    destruct (absv s v) as [w|l|]; try reflexivity. destruct l; reflexivity. }
  destruct (absv s v) as [w|l|] eqn:Ea.
  1,3: destruct (aindex (absv s k)); eexists; unfold call_builtin; rewrite (bind_err _ _ _ _ _ _ Hrun); reflexivity.
  destruct l as [p|vid0|sid|p].
  1,3,4: destruct (aindex (absv s k)); eexists; unfold call_builtin; rewrite (bind_err _ _ _ _ _ _ Hrun); reflexivity.
  destruct (aindex (absv s k)) as [i|];
    [|eexists; unfold call_builtin; rewrite (bind_err _ _ _ _ _ _ Hrun); reflexivity].
  destruct (vec_registered s v vid0 W Ea) as (l & Hl & Hal & Hfl).
  exists (map (absv s) l). split; [exact Hal|]. rewrite map_length.
  rewrite (bind_ok _ _ _ _ _ (vec_get_ok s3 vid0 l Hl)) in Hrun.
  destruct (i <=? N.of_nat (length l)) eqn:Ei.
  - apply N.leb_le in Ei.
    assert (E1 : (len l <? i) = false) by (apply N.ltb_ge; exact Ei). rewrite E1 in Hrun.
    rewrite (bind_ok _ _ _ _ _ (clone_vector_suffix l i Ei s3)) in Hrun.
    assert (Hsk : Forall (val_ok s3) (skipn (N.to_nat i) l)).
    { apply Forall_forall. intros y Hy. rewrite Forall_forall in Hfl. apply Hfl.
      rewrite <- (firstn_skipn (N.to_nat i) l). apply in_or_app. now right. }
    destruct (wrap_new_vector s3 _ W Hsk) as (p & vid & s' & E & Ep & Hnone & Hvv & R).
    exists p, vid, s'. refine (conj _ (conj Ep (conj Hnone (conj _ R)))).
    + unfold call_builtin. unfold bindM at 1. rewrite Hrun. exact E.
    + rewrite Hvv. change (absv s3) with (absv s). now rewrite skipn_map.
  - apply N.leb_gt in Ei.
    assert (E1 : (len l <? i) = true) by (apply N.ltb_lt; exact Ei). rewrite E1 in Hrun.
    eexists; unfold call_builtin; rewrite (bind_err _ _ _ _ _ _ Hrun); reflexivity.
Qed.

(* ---------------------------------------------------------------- vector-copy! *)
Lemma list_set_nat_length {A} (l : list A) i x : length (list_set_nat l i x) = length l.
Proof. revert i; induction l as [|y r IH]; intros [|i]; cbn; auto. Qed.

Lemma list_set_nat_nth {A} (l : list A) i x j :
  (i < length l)%nat ->
  nth_error (list_set_nat l i x) j = if (j =? i)%nat then Some x else nth_error l j.
Proof.
  revert i j; induction l as [|y r IH]; intros [|i] [|j] H; cbn in *; try lia; try reflexivity.
  apply IH. lia.
Qed.

Lemma put_all_spec vals : forall l a,
  (N.to_nat a + length vals <= length l)%nat ->
  length (put_all l a vals) = length l /\
  forall j, nth_error (put_all l a vals) j =
            if ((N.to_nat a <=? j) && (j <? N.to_nat a + length vals))%nat
            then nth_error vals (j - N.to_nat a) else nth_error l j.
Proof.
  induction vals as [|v r IH]; intros l a Hle; cbn [put_all length] in *.
  - split; [reflexivity|]. intros j.
    destruct (N.to_nat a <=? j)%nat eqn:E1; cbn [andb]; [|reflexivity].
    assert (E2 : (j <? N.to_nat a + 0)%nat = false) by (apply Nat.ltb_ge; apply Nat.leb_le in E1; lia).
    now rewrite E2.
  - assert (Hlt : a <? len l = true) by (apply N.ltb_lt; unfold len; lia).
    unfold vput. rewrite Hlt. unfold list_set.
    set (l1 := list_set_nat l (N.to_nat a) v).
    assert (Hl1 : length l1 = length l) by apply list_set_nat_length.
    destruct (IH l1 (a + 1)) as (HL & HN); [rewrite Hl1; lia|].
    split; [now rewrite HL|]. intros j. rewrite HN.
    replace (N.to_nat (a + 1)) with (S (N.to_nat a)) by lia.
    unfold l1. rewrite list_set_nat_nth by lia.
    destruct (Nat.eq_dec j (N.to_nat a)) as [->|Hne].
    + rewrite Nat.eqb_refl.
      assert (E1 : (S (N.to_nat a) <=? N.to_nat a)%nat = false) by (apply Nat.leb_gt; lia).
      rewrite E1. cbn [andb].
      assert (E2 : (N.to_nat a <=? N.to_nat a)%nat = true) by (apply Nat.leb_le; lia).
      assert (E3 : (N.to_nat a <? N.to_nat a + S (length r))%nat = true) by (apply Nat.ltb_lt; lia).
      rewrite E2, E3. cbn [andb]. now rewrite Nat.sub_diag.
    + assert (E0 : (j =? N.to_nat a)%nat = false) by (now apply Nat.eqb_neq). rewrite E0.
      destruct (S (N.to_nat a) <=? j)%nat eqn:E1.
      * apply Nat.leb_le in E1.
        assert (E2 : (N.to_nat a <=? j)%nat = true) by (apply Nat.leb_le; lia). rewrite E2. cbn [andb].
        destruct (j <? S (N.to_nat a) + length r)%nat eqn:E3.
        -- apply Nat.ltb_lt in E3.
           assert (E4 : (j <? N.to_nat a + S (length r))%nat = true) by (apply Nat.ltb_lt; lia). rewrite E4.
           replace (j - N.to_nat a)%nat with (S (j - S (N.to_nat a))) by lia. reflexivity.
        -- apply Nat.ltb_ge in E3.
           assert (E4 : (j <? N.to_nat a + S (length r))%nat = false) by (apply Nat.ltb_ge; lia). now rewrite E4.
      * apply Nat.leb_gt in E1. cbn [andb].
        assert (E2 : (N.to_nat a <=? j)%nat = false) by (apply Nat.leb_gt; lia). now rewrite E2.
Qed.

Lemma collect_range_spec n : forall l i s,
  (N.to_nat i + n <= length l)%nat ->
  exists vals, collect_range l i n s = ROk vals s /\ length vals = n /\
    forall j, (j < n)%nat -> nth_error vals j = nth_error l (N.to_nat i + j).
Proof.
  induction n as [|n IH]; intros l i s Hle; cbn [collect_range].
  - exists []. repeat split. intros j Hj. lia.
  - rewrite vget_nth.
    destruct (nth_error l (N.to_nat i)) as [v|] eqn:En; [|apply nth_error_None in En; lia].
    destruct (IH l (i + 1) s) as (vals & E & HL & HN); [lia|].
    exists (v :: vals). rewrite (bind_ok _ _ _ _ _ E). repeat split; [cbn; now rewrite HL|].
    intros [|j] Hj; cbn [nth_error].
    + now rewrite Nat.add_0_r.
    + rewrite HN by lia. f_equal. lia.
Qed.

Definition odef (o : option N) (d : N) : N := match o with Some x => x | None => d end.

(* the R7RS reading of (vector-copy! to at from start end) on the contents: positions
   at .. at+(end-start) of [to] receive the OLD elements start .. end of [from] (also when
   both are the same vector); everything else is unchanged *)
Definition copied (txs fxs txs' : list aval) (at_ sv ev : N) : Prop :=
  length txs' = length txs /\
  forall j, nth_error txs' j =
            if ((N.to_nat at_ <=? j) && (j <? N.to_nat at_ + N.to_nat (ev - sv)))%nat
            then nth_error fxs (N.to_nat sv + (j - N.to_nat at_)) else nth_error txs j.

Lemma vmc_after_spec s start end_ tov atv fromv :
  values_are_refs s -> val_ok s tov -> val_ok s atv -> val_ok s fromv ->
  stack_top (stack s) (scap s) (sp s) [fromv; atv; tov] ->
  match absv s fromv, aindex (absv s atv), absv s tov with
  | ALoc (LVec fid), Some at_, ALoc (LVec tid) =>
      exists fxs txs, a_vec (abs s) fid = Some fxs /\ a_vec (abs s) tid = Some txs /\
        let sv := odef start 0 in
        let ev := odef end_ (N.of_nat (length fxs)) in
        if (at_ <=? N.of_nat (length txs)) && (sv <=? N.of_nat (length fxs)) &&
           (ev <=? N.of_nat (length fxs)) && (sv <=? ev) &&
           (at_ + (ev - sv) <=? N.of_nat (length txs))
        then exists s' txs', vmc_after start end_ s = ROk VVoid s' /\
               a_vec (abs s') tid = Some txs' /\ copied txs fxs txs' at_ sv ev /\
               (forall u, u <> tid -> a_vec (abs s') u = a_vec (abs s) u) /\
               (forall q, a_pair (abs s') q = a_pair (abs s) q) /\
               hp s' = hp s /\ values_are_refs s'
        else exists s', vmc_after start end_ s = RErr E_OTHER [] s'
  | _, _, _ => exists s', vmc_after start end_ s = RErr E_OTHER [] s'
  end.
Proof.
  intros W Hto Hat Hfrom H.
  set (s1 := with_sp s (sp s - 1)).
  set (s2 := with_sp s1 (sp s1 - 1)).
  set (s3 := with_sp s2 (sp s2 - 1)).
  pose proof (stack_top_tail _ _ _ _ _ H) as H1.
  pose proof (stack_top_tail _ _ _ _ _ H1) as H2.
  pose proof (pop_vector_spec s fromv _ Hfrom H) as Pf. fold s1 in Pf.
  pose proof (pop_index_spec s1 atv _ Hat H1) as Pa. change (absv s1 atv) with (absv s atv) in Pa. fold s2 in Pa.
  pose proof (pop_vector_spec s2 tov [] Hto H2) as Pt. change (absv s2 tov) with (absv s tov) in Pt. fold s3 in Pt.
  destruct (absv s fromv) as [w|l|] eqn:Ef;
    try (eexists; unfold vmc_after; rewrite (bind_err _ _ _ _ _ _ Pf); reflexivity).
  destruct l as [p|fid|sid|p];
    try (eexists; unfold vmc_after; rewrite (bind_err _ _ _ _ _ _ Pf); reflexivity).
  destruct (aindex (absv s atv)) as [at_|];
    [|eexists; unfold vmc_after; rewrite (bind_ok _ _ _ _ _ Pf), (bind_err _ _ _ _ _ _ Pa); reflexivity].
  destruct (absv s tov) as [w|l|] eqn:Et;
    try (eexists; unfold vmc_after; rewrite (bind_ok _ _ _ _ _ Pf), (bind_ok _ _ _ _ _ Pa), (bind_err _ _ _ _ _ _ Pt); reflexivity).
  destruct l as [p|tid|sid|p];
    try (eexists; unfold vmc_after; rewrite (bind_ok _ _ _ _ _ Pf), (bind_ok _ _ _ _ _ Pa), (bind_err _ _ _ _ _ _ Pt); reflexivity).
  unfold vmc_after. rewrite (bind_ok _ _ _ _ _ Pf), (bind_ok _ _ _ _ _ Pa), (bind_ok _ _ _ _ _ Pt).
  destruct (vec_registered s fromv fid W Ef) as (fl & Hfl & Hafl & Hffl).
  destruct (vec_registered s tov tid W Et) as (tl & Htl & Hatl & Hftl).
  exists (map (absv s) fl), (map (absv s) tl). refine (conj Hafl (conj Hatl _)).
  rewrite !map_length. cbv zeta.
  rewrite (bind_ok _ _ _ _ _ (vec_get_ok s3 tid tl Htl)).
  rewrite (bind_ok _ _ _ _ _ (vec_get_ok s3 fid fl Hfl)).
  set (sv := odef start 0). set (ev := odef end_ (N.of_nat (length fl))).
  unfold len.
  destruct (at_ <=? N.of_nat (length tl)) eqn:C1; cbn [andb].
  2: { apply N.leb_gt in C1. assert (E : (N.of_nat (length tl) <? at_) = true) by (now apply N.ltb_lt).
       rewrite E. eexists; reflexivity. }
  apply N.leb_le in C1. assert (E1 : (N.of_nat (length tl) <? at_) = false) by (now apply N.ltb_ge). rewrite E1.
  assert (Hb1 : match start with Some s0 => N.of_nat (length fl) <? s0 | None => false end = negb (sv <=? N.of_nat (length fl))).
  { unfold sv, odef. destruct start as [x|];
      [|now rewrite (proj2 (N.leb_le 0 _) (N.le_0_l _))].
    destruct (x <=? N.of_nat (length fl)) eqn:E; cbn [negb].
    - apply N.leb_le in E. now apply N.ltb_ge. - apply N.leb_gt in E. now apply N.ltb_lt. }
  assert (Hb2 : match end_ with Some e => N.of_nat (length fl) <? e | None => false end = negb (ev <=? N.of_nat (length fl))).
  { unfold ev, odef. destruct end_ as [x|].
    - destruct (x <=? N.of_nat (length fl)) eqn:E; cbn [negb].
      + apply N.leb_le in E. now apply N.ltb_ge. + apply N.leb_gt in E. now apply N.ltb_lt.
    - rewrite N.leb_refl. reflexivity. }
  rewrite Hb1, Hb2.
  destruct (sv <=? N.of_nat (length fl)) eqn:C2; cbn [negb andb]; [|eexists; reflexivity].
  destruct (ev <=? N.of_nat (length fl)) eqn:C3; cbn [negb andb]; [|eexists; reflexivity].
  apply N.leb_le in C2, C3.
  assert (Hb3 : match start, end_ with Some s0, Some e => e <? s0 | _, _ => false end = negb (sv <=? ev)).
  { unfold sv, ev, odef in *. destruct start as [x|], end_ as [y|]; cbn [negb].
    - destruct (x <=? y) eqn:E; cbn [negb]; [apply N.leb_le in E; now apply N.ltb_ge | apply N.leb_gt in E; now apply N.ltb_lt].
    - assert (E : (x <=? N.of_nat (length fl)) = true) by (now apply N.leb_le). now rewrite E.
    - now rewrite (proj2 (N.leb_le 0 _) (N.le_0_l _)).
    - now rewrite (proj2 (N.leb_le 0 _) (N.le_0_l _)). }
  rewrite Hb3.
  destruct (sv <=? ev) eqn:C4; cbn [negb andb]; [|eexists; reflexivity].
  apply N.leb_le in C4.
  fold sv ev.
  assert (Hsub : usub ev sv s3 = ROk (ev - sv) s3).
  { unfold usub. assert (E : (ev <? sv) = false) by (now apply N.ltb_ge). now rewrite E. }
  rewrite (bind_ok _ _ _ _ _ Hsub).
  destruct (at_ + (ev - sv) <=? N.of_nat (length tl)) eqn:C5.
  2: { apply N.leb_gt in C5.
       assert (E : (N.of_nat (length tl) <? at_ + (ev - sv)) = true) by (now apply N.ltb_lt).
       rewrite E, orb_true_r. eexists; reflexivity. }
  apply N.leb_le in C5.
  assert (E5 : (N.of_nat (length tl) <? ev - sv) = false) by (apply N.ltb_ge; lia).
  assert (E6 : (N.of_nat (length tl) <? at_ + (ev - sv)) = false) by (now apply N.ltb_ge).
  rewrite E5, E6. cbn [orb].
  destruct (collect_range_spec (N.to_nat (ev - sv)) fl sv s3) as (vals & Ec & HLv & HNv); [lia|].
  rewrite (bind_ok _ _ _ _ _ Ec).
  rewrite (bind_ok _ _ _ _ _ (vec_get_ok s3 tid tl Htl)).
  destruct (put_all_spec vals tl at_) as (HLp & HNp); [lia|].
  assert (Hfl' : Forall (val_ok s3) (put_all tl at_ vals)).
  { apply Forall_forall. intros y Hy. apply In_nth_error in Hy. destruct Hy as (j & Hj).
    rewrite HNp in Hj. rewrite Forall_forall in Hftl, Hffl.
    destruct ((N.to_nat at_ <=? j) && (j <? N.to_nat at_ + length vals))%nat eqn:Ec2.
    - apply nth_error_In in Hj.
      apply In_nth_error in Hj. destruct Hj as (j2 & Hj2).
      assert (j2 < length vals)%nat by (apply nth_error_Some; congruence).
      rewrite HNv in Hj2 by lia. apply nth_error_In in Hj2. now apply Hffl.
    - apply nth_error_In in Hj. now apply Hftl. }
  destruct (set_vec_fields s3 tid tl _ W Htl Hfl') as (W' & Hvv & Hvo & Hpo).
  eexists. exists (map (absv s) (put_all tl at_ vals)).
  refine (conj eq_refl (conj Hvv (conj _ (conj Hvo (conj Hpo (conj eq_refl W')))))).
  unfold copied. rewrite !map_length. split; [exact HLp|].
  intros j. rewrite !nth_error_map, HNp, HLv.
  destruct ((N.to_nat at_ <=? j) && (j <? N.to_nat at_ + N.to_nat (ev - sv)))%nat eqn:Ec2; [|reflexivity].
  apply andb_prop in Ec2. destruct Ec2 as (Ea & Eb). apply Nat.leb_le in Ea. apply Nat.ltb_lt in Eb.
  rewrite HNv by lia. reflexivity.
Qed.

(* the statement of vmc_after_spec as a predicate on the outcome [r] *)
Definition vmc_post (s : vm) (r : res vcell) (start end_ : option N) (tov atv fromv : vcell) : Prop :=
  match absv s fromv, aindex (absv s atv), absv s tov with
  | ALoc (LVec fid), Some at_, ALoc (LVec tid) =>
      exists fxs txs, a_vec (abs s) fid = Some fxs /\ a_vec (abs s) tid = Some txs /\
        let sv := odef start 0 in
        let ev := odef end_ (N.of_nat (length fxs)) in
        if (at_ <=? N.of_nat (length txs)) && (sv <=? N.of_nat (length fxs)) &&
           (ev <=? N.of_nat (length fxs)) && (sv <=? ev) &&
           (at_ + (ev - sv) <=? N.of_nat (length txs))
        then exists s' txs', r = ROk VVoid s' /\
               a_vec (abs s') tid = Some txs' /\ copied txs fxs txs' at_ sv ev /\
               (forall u, u <> tid -> a_vec (abs s') u = a_vec (abs s) u) /\
               (forall q, a_pair (abs s') q = a_pair (abs s) q) /\
               hp s' = hp s /\ values_are_refs s'
        else exists s', r = RErr E_OTHER [] s'
  | _, _, _ => exists s', r = RErr E_OTHER [] s'
  end.

Theorem vector_copy_mut_refines3 s tov atv fromv :
  values_are_refs s -> val_ok s tov -> val_ok s atv -> val_ok s fromv ->
  called_with s [tov; atv; fromv] ->
  vmc_post s (vector_mut_copy s) None None tov atv fromv.
Proof.
  intros W Hto Hat Hfrom H. unfold called_with in H. cbn [len length rev app N.of_nat Pos.of_succ_nat] in H.
  set (s1 := with_sp s (sp s - 1)).
  pose proof (stack_top_tail _ _ _ _ _ H) as H1.
  assert (E : vector_mut_copy s = vmc_after None None s1).
  { unfold vector_mut_copy. pop_argc_tac H s 3 3 (Some 5). reflexivity. }
  rewrite E. exact (vmc_after_spec s1 None None tov atv fromv W Hto Hat Hfrom H1).
Qed.

Theorem vector_copy_mut_refines4 s tov atv fromv startv :
  values_are_refs s -> val_ok s tov -> val_ok s atv -> val_ok s fromv -> val_ok s startv ->
  called_with s [tov; atv; fromv; startv] ->
  match aindex (absv s startv) with
  | Some b => vmc_post s (vector_mut_copy s) (Some b) None tov atv fromv
  | None => exists s', vector_mut_copy s = RErr E_OTHER [] s'
  end.
Proof.
  intros W Hto Hat Hfrom Hst H. unfold called_with in H. cbn [len length rev app N.of_nat Pos.of_succ_nat] in H.
  set (s1 := with_sp s (sp s - 1)).
  set (s2 := with_sp s1 (sp s1 - 1)).
  pose proof (stack_top_tail _ _ _ _ _ H) as H1.
  pose proof (stack_top_tail _ _ _ _ _ H1) as H2.
  pose proof (pop_index_spec s1 startv _ Hst H1) as Ps. change (absv s1 startv) with (absv s startv) in Ps. fold s2 in Ps.
  assert (E : vector_mut_copy s =
     bindM (dom b <- pop_index; ret (Some b)) (fun start => vmc_after start None) s1).
  { unfold vector_mut_copy. pop_argc_tac H s 4 3 (Some 5). reflexivity. }
  rewrite E.
  destruct (aindex (absv s startv)) as [b|].
  - unfold bindM at 1. unfold bindM at 1. rewrite Ps. unfold ret at 1.
    exact (vmc_after_spec s2 (Some b) None tov atv fromv W Hto Hat Hfrom H2).
  - exists s2. unfold bindM at 1. unfold bindM at 1. rewrite Ps. reflexivity.
Qed.

Theorem vector_copy_mut_refines5 s tov atv fromv startv endv :
  values_are_refs s -> val_ok s tov -> val_ok s atv -> val_ok s fromv ->
  val_ok s startv -> val_ok s endv ->
  called_with s [tov; atv; fromv; startv; endv] ->
  match aindex (absv s endv), aindex (absv s startv) with
  | Some e, Some b => vmc_post s (vector_mut_copy s) (Some b) (Some e) tov atv fromv
  | _, _ => exists s', vector_mut_copy s = RErr E_OTHER [] s'
  end.
Proof.
  intros W Hto Hat Hfrom Hst Hen H. unfold called_with in H. cbn [len length rev app N.of_nat Pos.of_succ_nat] in H.
  set (s1 := with_sp s (sp s - 1)).
  set (s2 := with_sp s1 (sp s1 - 1)).
  set (s3 := with_sp s2 (sp s2 - 1)).
  pose proof (stack_top_tail _ _ _ _ _ H) as H1.
  pose proof (stack_top_tail _ _ _ _ _ H1) as H2.
  pose proof (stack_top_tail _ _ _ _ _ H2) as H3.
  pose proof (pop_index_spec s1 endv _ Hen H1) as Pe. change (absv s1 endv) with (absv s endv) in Pe. fold s2 in Pe.
  pose proof (pop_index_spec s2 startv _ Hst H2) as Ps. change (absv s2 startv) with (absv s startv) in Ps. fold s3 in Ps.
  assert (E : vector_mut_copy s =
     bindM (dom e <- pop_index; ret (Some e))
       (fun end_ => dom start <- (dom b <- pop_index; ret (Some b)); vmc_after start end_) s1).
  { unfold vector_mut_copy. pop_argc_tac H s 5 3 (Some 5). reflexivity. }
  rewrite E.
  destruct (aindex (absv s endv)) as [e|].
  - destruct (aindex (absv s startv)) as [b|].
    + unfold bindM at 1. unfold bindM at 1. rewrite Pe. unfold ret at 1.
      unfold bindM at 1. unfold bindM at 1. rewrite Ps. unfold ret at 1.
      exact (vmc_after_spec s3 (Some b) (Some e) tov atv fromv W Hto Hat Hfrom H3).
    + exists s3. unfold bindM at 1. unfold bindM at 1. rewrite Pe. unfold ret at 1.
      unfold bindM at 1. unfold bindM at 1. rewrite Ps. reflexivity.
  - exists s2. unfold bindM at 1. unfold bindM at 1. rewrite Pe. reflexivity.
Qed.

(* ===================================================================== lists *)
(* the concrete chain of pair cells behind a finite list: [cells] are the (car, cdr)
   addresses of the successive pairs, [e] is the value that ends the chain *)
Inductive pchain (h : heap) : vcell -> list (N * N) -> vcell -> Prop :=
| pc_end : forall v c, heap_deref h v = Ok c -> is_pair c = false -> pchain h v [] v
| pc_cons : forall v a d cells e,
    heap_deref h v = Ok (VPair a d) -> pchain h (VPtr d) cells e ->
    pchain h v ((a, d) :: cells) e.

Lemma absv_pair_inv s v p :
  val_ok s v -> absv s v = ALoc (LPair p) ->
  v = VPtr p /\ exists a d, heap_deref (hp s) v = Ok (VPair a d) /\
    a_pair (abs s) p = Some (absv s (VPtr a), absv s (VPtr d)).
Proof.
  intros Hv Ha. destruct (deref_pair s v p Ha) as (-> & a & d & Hg).
  split; [reflexivity|]. exists a, d. split; [exact Hg|]. cbn [abs a_pair]. now rewrite Hg.
Qed.

Lemma absv_not_pair s v :
  val_ok s v -> (forall p, absv s v <> ALoc (LPair p)) ->
  exists c, heap_deref (hp s) v = Ok c /\ is_pair c = false.
Proof. intros. now apply deref_not_pair. Qed.

(* every finite abstract chain is a chain of cells *)
Lemma achain_pchain s :
  values_are_refs s ->
  forall av xs ae, achain (abs s) av xs ae ->
  forall v, val_ok s v -> absv s v = av ->
  exists cells e, pchain (hp s) v cells e /\
    map (fun ad => absv s (VPtr (fst ad))) cells = xs /\ absv s e = ae /\ val_ok s e.
Proof.
  intros W av xs ae Hc. induction Hc as [av Hnp | p x d xs e Hp Hc IH]; intros v Hv Ha.
  - subst av. destruct (absv_not_pair s v Hv Hnp) as (c & Hc & Hpc).
    exists [], v. repeat split; auto. econstructor; eauto.
  - destruct (absv_pair_inv s v p Hv Ha) as (-> & a & dd & Hg & Hp').
    rewrite Hp in Hp'. injection Hp' as -> ->.
    pose proof W as (_ & Hpairs & _). cbn [heap_deref] in Hg. destruct (Hpairs _ _ _ Hg) as (Ta & Td).
    destruct (IH (VPtr dd) Td eq_refl) as (cells & e' & Hpc & Hm & He & Hve).
    exists ((a, dd) :: cells), e'. repeat split; auto.
    + econstructor; eauto.
    + cbn [map fst]. now rewrite Hm.
Qed.

(* the value reached after k cdrs *)
Definition tail_at (v : vcell) (cells : list (N * N)) (k : nat) : vcell :=
  match k with O => v | S j => match nth_error cells j with Some ad => VPtr (snd ad) | None => v end end.

Lemma usub_ok a b s : b <= a -> usub a b s = ROk (a - b) s.
Proof. intros H. unfold usub. assert (E : (a <? b) = false) by (now apply N.ltb_ge). now rewrite E. Qed.

(* get_list_tail on a finite chain: the k-th tail when k <= length, an error otherwise;
   fuel proportional to the length of the list suffices, whatever the index *)
Lemma get_list_tail_loop_spec fuel s lst :
  forall v cells e, pchain (hp s) v cells e ->
  forall f i, (length cells + 1 < f)%nat ->
    if i <=? N.of_nat (length cells)
    then get_list_tail_loop fuel f lst v i s = ROk (tail_at v cells (N.to_nat i)) s
    else render_fail (get_list_tail_loop fuel f lst v i s).
Proof.
  intros v cells e Hc. induction Hc as [v c Hd Hp | v a d cells e Hd Hc IH]; intros f i Hf.
  - destruct f as [|f]; [cbn in Hf; lia|]. cbn [length N.of_nat].
    destruct (i =? 0) eqn:E0.
    + apply N.eqb_eq in E0. subst i. cbn [get_list_tail_loop N.eqb]. reflexivity.
    + assert (E1 : (i <=? 0) = false) by (apply N.leb_gt; apply N.eqb_neq in E0; lia). rewrite E1.
      cbn [get_list_tail_loop]. rewrite E0. apply N.eqb_neq in E0.
      rewrite (bind_ok _ _ _ _ _ (usub_ok i 1 s ltac:(lia))).
      unfold bindM at 1. rewrite hderef_eq, Hd. unfold lift.
      destruct ((negb (is_pair c) && negb (i - 1 =? 0)) || is_nil c) eqn:E2.
      * apply fail_cell_render_fail.
      * destruct c; try discriminate Hp; cbn; exact I.
  - destruct f as [|f]; [cbn in Hf; lia|].
    destruct (i =? 0) eqn:E0.
    + apply N.eqb_eq in E0. subst i. cbn [get_list_tail_loop N.eqb N.leb N.compare]. reflexivity.
    + assert (Hstep : get_list_tail_loop fuel (S f) lst v i s = get_list_tail_loop fuel f lst (VPtr d) (i - 1) s).
      { cbn [get_list_tail_loop]. rewrite E0. apply N.eqb_neq in E0.
        rewrite (bind_ok _ _ _ _ _ (usub_ok i 1 s ltac:(lia))).
        unfold bindM at 1. rewrite hderef_eq, Hd. unfold lift.
        cbn [is_pair is_nil negb andb orb as_cdr]. reflexivity. }
      rewrite Hstep. apply N.eqb_neq in E0.
      specialize (IH f (i - 1)). cbn [length] in Hf.
      assert (Hf' : (length cells + 1 < f)%nat) by lia. specialize (IH Hf').
      cbn [length].
      destruct (i <=? N.of_nat (S (length cells))) eqn:E1.
      * apply N.leb_le in E1.
        assert (E2 : (i - 1 <=? N.of_nat (length cells)) = true) by (apply N.leb_le; lia).
        rewrite E2 in IH. rewrite IH.
        replace (N.to_nat i) with (S (N.to_nat (i - 1))) by lia.
        cbn [tail_at]. destruct (N.to_nat (i - 1)) as [|j] eqn:Ej; cbn [nth_error snd tail_at]; [reflexivity|].
        destruct (nth_error cells j) eqn:En; [reflexivity|].
        exfalso. apply nth_error_None in En. lia.
      * apply N.leb_gt in E1.
        assert (E2 : (i - 1 <=? N.of_nat (length cells)) = false) by (apply N.leb_gt; lia).
        rewrite E2 in IH. exact IH.
Qed.

Lemma pchain_cells_ok s v cells e :
  values_are_refs s -> val_ok s v -> pchain (hp s) v cells e ->
  Forall (fun ad => target_ok s (fst ad) /\ target_ok s (snd ad)) cells /\ val_ok s e.
Proof.
  intros W Hv Hc. induction Hc as [v c Hd Hp | v a d cells e Hd Hc IH].
  - split; [constructor | exact Hv].
  - pose proof W as (_ & Hpairs & _).
    assert (Hg : exists p, heap_get (hp s) p = Ok (VPair a d)).
    { destruct v; cbn [val_ok] in Hv; try contradiction; cbn [heap_deref] in Hd; try discriminate. eauto. }
    destruct Hg as (p & Hg). destruct (Hpairs _ _ _ Hg) as (Ta & Td).
    destruct (IH Td) as (Hf & He). split; [constructor; auto | exact He].
Qed.

Lemma tail_at_cons v a d cells j :
  (j <= length cells)%nat -> tail_at v ((a, d) :: cells) (S j) = tail_at (VPtr d) cells j.
Proof.
  intros Hj. destruct j as [|j]; cbn [tail_at nth_error snd]; [reflexivity|].
  destruct (nth_error cells j) eqn:En; [reflexivity|]. apply nth_error_None in En. lia.
Qed.

Lemma pchain_atail s v cells e :
  values_are_refs s -> val_ok s v -> pchain (hp s) v cells e ->
  forall k, (k <= length cells)%nat ->
  atail (abs s) (absv s v) k (absv s (tail_at v cells k)) /\ val_ok s (tail_at v cells k).
Proof.
  intros W Hv Hc. induction Hc as [v c Hd Hp | v a d cells e Hd Hc IH]; intros k Hk.
  - cbn [length] in Hk. assert (k = O) by lia. subst k. split; [constructor | exact Hv].
  - destruct k as [|j]; [split; [constructor | exact Hv]|].
    cbn [length] in Hk. rewrite tail_at_cons by lia.
    pose proof W as (_ & Hpairs & _).
    destruct v; cbn [val_ok] in Hv; try contradiction; cbn [heap_deref] in Hd; try discriminate.
    destruct (Hpairs _ _ _ Hd) as (Ta & Td).
    destruct (IH Td j ltac:(lia)) as (Hat & Hvt). split; [|exact Hvt].
    assert (Ea : absv s (VPtr p) = ALoc (LPair p)) by (cbn [absv]; now rewrite Hd).
    rewrite Ea. econstructor; [|exact Hat]. cbn [abs a_pair]. now rewrite Hd.
Qed.

Definition is_listy (x : aval) : bool :=
  match x with AImm VNil | ALoc (LPair _) => true | _ => false end.

Lemma listy_deref s v c :
  val_ok s v -> heap_deref (hp s) v = Ok c ->
  negb (is_pair c) && negb (is_nil c) = negb (is_listy (absv s v)).
Proof.
  intros Hv Hc. destruct (val_deref s v Hv) as (c' & Hc' & Ha & Hd). rewrite Hc in Hc'. injection Hc' as <-.
  rewrite Ha. destruct v; cbn [val_ok] in Hv; try contradiction;
    try (cbn [heap_deref] in Hc; injection Hc as <-; reflexivity).
  destruct c; cbn [data_cell] in Hd; try contradiction; reflexivity.
Qed.

Theorem list_tail_refines fuel s v k xs e :
  values_are_refs s -> val_ok s v -> val_ok s k -> called_with s [v; k] ->
  achain (abs s) (absv s v) xs e -> (length xs + 1 < fuel)%nat ->
  match aindex (absv s k) with
  | Some i =>
      if (i <=? N.of_nat (length xs)) && is_listy (absv s v) then
        exists r s', list_tail fuel s = ROk r s' /\
          atail (abs s) (absv s v) (N.to_nat i) (absv s r) /\ val_ok s r /\
          hp s' = hp s /\ st s' = st s
      else render_fail (list_tail fuel s)
  | None => exists s', list_tail fuel s = RErr E_OTHER [] s'
  end.
Proof.
  intros W Hv Hk H Hch Hfuel. unfold called_with in H. cbn [len length rev app N.of_nat Pos.of_succ_nat] in H.
  set (s1 := with_sp s (sp s - 1)).
  set (s2 := with_sp s1 (sp s1 - 1)).
  set (s3 := with_sp s2 (sp s2 - 1)).
  pose proof (stack_top_tail _ _ _ _ _ H) as H1.
  pose proof (stack_top_tail _ _ _ _ _ H1) as H2.
  pose proof (pop_index_spec s1 k _ Hk H1) as Pk. change (absv s1 k) with (absv s k) in Pk. fold s2 in Pk.
  destruct (val_deref s v Hv) as (c & Hc & _ & _).
  assert (Hrun : forall i, aindex (absv s k) = Some i -> list_tail fuel s =
     if negb (is_listy (absv s v)) then fail_cell fuel c s3 else get_list_tail fuel v i s3).
  { intros i Ei. rewrite Ei in Pk. unfold list_tail. pop_argc_tac H s 2 2 (Some 2). fold s1.
    rewrite (bind_ok _ _ _ _ _ Pk).
    rewrite (bind_ok _ _ _ _ _ (pop_raw_top s2 v _ H2)). fold s3.
    unfold bindM at 1. rewrite hderef_eq. change (hp s3) with (hp s). rewrite Hc. unfold lift.
    rewrite (listy_deref s v c Hv Hc). destruct (negb (is_listy (absv s v))); reflexivity. }
  destruct (aindex (absv s k)) as [i|] eqn:Ei.
  2: { exists s2. unfold list_tail. pop_argc_tac H s 2 2 (Some 2). fold s1. now rewrite (bind_err _ _ _ _ _ _ Pk). }
  rewrite (Hrun i eq_refl).
  destruct (is_listy (absv s v)) eqn:El; cbn [negb].
  2: { rewrite andb_false_r. apply fail_cell_render_fail. }
  rewrite andb_true_r.
  destruct (achain_pchain s W _ _ _ Hch v Hv eq_refl) as (cells & e' & Hpc & Hm & He & Hve).
  assert (Hlen : length cells = length xs) by (rewrite <- Hm; now rewrite map_length).
  assert (Hpc3 : pchain (hp s3) v cells e') by exact Hpc.
  pose proof (get_list_tail_loop_spec fuel s3 v v cells e' Hpc3 fuel i ltac:(lia)) as L.
  rewrite Hlen in L. unfold get_list_tail.
  destruct (i <=? N.of_nat (length xs)) eqn:Ec; [|exact L].
  apply N.leb_le in Ec.
  destruct (pchain_atail s v cells e' W Hv Hpc (N.to_nat i) ltac:(lia)) as (Hat & Hvt).
  exists (tail_at v cells (N.to_nat i)), s3.
  exact (conj L (conj Hat (conj Hvt (conj eq_refl eq_refl)))).
Qed.

Lemma pchain_tail_pair h v cells e :
  pchain h v cells e ->
  forall j a d, nth_error cells j = Some (a, d) -> heap_deref h (tail_at v cells j) = Ok (VPair a d).
Proof.
  intros Hc. induction Hc as [v c Hd Hp | v a0 d0 cells e Hd Hc IH]; intros j a d En.
  - destruct j; discriminate.
  - destruct j as [|j]; cbn [nth_error] in En.
    + injection En as -> ->. exact Hd.
    + assert (Hj : (j < length cells)%nat) by (apply nth_error_Some; congruence).
      rewrite tail_at_cons by lia. now apply IH.
Qed.

Lemma pchain_tail_end h v cells e :
  pchain h v cells e ->
  exists c, heap_deref h (tail_at v cells (length cells)) = Ok c /\ is_pair c = false.
Proof.
  intros Hc. induction Hc as [v c Hd Hp | v a0 d0 cells e Hd Hc IH].
  - exists c. cbn [length tail_at]. auto.
  - cbn [length]. rewrite tail_at_cons by lia. exact IH.
Qed.

Theorem list_ref_refines fuel s v k xs e :
  values_are_refs s -> val_ok s v -> val_ok s k -> called_with s [v; k] ->
  achain (abs s) (absv s v) xs e -> (length xs + 1 < fuel)%nat ->
  match aindex (absv s k) with
  | Some i =>
      match nth_error xs (N.to_nat i) with
      | Some x => exists r s', list_ref fuel s = ROk r s' /\ absv s r = x /\ val_ok s r /\
                               hp s' = hp s /\ st s' = st s
      | None => render_fail (list_ref fuel s)              (* index out of range *)
      end
  | None => exists s', list_ref fuel s = RErr E_OTHER [] s'
  end.
Proof.
  intros W Hv Hk H Hch Hfuel. unfold called_with in H. cbn [len length rev app N.of_nat Pos.of_succ_nat] in H.
  set (s1 := with_sp s (sp s - 1)).
  set (s2 := with_sp s1 (sp s1 - 1)).
  set (s3 := with_sp s2 (sp s2 - 1)).
  pose proof (stack_top_tail _ _ _ _ _ H) as H1.
  pose proof (stack_top_tail _ _ _ _ _ H1) as H2.
  pose proof (pop_index_spec s1 k _ Hk H1) as Pk. change (absv s1 k) with (absv s k) in Pk. fold s2 in Pk.
  destruct (val_deref s v Hv) as (c & Hc & _ & _).
  destruct (aindex (absv s k)) as [i|] eqn:Ei.
  2: { exists s2. unfold list_ref. pop_argc_tac H s 2 2 (Some 2). fold s1. now rewrite (bind_err _ _ _ _ _ _ Pk). }
  assert (Hrun : list_ref fuel s =
     if negb (is_listy (absv s v)) then fail_cell fuel c s3
     else (dom tail <- get_list_tail fuel v i; dom tv <- hderef tail;
           match tv with VPair a _ => ret (VPtr a) | _ => fail_cell fuel c end) s3).
  { unfold list_ref. pop_argc_tac H s 2 2 (Some 2). fold s1.
    rewrite (bind_ok _ _ _ _ _ Pk).
    rewrite (bind_ok _ _ _ _ _ (pop_raw_top s2 v _ H2)). fold s3.
    unfold bindM at 1. rewrite hderef_eq. change (hp s3) with (hp s). rewrite Hc. unfold lift.
    rewrite (listy_deref s v c Hv Hc). destruct (negb (is_listy (absv s v))); reflexivity. }
  rewrite Hrun.
  destruct (achain_pchain s W _ _ _ Hch v Hv eq_refl) as (cells & e' & Hpc & Hm & He & Hve).
  assert (Hlen : length cells = length xs) by (rewrite <- Hm; now rewrite map_length).
  destruct (is_listy (absv s v)) eqn:El; cbn [negb].
  2: { assert (Hx : xs = []).
       { inversion Hch; subst; [reflexivity|]. rewrite <- H0 in El. discriminate. }
       rewrite Hx. destruct (N.to_nat i); cbn [nth_error]; apply fail_cell_render_fail. }
  assert (Hpc3 : pchain (hp s3) v cells e') by exact Hpc.
  pose proof (get_list_tail_loop_spec fuel s3 v v cells e' Hpc3 fuel i ltac:(lia)) as L.
  rewrite Hlen in L. unfold get_list_tail.
  destruct (nth_error xs (N.to_nat i)) as [x|] eqn:En.
  - assert (Hlt : (N.to_nat i < length xs)%nat) by (apply nth_error_Some; congruence).
    assert (Ec : (i <=? N.of_nat (length xs)) = true) by (apply N.leb_le; lia).
    rewrite Ec in L. rewrite (bind_ok _ _ _ _ _ L).
    (* the tail at i is a pair: its car is the i-th element *)
    rewrite <- Hm in En. rewrite nth_error_map in En.
    destruct (nth_error cells (N.to_nat i)) as [[a d]|] eqn:Enc; cbn [option_map fst] in En; [|discriminate].
    injection En as <-.
    pose proof (pchain_tail_pair _ _ _ _ Hpc _ _ _ Enc) as Hdt.
    unfold bindM at 1. rewrite hderef_eq. change (hp s3) with (hp s). rewrite Hdt. unfold lift, ret.
    destruct (pchain_cells_ok s v cells e' W Hv Hpc) as (Hf & _).
    rewrite Forall_forall in Hf. destruct (Hf (a, d) (nth_error_In _ _ Enc)) as (Ta & _).
    exists (VPtr a), s3. exact (conj eq_refl (conj eq_refl (conj Ta (conj eq_refl eq_refl)))).
  - assert (Hge : (length xs <= N.to_nat i)%nat) by (now apply nth_error_None).
    destruct (i <=? N.of_nat (length xs)) eqn:Ec.
    + (* i = length: the tail is the end of the chain, not a pair *)
      apply N.leb_le in Ec. rewrite (bind_ok _ _ _ _ _ L).
      assert (Ei2 : N.to_nat i = length cells) by lia.
      assert (Hdt : exists c2, heap_deref (hp s) (tail_at v cells (N.to_nat i)) = Ok c2 /\ is_pair c2 = false).
      { rewrite Ei2. eapply pchain_tail_end; eauto. }
      destruct Hdt as (c2 & Hd2 & Hp2).
      unfold bindM at 1. rewrite hderef_eq. change (hp s3) with (hp s). rewrite Hd2. unfold lift.
      destruct c2; try discriminate Hp2; apply fail_cell_render_fail.
    + unfold bindM at 1.
      destruct (get_list_tail_loop fuel fuel v v i s3); cbn in *; auto; contradiction.
Qed.

Lemma render_fail_bind {A B} (m : M A) (f : A -> M B) s : render_fail (m s) -> render_fail (bindM m f s).
Proof. unfold bindM. destruct (m s); cbn; auto; contradiction. Qed.

(* --------------------------------------------------------------- list->vector *)
Lemma pchain_end_deref h v cells e :
  pchain h v cells e -> exists ce, heap_deref h e = Ok ce /\ is_pair ce = false.
Proof. intros Hc. induction Hc; eauto. Qed.

Lemma l2v_loop_spec s v cells e :
  pchain (hp s) v cells e ->
  forall f acc c, heap_deref (hp s) v = Ok c -> (length cells < f)%nat ->
  exists ce, heap_deref (hp s) e = Ok ce /\ is_pair ce = false /\
    l2v_loop f c acc s = ROk (rev acc ++ map (fun ad => VPtr (fst ad)) cells, ce) s.
Proof.
  intros Hc. induction Hc as [v c0 Hd Hp | v a d cells e Hd Hc IH]; intros f acc c Hdc Hf.
  - rewrite Hd in Hdc. injection Hdc as <-. exists c0. repeat split; auto.
    destruct f as [|f]; [cbn in Hf; lia|]. cbn [l2v_loop]. rewrite Hp. cbn [map]. now rewrite app_nil_r.
  - rewrite Hd in Hdc. injection Hdc as <-.
    destruct f as [|f]; [cbn in Hf; lia|]. cbn [l2v_loop is_pair as_car as_cdr].
    assert (Hd' : exists c', heap_deref (hp s) (VPtr d) = Ok c') by (inversion Hc; eauto).
    destruct Hd' as (c' & Hd').
    cbn [length] in Hf. destruct (IH f (VPtr a :: acc) c' Hd' ltac:(lia)) as (ce & He & Hpe & Hl).
    exists ce. repeat split; auto.
    unfold bindM at 1, ret at 1. unfold bindM at 1, ret at 1.
    unfold bindM at 1. rewrite hderef_eq, Hd'. unfold lift. rewrite Hl.
    cbn [rev map fst]. now rewrite <- app_assoc.
Qed.

Lemma nil_deref s v c :
  val_ok s v -> heap_deref (hp s) v = Ok c -> (absv s v = AImm VNil <-> c = VNil).
Proof.
  intros Hv Hc. destruct (val_deref s v Hv) as (c' & Hc' & Ha & Hd). rewrite Hc in Hc'. injection Hc' as <-.
  rewrite Ha. destruct v; cbn [val_ok] in Hv; try contradiction;
    try (cbn [heap_deref] in Hc; injection Hc as <-; split; congruence).
  destruct c; cbn [data_cell cell_val] in *; try contradiction; split; congruence.
Qed.

Theorem list_to_vector_refines fuel s v xs e :
  values_are_refs s -> val_ok s v -> called_with s [v] ->
  achain (abs s) (absv s v) xs e -> (length xs < fuel)%nat ->
  (e = AImm VNil ->
     exists p vid s', call_builtin (list_to_vector fuel) s = ROk (VPtr p) s' /\
       absv s' (VPtr p) = ALoc (LVec vid) /\ a_vec (abs s) vid = None /\
       a_vec (abs s') vid = Some xs /\
       pres s s' /\ values_are_refs s' /\ ~ live (hp s) p /\ target_ok s' p) /\
  (e <> AImm VNil -> render_fail (call_builtin (list_to_vector fuel) s)).   (* improper list: fix F16 *)
Proof.
  intros W Hv H Hch Hfuel. unfold called_with in H. cbn [len length rev app N.of_nat Pos.of_succ_nat] in H.
  set (s1 := with_sp s (sp s - 1)).
  set (s2 := with_sp s1 (sp s1 - 1)).
  pose proof (stack_top_tail _ _ _ _ _ H) as H1.
  destruct (achain_pchain s W _ _ _ Hch v Hv eq_refl) as (cells & e' & Hpc & Hm & He & Hve).
  assert (Hlen : length cells = length xs) by (rewrite <- Hm; now rewrite map_length).
  destruct (val_deref s v Hv) as (c & Hc & _ & _).
  destruct (l2v_loop_spec s2 v cells e' Hpc fuel [] c Hc ltac:(lia)) as (ce & Hce & Hpe & Hl).
  cbn [rev app] in Hl. change (hp s2) with (hp s) in Hce.
  assert (Hnil : e = AImm VNil <-> ce = VNil) by (rewrite <- He; apply (nil_deref s e' ce Hve Hce)).
  assert (Hrun : list_to_vector fuel s =
    if negb (is_pair c) then (if is_nil c then vec_new [] s2 else fail_cell fuel c s2)
    else if negb (is_nil ce) then RErr E_OTHER [] s2
    else vec_new (map (fun ad => VPtr (fst ad)) cells) s2).
  { unfold list_to_vector. pop_argc_tac H s 1 1 (Some 1). fold s1.
    unfold bindM at 1. rewrite (pop_value_top s1 v [] H1). fold s2. unfold lift.
    change (hp s1) with (hp s). rewrite Hc.
    destruct (negb (is_pair c)); [destruct (is_nil c); reflexivity|].
    rewrite (bind_ok _ _ _ _ _ Hl). destruct (negb (is_nil ce)); reflexivity. }
  (* when the first cell is not a pair the chain is empty and ends in that cell *)
  assert (Hshort : is_pair c = false -> cells = [] /\ ce = c).
  { intros Hp. inversion Hpc; subst.
    - split; [reflexivity|]. rewrite Hce in Hc. now injection Hc.
    - rewrite Hc in H0. injection H0 as ->. discriminate. }
  split.
  - intros Ee. assert (Ece : ce = VNil) by (now apply Hnil).
    assert (Hels : Forall (val_ok s2) (map (fun ad => VPtr (fst ad)) cells)).
    { destruct (pchain_cells_ok s v cells e' W Hv Hpc) as (Hf & _).
      apply Forall_forall. intros y Hy. apply in_map_iff in Hy. destruct Hy as (ad & <- & Hin).
      rewrite Forall_forall in Hf. exact (proj1 (Hf ad Hin)). }
    destruct (wrap_new_vector s2 _ W Hels) as (p & vid & s' & E & Ep & Hnone & Hvv & R).
    exists p, vid, s'. refine (conj _ (conj Ep (conj Hnone (conj _ R)))).
    + unfold call_builtin. unfold bindM at 1. rewrite Hrun.
      destruct (is_pair c) eqn:Epc; cbn [negb].
      * subst ce. cbn [is_nil negb]. exact E.
      * destruct (Hshort eq_refl) as (-> & <-). subst ce. cbn [is_nil map]. cbn [map] in E. exact E.
    + rewrite Hvv, map_map. f_equal. exact Hm.
  - intros Ene. assert (Ece : ce <> VNil) by (intros E0; apply Ene; now apply Hnil).
    unfold call_builtin. apply render_fail_bind. rewrite Hrun.
    destruct (is_pair c) eqn:Epc; cbn [negb].
    + destruct ce; try contradiction; cbn [is_nil negb]; exact I.
    + destruct (Hshort eq_refl) as (-> & <-).
      destruct ce; try contradiction; cbn [is_nil]; apply fail_cell_render_fail.
Qed.

(* ------------------------------------------------- lists built by the builtins *)
Lemma a_pair_live s p x : heap_ok (hp s) -> a_pair (abs s) p = Some x -> live (hp s) p.
Proof.
  intros Hok Hp. cbn [abs a_pair] in Hp.
  destruct (heap_get (hp s) p) as [c| | |] eqn:E; try discriminate.
  destruct c; try discriminate. eapply nonblank_live; eauto. discriminate.
Qed.

Lemma achain_pres s s' av xs e :
  values_are_refs s -> pres s s' -> achain (abs s) av xs e -> achain (abs s') av xs e.
Proof.
  intros W P Hc. induction Hc as [v Hn | p x d xs e Hp Hc IH]; [now constructor|].
  econstructor; [|exact IH]. rewrite (pres_a_pair s s' p W P); [exact Hp|].
  eapply a_pair_live; eauto. exact (proj1 W).
Qed.

Lemma aprefix_pres s s' av ps xs e :
  values_are_refs s -> pres s s' -> aprefix (abs s) av ps xs e -> aprefix (abs s') av ps xs e.
Proof.
  intros W P Hc. induction Hc as [v | p x d ps xs e Hp Hc IH]; [now constructor|].
  econstructor; [|exact IH]. rewrite (pres_a_pair s s' p W P); [exact Hp|].
  eapply a_pair_live; eauto. exact (proj1 W).
Qed.

Lemma aprefix_snoc a v ps xs p x d :
  aprefix a v ps xs (ALoc (LPair p)) -> a_pair a p = Some (x, d) ->
  aprefix a v (ps ++ [p]) (xs ++ [x]) d.
Proof.
  intros Hc Hp. remember (ALoc (LPair p)) as e eqn:Ee.
  induction Hc as [v | q y d0 ps xs e Hq Hc IH]; subst.
  - cbn [app]. econstructor; [exact Hp | constructor].
  - cbn [app]. econstructor; [exact Hq | now apply IH].
Qed.

Lemma aprefix_achain a v ps xs e ys e' :
  aprefix a v ps xs e -> achain a e ys e' -> achain a v (xs ++ ys) e'.
Proof.
  intros Hc Hr. induction Hc as [v | q y d0 ps xs e Hq Hc IH]; [exact Hr|].
  cbn [app]. econstructor; [exact Hq | now apply IH].
Qed.

Definition fresh_in (s : vm) (ps : list N) : Prop := Forall (fun p => ~ live (hp s) p) ps.

Lemma fresh_in_pres s s' ps : pres s s' -> fresh_in s' ps -> fresh_in s ps.
Proof.
  intros (A1 & _) H. unfold fresh_in in *. eapply Forall_impl; [|exact H].
  intros p Hn Hl. apply Hn. now apply A1.
Qed.

(* one more pair in front of a value: the CONS step of every list-building loop *)
Lemma cons_cell s ca tp :
  values_are_refs s -> target_ok s ca -> target_ok s tp ->
  exists p s', hput (VPair ca tp) s = ROk (VPtr p) s' /\ pres s s' /\ values_are_refs s' /\
    target_ok s' p /\ ~ live (hp s) p /\
    absv s' (VPtr p) = ALoc (LPair p) /\
    a_pair (abs s') p = Some (absv s (VPtr ca), absv s (VPtr tp)) /\
    st s' = st s /\ stack s' = stack s /\ sp s' = sp s /\ scap s' = scap s /\
    heap_get (hp s') p = Ok (VPair ca tp).
Proof.
  intros W Ta Tt.
  assert (Hn : new_cell_ok s (VPair ca tp)) by (split; assumption).
  destruct (hput_new s _ W Hn) as (p & h' & E & F).
  destruct (fresh_wf s _ p h' W Hn F) as (W' & T').
  pose proof (fresh_pres _ _ _ _ F) as P.
  exists p, (with_heap s h').
  destruct F as (_ & Hnl & _ & _ & Hg & _).
  refine (conj E (conj P (conj W' (conj T' (conj Hnl (conj _ (conj _ (conj eq_refl (conj eq_refl (conj eq_refl (conj eq_refl Hg))))))))))).
  - cbn [absv with_heap hp]. now rewrite Hg.
  - cbn [abs a_pair with_heap hp]. rewrite Hg. f_equal. f_equal.
    + apply (pres_absv s (with_heap s h') (VPtr ca) P Ta).
    + apply (pres_absv s (with_heap s h') (VPtr tp) P Tt).
Qed.

Lemma v2l_loop_spec rl : forall s tp,
  values_are_refs s -> Forall (val_ok s) rl -> target_ok s tp ->
  exists r s' locs, v2l_loop rl (VPtr tp) s = ROk (VPtr r) s' /\ pres s s' /\ values_are_refs s' /\
    target_ok s' r /\
    aprefix (abs s') (absv s' (VPtr r)) locs (rev (map (absv s) rl)) (absv s (VPtr tp)) /\
    fresh_in s locs /\ st s' = st s.
Proof.
  induction rl as [|x r IH]; intros s tp W Hrl Tt; cbn [v2l_loop].
  - exists tp, s, []. refine (conj eq_refl (conj (pres_refl s) (conj W (conj Tt (conj _ (conj _ eq_refl)))))).
    + cbn [map rev]. constructor.
    + constructor.
  - inversion Hrl as [|? ? Hx Hr]; subst.
    destruct (hput_val s x W Hx) as (ca & s1 & E1 & P1 & W1 & T1 & A1 & _ & _ & _ & Hx1).
    assert (Tt1 : target_ok s1 tp) by (eapply pres_target_ok; eauto).
    destruct (cons_cell s1 ca tp W1 T1 Tt1) as (p & s2 & E2 & P2 & W2 & T2 & Hnl2 & Ap2 & Hp2 & Hx2 & _).
    assert (P12 : pres s s2) by (eapply pres_trans; eauto).
    assert (Hr2 : Forall (val_ok s2) r).
    { eapply Forall_impl; [|exact Hr]. intros y. now apply pres_val_ok. }
    destruct (IH s2 p W2 Hr2 T2) as (r' & s' & locs & E3 & P3 & W3 & T3 & Hpre & Hfr & Hx3).
    exists r', s', (locs ++ [p]).
    refine (conj _ (conj _ (conj W3 (conj T3 (conj _ (conj _ _)))))).
    + rewrite (bind_ok _ _ _ _ _ E1). cbn [as_ptr]. unfold bindM at 1, ret at 1. unfold bindM at 1, ret at 1.
      rewrite (bind_ok _ _ _ _ _ E2). exact E3.
    + eapply pres_trans; eauto.
    + cbn [map rev]. rewrite Ap2 in Hpre.
      assert (Em : map (absv s2) r = map (absv s) r).
      { apply map_ext_in. intros y Hy. apply (pres_absv s s2 y P12). rewrite Forall_forall in Hr. auto. }
      rewrite Em in Hpre.
      eapply aprefix_snoc; [exact Hpre|].
      rewrite (pres_a_pair s2 s' p W2 P3) by (exact (proj1 T2)).
      rewrite Hp2. f_equal. f_equal; [exact A1|].
      apply (pres_absv s s1 (VPtr tp) P1 Tt).
    + unfold fresh_in. apply Forall_app. split.
      * apply (fresh_in_pres s s2 locs P12 Hfr).
      * constructor; [|constructor]. intros Hl. apply Hnl2. destruct P1 as (Q1 & _). auto.
    + congruence.
Qed.

Theorem vector_to_list_refines s v :
  values_are_refs s -> val_ok s v -> called_with s [v] ->
  match absv s v with
  | ALoc (LVec vid) =>
      exists xs r s' locs, a_vec (abs s) vid = Some xs /\
        call_builtin vector_to_list s = ROk r s' /\
        aprefix (abs s') (absv s' r) locs xs (AImm VNil) /\ fresh_in s locs /\
        pres s s' /\ values_are_refs s' /\ val_ok s' r
  | _ => exists s', call_builtin vector_to_list s = RErr E_OTHER [] s'
  end.
Proof.
  intros W Hv H. unfold called_with in H. cbn [len length rev app N.of_nat Pos.of_succ_nat] in H.
  set (s1 := with_sp s (sp s - 1)).
  set (s2 := with_sp s1 (sp s1 - 1)).
  pose proof (stack_top_tail _ _ _ _ _ H) as H1.
  pose proof (pop_vector_spec s1 v [] Hv H1) as Pv. change (absv s1 v) with (absv s v) in Pv. fold s2 in Pv.
  destruct (absv s v) as [w|l|] eqn:Ea.
  1,3: exists s2; assert (Herr : vector_to_list s = RErr E_OTHER [] s2)
         by (unfold vector_to_list; pop_argc_tac H s 1 1 (Some 1); fold s1;
             rewrite (bind_err _ _ _ _ _ _ Pv); reflexivity);
       unfold call_builtin; rewrite (bind_err _ _ _ _ _ _ Herr); reflexivity.
  destruct l as [p|vid|sid|p].
  1,3,4: exists s2; assert (Herr : vector_to_list s = RErr E_OTHER [] s2)
         by (unfold vector_to_list; pop_argc_tac H s 1 1 (Some 1); fold s1;
             rewrite (bind_err _ _ _ _ _ _ Pv); reflexivity);
       unfold call_builtin; rewrite (bind_err _ _ _ _ _ _ Herr); reflexivity.
  destruct (vec_registered s v vid W Ea) as (l & Hl & Hal & Hfl).
  (* the fresh cell holding () *)
  assert (Hnil : new_cell_ok s2 VNil) by exact I.
  destruct (hput_new s2 VNil W Hnil) as (p0 & h0 & E0 & F0).
  destruct (fresh_wf s2 VNil p0 h0 W Hnil F0) as (W0 & T0).
  pose proof (fresh_pres _ _ _ _ F0) as P0.
  set (s3 := with_heap s2 h0) in *.
  assert (Hrl : Forall (val_ok s3) (rev l)).
  { apply Forall_rev. eapply Forall_impl; [|exact Hfl]. intros y. apply (pres_val_ok s s3 y P0). }
  destruct (v2l_loop_spec (rev l) s3 p0 W0 Hrl T0) as (r & s' & locs & E3 & P3 & W3 & T3 & Hpre & Hfr & Hx3).
  exists (map (absv s) l), (VPtr r), s', locs.
  refine (conj Hal (conj _ (conj _ (conj _ (conj _ (conj W3 T3)))))).
  - assert (Hok : vector_to_list s = ROk (VPtr r) s').
    { unfold vector_to_list. pop_argc_tac H s 1 1 (Some 1). fold s1.
      rewrite (bind_ok _ _ _ _ _ Pv).
      rewrite (bind_ok _ _ _ _ _ (vec_get_ok s2 vid l Hl)).
      rewrite (bind_ok _ _ _ _ _ E0). fold s3. exact E3. }
    unfold call_builtin. rewrite (bind_ok _ _ _ _ _ Hok). reflexivity.
  - rewrite map_rev, rev_involutive in Hpre.
    assert (Em : map (absv s3) l = map (absv s) l).
    { apply map_ext_in. intros y Hy. apply (pres_absv s s3 y P0). rewrite Forall_forall in Hfl. auto. }
    rewrite Em in Hpre.
    assert (En : absv s3 (VPtr p0) = AImm VNil).
    { destruct F0 as (_ & _ & _ & _ & Hg & _). cbn [absv s3 with_heap hp]. now rewrite Hg. }
    now rewrite En in Hpre.
  - apply (fresh_in_pres s s3 locs P0 Hfr).
  - eapply pres_trans; eauto.
Qed.

Lemma hderef_ok s v c : heap_deref (hp s) v = Ok c -> hderef v s = ROk c s.
Proof. intros H. rewrite hderef_eq, H. reflexivity. Qed.

(* -------------------------------------------------------------------- reverse *)
Lemma pchain_pres s s' v cells e :
  values_are_refs s -> pres s s' -> val_ok s v ->
  pchain (hp s) v cells e -> pchain (hp s') v cells e.
Proof.
  intros W P Hv Hc. induction Hc as [v c Hd Hp | v a d cells e Hd Hc IH].
  - econstructor; [|exact Hp]. now rewrite (pres_deref s s' v P Hv).
  - econstructor.
    + now rewrite (pres_deref s s' v P Hv).
    + apply IH. pose proof W as (_ & Hpairs & _).
      destruct v; cbn [val_ok] in Hv; try contradiction; cbn [heap_deref] in Hd; try discriminate.
      now destruct (Hpairs _ _ _ Hd).
Qed.

Definition car_vals (s : vm) (cells : list (N * N)) : list aval :=
  map (fun ad => absv s (VPtr (fst ad))) cells.

Lemma car_vals_pres s s' cells :
  pres s s' -> Forall (fun ad => target_ok s (fst ad) /\ target_ok s (snd ad)) cells ->
  car_vals s' cells = car_vals s cells.
Proof.
  intros P Hf. unfold car_vals. apply map_ext_in. intros ad Hin.
  rewrite Forall_forall in Hf. apply (pres_absv s s' (VPtr (fst ad)) P). exact (proj1 (Hf ad Hin)).
Qed.

Lemma reverse_loop_spec fuel lst cells : forall s a d e tp f,
  values_are_refs s -> pchain (hp s) (VPtr d) cells e ->
  target_ok s a -> target_ok s d -> target_ok s tp -> (length cells + 1 < f)%nat ->
  forall ce, heap_deref (hp s) e = Ok ce ->
  if is_nil ce then
    exists r s' locs, reverse_loop fuel f lst (VPair a d) (VPtr tp) s = ROk (VPtr r) s' /\
      pres s s' /\ values_are_refs s' /\ target_ok s' r /\
      aprefix (abs s') (absv s' (VPtr r)) locs (rev (car_vals s cells) ++ [absv s (VPtr a)]) (absv s (VPtr tp)) /\
      fresh_in s locs /\ st s' = st s
  else render_fail (reverse_loop fuel f lst (VPair a d) (VPtr tp) s).
Proof.
  induction cells as [|[a2 d2] cells IH]; intros s a d e tp f W Hpc Ta Td Tt Hf ce Hce.
  - destruct f as [|f]; [cbn in Hf; lia|].
    destruct (cons_cell s a tp W Ta Tt) as (p & s1 & E1 & P1 & W1 & T1 & Hnl1 & Ap1 & Hp1 & Hx1 & _).
    inversion Hpc as [v0 c0 Hd0 Hp0 |]; subst.
    assert (Hd1 : heap_deref (hp s1) (VPtr d) = Ok c0) by (rewrite (pres_deref s s1 (VPtr d) P1 Td); exact Hd0).
    rewrite Hd0 in Hce. injection Hce as <-.
    assert (Hstep : reverse_loop fuel (S f) lst (VPair a d) (VPtr tp) s =
                    if is_nil c0 then ROk (VPtr p) s1 else fail_cell fuel lst s1).
    { cbn [reverse_loop as_car as_cdr as_ptr bindM ret]. rewrite (bind_ok _ _ _ _ _ E1).
      cbn [bindM ret]. rewrite (bind_ok _ _ _ _ _ (hderef_ok s1 _ _ Hd1)).
      rewrite Hp0. destruct (is_nil c0); reflexivity. }
    rewrite Hstep. destruct (is_nil c0); [|apply fail_cell_render_fail].
    exists p, s1, [p]. refine (conj eq_refl (conj P1 (conj W1 (conj T1 (conj _ (conj _ Hx1)))))).
    + cbn [car_vals map rev app]. rewrite Ap1. econstructor; [exact Hp1 | constructor].
    + constructor; [exact Hnl1 | constructor].
  - destruct f as [|f]; [cbn in Hf; lia|].
    destruct (cons_cell s a tp W Ta Tt) as (p & s1 & E1 & P1 & W1 & T1 & Hnl1 & Ap1 & Hp1 & Hx1 & _).
    inversion Hpc as [| v0 a0 d0 cells0 e0 Hd0 Hc0]; subst.
    assert (Hd1 : heap_deref (hp s1) (VPtr d) = Ok (VPair a2 d2)) by (rewrite (pres_deref s s1 (VPtr d) P1 Td); exact Hd0).
    pose proof W as (_ & Hpairs & _). cbn [heap_deref] in Hd0. destruct (Hpairs _ _ _ Hd0) as (Ta2 & Td2).
    assert (Hstep : reverse_loop fuel (S f) lst (VPair a d) (VPtr tp) s =
                    reverse_loop fuel f lst (VPair a2 d2) (VPtr p) s1).
    { cbn [reverse_loop as_car as_cdr as_ptr bindM ret]. rewrite (bind_ok _ _ _ _ _ E1).
      cbn [bindM ret]. rewrite (bind_ok _ _ _ _ _ (hderef_ok s1 _ _ Hd1)). reflexivity. }
    rewrite Hstep.
    assert (Hpc1 : pchain (hp s1) (VPtr d2) cells e) by exact (pchain_pres s s1 (VPtr d2) cells e W P1 Td2 Hc0).
    destruct (pchain_cells_ok s (VPtr d2) cells e W Td2 Hc0) as (Hcells & Hve).
    assert (Hce1 : heap_deref (hp s1) e = Ok ce) by (rewrite (pres_deref s s1 e P1 Hve); exact Hce).
    cbn [length] in Hf.
    pose proof (IH s1 a2 d2 e p f W1 Hpc1 (pres_target_ok _ _ _ P1 Ta2) (pres_target_ok _ _ _ P1 Td2) T1
                  ltac:(lia) ce Hce1) as R.
    destruct (is_nil ce); [|exact R].
    destruct R as (r & s' & locs & E3 & P3 & W3 & T3 & Hpre & Hfr & Hx3).
    exists r, s', (locs ++ [p]).
    refine (conj E3 (conj _ (conj W3 (conj T3 (conj _ (conj _ _)))))).
    + eapply pres_trans; eauto.
    + rewrite Ap1 in Hpre. rewrite (car_vals_pres s s1 cells P1 Hcells) in Hpre.
      rewrite (pres_absv s s1 (VPtr a2) P1 Ta2) in Hpre.
      cbn [car_vals map rev fst]. fold (car_vals s cells).
      eapply aprefix_snoc; [exact Hpre|].
      rewrite (pres_a_pair s1 s' p W1 P3) by (exact (proj1 T1)). exact Hp1.
    + unfold fresh_in. apply Forall_app. split.
      * apply (fresh_in_pres s s1 locs P1 Hfr).
      * constructor; [exact Hnl1 | constructor].
    + congruence.
Qed.

Theorem reverse_refines fuel s v xs e :
  values_are_refs s -> val_ok s v -> called_with s [v] ->
  achain (abs s) (absv s v) xs e -> (length xs + 1 < fuel)%nat ->
  (e = AImm VNil ->
     exists r s' locs, call_builtin (reverse fuel) s = ROk r s' /\
       aprefix (abs s') (absv s' r) locs (rev xs) (AImm VNil) /\ fresh_in s locs /\
       pres s s' /\ values_are_refs s' /\ val_ok s' r) /\
  (e <> AImm VNil -> render_fail (call_builtin (reverse fuel) s)).
Proof.
  intros W Hv H Hch Hfuel. unfold called_with in H. cbn [len length rev app N.of_nat Pos.of_succ_nat] in H.
  set (s1 := with_sp s (sp s - 1)).
  set (s2 := with_sp s1 (sp s1 - 1)).
  pose proof (stack_top_tail _ _ _ _ _ H) as H1.
  destruct (achain_pchain s W _ _ _ Hch v Hv eq_refl) as (cells & e' & Hpc & Hm & He & Hve).
  assert (Hlen : length cells = length xs) by (rewrite <- Hm; now rewrite map_length).
  destruct (val_deref s v Hv) as (c & Hc & _ & _).
  destruct (pchain_end_deref _ _ _ _ Hpc) as (ce & Hce & Hpe).
  assert (Hnil : e = AImm VNil <-> ce = VNil) by (rewrite <- He; apply (nil_deref s e' ce Hve Hce)).
  assert (Hrun : reverse fuel s =
    if negb (is_pair c) then (if is_nil c then ROk c s2 else fail_cell fuel c s2)
    else (dom tail <- hput VNil; reverse_loop fuel fuel c c tail) s2).
  { unfold reverse. pop_argc_tac H s 1 1 (Some 1). fold s1.
    unfold bindM at 1. rewrite (pop_value_top s1 v [] H1). fold s2. unfold lift.
    change (hp s1) with (hp s). rewrite Hc.
    destruct (negb (is_pair c)); [destruct (is_nil c)|]; reflexivity. }
  inversion Hpc as [v0 c0 Hd0 Hp0 | v0 a d cells0 e0 Hd0 Hc0]; subst.
  - (* not a pair: the chain is empty *)
    rewrite Hc in Hd0. injection Hd0 as <-. rewrite Hce in Hc. injection Hc as ->.
    rewrite Hp0 in Hrun. cbn [negb] in Hrun.
    cbn [map rev]. split.
    + intros Ee. assert (c = VNil) by (now apply Hnil). subst c. cbn [is_nil] in Hrun.
      exists VNil, s2, []. refine (conj _ (conj _ (conj _ (conj (pres_refl s) (conj W I))))).
      * unfold call_builtin. rewrite (bind_ok _ _ _ _ _ Hrun). reflexivity.
      * cbn [rev absv]. constructor.
      * constructor.
    + intros Ene. assert (Hn : c <> VNil) by (intros E0; apply Ene; now apply Hnil).
      unfold call_builtin. apply render_fail_bind. rewrite Hrun.
      destruct c; try contradiction; cbn [is_nil]; apply fail_cell_render_fail.
  - rewrite Hc in Hd0. injection Hd0 as ->. cbn [is_pair negb] in Hrun.
    pose proof W as (_ & Hpairs & _).
    assert (Hg : exists p, heap_get (hp s) p = Ok (VPair a d)).
    { destruct v; cbn [val_ok] in Hv; try contradiction; cbn [heap_deref] in Hc; try discriminate. eauto. }
    destruct Hg as (pv & Hg). destruct (Hpairs _ _ _ Hg) as (Ta & Td).
    assert (Hnilc : new_cell_ok s2 VNil) by exact I.
    destruct (hput_new s2 VNil W Hnilc) as (p0 & h0 & E0 & F0).
    destruct (fresh_wf s2 VNil p0 h0 W Hnilc F0) as (W0 & T0).
    pose proof (fresh_pres _ _ _ _ F0) as P0.
    set (s3 := with_heap s2 h0) in *.
    assert (Hpc3 : pchain (hp s3) (VPtr d) cells0 e') by exact (pchain_pres s s3 (VPtr d) cells0 e' W P0 Td Hc0).
    destruct (pchain_cells_ok s (VPtr d) cells0 e' W Td Hc0) as (Hcells & _).
    assert (Hce3 : heap_deref (hp s3) e' = Ok ce) by (rewrite (pres_deref s s3 e' P0 Hve); exact Hce).
    cbn [length] in Hlen.
    pose proof (reverse_loop_spec fuel (VPair a d) cells0 s3 a d e' p0 fuel W0 Hpc3
                  (pres_target_ok _ _ _ P0 Ta) (pres_target_ok _ _ _ P0 Td) T0 ltac:(lia) ce Hce3) as R.
    rewrite (bind_ok _ _ _ _ _ E0) in Hrun. fold s3 in Hrun.
    split.
    + intros Ee. assert (ce = VNil) by (now apply Hnil). subst ce. cbn [is_nil] in R.
      destruct R as (r & s' & locs & E3 & P3 & W3 & T3 & Hpre & Hfr & Hx3).
      exists (VPtr r), s', locs. refine (conj _ (conj _ (conj _ (conj _ (conj W3 T3))))).
      * unfold call_builtin. rewrite (bind_ok _ _ _ _ _ (eq_trans Hrun E3)). reflexivity.
      * assert (En : absv s3 (VPtr p0) = AImm VNil).
        { destruct F0 as (_ & _ & _ & _ & Hg0 & _). cbn [absv s3 with_heap hp]. now rewrite Hg0. }
        rewrite En in Hpre.
        rewrite (car_vals_pres s s3 cells0 P0 Hcells) in Hpre.
        rewrite (pres_absv s s3 (VPtr a) P0 Ta) in Hpre.
        cbn [map rev fst]. exact Hpre.
      * apply (fresh_in_pres s s3 locs P0 Hfr).
      * eapply pres_trans; eauto.
    + intros Ene. assert (Hn : ce <> VNil) by (intros E0'; apply Ene; now apply Hnil).
      unfold call_builtin. apply render_fail_bind. rewrite Hrun.
      destruct ce; try contradiction; exact R.
Qed.

(* ================================================================= predicates *)
Lemma type_pred_spec p s v :
  val_ok s v -> called_with s [v] ->
  exists c s', heap_deref (hp s) v = Ok c /\ type_pred p s = ROk (VBool (p c)) s' /\
               hp s' = hp s /\ st s' = st s /\
               absv s v = match v with VPtr q => cell_val q c | _ => AImm c end /\ data_cell c.
Proof.
  intros Hv H. unfold called_with in H. cbn [len length rev app N.of_nat Pos.of_succ_nat] in H.
  pose proof (stack_top_tail _ _ _ _ _ H) as H1.
  destruct (val_deref s v Hv) as (c & Hc & Ha & Hd).
  exists c, (with_sp (with_sp s (sp s - 1)) (sp (with_sp s (sp s - 1)) - 1)).
  refine (conj Hc (conj _ (conj eq_refl (conj eq_refl (conj Ha Hd))))).
  unfold type_pred. pop_argc_tac H s 1 1 (Some 1).
  unfold bindM at 1. rewrite (pop_value_top (with_sp s (sp s - 1)) v [] H1). unfold lift.
  change (hp (with_sp s (sp s - 1))) with (hp s). rewrite Hc. reflexivity.
Qed.

(* the answer of a type predicate is a function of the abstract value *)
Definition akind_pair (x : aval) := match x with ALoc (LPair _) => true | _ => false end.
Definition akind_null (x : aval) := match x with AImm VNil => true | _ => false end.
Definition akind_vector (x : aval) := match x with ALoc (LVec _) => true | _ => false end.
Definition akind_string (x : aval) := match x with ALoc (LStr _) => true | _ => false end.
Definition akind_symbol (x : aval) := match x with AImm (VSym _) => true | _ => false end.
Definition akind_boolean (x : aval) := match x with AImm (VBool _) => true | _ => false end.
Definition akind_char (x : aval) := match x with AImm (VChar _) => true | _ => false end.
Definition akind_number (x : aval) := match x with AImm (VNum _) => true | _ => false end.

Ltac pred_tac p :=
  intros s v Hv H;
  destruct (type_pred_spec p s v Hv H) as (c & s' & Hc & E & E1 & E2 & Ha & Hd);
  exists s'; refine (conj (eq_trans E _) (conj E1 E2)); rewrite Ha; do 2 f_equal;
  destruct v; cbn [val_ok] in Hv; try contradiction;
  try (cbn [heap_deref] in Hc; injection Hc as <-; reflexivity);
  destruct c; cbn [data_cell] in Hd; try contradiction; reflexivity.

Theorem pair_p_refines : forall s v, val_ok s v -> called_with s [v] ->
  exists s', is_pair_b s = ROk (VBool (akind_pair (absv s v))) s' /\ hp s' = hp s /\ st s' = st s.
Proof. pred_tac is_pair. Qed.
Theorem null_p_refines : forall s v, val_ok s v -> called_with s [v] ->
  exists s', is_null s = ROk (VBool (akind_null (absv s v))) s' /\ hp s' = hp s /\ st s' = st s.
Proof. pred_tac is_nil. Qed.
Theorem vector_p_refines : forall s v, val_ok s v -> called_with s [v] ->
  exists s', is_vector s = ROk (VBool (akind_vector (absv s v))) s' /\ hp s' = hp s /\ st s' = st s.
Proof. pred_tac (fun v => match v with VVec _ => true | _ => false end). Qed.
Theorem string_p_refines : forall s v, val_ok s v -> called_with s [v] ->
  exists s', is_string s = ROk (VBool (akind_string (absv s v))) s' /\ hp s' = hp s /\ st s' = st s.
Proof. pred_tac (fun v => match v with VStr _ => true | _ => false end). Qed.
Theorem symbol_p_refines : forall s v, val_ok s v -> called_with s [v] ->
  exists s', is_symbol s = ROk (VBool (akind_symbol (absv s v))) s' /\ hp s' = hp s /\ st s' = st s.
Proof. pred_tac (fun v => match v with VSym _ => true | _ => false end). Qed.
Theorem boolean_p_refines : forall s v, val_ok s v -> called_with s [v] ->
  exists s', is_boolean s = ROk (VBool (akind_boolean (absv s v))) s' /\ hp s' = hp s /\ st s' = st s.
Proof. pred_tac (fun v => match v with VBool _ => true | _ => false end). Qed.
Theorem char_p_refines : forall s v, val_ok s v -> called_with s [v] ->
  exists s', is_char s = ROk (VBool (akind_char (absv s v))) s' /\ hp s' = hp s /\ st s' = st s.
Proof. pred_tac (fun v => match v with VChar _ => true | _ => false end). Qed.
Theorem number_p_refines : forall s v, val_ok s v -> called_with s [v] ->
  exists s', is_number s = ROk (VBool (akind_number (absv s v))) s' /\ hp s' = hp s /\ st s' = st s.
Proof. pred_tac (fun v => match v with VNum _ => true | _ => false end). Qed.

(* retrieving from a vector whose contents are known *)
Lemma vec_then_ref s' p vid xs :
  values_are_refs s' -> absv s' (VPtr p) = ALoc (LVec vid) -> a_vec (abs s') vid = Some xs ->
  target_ok s' p ->
  forall t k' i x, hp t = hp s' -> st t = st s' ->
    val_ok s' k' -> aindex (absv s' k') = Some i -> nth_error xs (N.to_nat i) = Some x ->
    called_with t [VPtr p; k'] ->
    exists r t', vector_ref t = ROk r t' /\ absv t' r = x.
Proof.
  intros W' Ep Hvv T' t k' i x E1 E2 Hk' Ek' Hn Ht.
  assert (Wt : values_are_refs t) by (eapply wf_hp_st; eauto).
  assert (Tv : val_ok s' (VPtr p)) by exact T'.
  pose proof (vector_ref_refines t (VPtr p) k' Wt (val_ok_hp s' t _ E1 Tv) (val_ok_hp s' t _ E1 Hk') Ht) as C.
  rewrite (absv_hp s' t _ E1), Ep in C.
  destruct C as (ys & Hys & C).
  rewrite (absv_hp s' t _ E1), Ek' in C.
  rewrite (abs_vec_hp_st s' t vid E1 E2), Hvv in Hys. injection Hys as <-.
  rewrite Hn in C. destruct C as (r & t' & Ec & Hr & _). exists r, t'. split; [exact Ec | exact Hr].
Qed.

Theorem make_vector_then_ref s k fill n :
  values_are_refs s -> val_ok s k -> val_ok s fill -> called_with s [k; fill] ->
  aindex (absv s k) = Some n -> n <= MAX_VEC ->
  exists p s', call_builtin make_vector s = ROk (VPtr p) s' /\ values_are_refs s' /\
    forall t k' i, hp t = hp s' -> st t = st s' ->
      val_ok s k' -> aindex (absv s k') = Some i -> i < n ->
      called_with t [VPtr p; k'] ->
      exists r t', vector_ref t = ROk r t' /\ absv t' r = absv s fill.
Proof.
  intros W Hk Hf H En Hle.
  pose proof (make_vector_refines s k fill W Hk Hf H) as R. rewrite En in R.
  destruct (R Hle) as (p & vid & s' & E & Ep & Hnone & Hvv & P & W' & Hnl & T').
  exists p, s'. refine (conj E (conj W' _)). intros t k' i E1 E2 Hk' Ek' Hlt Ht.
  eapply (vec_then_ref s' p vid _ W' Ep Hvv T' t k' i); eauto.
  - eapply pres_val_ok; eauto.
  - rewrite (pres_absv s s' k' P Hk'). exact Ek'.
  - apply nth_error_repeat. lia.
Qed.

Theorem list_to_vector_then_ref fuel s v xs :
  values_are_refs s -> val_ok s v -> called_with s [v] ->
  achain (abs s) (absv s v) xs (AImm VNil) -> (length xs < fuel)%nat ->
  exists p s', call_builtin (list_to_vector fuel) s = ROk (VPtr p) s' /\ values_are_refs s' /\
    forall t k' i x, hp t = hp s' -> st t = st s' ->
      val_ok s k' -> aindex (absv s k') = Some i -> nth_error xs (N.to_nat i) = Some x ->
      called_with t [VPtr p; k'] ->
      exists r t', vector_ref t = ROk r t' /\ absv t' r = x.
Proof.
  intros W Hv H Hch Hfuel.
  destruct (list_to_vector_refines fuel s v xs _ W Hv H Hch Hfuel) as (R & _).
  destruct (R eq_refl) as (p & vid & s' & E & Ep & Hnone & Hvv & P & W' & Hnl & T').
  exists p, s'. refine (conj E (conj W' _)). intros t k' i x E1 E2 Hk' Ek' Hn Ht.
  eapply (vec_then_ref s' p vid xs W' Ep Hvv T' t k' i); eauto.
  - eapply pres_val_ok; eauto.
  - rewrite (pres_absv s s' k' P Hk'). exact Ek'.
Qed.

(* ==================================================================== equal? *)
(* the shape of a plain datum as the machine sees it *)
Inductive dview (s : vm) : nat -> vcell -> vcell -> Prop :=
| dv_imm : forall n v c,
    heap_deref (hp s) v = Ok c ->
    match c with VBool _ | VChar _ | VNil | VNum _ | VSym _ => True | _ => False end ->
    absv s v = AImm c -> dview s n v c
| dv_str : forall n v u t,
    heap_deref (hp s) v = Ok (VStr u) -> absv s v = ALoc (LStr u) ->
    tget (strs (st s)) u = Some t -> dview s n v (VStr u)
| dv_pair : forall m p a d,
    heap_get (hp s) p = Ok (VPair a d) ->
    adatum s (absv s (VPtr a)) m -> adatum s (absv s (VPtr d)) m ->
    target_ok s a -> target_ok s d ->
    dview s (S m) (VPtr p) (VPair a d)
| dv_vec : forall m v u l,
    heap_deref (hp s) v = Ok (VVec u) -> absv s v = ALoc (LVec u) ->
    tget (vecs (st s)) u = Some l ->
    Forall (fun x => val_ok s x /\ adatum s (absv s x) m) l ->
    dview s (S m) v (VVec u).

Lemma datum_view s n v :
  values_are_refs s -> val_ok s v -> adatum s (absv s v) n ->
  exists c, heap_deref (hp s) v = Ok c /\ dview s n v c.
Proof.
  intros W Hv Hd. destruct (val_deref s v Hv) as (c & Hc & Ha & Hdc).
  exists c. split; [exact Hc|].
  pose proof W as (_ & Hpairs & Hvecs & _).
  inversion Hd as [w n0 Hk Hw | u t n0 Ht Hw | p x d m Hp Hx Hdd Hw | u xs m Hu Hxs Hw]; subst.
  - (* immediate *)
    assert (Ec : c = w).
    { rewrite Ha in Hw. destruct v; cbn [val_ok] in Hv; try contradiction; try (now injection Hw).
      destruct c; cbn [cell_val data_cell] in *; try contradiction; try discriminate; now injection Hw. }
    subst w. eapply dv_imm; eauto.
  - (* string *)
    assert (Ec : c = VStr u).
    { rewrite Ha in Hw. destruct v; cbn [val_ok] in Hv; try contradiction; try discriminate.
      destruct c; cbn [cell_val data_cell] in *; try contradiction; try discriminate. now injection Hw as ->. }
    subst c. eapply dv_str; eauto.
  - (* pair *)
    symmetry in Hw. destruct (absv_pair_inv s v p Hv Hw) as (-> & a & dd & Hg & Hp').
    rewrite Hp in Hp'. injection Hp' as -> ->.
    cbn [heap_deref] in Hg, Hc. rewrite Hg in Hc. injection Hc as <-.
    destruct (Hpairs _ _ _ Hg) as (Ta & Td).
    eapply dv_pair; eauto.
  - (* vector *)
    symmetry in Hw.
    destruct (vec_registered s v u W Hw) as (l & Hl & Hal & Hfl).
    rewrite Hu in Hal. injection Hal as ->.
    assert (Ec : c = VVec u).
    { rewrite Ha in Hw. destruct v; cbn [val_ok] in Hv; try contradiction; try discriminate.
      destruct c; cbn [cell_val data_cell] in *; try contradiction; try discriminate. now injection Hw as ->. }
    subst c. eapply dv_vec; eauto.
    rewrite Forall_forall in *. intros x Hx. split; [auto|].
    apply Hxs. apply in_map. exact Hx.
Qed.

Lemma num_eqv_refl n : num_eqv n n = true.
Proof.
  destruct n; cbn [num_eqv num_exact_eqb]; try apply Z.eqb_refl.
Qed.

Lemma imm_eqv_refl v :
  match v with VBool _ | VChar _ | VNil | VNum _ | VSym _ => True | _ => False end ->
  imm_eqv v v = true.
Proof.
  destruct v; try contradiction; intros _; cbn [imm_eqv].
  - apply Bool.eqb_reflx. - apply N.eqb_refl. - reflexivity. - apply num_eqv_refl.
  - unfold text_eqb. destruct (list_eq_dec N.eq_dec s s); congruence.
Qed.

Lemma aequal_refl s x n : adatum s x n -> aequal s x x.
Proof.
  intros H. destruct H; try apply aeq_same. apply aeq_imm. now apply imm_eqv_refl.
Qed.

Lemma dview_deref s n v c : dview s n v c -> heap_deref (hp s) v = Ok c.
Proof. intros H; destruct H; auto. Qed.

Lemma dview_absv s n v c : val_ok s v -> dview s n v c ->
  absv s v = match v with VPtr q => cell_val q c | _ => AImm c end.
Proof.
  intros Hv H. destruct (val_deref s v Hv) as (c' & Hc' & Ha & _).
  rewrite (dview_deref _ _ _ _ H) in Hc'. injection Hc' as <-. exact Ha.
Qed.

Lemma str_get_ok s u t : tget (strs (st s)) u = Some t -> str_get u s = ROk t s.
Proof. intros H. unfold str_get. now rewrite H. Qed.

Lemma text_eqb_true a b : text_eqb a b = true <-> a = b.
Proof. unfold text_eqb. destruct (list_eq_dec N.eq_dec a b); split; congruence. Qed.

(* the eqv? shortcut of equal?: never a wrong #t, and #t on identical symbols *)
Lemma eqv_datum s n l r cl cr :
  values_are_refs s -> sym_interned s -> val_ok s l -> val_ok s r ->
  adatum s (absv s l) n -> adatum s (absv s r) n ->
  dview s n l cl -> dview s n r cr ->
  exists e, eqv l r s = ROk e s /\
    (e = true -> aequal s (absv s l) (absv s r)) /\
    (forall a, cl = VSym a -> cr = VSym a -> e = true).
Proof.
  intros W Hint Hl Hr Dl Dr Vl Vr.
  pose proof (dview_deref _ _ _ _ Vl) as Hdl. pose proof (dview_deref _ _ _ _ Vr) as Hdr.
  pose proof (dview_absv _ _ _ _ Hl Vl) as Hal. pose proof (dview_absv _ _ _ _ Hr Vr) as Har.
  unfold eqv.
  destruct (match l, r with VPtr a, VPtr b => a =? b | _, _ => false end) eqn:Esp.
  - exists true. split; [reflexivity|]. split; [|reflexivity]. intros _.
    assert (l = r).
    { destruct l; try discriminate; destruct r; try discriminate. apply N.eqb_eq in Esp. now subst. }
    subst r. eapply aequal_refl; eauto.
  - rewrite (bind_ok _ _ _ _ _ (hderef_ok s l cl Hdl)), (bind_ok _ _ _ _ _ (hderef_ok s r cr Hdr)).
    assert (Hsym : forall a, cl = VSym a -> cr = VSym a -> False).
    { intros a -> ->.
      destruct l; cbn [val_ok] in Hl; try contradiction; cbn [heap_deref] in Hdl; try discriminate.
      destruct r; cbn [val_ok] in Hr; try contradiction; cbn [heap_deref] in Hdr; try discriminate.
      rewrite (Hint _ _ _ Hdl Hdr), N.eqb_refl in Esp. discriminate. }
    inversion Vl as [n1 v1 c1 Hd1 Hk1 Ha1 | n1 v1 u1 t1 Hd1 Ha1 Ht1 | m1 p1 a1 d1 Hg1 Hx1 Hy1 Ta1 Td1 | m1 v1 u1 l1 Hd1 Ha1 Ht1 Hf1];
    inversion Vr as [n2 v2 c2 Hd2 Hk2 Ha2 | n2 v2 u2 t2 Hd2 Ha2 Ht2 | m2 p2 a2 d2 Hg2 Hx2 Hy2 Ta2 Td2 | m2 v2 u2 l2 Hd2 Ha2 Ht2 Hf2];
    subst.
    (* imm / imm *)
    + destruct cl; try contradiction; destruct cr; try contradiction;
        try (exists false; repeat split; [intros; discriminate | intros; discriminate]).
      * eexists. split; [reflexivity|]. split; [|intros; discriminate].
        intros E. rewrite Ha1, Ha2. apply aeq_imm. exact E.
      * eexists. split; [reflexivity|]. split; [|intros; discriminate].
        intros E. rewrite Ha1, Ha2. apply aeq_imm. exact E.
      * exists true. split; [reflexivity|]. split; [|intros; discriminate].
        intros _. rewrite Ha1, Ha2. now apply aeq_imm.
      * eexists. split; [reflexivity|]. split; [|intros; discriminate].
        intros E. rewrite Ha1, Ha2. apply aeq_imm. exact E.
      * exists false. split; [reflexivity|]. split; [intros; discriminate|].
        intros a E1 E2. exfalso. eapply Hsym; eauto.
    (* imm / str, pair, vec *)
    + exists false. split; [destruct cl; try contradiction; reflexivity|]. split; intros; discriminate.
    + exists false. split; [destruct cl; try contradiction; reflexivity|]. split; intros; discriminate.
    + exists false. split; [destruct cl; try contradiction; reflexivity|]. split; intros; discriminate.
    (* str / * *)
    + exists false. split; [destruct cr; try contradiction; reflexivity|]. split; intros; discriminate.
    + rewrite (bind_ok _ _ _ _ _ (str_get_ok s _ _ Ht1)), (bind_ok _ _ _ _ _ (str_get_ok s _ _ Ht2)).
      eexists. split; [reflexivity|]. split; [|intros; discriminate].
      intros E. apply text_eqb_true in E. subst. rewrite Ha1, Ha2. eapply aeq_str; eauto.
    + exists false. repeat split; intros; discriminate.
    + exists false. repeat split; intros; discriminate.
    (* pair / * *)
    + exists false. split; [destruct cr; try contradiction; reflexivity|]. split; intros; discriminate.
    + exists false. repeat split; intros; discriminate.
    + eexists. split; [reflexivity|]. split; [|intros; discriminate].
      intros E. apply andb_prop in E. destruct E as (E1 & E2). apply N.eqb_eq in E1, E2. subst.
      assert (Ep1 : absv s (VPtr p1) = ALoc (LPair p1)) by (cbn [absv]; now rewrite Hg1).
      assert (Ep2 : absv s (VPtr p2) = ALoc (LPair p2)) by (cbn [absv]; now rewrite Hg2).
      rewrite Ep1, Ep2. eapply aeq_pair.
      * cbn [abs a_pair]. rewrite Hg1. reflexivity.
      * cbn [abs a_pair]. rewrite Hg2. reflexivity.
      * eapply aequal_refl; eauto.
      * eapply aequal_refl; eauto.
    + exists false. repeat split; intros; discriminate.
    (* vec / * *)
    + exists false. split; [destruct cr; try contradiction; reflexivity|]. split; intros; discriminate.
    + exists false. repeat split; intros; discriminate.
    + exists false. repeat split; intros; discriminate.
    + exists false. repeat split; intros; discriminate.
Qed.

Definition P_equal (s : vm) (n : nat) : Prop :=
  forall f l r, val_ok s l -> val_ok s r ->
    adatum s (absv s l) n -> adatum s (absv s r) n -> (2 * n + 1 <= f)%nat ->
    exists b, equal f l r s = ROk b s /\ (b = true <-> aequal s (absv s l) (absv s r)).

Definition P_cp (s : vm) (n : nat) : Prop :=
  forall f pl al dl pr ar dr,
    heap_get (hp s) pl = Ok (VPair al dl) -> heap_get (hp s) pr = Ok (VPair ar dr) ->
    adatum s (ALoc (LPair pl)) n -> adatum s (ALoc (LPair pr)) n -> (2 * n <= f)%nat ->
    exists b, compare_pair f (VPair al dl) (VPair ar dr) s = ROk b s /\
              (b = true <-> aequal s (ALoc (LPair pl)) (ALoc (LPair pr))).

Lemma aequal_pair_iff s pl al dl pr ar dr :
  heap_get (hp s) pl = Ok (VPair al dl) -> heap_get (hp s) pr = Ok (VPair ar dr) ->
  forall m, adatum s (absv s (VPtr al)) m -> adatum s (absv s (VPtr dl)) m ->
  (aequal s (ALoc (LPair pl)) (ALoc (LPair pr)) <->
   aequal s (absv s (VPtr al)) (absv s (VPtr ar)) /\ aequal s (absv s (VPtr dl)) (absv s (VPtr dr))).
Proof.
  intros Hl Hr m Da Dd.
  assert (El : a_pair (abs s) pl = Some (absv s (VPtr al), absv s (VPtr dl))) by (cbn [abs a_pair]; now rewrite Hl).
  assert (Er : a_pair (abs s) pr = Some (absv s (VPtr ar), absv s (VPtr dr))) by (cbn [abs a_pair]; now rewrite Hr).
  split.
  - intros H. inversion H as [| l0 | p q x d y e Hp Hq Hx Hd | |]; subst.
    + rewrite Hl in Hr. injection Hr as <- <-. split; eapply aequal_refl; eauto.
    + rewrite El in Hp. rewrite Er in Hq. injection Hp as <- <-. injection Hq as <- <-. auto.
  - intros (Ha & Hd). eapply aeq_pair; eauto.
Qed.

Lemma cp_from s m :
  values_are_refs s -> P_equal s m -> P_cp s m -> P_cp s (S m).
Proof.
  intros W PE PC f pl al dl pr ar dr Hl Hr Dl Dr Hf.
  destruct f as [|f]; [lia|].
  pose proof W as (_ & Hpairs & _).
  destruct (Hpairs _ _ _ Hl) as (Tal & Tdl). destruct (Hpairs _ _ _ Hr) as (Tar & Tdr).
  assert (El : a_pair (abs s) pl = Some (absv s (VPtr al), absv s (VPtr dl))) by (cbn [abs a_pair]; now rewrite Hl).
  assert (Er : a_pair (abs s) pr = Some (absv s (VPtr ar), absv s (VPtr dr))) by (cbn [abs a_pair]; now rewrite Hr).
  inversion Dl as [| | p x d n Hp Hx Hd |]; subst. rewrite El in Hp. injection Hp as <- <-.
  inversion Dr as [| | p x d n Hp Hx' Hd' |]; subst. rewrite Er in Hp. injection Hp as <- <-.
  pose proof (aequal_pair_iff s pl al dl pr ar dr Hl Hr m Hx Hd) as Iff.
  destruct (PE f (VPtr al) (VPtr ar) Tal Tar Hx Hx' ltac:(lia)) as (e & He & Hee).
  cbn [compare_pair is_pair negb orb as_car as_cdr bindM ret].
  rewrite (bind_ok _ _ _ _ _ He).
  destruct e.
  2: { exists false. split; [reflexivity|]. split; [discriminate|].
       intros H. apply Iff in H. destruct H as (Ha & _). apply Hee in Ha. discriminate. }
  cbn [negb bindM ret].
  destruct Tdl as (Ldl & cdl & Hcdl & _). destruct Tdr as (Ldr & cdr & Hcdr & _).
  rewrite (bind_ok _ _ _ _ _ (hderef_ok s (VPtr dl) cdl Hcdl)).
  rewrite (bind_ok _ _ _ _ _ (hderef_ok s (VPtr dr) cdr Hcdr)).
  assert (Tdl : target_ok s dl) by (destruct (Hpairs _ _ _ Hl); assumption).
  assert (Tdr : target_ok s dr) by (destruct (Hpairs _ _ _ Hr); assumption).
  destruct (negb (is_pair cdl) || negb (is_pair cdr)) eqn:Ep.
  - destruct (PE f (VPtr dl) (VPtr dr) Tdl Tdr Hd Hd' ltac:(lia)) as (b & Hb & Hbb).
    exists b. split; [exact Hb|]. rewrite Iff. rewrite Hbb. split; [intros; split; auto; now apply Hee | tauto].
  - apply orb_false_elim in Ep. destruct Ep as (E1 & E2).
    destruct cdl; try discriminate E1. destruct cdr; try discriminate E2.
    assert (Al : absv s (VPtr dl) = ALoc (LPair dl)) by (cbn [absv]; now rewrite Hcdl).
    assert (Ar : absv s (VPtr dr) = ALoc (LPair dr)) by (cbn [absv]; now rewrite Hcdr).
    assert (Hd2 : adatum s (ALoc (LPair dl)) m) by (rewrite <- Al; exact Hd).
    assert (Hd2' : adatum s (ALoc (LPair dr)) m) by (rewrite <- Ar; exact Hd').
    destruct (PC f dl _ _ dr _ _ Hcdl Hcdr Hd2 Hd2' ltac:(lia)) as (b & Hb & Hbb).
    exists b. split; [exact Hb|]. rewrite Iff, Al, Ar. rewrite Hbb.
    split; [intros; split; auto; now apply Hee | tauto].
Qed.

Lemma all2_equal s f m :
  P_equal s m -> (2 * m + 1 <= f)%nat ->
  forall xs ys,
    Forall (fun x => val_ok s x /\ adatum s (absv s x) m) xs ->
    Forall (fun x => val_ok s x /\ adatum s (absv s x) m) ys ->
    length xs = length ys ->
    exists b, all2_m (equal f) xs ys s = ROk b s /\
      (b = true <-> Forall2 (aequal s) (map (absv s) xs) (map (absv s) ys)).
Proof.
  intros PE Hf xs. induction xs as [|x xr IH]; intros ys Hx Hy Hlen.
  - destruct ys; [|discriminate]. exists true. cbn. split; [reflexivity|]. split; [constructor | reflexivity].
  - destruct ys as [|y yr]; [discriminate|]. cbn [all2_m map].
    inversion Hx as [|? ? (Vx & Dx) Hxr]; subst. inversion Hy as [|? ? (Vy & Dy) Hyr]; subst.
    destruct (PE f x y Vx Vy Dx Dy Hf) as (e & He & Hee).
    rewrite (bind_ok _ _ _ _ _ He). destruct e.
    + cbn [length] in Hlen. destruct (IH yr Hxr Hyr ltac:(lia)) as (b & Hb & Hbb).
      exists b. split; [exact Hb|]. split.
      * intros E. constructor; [now apply Hee | now apply Hbb].
      * intros H. inversion H; subst. now apply Hbb.
    + exists false. split; [reflexivity|]. split; [discriminate|].
      intros H. inversion H; subst. assert (false = true) by (now apply Hee). discriminate.
Qed.

Lemma Forall2_len {A B} (R : A -> B -> Prop) l1 l2 : Forall2 R l1 l2 -> length l1 = length l2.
Proof. induction 1; cbn; auto. Qed.

Lemma Forall2_refl_datum s m l :
  Forall (fun x => val_ok s x /\ adatum s (absv s x) m) l ->
  Forall2 (aequal s) (map (absv s) l) (map (absv s) l).
Proof.
  induction 1 as [|x r (Vx & Dx) Hr IH]; cbn [map]; constructor; auto. eapply aequal_refl; eauto.
Qed.

Lemma equal_from s n :
  values_are_refs s -> sym_interned s ->
  P_cp s n -> (forall m, n = S m -> P_equal s m) -> P_equal s n.
Proof.
  intros W Hint PC PE f l r Hl Hr Dl Dr Hf.
  destruct f as [|f]; [lia|].
  destruct (datum_view s n l W Hl Dl) as (cl & Hcl & Vl).
  destruct (datum_view s n r W Hr Dr) as (cr & Hcr & Vr).
  destruct (eqv_datum s n l r cl cr W Hint Hl Hr Dl Dr Vl Vr) as (e & He & E1 & E2).
  cbn [equal]. rewrite (bind_ok _ _ _ _ _ He).
  destruct e.
  { exists true. split; [reflexivity|]. split; auto. }
  rewrite (bind_ok _ _ _ _ _ (hderef_ok s l cl Hcl)), (bind_ok _ _ _ _ _ (hderef_ok s r cr Hcr)).
  inversion Vl as [n1 v1 c1 Hd1 Hk1 Ha1 | n1 v1 u1 t1 Hd1 Ha1 Ht1 | m1 p1 a1 d1 Hg1 Hx1 Hy1 Ta1 Td1 | m1 v1 u1 l1 Hd1 Ha1 Ht1 Hf1];
  inversion Vr as [n2 v2 c2 Hd2 Hk2 Ha2 | n2 v2 u2 t2 Hd2 Ha2 Ht2 | m2 p2 a2 d2 Hg2 Hx2 Hy2 Ta2 Td2 | m2 v2 u2 l2 Hd2 Ha2 Ht2 Hf2];
  subst; repeat match goal with H : S _ = S _ |- _ => injection H as H; subst end.
  - (* immediate / immediate: eqv on the dereferenced values *)
    rewrite Ha1, Ha2.
    destruct cl; try contradiction; destruct cr; try contradiction;
      try (exists false; split; [reflexivity|]; split; [discriminate|]; intros H; inversion H; subst; discriminate).
    + eexists. split; [reflexivity|]. split; [intros E; now apply aeq_imm | intros H; inversion H; subst; assumption].
    + eexists. split; [reflexivity|]. split; [intros E; now apply aeq_imm | intros H; inversion H; subst; assumption].
    + exists true. split; [reflexivity|]. split; [intros _; now apply aeq_imm | reflexivity].
    + eexists. split; [reflexivity|]. split; [intros E; now apply aeq_imm | intros H; inversion H; subst; assumption].
    + exists false. split; [reflexivity|]. split; [discriminate|].
      intros H. inversion H as [v w Hvw| | | |]; subst. cbn [imm_eqv] in Hvw. apply text_eqb_true in Hvw. subst.
      eapply E2; reflexivity.
  - rewrite Ha1, Ha2. exists false.
    split; [destruct cl; try contradiction; reflexivity|]. split; [discriminate | intros H; inversion H].
  - rewrite Ha1. assert (Ep : absv s (VPtr p2) = ALoc (LPair p2)) by (cbn [absv]; now rewrite Hg2). rewrite Ep.
    exists false. split; [destruct cl; try contradiction; reflexivity|]. split; [discriminate | intros H; inversion H].
  - rewrite Ha1, Ha2. exists false.
    split; [destruct cl; try contradiction; reflexivity|]. split; [discriminate | intros H; inversion H].
  - rewrite Ha1, Ha2. exists false.
    split; [destruct cr; try contradiction; reflexivity|]. split; [discriminate | intros H; inversion H].
  - (* string / string *)
    rewrite Ha1, Ha2.
    rewrite (bind_ok _ _ _ _ _ (str_get_ok s _ _ Ht1)), (bind_ok _ _ _ _ _ (str_get_ok s _ _ Ht2)).
    eexists. split; [reflexivity|]. split.
    + intros E. apply text_eqb_true in E. subst. eapply aeq_str; eauto.
    + intros H. apply text_eqb_true. inversion H; subst; congruence.
  - rewrite Ha1. assert (Ep : absv s (VPtr p2) = ALoc (LPair p2)) by (cbn [absv]; now rewrite Hg2). rewrite Ep.
    exists false. split; [reflexivity|]. split; [discriminate | intros H; inversion H].
  - rewrite Ha1, Ha2. exists false. split; [reflexivity|]. split; [discriminate | intros H; inversion H].
  - rewrite Ha2. assert (Ep : absv s (VPtr p1) = ALoc (LPair p1)) by (cbn [absv]; now rewrite Hg1). rewrite Ep.
    exists false. split; [destruct cr; try contradiction; reflexivity|]. split; [discriminate | intros H; inversion H].
  - rewrite Ha2. assert (Ep : absv s (VPtr p1) = ALoc (LPair p1)) by (cbn [absv]; now rewrite Hg1). rewrite Ep.
    exists false. split; [reflexivity|]. split; [discriminate | intros H; inversion H].
  - (* pair / pair *)
    assert (Ep1 : absv s (VPtr p1) = ALoc (LPair p1)) by (cbn [absv]; now rewrite Hg1).
    assert (Ep2 : absv s (VPtr p2) = ALoc (LPair p2)) by (cbn [absv]; now rewrite Hg2).
    rewrite Ep1 in *. rewrite Ep2 in *.
    exact (PC f p1 a1 d1 p2 a2 d2 Hg1 Hg2 Dl Dr ltac:(lia)).
  - rewrite Ha2. assert (Ep : absv s (VPtr p1) = ALoc (LPair p1)) by (cbn [absv]; now rewrite Hg1). rewrite Ep.
    exists false. split; [reflexivity|]. split; [discriminate | intros H; inversion H].
  - rewrite Ha1, Ha2. exists false.
    split; [destruct cr; try contradiction; reflexivity|]. split; [discriminate | intros H; inversion H].
  - rewrite Ha1, Ha2. exists false. split; [reflexivity|]. split; [discriminate | intros H; inversion H].
  - rewrite Ha1. assert (Ep : absv s (VPtr p2) = ALoc (LPair p2)) by (cbn [absv]; now rewrite Hg2). rewrite Ep.
    exists false. split; [reflexivity|]. split; [discriminate | intros H; inversion H].
  - (* vector / vector *)
    rewrite Ha1, Ha2.
    rewrite (bind_ok _ _ _ _ _ (vec_get_ok s _ _ Ht1)), (bind_ok _ _ _ _ _ (vec_get_ok s _ _ Ht2)).
    assert (Av1 : a_vec (abs s) u1 = Some (map (absv s) l1)) by (cbn [abs a_vec]; now rewrite Ht1).
    assert (Av2 : a_vec (abs s) u2 = Some (map (absv s) l2)) by (cbn [abs a_vec]; now rewrite Ht2).
    destruct (len l1 =? len l2) eqn:El; cbn [negb].
    + apply N.eqb_eq in El. unfold len in El. apply Nat2N.inj in El.
      destruct (all2_equal s f m1 (PE m1 eq_refl) ltac:(lia) l1 l2 Hf1 Hf2 El) as (b & Hb & Hbb).
      exists b. split; [exact Hb|]. rewrite Hbb. split.
      * intros H. eapply aeq_vec; eauto.
      * intros H. inversion H as [| l0 | | u v xs ys Hu Hv HF |]; subst.
        -- rewrite Ht1 in Ht2. injection Ht2 as <-. eapply Forall2_refl_datum; eauto.
        -- rewrite Av1 in Hu. rewrite Av2 in Hv. injection Hu as <-. injection Hv as <-. exact HF.
    + exists false. split; [reflexivity|]. split; [discriminate|].
      apply N.eqb_neq in El. intros H. exfalso. apply El. unfold len. f_equal.
      inversion H as [| l0 | | u v xs ys Hu Hv HF |]; subst.
      * rewrite Ht1 in Ht2. now injection Ht2 as <-.
      * rewrite Av1 in Hu. rewrite Av2 in Hv. injection Hu as <-. injection Hv as <-.
        apply Forall2_len in HF. now rewrite !map_length in HF.
Qed.

Theorem equal_spec s l r n fuel :
  values_are_refs s -> sym_interned s -> val_ok s l -> val_ok s r ->
  adatum s (absv s l) n -> adatum s (absv s r) n -> (2 * n + 2 < fuel)%nat ->
  exists b, equal fuel l r s = ROk b s /\ (b = true <-> aequal s (absv s l) (absv s r)).
Proof.
  intros W Hint Hl Hr Dl Dr Hf.
  assert (Q : forall k, P_equal s k /\ P_cp s k).
  { induction k as [|k (PE & PC)].
    - assert (PC0 : P_cp s 0) by (intros f pl al dl pr ar dr _ _ D; inversion D).
      split; [|exact PC0]. apply equal_from; auto. intros m E; discriminate.
    - assert (PC1 : P_cp s (S k)) by (apply cp_from; auto).
      split; [|exact PC1]. apply equal_from; auto. intros m E. injection E as <-. exact PE. }
  destruct (Q n) as (PE & _). apply PE; auto. lia.
Qed.

(* adatum and aequal only look at the heap and the Rc tables *)
Lemma adatum_transfer s t : hp t = hp s -> st t = st s -> forall x n, adatum s x n -> adatum t x n.
Proof.
  intros E1 E2. fix IH 3. intros x n H. destruct H as [v n Hk | u tx n Ht | p x d n Hp Hx Hd | u xs n Hu Hxs].
  - now constructor.
  - eapply ad_str. rewrite E2. exact Ht.
  - eapply ad_pair; [rewrite (abs_pair_hp s t p E1); exact Hp | apply IH; exact Hx | apply IH; exact Hd].
  - eapply ad_vec; [rewrite (abs_vec_hp_st s t u E1 E2); exact Hu|].
    clear Hu. revert xs Hxs. fix go 2. intros xs F. destruct F as [|y ys Hy Hys]; constructor.
    + apply IH. exact Hy.
    + apply go. exact Hys.
Qed.

Lemma aequal_transfer s t : hp t = hp s -> st t = st s -> forall x y, aequal s x y -> aequal t x y.
Proof.
  intros E1 E2. fix IH 3. intros x y H.
  destruct H as [v w Hvw | l | p q x d y e Hp Hq Hx Hd | u v xs ys Hu Hv HF | u v tx Hu Hv].
  - now constructor.
  - constructor.
  - eapply aeq_pair; [rewrite (abs_pair_hp s t p E1); exact Hp | rewrite (abs_pair_hp s t q E1); exact Hq
                      | apply IH; exact Hx | apply IH; exact Hd].
  - eapply aeq_vec; [rewrite (abs_vec_hp_st s t u E1 E2); exact Hu | rewrite (abs_vec_hp_st s t v E1 E2); exact Hv|].
    clear Hu Hv. revert xs ys HF. fix go 3. intros xs ys F. destruct F as [|a b ar br Hab Hr]; constructor.
    + apply IH. exact Hab.
    + apply go. exact Hr.
  - eapply aeq_str; rewrite E2; eauto.
Qed.

(* equal? as a builtin: (equal? a b) pops b first, then a *)
Theorem equal_b_refines fuel s a b n :
  values_are_refs s -> sym_interned s -> val_ok s a -> val_ok s b ->
  adatum s (absv s a) n -> adatum s (absv s b) n -> (2 * n + 2 < fuel)%nat ->
  called_with s [a; b] ->
  exists res s', equal_b fuel s = ROk (VBool res) s' /\
    (res = true <-> aequal s (absv s b) (absv s a)) /\ hp s' = hp s /\ st s' = st s.
Proof.
  intros W Hint Ha Hb Da Db Hf H. unfold called_with in H. cbn [len length rev app N.of_nat Pos.of_succ_nat] in H.
  set (s1 := with_sp s (sp s - 1)).
  set (s2 := with_sp s1 (sp s1 - 1)).
  set (s3 := with_sp s2 (sp s2 - 1)).
  pose proof (stack_top_tail _ _ _ _ _ H) as H1.
  pose proof (stack_top_tail _ _ _ _ _ H1) as H2.
  assert (Hint3 : sym_interned s3) by exact Hint.
  destruct (equal_spec s3 b a n fuel W Hint3 Hb Ha
              (adatum_transfer s s3 eq_refl eq_refl _ _ Db) (adatum_transfer s s3 eq_refl eq_refl _ _ Da) Hf)
    as (res & E & Hres).
  exists res, s3. refine (conj _ (conj _ (conj eq_refl eq_refl))).
  - unfold equal_b. pop_argc_tac H s 2 2 (Some 2). fold s1.
    rewrite (bind_ok _ _ _ _ _ (pop_raw_top s1 b _ H1)). fold s2.
    rewrite (bind_ok _ _ _ _ _ (pop_raw_top s2 a _ H2)). fold s3.
    rewrite (bind_ok _ _ _ _ _ E). reflexivity.
  - rewrite Hres. split; apply aequal_transfer; reflexivity.
Qed.

(* ==================================================================== append *)
(* a chain of concrete pair cells: start address, the cells, their car addresses, and the
   address the last cdr points to *)
Inductive cchain (h : heap) : N -> list N -> list N -> N -> Prop :=
| cc_nil : forall p, cchain h p [] [] p
| cc_cons : forall p c d ps cs e,
    heap_get h p = Ok (VPair c d) -> cchain h d ps cs e -> cchain h p (p :: ps) (c :: cs) e.

Lemma cchain_len h p ps cs e : cchain h p ps cs e -> length ps = length cs.
Proof. induction 1; cbn; auto. Qed.

Lemma cchain_snoc h p ps cs t c e :
  cchain h p ps cs t -> heap_get h t = Ok (VPair c e) -> cchain h p (ps ++ [t]) (cs ++ [c]) e.
Proof.
  intros Hc Ht. induction Hc as [p | p c0 d ps cs e0 Hp Hc IH]; cbn [app].
  - econstructor; [exact Ht | constructor].
  - econstructor; [exact Hp | now apply IH].
Qed.

Lemma cchain_app h p ps cs e ps' cs' e' :
  cchain h p ps cs e -> cchain h e ps' cs' e' -> cchain h p (ps ++ ps') (cs ++ cs') e'.
Proof.
  intros Hc Hr. induction Hc as [p | p c0 d ps cs e0 Hp Hc IH]; cbn [app]; [exact Hr|].
  econstructor; [exact Hp | now apply IH].
Qed.

Lemma cchain_stable h h' p ps cs e :
  cchain h p ps cs e -> (forall q, In q ps -> heap_get h' q = heap_get h q) -> cchain h' p ps cs e.
Proof.
  intros Hc Hs. induction Hc as [p | p c0 d ps cs e0 Hp Hc IH]; [constructor|].
  econstructor.
  - rewrite Hs by (now left). exact Hp.
  - apply IH. intros q Hq. apply Hs. now right.
Qed.

(* re-pointing the cdr of the last cell *)
Lemma cchain_relink h h' p ps cs t c old new :
  cchain h p (ps ++ [t]) (cs ++ [c]) old -> ~ In t ps -> length ps = length cs ->
  (forall q, q <> t -> heap_get h' q = heap_get h q) -> heap_get h' t = Ok (VPair c new) ->
  cchain h' p (ps ++ [t]) (cs ++ [c]) new.
Proof.
  revert p cs. induction ps as [|p0 ps IH]; intros p cs Hc Hni Hlen Ho Ht.
  - destruct cs; [|discriminate]. cbn [app] in *.
    inversion Hc as [| p1 c1 d1 ps1 cs1 e1 Hp1 Hc1]; subst.
    econstructor; [exact Ht | constructor].
  - destruct cs as [|c0 cs]; [discriminate|]. cbn [app] in *.
    inversion Hc as [| p1 c1 d1 ps1 cs1 e1 Hp1 Hc1]; subst.
    econstructor.
    + rewrite Ho; [exact Hp1|]. intros ->. apply Hni. now left.
    + apply IH; auto. intros Hin. apply Hni. now right.
Qed.

Lemma cchain_aprefix s p ps cs e :
  cchain (hp s) p ps cs e ->
  aprefix (abs s) (absv s (VPtr p)) ps (map (fun c => absv s (VPtr c)) cs) (absv s (VPtr e)).
Proof.
  intros Hc. induction Hc as [p | p c0 d ps cs e0 Hp Hc IH]; cbn [map]; [constructor|].
  assert (Ep : absv s (VPtr p) = ALoc (LPair p)) by (cbn [absv]; now rewrite Hp).
  rewrite Ep. econstructor; [|exact IH]. cbn [abs a_pair]. now rewrite Hp.
Qed.

(* mutating a cell that did not exist in [s] keeps every object of [s] *)
Lemma pres_after_set s s1 t v h'' :
  pres s s1 -> ~ live (hp s) t -> heap_set (hp s1) t v = Ok h'' -> pres s (with_heap s1 h'').
Proof.
  intros (A1 & A2 & A3 & A4) Hnl Hs.
  destruct (heap_set_spec _ _ _ _ Hs) as (Hlt & Hlen & Hfl & Hch & Hgp & Hgo & Hco).
  unfold pres; refine (conj _ (conj _ (conj A3 A4))); cbn [with_heap hp].
  - intros q Hq. specialize (A1 q Hq). unfold live in *. rewrite Hlen, Hfl. exact A1.
  - intros q Hq. rewrite Hgo; [now apply A2|]. intros ->. contradiction.
Qed.

Definition same_regs (s s' : vm) : Prop := st s' = st s /\ stack s' = stack s /\ sp s' = sp s /\ scap s' = scap s.
Lemma same_regs_refl s : same_regs s s. Proof. repeat split. Qed.
Lemma same_regs_trans a b c : same_regs a b -> same_regs b c -> same_regs a c.
Proof. intros (A1 & A2 & A3 & A4) (B1 & B2 & B3 & B4). repeat split; congruence. Qed.

(* the state of clone_list after some iterations: the fresh chain h .. t ends in the
   fresh cell holding (), nothing of the state [s0] at entry has been touched *)
Definition clone_inv (s0 sk : vm) (h t nilp : N) (ps cs : list N) (c : N) : Prop :=
  pres s0 sk /\ values_are_refs sk /\
  cchain (hp sk) h (ps ++ [t]) (cs ++ [c]) nilp /\
  NoDup (ps ++ [t]) /\
  Forall (fun p => ~ live (hp s0) p /\ live (hp sk) p) (ps ++ [t]) /\
  Forall (target_ok sk) (cs ++ [c]) /\
  target_ok sk nilp /\ heap_get (hp sk) nilp = Ok VNil /\ ~ live (hp s0) nilp.

Lemma NoDup_app_snoc {A} (l : list A) x : NoDup l -> ~ In x l -> NoDup (l ++ [x]).
Proof.
  induction l as [|y r IH]; intros Hnd Hni; cbn [app].
  - constructor; [intros [] | constructor].
  - inversion Hnd; subst. constructor.
    + intros Hin. apply in_app_or in Hin. destruct Hin as [Hin|[->|[]]]; [contradiction|].
      apply Hni. now left.
    + apply IH; auto. intros Hin. apply Hni. now right.
Qed.

Lemma cchain_last h p ps cs t c e :
  cchain h p (ps ++ [t]) (cs ++ [c]) e -> length ps = length cs -> heap_get h t = Ok (VPair c e).
Proof.
  revert p cs. induction ps as [|p0 ps IH]; intros p cs Hc Hlen.
  - destruct cs; [|discriminate]. cbn [app] in Hc. inversion Hc as [| ? ? ? ? ? ? Hp Hr]; subst.
    inversion Hr; subst. exact Hp.
  - destruct cs as [|c0 cs]; [discriminate|]. cbn [app] in Hc. inversion Hc as [| ? ? ? ? ? ? Hp Hr]; subst.
    eapply IH; eauto.
Qed.

Lemma clone_step s0 sk h t nilp ps cs c a :
  clone_inv s0 sk h t nilp ps cs c -> length ps = length cs -> target_ok sk a ->
  exists p s1 h'', hput (VPair a nilp) sk = ROk (VPtr p) s1 /\
    heap_deref (hp s1) (VPtr t) = Ok (VPair c nilp) /\
    heap_set (hp s1) t (VPair c p) = Ok h'' /\
    same_regs sk s1 /\
    clone_inv s0 (with_heap s1 h'') h p nilp (ps ++ [t]) (cs ++ [c]) a.
Proof.
  intros (P0 & W & Hcc & Hnd & Hfl & Htg & Tn & Hgn & Hnn) Hlen Ta.
  destruct (cons_cell sk a nilp W Ta Tn) as (p & s1 & E1 & P1 & W1 & T1 & Hnl1 & Ap1 & Hp1 & Hx1a & Hx1b & Hx1c & Hx1d & Ecell).
  assert (Hx1 : same_regs sk s1) by (repeat split; assumption).
  pose proof (cchain_last _ _ _ _ _ _ _ Hcc Hlen) as Hgt.
  assert (Hlt : live (hp sk) t).
  { rewrite Forall_forall in Hfl. apply Hfl. apply in_or_app. right. now left. }
  pose proof P1 as (Q1 & Q2 & _).
  assert (Hgt1 : heap_get (hp s1) t = Ok (VPair c nilp)) by (rewrite Q2 by assumption; exact Hgt).
  destruct (heap_set_ok (hp s1) t (VPair c p) (heap_get_lt _ _ _ Hgt1)) as (h'' & Hs).
  exists p, s1, h''. refine (conj E1 (conj Hgt1 (conj Hs (conj Hx1 _)))).
  destruct (heap_set_spec _ _ _ _ Hs) as (Hlt' & Hlen' & Hfl' & Hch' & Hgp & Hgo & Hco).
  assert (Tc1 : target_ok s1 c).
  { eapply pres_target_ok; [exact P1|]. rewrite Forall_forall in Htg. apply Htg. apply in_or_app. right. now left. }
  destruct (set_pair_fields s1 t c nilp c p h'' W1 Hgt1 Tc1 T1 Hs) as (W2 & Habsv & Hval & _).
  assert (Hnlt : ~ live (hp s0) t).
  { rewrite Forall_forall in Hfl. apply (Hfl t). apply in_or_app. right. now left. }
  assert (Hpne : p <> t) by (intros ->; contradiction).
  assert (Hlive2 : forall q, live (hp s1) q -> live h'' q).
  { intros q. unfold live. now rewrite Hlen', Hfl'. }
  unfold clone_inv. refine (conj _ (conj W2 (conj _ (conj _ (conj _ (conj _ (conj _ (conj _ Hnn)))))))).
  - eapply pres_after_set; [|exact Hnlt | exact Hs]. eapply pres_trans; eauto.
  - cbn [with_heap hp].
    assert (Hni : ~ In t ps).
    { apply NoDup_remove_2 in Hnd. rewrite app_nil_r in Hnd. exact Hnd. }
    eapply cchain_snoc.
    + eapply (cchain_relink (hp s1)); [| exact Hni | exact Hlen | exact Hgo | exact Hgp].
      eapply cchain_stable; [exact Hcc|]. intros q Hq. apply Q2.
      rewrite Forall_forall in Hfl. exact (proj2 (Hfl q Hq)).
    + rewrite Hgo by assumption. exact Ecell.
  - apply NoDup_app_snoc; [exact Hnd|].
    intros Hin. rewrite Forall_forall in Hfl. apply Hnl1. exact (proj2 (Hfl p Hin)).
  - apply Forall_app. split.
    + eapply Forall_impl; [|exact Hfl]. intros q (Hq0 & Hq). split; [exact Hq0|]. cbn [with_heap hp]. auto.
    + constructor; [|constructor]. split.
      * intros Hl0. apply Hnl1. destruct P0 as (R1 & _). auto.
      * cbn [with_heap hp]. apply Hlive2. exact (proj1 T1).
  - apply Forall_app. split.
    + eapply Forall_impl; [|exact Htg]. intros q Hq.
      apply (Hval (VPtr q)). eapply pres_target_ok; eauto.
    + constructor; [|constructor]. apply (Hval (VPtr a)). eapply pres_target_ok; eauto.
  - apply (Hval (VPtr nilp)). eapply pres_target_ok; eauto.
  - cbn [with_heap hp]. rewrite Hgo.
    + rewrite Q2 by (exact (proj1 Tn)). exact Hgn.
    + intros ->. rewrite Hgt in Hgn. discriminate.
Qed.

Lemma hset_ok s p v h'' : heap_set (hp s) p v = Ok h'' -> hset p v s = ROk tt (with_heap s h'').
Proof. intros H. unfold hset. now rewrite H. Qed.

Lemma clone_loop_spec fuel lst s0 cells : forall sk a d e h t nilp ps cs c f,
  values_are_refs s0 -> pchain (hp s0) (VPtr d) cells e -> target_ok s0 a -> target_ok s0 d ->
  clone_inv s0 sk h t nilp ps cs c -> length ps = length cs -> (length cells + 1 < f)%nat ->
  forall ce, heap_deref (hp s0) e = Ok ce ->
  if is_nil ce then
    exists t' s' ps' cs' c',
      clone_loop fuel f lst (VPair a d) (VPtr h) (VPtr t) nilp sk = ROk (VPtr h, VPtr t') s' /\
      clone_inv s0 s' h t' nilp ps' cs' c' /\ length ps' = length cs' /\
      cs' ++ [c'] = (cs ++ [c]) ++ a :: map fst cells /\ same_regs sk s'
  else render_fail (clone_loop fuel f lst (VPair a d) (VPtr h) (VPtr t) nilp sk).
Proof.
  induction cells as [|[a2 d2] cells IH]; intros sk a d e h t nilp ps cs c f W0 Hpc Ta Td Inv Hlen Hf ce Hce.
  - destruct f as [|f]; [cbn in Hf; lia|].
    pose proof Inv as (P0 & _).
    destruct (clone_step s0 sk h t nilp ps cs c a Inv Hlen (pres_target_ok _ _ _ P0 Ta))
      as (p & s1 & h'' & E1 & Hdt & Hs & Hx1 & Inv2).
    set (s2 := with_heap s1 h'') in *.
    pose proof Inv2 as (P2 & _).
    inversion Hpc as [v0 c0 Hd0 Hp0 |]; subst.
    rewrite Hd0 in Hce. injection Hce as <-.
    assert (Hd2 : heap_deref (hp s2) (VPtr d) = Ok c0) by (rewrite (pres_deref s0 s2 (VPtr d) P2 Td); exact Hd0).
    assert (Hstep : clone_loop fuel (S f) lst (VPair a d) (VPtr h) (VPtr t) nilp sk =
                    if is_nil c0 then ROk (VPtr h, VPtr p) s2 else fail_cell fuel lst s2).
    { cbn [clone_loop as_car as_cdr as_ptr is_nil bindM ret]. rewrite (bind_ok _ _ _ _ _ E1).
      cbn [bindM ret].
      assert (Htail : (dom last_pair <- hderef (VPtr t); dom lca <- as_car last_pair; dom lcap <- as_ptr lca;
                       dom pp <- as_ptr (VPtr p); dom tp <- ret t; dom _ <- hset tp (VPair lcap pp); ret (VPtr p)) s1
                      = ROk (VPtr p) s2).
      { rewrite (bind_ok _ _ _ _ _ (hderef_ok s1 _ _ Hdt)).
        cbn [as_car as_ptr bindM ret]. rewrite (bind_ok _ _ _ _ _ (hset_ok s1 _ _ _ Hs)). reflexivity. }
      rewrite (bind_ok _ _ _ _ _ Htail).
      cbn [bindM ret]. rewrite (bind_ok _ _ _ _ _ (hderef_ok s2 _ _ Hd2)).
      rewrite Hp0. destruct (is_nil c0); reflexivity. }
    rewrite Hstep. destruct (is_nil c0); [|apply fail_cell_render_fail].
    exists p, s2, (ps ++ [t]), (cs ++ [c]), a.
    refine (conj eq_refl (conj Inv2 (conj _ (conj _ _)))).
    + rewrite !app_length. cbn. lia.
    + reflexivity.
    + exact Hx1.
  - destruct f as [|f]; [cbn in Hf; lia|].
    pose proof Inv as (P0 & _).
    destruct (clone_step s0 sk h t nilp ps cs c a Inv Hlen (pres_target_ok _ _ _ P0 Ta))
      as (p & s1 & h'' & E1 & Hdt & Hs & Hx1 & Inv2).
    set (s2 := with_heap s1 h'') in *.
    pose proof Inv2 as (P2 & _).
    inversion Hpc as [| v0 a0 d0 cells0 e0 Hd0 Hc0]; subst.
    assert (Hd2 : heap_deref (hp s2) (VPtr d) = Ok (VPair a2 d2)) by (rewrite (pres_deref s0 s2 (VPtr d) P2 Td); exact Hd0).
    pose proof W0 as (_ & Hpairs & _). cbn [heap_deref] in Hd0. destruct (Hpairs _ _ _ Hd0) as (Ta2 & Td2).
    assert (Hstep : clone_loop fuel (S f) lst (VPair a d) (VPtr h) (VPtr t) nilp sk =
                    clone_loop fuel f lst (VPair a2 d2) (VPtr h) (VPtr p) nilp s2).
    { cbn [clone_loop as_car as_cdr as_ptr is_nil bindM ret]. rewrite (bind_ok _ _ _ _ _ E1).
      cbn [bindM ret].
      assert (Htail : (dom last_pair <- hderef (VPtr t); dom lca <- as_car last_pair; dom lcap <- as_ptr lca;
                       dom pp <- as_ptr (VPtr p); dom tp <- ret t; dom _ <- hset tp (VPair lcap pp); ret (VPtr p)) s1
                      = ROk (VPtr p) s2).
      { rewrite (bind_ok _ _ _ _ _ (hderef_ok s1 _ _ Hdt)).
        cbn [as_car as_ptr bindM ret]. rewrite (bind_ok _ _ _ _ _ (hset_ok s1 _ _ _ Hs)). reflexivity. }
      rewrite (bind_ok _ _ _ _ _ Htail).
      cbn [bindM ret]. rewrite (bind_ok _ _ _ _ _ (hderef_ok s2 _ _ Hd2)). reflexivity. }
    rewrite Hstep. cbn [length] in Hf.
    assert (Hlen2 : length (ps ++ [t]) = length (cs ++ [c])) by (rewrite !app_length; cbn; lia).
    pose proof (IH s2 a2 d2 e h p nilp (ps ++ [t]) (cs ++ [c]) a f W0 Hc0 Ta2 Td2 Inv2 Hlen2 ltac:(lia) ce Hce) as R.
    destruct (is_nil ce); [|exact R].
    destruct R as (t' & s' & ps' & cs' & c' & E & Inv' & Hl' & Hcs' & Hst').
    exists t', s', ps', cs', c'. refine (conj E (conj Inv' (conj Hl' (conj _ _)))).
    + rewrite Hcs'. cbn [map fst]. rewrite <- !app_assoc. reflexivity.
    + eapply same_regs_trans; [|exact Hst']. exact Hx1.
Qed.

Lemma clone_list_spec fuel s0 a d cells e :
  values_are_refs s0 -> pchain (hp s0) (VPtr d) cells e -> target_ok s0 a -> target_ok s0 d ->
  (length cells + 2 < fuel)%nat ->
  forall ce, heap_deref (hp s0) e = Ok ce ->
  if is_nil ce then
    exists h t nilp s' ps cs c,
      clone_list fuel (VPair a d) s0 = ROk (VPtr h, VPtr t) s' /\
      clone_inv s0 s' h t nilp ps cs c /\ length ps = length cs /\
      cs ++ [c] = a :: map fst cells /\ same_regs s0 s'
  else render_fail (clone_list fuel (VPair a d) s0).
Proof.
  intros W0 Hpc Ta Td Hf ce Hce.
  (* the cell holding () *)
  assert (Hnilc : new_cell_ok s0 VNil) by exact I.
  destruct (hput_new s0 VNil W0 Hnilc) as (nilp & hA & EA & FA).
  destruct (fresh_wf s0 VNil nilp hA W0 Hnilc FA) as (WA & TnA).
  pose proof (fresh_pres _ _ _ _ FA) as PA.
  set (sA := with_heap s0 hA) in *.
  destruct (cons_cell sA a nilp WA (pres_target_ok _ _ _ PA Ta) TnA)
    as (p & sB & EB & PB & WB & TB & HnlB & ApB & HpB & HxB1 & HxB2 & HxB3 & HxB4 & Ecell).
  assert (P0B : pres s0 sB) by (eapply pres_trans; eauto).
  assert (HregB : same_regs s0 sB) by (repeat split; assumption).
  assert (Inv : clone_inv s0 sB p p nilp [] [] a).
  { unfold clone_inv. cbn [app].
    destruct FA as (_ & HnlA & HliveA & _ & HgA & _).
    refine (conj P0B (conj WB (conj _ (conj _ (conj _ (conj _ (conj _ (conj _ HnlA)))))))).
    - econstructor; [exact Ecell | constructor].
    - constructor; [intros [] | constructor].
    - constructor; [|constructor]. split; [|exact (proj1 TB)].
      intros Hl. apply HnlB. destruct PA as (Q & _). auto.
    - constructor; [|constructor]. exact (pres_target_ok s0 sB a P0B Ta).
    - exact (pres_target_ok sA sB nilp PB TnA).
    - destruct PB as (_ & Q2 & _). rewrite Q2 by (exact (proj1 TnA)). exact HgA. }
  assert (Hd2 : heap_deref (hp sB) (VPtr d) = heap_deref (hp s0) (VPtr d)) by (apply (pres_deref s0 sB (VPtr d) P0B Td)).
  destruct fuel as [|f]; [lia|].
  assert (Hrun : clone_list (S f) (VPair a d) s0 =
     (dom rest' <- hderef (VPtr d);
      if is_pair rest' then clone_loop (S f) f (VPair a d) rest' (VPtr p) (VPtr p) nilp
      else if is_nil rest' then ret (VPtr p, VPtr p) else fail_cell (S f) (VPair a d)) sB).
  { unfold clone_list. cbn [is_pair negb]. rewrite (bind_ok _ _ _ _ _ EA). fold sA.
    cbn [as_ptr bindM ret clone_loop as_car as_cdr is_nil]. rewrite (bind_ok _ _ _ _ _ EB). reflexivity. }
  rewrite Hrun.
  inversion Hpc as [v0 c0 Hd0 Hp0 | v0 a2 d2 cells0 e0 Hd0 Hc0]; subst.
  - rewrite Hd0 in Hce. injection Hce as <-.
    rewrite (bind_ok _ _ _ _ _ (hderef_ok sB _ _ (eq_trans Hd2 Hd0))). rewrite Hp0.
    destruct (is_nil c0); [|apply fail_cell_render_fail].
    exists p, p, nilp, sB, [], [], a. refine (conj eq_refl (conj Inv (conj eq_refl (conj eq_refl HregB)))).
  - rewrite (bind_ok _ _ _ _ _ (hderef_ok sB _ _ (eq_trans Hd2 Hd0))). cbn [is_pair].
    pose proof W0 as (_ & Hpairs & _). cbn [heap_deref] in Hd0. destruct (Hpairs _ _ _ Hd0) as (Ta2 & Td2).
    cbn [length] in Hf.
    pose proof (clone_loop_spec (S f) (VPair a d) s0 cells0 sB a2 d2 e p p nilp [] [] a f W0 Hc0 Ta2 Td2 Inv eq_refl
                  ltac:(lia) ce Hce) as R.
    destruct (is_nil ce); [|exact R].
    destruct R as (t' & s' & ps' & cs' & c' & E & Inv' & Hl' & Hcs' & Hreg').
    exists p, t', nilp, s', ps', cs', c'. refine (conj E (conj Inv' (conj Hl' (conj _ _)))).
    + rewrite Hcs'. reflexivity.
    + eapply same_regs_trans; eauto.
Qed.

Lemma cchain_head_ok s p ps cs e :
  cchain (hp s) p ps cs e -> ps <> [] -> live (hp s) p -> target_ok s p.
Proof.
  intros Hc Hne Hl. destruct Hc as [|p c d ps cs e Hp Hc]; [contradiction|].
  split; [exact Hl|]. exists (VPair c d). split; [exact Hp | exact I].
Qed.

Lemma append_loop_spec fuel s0 : forall rl xss,
  Forall2 (fun l xs => val_ok s0 l /\ achain (abs s0) (absv s0 l) xs (AImm VNil) /\
                       (length xs + 2 < fuel)%nat) rl xss ->
  forall rl2 sk tl locs cars lastp,
  values_are_refs s0 -> pres s0 sk -> values_are_refs sk ->
  stack_top (stack sk) (scap sk) (sp sk) (rl ++ rl2) -> target_ok sk tl ->
  cchain (hp sk) tl locs cars lastp ->
  Forall (fun p => ~ live (hp s0) p /\ live (hp sk) p) locs -> Forall (target_ok s0) cars ->
  exists r s' locs' cars',
    append_loop fuel (length (rl ++ rl2)) (VPtr tl) sk = append_loop fuel (length rl2) (VPtr r) s' /\
    stack_top (stack s') (scap s') (sp s') rl2 /\
    pres s0 s' /\ values_are_refs s' /\ target_ok s' r /\
    cchain (hp s') r (locs' ++ locs) (cars' ++ cars) lastp /\
    Forall (fun p => ~ live (hp s0) p /\ live (hp s') p) (locs' ++ locs) /\
    Forall (target_ok s0) cars' /\
    map (fun c => absv s0 (VPtr c)) cars' = concat (rev xss).
Proof.
  intros rl xss HF. induction HF as [|l xs rl xss (Hvl & Hch & Hfuel) HF IH];
    intros rl2 sk tl locs cars lastp W0 P0 Wk Hst Ttl Hacc Hfresh Hcars.
  - exists tl, sk, [], []. cbn [app map rev concat]. cbn [app] in Hst.
    refine (conj eq_refl (conj Hst (conj P0 (conj Wk (conj Ttl (conj Hacc (conj Hfresh (conj _ eq_refl)))))))). constructor.
  - cbn [app length append_loop]. cbn [app] in Hst.
    set (sk1 := with_sp sk (sp sk - 1)).
    pose proof (stack_top_tail _ _ _ _ _ Hst) as Hst1.
    destruct (achain_pchain s0 W0 _ _ _ Hch l Hvl eq_refl) as (cells & e' & Hpc & Hm & He & Hve).
    destruct (pchain_end_deref _ _ _ _ Hpc) as (ce & Hce & Hpe).
    assert (Ece : ce = VNil) by (apply (nil_deref s0 e' ce Hve Hce); exact He). subst ce.
    assert (Hpop : pop_value sk = lift (heap_deref (hp s0) l) sk1).
    { rewrite (pop_value_top sk l (rl ++ rl2) Hst). fold sk1. f_equal. apply (pres_deref s0 sk l P0 Hvl). }
    unfold bindM at 1. rewrite Hpop.
    inversion Hpc as [v0 c0 Hd0 Hp0 | v0 a d cells0 e0 Hd0 Hc0]; subst.
    + (* the empty list: skipped *)
      rewrite Hd0 in Hce. injection Hce as ->. rewrite Hd0. unfold lift.
      destruct (IH rl2 sk1 tl locs cars lastp W0 P0 Wk Hst1 Ttl Hacc Hfresh Hcars)
        as (r & s' & locs' & cars' & E & R0 & R1 & R2 & R3 & R4 & R5 & R6 & R7).
      exists r, s', locs', cars'. refine (conj E (conj R0 (conj R1 (conj R2 (conj R3 (conj R4 (conj R5 (conj R6 _)))))))).
      cbn [map rev]. rewrite concat_app. cbn [concat]. rewrite !app_nil_r. exact R7.
    + (* a pair: copied, linked in front of the accumulated list *)
      rewrite Hd0. unfold lift.
      pose proof W0 as (_ & Hpairs0 & _).
      assert (Hg0 : exists pl, l = VPtr pl /\ heap_get (hp s0) pl = Ok (VPair a d)).
      { destruct l; cbn [val_ok] in Hvl; try contradiction; cbn [heap_deref] in Hd0; try discriminate. eauto. }
      destruct Hg0 as (pl & -> & Hg0). destruct (Hpairs0 _ _ _ Hg0) as (Ta0 & Td0).
      assert (Hpck : pchain (hp sk1) (VPtr d) cells0 e') by exact (pchain_pres s0 sk (VPtr d) cells0 e' W0 P0 Td0 Hc0).
      assert (Hcek : heap_deref (hp sk1) e' = Ok VNil) by (change (hp sk1) with (hp sk); rewrite (pres_deref s0 sk e' P0 Hve); exact Hce).
      cbn [map length] in Hfuel. rewrite map_length in Hfuel.
      pose proof (clone_list_spec fuel sk1 a d cells0 e' Wk Hpck (pres_target_ok _ _ _ P0 Ta0) (pres_target_ok _ _ _ P0 Td0)
                    ltac:(lia) VNil Hcek) as R. cbn [is_nil] in R.
      destruct R as (h & t & nilp & s2 & ps & cs & c & Ecl & Inv & Hlen & Hcs & Hreg).
      destruct Inv as (P12 & W2 & Hcc2 & Hnd2 & Hfl2 & Htg2 & Tn2 & Hgn2 & Hnn2).
      pose proof (cchain_last _ _ _ _ _ _ _ Hcc2 Hlen) as Hgt2.
      destruct (heap_set_ok (hp s2) t (VPair c tl) (heap_get_lt _ _ _ Hgt2)) as (h'' & Hs).
      destruct (heap_set_spec _ _ _ _ Hs) as (Hlt' & Hlen' & Hfl' & Hch' & Hgp & Hgo & Hco).
      assert (Tc2 : target_ok s2 c).
      { rewrite Forall_forall in Htg2. apply Htg2. apply in_or_app. right. now left. }
      assert (Ttl2 : target_ok s2 tl) by exact (pres_target_ok sk1 s2 tl P12 Ttl).
      destruct (set_pair_fields s2 t c nilp c tl h'' W2 Hgt2 Tc2 Ttl2 Hs) as (W3 & Habsv & Hval & _).
      set (s3 := with_heap s2 h'') in *.
      assert (Hnlt : ~ live (hp sk1) t /\ live (hp s2) t).
      { rewrite Forall_forall in Hfl2. apply (Hfl2 t). apply in_or_app. right. now left. }
      assert (P13 : pres sk1 s3) by exact (pres_after_set sk1 s2 t _ h'' P12 (proj1 Hnlt) Hs).
      assert (P03 : pres s0 s3) by (eapply pres_trans; [exact P0 | exact P13]).
      assert (Hlive3 : forall q, live (hp s2) q -> live (hp s3) q).
      { intros q. unfold live. cbn [s3 with_heap hp]. now rewrite Hlen', Hfl'. }
      (* the new chain, linked to the accumulated one *)
      assert (Hni : ~ In t ps).
      { apply NoDup_remove_2 in Hnd2. rewrite app_nil_r in Hnd2. exact Hnd2. }
      assert (Hnew : cchain (hp s3) h (ps ++ [t]) (cs ++ [c]) tl).
      { eapply (cchain_relink (hp s2)); [exact Hcc2 | exact Hni | exact Hlen | exact Hgo | exact Hgp]. }
      assert (Hold : cchain (hp s3) tl locs cars lastp).
      { eapply cchain_stable; [exact Hacc|]. intros q Hq.
        destruct P13 as (_ & Q2 & _). apply Q2. rewrite Forall_forall in Hfresh. exact (proj2 (Hfresh q Hq)). }
      pose proof (cchain_app _ _ _ _ _ _ _ _ Hnew Hold) as Hall.
      assert (Hfresh3 : Forall (fun p => ~ live (hp s0) p /\ live (hp s3) p) ((ps ++ [t]) ++ locs)).
      { apply Forall_app. split.
        - eapply Forall_impl; [|exact Hfl2]. intros q (Hq1 & Hq2). split; [|auto].
          intros Hl0. apply Hq1. destruct P0 as (Q & _). exact (Q q Hl0).
        - eapply Forall_impl; [|exact Hfresh]. intros q (Hq1 & Hq2). split; [exact Hq1|].
          destruct P13 as (Q & _). exact (Q q Hq2). }
      assert (Th3 : target_ok s3 h).
      { eapply cchain_head_ok; [exact Hnew | destruct ps; discriminate |].
        rewrite Forall_forall in Hfresh3. apply (Hfresh3 h).
        apply in_or_app. left. destruct ps; cbn [app] in *.
        - inversion Hnew; subst. now left.
        - inversion Hnew; subst. now left. }
      destruct (pchain_cells_ok s0 (VPtr d) cells0 e' W0 Td0 Hc0) as (Hcells & _).
      assert (Hcars3 : Forall (target_ok s0) ((cs ++ [c]) ++ cars)).
      { apply Forall_app. split; [|exact Hcars]. rewrite Hcs. constructor; [exact Ta0|].
        apply Forall_forall. intros q Hq. apply in_map_iff in Hq. destruct Hq as (ad & <- & Hin).
        rewrite Forall_forall in Hcells. exact (proj1 (Hcells ad Hin)). }
      assert (Hst3 : stack_top (stack s3) (scap s3) (sp s3) (rl ++ rl2)).
      { destruct Hreg as (_ & R2 & R3 & R4). cbn [s3 with_heap stack sp scap]. rewrite R2, R3, R4. exact Hst1. }
      destruct (IH rl2 s3 h ((ps ++ [t]) ++ locs) ((cs ++ [c]) ++ cars) lastp W0 P03 W3 Hst3 Th3 Hall Hfresh3 Hcars3)
        as (r & s' & locs' & cars' & E & R0 & R1 & R2 & R3 & R4 & R5 & R6 & R7).
      exists r, s', (locs' ++ (ps ++ [t])), (cars' ++ (cs ++ [c])).
      refine (conj _ (conj R0 (conj R1 (conj R2 (conj R3 (conj _ (conj _ (conj _ _)))))))).
      * rewrite (bind_ok _ _ _ _ _ Ecl).
        rewrite (bind_ok _ _ _ _ _ (hderef_ok s2 (VPtr t) _ Hgt2)).
        cbn [as_car as_ptr bindM ret]. rewrite (bind_ok _ _ _ _ _ (hset_ok s2 _ _ _ Hs)). exact E.
      * rewrite <- !app_assoc. rewrite <- !app_assoc in R4. exact R4.
      * rewrite <- !app_assoc. rewrite <- !app_assoc in R5. exact R5.
      * apply Forall_app. split; [exact R6|]. apply Forall_app in Hcars3. exact (proj1 Hcars3).
      * rewrite map_app, R7. cbn [rev]. rewrite concat_app. cbn [concat]. rewrite app_nil_r. f_equal.
        rewrite Hcs. cbn [map fst]. f_equal. rewrite map_map. reflexivity.
Qed.

Lemma Forall2_rev {A B} (R : A -> B -> Prop) l1 l2 : Forall2 R l1 l2 -> Forall2 R (rev l1) (rev l2).
Proof.
  induction 1 as [|x y l1 l2 Hxy HF IH]; cbn [rev]; [constructor|].
  apply Forall2_app; [exact IH | constructor; [exact Hxy | constructor]].
Qed.

(* append: a newly allocated list with the elements of all arguments but the last,
   sharing its tail with the last argument; nothing that existed before changes *)
Theorem append_refines fuel s lists last xss :
  values_are_refs s -> Forall (val_ok s) lists -> val_ok s last ->
  called_with s (lists ++ [last]) ->
  Forall2 (fun l xs => achain (abs s) (absv s l) xs (AImm VNil) /\ (length xs + 2 < fuel)%nat) lists xss ->
  exists r s' locs, call_builtin (append fuel) s = ROk r s' /\
    aprefix (abs s') (absv s' r) locs (concat xss) (absv s last) /\ fresh_in s locs /\
    pres s s' /\ values_are_refs s' /\ val_ok s' r.
Proof.
  intros W Hlists Hlast H HF. unfold called_with in H.
  rewrite rev_app_distr in H. cbn [rev app] in H.
  set (s1 := with_sp s (sp s - 1)).
  set (s2 := with_sp s1 (sp s1 - 1)).
  pose proof (stack_top_tail _ _ _ _ _ H) as H1.
  pose proof (stack_top_tail _ _ _ _ _ H1) as H2.
  destruct (hput_val s2 last W Hlast) as (lastp & s3 & E3 & P3 & W3 & T3 & A3 & Hst3 & Hsp3 & Hcp3 & Hx3).
  assert (Hlen : len (lists ++ [last]) = N.of_nat (length lists) + 1).
  { unfold len. rewrite app_length. cbn [length]. lia. }
  (* the lists, as seen from s3, in the order in which they are popped *)
  assert (HF3 : Forall2 (fun l xs => val_ok s3 l /\ achain (abs s3) (absv s3 l) xs (AImm VNil) /\
                                    (length xs + 2 < fuel)%nat) (rev lists) (rev xss)).
  { apply Forall2_rev. clear - HF Hlists W P3.
    induction HF as [|l xs ls xss (Hc & Hf) HF IH]; [constructor|].
    inversion Hlists; subst. constructor; [|now apply IH].
    refine (conj (pres_val_ok s s3 l P3 ltac:(assumption)) (conj _ Hf)).
    rewrite (pres_absv s s3 l P3) by assumption. eapply achain_pres; eauto. }
  assert (Hst : stack_top (stack s3) (scap s3) (sp s3) (rev lists)) by (rewrite Hst3, Hcp3, Hsp3; exact H2).
  assert (Hst' : stack_top (stack s3) (scap s3) (sp s3) (rev lists ++ [])) by (rewrite app_nil_r; exact Hst).
  destruct (append_loop_spec fuel s3 (rev lists) (rev xss) HF3 [] s3 lastp [] [] lastp W3 (pres_refl s3) W3 Hst' T3
              (cc_nil _ _) (Forall_nil _) (Forall_nil _))
    as (r & s' & locs & cars & E & _ & R1 & R2 & R3 & R4 & R5 & R6 & R7).
  rewrite app_nil_r in E. cbn [length append_loop] in E. unfold ret in E.
  rewrite !app_nil_r in R4. rewrite !app_nil_r in R5. rewrite rev_involutive in R7.
  assert (P : pres s s') by (eapply pres_trans; [exact P3 | exact R1]).
  exists (VPtr r), s', locs. refine (conj _ (conj _ (conj _ (conj P (conj R2 R3))))).
  - assert (Hrun : append fuel s = ROk (VPtr r) s').
    { unfold append.
      assert (Hp : pop_argc 0 None s = ROk (len (lists ++ [last])) s1).
      { rewrite (pop_argc_top _ _ _ _ _ H). rewrite (proj2 (N.ltb_ge _ 0) (N.le_0_l _)). reflexivity. }
      rewrite (bind_ok _ _ _ _ _ Hp). rewrite Hlen.
      assert (E0 : (N.of_nat (length lists) + 1 =? 0) = false) by (apply N.eqb_neq; lia). rewrite E0.
      rewrite (bind_ok _ _ _ _ _ (pop_raw_top s1 last _ H1)). fold s2.
      rewrite (bind_ok _ _ _ _ _ E3).
      rewrite (bind_ok _ _ _ _ _ (usub_ok (N.of_nat (length lists) + 1) 1 s3 ltac:(lia))).
      replace (N.to_nat (N.of_nat (length lists) + 1 - 1)) with (length (rev lists)) by (rewrite rev_length; lia).
      exact E. }
    unfold call_builtin. rewrite (bind_ok _ _ _ _ _ Hrun). reflexivity.
  - pose proof (cchain_aprefix s' r locs cars lastp R4) as Hap.
    assert (Em : map (fun c => absv s' (VPtr c)) cars = concat xss).
    { rewrite <- R7. apply map_ext_in. intros c Hc. rewrite Forall_forall in R6.
      apply (pres_absv s3 s' (VPtr c) R1). exact (R6 c Hc). }
    rewrite Em in Hap.
    rewrite (pres_absv s3 s' (VPtr lastp) R1 T3), A3 in Hap. exact Hap.
  - unfold fresh_in. eapply Forall_impl; [|exact R5]. intros p (Hp1 & _) Hl.
    apply Hp1. destruct P3 as (Q & _). exact (Q p Hl).
Qed.

(* ===================================================================== list? *)
Lemma pchain_fun h v c1 e1 : pchain h v c1 e1 -> forall c2 e2, pchain h v c2 e2 -> c1 = c2 /\ e1 = e2.
Proof.
  intros H1. induction H1 as [v c Hd Hp | v a d cells e Hd Hc IH]; intros c2 e2 H2.
  - inversion H2 as [v0 c0 Hd0 Hp0 | v0 a0 d0 cells0 e0 Hd0 Hc0]; subst; [auto|].
    rewrite Hd in Hd0. injection Hd0 as ->. discriminate.
  - inversion H2 as [v0 c0 Hd0 Hp0 | v0 a0 d0 cells0 e0 Hd0 Hc0]; subst.
    + rewrite Hd in Hd0. injection Hd0 as <-. discriminate.
    + rewrite Hd in Hd0. injection Hd0 as <- <-. destruct (IH _ _ Hc0) as (-> & ->). auto.
Qed.

Lemma pchain_suffix h v cells e :
  pchain h v cells e -> forall i a d, nth_error cells i = Some (a, d) ->
  pchain h (VPtr d) (skipn (S i) cells) e.
Proof.
  intros Hc. induction Hc as [v c Hd Hp | v a0 d0 cells e Hd Hc IH]; intros i a d En.
  - destruct i; discriminate.
  - destruct i as [|i]; cbn [nth_error] in En.
    + injection En as -> ->. cbn [skipn]. exact Hc.
    + cbn [skipn]. exact (IH i a d En).
Qed.

Lemma pchain_cdr_distinct h v cells e :
  pchain h v cells e -> forall i j ai di aj dj,
  nth_error cells i = Some (ai, di) -> nth_error cells j = Some (aj, dj) -> di = dj -> i = j.
Proof.
  intros Hc i j ai di aj dj Ei Ej Ed. subst dj.
  pose proof (pchain_suffix _ _ _ _ Hc _ _ _ Ei) as Si.
  pose proof (pchain_suffix _ _ _ _ Hc _ _ _ Ej) as Sj.
  destruct (pchain_fun _ _ _ _ Si _ _ Sj) as (El & _).
  apply (f_equal (@length _)) in El. rewrite !skipn_length in El.
  assert (i < length cells)%nat by (apply nth_error_Some; congruence).
  assert (j < length cells)%nat by (apply nth_error_Some; congruence).
  lia.
Qed.

Lemma nth_error_skipn {A} k : forall (l : list A) x, nth_error l k = Some x -> exists r, skipn k l = x :: r.
Proof.
  induction k as [|k IH]; intros [|y r] x E; try discriminate.
  - cbn in E. injection E as ->. cbn. eauto.
  - cbn [nth_error] in E. cbn [skipn]. now apply IH.
Qed.

(* the cell reached from the i-th pair of a finite chain *)
Lemma pchain_next h v cells e i a d :
  pchain h v cells e -> nth_error cells i = Some (a, d) ->
  match nth_error cells (S i) with
  | Some (a', d') => heap_deref h (VPtr d) = Ok (VPair a' d')
  | None => exists ce, heap_deref h (VPtr d) = Ok ce /\ is_pair ce = false /\ heap_deref h e = Ok ce
  end.
Proof.
  intros Hc En. pose proof (pchain_suffix _ _ _ _ Hc _ _ _ En) as Hs.
  destruct (nth_error cells (S i)) as [[a' d']|] eqn:En'.
  - destruct (nth_error_skipn _ _ _ En') as (r & Er).
    rewrite Er in Hs. inversion Hs; subst. assumption.
  - assert (Hsk : skipn (S i) cells = []).
    { apply nth_error_None in En'. apply skipn_all2. exact En'. }
    rewrite Hsk in Hs. inversion Hs as [v0 c0 Hd0 Hp0 |]; subst. exists c0. auto.
Qed.

Lemma is_list_loop_fin s v cells e ce :
  pchain (hp s) v cells e -> heap_deref (hp s) e = Ok ce -> is_pair ce = false ->
  forall (m i j : nat) (adv : bool) ai di aj dj f,
    (length cells - i = m)%nat -> (i < length cells)%nat ->
    nth_error cells i = Some (ai, di) -> nth_error cells j = Some (aj, dj) ->
    (if adv then i = 2 * j + 1 else i = 2 * j)%nat -> (m + 2 <= f)%nat ->
    is_list_loop f (VPair ai di) (VPair aj dj) adv s = ROk (VBool (is_nil ce)) s.
Proof.
  intros Hc Hce Hpe m. induction m as [|m IH]; intros i j adv ai di aj dj f Hm Hi Ei Ej Hadv Hf; [lia|].
  destruct f as [|f]; [lia|].
  cbn [is_list_loop is_pair negb as_cdr bindM ret].
  pose proof (pchain_next _ _ _ _ _ _ _ Hc Ei) as Hn.
  destruct (nth_error cells (S i)) as [[a' d']|] eqn:En'.
  - (* the next cell is a pair *)
    rewrite (bind_ok _ _ _ _ _ (hderef_ok s _ _ Hn)).
    assert (Hi' : (S i < length cells)%nat) by (apply nth_error_Some; congruence).
    destruct adv.
    + pose proof (pchain_next _ _ _ _ _ _ _ Hc Ej) as Hnj.
      assert (Hj' : (S j < length cells)%nat) by lia.
      destruct (nth_error cells (S j)) as [[a2 d2]|] eqn:Enj; [|apply nth_error_None in Enj; lia].
      cbn [as_cdr bindM ret]. rewrite (bind_ok _ _ _ _ _ (hderef_ok s _ _ Hnj)).
      cbn [is_pair pair_eqb andb].
      destruct ((a' =? a2) && (d' =? d2)) eqn:Eq.
      * exfalso. apply andb_prop in Eq. destruct Eq as (_ & Ed). apply N.eqb_eq in Ed.
        pose proof (pchain_cdr_distinct _ _ _ _ Hc _ _ _ _ _ _ En' Enj Ed). lia.
      * cbn [negb]. apply (IH (S i) (S j) false a' d' a2 d2 f); auto; lia.
    + cbn [negb]. apply (IH (S i) j true a' d' aj dj f); auto; lia.
  - (* the chain ends *)
    destruct Hn as (c2 & Hd2 & Hp2 & He2). rewrite Hce in He2. injection He2 as <-.
    rewrite (bind_ok _ _ _ _ _ (hderef_ok s _ _ Hd2)).
    destruct f as [|f]; [lia|].
    destruct adv.
    + pose proof (pchain_next _ _ _ _ _ _ _ Hc Ej) as Hnj.
      cbn [as_cdr bindM ret].
      destruct (nth_error cells (S j)) as [[a2 d2]|] eqn:Enj.
      * rewrite (bind_ok _ _ _ _ _ (hderef_ok s _ _ Hnj)). rewrite Hpe. cbn [andb negb is_list_loop].
        rewrite Hpe. reflexivity.
      * destruct Hnj as (c3 & Hd3 & _). rewrite (bind_ok _ _ _ _ _ (hderef_ok s _ _ Hd3)).
        rewrite Hpe. cbn [andb negb is_list_loop]. rewrite Hpe. reflexivity.
    + cbn [negb is_list_loop]. rewrite Hpe. reflexivity.
Qed.

Theorem is_list_refines fuel s v xs e :
  values_are_refs s -> val_ok s v -> called_with s [v] ->
  achain (abs s) (absv s v) xs e -> (length xs + 3 < fuel)%nat ->
  exists s', is_list fuel s = ROk (VBool (match e with AImm VNil => true | _ => false end)) s' /\
             hp s' = hp s /\ st s' = st s.
Proof.
  intros W Hv H Hch Hfuel. unfold called_with in H. cbn [len length rev app N.of_nat Pos.of_succ_nat] in H.
  set (s1 := with_sp s (sp s - 1)).
  set (s2 := with_sp s1 (sp s1 - 1)).
  pose proof (stack_top_tail _ _ _ _ _ H) as H1.
  destruct (achain_pchain s W _ _ _ Hch v Hv eq_refl) as (cells & e' & Hpc & Hm & He & Hve).
  assert (Hlen : length cells = length xs) by (rewrite <- Hm; now rewrite map_length).
  destruct (pchain_end_deref _ _ _ _ Hpc) as (ce & Hce & Hpe).
  assert (Hnil : is_nil ce = match e with AImm VNil => true | _ => false end).
  { pose proof (nil_deref s e' ce Hve Hce) as Hn. rewrite He in Hn.
    destruct (is_nil ce) eqn:En.
    - destruct ce; try discriminate. rewrite (proj2 Hn eq_refl). reflexivity.
    - destruct e as [w| |]; try reflexivity. destruct w; try reflexivity.
      rewrite (proj1 Hn eq_refl) in En. discriminate. }
  exists s2. refine (conj _ (conj eq_refl eq_refl)). rewrite <- Hnil.
  destruct (val_deref s v Hv) as (c & Hc & _ & _).
  assert (Hrun : is_list fuel s = is_list_loop fuel c c false s2).
  { unfold is_list. pop_argc_tac H s 1 1 (Some 1). fold s1.
    unfold bindM at 1. rewrite (pop_value_top s1 v [] H1). fold s2. unfold lift.
    change (hp s1) with (hp s). rewrite Hc. reflexivity. }
  rewrite Hrun.
  inversion Hpc as [v0 c0 Hd0 Hp0 | v0 a d cells0 e0 Hd0 Hc0]; subst.
  - rewrite Hc in Hd0. injection Hd0 as <-. rewrite Hce in Hc. injection Hc as ->.
    destruct fuel as [|f]; [lia|]. cbn [is_list_loop]. rewrite Hp0. reflexivity.
  - rewrite Hc in Hd0. injection Hd0 as ->.
    assert (Hpc2 : pchain (hp s2) v ((a, d) :: cells0) e') by exact Hpc.
    rewrite map_length in Hlen, Hfuel. cbn [length] in Hlen, Hfuel.
    apply (is_list_loop_fin s2 v ((a, d) :: cells0) e' ce Hpc2 Hce Hpe
             (length ((a, d) :: cells0)) 0%nat 0%nat false a d a d fuel); cbn [length nth_error]; auto; lia.
Qed.

(* ============================================ from apply_builtin to called_with *)
(* Stack::push on the slot table: never fails; when sp + 1 reaches the capacity the
   capacity doubles, so sp stays below it *)
Lemma push_spec s v :
  sp s < scap s ->
  exists s', push v s = ROk tt s' /\ sp s' = sp s + 1 /\ sp s' < scap s' /\ scap s <= scap s' /\
    tget (stack s') (sp s') = Some v /\
    (forall j, j <= sp s -> tget (stack s') j = tget (stack s) j) /\
    hp s' = hp s /\ st s' = st s.
Proof.
  intros Hinv. unfold push.
  set (cap := if sp s + 1 <? scap s then scap s else scap s * 2).
  assert (Hcap : sp s + 1 < cap /\ scap s <= cap).
  { unfold cap. destruct (N.ltb_spec (sp s + 1) (scap s)); lia. }
  eexists. split; [reflexivity|]. cbn [with_scap with_stack sp stack scap hp st].
  refine (conj eq_refl (conj (proj1 Hcap) (conj (proj2 Hcap) (conj _ (conj _ (conj eq_refl eq_refl)))))).
  - apply tget_tset_same.
  - intros j Hj. apply tget_tset_other. lia.
Qed.

Lemma stack_top_ext stk stk' cap cap' p r :
  (forall j, j <= p -> tget stk' j = tget stk j) -> cap <= cap' ->
  stack_top stk cap p r -> stack_top stk' cap' p r.
Proof.
  intros Hext Hc. revert p Hext. induction r as [|v r IH]; intros p Hext H; cbn [stack_top] in *; [exact I|].
  destruct H as (Hne & Hlt & Hg & Hr). refine (conj Hne (conj _ (conj _ _))).
  - lia.
  - rewrite Hext by lia. exact Hg.
  - apply IH; [|exact Hr]. intros j Hj. apply Hext. lia.
Qed.

Lemma push_all_spec args : forall s below,
  sp s < scap s -> stack_top (stack s) (scap s) (sp s) below ->
  exists s', push_all args s = ROk tt s' /\ sp s' < scap s' /\
    stack_top (stack s') (scap s') (sp s') (rev args ++ below) /\ hp s' = hp s /\ st s' = st s.
Proof.
  induction args as [|a r IH]; intros s below Hinv Hb; cbn [push_all rev app].
  - exists s. repeat split; auto.
  - destruct (push_spec s a Hinv) as (s1 & E1 & Hsp1 & Hinv1 & Hcap1 & Hg1 & Hlow1 & Hh1 & Hs1).
    rewrite (bind_ok _ _ _ _ _ E1).
    assert (Hb1 : stack_top (stack s1) (scap s1) (sp s1) (a :: below)).
    { cbn [stack_top]. refine (conj _ (conj Hinv1 (conj _ _))); [lia | now rewrite Hg1 |].
      replace (sp s1 - 1) with (sp s) by lia. eapply stack_top_ext; [exact Hlow1 | exact Hcap1 | exact Hb]. }
    destruct (IH s1 (a :: below) Hinv1 Hb1) as (s' & E & Hinv' & Ht & Hh & Hs').
    exists s'. rewrite <- app_assoc. cbn [app]. repeat split; auto; congruence.
Qed.

(* the machine state in which a builtin finds itself when it is applied to [args] *)
Theorem apply_builtin_called b args s :
  sp s < scap s ->
  exists s1, apply_builtin b args s = call_builtin b s1 /\ called_with s1 args /\
             hp s1 = hp s /\ st s1 = st s.
Proof.
  intros Hinv.
  destruct (push_all_spec args s [] Hinv I) as (s0 & E0 & Hinv0 & Ht0 & Hh0 & Hs0).
  destruct (push_spec s0 (VArgc (len args)) Hinv0) as (s1 & E1 & Hsp1 & Hinv1 & Hcap1 & Hg1 & Hlow1 & Hh1 & Hs1).
  exists s1. refine (conj _ (conj _ (conj _ _))); try congruence.
  - unfold apply_builtin. rewrite (bind_ok _ _ _ _ _ E0), (bind_ok _ _ _ _ _ E1). reflexivity.
  - unfold called_with. cbn [stack_top]. refine (conj _ (conj Hinv1 (conj _ _))); [lia | now rewrite Hg1 |].
    replace (sp s1 - 1) with (sp s0) by lia. rewrite app_nil_r in Ht0.
    eapply stack_top_ext; [exact Hlow1 | exact Hcap1 | exact Ht0].
Qed.

Lemma pres_hp_st s t s' : hp t = hp s -> st t = st s -> pres t s' -> pres s s'.
Proof. intros E1 E2. unfold pres. now rewrite E1, E2. Qed.

(* end to end: the CALL of cons on a machine whose stack pointer is in range *)
Theorem apply_cons s a b :
  sp s < scap s -> values_are_refs s -> val_ok s a -> val_ok s b ->
  exists p s', apply_builtin cons_ [a; b] s = ROk (VPtr p) s' /\
    ~ live (hp s) p /\ a_pair (abs s') p = Some (absv s a, absv s b) /\
    pres s s' /\ values_are_refs s' /\ target_ok s' p.
Proof.
  intros Hinv W Ha Hb.
  destruct (apply_builtin_called cons_ [a; b] s Hinv) as (s1 & E & Hc & E1 & E2).
  destruct (cons_refines s1 a b (wf_hp_st s s1 E1 E2 W) (val_ok_hp s s1 a E1 Ha) (val_ok_hp s s1 b E1 Hb) Hc)
    as (p & s' & Ec & Hnl & Hp & P & W' & T' & _).
  exists p, s'. rewrite E. refine (conj Ec (conj _ (conj _ (conj _ (conj W' T'))))).
  - now rewrite <- E1.
  - rewrite Hp. now rewrite !(absv_hp s s1 _ E1).
  - eapply pres_hp_st; eauto.
Qed.

(* ============================================================================
   HAND MODEL of prelude.scm:147-258 (Model/PreludeLists.v).  The theorems below are
   about that hand model, NOT about the generated prelude run by the VM model; they are
   to be re-established there (DESIGN C14 prelude_list_ok).
   ============================================================================ *)
From MW Require Import Model.PreludeLists.

Lemma hput_nil_fresh s :
  values_are_refs s ->
  exists p s', hput VNil s = ROk (VPtr p) s' /\ pres s s' /\ values_are_refs s' /\ target_ok s' p /\
    absv s' (VPtr p) = AImm VNil /\ ~ live (hp s) p /\ st s' = st s.
Proof.
  intros W. assert (Hn : new_cell_ok s VNil) by exact I.
  destruct (hput_new s VNil W Hn) as (p & h' & E & F).
  destruct (fresh_wf s VNil p h' W Hn F) as (W' & T').
  pose proof (fresh_pres _ _ _ _ F) as P.
  exists p, (with_heap s h'). destruct F as (_ & Hnl & _ & _ & Hg & _).
  refine (conj E (conj P (conj W' (conj T' (conj _ (conj Hnl eq_refl)))))).
  cbn [absv with_heap hp]. now rewrite Hg.
Qed.

(* the VARARG loop: the same allocation pattern as vector->list *)
Lemma vararg_go_spec rl : forall s tp,
  values_are_refs s -> Forall (val_ok s) rl -> target_ok s tp ->
  exists r s' locs,
    (fix go (l : list vcell) (acc : N) : M N :=
       match l with
       | [] => ret acc
       | x :: r => dom px <- hput x; dom xp <- as_ptr px; dom pp <- hput (VPair xp acc); dom p <- as_ptr pp; go r p
       end) rl tp s = ROk r s' /\ pres s s' /\ values_are_refs s' /\ target_ok s' r /\
    aprefix (abs s') (absv s' (VPtr r)) locs (rev (map (absv s) rl)) (absv s (VPtr tp)) /\
    fresh_in s locs.
Proof.
  induction rl as [|x r IH]; intros s tp W Hrl Tt.
  - exists tp, s, []. refine (conj eq_refl (conj (pres_refl s) (conj W (conj Tt (conj _ _))))).
    + cbn [map rev]. constructor.
    + constructor.
  - inversion Hrl as [|? ? Hx Hr]; subst.
    destruct (hput_val s x W Hx) as (ca & s1 & E1 & P1 & W1 & T1 & A1 & _).
    assert (Tt1 : target_ok s1 tp) by (eapply pres_target_ok; eauto).
    destruct (cons_cell s1 ca tp W1 T1 Tt1) as (p & s2 & E2 & P2 & W2 & T2 & Hnl2 & Ap2 & Hp2 & _).
    assert (P12 : pres s s2) by (eapply pres_trans; eauto).
    assert (Hr2 : Forall (val_ok s2) r).
    { eapply Forall_impl; [|exact Hr]. intros y. now apply pres_val_ok. }
    destruct (IH s2 p W2 Hr2 T2) as (r' & s' & locs & E3 & P3 & W3 & T3 & Hpre & Hfr).
    exists r', s', (locs ++ [p]).
    refine (conj _ (conj _ (conj W3 (conj T3 (conj _ _))))).
    + rewrite (bind_ok _ _ _ _ _ E1). cbn [as_ptr bindM ret]. rewrite (bind_ok _ _ _ _ _ E2).
      cbn [as_ptr bindM ret]. exact E3.
    + eapply pres_trans; eauto.
    + cbn [map rev]. rewrite Ap2 in Hpre.
      assert (Em : map (absv s2) r = map (absv s) r).
      { apply map_ext_in. intros y Hy. apply (pres_absv s s2 y P12). rewrite Forall_forall in Hr. auto. }
      rewrite Em in Hpre.
      eapply aprefix_snoc; [exact Hpre|].
      rewrite (pres_a_pair s2 s' p W2 P3) by (exact (proj1 T2)).
      rewrite Hp2. f_equal. f_equal; [exact A1|].
      apply (pres_absv s s1 (VPtr tp) P1 Tt).
    + unfold fresh_in. apply Forall_app. split.
      * apply (fresh_in_pres s s2 locs P12 Hfr).
      * constructor; [|constructor]. intros Hl. apply Hnl2. destruct P1 as (Q1 & _). auto.
Qed.

(* (list a ...): a newly allocated proper list of the arguments *)
Theorem prelude_list_spec s args :
  values_are_refs s -> Forall (val_ok s) args ->
  exists r s' locs, p_list args s = ROk r s' /\
    aprefix (abs s') (absv s' r) locs (map (absv s) args) (AImm VNil) /\ fresh_in s locs /\
    pres s s' /\ values_are_refs s'.
Proof.
  intros W Hargs. unfold p_list, vararg_list.
  destruct args as [|a [|b rest]].
  - (* no argument: the fresh () cell *)
    destruct (hput_nil_fresh s W) as (np & s1 & E1 & P1 & W1 & T1 & A1 & Hnl1 & _).
    exists (VPtr np), s1, []. refine (conj _ (conj _ (conj _ (conj P1 W1)))).
    + rewrite (bind_ok _ _ _ _ _ E1). reflexivity.
    + cbn [map]. rewrite A1. constructor.
    + constructor.
  - (* exactly one argument: converted in place *)
    inversion Hargs as [|? ? Ha _]; subst.
    destruct (hput_val s a W Ha) as (ap & s1 & E1 & P1 & W1 & T1 & A1 & _).
    destruct (hput_nil_fresh s1 W1) as (np & s2 & E2 & P2 & W2 & T2 & A2 & Hnl2 & _).
    destruct (cons_cell s2 ap np W2 (pres_target_ok _ _ _ P2 T1) T2) as (p & s3 & E3 & P3 & W3 & T3 & Hnl3 & Ap3 & Hp3 & _).
    assert (P : pres s s3) by (eapply pres_trans; [exact P1 | eapply pres_trans; eauto]).
    exists (VPtr p), s3, [p]. refine (conj _ (conj _ (conj _ (conj P W3)))).
    + rewrite (bind_ok _ _ _ _ _ E1). cbn [as_ptr bindM ret]. rewrite (bind_ok _ _ _ _ _ E2).
      cbn [as_ptr bindM ret]. exact E3.
    + cbn [map]. rewrite Ap3. econstructor; [|constructor].
      rewrite Hp3, A2. f_equal. f_equal. rewrite (pres_absv s1 s2 (VPtr ap) P2 T1). exact A1.
    + constructor; [|constructor]. intros Hl. apply Hnl3.
      destruct P1 as (Q1 & _), P2 as (Q2 & _). auto.
  - (* two or more *)
    destruct (hput_nil_fresh s W) as (np & s1 & E1 & P1 & W1 & T1 & A1 & Hnl1 & _).
    assert (Hrl : Forall (val_ok s1) (rev (a :: b :: rest))).
    { apply Forall_rev. eapply Forall_impl; [|exact Hargs]. intros y. now apply pres_val_ok. }
    destruct (vararg_go_spec (rev (a :: b :: rest)) s1 np W1 Hrl T1) as (r & s' & locs & E & P2 & W2 & T2 & Hpre & Hfr).
    exists (VPtr r), s', locs. refine (conj _ (conj _ (conj _ (conj _ W2)))).
    + rewrite (bind_ok _ _ _ _ _ E1). cbn [as_ptr bindM ret]. rewrite (bind_ok _ _ _ _ _ E). reflexivity.
    + rewrite map_rev, rev_involutive, A1 in Hpre.
      assert (Em : map (absv s1) (a :: b :: rest) = map (absv s) (a :: b :: rest)).
      { apply map_ext_in. intros y Hy. apply (pres_absv s s1 y P1). rewrite Forall_forall in Hargs. auto. }
      rewrite Em in Hpre. exact Hpre.
    + apply (fresh_in_pres s s1 locs P1 Hfr).
    + eapply pres_trans; eauto.
Qed.

(* ------------------------------------------------------- list? on circular lists *)
(* A circular list seen unrolled: an infinite sequence of pair cells [c i] = (car, cdr)
   in which the cdr of cell i is the address of cell i+1.  Whenever cell 2*t0 and cell t0
   coincide for some t0 >= 1 — on a circular list with a handle of k pairs and a cycle of
   l pairs this holds for the least multiple t0 of l with t0 >= max k 1 — the second
   cursor (fix F11) stops the loop with #f after at most 2*t0 iterations. *)
Lemma is_list_loop_meet s (c : nat -> N * N) t0 :
  (forall i, heap_deref (hp s) (VPtr (snd (c i))) = Ok (VPair (fst (c (S i))) (snd (c (S i))))) ->
  c (2 * t0)%nat = c t0 ->
  forall m t f, (t + m = t0)%nat -> (1 <= m)%nat -> (2 * m <= f)%nat ->
    is_list_loop f (VPair (fst (c (2 * t)%nat)) (snd (c (2 * t)%nat)))
                   (VPair (fst (c t)) (snd (c t))) false s = ROk (VBool false) s.
Proof.
  intros Hnext Hmeet m. induction m as [|m IH]; intros t f Ht Hm Hf; [lia|].
  destruct f as [|[|f]]; try lia.
  (* first iteration: only the fast cursor moves *)
  cbn [is_list_loop is_pair negb as_cdr bindM ret].
  rewrite (bind_ok _ _ _ _ _ (hderef_ok s _ _ (Hnext (2 * t)%nat))).
  cbn [negb is_list_loop is_pair as_cdr bindM ret].
  (* second iteration: both move and are compared *)
  rewrite (bind_ok _ _ _ _ _ (hderef_ok s _ _ (Hnext (S (2 * t))))).
  cbn [bindM ret].
  rewrite (bind_ok _ _ _ _ _ (hderef_ok s _ _ (Hnext t))).
  cbn [is_pair andb pair_eqb].
  replace (S (S (2 * t))) with (2 * S t)%nat by lia.
  destruct ((fst (c (2 * S t)%nat) =? fst (c (S t))) && (snd (c (2 * S t)%nat) =? snd (c (S t)))) eqn:Eq;
    [reflexivity|].
  cbn [negb].
  destruct m as [|m].
  - (* the meeting point: the two cells are the same *)
    exfalso. replace t0 with (S t) in Hmeet by lia. rewrite Hmeet in Eq.
    rewrite !N.eqb_refl in Eq. discriminate.
  - apply IH; lia.
Qed.

Theorem is_list_circular fuel s v (c : nat -> N * N) t0 :
  val_ok s v -> called_with s [v] ->
  heap_deref (hp s) v = Ok (VPair (fst (c O)) (snd (c O))) ->
  (forall i, heap_deref (hp s) (VPtr (snd (c i))) = Ok (VPair (fst (c (S i))) (snd (c (S i))))) ->
  (1 <= t0)%nat -> c (2 * t0)%nat = c t0 -> (2 * t0 <= fuel)%nat ->
  exists s', is_list fuel s = ROk (VBool false) s' /\ hp s' = hp s /\ st s' = st s.
Proof.
  intros Hv H Hd0 Hnext Ht0 Hmeet Hfuel. unfold called_with in H. cbn [len length rev app N.of_nat Pos.of_succ_nat] in H.
  set (s1 := with_sp s (sp s - 1)).
  set (s2 := with_sp s1 (sp s1 - 1)).
  pose proof (stack_top_tail _ _ _ _ _ H) as H1.
  exists s2. refine (conj _ (conj eq_refl eq_refl)).
  unfold is_list. pop_argc_tac H s 1 1 (Some 1). fold s1.
  unfold bindM at 1. rewrite (pop_value_top s1 v [] H1). fold s2. unfold lift.
  change (hp s1) with (hp s). rewrite Hd0.
  exact (is_list_loop_meet s2 c t0 Hnext Hmeet t0 O fuel ltac:(lia) Ht0 Hfuel).
Qed.

(* the hypotheses of is_list_circular are satisfiable: a cycle of one or two pairs *)
Corollary is_list_self_loop fuel s p a :
  target_ok s p -> called_with s [VPtr p] -> heap_get (hp s) p = Ok (VPair a p) -> (2 <= fuel)%nat ->
  exists s', is_list fuel s = ROk (VBool false) s'.
Proof.
  intros T H Hg Hf.
  destruct (is_list_circular fuel s (VPtr p) (fun _ => (a, p)) 1%nat T H Hg (fun _ => Hg) ltac:(lia) eq_refl Hf)
    as (s' & E & _). eauto.
Qed.

Corollary is_list_two_cycle fuel s p q a b :
  target_ok s p -> called_with s [VPtr p] ->
  heap_get (hp s) p = Ok (VPair a q) -> heap_get (hp s) q = Ok (VPair b p) -> (4 <= fuel)%nat ->
  exists s', is_list fuel s = ROk (VBool false) s'.
Proof.
  intros T H Hp Hq Hf.
  set (c := fun i : nat => if Nat.even i then (a, q) else (b, p)).
  assert (Hnext : forall i, heap_deref (hp s) (VPtr (snd (c i))) = Ok (VPair (fst (c (S i))) (snd (c (S i))))).
  { intros i. unfold c. rewrite Nat.even_succ, <- Nat.negb_even. destruct (Nat.even i); cbn; assumption. }
  destruct (is_list_circular fuel s (VPtr p) c 2%nat T H Hp Hnext ltac:(lia) eq_refl Hf) as (s' & E & _). eauto.
Qed.

(* append: an improper list among the copied arguments is an error.  [bad] is the LAST
   improper argument (everything after it is a proper list); the arguments before it are
   never examined. *)
Theorem append_improper fuel s before bad after last xss xsb e :
  values_are_refs s -> Forall (val_ok s) (before ++ bad :: after) -> val_ok s last ->
  called_with s ((before ++ bad :: after) ++ [last]) ->
  Forall2 (fun l xs => achain (abs s) (absv s l) xs (AImm VNil) /\ (length xs + 2 < fuel)%nat) after xss ->
  achain (abs s) (absv s bad) xsb e -> e <> AImm VNil -> (length xsb + 2 < fuel)%nat ->
  render_fail (call_builtin (append fuel) s).
Proof.
  intros W Hall Hlast H HF Hbad Hne Hfb. unfold called_with in H.
  rewrite rev_app_distr in H. cbn [rev app] in H.
  set (lists := before ++ bad :: after) in *.
  assert (Hrev : rev lists = rev after ++ (bad :: rev before)).
  { unfold lists. rewrite rev_app_distr. cbn [rev]. rewrite <- app_assoc. reflexivity. }
  set (s1 := with_sp s (sp s - 1)).
  set (s2 := with_sp s1 (sp s1 - 1)).
  pose proof (stack_top_tail _ _ _ _ _ H) as H1.
  pose proof (stack_top_tail _ _ _ _ _ H1) as H2.
  destruct (hput_val s2 last W Hlast) as (lastp & s3 & E3 & P3 & W3 & T3 & A3 & Hst3 & Hsp3 & Hcp3 & Hx3).
  assert (Hlen : len (lists ++ [last]) = N.of_nat (length lists) + 1).
  { unfold len. rewrite app_length. cbn [length]. lia. }
  assert (Hafter : Forall (val_ok s) after /\ val_ok s bad).
  { unfold lists in Hall. apply Forall_app in Hall. destruct Hall as (_ & Hb). inversion Hb; subst. auto. }
  destruct Hafter as (Hafter & Hvb).
  assert (HF3 : Forall2 (fun l xs => val_ok s3 l /\ achain (abs s3) (absv s3 l) xs (AImm VNil) /\
                                    (length xs + 2 < fuel)%nat) (rev after) (rev xss)).
  { apply Forall2_rev. clear - HF Hafter W P3.
    induction HF as [|l xs ls xss (Hc & Hf) HF IH]; [constructor|].
    inversion Hafter; subst. constructor; [|now apply IH].
    refine (conj (pres_val_ok s s3 l P3 ltac:(assumption)) (conj _ Hf)).
    rewrite (pres_absv s s3 l P3) by assumption. eapply achain_pres; eauto. }
  assert (Hst : stack_top (stack s3) (scap s3) (sp s3) (rev after ++ bad :: rev before)).
  { rewrite Hst3, Hcp3, Hsp3, <- Hrev. exact H2. }
  destruct (append_loop_spec fuel s3 (rev after) (rev xss) HF3 (bad :: rev before) s3 lastp [] [] lastp W3
              (pres_refl s3) W3 Hst T3 (cc_nil _ _) (Forall_nil _) (Forall_nil _))
    as (r & s' & locs & cars & E & Hst' & R1 & R2 & _).
  assert (P : pres s s') by (eapply pres_trans; [exact P3 | exact R1]).
  (* the step that meets the improper list *)
  assert (Hfail : render_fail (append_loop fuel (length (bad :: rev before)) (VPtr r) s')).
  { cbn [length append_loop].
    set (sk1 := with_sp s' (sp s' - 1)).
    destruct (achain_pchain s W _ _ _ Hbad bad Hvb eq_refl) as (cells & e' & Hpc & Hm & He & Hve).
    destruct (pchain_end_deref _ _ _ _ Hpc) as (ce & Hce & Hpe).
    assert (Hcn : ce <> VNil).
    { intros ->. apply Hne. rewrite <- He. apply (nil_deref s e' VNil Hve Hce). reflexivity. }
    unfold bindM at 1. rewrite (pop_value_top s' bad _ Hst'). fold sk1.
    rewrite (pres_deref s s' bad P Hvb).
    inversion Hpc as [v0 c0 Hd0 Hp0 | v0 a d cells0 e0 Hd0 Hc0]; subst.
    - rewrite Hd0 in Hce. injection Hce as ->. rewrite Hd0. unfold lift.
      destruct ce; try contradiction; try discriminate Hp0; apply fail_cell_render_fail.
    - rewrite Hd0. unfold lift.
      pose proof W as (_ & Hpairs & _).
      assert (Hg0 : exists pl, heap_get (hp s) pl = Ok (VPair a d)).
      { destruct bad; cbn [val_ok] in Hvb; try contradiction; cbn [heap_deref] in Hd0; try discriminate. eauto. }
      destruct Hg0 as (pl & Hg0). destruct (Hpairs _ _ _ Hg0) as (Ta0 & Td0).
      assert (Hpck : pchain (hp sk1) (VPtr d) cells0 e') by exact (pchain_pres s s' (VPtr d) cells0 e' W P Td0 Hc0).
      assert (Hcek : heap_deref (hp sk1) e' = Ok ce) by (change (hp sk1) with (hp s'); rewrite (pres_deref s s' e' P Hve); exact Hce).
      cbn [map length] in Hfb. rewrite map_length in Hfb.
      pose proof (clone_list_spec fuel sk1 a d cells0 e' R2 Hpck (pres_target_ok _ _ _ P Ta0) (pres_target_ok _ _ _ P Td0)
                    ltac:(lia) ce Hcek) as R.
      assert (En : is_nil ce = false) by (destruct ce; try reflexivity; contradiction).
      rewrite En in R. apply render_fail_bind. exact R. }
  unfold call_builtin. apply render_fail_bind.
  unfold append.
  assert (Hp : pop_argc 0 None s = ROk (len (lists ++ [last])) s1).
  { rewrite (pop_argc_top _ _ _ _ _ H). rewrite (proj2 (N.ltb_ge _ 0) (N.le_0_l _)). reflexivity. }
  rewrite (bind_ok _ _ _ _ _ Hp). rewrite Hlen.
  assert (E0 : (N.of_nat (length lists) + 1 =? 0) = false) by (apply N.eqb_neq; lia). rewrite E0.
  rewrite (bind_ok _ _ _ _ _ (pop_raw_top s1 last _ H1)). fold s2.
  rewrite (bind_ok _ _ _ _ _ E3).
  rewrite (bind_ok _ _ _ _ _ (usub_ok (N.of_nat (length lists) + 1) 1 s3 ltac:(lia))).
  replace (N.to_nat (N.of_nat (length lists) + 1 - 1)) with (length (rev after ++ bad :: rev before))
    by (rewrite <- Hrev, rev_length; lia).
  rewrite E. exact Hfail.
Qed.

(* ---------------------------------------------- hand model: calls in sequence *)
(* a computation that leaves the stack slots and capacity alone and does not raise sp *)
Definition regs_mono {A} (m : M A) : Prop :=
  forall s a s', m s = ROk a s' -> scap s' = scap s /\ sp s' <= sp s.

Lemma mono_ret {A} (a : A) : regs_mono (ret a).
Proof. intros s x s' [= <- <-]. split; [reflexivity | lia]. Qed.
Lemma mono_fail {A} e : regs_mono (@fail A e).
Proof. intros s x s' E. discriminate. Qed.
Lemma mono_bind {A B} (m : M A) (f : A -> M B) :
  regs_mono m -> (forall a, regs_mono (f a)) -> regs_mono (bindM m f).
Proof.
  intros Hm Hf s b s' E. unfold bindM in E. destruct (m s) as [a s1| | |] eqn:E1; try discriminate.
  destruct (Hm _ _ _ E1) as (A1 & A2). destruct (Hf a _ _ _ E) as (B1 & B2). split; [congruence | lia].
Qed.
Lemma mono_lift {A} (o : out A) : regs_mono (lift o).
Proof. intros s a s' E. unfold lift in E. destruct o; try discriminate. injection E as <- <-. split; [reflexivity|lia]. Qed.
Lemma mono_pop_raw : regs_mono pop_raw.
Proof.
  intros s a s' E. unfold pop_raw in E. destruct (sp s =? 0); [discriminate|].
  destruct (sp s <? scap s); [|discriminate]. injection E as <- <-. cbn [with_sp with_stack scap sp]. split; [reflexivity|lia].
Qed.
Lemma mono_hderef v : regs_mono (hderef v).
Proof. intros s a s' E. rewrite hderef_eq in E. exact (mono_lift _ s a s' E). Qed.
Lemma mono_hput v : regs_mono (hput v).
Proof.
  intros s a s' E. unfold hput in E. destruct (heap_put (hp s) v). injection E as <- <-.
  cbn [with_heap scap sp]. split; [reflexivity|lia].
Qed.
Lemma mono_hmaybe_put v : regs_mono (hmaybe_put v).
Proof.
  intros s a s' E. unfold hmaybe_put in E. destruct (heap_maybe_put (hp s) v). injection E as <- <-.
  cbn [with_heap scap sp]. split; [reflexivity|lia].
Qed.
Lemma mono_as_cell bn f v : regs_mono (as_cell bn f v).
Proof. intros s a s' E. unfold as_cell in E. exact (mono_lift _ s a s' E). Qed.
Lemma mono_fail_cell {A} f v : regs_mono (@fail_cell f A v).
Proof. unfold fail_cell. apply mono_bind; [apply mono_as_cell | intros; apply mono_fail]. Qed.
Lemma mono_pop_argc lo hi : regs_mono (pop_argc lo hi).
Proof.
  unfold pop_argc. apply mono_bind; [apply mono_pop_raw|]. intros v.
  destruct v; try apply mono_fail. destruct (_ || _); [apply mono_fail | apply mono_ret].
Qed.
Lemma mono_pop_value : regs_mono pop_value.
Proof. unfold pop_value, pop_deref. apply mono_bind; [apply mono_pop_raw | intros; apply mono_hderef]. Qed.

Lemma mono_car f : regs_mono (car f).
Proof.
  unfold car. apply mono_bind; [apply mono_pop_argc|]. intros _.
  apply mono_bind; [apply mono_pop_value|]. intros v. destruct v; try apply mono_fail_cell. apply mono_ret.
Qed.
Lemma mono_cdr f : regs_mono (cdr f).
Proof.
  unfold cdr. apply mono_bind; [apply mono_pop_argc|]. intros _.
  apply mono_bind; [apply mono_pop_value|]. intros v. destruct v; try apply mono_fail_cell. apply mono_ret.
Qed.
Lemma mono_type_pred p : regs_mono (type_pred p).
Proof.
  unfold type_pred. apply mono_bind; [apply mono_pop_argc|]. intros _.
  apply mono_bind; [apply mono_pop_value|]. intros v. apply mono_ret.
Qed.
Lemma mono_call_builtin b : regs_mono b -> regs_mono (call_builtin b).
Proof.
  intros Hb. unfold call_builtin. apply mono_bind; [exact Hb|]. intros r.
  destruct r; try apply mono_hmaybe_put. apply mono_ret.
Qed.

(* a call keeps the stack pointer inside the stack vector *)
Lemma callb_inv b args s r s' :
  regs_mono b -> sp s < scap s -> callb b args s = ROk r s' -> sp s' < scap s'.
Proof.
  intros Hb Hinv E. unfold callb in E.
  destruct (push_all_spec args s [] Hinv I) as (s0 & E0 & Hinv0 & _).
  destruct (push_spec s0 (VArgc (len args)) Hinv0) as (s1 & E1 & _ & Hinv1 & _).
  unfold apply_builtin in E. rewrite (bind_ok _ _ _ _ _ E0), (bind_ok _ _ _ _ _ E1) in E.
  destruct (mono_call_builtin b Hb _ _ _ E) as (A1 & A2). rewrite A1. lia.
Qed.

Lemma callb_car fuel s v a d :
  sp s < scap s -> heap_deref (hp s) v = Ok (VPair a d) ->
  exists s', callb (car fuel) [v] s = ROk (VPtr a) s' /\ hp s' = hp s /\ st s' = st s /\
             sp s' < scap s'.
Proof.
  intros Hinv Hd.
  destruct (apply_builtin_called (car fuel) [v] s Hinv) as (s1 & E & Hc & E1 & E2).
  unfold called_with in Hc. cbn [len length rev app N.of_nat Pos.of_succ_nat] in Hc.
  pose proof (stack_top_tail _ _ _ _ _ Hc) as H1.
  assert (Hrun : car fuel s1 = ROk (VPtr a) (with_sp s1 (sp s1 - 1 - 1))).
  { unfold car. pop_argc_tac Hc s1 1 1 (Some 1).
    unfold bindM at 1. rewrite (pop_value_top (with_sp s1 (sp s1 - 1)) v [] H1). unfold lift.
    change (hp (with_sp s1 (sp s1 - 1))) with (hp s1). rewrite E1, Hd. reflexivity. }
  assert (Ecall : callb (car fuel) [v] s = ROk (VPtr a) (with_sp s1 (sp s1 - 1 - 1))).
  { unfold callb. rewrite E. unfold call_builtin. rewrite (bind_ok _ _ _ _ _ Hrun). reflexivity. }
  eexists. refine (conj Ecall (conj E1 (conj E2 _))).
  exact (callb_inv _ _ _ _ _ (mono_car fuel) Hinv Ecall).
Qed.

Lemma callb_cdr fuel s v a d :
  sp s < scap s -> heap_deref (hp s) v = Ok (VPair a d) ->
  exists s', callb (cdr fuel) [v] s = ROk (VPtr d) s' /\ hp s' = hp s /\ st s' = st s /\
             sp s' < scap s'.
Proof.
  intros Hinv Hd.
  destruct (apply_builtin_called (cdr fuel) [v] s Hinv) as (s1 & E & Hc & E1 & E2).
  unfold called_with in Hc. cbn [len length rev app N.of_nat Pos.of_succ_nat] in Hc.
  pose proof (stack_top_tail _ _ _ _ _ Hc) as H1.
  assert (Hrun : cdr fuel s1 = ROk (VPtr d) (with_sp s1 (sp s1 - 1 - 1))).
  { unfold cdr. pop_argc_tac Hc s1 1 1 (Some 1).
    unfold bindM at 1. rewrite (pop_value_top (with_sp s1 (sp s1 - 1)) v [] H1). unfold lift.
    change (hp (with_sp s1 (sp s1 - 1))) with (hp s1). rewrite E1, Hd. reflexivity. }
  assert (Ecall : callb (cdr fuel) [v] s = ROk (VPtr d) (with_sp s1 (sp s1 - 1 - 1))).
  { unfold callb. rewrite E. unfold call_builtin. rewrite (bind_ok _ _ _ _ _ Hrun). reflexivity. }
  eexists. refine (conj Ecall (conj E1 (conj E2 _))).
  exact (callb_inv _ _ _ _ _ (mono_cdr fuel) Hinv Ecall).
Qed.

Lemma callb_car_fail fuel s v c :
  sp s < scap s -> heap_deref (hp s) v = Ok c -> is_pair c = false ->
  render_fail (callb (car fuel) [v] s) /\ render_fail (callb (cdr fuel) [v] s).
Proof.
  intros Hinv Hd Hp. split.
  - destruct (apply_builtin_called (car fuel) [v] s Hinv) as (s1 & E & Hc & E1 & E2).
    unfold called_with in Hc. cbn [len length rev app N.of_nat Pos.of_succ_nat] in Hc.
    pose proof (stack_top_tail _ _ _ _ _ Hc) as H1.
    unfold callb. rewrite E. unfold call_builtin. apply render_fail_bind.
    unfold car. pop_argc_tac Hc s1 1 1 (Some 1).
    unfold bindM at 1. rewrite (pop_value_top (with_sp s1 (sp s1 - 1)) v [] H1). unfold lift.
    change (hp (with_sp s1 (sp s1 - 1))) with (hp s1). rewrite E1, Hd.
    destruct c; try discriminate Hp; apply fail_cell_render_fail.
  - destruct (apply_builtin_called (cdr fuel) [v] s Hinv) as (s1 & E & Hc & E1 & E2).
    unfold called_with in Hc. cbn [len length rev app N.of_nat Pos.of_succ_nat] in Hc.
    pose proof (stack_top_tail _ _ _ _ _ Hc) as H1.
    unfold callb. rewrite E. unfold call_builtin. apply render_fail_bind.
    unfold cdr. pop_argc_tac Hc s1 1 1 (Some 1).
    unfold bindM at 1. rewrite (pop_value_top (with_sp s1 (sp s1 - 1)) v [] H1). unfold lift.
    change (hp (with_sp s1 (sp s1 - 1))) with (hp s1). rewrite E1, Hd.
    destruct c; try discriminate Hp; apply fail_cell_render_fail.
Qed.

Lemma callb_pred p s v c :
  sp s < scap s -> heap_deref (hp s) v = Ok c ->
  exists s', callb (type_pred p) [v] s = ROk (VBool (p c)) s' /\ hp s' = hp s /\ st s' = st s /\
             sp s' < scap s'.
Proof.
  intros Hinv Hd.
  destruct (apply_builtin_called (type_pred p) [v] s Hinv) as (s1 & E & Hc & E1 & E2).
  unfold called_with in Hc. cbn [len length rev app N.of_nat Pos.of_succ_nat] in Hc.
  pose proof (stack_top_tail _ _ _ _ _ Hc) as H1.
  assert (Hrun : type_pred p s1 = ROk (VBool (p c)) (with_sp s1 (sp s1 - 1 - 1))).
  { unfold type_pred. pop_argc_tac Hc s1 1 1 (Some 1).
    unfold bindM at 1. rewrite (pop_value_top (with_sp s1 (sp s1 - 1)) v [] H1). unfold lift.
    change (hp (with_sp s1 (sp s1 - 1))) with (hp s1). rewrite E1, Hd. reflexivity. }
  assert (Ecall : callb (type_pred p) [v] s = ROk (VBool (p c)) (with_sp s1 (sp s1 - 1 - 1))).
  { unfold callb. rewrite E. unfold call_builtin. rewrite (bind_ok _ _ _ _ _ Hrun). reflexivity. }
  eexists. refine (conj Ecall (conj E1 (conj E2 _))).
  exact (callb_inv _ _ _ _ _ (mono_type_pred p) Hinv Ecall).
Qed.

Lemma truthy_bool b s : truthy (VBool b) s = ROk b s.
Proof. unfold truthy, bindM. rewrite hderef_eq. cbn [heap_deref lift ret]. destruct b; reflexivity. Qed.

Lemma length_go_spec fuel s0 v cells e :
  pchain (hp s0) v cells e ->
  forall s f ce, hp s = hp s0 -> sp s < scap s -> (length cells + 1 <= f)%nat ->
    heap_deref (hp s0) e = Ok ce ->
    if is_nil ce then
      exists s', length_go fuel f v s = ROk (VNum (Fixnum (Z.of_nat (length cells)))) s' /\
                 hp s' = hp s0 /\ st s' = st s /\ sp s' < scap s'
    else render_fail (length_go fuel f v s).
Proof.
  intros Hc. induction Hc as [v c Hd Hp | v a d cells e Hd Hc IH]; intros s f ce Eh Hinv Hf Hce.
  - rewrite Hd in Hce. injection Hce as <-.
    destruct f as [|f]; [cbn in Hf; lia|]. cbn [length_go length].
    rewrite <- Eh in Hd.
    destruct (callb_pred is_nil s v c Hinv Hd) as (s1 & E1 & Eh1 & Es1 & Hinv1).
    unfold is_null. rewrite (bind_ok _ _ _ _ _ E1), (bind_ok _ _ _ _ _ (truthy_bool _ s1)).
    destruct (is_nil c) eqn:En.
    + exists s1. cbn [ret Z.of_nat]. repeat split; auto; congruence.
    + apply render_fail_bind. rewrite <- Eh1 in Hd.
      exact (proj2 (callb_car_fail fuel s1 v c Hinv1 Hd Hp)).
  - destruct f as [|f]; [cbn in Hf; lia|]. cbn [length_go length].
    rewrite <- Eh in Hd.
    destruct (callb_pred is_nil s v _ Hinv Hd) as (s1 & E1 & Eh1 & Es1 & Hinv1).
    unfold is_null. rewrite (bind_ok _ _ _ _ _ E1), (bind_ok _ _ _ _ _ (truthy_bool _ s1)).
    cbn [is_nil]. rewrite <- Eh1 in Hd.
    destruct (callb_cdr fuel s1 v a d Hinv1 Hd) as (s2 & E2 & Eh2 & Es2 & Hinv2).
    rewrite (bind_ok _ _ _ _ _ E2).
    cbn [length] in Hf.
    pose proof (IH s2 f ce ltac:(congruence) Hinv2 ltac:(lia) Hce) as R.
    destruct (is_nil ce).
    + destruct R as (s' & E & Eh' & Es' & Hinv').
      exists s'. rewrite (bind_ok _ _ _ _ _ E).
      rewrite (bind_ok _ _ _ _ _ (hderef_ok s' (VNum _) _ eq_refl)).
      unfold ret. repeat split; auto; try congruence.
      do 3 f_equal. lia.
    + apply render_fail_bind. exact R.
Qed.

(* (length l) on the hand model: the number of pairs of a proper list, an error on an
   improper one; nothing changes *)
Theorem prelude_length_spec fuel s v xs e :
  values_are_refs s -> val_ok s v -> sp s < scap s ->
  achain (abs s) (absv s v) xs e -> (length xs + 1 <= fuel)%nat ->
  (e = AImm VNil ->
     exists s', p_length fuel [v] s = ROk (VNum (Fixnum (Z.of_nat (length xs)))) s' /\
                hp s' = hp s /\ st s' = st s) /\
  (e <> AImm VNil -> render_fail (p_length fuel [v] s)).
Proof.
  intros W Hv Hinv Hch Hf.
  destruct (achain_pchain s W _ _ _ Hch v Hv eq_refl) as (cells & e' & Hpc & Hm & He & Hve).
  assert (Hlen : length cells = length xs) by (rewrite <- Hm; now rewrite map_length).
  destruct (pchain_end_deref _ _ _ _ Hpc) as (ce & Hce & Hpe).
  assert (Hnil : e = AImm VNil <-> ce = VNil) by (rewrite <- He; apply (nil_deref s e' ce Hve Hce)).
  pose proof (length_go_spec fuel s v cells e' Hpc s fuel ce eq_refl Hinv ltac:(lia) Hce) as R.
  unfold p_length. split.
  - intros Ee. assert (ce = VNil) by (now apply Hnil). subst ce. cbn [is_nil] in R.
    destruct R as (s' & E & Eh & Es & _). exists s'. rewrite Hlen in E. auto.
  - intros Ene. assert (Hn : ce <> VNil) by (intros E0; apply Ene; now apply Hnil).
    destruct ce; try contradiction; exact R.
Qed.

(* (cadr o) on the hand model *)
Theorem prelude_cadr_spec fuel s o a d a2 d2 :
  sp s < scap s ->
  heap_deref (hp s) o = Ok (VPair a d) -> heap_get (hp s) d = Ok (VPair a2 d2) ->
  exists s', p_cadr fuel [o] s = ROk (VPtr a2) s' /\ hp s' = hp s /\ st s' = st s.
Proof.
  intros Hinv Ho Hd. unfold p_cadr.
  destruct (callb_cdr fuel s o a d Hinv Ho) as (s1 & E1 & Eh1 & Es1 & Hinv1).
  rewrite (bind_ok _ _ _ _ _ E1).
  assert (Hd1 : heap_deref (hp s1) (VPtr d) = Ok (VPair a2 d2)) by (cbn [heap_deref]; now rewrite Eh1).
  destruct (callb_car fuel s1 (VPtr d) a2 d2 Hinv1 Hd1) as (s2 & E2 & Eh2 & Es2 & _).
  exists s2. repeat split; auto; congruence.
Qed.
