(* VarArgProofs.v — C04 for VARIADIC procedures (work package c19b).

   A lambda with a rest parameter, (lambda args ..) / (lambda (a b . rest) ..), is compiled
   to   VARARG ; ENTER ; body ; RET   (Model/Compile.v compile_lambda, compile.rs:398-460):
   VARARG runs BEFORE ENTER, on the frame CALL / TCALL left:
        base+1 .. base+m = the m actual arguments, [base+m+1] = Argc m, [+2] = Ep, [+3] = Ip = sp.
   With L = number of formals INCLUDING the rest parameter, VARARG (run.rs:286-324) pops the
   m - (L-1) extra arguments into a heap list and leaves
        base+1 .. base+L-1 = the fixed arguments (untouched), [base+L] = Ptr list,
        [base+L+1] = Argc L, [+2] = Ep, [+3] = Ip = sp
   on the SAME base: sp = base + L + 3 whatever m.  ENTER then pushes the caller's bp.  Hence
   after TCALL + VARARG + ENTER the frame invariant [frame_at] holds again with n := L, the
   same return information and the same base: a variadic (self-)tail-call loop runs at the
   constant stack height base + L + 4 (+ the temporaries of one body), whatever the number of
   actual arguments of each call and however many calls preceded. *)
From Coq Require Import Lia FMapPositive.
From MW Require Import Model.Base Model.F64 Model.Num Model.Datum Model.TransformDef Model.Transform
  Model.VmTypes Model.Heap Model.VmBase Model.Compile Model.Vm Proofs.VmProofs0 Proofs.TailProofs.
Open Scope N_scope.
Arguments N.add : simpl never.
Arguments N.sub : simpl never.
Arguments N.mul : simpl never.
Arguments N.eqb : simpl never.
Arguments N.ltb : simpl never.
Arguments N.leb : simpl never.

(* the VARARG arm of Vm.run_one, verbatim (tied to run_one by [run_one_vararg] below) *)
Definition vararg_frame : M bool :=
  dom l <- cur_lambda;
  dom req <- usub (len (l_args l)) 1;
  dom a <- stack_get_offset (-2); dom argc <- as_argc a;
  if argc <? req then fail E_OTHER else
  if argc =? req + 1 then
    dom v <- stack_get_offset (-3);
    dom ap <- hput v; dom np <- hput VNil;
    dom ai <- as_ptr ap; dom ni <- as_ptr np;
    dom pp <- hput (VPair ai ni);
    dom _ <- stack_put_offset (-3) pp; ret false
  else
    dom saved_ep <- pop_raw;
    dom saved_ip <- pop_raw;
    dom _ <- pop_raw;
    dom np <- hput VNil; dom ni <- as_ptr np;
    dom varargs <- vararg_collect (N.to_nat (argc - req)) ni;
    dom _ <- push (VPtr varargs);
    dom _ <- push (VArgc (req + 1));
    dom _ <- push saved_ip;
    dom _ <- push saved_ep; ret false.

Lemma run_one_vararg ob s s0 :
  read_opcode s = ROk OVarArg s0 -> run_one ob s = vararg_frame s0.
Proof. intros H. unfold run_one. unfold bindM at 1. rewrite H. reflexivity. Qed.
Lemma run_one_enter ob s s0 :
  read_opcode s = ROk OEnter s0 -> run_one ob s = enter_frame s0.
Proof. intros H. unfold run_one. unfold bindM at 1. rewrite H. reflexivity. Qed.

(* ------------------------------------------------ registers other than sp / stack / heap *)
Definition same_regs (s s' : vm) : Prop :=
  bp s' = bp s /\ ep s' = ep s /\ ip s' = ip s /\ acc s' = acc s /\ st s' = st s /\
  scap s' = scap s /\ g_bind s' = g_bind s /\ g_slots s' = g_slots s /\ out_log s' = out_log s.
Lemma same_regs_refl s : same_regs s s.
Proof. unfold same_regs. repeat split. Qed.
Lemma same_regs_trans s1 s2 s3 : same_regs s1 s2 -> same_regs s2 s3 -> same_regs s1 s3.
Proof.
  intros (A1 & A2 & A3 & A4 & A5 & A6 & A7 & A8 & A9) (B1 & B2 & B3 & B4 & B5 & B6 & B7 & B8 & B9).
  unfold same_regs. repeat split; congruence.
Qed.
Ltac regs_chain := repeat (eapply same_regs_trans; [eassumption|]); apply same_regs_refl.

(* ------------------------------------------------------------- the primitives *)
Lemma heap_put_ptr h v : exists p h', heap_put h v = (VPtr p, h').
Proof.
  unfold heap_put. destruct v; try (destruct (heap_store_new h _) as [q0 h1]; eauto); eauto.
  destruct (symtab_find (symtab h) _); eauto.
Qed.

Lemma hput_ok v s : exists p s', hput v s = ROk (VPtr p) s' /\
  sp s' = sp s /\ scap s' = scap s /\ stack s' = stack s /\ same_regs s s'.
Proof.
  unfold hput. destruct (heap_put_ptr (hp s) v) as (p & h & E). rewrite E.
  exists p, (with_heap s h). unfold same_regs. repeat split.
Qed.

Lemma pop_ok s : sp s <> 0 -> sp s < scap s -> exists s', pop_raw s = ROk (sget s (sp s)) s' /\
  sp s' = sp s - 1 /\ scap s' = scap s /\ stack s' = stack s /\ same_regs s s'.
Proof.
  intros H0 Hc. unfold pop_raw. destruct (N.eqb_spec (sp s) 0); [contradiction|].
  apply N.ltb_lt in Hc. rewrite Hc. exists (with_sp s (sp s - 1)). unfold same_regs. repeat split.
Qed.

Lemma push_ok' v s : sp s + 1 < scap s -> exists s', push v s = ROk tt s' /\
  sp s' = sp s + 1 /\ scap s' = scap s /\ stack s' = tset (stack s) (sp s + 1) v /\ same_regs s s'.
Proof.
  intros Hc. rewrite push_ok by exact Hc. eexists. split; [reflexivity|]. unfold same_regs. repeat split.
Qed.

Lemma stack_put_offset_ok k v s : k <= sp s -> sp s - k < scap s ->
  stack_put_offset (- Z.of_N k)%Z v s = ROk tt (with_stack s (tset (stack s) (sp s - k) v) (sp s)).
Proof.
  intros H1 H2. unfold stack_put_offset.
  destruct (Z.of_N (sp s) + - Z.of_N k <? 0)%Z eqn:E; [apply Z.ltb_lt in E; lia|].
  replace (Z.to_N (Z.of_N (sp s) + - Z.of_N k)) with (sp s - k) by lia.
  apply stack_put_ok. exact H2.
Qed.

(* the loop that pops the optional arguments into a list: k slots popped, stack untouched *)
Lemma vararg_collect_ok k : forall acc0 s, N.of_nat k <= sp s -> sp s < scap s ->
  exists p s', vararg_collect k acc0 s = ROk p s' /\
  sp s' = sp s - N.of_nat k /\ scap s' = scap s /\ stack s' = stack s /\ same_regs s s'.
Proof.
  induction k as [|k IH]; intros acc0 s Hk Hc; cbn [vararg_collect].
  - exists acc0, s. unfold ret. split; [reflexivity|]. split; [lia|]. split; [reflexivity|]. split; [reflexivity|].
    apply same_regs_refl.
  - destruct (pop_ok s) as (s1 & E1 & Hsp1 & Hcap1 & Hst1 & Hr1); [lia|lia|].
    unfold bindM at 1. rewrite E1.
    destruct (hput_ok (sget s (sp s)) s1) as (p1 & s2 & E2 & Hsp2 & Hcap2 & Hst2 & Hr2).
    unfold bindM at 1. rewrite E2. unfold as_ptr at 1. unfold bindM at 1. unfold ret at 1.
    destruct (hput_ok (VPair p1 acc0) s2) as (p3 & s3 & E3 & Hsp3 & Hcap3 & Hst3 & Hr3).
    unfold bindM at 1. rewrite E3. unfold as_ptr at 1. unfold bindM at 1. unfold ret at 1.
    destruct (IH p3 s3) as (p & s' & E & Hsp & Hcap & Hst & Hr); [lia|lia|].
    exists p, s'. split; [exact E|]. split; [lia|]. split; [congruence|]. split; [congruence|]. regs_chain.
Qed.

Lemma sget_of_stack s s' j : stack s' = stack s -> sget s' j = sget s j.
Proof. intros H. unfold sget. rewrite H. reflexivity. Qed.

(* ------------------------------------------------------------ VARARG: the frame *)
Theorem vararg_frame_effect s l m :
  cur_lambda s = ROk l s ->
  1 <= len (l_args l) -> len (l_args l) - 1 <= m ->    (* at least the fixed arguments *)
  m + 3 <= sp s -> sget s (sp s - 2) = VArgc m ->       (* the frame CALL / TCALL left *)
  sp s + 1 < scap s ->
  let L := len (l_args l) in
  let base := sp s - 3 - m in
  exists p s',
    vararg_frame s = ROk false s' /\
    sp s' = base + L + 3 /\ same_regs s s' /\
    (forall j, j + 1 <= base + L -> sget s' j = sget s j) /\
    sget s' (base + L) = VPtr p /\
    sget s' (base + L + 1) = VArgc L /\
    sget s' (base + L + 2) = sget s (sp s - 1) /\
    sget s' (base + L + 3) = sget s (sp s).
Proof.
  intros Hcur HL Hreq Hsp Hargc Hcap L base. unfold vararg_frame.
  unfold bindM at 1. rewrite Hcur.
  unfold bindM at 1. rewrite usub_ok by exact HL.
  unfold bindM at 1. change (-2)%Z with (- Z.of_N 2)%Z. rewrite stack_get_offset_ok by lia.
  rewrite Hargc. unfold as_argc at 1. unfold bindM at 1. unfold ret at 1.
  fold L. fold L in HL, Hreq.
  destruct (N.ltb_spec m (L - 1)) as [Hlt|_]; [lia|].
  destruct (N.eqb_spec m (L - 1 + 1)) as [Em|Em].
  - (* exactly one optional argument: converted in place *)
    unfold bindM at 1. change (-3)%Z with (- Z.of_N 3)%Z. rewrite stack_get_offset_ok by lia.
    destruct (hput_ok (sget s (sp s - 3)) s) as (p1 & s1 & E1 & Hsp1 & Hcap1 & Hst1 & Hr1).
    unfold bindM at 1. rewrite E1.
    destruct (hput_ok VNil s1) as (p2 & s2 & E2 & Hsp2 & Hcap2 & Hst2 & Hr2).
    unfold bindM at 1. rewrite E2.
    unfold as_ptr at 1. unfold bindM at 1. unfold ret at 1.
    unfold as_ptr at 1. unfold bindM at 1. unfold ret at 1.
    destruct (hput_ok (VPair p1 p2) s2) as (p3 & s3 & E3 & Hsp3 & Hcap3 & Hst3 & Hr3).
    unfold bindM at 1. rewrite E3.
    unfold bindM at 1. rewrite stack_put_offset_ok by lia. unfold ret.
    exists p3. eexists. split; [reflexivity|].
    assert (Hst : forall j, sget (with_stack s3 (tset (stack s3) (sp s3 - 3) (VPtr p3)) (sp s3)) j =
                   if sp s - 3 =? j then VPtr p3 else sget s j).
    { intros j. rewrite sget_slot. cbn [stack with_stack]. rewrite slot_tset, Hst3, Hst2, Hst1.
      replace (sp s3 - 3) with (sp s - 3) by lia. reflexivity. }
    split; [cbn [sp with_stack]; unfold base; lia|].
    split. { eapply same_regs_trans; [|unfold same_regs; cbn; repeat split]. regs_chain. }
    unfold base.
    split; [|split; [|split; [|split]]].
    + intros j Hj. rewrite Hst. cmp_cases.
    + rewrite Hst. cmp_cases.
    + rewrite Hst. destruct (N.eqb_spec (sp s - 3) (sp s - 3 - m + L + 1)); [lia|].
      replace (sp s - 3 - m + L + 1) with (sp s - 2) by lia. rewrite Hargc. f_equal. lia.
    + rewrite Hst. cmp_cases.
    + rewrite Hst. cmp_cases.
  - (* general case: pop Ip, Ep, Argc, collect, push the list and a fresh Argc / Ep / Ip *)
    destruct (pop_ok s) as (s1 & E1 & Hsp1 & Hcap1 & Hst1 & Hr1); [lia|lia|].
    unfold bindM at 1. rewrite E1.
    destruct (pop_ok s1) as (s2 & E2 & Hsp2 & Hcap2 & Hst2 & Hr2); [lia|lia|].
    unfold bindM at 1. rewrite E2.
    destruct (pop_ok s2) as (s3 & E3 & Hsp3 & Hcap3 & Hst3 & Hr3); [lia|lia|].
    unfold bindM at 1. rewrite E3.
    destruct (hput_ok VNil s3) as (p0 & s4 & E4 & Hsp4 & Hcap4 & Hst4 & Hr4).
    unfold bindM at 1. rewrite E4. unfold as_ptr at 1. unfold bindM at 1. unfold ret at 1.
    destruct (vararg_collect_ok (N.to_nat (m - (L - 1))) p0 s4)
      as (p & s5 & E5 & Hsp5 & Hcap5 & Hst5 & Hr5); [lia|lia|].
    unfold bindM at 1. rewrite E5.
    destruct (push_ok' (VPtr p) s5) as (s6 & E6 & Hsp6 & Hcap6 & Hst6 & Hr6); [lia|].
    unfold bindM at 1. rewrite E6.
    destruct (push_ok' (VArgc (L - 1 + 1)) s6) as (s7 & E7 & Hsp7 & Hcap7 & Hst7 & Hr7); [lia|].
    unfold bindM at 1. rewrite E7.
    destruct (push_ok' (sget s1 (sp s1)) s7) as (s8 & E8 & Hsp8 & Hcap8 & Hst8 & Hr8); [lia|].
    unfold bindM at 1. rewrite E8.
    destruct (push_ok' (sget s (sp s)) s8) as (s9 & E9 & Hsp9 & Hcap9 & Hst9 & Hr9); [lia|].
    unfold bindM at 1. rewrite E9. unfold ret.
    exists p, s9. split; [reflexivity|].
    assert (Hs1 : sget s1 (sp s1) = sget s (sp s - 1)).
    { rewrite (sget_of_stack s s1) by exact Hst1. f_equal. lia. }
    assert (Hst : forall j, sget s9 j =
       if sp s8 + 1 =? j then sget s (sp s) else if sp s7 + 1 =? j then sget s (sp s - 1)
       else if sp s6 + 1 =? j then VArgc (L - 1 + 1) else if sp s5 + 1 =? j then VPtr p else sget s j).
    { intros j. rewrite sget_slot, Hst9, Hst8, Hst7, Hst6, !slot_tset, Hst5, Hst4, Hst3, Hst2, Hst1, Hs1.
      reflexivity. }
    split; [unfold base; lia|]. split; [regs_chain|].
    unfold base.
    split; [|split; [|split; [|split]]].
    + intros j Hj. rewrite Hst. cmp_cases.
    + rewrite Hst. cmp_cases.
    + rewrite Hst. cmp_cases.
    + rewrite Hst. cmp_cases.
    + rewrite Hst. cmp_cases.
Qed.

(* -------------------------------------- TCALL ; VARARG ; ENTER re-establish the frame *)
Lemma sget_with_ip s i j : sget (with_ip s i) j = sget s j.
Proof. reflexivity. Qed.

Theorem tcall_vararg_enter lam lid l s n e i b m k1 k2 :
  frame_at s n e i b ->
  sget s (sp s) = VArgc m -> bp s + 4 + m < sp s -> sp s < scap s ->
  heap_get (hp s) lam = Ok (VLambda lid) -> tget (lams (st s)) lid = Some l ->
  1 <= len (l_args l) -> len (l_args l) - 1 <= m ->
  let L := len (l_args l) in
  let base := bp s - n in
  exists s1 s2,
    tcall_frame lam s = ROk false s1 /\
    vararg_frame (with_ip s1 (lam, k1)) = ROk false s2 /\
    sp s2 = base + L + 3 /\
    (forall j, j + 1 < L -> sget s2 (base + 1 + j) = sget s (sp s - m + j)) /\
    (exists p, sget s2 (base + L) = VPtr p) /\
    (forall j, j <= base -> sget s2 j = sget s j) /\
    (forall r s3, enter_frame (with_ip s2 (lam, k2)) = ROk r s3 ->
       frame_at s3 L e i b /\ bp s3 - L = base /\ sp s3 = base + L + 4).
Proof.
  intros Hfr Hm Habove Hcap Hlam Hlid HL Hreq L base.
  destruct (tcall_frame_effect lam s n e i b m Hfr Hm Habove Hcap)
    as (T & Et & Targs & Targc & Tep & Tip & Tlow).
  fold base in Et, Targs, Targc, Tep, Tip, Tlow.
  destruct Hfr as (_ & _ & _ & _ & Hn).
  set (s1 := with_ip (with_bp (with_stack s T (base + m + 3)) b) (lam, 0)) in *.
  set (s1' := with_ip s1 (lam, k1)).
  assert (Hsp1 : sp s1' = base + m + 3) by reflexivity.
  assert (Hcap1 : scap s1' = scap s) by reflexivity.
  assert (Hg1 : forall j, sget s1' j = slot T j) by reflexivity.
  assert (Hcur : cur_lambda s1' = ROk l s1').
  { unfold cur_lambda. change (hp s1') with (hp s). change (fst (ip s1')) with lam. rewrite Hlam.
    unfold get_lambda. change (st s1') with (st s). rewrite Hlid. reflexivity. }
  assert (Hb : base <= bp s) by (unfold base; lia).
  destruct (vararg_frame_effect s1' l m Hcur HL Hreq) as (p & s2 & E2 & Hsp2 & Hr2 & Hlow2 & Hl2 & Ha2 & He2 & Hi2).
  { rewrite Hsp1. lia. }
  { rewrite Hsp1, Hg1. replace (base + m + 3 - 2) with (base + m + 1) by lia. exact Targc. }
  { rewrite Hsp1, Hcap1. unfold base. lia. }
  fold L in Hsp2, Hlow2, Hl2, Ha2, He2, Hi2, HL, Hreq.
  rewrite Hsp1 in Hsp2, Hlow2, Hl2, Ha2, He2, Hi2.
  replace (base + m + 3 - 3 - m) with base in Hsp2, Hlow2, Hl2, Ha2, He2, Hi2 by lia.
  exists s1, s2. split; [exact Et|]. split; [exact E2|]. split; [exact Hsp2|].
  split; [|split; [|split]].
  - intros j Hj. rewrite Hlow2 by lia. rewrite Hg1. apply Targs. lia.
  - exists p. exact Hl2.
  - intros j Hj. rewrite Hlow2 by lia. rewrite Hg1. apply Tlow. exact Hj.
  - intros r s3 He3.
    destruct Hr2 as (Rbp & _ & _ & _ & _ & Rcap & _).
    set (s2' := with_ip s2 (lam, k2)) in *.
    assert (Hcap2 : sp s2' + 1 < scap s2').
    { change (sp s2') with (sp s2). change (scap s2') with (scap s2). rewrite Hsp2, Rcap, Hcap1.
      unfold base. lia. }
    destruct (enter_frame_effect s2' r s3 He3 Hcap2) as (_ & Es & Eb & _ & Est & _).
    change (sp s2') with (sp s2) in Es, Eb, Est. change (stack s2') with (stack s2) in Est.
    change (bp s2') with (bp s2) in Est. rewrite Hsp2 in Es, Eb, Est.
    assert (Hbp3 : bp s3 = base + L) by lia.
    assert (Hg3 : forall j, sget s3 j = if base + L + 3 + 1 =? j then VBp (bp s2) else sget s2 j).
    { intros j. rewrite sget_slot, Est, slot_tset. reflexivity. }
    split; [|split; [lia|lia]].
    unfold frame_at. rewrite Hbp3, !Hg3.
    replace (base + m + 3 - 1) with (base + m + 2) in He2 by lia.
    rewrite !Hg1 in *.
    split; [|split; [|split; [|split]]].
    + destruct (N.eqb_spec (base + L + 3 + 1) (base + L + 1)); [lia|exact Ha2].
    + destruct (N.eqb_spec (base + L + 3 + 1) (base + L + 2)); [lia|]. rewrite He2. exact Tep.
    + destruct (N.eqb_spec (base + L + 3 + 1) (base + L + 3)); [lia|]. rewrite Hi2. exact Tip.
    + destruct (N.eqb_spec (base + L + 3 + 1) (base + L + 4)); [|lia]. rewrite Rbp. reflexivity.
    + lia.
Qed.

(* the same for a fixed-arity callee (TCALL ; ENTER), stated as the invariant *)
Theorem tcall_enter_invariant lam s n e i b m k :
  frame_at s n e i b ->
  sget s (sp s) = VArgc m -> bp s + 4 + m < sp s -> sp s < scap s ->
  let base := bp s - n in
  exists s1, tcall_frame lam s = ROk false s1 /\
    (forall r s2, enter_frame (with_ip s1 (lam, k)) = ROk r s2 ->
       frame_at s2 m e i b /\ bp s2 - m = base /\ sp s2 = base + m + 4).
Proof.
  intros Hfr Hm Habove Hcap base.
  destruct (tcall_frame_effect lam s n e i b m Hfr Hm Habove Hcap)
    as (T & Et & Targs & Targc & Tep & Tip & Tlow).
  fold base in Et, Targs, Targc, Tep, Tip, Tlow.
  destruct Hfr as (_ & _ & _ & _ & Hn).
  set (s1 := with_ip (with_bp (with_stack s T (base + m + 3)) b) (lam, 0)) in *.
  exists s1. split; [exact Et|]. intros r s2 He.
  set (s1' := with_ip s1 (lam, k)) in *.
  assert (Hb : base <= bp s) by (unfold base; lia).
  assert (Hcap1 : sp s1' + 1 < scap s1').
  { change (sp s1') with (base + m + 3). change (scap s1') with (scap s). unfold base. lia. }
  destruct (enter_frame_effect s1' r s2 He Hcap1) as (_ & Es & Eb & _ & Est & _).
  change (sp s1') with (base + m + 3) in Es, Eb, Est. change (stack s1') with T in Est.
  change (bp s1') with b in Est.
  assert (Hbp2 : bp s2 = base + m) by lia.
  assert (Hg2 : forall j, sget s2 j = if base + m + 3 + 1 =? j then VBp b else slot T j).
  { intros j. rewrite sget_slot, Est, slot_tset. reflexivity. }
  split; [|split; [lia|lia]].
  unfold frame_at. rewrite Hbp2, !Hg2.
  split; [|split; [|split; [|split]]].
  + destruct (N.eqb_spec (base + m + 3 + 1) (base + m + 1)); [lia|exact Targc].
  + destruct (N.eqb_spec (base + m + 3 + 1) (base + m + 2)); [lia|exact Tep].
  + destruct (N.eqb_spec (base + m + 3 + 1) (base + m + 3)); [lia|exact Tip].
  + destruct (N.eqb_spec (base + m + 3 + 1) (base + m + 4)); [reflexivity|lia].
  + lia.
Qed.
