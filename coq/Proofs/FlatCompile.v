(* FlatCompile.v — C02: the COMPILER keeps the invariant [finv] of FlatProofs.v.

   Every code object [compile_expression] / [compile_quasiquote] / [compile_runnable] /
   the `eval` builtin install satisfies [bc_ok], and the heap constants, symbols, lambdas,
   macros and global bindings created during compilation keep [finv].  This discharges the
   two compiler hypotheses of the run-level theorems of FlatProofs.v:
     [pres (prepare_eval e) T]   (prepare_eval_finv)   and
     [pres b_eval no_lexptr]     (b_eval_finv).

   While a lambda is being compiled its bytecode is REVERSED (emit = cons).  The invariant
   on that list is [good]: a chain of adjacent-pair conditions ([adjb x y], x emitted before
   y) that depend only on the SHAPE of the cells:
     - a raw pointer operand [VPtr _] is only ever emitted directly after one of the opcodes
       MOV-immediate, JNT, JMP, PUSH-immediate (its FIRST operand),
     - the cell after a MOV / MOV-immediate opcode is never an opcode,
     - no cell is a [VLexPtr],
   which implies [bc_ok] of the finished list (the destination of a MOV, two cells after the
   opcode, is never a raw pointer), is kept by emitting whole instructions, and is kept by
   [bc_patch] because the patched cell (a jump operand, [VPtr CAFEBEEF]) is replaced by
   another [VPtr].  That the patched position IS the placeholder needs the frame property
   "compilation only conses onto the bytecode it was given": [ext]. *)
From Coq Require Import Lia List String.
From MW Require Import Model.Base Model.F64 Model.Num Model.Datum Model.TransformDef Model.Transform
  Model.VmTypes Model.Heap Model.Gc Model.VmBase Model.Compile Model.Vm
  Proofs.GcProofs Proofs.SymtabProofs Proofs.VmProofs0 Proofs.TailProofs Proofs.ScopeProofs
  Proofs.EnvProofs Proofs.FlatProofs Proofs.FlatPrims.
Open Scope N_scope.
Arguments N.add : simpl never.
Arguments N.sub : simpl never.
Arguments N.eqb : simpl never.
Arguments N.ltb : simpl never.
Arguments N.leb : simpl never.
Arguments N.mul : simpl never.

(* ------------------------------------------------------------------ datum -> heap *)
Definition mem (s : vm) (h : heap) (x : store) : vm := with_store (with_heap s h) x.
Lemma mem_self s : mem s (hp s) (st s) = s.
Proof. destruct s; reflexivity. Qed.

(* an operand the compiler may emit for a constant: not an opcode, not a VLexPtr *)
Definition opnd (v : vcell) : bool := match v with VOp _ | VLexPtr _ _ => false | _ => true end.
Lemma opnd_clean v : opnd v = true -> no_lexptr v.
Proof. destruct v; try discriminate; intros _; exact I. Qed.
Definition isptr (v : vcell) : Prop := exists a, v = VPtr a.
Lemma isptr_opnd v : isptr v -> opnd v = true.
Proof. intros [a ->]. reflexivity. Qed.
Lemma isptr_clean v : isptr v -> no_lexptr v.
Proof. intros [a ->]. exact I. Qed.

Lemma finv_mem_put s h x v r h' :
  finv (mem s h x) -> no_lexptr v -> heap_put h v = (r, h') -> finv (mem s h' x) /\ isptr r.
Proof. intros F Hv H. exact (finv_heap_put (mem s h x) v r h' F Hv H). Qed.

Lemma finv_mem_store s h x x' :
  finv (mem s h x) -> envs x' = envs x -> next_id x <= next_id x' ->
  (forall lid l, tget (lams x') lid = Some l -> bc_ok (l_bc l)) ->
  (forall vid l i v, tget (vecs x') vid = Some l -> list_get l i = Some v -> no_lexptr v) ->
  (forall cid k i v, tget (conts x') cid = Some k -> list_get (k_stack k) i = Some v -> no_lexptr v) ->
  finv (mem s h x').
Proof. intros F He Hn Hl Hv Hc. exact (finv_store_upd (mem s h x) x' F He Hn Hl Hv Hc). Qed.

Lemma finv_mem_new_str s h x t : finv (mem s h x) -> finv (mem s h (snd (new_str x t))).
Proof.
  intros F. apply (finv_mem_store s h x); [exact F|reflexivity|cbn [new_str snd next_id]; lia|
    apply (fi_code _ F)|apply (fi_vecs _ F)|apply (fi_conts _ F)].
Qed.
Lemma finv_mem_new_vec s h x l : finv (mem s h x) -> clean_list l -> finv (mem s h (snd (new_vec x l))).
Proof.
  intros F Hl. apply (finv_mem_store s h x); [exact F|reflexivity|cbn [new_vec snd next_id]; lia|
    apply (fi_code _ F)| |apply (fi_conts _ F)].
  intros vid l0 i v E. cbn [new_vec snd vecs] in E. rewrite tget_tset in E.
  destruct (next_id x =? vid); [injection E as <-; apply Hl|revert E; apply (fi_vecs _ F)].
Qed.
Lemma finv_mem_new_macro s h x t : finv (mem s h x) -> finv (mem s h (snd (new_macro x t))).
Proof.
  intros F. apply (finv_mem_store s h x); [exact F|reflexivity|cbn [new_macro snd next_id]; lia|
    apply (fi_code _ F)|apply (fi_vecs _ F)|apply (fi_conts _ F)].
Qed.
Lemma finv_mem_new_lam s h x l : finv (mem s h x) -> bc_ok (l_bc l) -> finv (mem s h (snd (new_lam x l))).
Proof. intros F Hl. exact (finv_new_lam (mem s h x) l F Hl). Qed.

(* box a value unless it is a pointer already (put_cell, maybe_put_cell of a pair) *)
Lemma finv_mem_box s h x v r h' :
  finv (mem s h x) -> opnd v = true ->
  match v with VPtr _ => (v, h) | _ => heap_put h v end = (r, h') -> finv (mem s h' x) /\ isptr r.
Proof.
  intros F Hv H.
  assert (G : heap_put h v = (r, h') -> finv (mem s h' x) /\ isptr r).
  { apply finv_mem_put; [exact F|apply opnd_clean, Hv]. }
  destruct v; exact (G H).
Qed.

Theorem mpc_finv c : forall s h x v h' x',
  finv (mem s h x) -> maybe_put_cell h x c = Ok (v, h', x') -> finv (mem s h' x') /\ opnd v = true.
Proof.
  induction c as [c Hnp Hnv|ca cd IHa IHd|l HF] using cell_ind2; intros s h x v h' x' F H.
  - destruct c; cbn [maybe_put_cell] in H;
      try (injection H as <- <- <-; split; [exact F|reflexivity]); try discriminate.
    + exfalso. now apply (Hnp c1 c2).
    + destruct (new_str x s0) as [sid x1] eqn:En. destruct (heap_put h (VStr sid)) as [p h1] eqn:E.
      injection H as <- <- <-.
      pose proof (finv_mem_new_str s h x s0 F) as F1. rewrite En in F1. cbn [snd] in F1.
      destruct (finv_mem_put s h x1 (VStr sid) _ _ F1 I E) as [F2 Hp]. split; [exact F2|apply isptr_opnd, Hp].
    + destruct (heap_put h (VSym s0)) as [p h1] eqn:E. injection H as <- <- <-.
      destruct (finv_mem_put s h x (VSym s0) _ _ F I E) as [F2 Hp]. split; [exact F2|apply isptr_opnd, Hp].
    + exfalso. now apply (Hnv l).
  - cbn [maybe_put_cell] in H. apply bind_ok_inv in H as [[[va h1] x1] [H1 H]].
    destruct (IHa s h x va h1 x1 F H1) as [F1 Hva].
    destruct (match va with VPtr _ => (va, h1) | _ => heap_put h1 va end) as [pa h2] eqn:E2.
    destruct (finv_mem_box s h1 x1 va pa h2 F1 Hva E2) as [F2 [a ->]].
    apply bind_ok_inv in H as [[[vd h3] x3] [H3 H]].
    destruct (IHd s h2 x1 vd h3 x3 F2 H3) as [F3 Hvd].
    destruct (match vd with VPtr _ => (vd, h3) | _ => heap_put h3 vd end) as [pd h4] eqn:E4.
    destruct (finv_mem_box s h3 x3 vd pd h4 F3 Hvd E4) as [F4 [d ->]].
    destruct (heap_put h4 (VPair a d)) as [pp h5] eqn:E5. injection H as <- <- <-.
    destruct (finv_mem_put s h4 x3 (VPair a d) _ _ F4 I E5) as [F5 Hp]. split; [exact F5|apply isptr_opnd, Hp].
  - cbn [maybe_put_cell] in H.
    set (elems := fix elems (h : heap) (s : store) (l : list cell) (acc : list vcell) {struct l} :
                    out (list vcell * heap * store) :=
                    match l with
                    | [] => Ok (rev acc, h, s)
                    | x :: r => do (v, h1, s1) <- maybe_put_cell h s x; elems h1 s1 r (v :: acc)
                    end) in *.
    assert (HE : forall l0, Forall (fun c => forall s h x v h' x', finv (mem s h x) ->
                   maybe_put_cell h x c = Ok (v, h', x') -> finv (mem s h' x') /\ opnd v = true) l0 ->
                 forall h0 x0 acc vs h0' x0', finv (mem s h0 x0) -> clean_list acc ->
                   elems h0 x0 l0 acc = Ok (vs, h0', x0') -> finv (mem s h0' x0') /\ clean_list vs).
    { induction l0 as [|c r IHr]; intros Fa h0 x0 acc vs h0' x0' F0 Hacc HEq.
      - cbn in HEq. injection HEq as <- <- <-. split; [exact F0|apply clean_rev, Hacc].
      - cbn in HEq. apply bind_ok_inv in HEq as [[[vx hx] sx] [HX HEq]].
        inversion Fa as [|c0 r0 Hc Hr]; subst.
        destruct (Hc s h0 x0 vx hx sx F0 HX) as [Fx Hvx].
        apply (IHr Hr hx sx (vx :: acc) vs h0' x0' Fx); [|exact HEq].
        apply clean_cons; [apply opnd_clean, Hvx|exact Hacc]. }
    apply bind_ok_inv in H as [[[vs h1] x1] [H1 H]].
    destruct (HE l HF h x [] vs h1 x1 F clean_nil H1) as [F1 Hvs].
    destruct (new_vec x1 vs) as [vid x2] eqn:En. destruct (heap_put h1 (VVec vid)) as [p h2] eqn:E.
    injection H as <- <- <-.
    pose proof (finv_mem_new_vec s h1 x1 vs F1 Hvs) as F2. rewrite En in F2. cbn [snd] in F2.
    destruct (finv_mem_put s h1 x2 (VVec vid) _ _ F2 I E) as [F3 Hp]. split; [exact F3|apply isptr_opnd, Hp].
Qed.

Theorem pc_finv c s h x v h' x' :
  finv (mem s h x) -> put_cell h x c = Ok (v, h', x') -> finv (mem s h' x') /\ isptr v.
Proof.
  intros F H. unfold put_cell in H. apply bind_ok_inv in H as [[[v1 h1] x1] [H1 H]].
  destruct (mpc_finv c s h x v1 h1 x1 F H1) as [F1 Hv1].
  destruct v1;
    try (destruct (heap_put h1 _) as [pp0 hh2] eqn:E; injection H as <- <- <-;
         refine (finv_mem_put s h1 x1 _ _ _ F1 _ E); exact I); try discriminate Hv1.
  injection H as <- <- <-. split; [exact F1|eexists; reflexivity].
Qed.

Lemma pres_maybe_put_cell_m c : pres (maybe_put_cell_m c) (fun v => opnd v = true).
Proof.
  intros s F _. unfold maybe_put_cell_m.
  destruct (maybe_put_cell (hp s) (st s) c) as [[[v h] x]| | |] eqn:E; cbn [post]; auto.
  rewrite <- (mem_self s) in F. exact (mpc_finv c s _ _ v h x F E).
Qed.
Lemma pres_maybe_put_cell_m' c : pres (maybe_put_cell_m c) no_lexptr.
Proof. apply (pres_weaken _ _ _ (pres_maybe_put_cell_m c)). apply opnd_clean. Qed.
Lemma pres_put_cell_m c : pres (put_cell_m c) isptr.
Proof.
  intros s F _. unfold put_cell_m.
  destruct (put_cell (hp s) (st s) c) as [[[v h] x]| | |] eqn:E; cbn [post]; auto.
  rewrite <- (mem_self s) in F. exact (pc_finv c s _ _ v h x F E).
Qed.

Lemma pres_put_cells l : pres (put_cells l) T.
Proof.
  induction l as [|c r IH]; cbn [put_cells]; [apply pres_ret; exact I|].
  eapply pres_bind; [apply pres_put_cell_m|intros p _].
  eapply pres_bind; [apply IH|intros ps _]. apply pres_ret. exact I.
Qed.
Lemma pres_compile_formals a : forall acc, pres (compile_formals a acc) T.
Proof.
  induction a; intros acc; cbn [compile_formals]; try (apply pres_ret; exact I).
  - destruct (negb (Compile.is_symbol a1)); [apply pres_fail|].
    destruct (is_primitive_symbol a1); [apply pres_fail|].
    eapply pres_bind; [apply pres_put_cell_m|intros p _]. apply IHa2.
  - destruct (is_primitive_symbol (CSym s)); [apply pres_fail|].
    eapply pres_bind; [apply pres_put_cell_m|intros p _]. apply pres_ret. exact I.
Qed.

(* ------------------------------------------------------------------ global bindings *)
Lemma pres_get_binding p : pres (get_binding p) T.
Proof.
  intros s F _. unfold get_binding. destruct (assoc_find (g_bind s) p); cbn [post]; [split; [exact F|exact I]|]. split; [|exact I].
  pose proof F as [L F1 F2 F3 F4 F5].
  constructor; cbn [hp st g_slots with_globals]; try assumption.
  - apply (lex_inv_regs s); try reflexivity; [|apply (li_acc s L)|exact L].
    apply (stack_clean_same s); [apply (li_stack s L)|reflexivity].
  - intros i v. apply list_get_app_clean; [exact F2|exact I].
Qed.

(* the operand naming a variable: a global slot, a frame offset or a lexical slot *)
Definition locv (v : vcell) : bool := match v with VGSlot _ | VBpOff _ | VLexSlot _ => true | _ => false end.
Lemma pres_location_operand l r : pres (location_operand l r) (fun v => locv v = true).
Proof.
  unfold location_operand. destruct (binding_location l r); try (apply pres_ret; reflexivity).
  destruct r; try apply pres_panic.
  eapply pres_bind; [apply pres_get_binding|intros slot _]. apply pres_ret. reflexivity.
Qed.

(* ------------------------------------------------------------------ reversed bytecode *)
Definition ptr_ok_after (x : vcell) : bool :=
  match x with VOp OMovImmediate | VOp OJnt | VOp OJmp | VOp OPushImmediate => true | _ => false end.
Definition is_movop (x : vcell) : bool := match x with VOp OMov | VOp OMovImmediate => true | _ => false end.
(* [x] was emitted just before [y] *)
Definition adjb (x y : vcell) : bool :=
  match y with
  | VPtr _ => ptr_ok_after x
  | VOp _ => negb (is_movop x)
  | _ => true
  end.
Definition is_vptr (v : vcell) : bool := match v with VPtr _ => true | _ => false end.
(* on the REVERSED list (head = last cell emitted) *)
Fixpoint chain (bc : list vcell) : bool :=
  match bc with
  | [] => true
  | y :: r => no_lexptrb y && match r with [] => negb (is_vptr y) | x :: _ => adjb x y end && chain r
  end.
Definition complete (bc : list vcell) : bool := match bc with x :: _ => negb (is_movop x) | [] => true end.
Definition good (bc : list vcell) : Prop := chain bc = true /\ complete bc = true.

Lemma good_nil : good [].
Proof. split; reflexivity. Qed.

Lemma chain_tail y r : chain (y :: r) = true -> chain r = true.
Proof. cbn [chain]. intros H. apply andb_prop in H as [_ H]. exact H. Qed.

Lemma chain_mid a : forall y x b, chain (a ++ y :: x :: b) = true -> adjb x y = true.
Proof.
  induction a as [|z a IH]; intros y x b H.
  - cbn [app chain] in H. apply andb_prop in H as [H _]. apply andb_prop in H as [_ H]. exact H.
  - apply (IH y x b). exact (chain_tail _ _ H).
Qed.
Lemma chain_all a : forall y b, chain (a ++ y :: b) = true -> no_lexptrb y = true.
Proof.
  induction a as [|z a IH]; intros y b H.
  - cbn [app chain] in H. apply andb_prop in H as [H _]. apply andb_prop in H as [H _]. exact H.
  - apply (IH y b). exact (chain_tail _ _ H).
Qed.
Lemma chain_first a y : chain (a ++ [y]) = true -> is_vptr y = false.
Proof.
  induction a as [|z a IH]; intros H.
  - cbn [app chain] in H. apply andb_prop in H as [H _]. apply andb_prop in H as [_ H].
    destruct (is_vptr y); [discriminate|reflexivity].
  - apply IH. exact (chain_tail _ _ H).
Qed.

(* the finished bytecode satisfies bc_ok *)
Lemma nth_error_split3 {A} (F : list A) n x z :
  nth_error F n = Some x -> nth_error F (S (S n)) = Some z ->
  exists a y b, F = a ++ x :: y :: z :: b.
Proof.
  intros Hx Hz. apply nth_error_split in Hx as (a & r & -> & <-).
  rewrite nth_error_app2 in Hz by lia. replace (S (S (length a)) - length a)%nat with 2%nat in Hz by lia.
  destruct r as [|y [|z' b]]; try discriminate. cbn in Hz. injection Hz as ->. eauto.
Qed.

Theorem chain_bc_ok bc : chain bc = true -> bc_ok (rev bc).
Proof.
  intros H. split.
  - intros i v Hi. unfold list_get in Hi. apply nth_error_In in Hi. apply in_rev in Hi.
    apply in_split in Hi as (a & b & ->). apply chain_all in H. destruct v; try exact I. discriminate.
  - intros i o p Hi Hm Hp. unfold list_get in *. replace (N.to_nat (i + 2)) with (S (S (N.to_nat i))) in Hp by lia.
    destruct (nth_error_split3 _ _ _ _ Hi Hp) as (a & y & b & E).
    assert (E' : bc = rev b ++ VPtr p :: y :: VOp o :: rev a).
    { rewrite <- (rev_involutive bc), E. rewrite rev_app_distr. cbn [rev]. rewrite <- !app_assoc. reflexivity. }
    rewrite E' in H.
    pose proof (chain_mid _ _ _ _ H) as H1. cbn [adjb] in H1.
    replace (rev b ++ VPtr p :: y :: VOp o :: rev a) with ((rev b ++ [VPtr p]) ++ y :: VOp o :: rev a) in H
      by (rewrite <- app_assoc; reflexivity).
    pose proof (chain_mid _ _ _ _ H) as H2.
    destruct y; try discriminate H1. destruct o0; try discriminate H1;
      destruct Hm as [-> | ->]; discriminate H2.
Qed.

(* ---- emitting whole instructions *)
Fixpoint fwd_ok (prev : vcell) (vs : list vcell) : bool :=
  match vs with [] => true | y :: r => no_lexptrb y && adjb prev y && fwd_ok y r end.
Definition seg_ok (vs : list vcell) : bool :=
  match vs with
  | VOp o :: rest => fwd_ok (VOp o) rest && negb (is_movop (last rest (VOp o)))
  | _ => false
  end.
Definition emits (l : lambda) (vs : list vcell) : lambda := fold_left emit vs l.

Lemma bc_emits vs : forall l, l_bc (emits l vs) = rev vs ++ l_bc l.
Proof.
  induction vs as [|v r IH]; intros l; [reflexivity|]. cbn [emits fold_left]. fold (emits (emit l v) r).
  rewrite IH. cbn [emit l_bc rev]. rewrite <- app_assoc. reflexivity.
Qed.

Lemma hd_rev_last (vs : list vcell) x r : hd x (rev vs ++ x :: r) = last vs x.
Proof.
  induction vs as [|z vs' _] using rev_ind; [reflexivity|].
  rewrite rev_app_distr, last_last. reflexivity.
Qed.
Lemma chain_fwd vs : forall x r, chain (x :: r) = true -> fwd_ok x vs = true ->
  chain (rev vs ++ x :: r) = true.
Proof.
  induction vs as [|y vs IH]; intros x r Hc Hf; [exact Hc|].
  cbn [fwd_ok] in Hf. apply andb_prop in Hf as [Hf Hf2]. apply andb_prop in Hf as [Hy Hxy].
  assert (Hc' : chain (y :: x :: r) = true).
  { cbn [chain]. rewrite Hy, Hxy. exact Hc. }
  pose proof (IH y (x :: r) Hc' Hf2) as H1.
  cbn [rev]. rewrite <- app_assoc. exact H1.
Qed.

Theorem good_emits l vs : good (l_bc l) -> seg_ok vs = true -> good (l_bc (emits l vs)).
Proof.
  intros [Hc Hk] Hs. destruct vs as [|v rest]; [discriminate|]. destruct v; try discriminate.
  cbn [seg_ok] in Hs. apply andb_prop in Hs as [Hf Hl].
  assert (Hc0 : chain (VOp o :: l_bc l) = true).
  { cbn [chain no_lexptrb andb]. rewrite Hc. destruct (l_bc l) as [|x r]; [reflexivity|].
    cbn [adjb]. cbn [complete] in Hk. rewrite Hk. reflexivity. }
  pose proof (chain_fwd rest (VOp o) (l_bc l) Hc0 Hf) as H1.
  pose proof (hd_rev_last rest (VOp o) (l_bc l)) as H2.
  rewrite bc_emits. cbn [rev]. rewrite <- app_assoc. cbn [app]. split; [exact H1|].
  unfold complete. destruct (rev rest ++ VOp o :: l_bc l) as [|z q] eqn:E.
  - reflexivity.
  - cbn [hd] in H2. subst z. exact Hl.
Qed.

(* ---- the frame: compilation only conses onto (and patches inside) what it adds *)
Definition ext (l l' : lambda) : Prop :=
  (exists new, l_bc l' = new ++ l_bc l) /\ (good (l_bc l) -> good (l_bc l')).
Lemma ext_refl l : ext l l.
Proof. split; [exists []; reflexivity|auto]. Qed.
Lemma ext_trans a b c : ext a b -> ext b c -> ext a c.
Proof.
  intros [[n1 E1] G1] [[n2 E2] G2]. split; [|auto].
  exists (n2 ++ n1). rewrite E2, E1, app_assoc. reflexivity.
Qed.
Lemma ext_emits l vs : seg_ok vs = true -> ext l (emits l vs).
Proof. intros H. split; [exists (rev vs); apply bc_emits|intros G; apply good_emits; assumption]. Qed.
Lemma ext_good l l' : ext l l' -> good (l_bc l) -> good (l_bc l').
Proof. intros [_ H]. exact H. Qed.

(* ---- bc_patch of a placeholder *)
Lemma len_cons' {A} (x : A) l : len (x :: l) = len l + 1.
Proof. unfold len. cbn [length]. lia. Qed.
Lemma len_app' {A} (a b : list A) : len (a ++ b) = len a + len b.
Proof. unfold len. rewrite app_length. lia. Qed.
Lemma list_set_mid {A} (a b : list A) x v : list_set (a ++ x :: b) (len a) v = a ++ v :: b.
Proof.
  unfold list_set, len. rewrite Nat2N.id. induction a as [|y a IH]; [reflexivity|].
  cbn [app length list_set_nat]. rewrite IH. reflexivity.
Qed.
Lemma patch_mid L a x b i v : l_bc L = a ++ x :: b -> i = len b -> l_bc (bc_patch L i v) = a ++ v :: b.
Proof.
  intros E ->. unfold bc_patch, bc_len. cbn [l_bc]. rewrite E.
  replace (len (a ++ x :: b) - 1 - len b) with (len a) by (rewrite len_app', len_cons'; lia).
  apply list_set_mid.
Qed.

Lemma chain_swap a : forall c q b, chain (a ++ VPtr c :: b) = true -> chain (a ++ VPtr q :: b) = true.
Proof.
  induction a as [|y a IH]; intros c q b H.
  - exact H.
  - cbn [app chain] in *. apply andb_prop in H as [H H2]. apply andb_prop in H as [Hy H1].
    rewrite Hy, (IH c q b H2). destruct a as [|z a']; [|cbn [app] in *; rewrite H1; reflexivity].
    cbn [app] in *. destruct y; try exact H1; try reflexivity.
Qed.
Lemma good_swap a c q b : good (a ++ VPtr c :: b) -> good (a ++ VPtr q :: b).
Proof.
  intros [H1 H2]. split; [apply (chain_swap a c q b H1)|]. destruct a; [reflexivity|exact H2].
Qed.

Lemma ext_patch l0 L a c b i q :
  ext l0 L -> l_bc L = a ++ VPtr c :: b -> i = len b -> (exists n, b = n ++ l_bc l0) ->
  ext l0 (bc_patch L i (VPtr q)) /\ l_bc (bc_patch L i (VPtr q)) = a ++ VPtr q :: b.
Proof.
  intros [_ G] E Hi [n Hn]. pose proof (patch_mid L a _ b i (VPtr q) E Hi) as E'. split; [|exact E'].
  split.
  - exists (a ++ VPtr q :: n). rewrite E', Hn, <- app_assoc. reflexivity.
  - intros G0. rewrite E'. apply (good_swap a c q b). rewrite <- E. exact (G G0).
Qed.

(* ------------------------------------------------------------------ one unfolding of the compiler *)
(* the body of [compile_expression (S f)] / [compile_quasiquote (S f)] with the recursive
   calls at fuel [f] abstracted as [ce] / [cq] (checked by [reflexivity] below) *)
Section Forms.
Variable ce : lambda -> bool -> cell -> M lambda.
Variable cq : lambda -> cell -> N -> M lambda.

Definition f_quote (l : lambda) (x : cell) : M lambda :=
  if negb (cell_is_datum x) then fail E_OTHER else
  dom v <- maybe_put_cell_m x;
  ret (emit (emit (emit_op l OMovImmediate) v) VAcc).
Definition f_store (l : lambda) (symbol : cell) : M lambda :=
  dom sym_ref <- put_cell_m symbol;
  let l1 := emit (emit_op l OMov) VAcc in
  dom operand <- location_operand l1 sym_ref;
  ret (emit (emit (emit_op (emit l1 operand) OMovImmediate) VVoid) VAcc).
Fixpoint f_body (b : cell) (lam : lambda) {struct b} : M lambda :=
  match b with
  | CPair x r => dom lam' <- ce lam (is_nil r) x; f_body r lam'
  | _ => ret lam
  end.
Definition f_lambda (iof : lambda) (expr : cell) (is_define : bool) : M lambda :=
  dom rest <- lift (cdr_e expr);
  if is_nil rest then fail E_OTHER else
  dom head <- lift (car_e rest);
  dom body <- lift (cdr_e rest);
  dom formal_ast <- (if is_define then lift (cdr_e head) else ret head);
  dom (formals, vararg) <- (if is_nil formal_ast then ret ([], false) else compile_formals formal_ast []);
  dom free <- lift (free_symbols expr);
  dom free_refs <- put_cells free;
  dom internal <- lift (internally_defined_symbols body);
  dom internal_refs <- put_cells internal;
  let lam0 := set_desc (lambda_from_iof formals internal_refs iof free_refs vararg) formal_ast in
  let lam1 := if vararg then emit_op lam0 OVarArg else lam0 in
  let lam2 := emit_op lam1 OEnter in
  if is_nil body then fail E_OTHER else
  dom lam3 <- f_body body lam2;
  dom lp <- put_lambda (emit_op lam3 ORet);
  ret (emit_op (emit (emit (emit_op iof OMovImmediate) lp) VAcc) OClosureAcc).
Definition f_if_core (l : lambda) (tail : bool) (test conseq : cell) (alt : option cell) : M lambda :=
  dom l1 <- ce l false test;
  let l2 := emit_op l1 OJnt in
  let jnt_operand := bc_len l2 in
  let l3 := emit l2 (VPtr CAFEBEEF) in
  dom l4 <- ce l3 tail conseq;
  let l5 := emit_op l4 OJmp in
  let jmp_operand := bc_len l5 in
  let l6 := emit l5 (VPtr CAFEBEEF) in
  let l7 := bc_patch l6 jnt_operand (VPtr (bc_len l6)) in
  dom l8 <- (match alt with
             | Some a => ce l7 tail a
             | None => ret (emit (emit (emit_op l7 OMovImmediate) VVoid) VAcc)
             end);
  ret (bc_patch l8 jmp_operand (VPtr (bc_len l8))).
Definition f_if (l : lambda) (tail : bool) (rest : cell) : M lambda :=
  if Compile.is_nil rest || negb (Compile.is_list rest) then fail E_OTHER else
  dom (test, conseq, alt) <-
    (match cell_iter rest with
     | [t; c] => ret (t, c, None)
     | [t; c; a] => ret (t, c, Some a)
     | _ => fail E_OTHER
     end);
  f_if_core l tail test conseq alt.
Fixpoint f_args (r : cell) (lam : lambda) (n : N) {struct r} : M (lambda * N) :=
  match r with
  | CPair x r' => dom lam' <- ce lam false x; f_args r' (emit_op lam' OPushAcc) (n + 1)
  | _ => ret (lam, n)
  end.
Definition f_app (l : lambda) (tail : bool) (proc rest : cell) : M lambda :=
  dom (l1, n) <- f_args rest l 0;
  let l2 := emit (emit_op l1 OPushImmediate) (VArgc n) in
  dom l3 <- ce l2 false proc;
  ret (emit_op l3 (if tail then OTCallAcc else OCallAcc)).
Definition f_defsyntax (l : lambda) (e : cell) : M lambda :=
  dom tr <- lift (transform_try_new e);
  fun s =>
    let '(mid, x) := new_macro (st s) tr in
    let '(tp, h) := heap_put (hp s) (VMacro mid) in
    (dom sym_ref <- put_cell_m (tr_keyword tr);
     dom p <- as_ptr sym_ref;
     dom slot <- get_binding p;
     ret (emit (emit (emit_op (emit (emit (emit_op l OMovImmediate) tp) (VGSlot slot))
                              OMovImmediate) VVoid) VAcc))
    (with_store (with_heap s h) x).
Definition f_define (l : lambda) (e rest : cell) : M lambda :=
  if Compile.is_nil rest then fail E_OTHER else
  dom r1 <- lift (cdr_e rest);
  if Compile.is_nil r1 then fail E_OTHER else
  dom target <- lift (car_e rest);
  dom (l1, symbol) <-
    (match target with
     | CSym _ =>
         dom r2 <- lift (cdr_e r1);
         if negb (Compile.is_nil r2) then fail E_OTHER else
         dom v <- lift (car_e r1);
         dom l1 <- ce l false v; ret (l1, target)
     | CPair name _ =>
         if negb (Compile.is_symbol name) then fail E_OTHER else
         dom l1 <- f_lambda l e true; ret (l1, name)
     | _ => fail E_OTHER
     end);
  if is_primitive_symbol symbol then fail E_OTHER else f_store l1 symbol.
Definition f_set (l : lambda) (rest : cell) : M lambda :=
  match cell_iter rest with
  | [variable; expression] =>
      if negb (Compile.is_symbol variable) || is_primitive_symbol variable then fail E_OTHER else
      dom l1 <- ce l false expression;
      f_store l1 variable
  | _ => fail E_OTHER
  end.

Definition f_expr (l : lambda) (tail : bool) (e : cell) : M lambda :=
  match e with
  | CSym _ =>
      if is_primitive_symbol e then fail E_OTHER else
      dom sym_ref <- put_cell_m e;
      dom operand <- location_operand l sym_ref;
      ret (emit (emit (emit_op l OMov) operand) VAcc)
  | CNil => fail E_OTHER
  | CProc _ | CVoid | CUndef | CMacro | CCont => fail E_OTHER
  | CBool _ | CChar _ | CNum _ | CStr _ | CVec _ => f_quote l e
  | CPair proc rest =>
      if sym_eq proc "define" then f_define l e rest
      else if sym_eq proc "define-syntax" then f_defsyntax l e
      else if sym_eq proc "lambda" || Datum.sym_is proc [955] then f_lambda l e false
      else if sym_eq proc "quasiquote" then
        dom x <- lift (car_e rest); cq l x 0
      else if sym_eq proc "quote" then
        dom x <- lift (car_e rest); f_quote l x
      else if sym_eq proc "if" then f_if l tail rest
      else if sym_eq proc "set!" then f_set l rest
      else f_app l tail proc rest
  end.

Section QLoops.
Variable depth : N.
Variable count : N.
Fixpoint f_items (its : list cell) (lam : lambda) {struct its} : M lambda :=
  match its with
  | [] => ret lam
  | it :: r => dom lam' <- cq (emit_op lam OPushAcc) it depth;
               f_items r (emit_op lam' OVPushAcc)
  end.
Fixpoint f_elems (r : cell) (lam : lambda) (cnt : N) {struct r} : M (lambda * N * cell) :=
  match r with
  | CPair x r' => dom lam' <- cq lam x depth;
                  f_elems r' (emit_op lam' OPushAcc) (cnt + 1)
  | other => ret (lam, cnt, other)
  end.
Fixpoint f_conses (k : nat) (i : N) (lam : lambda) : lambda :=
  match k with
  | O => lam
  | S k' => let lam1 := emit_op lam OCons in
            f_conses k' (i + 1) (if i <? count - 1 then emit_op lam1 OPushAcc else lam1)
  end.
End QLoops.
Definition f_quasi (l : lambda) (e : cell) (depth : N) : M lambda :=
  match e with
  | CVec items =>
      dom nv <- vec_new [];
      dom nvp <- hput nv;
      let l1 := emit (emit (emit_op l OMovImmediate) nvp) VAcc in
      f_items depth items l1
  | CPair a d =>
      let is_unq := Datum.sym_is a UNQUOTE in
      if is_unq && (depth =? 0) then
        dom d1 <- lift (cdr_e e); dom x <- lift (car_e d1);
        ce l false x
      else
        let depth1 := if is_unq then depth - 1 else depth in
        let depth2 := if Datum.sym_is a QUASIQUOTE then depth1 + 1 else depth1 in
        dom (l1, count, tailc) <- f_elems depth2 e l 0;
        if negb (cell_is_datum tailc) then fail E_OTHER else
        dom tv <- maybe_put_cell_m tailc;
        let l2 := emit (emit_op l1 OPushImmediate) tv in
        ret (f_conses count (N.to_nat count) 0 l2)
  | _ => f_quote l e
  end.
End Forms.

Lemma compile_expression_S f l tail e :
  compile_expression (S f) l tail e = f_expr (compile_expression f) (compile_quasiquote f) l tail e.
Proof. reflexivity. Qed.
Lemma compile_quasiquote_S f l e d :
  compile_quasiquote (S f) l e d = f_quasi (compile_expression f) (compile_quasiquote f) l e d.
Proof. destruct e; reflexivity. Qed.

(* ------------------------------------------------------------------ the forms keep finv and [ext] *)
Lemma pres_bind_fail {A B} e (k : A -> M B) (R : B -> Prop) : pres (bindM (fail e) k) R.
Proof. intros s F _. exact F. Qed.
Lemma pres_ext_trans {l l1 : lambda} (m : M lambda) : ext l l1 -> pres m (ext l1) -> pres m (ext l).
Proof. intros H Hm. apply (pres_weaken _ _ _ Hm). intros l2 H2. exact (ext_trans _ _ _ H H2). Qed.

Lemma seg_movimm v : opnd v = true -> seg_ok [VOp OMovImmediate; v; VAcc] = true.
Proof. destruct v; try discriminate; reflexivity. Qed.
Lemma seg_pushimm v : opnd v = true -> seg_ok [VOp OPushImmediate; v] = true.
Proof. destruct v; try discriminate; reflexivity. Qed.

(* bc_ok of a finished lambda, and its installation *)
Lemma good_finish l : good (l_bc l) -> bc_ok (l_bc (lambda_finish l)).
Proof. intros [H _]. cbn [lambda_finish l_bc]. apply chain_bc_ok, H. Qed.

Lemma pres_put_lambda l : good (l_bc l) -> pres (put_lambda l) isptr.
Proof.
  intros G s F _. unfold put_lambda. cbn [new_lam].
  destruct (heap_put (hp s) (VLambda (next_id (st s)))) as [p h] eqn:E. cbn [post].
  rewrite <- (mem_self s) in F.
  pose proof (finv_mem_new_lam s (hp s) (st s) (lambda_finish l) F (good_finish l G)) as F1.
  exact (finv_mem_put s (hp s) _ (VLambda (next_id (st s))) p h F1 I E).
Qed.

Section Step.
Variable ce : lambda -> bool -> cell -> M lambda.
Variable cq : lambda -> cell -> N -> M lambda.
Hypothesis IHe : forall l tail e, pres (ce l tail e) (ext l).
Hypothesis IHq : forall l e d, pres (cq l e d) (ext l).

Lemma f_quote_ok l x : pres (f_quote l x) (ext l).
Proof.
  unfold f_quote. destruct (negb (cell_is_datum x)); [apply pres_fail|].
  eapply pres_bind; [apply pres_maybe_put_cell_m|intros v Hv]. apply pres_ret.
  apply (ext_emits l [VOp OMovImmediate; v; VAcc]). apply seg_movimm, Hv.
Qed.

Lemma f_store_ok l symbol : pres (f_store l symbol) (ext l).
Proof.
  unfold f_store. eapply pres_bind; [apply pres_put_cell_m|intros r _]. cbv zeta.
  eapply pres_bind; [apply pres_location_operand|intros o Ho]. apply pres_ret.
  apply (ext_emits l [VOp OMov; VAcc; o; VOp OMovImmediate; VVoid; VAcc]).
  destruct o; try discriminate Ho; reflexivity.
Qed.

Lemma f_body_ok b : forall lam, pres (f_body ce b lam) (ext lam).
Proof.
  induction b; intros lam; cbn [f_body]; try (apply pres_ret; apply ext_refl).
  eapply pres_bind; [apply IHe|intros lam' H']. apply (pres_ext_trans _ H'). apply IHb2.
Qed.

Lemma f_lambda_ok iof expr d : pres (f_lambda ce iof expr d) (ext iof).
Proof.
  unfold f_lambda. eapply pres_bind; [apply pres_lift|intros rest _].
  destruct (Compile.is_nil rest); [apply pres_fail|].
  eapply pres_bind; [apply pres_lift|intros head _].
  eapply pres_bind; [apply pres_lift|intros body _].
  eapply pres_bind with (Q := T); [destruct d; [apply pres_lift|apply pres_ret; exact I]|intros formal_ast _].
  eapply pres_bind with (Q := T);
    [destruct (Compile.is_nil formal_ast); [apply pres_ret; exact I|apply pres_compile_formals]|intros [formals vararg] _].
  eapply pres_bind; [apply pres_lift|intros free _].
  eapply pres_bind; [apply pres_put_cells|intros free_refs _].
  eapply pres_bind; [apply pres_lift|intros internal _].
  eapply pres_bind; [apply pres_put_cells|intros internal_refs _]. cbv zeta.
  destruct (Compile.is_nil body); [apply pres_fail|].
  set (lam0 := set_desc (lambda_from_iof formals internal_refs iof free_refs vararg) formal_ast).
  set (lam2 := emit_op (if vararg then emit_op lam0 OVarArg else lam0) OEnter).
  assert (G2 : good (l_bc lam2)).
  { unfold lam2. destruct vararg.
    - apply (good_emits lam0 [VOp OVarArg; VOp OEnter]); [apply good_nil|reflexivity].
    - apply (good_emits lam0 [VOp OEnter]); [apply good_nil|reflexivity]. }
  eapply pres_bind; [apply f_body_ok|intros lam3 H3].
  eapply pres_bind.
  - apply pres_put_lambda. apply (good_emits lam3 [VOp ORet]); [apply (ext_good _ _ H3 G2)|reflexivity].
  - intros lp Hlp. apply pres_ret.
    apply (ext_emits iof [VOp OMovImmediate; lp; VAcc; VOp OClosureAcc]).
    destruct Hlp as [a ->]. reflexivity.
Qed.

Lemma f_if_core_ok l tail t c alt : pres (f_if_core ce l tail t c alt) (ext l).
Proof.
  unfold f_if_core. eapply pres_bind; [apply IHe|intros l1 H1]. cbv zeta.
  eapply pres_bind; [apply IHe|intros l4 H4].
  set (l3 := emit (emit_op l1 OJnt) (VPtr CAFEBEEF)) in *.
  set (l6 := emit (emit_op l4 OJmp) (VPtr CAFEBEEF)).
  assert (E13 : ext l1 l3) by (apply (ext_emits l1 [VOp OJnt; VPtr CAFEBEEF]); reflexivity).
  assert (E46 : ext l4 l6) by (apply (ext_emits l4 [VOp OJmp; VPtr CAFEBEEF]); reflexivity).
  assert (E06 : ext l l6) by (eapply ext_trans; [exact H1|]; eapply ext_trans; [exact E13|]; eapply ext_trans; [exact H4|exact E46]).
  destruct H1 as [[n1 B1] G1]. destruct H4 as [[n4 B4] G4].
  assert (B6 : l_bc l6 = (VPtr CAFEBEEF :: VOp OJmp :: n4) ++ VPtr CAFEBEEF :: (VOp OJnt :: l_bc l1)).
  { unfold l6. cbn [emit emit_op l_bc]. rewrite B4. reflexivity. }
  destruct (ext_patch l l6 _ _ _ (bc_len (emit_op l1 OJnt)) (bc_len l6) E06 B6) as [E07 B7].
  { reflexivity. }
  { exists (VOp OJnt :: n1). rewrite B1. reflexivity. }
  set (l7 := bc_patch l6 (bc_len (emit_op l1 OJnt)) (VPtr (bc_len l6))) in *.
  eapply pres_bind with (Q := ext l7).
  { destruct alt as [a|]; [apply IHe|]. apply pres_ret.
    apply (ext_emits l7 [VOp OMovImmediate; VVoid; VAcc]). reflexivity. }
  intros l8 H8. apply pres_ret.
  assert (E08 : ext l l8) by (eapply ext_trans; [exact E07|exact H8]).
  destruct H8 as [[n8 B8] G8].
  assert (B8' : l_bc l8 = n8 ++ VPtr CAFEBEEF ::
                 (VOp OJmp :: n4 ++ VPtr (bc_len l6) :: VOp OJnt :: l_bc l1)).
  { rewrite B8, B7. reflexivity. }
  refine (proj1 (ext_patch l l8 _ _ _ (bc_len (emit_op l4 OJmp)) (bc_len l8) E08 B8' _ _)).
  - unfold bc_len. cbn [emit_op emit l_bc]. rewrite B4. unfold l3. cbn [emit_op emit l_bc].
    rewrite !len_cons', !len_app', !len_cons'. reflexivity.
  - exists (VOp OJmp :: n4 ++ VPtr (bc_len l6) :: VOp OJnt :: n1). rewrite B1.
    cbn [app]. rewrite <- app_assoc. reflexivity.
Qed.

Lemma f_if_ok l tail rest : pres (f_if ce l tail rest) (ext l).
Proof.
  unfold f_if. destruct (Compile.is_nil rest || negb (Compile.is_list rest)); [apply pres_fail|].
  destruct (cell_iter rest) as [|t [|c [|a [|b r]]]]; try apply pres_bind_fail; apply f_if_core_ok.
Qed.

Lemma f_args_ok r : forall lam n, pres (f_args ce r lam n) (fun p => ext lam (fst p)).
Proof.
  induction r; intros lam k; cbn [f_args]; try (apply pres_ret; apply ext_refl).
  eapply pres_bind; [apply IHe|intros lam' H'].
  apply (pres_weaken _ _ _ (IHr2 (emit_op lam' OPushAcc) (k + 1))). intros p Hp.
  eapply ext_trans; [exact H'|]. eapply ext_trans; [|exact Hp].
  apply (ext_emits lam' [VOp OPushAcc]). reflexivity.
Qed.

Lemma f_app_ok l tail proc rest : pres (f_app ce l tail proc rest) (ext l).
Proof.
  unfold f_app. eapply pres_bind; [apply f_args_ok|intros [l1 n] H1]. cbn [fst] in H1. cbv zeta.
  eapply pres_bind; [apply IHe|intros l3 H3]. apply pres_ret.
  eapply ext_trans; [exact H1|]. eapply ext_trans; [|eapply ext_trans; [exact H3|]].
  - apply (ext_emits l1 [VOp OPushImmediate; VArgc n]). reflexivity.
  - apply (ext_emits l3 [VOp (if tail then OTCallAcc else OCallAcc)]). destruct tail; reflexivity.
Qed.

Lemma f_defsyntax_ok l e : pres (f_defsyntax l e) (ext l).
Proof.
  unfold f_defsyntax. eapply pres_bind; [apply pres_lift|intros tr _].
  intros s F _. cbn [new_macro].
  destruct (heap_put (hp s) (VMacro (next_id (st s)))) as [tp h] eqn:E.
  rewrite <- (mem_self s) in F.
  pose proof (finv_mem_new_macro s (hp s) (st s) tr F) as F1.
  destruct (finv_mem_put s (hp s) _ (VMacro (next_id (st s))) tp h F1 I E) as [F2 [a ->]].
  cbv iota beta zeta.
  match goal with |- post (?m _) _ => assert (P : pres m (ext l)) end; [|exact (P _ F2 I)].
  eapply pres_bind; [apply pres_put_cell_m|intros r _].
  eapply pres_bind; [apply pres_as_ptr|intros p _].
  eapply pres_bind; [apply pres_get_binding|intros slot _]. apply pres_ret.
  apply (ext_emits l [VOp OMovImmediate; VPtr a; VGSlot slot; VOp OMovImmediate; VVoid; VAcc]). reflexivity.
Qed.

Lemma f_define_ok l e rest : pres (f_define ce l e rest) (ext l).
Proof.
  unfold f_define. destruct (Compile.is_nil rest); [apply pres_fail|].
  eapply pres_bind; [apply pres_lift|intros r1 _].
  destruct (Compile.is_nil r1); [apply pres_fail|].
  eapply pres_bind; [apply pres_lift|intros target _].
  eapply pres_bind with (Q := fun p => ext l (fst p)).
  - destruct target; try apply pres_fail.
    + destruct (negb (Compile.is_symbol target1)); [apply pres_fail|].
      eapply pres_bind; [apply f_lambda_ok|intros l1 H1]. apply pres_ret. exact H1.
    + eapply pres_bind; [apply pres_lift|intros r2 _].
      destruct (negb (Compile.is_nil r2)); [apply pres_fail|].
      eapply pres_bind; [apply pres_lift|intros v _].
      eapply pres_bind; [apply IHe|intros l1 H1]. apply pres_ret. exact H1.
  - intros [l1 symbol] H1. cbn [fst] in H1.
    destruct (is_primitive_symbol symbol); [apply pres_fail|].
    apply (pres_ext_trans _ H1). apply f_store_ok.
Qed.

Lemma f_set_ok l rest : pres (f_set ce l rest) (ext l).
Proof.
  unfold f_set. destruct (cell_iter rest) as [|v [|x [|y r]]]; try apply pres_fail.
  destruct (negb (Compile.is_symbol v) || is_primitive_symbol v); [apply pres_fail|].
  eapply pres_bind; [apply IHe|intros l1 H1]. apply (pres_ext_trans _ H1). apply f_store_ok.
Qed.

Theorem f_expr_ok l tail e : pres (f_expr ce cq l tail e) (ext l).
Proof.
  unfold f_expr. destruct e; try apply pres_fail; try apply f_quote_ok.
  - (* application and the special forms *)
    destruct (sym_eq e1 "define"); [apply f_define_ok|].
    destruct (sym_eq e1 "define-syntax"); [apply f_defsyntax_ok|].
    destruct (sym_eq e1 "lambda" || Datum.sym_is e1 [955]); [apply f_lambda_ok|].
    destruct (sym_eq e1 "quasiquote").
    { eapply pres_bind; [apply pres_lift|intros x _]. apply IHq. }
    destruct (sym_eq e1 "quote").
    { eapply pres_bind; [apply pres_lift|intros x _]. apply f_quote_ok. }
    destruct (sym_eq e1 "if"); [apply f_if_ok|].
    destruct (sym_eq e1 "set!"); [apply f_set_ok|]. apply f_app_ok.
  - (* variable reference *)
    destruct (is_primitive_symbol (CSym s)); [apply pres_fail|].
    eapply pres_bind; [apply pres_put_cell_m|intros r _].
    eapply pres_bind; [apply pres_location_operand|intros o Ho]. apply pres_ret.
    apply (ext_emits l [VOp OMov; o; VAcc]). destruct o; try discriminate Ho; reflexivity.
Qed.

Lemma f_items_ok depth its : forall lam, pres (f_items cq depth its lam) (ext lam).
Proof.
  induction its as [|it r IH]; intros lam; cbn [f_items]; [apply pres_ret; apply ext_refl|].
  eapply pres_bind; [apply IHq|intros lam' H'].
  apply (pres_weaken _ _ _ (IH (emit_op lam' OVPushAcc))). intros l2 H2.
  eapply ext_trans; [apply (ext_emits lam [VOp OPushAcc]); reflexivity|].
  eapply ext_trans; [exact H'|]. eapply ext_trans; [|exact H2].
  apply (ext_emits lam' [VOp OVPushAcc]). reflexivity.
Qed.

Lemma f_elems_ok depth r : forall lam cnt, pres (f_elems cq depth r lam cnt) (fun p => ext lam (fst (fst p))).
Proof.
  induction r; intros lam cnt; cbn [f_elems]; try (apply pres_ret; apply ext_refl).
  eapply pres_bind; [apply IHq|intros lam' H'].
  apply (pres_weaken _ _ _ (IHr2 (emit_op lam' OPushAcc) (cnt + 1))). intros p Hp.
  eapply ext_trans; [exact H'|]. eapply ext_trans; [|exact Hp].
  apply (ext_emits lam' [VOp OPushAcc]). reflexivity.
Qed.

Lemma f_conses_ok count k : forall i lam, ext lam (f_conses count k i lam).
Proof.
  induction k as [|k IH]; intros i lam; cbn [f_conses]; [apply ext_refl|]. cbv zeta.
  eapply ext_trans; [|apply IH]. destruct (i <? count - 1).
  - apply (ext_emits lam [VOp OCons; VOp OPushAcc]). reflexivity.
  - apply (ext_emits lam [VOp OCons]). reflexivity.
Qed.

Theorem f_quasi_ok l e d : pres (f_quasi ce cq l e d) (ext l).
Proof.
  unfold f_quasi. destruct e; try apply f_quote_ok.
  - cbv zeta. destruct (Datum.sym_is e1 UNQUOTE && (d =? 0)).
    + eapply pres_bind; [apply pres_lift|intros d1 _].
      eapply pres_bind; [apply pres_lift|intros x _]. apply IHe.
    + eapply pres_bind; [apply f_elems_ok|intros [[l1 count] tailc] H1]. cbn [fst] in H1.
      destruct (negb (cell_is_datum tailc)); [apply pres_fail|].
      eapply pres_bind; [apply pres_maybe_put_cell_m|intros tv Htv]. apply pres_ret.
      eapply ext_trans; [exact H1|]. eapply ext_trans; [|apply f_conses_ok].
      apply (ext_emits l1 [VOp OPushImmediate; tv]). apply seg_pushimm, Htv.
  - eapply pres_bind; [apply pres_vec_new, clean_nil|intros nv Hnv].
    eapply pres_bind; [apply pres_hput, Hnv|intros nvp [a ->]]. cbv zeta.
    eapply pres_ext_trans; [|apply f_items_ok].
    apply (ext_emits l [VOp OMovImmediate; VPtr a; VAcc]). reflexivity.
Qed.
End Step.

(* ------------------------------------------------------------------ the compiler *)
Theorem compile_ok f :
  (forall l tail e, pres (compile_expression f l tail e) (ext l)) /\
  (forall l e d, pres (compile_quasiquote f l e d) (ext l)).
Proof.
  induction f as [|f [IHe IHq]].
  - split; intros; intros s F _; exact I.
  - split.
    + intros l tail e. rewrite compile_expression_S. apply f_expr_ok; assumption.
    + intros l e d. rewrite compile_quasiquote_S. apply f_quasi_ok; assumption.
Qed.

Theorem pres_compile_expression f l tail e : pres (compile_expression f l tail e) (ext l).
Proof. apply (compile_ok f). Qed.
Theorem pres_compile_quasiquote f l e d : pres (compile_quasiquote f l e d) (ext l).
Proof. apply (compile_ok f). Qed.

(* Vm::compile: macro expansion (reads the machine only), then compile_expression *)
Theorem pres_compile l tail e : pres (compile l tail e) (ext l).
Proof.
  intros s F _. unfold compile. destruct (transform_expr TRANSFORM_FUEL s e); cbn [post]; auto.
  apply (pres_compile_expression _ l tail a s F I).
Qed.

(* what compile_runnable returns is itself a good (unfinished) lambda *)
Theorem pres_compile_runnable e : pres (compile_runnable e) (fun l => good (l_bc l)).
Proof.
  unfold compile_runnable. cbv zeta.
  set (lam := emit_op (set_top (lambda_from_iof [] [] (lambda_new []) [] false)) OEnter).
  assert (G : good (l_bc lam)).
  { apply (good_emits (set_top (lambda_from_iof [] [] (lambda_new []) [] false)) [VOp OEnter]);
      [apply good_nil|reflexivity]. }
  eapply pres_bind; [apply pres_compile|intros lam1 H1].
  eapply pres_bind.
  - apply pres_put_lambda. apply (good_emits lam1 [VOp ORet]); [apply (ext_good _ _ H1 G)|reflexivity].
  - intros lp [a ->]. apply pres_ret.
    apply (good_emits (lambda_new [])
             [VOp OPushImmediate; VArgc 0; VOp OMovImmediate; VPtr a; VAcc; VOp OCallAcc; VOp OHalt]);
      [apply good_nil|reflexivity].
Qed.

(* (H3) Vm::prepare_eval keeps the invariant *)
Theorem prepare_eval_finv e : pres (prepare_eval e) T.
Proof.
  unfold prepare_eval. eapply pres_bind; [apply pres_compile_runnable|intros entry G].
  eapply pres_bind; [apply pres_put_lambda, G|intros lp _].
  eapply pres_bind; [apply pres_as_ptr|intros p _]. apply pres_set_ip.
Qed.

(* (H2) the `eval` builtin keeps the invariant and returns a pointer *)
Theorem b_eval_finv : pres b_eval no_lexptr.
Proof.
  unfold b_eval. eapply pres_bind; [apply pres_pop_argc|intros argc _].
  eapply pres_bind; [apply pres_pop_deref|intros v _].
  eapply pres_bind; [apply pres_to_cell|intros e _]. cbv zeta.
  set (lam := emit_op (set_top (lambda_new [])) OEnter).
  assert (G : good (l_bc lam)).
  { apply (good_emits (set_top (lambda_new [])) [VOp OEnter]); [apply good_nil|reflexivity]. }
  eapply pres_bind; [apply pres_compile|intros lam1 H1].
  eapply pres_bind.
  - apply pres_put_lambda. apply (good_emits lam1 [VOp ORet]); [apply (ext_good _ _ H1 G)|reflexivity].
  - intros lp Hlp. eapply pres_bind; [apply pres_push; exact I|intros _ _].
    eapply pres_bind; [apply pres_dec_ip|intros _ _]. apply pres_ret. apply isptr_clean, Hlp.
Qed.

(* ------------------------------------------------------------------ statements in plain form *)
(* compile_expression from ANY datum, in ANY state satisfying the invariant, onto any
   unfinished lambda whose (reversed) bytecode is [good] — in particular the empty one:
   the state afterwards (constants, symbols, lambdas, macros, global bindings) satisfies
   [finv], the result is [good] and its finished bytecode satisfies [bc_ok]; on a
   compile error the state still satisfies [finv] *)
Theorem compile_bc_ok f l tail e s :
  finv s -> good (l_bc l) ->
  match compile_expression f l tail e s with
  | ROk l' s' => finv s' /\ good (l_bc l') /\ bc_ok (l_bc (lambda_finish l'))
  | RErr _ _ s' => finv s'
  | _ => True
  end.
Proof.
  intros F G. pose proof (pres_compile_expression f l tail e s F I) as P.
  destruct (compile_expression f l tail e s) as [l' s'| | |]; cbn [post] in P; auto.
  destruct P as [F' H]. pose proof (ext_good _ _ H G) as G'. auto using good_finish.
Qed.
Theorem compile_quasiquote_bc_ok f l e d s :
  finv s -> good (l_bc l) ->
  match compile_quasiquote f l e d s with
  | ROk l' s' => finv s' /\ good (l_bc l') /\ bc_ok (l_bc (lambda_finish l'))
  | RErr _ _ s' => finv s'
  | _ => True
  end.
Proof.
  intros F G. pose proof (pres_compile_quasiquote f l e d s F I) as P.
  destruct (compile_quasiquote f l e d s) as [l' s'| | |]; cbn [post] in P; auto.
  destruct P as [F' H]. pose proof (ext_good _ _ H G) as G'. auto using good_finish.
Qed.
Theorem compile_runnable_bc_ok e s :
  finv s ->
  match compile_runnable e s with
  | ROk l s' => finv s' /\ bc_ok (l_bc (lambda_finish l))
  | RErr _ _ s' => finv s'
  | _ => True
  end.
Proof.
  intros F. pose proof (pres_compile_runnable e s F I) as P.
  destruct (compile_runnable e s) as [l' s'| | |]; cbn [post] in P; auto.
  destruct P as [F' G]. auto using good_finish.
Qed.
(* a lambda with no bytecode yet is a valid starting point *)
Lemma good_lambda_new args : good (l_bc (lambda_new args)).
Proof. apply good_nil. Qed.
Theorem good_bc_ok bc : good bc -> bc_ok (rev bc).
Proof. intros [H _]. apply chain_bc_ok, H. Qed.
