(* FlatCompile.v — C02: the COMPILER keeps the invariant [finv] of FlatProofs.v.

   Every code object [compile_expression] / [compile_quasiquote] / [compile_runnable] /
   the `eval` builtin install satisfies [bc_ok], and the heap constants, symbols, lambdas,
   macros and global bindings created during compilation keep [finv].  This discharges the
   two compiler hypotheses of the run-level theorems of FlatProofs.v:
     [pres (prepare_eval e) T]   (prepare_eval_finv)   and
     [pres b_eval no_lexptr]     (b_eval_finv).

   While a lambda is being compiled its bytecode is REVERSED (emit = cons).  The invariant
   on that list is [good]: a chain of adjacent-pair conditions ([adjb x y], x emitted before
   y) that depend only on the SHAPE of the cells:
     - a raw pointer operand [VPtr _] is only ever emitted directly after one of the opcodes
       MOV-immediate, JNT, JMP, PUSH-immediate (its FIRST operand),
     - the cell after a MOV / MOV-immediate opcode is never an opcode,
     - no cell is a [VLexPtr],
   which implies [bc_ok] of the finished list (the destination of a MOV, two cells after the
   opcode, is never a raw pointer), is kept by emitting whole instructions, and is kept by
   [bc_patch] because the patched cell (a jump operand, [VPtr CAFEBEEF]) is replaced by
   another [VPtr].  That the patched position IS the placeholder needs the frame property
   "compilation only conses onto the bytecode it was given": [ext]. *)
From Coq Require Import Lia List String.
From MW Require Import Model.Base Model.F64 Model.Num Model.Datum Model.TransformDef Model.Transform
  Model.VmTypes Model.Heap Model.Gc Model.VmBase Model.Compile Model.Vm
  Proofs.GcProofs Proofs.SymtabProofs Proofs.VmProofs0 Proofs.TailProofs Proofs.ScopeProofs
  Proofs.EnvProofs Proofs.FlatProofs Proofs.FlatPrims.
Open Scope N_scope.
Arguments N.add : simpl never.
Arguments N.sub : simpl never.
Arguments N.eqb : simpl never.
Arguments N.ltb : simpl never.
Arguments N.leb : simpl never.
Arguments N.mul : simpl never.

(* ------------------------------------------------------------------ datum -> heap *)
Definition mem (s : vm) (h : heap) (x : store) : vm := with_store (with_heap s h) x.
Lemma mem_self s : mem s (hp s) (st s) = s.
Proof. destruct s; reflexivity. Qed.

(* an operand the compiler may emit for a constant: not an opcode, not a VLexPtr *)
Definition opnd (v : vcell) : bool := match v with VOp _ | VLexPtr _ _ => false | _ => true end.
Lemma opnd_clean v : opnd v = true -> no_lexptr v.
Proof. destruct v; try discriminate; intros _; exact I. Qed.
Definition isptr (v : vcell) : Prop := exists a, v = VPtr a.
Lemma isptr_opnd v : isptr v -> opnd v = true.
Proof. intros [a ->]. reflexivity. Qed.
Lemma isptr_clean v : isptr v -> no_lexptr v.
Proof. intros [a ->]. exact I. Qed.

Lemma finv_mem_put s h x v r h' :
  finv (mem s h x) -> no_lexptr v -> heap_put h v = (r, h') -> finv (mem s h' x) /\ isptr r.
Proof. intros F Hv H. exact (finv_heap_put (mem s h x) v r h' F Hv H). Qed.

Lemma finv_mem_store s h x x' :
  finv (mem s h x) -> envs x' = envs x -> next_id x <= next_id x' ->
  (forall lid l, tget (lams x') lid = Some l -> bc_ok (l_bc l)) ->
  (forall vid l i v, tget (vecs x') vid = Some l -> list_get l i = Some v -> no_lexptr v) ->
  (forall cid k i v, tget (conts x') cid = Some k -> list_get (k_stack k) i = Some v -> no_lexptr v) ->
  finv (mem s h x').
Proof. intros F He Hn Hl Hv Hc. exact (finv_store_upd (mem s h x) x' F He Hn Hl Hv Hc). Qed.

Lemma finv_mem_new_str s h x t : finv (mem s h x) -> finv (mem s h (snd (new_str x t))).
Proof.
  intros F. apply (finv_mem_store s h x); [exact F|reflexivity|cbn [new_str snd next_id]; lia|
    apply (fi_code _ F)|apply (fi_vecs _ F)|apply (fi_conts _ F)].
Qed.
Lemma finv_mem_new_vec s h x l : finv (mem s h x) -> clean_list l -> finv (mem s h (snd (new_vec x l))).
Proof.
  intros F Hl. apply (finv_mem_store s h x); [exact F|reflexivity|cbn [new_vec snd next_id]; lia|
    apply (fi_code _ F)| |apply (fi_conts _ F)].
  intros vid l0 i v E. cbn [new_vec snd vecs] in E. rewrite tget_tset in E.
  destruct (next_id x =? vid); [injection E as <-; apply Hl|revert E; apply (fi_vecs _ F)].
Qed.
Lemma finv_mem_new_macro s h x t : finv (mem s h x) -> finv (mem s h (snd (new_macro x t))).
Proof.
  intros F. apply (finv_mem_store s h x); [exact F|reflexivity|cbn [new_macro snd next_id]; lia|
    apply (fi_code _ F)|apply (fi_vecs _ F)|apply (fi_conts _ F)].
Qed.
Lemma finv_mem_new_lam s h x l : finv (mem s h x) -> bc_ok (l_bc l) -> finv (mem s h (snd (new_lam x l))).
Proof. intros F Hl. exact (finv_new_lam (mem s h x) l F Hl). Qed.

(* box a value unless it is a pointer already (put_cell, maybe_put_cell of a pair) *)
Lemma finv_mem_box s h x v r h' :
  finv (mem s h x) -> opnd v = true ->
  match v with VPtr _ => (v, h) | _ => heap_put h v end = (r, h') -> finv (mem s h' x) /\ isptr r.
Proof.
  intros F Hv H.
  assert (G : heap_put h v = (r, h') -> finv (mem s h' x) /\ isptr r).
  { apply finv_mem_put; [exact F|apply opnd_clean, Hv]. }
  destruct v; exact (G H).
Qed.

Theorem mpc_finv c : forall s h x v h' x',
  finv (mem s h x) -> maybe_put_cell h x c = Ok (v, h', x') -> finv (mem s h' x') /\ opnd v = true.
Proof.
  induction c as [c Hnp Hnv|ca cd IHa IHd|l HF] using cell_ind2; intros s h x v h' x' F H.
  - destruct c; cbn [maybe_put_cell] in H;
      try (injection H as <- <- <-; split; [exact F|reflexivity]); try discriminate.
    + exfalso. now apply (Hnp c1 c2).
    + destruct (new_str x s0) as [sid x1] eqn:En. destruct (heap_put h (VStr sid)) as [p h1] eqn:E.
      injection H as <- <- <-.
      pose proof (finv_mem_new_str s h x s0 F) as F1. rewrite En in F1. cbn [snd] in F1.
      destruct (finv_mem_put s h x1 (VStr sid) _ _ F1 I E) as [F2 Hp]. split; [exact F2|apply isptr_opnd, Hp].
    + destruct (heap_put h (VSym s0)) as [p h1] eqn:E. injection H as <- <- <-.
      destruct (finv_mem_put s h x (VSym s0) _ _ F I E) as [F2 Hp]. split; [exact F2|apply isptr_opnd, Hp].
    + exfalso. now apply (Hnv l).
  - cbn [maybe_put_cell] in H. apply bind_ok_inv in H as [[[va h1] x1] [H1 H]].
    destruct (IHa s h x va h1 x1 F H1) as [F1 Hva].
    destruct (match va with VPtr _ => (va, h1) | _ => heap_put h1 va end) as [pa h2] eqn:E2.
    destruct (finv_mem_box s h1 x1 va pa h2 F1 Hva E2) as [F2 [a ->]].
    apply bind_ok_inv in H as [[[vd h3] x3] [H3 H]].
    destruct (IHd s h2 x1 vd h3 x3 F2 H3) as [F3 Hvd].
    destruct (match vd with VPtr _ => (vd, h3) | _ => heap_put h3 vd end) as [pd h4] eqn:E4.
    destruct (finv_mem_box s h3 x3 vd pd h4 F3 Hvd E4) as [F4 [d ->]].
    destruct (heap_put h4 (VPair a d)) as [pp h5] eqn:E5. injection H as <- <- <-.
    destruct (finv_mem_put s h4 x3 (VPair a d) _ _ F4 I E5) as [F5 Hp]. split; [exact F5|apply isptr_opnd, Hp].
  - cbn [maybe_put_cell] in H.
    set (elems := fix elems (h : heap) (s : store) (l : list cell) (acc : list vcell) {struct l} :
                    out (list vcell * heap * store) :=
                    match l with
                    | [] => Ok (rev acc, h, s)
                    | x :: r => do (v, h1, s1) <- maybe_put_cell h s x; elems h1 s1 r (v :: acc)
                    end) in *.
    assert (HE : forall l0, Forall (fun c => forall s h x v h' x', finv (mem s h x) ->
                   maybe_put_cell h x c = Ok (v, h', x') -> finv (mem s h' x') /\ opnd v = true) l0 ->
                 forall h0 x0 acc vs h0' x0', finv (mem s h0 x0) -> clean_list acc ->
                   elems h0 x0 l0 acc = Ok (vs, h0', x0') -> finv (mem s h0' x0') /\ clean_list vs).
    { induction l0 as [|c r IHr]; intros Fa h0 x0 acc vs h0' x0' F0 Hacc HEq.
      - cbn in HEq. injection HEq as <- <- <-. split; [exact F0|apply clean_rev, Hacc].
      - cbn in HEq. apply bind_ok_inv in HEq as [[[vx hx] sx] [HX HEq]].
        inversion Fa as [|c0 r0 Hc Hr]; subst.
        destruct (Hc s h0 x0 vx hx sx F0 HX) as [Fx Hvx].
        apply (IHr Hr hx sx (vx :: acc) vs h0' x0' Fx); [|exact HEq].
        apply clean_cons; [apply opnd_clean, Hvx|exact Hacc]. }
    apply bind_ok_inv in H as [[[vs h1] x1] [H1 H]].
    destruct (HE l HF h x [] vs h1 x1 F clean_nil H1) as [F1 Hvs].
    destruct (new_vec x1 vs) as [vid x2] eqn:En. destruct (heap_put h1 (VVec vid)) as [p h2] eqn:E.
    injection H as <- <- <-.
    pose proof (finv_mem_new_vec s h1 x1 vs F1 Hvs) as F2. rewrite En in F2. cbn [snd] in F2.
    destruct (finv_mem_put s h1 x2 (VVec vid) _ _ F2 I E) as [F3 Hp]. split; [exact F3|apply isptr_opnd, Hp].
Qed.

Theorem pc_finv c s h x v h' x' :
  finv (mem s h x) -> put_cell h x c = Ok (v, h', x') -> finv (mem s h' x') /\ isptr v.
Proof.
  intros F H. unfold put_cell in H. apply bind_ok_inv in H as [[[v1 h1] x1] [H1 H]].
  destruct (mpc_finv c s h x v1 h1 x1 F H1) as [F1 Hv1].
  destruct v1;
    try (destruct (heap_put h1 _) as [pp0 hh2] eqn:E; injection H as <- <- <-;
         refine (finv_mem_put s h1 x1 _ _ _ F1 _ E); exact I); try discriminate Hv1.
  injection H as <- <- <-. split; [exact F1|eexists; reflexivity].
Qed.

Lemma pres_maybe_put_cell_m c : pres (maybe_put_cell_m c) (fun v => opnd v = true).
Proof.
  intros s F _. unfold maybe_put_cell_m.
  destruct (maybe_put_cell (hp s) (st s) c) as [[[v h] x]| | |] eqn:E; cbn [post]; auto.
  rewrite <- (mem_self s) in F. exact (mpc_finv c s _ _ v h x F E).
Qed.
Lemma pres_maybe_put_cell_m' c : pres (maybe_put_cell_m c) no_lexptr.
Proof. apply (pres_weaken _ _ _ (pres_maybe_put_cell_m c)). apply opnd_clean. Qed.
Lemma pres_put_cell_m c : pres (put_cell_m c) isptr.
Proof.
  intros s F _. unfold put_cell_m.
  destruct (put_cell (hp s) (st s) c) as [[[v h] x]| | |] eqn:E; cbn [post]; auto.
  rewrite <- (mem_self s) in F. exact (pc_finv c s _ _ v h x F E).
Qed.

Lemma pres_put_cells l : pres (put_cells l) T.
Proof.
  induction l as [|c r IH]; cbn [put_cells]; [apply pres_ret; exact I|].
  eapply pres_bind; [apply pres_put_cell_m|intros p _].
  eapply pres_bind; [apply IH|intros ps _]. apply pres_ret. exact I.
Qed.
Lemma pres_compile_formals a : forall acc, pres (compile_formals a acc) T.
Proof.
  induction a; intros acc; cbn [compile_formals]; try (apply pres_ret; exact I).
  - destruct (negb (Compile.is_symbol a1)); [apply pres_fail|].
    destruct (is_primitive_symbol a1); [apply pres_fail|].
    eapply pres_bind; [apply pres_put_cell_m|intros p _]. apply IHa2.
  - destruct (is_primitive_symbol (CSym s)); [apply pres_fail|].
    eapply pres_bind; [apply pres_put_cell_m|intros p _]. apply pres_ret. exact I.
Qed.

(* ------------------------------------------------------------------ global bindings *)
Lemma pres_get_binding p : pres (get_binding p) T.
Proof.
  intros s F _. unfold get_binding. destruct (assoc_find (g_bind s) p); cbn [post]; [split; [exact F|exact I]|]. split; [|exact I].
  pose proof F as [L F1 F2 F3 F4 F5].
  constructor; cbn [hp st g_slots with_globals]; try assumption.
  - apply (lex_inv_regs s); try reflexivity; [|apply (li_acc s L)|exact L].
    apply (stack_clean_same s); [apply (li_stack s L)|reflexivity].
  - intros i v. apply list_get_app_clean; [exact F2|exact I].
Qed.

(* the operand naming a variable: a global slot, a frame offset or a lexical slot *)
Definition locv (v : vcell) : bool := match v with VGSlot _ | VBpOff _ | VLexSlot _ => true | _ => false end.
Lemma pres_location_operand l r : pres (location_operand l r) (fun v => locv v = true).
Proof.
  unfold location_operand. destruct (binding_location l r); try (apply pres_ret; reflexivity).
  destruct r; try apply pres_panic.
  eapply pres_bind; [apply pres_get_binding|intros slot _]. apply pres_ret. reflexivity.
Qed.

(* ------------------------------------------------------------------ reversed bytecode *)
Definition ptr_ok_after (x : vcell) : bool :=
  match x with VOp OMovImmediate | VOp OJnt | VOp OJmp | VOp OPushImmediate => true | _ => false end.
Definition is_movop (x : vcell) : bool := match x with VOp OMov | VOp OMovImmediate => true | _ => false end.
(* [x] was emitted just before [y] *)
Definition adjb (x y : vcell) : bool :=
  match y with
  | VPtr _ => ptr_ok_after x
  | VOp _ => negb (is_movop x)
  | _ => true
  end.
Definition is_vptr (v : vcell) : bool := match v with VPtr _ => true | _ => false end.
(* on the REVERSED list (head = last cell emitted) *)
Fixpoint chain (bc : list vcell) : bool :=
  match bc with
  | [] => true
  | y :: r => no_lexptrb y && match r with [] => negb (is_vptr y) | x :: _ => adjb x y end && chain r
  end.
Definition complete (bc : list vcell) : bool := match bc with x :: _ => negb (is_movop x) | [] => true end.
Definition good (bc : list vcell) : Prop := chain bc = true /\ complete bc = true.

Lemma good_nil : good [].
Proof. split; reflexivity. Qed.

Lemma chain_tail y r : chain (y :: r) = true -> chain r = true.
Proof. cbn [chain]. intros H. apply andb_prop in H as [_ H]. exact H. Qed.

Lemma chain_mid a : forall y x b, chain (a ++ y :: x :: b) = true -> adjb x y = true.
Proof.
  induction a as [|z a IH]; intros y x b H.
  - cbn [app chain] in H. apply andb_prop in H as [H _]. apply andb_prop in H as [_ H]. exact H.
  - apply (IH y x b). exact (chain_tail _ _ H).
Qed.
Lemma chain_all a : forall y b, chain (a ++ y :: b) = true -> no_lexptrb y = true.
Proof.
  induction a as [|z a IH]; intros y b H.
  - cbn [app chain] in H. apply andb_prop in H as [H _]. apply andb_prop in H as [H _]. exact H.
  - apply (IH y b). exact (chain_tail _ _ H).
Qed.
Lemma chain_first a y : chain (a ++ [y]) = true -> is_vptr y = false.
Proof.
  induction a as [|z a IH]; intros H.
  - cbn [app chain] in H. apply andb_prop in H as [H _]. apply andb_prop in H as [_ H].
    destruct (is_vptr y); [discriminate|reflexivity].
  - apply IH. exact (chain_tail _ _ H).
Qed.

(* the finished bytecode satisfies bc_ok *)
Lemma nth_error_split3 {A} (F : list A) n x z :
  nth_error F n = Some x -> nth_error F (S (S n)) = Some z ->
  exists a y b, F = a ++ x :: y :: z :: b.
Proof.
  intros Hx Hz. apply nth_error_split in Hx as (a & r & -> & <-).
  rewrite nth_error_app2 in Hz by lia. replace (S (S (length a)) - length a)%nat with 2%nat in Hz by lia.
  destruct r as [|y [|z' b]]; try discriminate. cbn in Hz. injection Hz as ->. eauto.
Qed.

Theorem chain_bc_ok bc : chain bc = true -> bc_ok (rev bc).
Proof.
  intros H. split.
  - intros i v Hi. unfold list_get in Hi. apply nth_error_In in Hi. apply in_rev in Hi.
    apply in_split in Hi as (a & b & ->). apply chain_all in H. destruct v; try exact I. discriminate.
  - intros i o p Hi Hm Hp. unfold list_get in *. replace (N.to_nat (i + 2)) with (S (S (N.to_nat i))) in Hp by lia.
    destruct (nth_error_split3 _ _ _ _ Hi Hp) as (a & y & b & E).
    assert (E' : bc = rev b ++ VPtr p :: y :: VOp o :: rev a).
    { rewrite <- (rev_involutive bc), E. rewrite rev_app_distr. cbn [rev]. rewrite <- !app_assoc. reflexivity. }
    rewrite E' in H.
    pose proof (chain_mid _ _ _ _ H) as H1. cbn [adjb] in H1.
    replace (rev b ++ VPtr p :: y :: VOp o :: rev a) with ((rev b ++ [VPtr p]) ++ y :: VOp o :: rev a) in H
      by (rewrite <- app_assoc; reflexivity).
    pose proof (chain_mid _ _ _ _ H) as H2.
    destruct y; try discriminate H1. destruct o0; try discriminate H1;
      destruct Hm as [-> | ->]; discriminate H2.
Qed.

(* ---- emitting whole instructions *)
Fixpoint fwd_ok (prev : vcell) (vs : list vcell) : bool :=
  match vs with [] => true | y :: r => no_lexptrb y && adjb prev y && fwd_ok y r end.
Definition seg_ok (vs : list vcell) : bool :=
  match vs with
  | VOp o :: rest => fwd_ok (VOp o) rest && negb (is_movop (last rest (VOp o)))
  | _ => false
  end.
Definition emits (l : lambda) (vs : list vcell) : lambda := fold_left emit vs l.

Lemma bc_emits vs : forall l, l_bc (emits l vs) = rev vs ++ l_bc l.
Proof.
  induction vs as [|v r IH]; intros l; [reflexivity|]. cbn [emits fold_left]. fold (emits (emit l v) r).
  rewrite IH. cbn [emit l_bc rev]. rewrite <- app_assoc. reflexivity.
Qed.

Lemma hd_rev_last (vs : list vcell) x r : hd x (rev vs ++ x :: r) = last vs x.
Proof.
  induction vs as [|z vs' _] using rev_ind; [reflexivity|].
  rewrite rev_app_distr, last_last. reflexivity.
Qed.
Lemma chain_fwd vs : forall x r, chain (x :: r) = true -> fwd_ok x vs = true ->
  chain (rev vs ++ x :: r) = true.
Proof.
  induction vs as [|y vs IH]; intros x r Hc Hf; [exact Hc|].
  cbn [fwd_ok] in Hf. apply andb_prop in Hf as [Hf Hf2]. apply andb_prop in Hf as [Hy Hxy].
  assert (Hc' : chain (y :: x :: r) = true).
  { cbn [chain]. rewrite Hy, Hxy. exact Hc. }
  pose proof (IH y (x :: r) Hc' Hf2) as H1.
  cbn [rev]. rewrite <- app_assoc. exact H1.
Qed.

Theorem good_emits l vs : good (l_bc l) -> seg_ok vs = true -> good (l_bc (emits l vs)).
Proof.
  intros [Hc Hk] Hs. destruct vs as [|v rest]; [discriminate|]. destruct v; try discriminate.
  cbn [seg_ok] in Hs. apply andb_prop in Hs as [Hf Hl].
  assert (Hc0 : chain (VOp o :: l_bc l) = true).
  { cbn [chain no_lexptrb andb]. rewrite Hc. destruct (l_bc l) as [|x r]; [reflexivity|].
    cbn [adjb]. cbn [complete] in Hk. rewrite Hk. reflexivity. }
  pose proof (chain_fwd rest (VOp o) (l_bc l) Hc0 Hf) as H1.
  pose proof (hd_rev_last rest (VOp o) (l_bc l)) as H2.
  rewrite bc_emits. cbn [rev]. rewrite <- app_assoc. cbn [app]. split; [exact H1|].
  unfold complete. destruct (rev rest ++ VOp o :: l_bc l) as [|z q] eqn:E.
  - reflexivity.
  - cbn [hd] in H2. subst z. exact Hl.
Qed.

(* ---- the frame: compilation only conses onto (and patches inside) what it adds *)
Definition ext (l l' : lambda) : Prop :=
  (exists new, l_bc l' = new ++ l_bc l) /\ (good (l_bc l) -> good (l_bc l')).
Lemma ext_refl l : ext l l.
Proof. split; [exists []; reflexivity|auto]. Qed.
Lemma ext_trans a b c : ext a b -> ext b c -> ext a c.
Proof.
  intros [[n1 E1] G1] [[n2 E2] G2]. split; [|auto].
  exists (n2 ++ n1). rewrite E2, E1, app_assoc. reflexivity.
Qed.
Lemma ext_emits l vs : seg_ok vs = true -> ext l (emits l vs).
Proof. intros H. split; [exists (rev vs); apply bc_emits|intros G; apply good_emits; assumption]. Qed.
Lemma ext_good l l' : ext l l' -> good (l_bc l) -> good (l_bc l').
Proof. intros [_ H]. exact H. Qed.

(* ---- bc_patch of a placeholder *)
Lemma len_cons' {A} (x : A) l : len (x :: l) = len l + 1.
Proof. unfold len. cbn [length]. lia. Qed.
Lemma len_app' {A} (a b : list A) : len (a ++ b) = len a + len b.
Proof. unfold len. rewrite app_length. lia. Qed.
Lemma list_set_mid {A} (a b : list A) x v : list_set (a ++ x :: b) (len a) v = a ++ v :: b.
Proof.
  unfold list_set, len. rewrite Nat2N.id. induction a as [|y a IH]; [reflexivity|].
  cbn [app length list_set_nat]. rewrite IH. reflexivity.
Qed.
Lemma patch_mid L a x b i v : l_bc L = a ++ x :: b -> i = len b -> l_bc (bc_patch L i v) = a ++ v :: b.
Proof.
  intros E ->. unfold bc_patch, bc_len. cbn [l_bc]. rewrite E.
  replace (len (a ++ x :: b) - 1 - len b) with (len a) by (rewrite len_app', len_cons'; lia).
  apply list_set_mid.
Qed.

Lemma chain_swap a : forall c q b, chain (a ++ VPtr c :: b) = true -> chain (a ++ VPtr q :: b) = true.
Proof.
  induction a as [|y a IH]; intros c q b H.
  - exact H.
  - cbn [app chain] in *. apply andb_prop in H as [H H2]. apply andb_prop in H as [Hy H1].
    rewrite Hy, (IH c q b H2). destruct a as [|z a']; [|cbn [app] in *; rewrite H1; reflexivity].
    cbn [app] in *. destruct y; try exact H1; try reflexivity.
Qed.
Lemma good_swap a c q b : good (a ++ VPtr c :: b) -> good (a ++ VPtr q :: b).
Proof.
  intros [H1 H2]. split; [apply (chain_swap a c q b H1)|]. destruct a; [reflexivity|exact H2].
Qed.

Lemma ext_patch l0 L a c b i q :
  ext l0 L -> l_bc L = a ++ VPtr c :: b -> i = len b -> (exists n, b = n ++ l_bc l0) ->
  ext l0 (bc_patch L i (VPtr q)) /\ l_bc (bc_patch L i (VPtr q)) = a ++ VPtr q :: b.
Proof.
  intros [_ G] E Hi [n Hn]. pose proof (patch_mid L a _ b i (VPtr q) E Hi) as E'. split; [|exact E'].
  split.
  - exists (a ++ VPtr q :: n). rewrite E', Hn, <- app_assoc. reflexivity.
  - intros G0. rewrite E'. apply (good_swap a c q b). rewrite <- E. exact (G G0).
Qed.
