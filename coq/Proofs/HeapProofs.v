(* HeapProofs.v — basic well-formedness of the model heap: allocation returns an
   in-range address and stores are read back.                                    *)
From Coq Require Import Lia.
From MW Require Import Model.Base Model.Num Model.Datum Model.TransformDef Model.VmTypes Model.Heap
  Proofs.VmProofs0.
Open Scope N_scope.

Definition heap_wf (h : heap) : Prop :=
  0 < chunk h /\ chunk h <= hlen h /\ (exists m, hlen h = m * chunk h) /\
  Forall (fun p => p < hlen h) (free_list h).

Lemma range_asc_in a n x : In x (range_asc a n) <-> a <= x < a + N.of_nat n.
Proof.
  revert a; induction n as [|n IH]; intros a; cbn [range_asc In].
  - split; [tauto|lia].
  - rewrite IH. lia.
Qed.

Lemma heap_new_wf c : 0 < c -> heap_wf (heap_new c).
Proof.
  intros Hc. unfold heap_wf, heap_new. cbn. repeat split; try lia.
  - exists 1. lia.
  - apply Forall_forall. intros x Hx. apply range_asc_in in Hx. lia.
Qed.

Lemma heap_grow_wf h : heap_wf h -> heap_wf (heap_grow h) /\ hlen h < hlen (heap_grow h) /\
  cells (heap_grow h) = cells h.
Proof.
  intros (Hc & Hle & (m & Hm) & Hfl). unfold heap_grow. cbn [chunk hlen free_list cells].
  assert (Hdiv : hlen h / chunk h = m) by (rewrite Hm; apply N.div_mul; lia).
  rewrite Hdiv.
  assert (Hm1 : 1 <= m) by (destruct (N.eq_dec m 0) as [->|]; [lia|lia]).
  assert (Hnew : m + 1 <= (m * 3 + 1) / 2).
  { apply N.div_le_lower_bound; lia. }
  assert (Hgt : hlen h < (m * 3 + 1) / 2 * chunk h) by nia.
  split; [|split; [exact Hgt|reflexivity]].
  unfold heap_wf. cbn [chunk hlen free_list]. repeat split; try lia.
  - eexists; reflexivity.
  - apply Forall_app. split.
    + apply Forall_forall. intros x Hx. apply in_rev in Hx. apply range_asc_in in Hx. lia.
    + eapply Forall_impl; [|exact Hfl]. cbn. intros; lia.
Qed.

Lemma heap_alloc_spec h p h' : heap_wf h -> heap_alloc h = (p, h') ->
  p < hlen h' /\ heap_wf h' /\ cells h' = cells h /\ symtab h' = symtab h /\ hlen h <= hlen h'.
Proof.
  intros Hwf. unfold heap_alloc.
  set (h1 := match free_list h with [] => heap_grow h | _ => h end).
  assert (H1 : heap_wf h1 /\ cells h1 = cells h /\ symtab h1 = symtab h /\ hlen h <= hlen h1 /\
               free_list h1 <> []).
  { unfold h1. destruct (free_list h) eqn:Efl.
    - destruct (heap_grow_wf h Hwf) as (Hw & Hlt & Hc).
      split; [exact Hw|]. split; [exact Hc|]. split; [reflexivity|]. split; [lia|].
      unfold heap_grow. cbn [free_list]. rewrite Efl, app_nil_r.
      intros Hnil. apply (f_equal (@length N)) in Hnil. rewrite rev_length in Hnil.
      assert (Hlen : forall n a, length (range_asc a n) = n)
        by (induction n; intros; cbn [range_asc length]; [reflexivity|rewrite IHn; reflexivity]).
      rewrite Hlen in Hnil. cbn [length] in Hnil. unfold heap_grow in Hlt. cbn [hlen] in Hlt. lia.
    - split; [exact Hwf|]. split; [reflexivity|]. split; [reflexivity|]. split; [lia|]. cbn. rewrite ?Efl. congruence. }
  destruct H1 as (Hw1 & Hc1 & Hs1 & Hl1 & Hne).
  destruct (free_list h1) as [|q fl] eqn:Efl; [congruence|].
  intros [= <- <-]. cbn [hlen cells symtab].
  destruct Hw1 as (Hc0 & Hle & Hm & Hfl). rewrite Efl in Hfl.
  inversion Hfl as [|? ? Hq Hrest]; subst.
  split; [exact Hq|]. split; [unfold heap_wf; cbn [chunk hlen free_list]; auto|].
  split; [exact Hc1|]. split; [exact Hs1|exact Hl1].
Qed.

Lemma heap_put_spec h v p h' : heap_wf h -> heap_put h v = (p, h') ->
  (forall x, v <> VPtr x) -> (forall t, v <> VSym t) ->
  exists a, p = VPtr a /\ heap_get h' a = Ok v /\ heap_wf h' /\ hlen h <= hlen h' /\
            forall q0, q0 <> a -> tget (cells h') q0 = tget (cells h) q0.
Proof.
  intros Hwf Hp Hnp Hns. unfold heap_put in Hp.
  destruct v; try (exfalso; eapply Hnp; reflexivity); try (exfalso; eapply Hns; reflexivity);
    (unfold heap_store_new in Hp;
     destruct (heap_alloc h) as [a h1] eqn:Ea; injection Hp as <- <-;
     destruct (heap_alloc_spec _ _ _ Hwf Ea) as (Hlt & Hw1 & Hc1 & Hs1 & Hl1);
     exists a; split; [reflexivity|]; split;
     [unfold heap_get; cbn [hlen cells];
      destruct (a <? hlen h1) eqn:E; [rewrite tget_tset_same; reflexivity|apply N.ltb_ge in E; lia]
     |split; [destruct Hw1 as (? & ? & ? & ?); unfold heap_wf; cbn [chunk hlen free_list]; auto
             |split; [cbn [hlen]; lia|intros q0 Hq0; cbn [cells]; rewrite tget_tset_other by congruence; rewrite Hc1; reflexivity]]]).
Qed.
