(* PmapProofs.v — the packed two-bit state map of gc.rs (Model/Gc.v: pmap_new, pmap_get,
   pmap_set): on well-formed maps (every byte < 256, no bit pair 0b11) get/set behave as a
   total finite map.  The byte-level core is a finite statement checked by computation.   *)
From Coq Require Import Lia.
From MW Require Import Model.Base Model.VmTypes Model.Gc.
Open Scope N_scope.

Definition byte_ok (b : N) : bool :=
  (b <? 256) && forallb (fun k => negb (N.land (N.shiftr b (k * 2)) 3 =? 3)) [0; 1; 2; 3].
Definition pmap_wf (m : pmap) : Prop := Forall (fun b => byte_ok b = true) (pm_bytes m).

(* ------------------------------------------------------------ byte-level core *)
Definition field (b k : N) : N := N.land (N.shiftr b (k * 2)) 3.
Definition set_field (b k : N) (s : gcstate) : N :=
  N.lor (N.land b (255 - N.shiftl 3 (k * 2))) (N.shiftl (state_bits s) (k * 2)).

Definition all_bytes : list N := List.map N.of_nat (List.seq 0 256).
Definition all_pos : list N := [0; 1; 2; 3].
Definition all_states : list gcstate := [GFree; GAllocated; GUsed].

Lemma in_all_bytes : forall b, b < 256 -> In b all_bytes.
Proof.
  intros b H. unfold all_bytes. rewrite <- (N2Nat.id b). apply in_map. apply in_seq. lia.
Qed.
Lemma in_all_pos : forall k, k < 4 -> In k all_pos.
Proof.
  intros k H. assert (H0 : k = 0 \/ k = 1 \/ k = 2 \/ k = 3) by lia.
  unfold all_pos. cbn [In]. intuition.
Qed.
Lemma in_all_states : forall s, In s all_states.
Proof. intros []; unfold all_states; cbn [In]; auto. Qed.

Definition byte_check : bool :=
  forallb (fun b => implb (byte_ok b)
    (forallb (fun k => forallb (fun s =>
       byte_ok (set_field b k s) &&
       forallb (fun k' => field (set_field b k s) k' =?
                          (if k =? k' then state_bits s else field b k')) all_pos)
       all_states) all_pos)) all_bytes.
Lemma byte_check_ok : byte_check = true.
Proof. vm_compute. reflexivity. Qed.

Definition field_check : bool :=
  forallb (fun b => implb (byte_ok b) (forallb (fun k => field b k <? 3) all_pos)) all_bytes.
Lemma field_check_ok : field_check = true.
Proof. vm_compute. reflexivity. Qed.

Lemma byte_ok_lt : forall b, byte_ok b = true -> b < 256.
Proof.
  intros b H. unfold byte_ok in H. apply andb_true_iff in H. destruct H as [H _].
  apply N.ltb_lt in H. exact H.
Qed.

Lemma byte_core : forall b k s k', byte_ok b = true -> k < 4 -> k' < 4 ->
  byte_ok (set_field b k s) = true /\
  field (set_field b k s) k' = if k =? k' then state_bits s else field b k'.
Proof.
  intros b k s k' Hb Hk Hk'.
  pose proof byte_check_ok as C. unfold byte_check in C.
  rewrite forallb_forall in C. specialize (C b (in_all_bytes b (byte_ok_lt b Hb))).
  rewrite Hb in C. cbn [implb] in C.
  rewrite forallb_forall in C. specialize (C k (in_all_pos k Hk)).
  rewrite forallb_forall in C. specialize (C s (in_all_states s)).
  apply andb_true_iff in C. destruct C as [C1 C2]. split; [exact C1|].
  rewrite forallb_forall in C2. specialize (C2 k' (in_all_pos k' Hk')).
  apply N.eqb_eq in C2. exact C2.
Qed.

Lemma field_lt3 : forall b k, byte_ok b = true -> k < 4 -> field b k < 3.
Proof.
  intros b k Hb Hk.
  pose proof field_check_ok as C. unfold field_check in C.
  rewrite forallb_forall in C. specialize (C b (in_all_bytes b (byte_ok_lt b Hb))).
  rewrite Hb in C. cbn [implb] in C.
  rewrite forallb_forall in C. specialize (C k (in_all_pos k Hk)).
  apply N.ltb_lt in C. exact C.
Qed.

Lemma state_of_bits_lt3 : forall x, x < 3 -> exists s, state_of_bits x = Ok s.
Proof.
  intros x H. assert (H0 : x = 0 \/ x = 1 \/ x = 2) by lia.
  destruct H0 as [-> | [-> | ->]]; eexists; reflexivity.
Qed.
Lemma state_bits_inv : forall s, state_of_bits (state_bits s) = Ok s.
Proof. intros []; reflexivity. Qed.

(* ------------------------------------------------------------------ list facts *)
Lemma nth_error_repeat0 : forall n k (x : N),
  nth_error (repeat x n) k = if (k <? n)%nat then Some x else None.
Proof.
  induction n as [|n IH]; intros [|k] x; try reflexivity.
  cbn [repeat nth_error]. rewrite IH. reflexivity.
Qed.

Lemma Forall_list_upd : forall (P : N -> Prop) l i v,
  Forall P l -> P v -> Forall P (list_upd l i v).
Proof.
  intros P l. induction l as [|x r IH]; intros i v Hl Hv; cbn [list_upd]; [constructor|].
  inversion Hl; subst. destruct i; constructor; auto.
Qed.

Lemma nth_error_list_upd_eq : forall l i v x,
  nth_error l i = Some x -> nth_error (list_upd l i v) i = Some v.
Proof.
  induction l as [|y r IH]; intros [|i] v x H; cbn [list_upd nth_error] in *;
    try discriminate; eauto.
Qed.

Lemma nth_error_list_upd_neq : forall l i k v,
  i <> k -> nth_error (list_upd l i v) k = nth_error l k.
Proof.
  induction l as [|y r IH]; intros [|i] [|k] v H; cbn [list_upd nth_error];
    try reflexivity; try congruence.
  apply IH. congruence.
Qed.

(* --------------------------------------------------------- unfolding equations *)
Lemma pmap_set_eq : forall m i s,
  pmap_set m i s =
  match nth_error (pm_bytes m) (N.to_nat (i / 4)) with
  | Some byte =>
      Ok (mk_pmap (pm_size m)
            (list_upd (pm_bytes m) (N.to_nat (i / 4)) (set_field byte (i mod 4) s)))
  | None => Panic 62
  end.
Proof. reflexivity. Qed.

Lemma pmap_get_eq : forall m j,
  pmap_get m j =
  match nth_error (pm_bytes m) (N.to_nat (j / 4)) with
  | None => Ok None
  | Some byte => do s <- state_of_bits (field byte (j mod 4)); Ok (Some s)
  end.
Proof. reflexivity. Qed.

(* lia is given the quotients and remainders as opaque variables *)
Lemma div4_lt : forall j size, size mod 4 = 0 ->
  (j < size <-> (N.to_nat (j / 4) < N.to_nat (size / 4))%nat).
Proof.
  intros j size E.
  pose proof (N.div_mod' size 4) as H1. pose proof (N.div_mod' j 4) as H2.
  assert (H3 : j mod 4 < 4) by (apply N.mod_lt; lia).
  remember (j / 4) as qj. remember (size / 4) as qs.
  remember (j mod 4) as rj. remember (size mod 4) as rs.
  clear Heqqj Heqqs Heqrj Heqrs. lia.
Qed.

Lemma mod4_neq : forall i j, i <> j -> i / 4 = j / 4 -> i mod 4 <> j mod 4.
Proof.
  intros i j Hne Ed.
  pose proof (N.div_mod' i 4) as H1. pose proof (N.div_mod' j 4) as H2.
  remember (i / 4) as qi. remember (j / 4) as qj.
  remember (i mod 4) as ri. remember (j mod 4) as rj.
  clear Heqqi Heqqj Heqri Heqrj. lia.
Qed.

(* -------------------------------------------------------------------- theorems *)
Theorem pmap_new_spec : forall size m, pmap_new size = Ok m ->
  pmap_wf m /\ forall j, pmap_get m j = Ok (if j <? size then Some GFree else None).
Proof.
  intros size m H. unfold pmap_new in H.
  destruct (size mod 4 =? 0) eqn:E; [|discriminate].
  injection H as <-. apply N.eqb_eq in E. split.
  - unfold pmap_wf. cbn [pm_bytes]. apply Forall_forall. intros x Hx.
    apply repeat_spec in Hx. subst x. reflexivity.
  - intro j. rewrite pmap_get_eq. cbn [pm_bytes]. rewrite nth_error_repeat0.
    pose proof (div4_lt j size E) as Hd.
    destruct (j <? size) eqn:Ej.
    + apply N.ltb_lt in Ej.
      assert (Hlt : (N.to_nat (j / 4) <? N.to_nat (size / 4))%nat = true)
        by (apply Nat.ltb_lt; apply Hd; exact Ej).
      rewrite Hlt. unfold field. rewrite N.shiftr_0_l. reflexivity.
    + apply N.ltb_ge in Ej.
      assert (Hlt : (N.to_nat (j / 4) <? N.to_nat (size / 4))%nat = false)
        by (apply Nat.ltb_ge; apply Nat.nlt_ge; intro Hc; apply Hd in Hc; lia).
      rewrite Hlt. reflexivity.
Qed.

Theorem pmap_set_total : forall m i s, (N.to_nat (i / 4) < length (pm_bytes m))%nat ->
  exists m', pmap_set m i s = Ok m'.
Proof.
  intros m i s H. rewrite pmap_set_eq.
  destruct (nth_error (pm_bytes m) (N.to_nat (i / 4))) as [byte|] eqn:En.
  - eexists. reflexivity.
  - apply nth_error_None in En. lia.
Qed.

Theorem pmap_get_set : forall m i s m', pmap_wf m -> pmap_set m i s = Ok m' ->
  pmap_wf m' /\ forall j, pmap_get m' j = if i =? j then Ok (Some s) else pmap_get m j.
Proof.
  intros m i s m' Hwf H. rewrite pmap_set_eq in H.
  destruct (nth_error (pm_bytes m) (N.to_nat (i / 4))) as [byte|] eqn:En; [|discriminate].
  injection H as <-.
  pose proof (proj1 (Forall_forall _ _) Hwf _ (nth_error_In _ _ En)) as Hb.
  cbv beta in Hb.
  assert (Hi : i mod 4 < 4) by (apply N.mod_lt; lia).
  split.
  - unfold pmap_wf. cbn [pm_bytes]. apply Forall_list_upd; [exact Hwf|].
    apply (byte_core byte (i mod 4) s 0); auto; lia.
  - intro j. rewrite !pmap_get_eq. cbn [pm_bytes]. destruct (i =? j) eqn:Eij.
    + apply N.eqb_eq in Eij. subst j. rewrite (nth_error_list_upd_eq _ _ _ _ En).
      destruct (byte_core byte (i mod 4) s (i mod 4) Hb Hi Hi) as [_ F].
      rewrite F, N.eqb_refl, state_bits_inv. reflexivity.
    + apply N.eqb_neq in Eij.
      assert (Hj : j mod 4 < 4) by (apply N.mod_lt; lia).
      destruct (N.eq_dec (i / 4) (j / 4)) as [Ed | Ed].
      * rewrite <- Ed. rewrite (nth_error_list_upd_eq _ _ _ _ En), En.
        destruct (byte_core byte (i mod 4) s (j mod 4) Hb Hi Hj) as [_ F].
        rewrite F.
        assert (Hne : (i mod 4 =? j mod 4) = false).
        { apply N.eqb_neq. apply mod4_neq; auto. }
        rewrite Hne. reflexivity.
      * rewrite nth_error_list_upd_neq; [reflexivity|].
        intro Hc. apply Ed. apply N2Nat.inj. exact Hc.
Qed.

Theorem pmap_get_wf : forall m j, pmap_wf m -> exists r, pmap_get m j = Ok r.
Proof.
  intros m j Hwf. rewrite pmap_get_eq.
  destruct (nth_error (pm_bytes m) (N.to_nat (j / 4))) as [byte|] eqn:En.
  - pose proof (proj1 (Forall_forall _ _) Hwf _ (nth_error_In _ _ En)) as Hb.
    cbv beta in Hb.
    assert (Hj : j mod 4 < 4) by (apply N.mod_lt; lia).
    destruct (state_of_bits_lt3 _ (field_lt3 byte (j mod 4) Hb Hj)) as [s Hs].
    rewrite Hs. eexists. reflexivity.
  - eexists. reflexivity.
Qed.

Print Assumptions pmap_new_spec.
Print Assumptions pmap_set_total.
Print Assumptions pmap_get_set.
Print Assumptions pmap_get_wf.
