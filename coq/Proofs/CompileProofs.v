(* CompileProofs.v — structural theorems about the model compiler (Model/Compile.v =
   marwood/src/vm/compile.rs): operand order and the CALL protocol, propagation of the
   tail flag through `if` and lambda bodies (C01, C04).                          *)
From Coq Require Import String.
From MW Require Import Model.Base Model.F64 Model.Num Model.Datum Model.TransformDef Model.Transform
  Model.VmTypes Model.Heap Model.VmBase Model.Compile.
Open Scope N_scope.

Section Loops.
Variable ce : lambda -> bool -> cell -> M lambda.     (* compile_expression at the smaller fuel *)

(* the operand loop of compile_runtime_procedure_application (compile.rs:539-545):
   operands strictly left to right, each compiled as a NON-tail expression and
   followed by PUSH %acc *)
Fixpoint args_loop (r : cell) (lam : lambda) (n : N) {struct r} : M (lambda * N) :=
  match r with
  | CPair x r' => dom lam' <- ce lam false x; args_loop r' (emit_op lam' OPushAcc) (n + 1)
  | _ => ret (lam, n)
  end.

(* the body loop of compile_lambda (compile.rs:437-444): the LAST body expression —
   and only it — is compiled with the tail flag set *)
Fixpoint body_loop (b : cell) (lam : lambda) {struct b} : M lambda :=
  match b with
  | CPair x r => dom lam' <- ce lam (is_nil r) x; body_loop r lam'
  | _ => ret lam
  end.
End Loops.

Definition special_head (proc : cell) : bool :=
  sym_eq proc "define" || sym_eq proc "define-syntax" || sym_eq proc "lambda" || sym_is proc [955]
  || sym_eq proc "quasiquote" || sym_eq proc "quote" || sym_eq proc "if" || sym_eq proc "set!".

(* procedure application: operands left to right (each: code, PUSH %acc), then
   PUSH Argc n, then the operator, then TCALL in tail position and CALL otherwise *)
Theorem compile_application_eq f l tail proc rest :
  special_head proc = false ->
  compile_expression (S f) l tail (CPair proc rest) =
  (dom (l1, n) <- args_loop (compile_expression f) rest l 0;
   dom l3 <- compile_expression f (emit (emit_op l1 OPushImmediate) (VArgc n)) false proc;
   ret (emit_op l3 (if tail then OTCallAcc else OCallAcc))).
Proof.
  unfold special_head. intros H.
  repeat (apply Bool.orb_false_iff in H; destruct H as [H ?]).
  cbn [compile_expression].
  repeat match goal with E : _ = false |- _ => rewrite E; clear E end.
  cbn [orb]. reflexivity.
Qed.

(* `if`: the test is compiled as a non-tail expression, BOTH branches inherit the
   tail flag of the whole form; the one-armed form yields #<void> *)
Theorem compile_if_eq f l tail rest :
  compile_expression (S f) l tail (CPair (CSym (S_ "if")) rest) =
  (if is_nil rest || negb (is_list rest) then fail E_OTHER else
   dom (test, conseq, alt) <-
     (match cell_iter rest with
      | [t; c] => ret (t, c, None)
      | [t; c; a] => ret (t, c, Some a)
      | _ => fail E_OTHER
      end);
   dom l1 <- compile_expression f l false test;
   let l2 := emit_op l1 OJnt in
   let jnt_operand := bc_len l2 in
   let l3 := emit l2 (VPtr CAFEBEEF) in
   dom l4 <- compile_expression f l3 tail conseq;
   let l5 := emit_op l4 OJmp in
   let jmp_operand := bc_len l5 in
   let l6 := emit l5 (VPtr CAFEBEEF) in
   let l7 := bc_patch l6 jnt_operand (VPtr (bc_len l6)) in
   dom l8 <- (match alt with
              | Some a => compile_expression f l7 tail a
              | None => ret (emit (emit (emit_op l7 OMovImmediate) VVoid) VAcc)
              end);
   ret (bc_patch l8 jmp_operand (VPtr (bc_len l8)))).
Proof. reflexivity. Qed.

(* the opcode an application ends with *)
Theorem application_call_kind f l tail proc rest l' s s' :
  special_head proc = false ->
  compile_expression (S f) l tail (CPair proc rest) s = ROk l' s' ->
  hd VUndef (l_bc l') = VOp (if tail then OTCallAcc else OCallAcc).
Proof.
  intros Hsp H. rewrite compile_application_eq in H by assumption.
  unfold bindM in H.
  destruct (args_loop (compile_expression f) rest l 0 s) as [[l1 n] s1| | |]; try discriminate.
  destruct (compile_expression f _ false proc s1) as [l3 s3| | |]; try discriminate.
  unfold ret in H. injection H as <- <-. reflexivity.
Qed.
