(* FlatProofs.v — C02 locations_flat, the whole instruction set.

   Proofs/EnvProofs.v proves that [lex_inv] (no chain of VLexPtr) is kept by ENTER,
   CLOSURE, RET, PUSH %acc, JMP, JNT, HALT.  The other instructions MOVE VALUES between
   the heap, the global slots, vectors, the stack and %acc, so the invariant has to say that
   none of these places holds a VLexPtr VALUE either (environment payloads are the only
   place where the machine keeps such pointers), and that no instruction overwrites the
   heap cell of an environment object.  [finv] below is that invariant; it is proved to be
   kept by EVERY instruction of [run_one] — on the success path and on the error path — by
   the run loop, and hence to hold in every state reached from a [finv] state.

   The builtins are a parameter of [run_one]; the hypothesis on them is explicit:
   [builtins_ok ob] = every builtin keeps [finv] and returns a value that is not a VLexPtr. *)
From Coq Require Import Lia List.
From MW Require Import Model.Base Model.F64 Model.Num Model.Datum Model.TransformDef Model.Transform
  Model.VmTypes Model.Heap Model.Gc Model.VmBase Model.Compile Model.Vm
  Proofs.GcProofs Proofs.SymtabProofs Proofs.VmProofs0 Proofs.TailProofs Proofs.ScopeProofs
  Proofs.EnvProofs.
Open Scope N_scope.
Arguments N.add : simpl never.
Arguments N.sub : simpl never.
Arguments N.eqb : simpl never.
Arguments N.ltb : simpl never.
Arguments N.leb : simpl never.
Arguments N.mul : simpl never.

(* ------------------------------------------------------------------ the invariant *)
(* bytecode: no VLexPtr operand anywhere, and the destination operand of MOV / MOV-immediate
   (two cells after the opcode) is never a raw heap pointer: the compiler only emits %acc,
   global slots, lexical slots and frame offsets as destinations (Model/Compile.v) *)
Definition bc_ok (bc : list vcell) : Prop :=
  (forall i v, list_get bc i = Some v -> no_lexptr v) /\
  (forall i o p, list_get bc i = Some (VOp o) -> (o = OMov \/ o = OMovImmediate) ->
                 list_get bc (i + 2) <> Some (VPtr p)).

Record finv (s : vm) : Prop := {
  fi_lex : lex_inv s;
  fi_heap : forall a, no_lexptr (cell_at (hp s) a);
  fi_glob : forall i v, list_get (g_slots s) i = Some v -> no_lexptr v;
  fi_vecs : forall vid l i v, tget (vecs (st s)) vid = Some l -> list_get l i = Some v -> no_lexptr v;
  fi_code : forall lid l, tget (lams (st s)) lid = Some l -> bc_ok (l_bc l);
  fi_conts : forall cid k i v, tget (conts (st s)) cid = Some k -> list_get (k_stack k) i = Some v -> no_lexptr v
}.

Lemma finv_empty c : 0 < c -> finv (vm_empty c).
Proof.
  intros Hc. constructor; cbn [hp st g_slots vm_empty store_empty vecs lams conts].
  - apply lex_inv_empty, Hc.
  - intros a. unfold cell_at, heap_new. cbn [cells]. rewrite tget_tempty. exact I.
  - intros i v H. unfold list_get in H. destruct (N.to_nat i); discriminate.
  - intros vid l i v H. rewrite tget_tempty in H. discriminate.
  - intros lid l H. rewrite tget_tempty in H. discriminate.
  - intros cid k i v H. rewrite tget_tempty in H. discriminate.
Qed.

(* ------------------------------------------------------------------ state updates *)
(* the generic step for lex_inv *)
Lemma lex_inv_mem s s' :
  lex_inv s -> heap_inv (hp s') -> store_wf (st s') ->
  (forall q x, env_at s q = Some x -> env_at s' q = Some x) ->
  (forall eid l k v, tget (envs (st s')) eid = Some l -> list_get l k = Some v ->
     slot_flat s' v \/ exists e0 l0 k0, tget (envs (st s)) e0 = Some l0 /\ list_get l0 k0 = Some v) ->
  stack_clean s' -> no_lexptr (acc s') -> lex_inv s'.
Proof.
  intros [I1 I2 I3 I4 I5] H1 H2 Hp Hf H4 H5. constructor; try assumption.
  apply (flat_envs_step s s'); [apply envs_persist_same; exact Hp|exact I3|exact Hf].
Qed.

(* registers, stack: memory (heap, payload tables, globals) untouched *)
Lemma finv_same_mem s s' :
  hp s' = hp s -> st s' = st s -> g_slots s' = g_slots s ->
  stack_clean s' -> no_lexptr (acc s') -> finv s -> finv s'.
Proof.
  intros Hh Hs Hg Hst Hacc [L F1 F2 F3 F4 F5].
  constructor; rewrite ?Hh, ?Hs, ?Hg; try assumption.
  apply (lex_inv_regs s s' Hh Hs Hst Hacc L).
Qed.

Lemma finv_stack_clean s : finv s -> stack_clean s.
Proof. intros F. apply (li_stack s (fi_lex s F)). Qed.
Lemma finv_acc s : finv s -> no_lexptr (acc s).
Proof. intros F. apply (li_acc s (fi_lex s F)). Qed.

Lemma stack_clean_tset' s s' v p :
  stack_clean s -> no_lexptr v -> stack s' = tset (stack s) p v -> stack_clean s'.
Proof.
  intros Hs Hv E. apply (stack_clean_tset s s' v p Hs Hv). intros i. rewrite sget_slot, E. reflexivity.
Qed.
Lemma stack_clean_same s s' : stack_clean s -> stack s' = stack s -> stack_clean s'.
Proof. intros Hs E i. unfold sget. rewrite E. apply Hs. Qed.

(* ---- Heap::put of any value *)
Lemma heap_put_shape h v r h' : heap_put h v = (r, h') ->
  (h' = h /\ exists a, r = VPtr a) \/
  (exists p h1, heap_alloc h = (p, h1) /\ r = VPtr p /\ cells h' = tset (cells h1) p v /\ hlen h' = hlen h1
                /\ gcmap h' = gcmap h1).
Proof.
  intros H. unfold heap_put in H.
  assert (G : (let '(p, h1) := heap_store_new h v in (VPtr p, h1)) = (r, h') ->
              exists p h1, heap_alloc h = (p, h1) /\ r = VPtr p /\ cells h' = tset (cells h1) p v /\
                           hlen h' = hlen h1 /\ gcmap h' = gcmap h1).
  { unfold heap_store_new. destruct (heap_alloc h) as [p h1]. intros [= <- <-]. exists p, h1. cbn. auto. }
  destruct v; try (right; exact (G H)).
  - (* symbol *)
    destruct (symtab_find (symtab h) s) as [p|].
    + injection H as <- <-. left. eauto.
    + right. unfold heap_store_new in H. destruct (heap_alloc h) as [p h1]. injection H as <- <-.
      exists p, h1. cbn. auto.
  - injection H as <- <-. left. eauto.
Qed.

Lemma heap_put_gen h v r h' : heap_inv h -> heap_put h v = (r, h') ->
  heap_inv h' /\ hlen h <= hlen h' /\ (exists a, r = VPtr a) /\
  (forall b, allocated h b -> cell_at h' b = cell_at h b) /\
  (forall b, cell_at h' b = cell_at h b \/ cell_at h' b = v).
Proof.
  intros HI H. pose proof (heap_inv_put _ _ _ _ HI H) as HI'.
  destruct (heap_put_shape h v r h' H) as [(-> & Hr)|(p & h1 & Ha & -> & Hc & Hl & Hg)].
  - split; [exact HI|]. split; [lia|]. split; [exact Hr|]. split; auto.
  - destruct (heap_alloc_fresh h p h1 HI Ha) as (_ & Hna & _ & Hl1 & Hc1 & _ & _).
    assert (C : forall b, cell_at h' b = if b =? p then v else cell_at h b).
    { intros b. unfold cell_at. rewrite Hc, Hc1, tget_tset.
      destruct (N.eqb_spec p b) as [->|Hne]; [rewrite N.eqb_refl; reflexivity|].
      destruct (N.eqb_spec b p) as [->|_]; [contradiction|reflexivity]. }
    split; [exact HI'|]. split; [lia|]. split; [eauto|]. split.
    + intros b Hb. rewrite C. destruct (N.eqb_spec b p) as [->|_]; [contradiction|reflexivity].
    + intros b. rewrite C. destruct (b =? p); auto.
Qed.

Lemma env_at_heap_put s h' :
  heap_inv (hp s) -> hlen (hp s) <= hlen h' ->
  (forall b, allocated (hp s) b -> cell_at h' b = cell_at (hp s) b) ->
  forall q x, env_at s q = Some x -> env_at (with_heap s h') q = Some x.
Proof.
  intros HI Hl Hc q x Hq. pose proof (env_at_allocated s q x HI Hq) as Ha.
  destruct x as [eid l]. apply env_at_some in Hq as (L & C & E). apply env_at_some.
  cbn [hp st with_heap]. split; [lia|]. split; [rewrite Hc by exact Ha; exact C|exact E].
Qed.

Lemma finv_heap_put s v r h' :
  finv s -> no_lexptr v -> heap_put (hp s) v = (r, h') ->
  finv (with_heap s h') /\ exists a, r = VPtr a.
Proof.
  intros F Hv H. pose proof F as [L F1 F2 F3 F4 F5].
  destruct (heap_put_gen _ _ _ _ (li_heap s L) H) as (HI' & Hl & Hr & Hc & Hcv).
  split; [|exact Hr].
  constructor; cbn [hp st g_slots with_heap]; try assumption.
  - apply (lex_inv_mem s); cbn [hp st acc with_heap]; try assumption.
    + apply (li_store s L).
    + apply env_at_heap_put; [apply (li_heap s L)|exact Hl|exact Hc].
    + intros eid l k w E Hk. right. eauto.
    + apply (stack_clean_same s); [apply (li_stack s L)|reflexivity].
    + apply (li_acc s L).
  - intros a. destruct (Hcv a) as [-> | ->]; [apply F1|exact Hv].
Qed.

Lemma finv_heap_maybe_put s v r h' :
  finv s -> no_lexptr v -> heap_maybe_put (hp s) v = (r, h') ->
  finv (with_heap s h') /\ no_lexptr r.
Proof.
  intros F Hv H. unfold heap_maybe_put in H.
  assert (G : heap_put (hp s) v = (r, h') -> finv (with_heap s h') /\ no_lexptr r).
  { intros H'. destruct (finv_heap_put s v r h' F Hv H') as (F' & a & ->). split; [exact F'|exact I]. }
  assert (Same : with_heap s (hp s) = s) by (destruct s; reflexivity).
  destruct v; try exact (G H); injection H as <- <-; rewrite Same; split; auto.
Qed.

(* ---- payload tables *)
Lemma finv_store_upd s x :
  finv s ->
  envs x = envs (st s) -> next_id (st s) <= next_id x ->
  (forall lid l, tget (lams x) lid = Some l -> bc_ok (l_bc l)) ->
  (forall vid l i v, tget (vecs x) vid = Some l -> list_get l i = Some v -> no_lexptr v) ->
  (forall cid k i v, tget (conts x) cid = Some k -> list_get (k_stack k) i = Some v -> no_lexptr v) ->
  finv (with_store s x).
Proof.
  intros F He Hn Hlam Hv Hk. pose proof F as [L F1 F2 F3 F4 F5].
  assert (Hp : forall q y, env_at s q = Some y -> env_at (with_store s x) q = Some y).
  { intros q [eid l] Hq. apply env_at_some in Hq as (Lq & C & E). apply env_at_some.
    cbn [hp st with_store]. rewrite He. auto. }
  constructor; cbn [hp st g_slots with_store]; try assumption.
  - apply (lex_inv_mem s); cbn [hp st acc with_store]; try assumption.
    + apply (li_heap s L).
    + intros e Hge. rewrite He. apply (li_store s L). apply N.le_trans with (next_id x); [exact Hn|exact Hge].
    + intros eid l k w E Hk0. right. rewrite He in E. eauto.
    + apply (stack_clean_same s); [apply (li_stack s L)|reflexivity].
    + apply (li_acc s L).
Qed.

Lemma finv_vec_set s vid l :
  finv s -> (forall i v, list_get l i = Some v -> no_lexptr v) ->
  finv (with_store s (set_vec (st s) vid l)).
Proof.
  intros F Hl. apply finv_store_upd; [exact F|reflexivity|apply N.le_refl|apply (fi_code s F)| |apply (fi_conts s F)].
  intros vid0 l0 i v E. cbn [set_vec vecs] in E. rewrite tget_tset in E.
  destruct (vid =? vid0); [injection E as <-; apply Hl|revert E; apply (fi_vecs s F)].
Qed.

(* a new environment payload whose slots are flat in the current state *)
Lemma finv_new_env s env :
  finv s -> (forall k v, list_get env k = Some v -> slot_flat s v) ->
  finv (with_store s (snd (new_env (st s) env))).
Proof.
  intros F Henv. pose proof F as [L F1 F2 F3 F4 F5]. pose proof L as [I1 I2 I3 I4 I5].
  set (s' := with_store s (snd (new_env (st s) env))).
  assert (Hp : forall q y, env_at s q = Some y -> env_at s' q = Some y).
  { intros q [eid l] Hq. apply env_at_some in Hq as (Lq & C & E). apply env_at_some.
    cbn [s' hp st with_store new_env snd envs]. split; [exact Lq|]. split; [exact C|].
    rewrite tget_tset_other; [exact E|]. intros <-. rewrite (I2 (next_id (st s))) in E by lia. discriminate. }
  constructor; cbn [s' hp st g_slots with_store new_env snd vecs lams conts]; try assumption.
  apply (lex_inv_mem s); cbn [s' hp st acc with_store]; try assumption.
  - apply (new_env_wf (st s) env I2).
  - intros eid l k w E Hk. cbn [new_env snd envs] in E. rewrite tget_tset in E.
    destruct (next_id (st s) =? eid).
    + injection E as <-. left. specialize (Henv k w Hk).
      apply (slot_flat_persist s s' w); [apply envs_persist_same; exact Hp|exact Henv].
    + right. eauto.
Qed.

Lemma finv_globals s slot v :
  finv s -> no_lexptr v -> finv (with_globals s (g_bind s) (list_set (g_slots s) slot v)).
Proof.
  intros F Hv. pose proof F as [L F1 F2 F3 F4 F5].
  constructor; cbn [hp st g_slots with_globals]; try assumption.
  - apply (lex_inv_regs s); try reflexivity; [|apply (li_acc s L)|exact L].
    apply (stack_clean_same s); [apply (li_stack s L)|reflexivity].
  - intros i w H. rewrite list_get_set in H. destruct (slot =? i).
    + destruct (list_get (g_slots s) i); [injection H as <-; exact Hv|discriminate].
    + eauto.
Qed.

(* ------------------------------------------------------------------ triples *)
Definition post {A} (r : res A) (Q : A -> vm -> Prop) : Prop :=
  match r with ROk a s' => finv s' /\ Q a s' | RErr _ _ s' => finv s' | _ => True end.
(* [hoare P m Q]: from a state satisfying [finv] and [P], [m] ends — normally OR with an
   error — in a state satisfying [finv]; a normal result satisfies [Q] *)
Definition hoare {A} (P : vm -> Prop) (m : M A) (Q : A -> vm -> Prop) : Prop :=
  forall s, finv s -> P s -> post (m s) Q.
Definition pres {A} (m : M A) (Q : A -> Prop) : Prop := hoare (fun _ => True) m (fun a _ => Q a).

Lemma post_weaken {A} (r : res A) (Q Q' : A -> vm -> Prop) :
  (forall a s, finv s -> Q a s -> Q' a s) -> post r Q -> post r Q'.
Proof. intros H. destruct r; cbn [post]; auto. intros [F HQ]. auto. Qed.

Lemma hoare_bind {A B} (P : vm -> Prop) (m : M A) (Q : A -> vm -> Prop) (f : A -> M B) (R : B -> vm -> Prop) :
  hoare P m Q -> (forall a, hoare (Q a) (f a) R) -> hoare P (bindM m f) R.
Proof.
  intros Hm Hf s F HP. unfold bindM. specialize (Hm s F HP).
  destruct (m s) as [a s1|e msg s1|k|]; cbn [post] in *; auto.
  destruct Hm as [F1 HQ]. exact (Hf a s1 F1 HQ).
Qed.
Lemma hoare_conseq {A} (P P' : vm -> Prop) (m : M A) (Q Q' : A -> vm -> Prop) :
  hoare P m Q -> (forall s, finv s -> P' s -> P s) -> (forall a s, finv s -> Q a s -> Q' a s) -> hoare P' m Q'.
Proof. intros H HP HQ s F HP'. apply (post_weaken _ Q Q' HQ). apply H; auto. Qed.
Lemma hoare_pre {A} (P P' : vm -> Prop) (m : M A) (Q : A -> vm -> Prop) :
  hoare P m Q -> (forall s, finv s -> P' s -> P s) -> hoare P' m Q.
Proof. intros H HP. apply (hoare_conseq P P' m Q Q H HP). auto. Qed.
Lemma hoare_post {A} (P : vm -> Prop) (m : M A) (Q Q' : A -> vm -> Prop) :
  hoare P m Q -> (forall a s, finv s -> Q a s -> Q' a s) -> hoare P m Q'.
Proof. intros H HQ. apply (hoare_conseq P P m Q Q' H); auto. Qed.
Lemma hoare_ret {A} (P : vm -> Prop) (a : A) (Q : A -> vm -> Prop) : (forall s, finv s -> P s -> Q a s) -> hoare P (ret a) Q.
Proof. intros H s F HP. cbn. auto. Qed.
Lemma hoare_fail {A} (P : vm -> Prop) e (Q : A -> vm -> Prop) : hoare P (fail e) Q.
Proof. intros s F HP. exact F. Qed.
Lemma hoare_panic {A} (P : vm -> Prop) k (Q : A -> vm -> Prop) : hoare P (panic k) Q.
Proof. intros s F HP. exact I. Qed.
(* a computation that only reads the machine keeps any state predicate, and its result
   can be re-read in the (unchanged) final state *)
Lemma hoare_pure {A} (P : vm -> Prop) (m : M A) : pure m -> hoare P m (fun a s' => P s' /\ m s' = ROk a s').
Proof.
  intros Hp s F HP. specialize (Hp s). destruct (m s) as [a s1|e msg s1|k|] eqn:E; cbn [post]; auto.
  - subst s1. auto.
  - subst s1. exact F.
Qed.
Lemma hoare_and {A} (P1 P2 : vm -> Prop) (m : M A) (Q1 Q2 : A -> vm -> Prop) :
  hoare P1 m Q1 -> hoare P2 m Q2 -> hoare (fun s => P1 s /\ P2 s) m (fun a s => Q1 a s /\ Q2 a s).
Proof.
  intros H1 H2 s F [HP1 HP2]. specialize (H1 s F HP1). specialize (H2 s F HP2).
  destruct (m s); cbn [post] in *; auto. destruct H1, H2. auto.
Qed.

Lemma pres_bind {A B} (m : M A) (Q : A -> Prop) (f : A -> M B) (R : B -> Prop) :
  pres m Q -> (forall a, Q a -> pres (f a) R) -> pres (bindM m f) R.
Proof.
  intros Hm Hf. apply (hoare_bind _ m (fun a _ => Q a)); [exact Hm|].
  intros a s F HQ. exact (Hf a HQ s F I).
Qed.
Lemma pres_weaken {A} (m : M A) (Q Q' : A -> Prop) : pres m Q -> (forall a, Q a -> Q' a) -> pres m Q'.
Proof. intros H HQ. apply (hoare_post _ m _ _ H). intros a s _. apply HQ. Qed.
Lemma pres_ret {A} (a : A) (Q : A -> Prop) : Q a -> pres (ret a) Q.
Proof. intros H. apply hoare_ret. auto. Qed.
Lemma pres_fail {A} e (Q : A -> Prop) : pres (fail e) Q. Proof. apply hoare_fail. Qed.
Lemma pres_panic {A} k (Q : A -> Prop) : pres (panic k) Q. Proof. apply hoare_panic. Qed.
Lemma pres_pure {A} (m : M A) : pure m -> pres m (fun _ => True).
Proof. intros Hp. apply (hoare_post _ m _ _ (hoare_pure _ m Hp)). auto. Qed.
(* reading the machine: the continuation may use the equation at the current state *)
Lemma pres_pure_bind {A B} (m : M A) (f : A -> M B) (R : B -> Prop) :
  pure m -> (forall s a, finv s -> m s = ROk a s -> post (f a s) (fun b _ => R b)) -> pres (bindM m f) R.
Proof.
  intros Hp H s F _. unfold bindM. specialize (Hp s).
  destruct (m s) as [a s1|e msg s1|k|] eqn:E; cbn [post]; auto.
  - subst s1. exact (H s a F E).
  - subst s1. exact F.
Qed.
Lemma pres_at {A} (m : M A) (Q : A -> Prop) s : pres m Q -> finv s -> post (m s) (fun a _ => Q a).
Proof. intros H F. exact (H s F I). Qed.

(* ------------------------------------------------------------------ primitives *)
Lemma pres_get_vm : pres get_vm finv.
Proof. intros s F _. cbn. auto. Qed.

Lemma pres_stack_get i : pres (stack_get i) no_lexptr.
Proof.
  intros s F _. unfold stack_get. destruct (i <? scap s); cbn [post]; [|exact F].
  split; [exact F|apply (finv_stack_clean s F)].
Qed.
Lemma pres_stack_get_offset z : pres (stack_get_offset z) no_lexptr.
Proof.
  intros s F _. unfold stack_get_offset. destruct (_ <? 0)%Z; [exact F|]. apply (pres_stack_get _ s F I).
Qed.
Lemma finv_with_sp s p : finv s -> finv (with_sp s p).
Proof.
  intros F. apply (finv_same_mem s); try reflexivity; [|apply (finv_acc s F)|exact F].
  apply (stack_clean_same s); [apply (finv_stack_clean s F)|reflexivity].
Qed.
Lemma pres_pop_raw : pres pop_raw no_lexptr.
Proof.
  intros s F _. unfold pop_raw. destruct (sp s =? 0); [exact F|].
  destruct (sp s <? scap s); cbn [post].
  - split; [apply finv_with_sp, F|apply (finv_stack_clean s F)].
  - apply finv_with_sp, F.
Qed.
Lemma pres_push v : no_lexptr v -> pres (push v) (fun _ => True).
Proof.
  intros Hv s F _. unfold push. cbn [post]. split; [|exact I].
  apply (finv_same_mem s); try reflexivity; [|apply (finv_acc s F)|exact F].
  apply (stack_clean_tset' s _ v (sp s + 1)); [apply (finv_stack_clean s F)|exact Hv|reflexivity].
Qed.
Lemma pres_stack_put i v : no_lexptr v -> pres (stack_put i v) (fun _ => True).
Proof.
  intros Hv s F _. unfold stack_put. destruct (i <? scap s); cbn [post]; [|exact F]. split; [|exact I].
  apply (finv_same_mem s); try reflexivity; [|apply (finv_acc s F)|exact F].
  apply (stack_clean_tset' s _ v i); [apply (finv_stack_clean s F)|exact Hv|reflexivity].
Qed.
Lemma pres_stack_put_offset z v : no_lexptr v -> pres (stack_put_offset z v) (fun _ => True).
Proof.
  intros Hv s F _. unfold stack_put_offset. destruct (_ <? 0)%Z; [exact F|]. apply (pres_stack_put _ v Hv s F I).
Qed.

Lemma finv_regs s s' :
  hp s' = hp s -> st s' = st s -> g_slots s' = g_slots s -> stack s' = stack s -> acc s' = acc s ->
  finv s -> finv s'.
Proof.
  intros Hh Hs Hg Hst Ha F. apply (finv_same_mem s); try assumption.
  - apply (stack_clean_same s); [apply (finv_stack_clean s F)|exact Hst].
  - rewrite Ha. apply (finv_acc s F).
Qed.
Lemma pres_set_ip i : pres (set_ip i) (fun _ => True).
Proof. intros s F _. cbn. split; [|exact I]. apply (finv_regs s); auto. Qed.
Lemma pres_set_bp i : pres (set_bp i) (fun _ => True).
Proof. intros s F _. cbn. split; [|exact I]. apply (finv_regs s); auto. Qed.
Lemma pres_set_ep i : pres (set_ep i) (fun _ => True).
Proof. intros s F _. cbn. split; [|exact I]. apply (finv_regs s); auto. Qed.
Lemma pres_set_sp i : pres (set_sp i) (fun _ => True).
Proof. intros s F _. cbn. split; [|exact I]. apply (finv_regs s); auto. Qed.
Lemma pres_set_acc v : no_lexptr v -> pres (set_acc v) (fun _ => True).
Proof.
  intros Hv s F _. cbn. split; [|exact I]. apply (finv_same_mem s); try reflexivity; [|exact Hv|exact F].
  apply (stack_clean_same s); [apply (finv_stack_clean s F)|reflexivity].
Qed.

Lemma pres_hget p : pres (hget p) no_lexptr.
Proof.
  intros s F _. unfold hget. rewrite heap_get_cell_at. destruct (p <? hlen (hp s)); cbn; [|exact I].
  split; [exact F|apply (fi_heap s F)].
Qed.
Lemma pres_hderef v : no_lexptr v -> pres (hderef v) no_lexptr.
Proof.
  intros Hv s F _. unfold hderef, heap_deref.
  destruct v; try (cbn; split; [exact F|exact I]).
  - destruct Hv.
  - apply (pres_hget p s F I).
Qed.
Lemma pres_hput v : no_lexptr v -> pres (hput v) (fun r => exists a, r = VPtr a).
Proof.
  intros Hv s F _. unfold hput. destruct (heap_put (hp s) v) as [r h'] eqn:E. cbn [post].
  exact (finv_heap_put s v r h' F Hv E).
Qed.
Lemma pres_hmaybe_put v : no_lexptr v -> pres (hmaybe_put v) no_lexptr.
Proof.
  intros Hv s F _. unfold hmaybe_put. destruct (heap_maybe_put (hp s) v) as [r h'] eqn:E. cbn [post].
  exact (finv_heap_maybe_put s v r h' F Hv E).
Qed.

Lemma pres_vec_get vid : pres (vec_get vid) (fun l => forall i v, list_get l i = Some v -> no_lexptr v).
Proof.
  intros s F _. unfold vec_get. destruct (tget (vecs (st s)) vid) as [l|] eqn:E; cbn [post]; [|exact I].
  split; [exact F|]. intros i v. apply (fi_vecs s F vid l i v E).
Qed.
Lemma pres_vec_set vid l : (forall i v, list_get l i = Some v -> no_lexptr v) -> pres (vec_set vid l) (fun _ => True).
Proof. intros Hl s F _. unfold vec_set. cbn [post]. split; [|exact I]. apply finv_vec_set; assumption. Qed.

(* ---- code *)
Definition code_at (s : vm) : option lambda :=
  match heap_get (hp s) (fst (ip s)) with
  | Ok (VLambda lid) => tget (lams (st s)) lid
  | _ => None
  end.
Lemma cur_lambda_ok s l s' : cur_lambda s = ROk l s' -> code_at s = Some l /\ s' = s.
Proof.
  unfold cur_lambda, code_at, get_lambda. destruct (heap_get (hp s) (fst (ip s))) as [v| | |]; try discriminate.
  destruct v; try discriminate. destruct (tget (lams (st s)) lid); [|discriminate]. intros [= <- <-]. auto.
Qed.
Lemma code_at_ok s l : finv s -> code_at s = Some l -> bc_ok (l_bc l).
Proof.
  intros F. unfold code_at. destruct (heap_get (hp s) (fst (ip s))) as [v| | |]; try discriminate.
  destruct v; try discriminate. apply (fi_code s F).
Qed.
Lemma code_at_with_ip s i : code_at (with_ip s (fst (ip s), i)) = code_at s.
Proof. reflexivity. Qed.

(* the cell [k] places after %ip is not a raw heap pointer (k = 0: the next operand) *)
Definition no_ptr_at (k : N) (s : vm) : Prop :=
  forall l p, code_at s = Some l -> list_get (l_bc l) (snd (ip s) + k) <> Some (VPtr p).
Definition is_mov (o : opcode) : bool := match o with OMov | OMovImmediate => true | _ => false end.

Lemma read_opcode_spec :
  hoare (fun _ => True) read_opcode (fun o s' => is_mov o = true -> no_ptr_at 1 s').
Proof.
  intros s F _. unfold read_opcode, bindM.
  destruct (cur_lambda s) as [l s1|e m s1|k|] eqn:Ec; cbn [post]; auto.
  2:{ pose proof (pure_cur_lambda s) as Hp. rewrite Ec in Hp. subst s1. exact F. }
  apply cur_lambda_ok in Ec as (Ec & ->). unfold get_vm.
  destruct (list_get (l_bc l) (snd (ip s))) as [v|] eqn:Ev; [|exact F].
  destruct v; try exact F. unfold set_ip, ret. cbn [post]. split; [apply (finv_regs s); auto|].
  intros Hm l' p Hl'. rewrite code_at_with_ip in Hl'. assert (l' = l) by congruence. subst l'.
  cbn [ip with_ip snd]. replace (snd (ip s) + 1 + 1) with (snd (ip s) + 2) by lia.
  destruct (code_at_ok s l F Ec) as [_ Hb]. apply (Hb _ o p Ev). destruct o; try discriminate; auto.
Qed.

Lemma read_operand_spec (b : bool) :
  hoare (fun s => if b then no_ptr_at 1 s else True) read_operand
        (fun v s' => no_lexptr v /\ if b then no_ptr_at 0 s' else True).
Proof.
  intros s F HP. unfold read_operand, bindM.
  destruct (cur_lambda s) as [l s1|e m s1|k|] eqn:Ec; cbn [post]; auto.
  2:{ pose proof (pure_cur_lambda s) as Hp. rewrite Ec in Hp. subst s1. exact F. }
  apply cur_lambda_ok in Ec as (Ec & ->). unfold get_vm.
  destruct (list_get (l_bc l) (snd (ip s))) as [v|] eqn:Ev; [|exact F].
  destruct (code_at_ok s l F Ec) as [Hb _].
  assert (G : post (ROk v (with_ip s (fst (ip s), snd (ip s) + 1)))
                   (fun v s' => no_lexptr v /\ if b then no_ptr_at 0 s' else True)).
  { cbn [post]. split; [apply (finv_regs s); auto|]. split; [apply (Hb _ _ Ev)|].
    destruct b; [|exact I]. intros l' p Hl'. rewrite code_at_with_ip in Hl'. cbn [ip with_ip snd].
    rewrite N.add_0_r. apply (HP l' p Hl'). }
  destruct v; try exact G. exact F.
Qed.
Lemma pres_read_operand : pres read_operand no_lexptr.
Proof.
  apply (hoare_conseq _ _ _ _ _ (read_operand_spec false)); [auto|]. intros a s _ [H _]. exact H.
Qed.
(* the destination operand of a MOV *)
Lemma read_dest_spec :
  hoare (no_ptr_at 0) read_operand (fun v _ => no_lexptr v /\ forall p, v <> VPtr p).
Proof.
  intros s F HP. unfold read_operand, bindM.
  destruct (cur_lambda s) as [l s1|e m s1|k|] eqn:Ec; cbn [post]; auto.
  2:{ pose proof (pure_cur_lambda s) as Hp. rewrite Ec in Hp. subst s1. exact F. }
  apply cur_lambda_ok in Ec as (Ec & ->). unfold get_vm.
  destruct (list_get (l_bc l) (snd (ip s))) as [v|] eqn:Ev; [|exact F].
  destruct (code_at_ok s l F Ec) as [Hb _].
  assert (G : post (ROk v (with_ip s (fst (ip s), snd (ip s) + 1)))
                   (fun v _ => no_lexptr v /\ forall p, v <> VPtr p)).
  { cbn [post]. split; [apply (finv_regs s); auto|]. split; [apply (Hb _ _ Ev)|].
    intros p ->. apply (HP l p Ec). rewrite N.add_0_r. exact Ev. }
  destruct v; try exact G. exact F.
Qed.

(* ---- lexical slots *)
Lemma pres_load_lex_slot k : pres (load_lex_slot k) no_lexptr.
Proof.
  intros s F _. destruct (load_lex_slot k s) as [v s1|e m s1|j|] eqn:E; cbn [post]; auto.
  - pose proof (load_lex_slot_clean s k v s1 (lex_inv_flat s (fi_lex s F)) E) as Hv.
    apply load_lex_slot_inv in E as (-> & _). auto.
  - assert (Hp : pure (load_lex_slot k)).
    { unfold load_lex_slot. apply pure_bind; [apply pure_get_vm|]. intros s0.
      apply pure_bind; [apply pure_hget|]. intros ev. apply pure_bind; [apply pure_as_lexenv|]. intros eid.
      apply pure_bind; [apply pure_env_get|]. intros v.
      destruct v; try apply pure_ret.
      apply pure_bind; [apply pure_hget|]. intros ev2. apply pure_bind; [apply pure_as_lexenv|]. intros eid2.
      apply pure_env_get. }
    specialize (Hp s). rewrite E in Hp. subst s1. exact F.
Qed.

(* an error of store_lex_slot leaves the machine as it was *)
Definition err_same {A} (m : M A) : Prop := forall s e msg s', m s = RErr e msg s' -> s' = s.
Lemma err_same_pure {A} (m : M A) : pure m -> err_same m.
Proof. intros Hp s e msg s' E. specialize (Hp s). rewrite E in Hp. exact Hp. Qed.
Lemma err_same_bind_pure {A B} (m : M A) (f : A -> M B) :
  pure m -> (forall a, err_same (f a)) -> err_same (bindM m f).
Proof.
  intros Hp Hf s e msg s' E. unfold bindM in E. specialize (Hp s).
  destruct (m s) as [a s1|e1 m1 s1|k|]; try discriminate.
  - subst s1. exact (Hf a s e msg s' E).
  - injection E as _ _ <-. exact Hp.
Qed.
Lemma err_same_env_put eid i v : err_same (env_put eid i v).
Proof.
  unfold env_put. apply err_same_bind_pure; [apply pure_env_slots|]. intros l.
  destruct (i <? len l); intros s e msg s' E; discriminate.
Qed.
Lemma err_same_store_lex_slot k v : err_same (store_lex_slot k v).
Proof.
  unfold store_lex_slot. apply err_same_bind_pure; [apply pure_get_vm|]. intros s0.
  apply err_same_bind_pure; [apply pure_hget|]. intros ev.
  apply err_same_bind_pure; [apply pure_as_lexenv|]. intros eid.
  apply err_same_bind_pure; [apply pure_env_get|]. intros cur.
  destruct cur; try apply err_same_env_put.
  apply err_same_bind_pure; [apply pure_hget|]. intros ev2.
  apply err_same_bind_pure; [apply pure_as_lexenv|]. intros eid2. apply err_same_env_put.
Qed.

Lemma pres_store_lex_slot k v : no_lexptr v -> pres (store_lex_slot k v) (fun _ => True).
Proof.
  intros Hv s F _. destruct (store_lex_slot k v s) as [u s1|e m s1|j|] eqn:E; cbn [post]; auto.
  - split; [|exact I]. pose proof (lex_inv_store s k v u s1 (fi_lex s F) Hv E) as L1.
    destruct (store_lex_slot_inv k v s u s1 E) as (e & j & l & _ & _ & _ & ->).
    pose proof F as [L F1 F2 F3 F4 F5].
    constructor; cbn [hp st g_slots with_store set_env vecs lams conts]; assumption.
  - apply err_same_store_lex_slot in E. subst s1. exact F.
Qed.

(* ---- continuations *)
Lemma write_slots_slot l : forall i t j,
  slot (write_slots l i t) j =
  if (i <=? j) && (j <? i + len l) then match list_get l (j - i) with Some v => v | None => VUndef end
  else slot t j.
Proof.
  induction l as [|v r IH]; intros i t j; cbn [write_slots].
  - unfold len. cbn [length]. destruct (N.leb_spec i j); destruct (N.ltb_spec j (i + N.of_nat 0)); cbn; try reflexivity; lia.
  - rewrite IH, slot_tset. unfold len. cbn [length]. rewrite Nat2N.inj_succ.
    destruct (N.leb_spec (i + 1) j) as [L1|L1]; destruct (N.ltb_spec j (i + 1 + N.of_nat (length r))) as [L2|L2];
      destruct (N.leb_spec i j) as [L3|L3]; destruct (N.ltb_spec j (i + N.succ (N.of_nat (length r)))) as [L4|L4];
      cbn [andb]; try lia;
      try (destruct (N.eqb_spec i j) as [->|Hne]; [lia|reflexivity]).
    + unfold list_get. replace (N.to_nat (j - i)) with (S (N.to_nat (j - (i + 1)))) by lia. reflexivity.
    + assert (i = j) by lia. subst j. rewrite N.eqb_refl. unfold list_get. rewrite N.sub_diag. reflexivity.
Qed.

Lemma pres_restore_continuation cid : pres (restore_continuation cid) (fun _ => True).
Proof.
  intros s F _. unfold restore_continuation.
  destruct (tget (conts (st s)) cid) as [k|] eqn:E; [|exact I].
  destruct (scap s <? len (k_stack k)); [exact I|]. cbn [post]. split; [|exact I].
  apply (finv_same_mem s); [reflexivity|reflexivity|reflexivity| |exact I|exact F].
  intros j. rewrite sget_slot. cbn [stack with_acc with_bp with_ip with_ep with_stack].
  rewrite write_slots_slot. destruct ((0 <=? j) && (j <? 0 + len (k_stack k))).
  - destruct (list_get (k_stack k) (j - 0)) as [v|] eqn:Ev; [|exact I]. apply (fi_conts s F cid k _ v E Ev).
  - rewrite <- sget_slot. apply (finv_stack_clean s F).
Qed.

Lemma pure_to_cell v : pure (to_cell v).
Proof. intros s. unfold to_cell, as_cell. apply pure_lift. Qed.

(* ------------------------------------------------------------------ tactics *)
Ltac clean :=
  first [ exact I | assumption
        | match goal with H : exists a, ?r = VPtr a |- no_lexptr ?r => destruct H as [? ->]; exact I end
        | apply finv_acc; assumption ].
Ltac ppure :=
  apply pres_pure;
  first [ apply pure_as_ptr | apply pure_as_argc | apply pure_usub | apply pure_as_bp | apply pure_as_ep
        | apply pure_as_ip | apply pure_as_lexenv | apply pure_as_lambda | apply pure_cur_lambda
        | apply pure_to_cell | apply pure_env_slots | apply pure_ret | apply pure_fail ].
Ltac pprim :=
  first [ apply pres_get_vm | apply pres_stack_get | apply pres_stack_get_offset | apply pres_pop_raw
        | apply pres_hget | apply pres_read_operand | apply pres_set_ip | apply pres_set_bp
        | apply pres_set_ep | apply pres_set_sp | apply pres_restore_continuation
        | apply pres_load_lex_slot | apply pres_vec_get | ppure ].
Ltac pside :=
  first [ apply pres_push | apply pres_hput | apply pres_set_acc | apply pres_hderef | apply pres_stack_put
        | apply pres_stack_put_offset | apply pres_hmaybe_put | apply pres_store_lex_slot ]; clean.
Ltac pb := eapply pres_bind; [ first [ pprim | pside ] | intros ? ?; cbv beta in * ].
Tactic Notation "pbn" ident(x) ident(H) := eapply pres_bind; [ first [ pprim | pside ] | intros x H; cbv beta in * ].
Ltac pend := first [ apply pres_ret; exact I | apply pres_fail | apply pres_panic | pprim | pside ].

(* ------------------------------------------------------------------ operands *)
Definition load_tail (o : vcell) : M vcell :=
  dom s <- get_vm;
  match o with
  | VAcc => ret (acc s)
  | VPtr p => hget p
  | VBpOff off =>
      let i := (Z.of_N (bp s) + off)%Z in
      if (i <? 0)%Z then fail E_OTHER else stack_get (Z.to_N i)
  | VGSlot slot =>
      match list_get (g_slots s) slot with
      | None => panic 45
      | Some VUndef => fail E_OTHER
      | Some v => ret v
      end
  | VLexSlot slot => load_lex_slot slot
  | _ => fail E_OTHER
  end.
Lemma load_operand_eq : load_operand = bindM read_operand load_tail.
Proof. reflexivity. Qed.

Lemma pure_load_lex_slot k : pure (load_lex_slot k).
Proof.
  unfold load_lex_slot. apply pure_bind; [apply pure_get_vm|]. intros s0.
  apply pure_bind; [apply pure_hget|]. intros ev. apply pure_bind; [apply pure_as_lexenv|]. intros eid.
  apply pure_bind; [apply pure_env_get|]. intros v.
  destruct v; try apply pure_ret.
  apply pure_bind; [apply pure_hget|]. intros ev2. apply pure_bind; [apply pure_as_lexenv|]. intros eid2.
  apply pure_env_get.
Qed.
Lemma pure_load_tail o : pure (load_tail o).
Proof.
  unfold load_tail. apply pure_bind; [apply pure_get_vm|]. intros s.
  destruct o; try apply pure_fail.
  - apply pure_load_lex_slot.
  - apply pure_ret.
  - destruct (_ <? 0)%Z; [apply pure_fail|apply pure_stack_get].
  - destruct (list_get (g_slots s) i) as [v|]; [|apply pure_panic]. destruct v; try apply pure_ret. apply pure_fail.
  - apply pure_hget.
Qed.
Lemma pres_load_tail o : pres (load_tail o) no_lexptr.
Proof.
  unfold load_tail. eapply pres_bind; [apply pres_get_vm|]. intros s Fs.
  destruct o; try apply pres_fail.
  - apply pres_load_lex_slot.
  - apply pres_ret. apply finv_acc, Fs.
  - destruct (_ <? 0)%Z; [apply pres_fail|apply pres_stack_get].
  - destruct (list_get (g_slots s) i) as [v|] eqn:Ev; [|apply pres_panic].
    pose proof (fi_glob s Fs i v Ev) as Hv.
    destruct v; try (apply pres_ret; exact Hv). apply pres_fail.
  - apply pres_hget.
Qed.

Lemma load_operand_spec (b : bool) :
  hoare (fun s => if b then no_ptr_at 1 s else True) load_operand
        (fun v s' => no_lexptr v /\ if b then no_ptr_at 0 s' else True).
Proof.
  rewrite load_operand_eq. eapply hoare_bind; [apply (read_operand_spec b)|]. intros o.
  pose proof (hoare_and _ _ _ _ _ (pres_load_tail o)
                (hoare_pure (fun s => if b then no_ptr_at 0 s else True) _ (pure_load_tail o))) as H.
  eapply hoare_conseq; [exact H| |].
  - intros s _ [_ HP]. split; [exact I|exact HP].
  - intros v s _ [Hv [HP _]]. split; assumption.
Qed.
Lemma pres_load_operand : pres load_operand no_lexptr.
Proof.
  apply (hoare_conseq _ _ _ _ _ (load_operand_spec false)); [auto|]. intros a s _ [H _]. exact H.
Qed.

Definition store_tail (v o : vcell) : M unit :=
  dom s <- get_vm;
  match o with
  | VAcc => set_acc v
  | VPtr p => hset p v
  | VBpOff off => stack_put_offset (Z.of_N (bp s) + off)%Z v
  | VGSlot slot =>
      if slot <? len (g_slots s)
      then fun s => ROk tt (with_globals s (g_bind s) (list_set (g_slots s) slot v))
      else panic 45
  | VLexSlot slot => store_lex_slot slot v
  | _ => fail E_OTHER
  end.
Lemma store_operand_eq v : store_operand v = bindM read_operand (store_tail v).
Proof. reflexivity. Qed.
Lemma pres_store_tail v o : no_lexptr v -> (forall p, o <> VPtr p) -> pres (store_tail v o) (fun _ => True).
Proof.
  intros Hv Ho. unfold store_tail. eapply pres_bind; [apply pres_get_vm|]. intros s Fs.
  destruct o; try apply pres_fail.
  - apply pres_store_lex_slot, Hv.
  - apply pres_set_acc, Hv.
  - apply pres_stack_put_offset, Hv.
  - destruct (i <? len (g_slots s)); [|apply pres_panic].
    intros s1 F1 _. cbn [post]. split; [|exact I]. apply finv_globals; assumption.
  - exfalso. exact (Ho p eq_refl).
Qed.
Lemma store_operand_spec v : no_lexptr v -> hoare (no_ptr_at 0) (store_operand v) (fun _ _ => True).
Proof.
  intros Hv. rewrite store_operand_eq. eapply hoare_bind; [apply read_dest_spec|]. intros o s F [_ Ho].
  exact (pres_store_tail v o Hv Ho s F I).
Qed.

(* MOV and MOV-immediate, after the opcode has been read *)
Lemma mov_spec :
  hoare (no_ptr_at 1) (dom v <- load_operand; dom _ <- store_operand v; ret false) (fun _ _ => True).
Proof.
  eapply hoare_bind; [apply (load_operand_spec true)|]. intros v.
  eapply hoare_bind with (Q := fun _ _ => True).
  - intros s F [Hv HP]. exact (store_operand_spec v Hv s F HP).
  - intros _. apply hoare_ret. auto.
Qed.
Lemma mov_imm_spec :
  hoare (no_ptr_at 1) (dom v <- read_operand; dom _ <- store_operand v; ret false) (fun _ _ => True).
Proof.
  eapply hoare_bind; [apply (read_operand_spec true)|]. intros v.
  eapply hoare_bind with (Q := fun _ _ => True).
  - intros s F [Hv HP]. exact (store_operand_spec v Hv s F HP).
  - intros _. apply hoare_ret. auto.
Qed.

(* ------------------------------------------------------------------ CONS, VPUSH *)
Definition T {A} : A -> Prop := fun _ => True.

Lemma cons_spec :
  pres (dom d <- pop_raw; dom dp <- hput d;
        dom a <- pop_raw; dom ap <- hput a;
        dom ai <- as_ptr ap; dom di <- as_ptr dp;
        dom p <- hput (VPair ai di); dom _ <- set_acc p; ret false) T.
Proof. pb. pb. pb. pb. pb. pb. pb. pb. pend. Qed.

Lemma list_get_app_clean l x i v :
  (forall i v, list_get l i = Some v -> no_lexptr v) -> no_lexptr x ->
  list_get (l ++ [x]) i = Some v -> no_lexptr v.
Proof.
  intros Hl Hx H. unfold list_get in *. apply nth_error_In in H. apply in_app_or in H as [H|[<-|[]]]; [|exact Hx].
  apply In_nth_error in H as [n Hn]. apply (Hl (N.of_nat n)). rewrite Nat2N.id. exact Hn.
Qed.

Lemma vpush_spec :
  pres (dom v <- pop_raw; dom vp <- hderef v;
        match vp with
        | VVec vid => dom l <- vec_get vid; dom s <- get_vm;
                      dom _ <- vec_set vid (l ++ [acc s]); dom _ <- set_acc v; ret false
        | _ => fail E_OTHER
        end) T.
Proof.
  pb. pbn vp Hvp. destruct vp; try apply pres_fail.
  pb. pb. eapply pres_bind; [apply pres_vec_set|intros ? ?].
  { intros i v. apply list_get_app_clean; [assumption|apply finv_acc; assumption]. }
  pb. pend.
Qed.

(* ------------------------------------------------------------------ CALL, TCALL *)
Section Builtins.
Variable ob : N -> M vcell.
(* the hypothesis on the builtins: each keeps the invariant (also when it fails) and
   returns a value that is not a VLexPtr *)
Definition builtins_ok : Prop := forall b, pres (run_builtin ob b) no_lexptr.
Hypothesis Hob : builtins_ok.

Lemma resolve_callee_spec : pres (resolve_callee ob) T.
Proof.
  unfold resolve_callee. pb. eapply pres_bind; [apply pres_hderef; clean|intros target Ht].
  destruct target;
    try (eapply pres_bind; [apply pres_pure, pure_to_cell|intros ? ?]; apply pres_fail).
  - (* continuation *)
    pb. pbn argc Hargc. destruct (argc =? 0); [apply pres_fail|]. pb. pb. pb. pend.
  - (* closure *) pend.
  - (* lambda *) pb. pend.
  - (* builtin *)
    eapply pres_bind; [apply Hob|intros r Hr].
    eapply pres_bind with (Q := no_lexptr).
    { destruct r; try (apply pres_hmaybe_put; exact Hr). apply pres_ret. exact I. }
    intros r' Hr'. pb. pend.
Qed.

Lemma call_spec :
  pres (dom c <- resolve_callee ob;
        match c with
        | CDone => ret false
        | CLambda lam =>
            dom s <- get_vm;
            dom _ <- push (VEp (ep s));
            dom _ <- push (VIp (fst (ip s)) (snd (ip s)));
            dom _ <- set_ip (lam, 0); ret false
        end) T.
Proof.
  eapply pres_bind; [apply resolve_callee_spec|intros c _]. destruct c; [|pend].
  do 4 pb. pend.
Qed.

Lemma tcall_copy_spec k : forall it, pres (tcall_copy k it) T.
Proof.
  induction k as [|k IH]; intros it; cbn [tcall_copy]; [pend|].
  do 4 pb. apply IH.
Qed.
Lemma tcall_rebuild_spec k saved : pres (tcall_rebuild k saved) T.
Proof.
  induction k as [|k IH]; cbn [tcall_rebuild]; [pend|].
  do 3 pb. apply IH.
Qed.
Lemma tcall_frame_spec lam : pres (tcall_frame lam) T.
Proof.
  unfold tcall_frame. pb. pbn argc Hargc. pb. pb. pbn fargc Hfargc. destruct (argc =? fargc).
  - pb. eapply pres_bind; [apply tcall_copy_spec|intros ? ?]. do 4 pb. pend.
  - do 5 pb. eapply pres_bind; [apply tcall_rebuild_spec|intros ? ?]. do 6 pb. pend.
Qed.
Lemma tcall_spec :
  pres (dom c <- resolve_callee ob;
        match c with CDone => ret false | CLambda lam => tcall_frame lam end) T.
Proof.
  eapply pres_bind; [apply resolve_callee_spec|intros c _]. destruct c; [apply tcall_frame_spec|pend].
Qed.
End Builtins.

(* ------------------------------------------------------------------ ENTER, CLOSURE *)
Lemma new_env_then {B} env (K : vcell -> M B) (R : B -> Prop) s :
  finv s -> (forall k v, list_get env k = Some v -> slot_flat s v) ->
  (forall i, pres (K (VLexEnv i)) R) ->
  post (bindM (env_new env) K s) (fun b _ => R b).
Proof.
  intros F Henv HK. unfold bindM, env_new. cbn [new_env].
  exact (HK (next_id (st s)) _ (finv_new_env s env F Henv) I).
Qed.

Lemma env_tail_spec i : pres (dom evp <- hput (VLexEnv i); dom ei <- as_ptr evp; dom _ <- set_ep ei; ret false) T.
Proof. pb. pb. pb. pend. Qed.

Lemma post_pure_bind {A B} (m : M A) (f : A -> M B) (R : B -> vm -> Prop) s :
  pure m -> finv s -> (forall a, m s = ROk a s -> post (f a s) R) -> post (bindM m f s) R.
Proof.
  intros Hp F H. unfold bindM. specialize (Hp s).
  destruct (m s) as [a s1|e msg s1|k|] eqn:E; cbn [post]; auto.
  - subst s1. exact (H a eq_refl).
  - subst s1. exact F.
Qed.

Lemma enter_spec : pres enter_frame T.
Proof.
  unfold enter_frame. pbn s Fs. eapply pres_bind; [apply pres_hderef; clean|intros target Ht].
  eapply pres_bind with (Q := T).
  { destruct target; try apply pres_fail; [apply pres_ret; exact I|]. pb. pend. }
  intros [lp cenv] _. pb. pbn l Hl. pb. pbn argc Hargc.
  destruct (negb (argc =? len (l_args l))); [apply pres_fail|].
  pb. pb. pb. pb. destruct cenv as [cep|]; [|pend].
  intros s1 F1 _.
  apply post_pure_bind; [apply pure_hget|exact F1|]. intros cev Hcev.
  apply post_pure_bind; [apply pure_as_lexenv|exact F1|]. intros ceid Hceid.
  apply post_pure_bind; [apply pure_env_slots|exact F1|]. intros cslots Hcs.
  apply post_pure_bind; [apply pure_build_lexical_environment|exact F1|]. intros env Henv.
  apply new_env_then; [exact F1| |apply env_tail_spec].
  (* the closure environment object at cep *)
  assert (Hcep : env_at s1 cep = Some (ceid, cslots)).
  { unfold hget in Hcev. apply lift_ok in Hcev as (Hcev & _). apply heap_get_ok in Hcev as (Lc & Cc).
    destruct cev; try discriminate. cbn [as_lexenv] in Hceid. unfold ret in Hceid. injection Hceid as <-.
    unfold env_slots in Hcs. destruct (tget (envs (st s1)) eid) as [l0|] eqn:El0; [|discriminate].
    injection Hcs as <-. apply env_at_some. auto. }
  pose proof F1 as [L1 _ _ _ _ _].
  intros k v Hk.
  destruct (build_lexical_environment_origin _ _ _ _ _ _ Henv k v Hk) as [Ho|[(j & ->)|(-> & c & Hc & Hcl)]].
  - apply env_at_some in Hcep as (_ & _ & Ec). exact (li_flat s1 L1 ceid cslots k v Ec Ho).
  - apply no_lexptr_slot_flat. apply (li_stack s1 L1).
  - cbn [slot_flat]. exists ceid, cslots, c. auto.
Qed.

Lemma pure_build_closure_environment m : pure (build_closure_environment m).
Proof.
  unfold build_closure_environment.
  match goal with |- pure (?g _ _) => assert (H : forall m0 acc0, pure (g m0 acc0)) end.
  { induction m0 as [|[sym src] m0 IH]; intros acc0.
    - apply pure_ret.
    - cbn. destruct src; try apply IH.
      + apply pure_bind; [apply pure_load_arg|]. intros v. apply IH.
      + apply pure_bind; [apply pure_get_vm|]. intros s0.
        apply pure_bind; [apply pure_hget|]. intros ev.
        apply pure_bind; [apply pure_as_lexenv|]. intros eid.
        apply pure_bind; [apply pure_env_get|]. intros cur.
        destruct cur; apply IH. }
  apply H.
Qed.

Lemma closure_tail_spec lp i :
  pres (dom evp <- hput (VLexEnv i); dom ei <- as_ptr evp;
        dom cp <- hput (VClosure lp ei); dom _ <- set_acc cp; ret false) T.
Proof. pb. pb. pb. pb. pend. Qed.

Lemma closure_spec : pres closure_body T.
Proof.
  unfold closure_body. pbn s Fs. pbn lp Hlp. pb. pbn l Hl.
  intros s1 F1 _.
  apply post_pure_bind; [apply pure_build_closure_environment|exact F1|]. intros env Henv.
  apply new_env_then; [exact F1| |intros i; apply closure_tail_spec].
  destruct (closure_environment_slots _ _ _ _ Henv) as (_ & HF).
  pose proof F1 as [L1 _ _ _ _ _]. pose proof L1 as [I1 I2 I3 I4 I5].
  intros k v Hk.
  destruct (Forall2_list_get _ _ _ HF k v Hk) as ([sym src] & _ & Hsrc). cbn [snd] in Hsrc.
  destruct src; cbn [closure_slot] in Hsrc; try (subst v; exact I).
  - apply no_lexptr_slot_flat. destruct (load_arg_inv _ _ _ _ Hsrc) as (j & ->). apply I4.
  - destruct Hsrc as (eid & l1 & cur & Hep & Hcur & Hv).
    destruct (lexptr_cases cur (VLexPtr (ep s1) n)) as [(q & k2 & Hq)|(Hcl & Hm)].
    + subst cur. subst v. apply env_at_some in Hep as (_ & _ & E1). exact (I3 eid l1 n _ E1 Hcur).
    + rewrite Hm in Hv. subst v. cbn [slot_flat]. exists eid, l1, cur. auto.
Qed.

(* ------------------------------------------------------------------ RET, VARARG, jumps *)
Lemma ret_spec : pres ret_body T.
Proof. unfold ret_body. do 13 pb. pb. pend. Qed.

Lemma vararg_collect_spec k : forall varargs, pres (vararg_collect k varargs) T.
Proof.
  induction k as [|k IH]; intros varargs; cbn [vararg_collect]; [pend|].
  do 5 pb. apply IH.
Qed.

Lemma vararg_spec :
  pres (dom l <- cur_lambda;
        dom req <- usub (len (l_args l)) 1;
        dom a <- stack_get_offset (-2); dom argc <- as_argc a;
        if argc <? req then fail E_OTHER else
        if argc =? req + 1 then
          dom v <- stack_get_offset (-3);
          dom ap <- hput v; dom np <- hput VNil;
          dom ai <- as_ptr ap; dom ni <- as_ptr np;
          dom pp <- hput (VPair ai ni);
          dom _ <- stack_put_offset (-3) pp; ret false
        else
          dom saved_ep <- pop_raw;
          dom saved_ip <- pop_raw;
          dom _ <- pop_raw;
          dom np <- hput VNil; dom ni <- as_ptr np;
          dom varargs <- vararg_collect (N.to_nat (argc - req)) ni;
          dom _ <- push (VPtr varargs);
          dom _ <- push (VArgc (req + 1));
          dom _ <- push saved_ip;
          dom _ <- push saved_ep; ret false) T.
Proof.
  pbn l Hl. pbn req Hreq. pb. pbn argc Hargc.
  destruct (argc <? req); [apply pres_fail|]. destruct (argc =? req + 1).
  - do 7 pb. pend.
  - do 5 pb. eapply pres_bind; [apply vararg_collect_spec|intros ? ?]. do 4 pb. pend.
Qed.

Lemma jmp_spec :
  pres (dom o <- read_operand; dom p <- as_ptr o;
        dom s <- get_vm; dom _ <- set_ip (fst (ip s), p); ret false) T.
Proof. do 4 pb. pend. Qed.
Lemma jnt_spec :
  pres (dom o <- read_operand; dom p <- as_ptr o;
        dom s <- get_vm; dom a <- hderef (acc s);
        match a with
        | VBool false => dom _ <- set_ip (fst (ip s), p); ret false
        | _ => ret false
        end) T.
Proof.
  pb. pb. pbn s Fs. pbn av Hav. destruct av as [bb| | | | | | | | | | | | | | | | | | | | | | | | | |]; try pend. destruct bb; [pend|]. pb. pend.
Qed.
Lemma push_spec : pres (dom v <- load_operand; dom _ <- push v; ret false) T.
Proof. eapply pres_bind; [apply pres_load_operand|intros v Hv]. pb. pend. Qed.
Lemma push_imm_spec : pres (dom v <- read_operand; dom _ <- push v; ret false) T.
Proof. pb. pb. pend. Qed.
Lemma push_acc_spec : pres (dom s <- get_vm; dom _ <- push (acc s); ret false) T.
Proof. pb. pb. pend. Qed.

(* ------------------------------------------------------------------ run_one *)
Theorem run_one_spec ob : builtins_ok ob -> pres (run_one ob) T.
Proof.
  intros Hob. unfold run_one. eapply hoare_bind; [apply read_opcode_spec|]. intros op.
  assert (W : forall (m : M bool), pres m T -> hoare (fun s' => is_mov op = true -> no_ptr_at 1 s') m (fun a _ => T a)).
  { intros m Hm. apply (hoare_pre _ _ _ _ Hm). auto. }
  destruct op.
  - apply W, cons_spec.
  - apply W, jmp_spec.
  - apply W, jnt_spec.
  - apply (hoare_conseq _ _ _ _ _ mov_spec); [intros s _ H; exact (H eq_refl)|intros; exact I].
  - apply (hoare_conseq _ _ _ _ _ mov_imm_spec); [intros s _ H; exact (H eq_refl)|intros; exact I].
  - apply W, push_spec.
  - apply W, push_acc_spec.
  - apply W, push_imm_spec.
  - apply W. pend.
  - apply W, vpush_spec.
  - apply W, (call_spec ob Hob).
  - apply W, closure_spec.
  - apply W, enter_spec.
  - apply W, ret_spec.
  - apply W, (tcall_spec ob Hob).
  - apply W, vararg_spec.
Qed.

(* one instruction, success path: the extension of EnvProofs.lex_inv_step to ALL opcodes *)
Corollary finv_step ob s r s' : builtins_ok ob -> finv s -> run_one ob s = ROk r s' -> finv s'.
Proof.
  intros Hob F H. pose proof (run_one_spec ob Hob s F I) as P. rewrite H in P. exact (proj1 P).
Qed.
(* ... and the error path *)
Corollary finv_step_err ob s e msg s' : builtins_ok ob -> finv s -> run_one ob s = RErr e msg s' -> finv s'.
Proof.
  intros Hob F H. pose proof (run_one_spec ob Hob s F I) as P. rewrite H in P. exact P.
Qed.

(* the instructions that never reach a builtin need no hypothesis at all *)
Definition calls (op : opcode) : bool := match op with OCallAcc | OTCallAcc => true | _ => false end.
Theorem finv_step_nocall ob s op s0 r s' :
  finv s -> read_opcode s = ROk op s0 -> calls op = false -> run_one ob s = ROk r s' -> finv s'.
Proof.
  intros F Hop Hc H.
  assert (P : post (run_one ob s) (fun a _ => T a)); [|rewrite H in P; exact (proj1 P)].
  unfold run_one. pose proof (read_opcode_spec s F I) as P0. unfold bindM. rewrite Hop in *.
  destruct P0 as [F0 HP0].
  destruct op; try discriminate Hc.
  - exact (cons_spec s0 F0 I).
  - exact (jmp_spec s0 F0 I).
  - exact (jnt_spec s0 F0 I).
  - exact (mov_spec s0 F0 (HP0 eq_refl)).
  - exact (mov_imm_spec s0 F0 (HP0 eq_refl)).
  - exact (push_spec s0 F0 I).
  - exact (push_acc_spec s0 F0 I).
  - exact (push_imm_spec s0 F0 I).
  - split; [exact F0|exact I].
  - exact (vpush_spec s0 F0 I).
  - exact (closure_spec s0 F0 I).
  - exact (enter_spec s0 F0 I).
  - exact (ret_spec s0 F0 I).
  - exact (vararg_spec s0 F0 I).
Qed.

(* ------------------------------------------------------------------ the run loop *)
Lemma stack_clean_empty (s' : vm) : stack s' = tempty -> stack_clean s'.
Proof. intros E i. unfold sget. rewrite E, tget_tempty. exact I. Qed.

Theorem run_loop_finv ob : builtins_ok ob -> forall fuel cycles count s,
  finv s ->
  match run_loop ob fuel cycles count s with
  | ROk _ s' | RErr _ _ s' => finv s'
  | _ => True
  end.
Proof.
  intros Hob. induction fuel as [|f IH]; intros cycles count s F; cbn [run_loop]; [exact I|]. cbv zeta.
  pose proof (run_one_spec ob Hob s F I) as P.
  destruct (run_one ob s) as [[|] s1|e m s1|k|]; cbn [post] in P; try exact I.
  - (* HALT *)
    destruct P as [F1 _]. pose proof (pure_to_cell (acc s1) s1) as Hp.
    destruct (to_cell (acc s1) s1) as [c s2|e m s2|k|]; try exact I; subst s2; [|exact F1].
    apply (finv_same_mem s1); [reflexivity|reflexivity|reflexivity| |apply (finv_acc s1 F1)|exact F1].
    apply stack_clean_empty. reflexivity.
  - destruct P as [F1 _].
    destruct (match count with Some c => cycles + 1 =? c | None => false end); [exact F1|].
    apply IH. exact F1.
  - (* error: registers reset, stack cleared *)
    destruct (stack_trace s1); try exact I.
    apply (finv_same_mem s1); [reflexivity|reflexivity|reflexivity| |exact I|exact P].
    apply stack_clean_empty. reflexivity.
Qed.

(* every state reached by running code from a state satisfying the invariant satisfies it,
   whatever the outcome (value, yield at the budget, error); in particular locations are
   flat there *)
Theorem run_count_finv ob fuel count s res s' :
  builtins_ok ob -> finv s -> run_count ob fuel count s = ROk res s' -> finv s'.
Proof.
  intros Hob F H. pose proof (run_loop_finv ob Hob fuel 0 count s F) as P.
  unfold run_count in H. rewrite H in P. exact P.
Qed.

Theorem finv_flat s : finv s -> flat s.
Proof. intros F. apply lex_inv_flat, (fi_lex s F). Qed.

Theorem locations_flat_reachable ob fuel count s res s' :
  builtins_ok ob -> finv s -> run_count ob fuel count s = ROk res s' ->
  forall p k q k2 eid l,
    env_at s' p = Some (eid, l) -> list_get l k = Some (VLexPtr q k2) ->
    exists e2 l2 v, env_at s' q = Some (e2, l2) /\ list_get l2 k2 = Some v /\
                    match v with VLexPtr _ _ => False | _ => True end.
Proof. intros Hob F H. exact (finv_flat s' (run_count_finv ob fuel count s res s' Hob F H)). Qed.

(* ------------------------------------------------------------------ the builtins of procedure.rs / ports.rs *)
(* [builtins_ok] reduced to the table [other_builtin] and to `eval` (which runs the compiler) *)
Lemma pres_pop_argc mn mx : pres (pop_argc mn mx) T.
Proof.
  unfold pop_argc. pbn v Hv. destruct v; try apply pres_fail.
  destruct ((n <? mn) || match mx with Some m => m <? n | None => false end); [apply pres_fail|pend].
Qed.
Lemma pres_fail_msg {A} e msg (Q : A -> Prop) : pres (fail_msg e msg) Q.
Proof. intros s F _. exact F. Qed.
Lemma pres_pop_n_cells n : forall acc0, pres (pop_n_cells n acc0) T.
Proof.
  induction n as [|n IH]; intros acc0; cbn [pop_n_cells]; [pend|].
  pb. pb. apply IH.
Qed.
Lemma pres_b_error : pres b_error no_lexptr.
Proof.
  unfold b_error. eapply pres_bind; [apply pres_pop_argc|intros argc _].
  eapply pres_bind; [apply pres_pop_n_cells|intros cs _]. apply pres_fail_msg.
Qed.
Lemma pres_b_display wr : pres (b_display wr) no_lexptr.
Proof.
  unfold b_display. eapply pres_bind; [apply pres_pop_argc|intros argc _]. pb. pb.
  intros s F _. cbn [post]. split; [|exact I]. apply (finv_regs s); auto.
Qed.
Lemma pres_dec_ip : pres dec_ip T.
Proof.
  intros s F _. unfold dec_ip. destruct (snd (ip s) =? 0); [exact I|]. cbn [post]. split; [|exact I].
  apply (finv_regs s); auto.
Qed.
Lemma pres_pop_deref : pres pop_deref no_lexptr.
Proof. unfold pop_deref. pb. pend. Qed.

Lemma pres_b_apply : pres b_apply no_lexptr.
Proof.
  unfold b_apply. eapply pres_bind; [apply pres_pop_argc|intros argc _].
  eapply pres_bind; [apply pres_pop_deref|intros rest Hrest].
  assert (G : forall (shift : nat -> M unit) (spread : nat -> vcell -> N -> M N),
            (forall k, pres (shift k) T) -> (forall f r n, no_lexptr r -> pres (spread f r n) T) ->
            pres (dom proc <- stack_get_offset (- (Z.of_N argc - 2))%Z;
                  dom _ <- shift (N.to_nat (argc - 2));
                  dom _ <- pop_raw;
                  dom s <- get_vm;
                  dom n <- spread (cell_fuel s) rest (argc - 2);
                  dom _ <- push (VArgc n);
                  dom _ <- dec_ip;
                  ret proc) no_lexptr).
  { intros shift spread Hshift Hspread. pbn proc Hproc.
    eapply pres_bind; [apply Hshift|intros ? ?]. pb. pbn s Fs.
    eapply pres_bind; [apply Hspread; exact Hrest|intros n _]. pb.
    eapply pres_bind; [apply pres_dec_ip|intros ? ?]. apply pres_ret. exact Hproc. }
  assert (Hshift : forall k, pres ((fix shift (k : nat) : M unit :=
                     match k with
                     | O => ret tt
                     | S k' => let it := Z.of_nat k' in
                               dom v <- stack_get_offset (- it)%Z;
                               dom _ <- stack_put_offset (- it - 1)%Z v;
                               shift k'
                     end) k) T).
  { induction k as [|k IH]; [pend|]. cbv zeta. pb. pb. apply IH. }
  assert (Hspread : forall f r n, no_lexptr r ->
            pres ((fix spread (fuel : nat) (r : vcell) (n : N) : M N :=
                     match fuel with
                     | O => fun _ => RNoFuel
                     | S f =>
                         match r with
                         | VPair a d => dom _ <- push (VPtr a); dom r' <- hget d; spread f r' (n + 1)
                         | VNil => ret n
                         | _ => fail E_OTHER
                         end
                     end) f r n) T).
  { induction f as [|f IH]; intros r n Hr; [intros s F _; exact I|].
    destruct r; try apply pres_fail; [pend|]. pb. pbn r' Hr'. apply IH. exact Hr'. }
  destruct rest; try apply pres_fail; exact (G _ _ Hshift Hspread).
Qed.

Lemma stack_to_sp_clean s i v : finv s -> list_get (stack_to_sp s) i = Some v -> no_lexptr v.
Proof.
  intros F H. unfold list_get, stack_to_sp in H. apply nth_error_In in H. apply in_map_iff in H as (j & <- & _).
  apply (finv_stack_clean s F).
Qed.
Lemma pres_to_continuation : pres to_continuation no_lexptr.
Proof.
  intros s F _. unfold to_continuation. cbn [new_cont post]. split; [|exact I].
  apply finv_store_upd; [exact F|reflexivity|cbn [next_id]; lia|apply (fi_code s F)|apply (fi_vecs s F)|].
  intros cid k i v E. cbn [conts] in E. rewrite tget_tset in E. destruct (next_id (st s) =? cid).
  - injection E as <-. cbn [k_stack]. apply stack_to_sp_clean, F.
  - revert E. apply (fi_conts s F).
Qed.
Lemma pres_b_call_cc : pres b_call_cc no_lexptr.
Proof.
  unfold b_call_cc. eapply pres_bind; [apply pres_pop_argc|intros argc _].
  pbn proc Hproc. pbn pv Hpv. destruct (negb (is_procedure pv)); [apply pres_fail|].
  eapply pres_bind; [apply pres_to_continuation|intros k Hk]. pb. pb. pb.
  eapply pres_bind; [apply pres_dec_ip|intros ? ?]. apply pres_ret. exact Hproc.
Qed.

Theorem builtins_ok_of ob :
  (forall b, pres (ob b) no_lexptr) -> pres b_eval no_lexptr -> builtins_ok ob.
Proof.
  intros Hob Heval b. unfold run_builtin.
  repeat match goal with
         | |- pres (if ?c then _ else _) _ => destruct c
         end;
    first [apply pres_b_apply|apply pres_b_call_cc|apply pres_b_error|exact Heval|apply pres_b_display|apply Hob].
Qed.

(* whole evaluations: Vm::eval = prepare_eval (the compiler) then the run loop *)
Lemma eval_shape (r : res unit) (k : vm -> res run_result) res s' :
  match r with
  | ROk _ s1 => k s1
  | RErr e m s1 => ROk (Failed e m None) s1
  | RPanic k0 => RPanic k0
  | RNoFuel => RNoFuel
  end = ROk res s' ->
  (exists u s1, r = ROk u s1 /\ k s1 = ROk res s') \/ (exists e m, r = RErr e m s').
Proof.
  destruct r as [u s1|e m s1|k0|]; intros H; try discriminate H.
  - left. eauto.
  - right. injection H as _ <-. eauto.
Qed.
Lemma eval_unfold ob fuel e s :
  eval ob fuel e s =
  match prepare_eval e s with
  | ROk _ s1 => run_count ob fuel None s1
  | RErr e m s1 => ROk (Failed e m None) s1
  | RPanic k0 => RPanic k0
  | RNoFuel => RNoFuel
  end.
Proof. reflexivity. Qed.
Theorem eval_finv ob fuel e s res s' :
  builtins_ok ob -> pres (prepare_eval e) T -> finv s -> eval ob fuel e s = ROk res s' -> finv s'.
Proof.
  intros Hob Hprep F H. rewrite eval_unfold in H. pose proof (Hprep s F I) as P.
  apply eval_shape in H as [(u & s1 & E & H)|(er & m & E)]; rewrite E in P.
  - exact (run_count_finv ob fuel None s1 res s' Hob (proj1 P) H).
  - exact P.
Qed.

(* ------------------------------------------------------------------ a decidable check of bc_ok *)
Definition no_lexptrb (v : vcell) : bool := match v with VLexPtr _ _ => false | _ => true end.
Fixpoint check_mov (bc : list vcell) : bool :=
  match bc with
  | [] => true
  | VOp o :: r =>
      (if is_mov o then match r with _ :: VPtr _ :: _ => false | _ => true end else true) && check_mov r
  | _ :: r => check_mov r
  end.
Definition bc_okb (bc : list vcell) : bool := forallb no_lexptrb bc && check_mov bc.

Lemma check_mov_sound bc : check_mov bc = true ->
  forall n o p, nth_error bc n = Some (VOp o) -> is_mov o = true -> nth_error bc (S (S n)) <> Some (VPtr p).
Proof.
  induction bc as [|x r IH]; intros H n o p Hn Hm; [destruct n; discriminate|].
  destruct n as [|n].
  - cbn in Hn. injection Hn as ->. cbn [check_mov] in H. rewrite Hm in H.
    apply andb_prop in H as [H _]. cbn [nth_error].
    destruct r as [|y [|z r']]; cbn [nth_error]; try discriminate. destruct z; first [discriminate H|discriminate].
  - cbn [nth_error] in Hn. assert (Hr : check_mov r = true).
    { cbn [check_mov] in H. destruct x; try exact H. apply andb_prop in H as [_ H]. exact H. }
    exact (IH Hr n o p Hn Hm).
Qed.
Lemma bc_okb_sound bc : bc_okb bc = true -> bc_ok bc.
Proof.
  intros H. apply andb_prop in H as [H1 H2]. split.
  - intros i v Hi. unfold list_get in Hi. apply nth_error_In in Hi.
    rewrite forallb_forall in H1. specialize (H1 v Hi). destruct v; try exact I. discriminate.
  - intros i o p Hi Hm. unfold list_get in *. replace (N.to_nat (i + 2)) with (S (S (N.to_nat i))) by lia.
    apply (check_mov_sound bc H2 _ o p Hi). destruct Hm as [-> | ->]; reflexivity.
Qed.

(* installing a code object whose bytecode passes the check *)
Lemma finv_new_lam s l : finv s -> bc_ok (l_bc l) -> finv (with_store s (snd (new_lam (st s) l))).
Proof.
  intros F Hl. apply finv_store_upd; [exact F|reflexivity|cbn [new_lam snd next_id]; lia| |
    apply (fi_vecs s F)|apply (fi_conts s F)].
  intros lid l0 E. cbn [new_lam snd lams] in E. rewrite tget_tset in E.
  destruct (next_id (st s) =? lid); [injection E as <-; exact Hl|revert E; apply (fi_code s F)].
Qed.

(* ------------------------------------------------------------------ example machine *)
(* (cons #t '()) by hand: MOV-immediate #t %acc; PUSH %acc; PUSH-immediate (); CONS; HALT *)
Definition fx_code : list vcell :=
  [VOp OMovImmediate; VBool true; VAcc; VOp OPushAcc; VOp OPushImmediate; VNil; VOp OCons; VOp OHalt].
Definition fx_lambda : lambda := mk_lambda true false [] [] fx_code None.
Definition fx_vm : vm :=
  let s0 := vm_empty 8 in
  let s1 := with_store s0 (snd (new_lam (st s0) fx_lambda)) in
  let '(p, h) := heap_put (hp s1) (VLambda 0) in
  with_ip (with_heap s1 h) (0, 0).
Definition fx_ob : N -> M vcell := fun _ => fail E_OTHER.

Lemma fx_finv : finv fx_vm.
Proof.
  assert (F0 : finv (vm_empty 8)) by (apply finv_empty; reflexivity).
  assert (F1 : finv (with_store (vm_empty 8) (snd (new_lam (st (vm_empty 8)) fx_lambda)))).
  { apply finv_new_lam; [exact F0|]. apply bc_okb_sound. reflexivity. }
  unfold fx_vm. cbv zeta.
  destruct (heap_put (hp (with_store (vm_empty 8) (snd (new_lam (st (vm_empty 8)) fx_lambda)))) (VLambda 0))
    as [p h] eqn:E.
  destruct (finv_heap_put _ (VLambda 0) p h F1 I E) as [F2 _].
  refine (finv_regs _ _ _ _ _ _ _ F2); reflexivity.
Qed.
