(* DigitsProofs.v — digit strings invert in every radix (C16 digits_roundtrip) *)
From Coq Require Import ZArith List Bool Lia.
From MW Require Import Model.Base Model.Digits.
Open Scope Z_scope.

Lemma of_digits_app r l1 l2 :
  of_digits r (l1 ++ l2) = fold_left (fun a d => a * r + d) l2 (of_digits r l1).
Proof. unfold of_digits. apply fold_left_app. Qed.

Lemma of_digits_snoc r l d : of_digits r (l ++ [d]) = of_digits r l * r + d.
Proof. rewrite of_digits_app. reflexivity. Qed.

Definition digits_ok (r : Z) (l : list Z) : Prop := Forall (fun d => 0 <= d < r) l.

Lemma to_digits_fuel_spec r (Hr : 2 <= r) fuel :
  forall n acc, 0 <= n < 2 ^ Z.of_nat fuel ->
  exists l, to_digits_fuel fuel r n acc = l ++ acc /\ of_digits r l = n /\ digits_ok r l
            /\ (fuel <> O -> l <> []) /\ (0 < n -> exists d l', l = d :: l' /\ 0 < d).
Proof.
  induction fuel as [|f IH]; intros n acc Hn.
  - exists []. change (2 ^ Z.of_nat 0) with 1 in Hn. assert (n = 0) by lia. subst. cbn [to_digits_fuel app].
    split; [reflexivity|]. split; [reflexivity|]. split; [constructor|]. split; [congruence|]. intros H; inversion H.
  - cbn [to_digits_fuel]. destruct (n <? r) eqn:E.
    + apply Z.ltb_lt in E. exists [n].
      split; [reflexivity|]. split; [unfold of_digits; cbn [fold_left]; lia|].
      split; [constructor; [lia|constructor]|]. split; [congruence|].
      intros Hp. exists n, []. split; [reflexivity|lia].
    + apply Z.ltb_ge in E.
      assert (Hq : 0 <= n / r < 2 ^ Z.of_nat f).
      { split. apply Z.div_pos; lia.
        apply Z.div_lt_upper_bound; [lia|].
        rewrite Nat2Z.inj_succ, Z.pow_succ_r in Hn by lia.
        assert (2 * 2 ^ Z.of_nat f <= r * 2 ^ Z.of_nat f) by (apply Z.mul_le_mono_nonneg_r; lia). lia. }
      destruct (IH (n / r) (n mod r :: acc) Hq) as (l & Hl & Hv & Hok & _ & Hpos).
      exists (l ++ [n mod r]).
      split; [rewrite Hl, <- app_assoc; reflexivity|].
      split; [rewrite of_digits_snoc, Hv; pose proof (Z.div_mod n r); lia|].
      split. { apply Forall_app. split; [assumption|]. constructor; [|constructor].
               apply Z.mod_pos_bound. lia. }
      split. { intros _ H. destruct l; discriminate. }
      intros _. assert (0 < n / r) by (apply Z.div_str_pos; lia).
      destruct (Hpos H) as (d & l' & -> & Hd). exists d, (l' ++ [n mod r]). split; [reflexivity|assumption].
Qed.

Lemma log2_fuel n : 0 <= n -> n < 2 ^ Z.of_nat (S (Z.to_nat (Z.log2 n))).
Proof.
  intros Hn. rewrite Nat2Z.inj_succ, Z2Nat.id by apply Z.log2_nonneg.
  destruct (Z.eq_dec n 0) as [->|Hz]. reflexivity.
  apply Z.log2_spec. lia.
Qed.

Lemma to_digits_spec r n : 2 <= r -> 0 <= n ->
  of_digits r (to_digits r n) = n /\ digits_ok r (to_digits r n) /\ to_digits r n <> []
  /\ (0 < n -> exists d l', to_digits r n = d :: l' /\ 0 < d).
Proof.
  intros Hr Hn. unfold to_digits.
  destruct (to_digits_fuel_spec r Hr (S (Z.to_nat (Z.log2 n))) n []) as (l & Hl & Hv & Hok & Hne & Hpos).
  { split. assumption. apply log2_fuel. assumption. }
  rewrite Hl, app_nil_r. repeat split; auto.
Qed.

(* C16 digits_roundtrip *)
Theorem digits_roundtrip r n : 2 <= r -> 0 <= n -> of_digits r (to_digits r n) = n.
Proof. intros. apply to_digits_spec; assumption. Qed.

(* ------------------------------------------------------------ characters *)
Lemma char_digit_digit_char d : 0 <= d < 36 -> char_digit (digit_char d) = Some d.
Proof.
  intros Hd.
  assert (Hall : forallb (fun k => match char_digit (digit_char (Z.of_nat k)) with
                                   | Some d' => d' =? Z.of_nat k | None => false end) (seq 0 36) = true)
    by (vm_compute; reflexivity).
  rewrite forallb_forall in Hall.
  specialize (Hall (Z.to_nat d)). rewrite Z2Nat.id in Hall by lia.
  assert (Hin : In (Z.to_nat d) (seq 0 36)) by (apply in_seq; lia).
  specialize (Hall Hin). destruct (char_digit (digit_char d)); [|discriminate].
  apply Z.eqb_eq in Hall. congruence.
Qed.

Lemma to_digit_digit_char r d : 0 <= d < r -> r <= 36 -> to_digit r (digit_char d) = Some d.
Proof.
  intros Hd Hr. unfold to_digit. rewrite char_digit_digit_char by lia.
  destruct (d <? r) eqn:E; [reflexivity|]. apply Z.ltb_ge in E. lia.
Qed.

Lemma digits_value_acc r l : r <= 36 -> digits_ok r l -> forall acc,
  digits_value r (map digit_char l) acc = Some (fold_left (fun a d => a * r + d) l acc).
Proof.
  intros Hr Hok. induction Hok as [|d l Hd _ IH]; intros acc; cbn [map digits_value fold_left].
  reflexivity. rewrite to_digit_digit_char by assumption. apply IH.
Qed.

(* reading back the unsigned rendering *)
Lemma digits_value_show r n : 2 <= r <= 36 -> 0 <= n ->
  digits_value r (show_nat_radix r n) 0 = Some n.
Proof.
  intros Hr Hn. unfold show_nat_radix.
  destruct (to_digits_spec r n) as (Hv & Hok & _); [lia|lia|].
  rewrite digits_value_acc by (lia || assumption). f_equal. exact Hv.
Qed.

(* the characters a rendering consists of *)
Definition is_digit_char (c : cp) : Prop := exists d, 0 <= d < 36 /\ c = digit_char d.

Lemma show_nat_radix_chars r n : 2 <= r <= 36 -> 0 <= n -> Forall is_digit_char (show_nat_radix r n).
Proof.
  intros Hr Hn. unfold show_nat_radix.
  destruct (to_digits_spec r n) as (_ & Hok & _); [lia|lia|].
  apply Forall_map. eapply Forall_impl; [|exact Hok]. intros d Hd. cbv beta in Hd. exists d. split; [lia|reflexivity].
Qed.

Lemma show_nat_radix_nonempty r n : 2 <= r -> 0 <= n -> show_nat_radix r n <> [].
Proof.
  intros Hr Hn. unfold show_nat_radix.
  destruct (to_digits_spec r n) as (_ & _ & Hne & _); [lia|lia|].
  destruct (to_digits r n); [congruence|discriminate].
Qed.

(* digit characters are ASCII alphanumerics: not '-', '+', '/', '_', '.' *)
Lemma digit_char_range d : 0 <= d < 36 ->
  let c := digit_char d in ((48 <= c <= 57) \/ (97 <= c <= 122))%N.
Proof.
  intros Hd. unfold digit_char. destruct (d <? 10) eqn:E.
  - apply Z.ltb_lt in E. left. lia.
  - apply Z.ltb_ge in E. right. lia.
Qed.

(* lower-case hexadecimal digit characters: what radix <= 16 renderings consist of *)
Definition hexdigit (c : cp) : Prop := exists d, 0 <= d < 16 /\ c = digit_char d.

Lemma hexdigit_is_digit_char c : hexdigit c -> is_digit_char c.
Proof. intros (d & Hd & ->). exists d. split; [lia|reflexivity]. Qed.

Lemma show_nat_radix_hex r n : 2 <= r <= 16 -> 0 <= n ->
  exists c l, show_nat_radix r n = c :: l /\ hexdigit c /\ Forall hexdigit l.
Proof.
  intros Hr Hn. unfold show_nat_radix.
  destruct (to_digits_spec r n) as (_ & Hok & Hne & _); [lia|lia|].
  destruct (to_digits r n) as [|d l]; [congruence|].
  inversion Hok; subst. exists (digit_char d), (map digit_char l). split; [reflexivity|].
  split. exists d. split; [lia|reflexivity].
  apply Forall_map. eapply Forall_impl; [|eassumption]. intros x Hx. cbv beta in Hx.
  exists x. split; [lia|reflexivity].
Qed.

Lemma show_nat_radix_hex_all r n : 2 <= r <= 16 -> 0 <= n -> Forall hexdigit (show_nat_radix r n).
Proof. intros Hr Hn. destruct (show_nat_radix_hex r n Hr Hn) as (c & l & -> & Hc & Hl). now constructor. Qed.
