(* CompileCorrect2.v — C01: semantic compile-and-run correctness, extended with LOCAL VARIABLES
   of lambda expressions applied in place (what `let` expands to):

     e ::= c | (quote d) | (if e e e) | (if e e) | x | (define x e) | (set! x e)
         | (e0 e1 ... en)                          operator evaluates to a builtin procedure
         | ((lambda (x1 ... xn) body) e1 ... en)   body: again an expression of the fragment

   A variable is a parameter of the innermost enclosing lambda or a global; `define` and `set!`
   act on globals only; no lambda captures a variable of an enclosing lambda.

   How marwood compiles this (compile.rs:424-460, environment.rs:94-125): EVERY parameter of a
   lambda is an entry (sym, Argument i) of its environment map, so a parameter reference is
   MOV (lexical slot i) %acc — never a stack-relative operand; (lambda ...) is MOV_IMMEDIATE
   <lambda> %acc; CLOSURE %acc (a closure over a new environment of undefined slots); the
   application is CALL %acc, or TCALL %acc in tail position; the callee's ENTER copies the n
   arguments from the stack into a NEW activation environment and sets %ep; RET pops the frame.

   Main results: compile_correct2 (induction over the extended fragment; non-tail code ends at
   the next instruction with sp/bp/ep and the stack below unchanged; tail code may instead
   leave through a TCALL, and then ends in the state the RET of the current frame produces),
   eval_fragment2 (Vm::eval reaches HALT with the reference value in %acc).               *)
From Coq Require Import String Lia FMapPositive.
From MW Require Import Model.Base Model.F64 Model.Num Model.Datum Model.TransformDef Model.Transform
  Model.VmTypes Model.Heap Model.Gc Model.VmBase Model.Compile Model.Vm
  Proofs.VmProofs0 Proofs.GcProofs Proofs.SymtabProofs Proofs.QuoteHeapProofs
  Proofs.CompileProofs Proofs.RunProofs Proofs.CompileCorrect Proofs.TailProofs Proofs.FrameSteps.
From MW Require Proofs.ScopeProofs.
Open Scope N_scope.

Arguments N.add : simpl never.
Arguments N.sub : simpl never.
Arguments N.mul : simpl never.
Arguments N.eqb : simpl never.
Arguments N.ltb : simpl never.
Arguments N.leb : simpl never.

(* ============================================================ the extended fragment *)
Inductive expr2 :=
| XConst (c : cell)
| XQuote (d : cell)
| XIf (c a b : expr2)
| XIf1 (c a : expr2)
| XVar (x : text)
| XDefine (x : text) (e : expr2)
| XSet (x : text) (e : expr2)
| XApp (f : expr2) (args : list expr2)
| XLet (ps : list text) (body : expr2) (args : list expr2).

Definition LAMBDA_ : cell := CSym (S_ "lambda").
Definition syms_of (ps : list text) : cell := fold_right (fun x c => CPair (CSym x) c) CNil ps.
Definition lam_cell (ps : list text) (body : cell) : cell :=
  CPair LAMBDA_ (CPair (syms_of ps) (CPair body CNil)).

Fixpoint cell_of2 (e : expr2) : cell :=
  match e with
  | XConst c => c
  | XQuote d => quote_of d
  | XIf c a b => CPair IF_ (CPair (cell_of2 c) (CPair (cell_of2 a) (CPair (cell_of2 b) CNil)))
  | XIf1 c a => CPair IF_ (CPair (cell_of2 c) (CPair (cell_of2 a) CNil))
  | XVar x => CSym x
  | XDefine x e => CPair DEFINE_ (CPair (CSym x) (CPair (cell_of2 e) CNil))
  | XSet x e => CPair SET_ (CPair (CSym x) (CPair (cell_of2 e) CNil))
  | XApp f args => CPair (cell_of2 f) (fold_right CPair CNil (map cell_of2 args))
  | XLet ps body args => CPair (lam_cell ps (cell_of2 body)) (fold_right CPair CNil (map cell_of2 args))
  end.

(* the index of the first parameter named x *)
Definition pindex (x : text) (ps : list text) : option N := ScopeProofs.fidx (fun y => text_eqb y x) ps.

Definition is_define (e : expr2) : bool := match e with XDefine _ _ => true | _ => false end.

(* the compiler's own free-symbol analysis of the lambda expression finds no parameter of
   the enclosing lambda: nothing is captured *)
Definition nocapture (ps : list text) (lc : cell) : Prop :=
  exists fs, free_symbols lc = Ok (map CSym fs) /\ forall x, In x fs -> pindex x ps = None.

Fixpoint wf_expr2 (e : expr2) (ps : list text) {struct e} : Prop :=
  match e with
  | XConst c => self_eval c = true /\ heap_datum c
  | XQuote d => heap_datum d
  | XIf c a b => wf_expr2 c ps /\ wf_expr2 a ps /\ wf_expr2 b ps
  | XIf1 c a => wf_expr2 c ps /\ wf_expr2 a ps
  | XVar x => is_primitive_symbol (CSym x) = false
  | XDefine x e | XSet x e => is_primitive_symbol (CSym x) = false /\ pindex x ps = None /\ wf_expr2 e ps
  | XApp f args => special_head (cell_of2 f) = false /\ wf_expr2 f ps /\
                   (fix all (l : list expr2) : Prop := match l with [] => True | x :: r => wf_expr2 x ps /\ all r end) args
  | XLet ps' body args =>
      length args = length ps' /\ (forall x, In x ps' -> is_primitive_symbol (CSym x) = false) /\
      is_define body = false /\ nocapture ps (lam_cell ps' (cell_of2 body)) /\
      wf_expr2 body ps' /\
      (fix all (l : list expr2) : Prop := match l with [] => True | x :: r => wf_expr2 x ps /\ all r end) args
  end.

Lemma wf2_all ps args :
  (fix all (l : list expr2) : Prop := match l with [] => True | x :: r => wf_expr2 x ps /\ all r end) args
  <-> Forall (fun x => wf_expr2 x ps) args.
Proof.
  induction args as [|x r IH]; [split; constructor|]. split.
  - intros [A B]. constructor; [exact A|apply IH; exact B].
  - intros H. inversion H; subst. split; [assumption|apply IH; assumption].
Qed.

Section expr2_ind2.
Variable P : expr2 -> Prop.
Hypothesis Hconst : forall c, P (XConst c).
Hypothesis Hquote : forall d, P (XQuote d).
Hypothesis Hif : forall c a b, P c -> P a -> P b -> P (XIf c a b).
Hypothesis Hif1 : forall c a, P c -> P a -> P (XIf1 c a).
Hypothesis Hvar : forall x, P (XVar x).
Hypothesis Hdef : forall x e, P e -> P (XDefine x e).
Hypothesis Hset : forall x e, P e -> P (XSet x e).
Hypothesis Happ : forall f args, P f -> Forall P args -> P (XApp f args).
Hypothesis Hlet : forall ps body args, P body -> Forall P args -> P (XLet ps body args).
Fixpoint expr2_ind2 (e : expr2) : P e :=
  match e with
  | XConst c => Hconst c
  | XQuote d => Hquote d
  | XIf c a b => Hif c a b (expr2_ind2 c) (expr2_ind2 a) (expr2_ind2 b)
  | XIf1 c a => Hif1 c a (expr2_ind2 c) (expr2_ind2 a)
  | XVar x => Hvar x
  | XDefine x e => Hdef x e (expr2_ind2 e)
  | XSet x e => Hset x e (expr2_ind2 e)
  | XApp f args => Happ f args (expr2_ind2 f)
      ((fix go (l : list expr2) : Forall P l :=
          match l with [] => Forall_nil P | x :: r => Forall_cons x (expr2_ind2 x) (go r) end) args)
  | XLet ps body args => Hlet ps body args (expr2_ind2 body)
      ((fix go (l : list expr2) : Forall P l :=
          match l with [] => Forall_nil P | x :: r => Forall_cons x (expr2_ind2 x) (go r) end) args)
  end.
End expr2_ind2.

(* ============================================================ reference semantics *)
Section Sem2.
Variable ob : N -> M vcell.
Variable bsem : N -> list rval -> option rval.
Notation run_one := (Vm.run_one ob).
Notation steps := (RunProofs.steps ob).
Notation run_builtin := (Vm.run_builtin ob).

(* [ref_eval2 ps lv rho e r rho']: in the body of a lambda with parameters ps bound to the
   values lv (top level: both empty) and the global environment rho, e has the value r and
   leaves the global environment rho'.  Call by value, operands left to right, then the
   operator; the body of an applied lambda sees ITS parameters and the globals only. *)
Inductive ref_eval2 : list text -> list rval -> env -> expr2 -> rval -> env -> Prop :=
| R2_const ps lv rho c : ref_eval2 ps lv rho (XConst c) (RDatum c) rho
| R2_quote ps lv rho d : ref_eval2 ps lv rho (XQuote d) (RDatum d) rho
| R2_local ps lv rho x i r : pindex x ps = Some i -> nth_error lv (N.to_nat i) = Some r ->
    ref_eval2 ps lv rho (XVar x) r rho
| R2_global ps lv rho x r : pindex x ps = None -> rho x = Some r -> r <> RDatum CUndef ->
    ref_eval2 ps lv rho (XVar x) r rho
| R2_if_t ps lv rho c a b rc rho1 r rho2 :
    ref_eval2 ps lv rho c rc rho1 -> is_false rc = false -> ref_eval2 ps lv rho1 a r rho2 ->
    ref_eval2 ps lv rho (XIf c a b) r rho2
| R2_if_f ps lv rho c a b rc rho1 r rho2 :
    ref_eval2 ps lv rho c rc rho1 -> is_false rc = true -> ref_eval2 ps lv rho1 b r rho2 ->
    ref_eval2 ps lv rho (XIf c a b) r rho2
| R2_if1_t ps lv rho c a rc rho1 r rho2 :
    ref_eval2 ps lv rho c rc rho1 -> is_false rc = false -> ref_eval2 ps lv rho1 a r rho2 ->
    ref_eval2 ps lv rho (XIf1 c a) r rho2
| R2_if1_f ps lv rho c a rc rho1 :
    ref_eval2 ps lv rho c rc rho1 -> is_false rc = true -> ref_eval2 ps lv rho (XIf1 c a) (RDatum CVoid) rho1
| R2_define ps lv rho x e r rho1 :
    ref_eval2 ps lv rho e r rho1 -> ref_eval2 ps lv rho (XDefine x e) (RDatum CVoid) (upd rho1 x r)
| R2_set ps lv rho x e r rho1 old :
    ref_eval2 ps lv rho e r rho1 -> rho1 x = Some old -> ref_eval2 ps lv rho (XSet x e) (RDatum CVoid) (upd rho1 x r)
| R2_app ps lv rho f args rs rho1 b rho2 r :
    ref_evals2 ps lv rho args rs rho1 -> ref_eval2 ps lv rho1 f (RBuiltin b) rho2 -> bsem b rs = Some r ->
    ref_eval2 ps lv rho (XApp f args) r rho2
| R2_let ps lv rho ps' body args rs rho1 r rho2 :
    ref_evals2 ps lv rho args rs rho1 -> ref_eval2 ps' rs rho1 body r rho2 ->
    ref_eval2 ps lv rho (XLet ps' body args) r rho2
with ref_evals2 : list text -> list rval -> env -> list expr2 -> list rval -> env -> Prop :=
| R2_nil ps lv rho : ref_evals2 ps lv rho [] [] rho
| R2_cons ps lv rho x r rho1 xs rs rho2 :
    ref_eval2 ps lv rho x r rho1 -> ref_evals2 ps lv rho1 xs rs rho2 -> ref_evals2 ps lv rho (x :: xs) (r :: rs) rho2.

(* ============================================================ static context: the lambda header *)
(* [pname s a x]: the operand a is the interned symbol x *)
Definition pname (s : vm) (a : vcell) (x : text) : Prop :=
  exists p, a = VPtr p /\ allocated (hp s) p /\ cell_at (hp s) p = VSym x.
Lemma pname_ext s s' a x : cext s s' -> pname s a x -> pname s' a x.
Proof.
  intros X (p & -> & A & C). destruct (ce_heap _ _ X p A) as [A' C']. exists p. repeat split; try apply A'. congruence.
Qed.
Lemma pnames_ext s s' aps ps : cext s s' -> Forall2 (pname s) aps ps -> Forall2 (pname s') aps ps.
Proof. intros X H. induction H; constructor; [eapply pname_ext; eassumption|assumption]. Qed.

(* the lambda under construction has the parameters ps and an environment map that consists
   of them (nothing captured) *)
Definition hdr (l : lambda) (ps : list text) (s : vm) : Prop :=
  l_envmap l = ScopeProofs.enum_args (l_args l) 0 /\ Forall2 (pname s) (l_args l) ps.
Lemma hdr_ext l ps s s' : cext s s' -> hdr l ps s -> hdr l ps s'.
Proof. intros X [E F]. split; [exact E|eapply pnames_ext; eassumption]. Qed.
Lemma hdr_same l l' ps s : same_hdr l l' -> hdr l ps s -> hdr l' ps s.
Proof. intros (_ & _ & E & A & _) [H1 H2]. split; rewrite ?E, ?A; assumption. Qed.
Lemma top_hdr_hdr l s : top_hdr l -> hdr l [] s.
Proof. intros [E A]. split; rewrite ?E, ?A; [reflexivity|constructor]. Qed.

Lemma fidx_names s aps ps a x : heap_inv (hp s) -> Forall2 (pname s) aps ps ->
  allocated (hp s) a -> cell_at (hp s) a = VSym x ->
  ScopeProofs.fidx (ScopeProofs.sym_is (VPtr a)) aps = pindex x ps.
Proof.
  intros HI F A C. unfold pindex. induction F as [|v y aps ps (p & -> & Ap & Cp) _ IH]; [reflexivity|].
  rewrite !ScopeProofs.fidx_cons, IH. unfold ScopeProofs.sym_is at 1. cbn [vptr_eqb].
  pose proof (same_name_iff_same_cell (hp s) p a y x HI Ap A Cp C) as Hiff.
  destruct (N.eqb_spec p a) as [E|E]; destruct (text_eqb y x) eqn:T; try reflexivity.
  - apply Hiff in E. subst y. rewrite text_eqb_refl in T. discriminate.
  - apply text_eqb_eq in T. apply Hiff in T. contradiction.
Qed.

(* where a variable lives *)
Lemma location_local l ps s a x i : hdr l ps s -> heap_inv (hp s) ->
  allocated (hp s) a -> cell_at (hp s) a = VSym x -> pindex x ps = Some i ->
  location_operand l (VPtr a) s = ROk (VLexSlot i) s.
Proof.
  intros [E F] HI A C Hi. unfold location_operand, binding_location.
  rewrite ScopeProofs.envmap_slot_fidx, E, ScopeProofs.fidx_is_sym_fst, ScopeProofs.enum_args_fst.
  rewrite (fidx_names s _ ps a x HI F A C), Hi. reflexivity.
Qed.
Lemma location_global l ps s a x : hdr l ps s -> heap_inv (hp s) ->
  allocated (hp s) a -> cell_at (hp s) a = VSym x -> pindex x ps = None ->
  location_operand l (VPtr a) s = (dom slot <- get_binding a; ret (VGSlot slot)) s.
Proof.
  intros [E F] HI A C Hi. unfold location_operand, binding_location.
  rewrite ScopeProofs.envmap_slot_fidx, E, ScopeProofs.fidx_is_sym_fst, ScopeProofs.enum_args_fst.
  rewrite (fidx_names s _ ps a x HI F A C), Hi.
  change (find_index (fun a0 => vptr_eqb a0 (VPtr a)) (l_args l) 0)
    with (ScopeProofs.fidx (ScopeProofs.sym_is (VPtr a)) (l_args l)).
  rewrite (fidx_names s _ ps a x HI F A C), Hi. reflexivity.
Qed.

(* ============================================================ compiling a lambda expression *)
Lemma compile_lambda_eq f l tail ps b s :
  compile_expression (S f) l tail (lam_cell ps b) s =
  (dom (formals, vararg) <- (if is_nil (syms_of ps) then ret ([], false) else compile_formals (syms_of ps) []);
   dom free <- lift (free_symbols (lam_cell ps b));
   dom free_refs <- put_cells free;
   dom internal <- lift (internally_defined_symbols (CPair b CNil));
   dom internal_refs <- put_cells internal;
   let lam0 := set_desc (lambda_from_iof formals internal_refs l free_refs vararg) (syms_of ps) in
   let lam1 := if vararg then emit_op lam0 OVarArg else lam0 in
   let lam2 := emit_op lam1 OEnter in
   dom lam3 <- (dom lam' <- compile_expression f lam2 true b; ret lam');
   dom lp <- put_lambda (emit_op lam3 ORet);
   ret (emit_op (emit (emit (emit_op l OMovImmediate) lp) VAcc) OClosureAcc)) s.
Proof. reflexivity. Qed.

Lemma syms_of_nil_iff ps : is_nil (syms_of ps) = match ps with [] => true | _ => false end.
Proof. destruct ps; reflexivity. Qed.

Lemma compile_formals_ok ps : (forall x, In x ps -> is_primitive_symbol (CSym x) = false) ->
  forall acc s, minv s ->
  exists aps s', compile_formals (syms_of ps) acc s = ROk (rev acc ++ aps, false) s' /\ minv s' /\ cext s s' /\
    same_regs s s' /\ Forall2 (pname s') aps ps.
Proof.
  induction ps as [|x ps IH]; intros Hp acc s MI.
  - exists [], s. cbn [syms_of fold_right compile_formals]. rewrite app_nil_r.
    split; [reflexivity|]. split; [exact MI|]. split; [apply cext_refl|]. split; [apply same_regs_refl|constructor].
  - cbn [syms_of fold_right compile_formals is_symbol negb]. fold (syms_of ps).
    rewrite (Hp x (or_introl eq_refl)).
    destruct (put_sym_m_ok x s MI) as (a & s1 & E1 & MI1 & X1 & R1 & A & C & _ & _).
    destruct (IH (fun y Hy => Hp y (or_intror Hy)) (VPtr a :: acc) s1 MI1) as (aps & s2 & E2 & MI2 & X2 & R2 & F2).
    exists (VPtr a :: aps), s2. unfold bindM at 1. rewrite E1, E2. cbn [rev]. rewrite <- app_assoc.
    split; [reflexivity|]. split; [exact MI2|]. split; [eapply cext_trans; eassumption|].
    split; [eapply same_regs_trans; eassumption|]. constructor; [|exact F2].
    eapply pname_ext; [exact X2|]. exists a. auto.
Qed.

Lemma formals_ok ps s : (forall x, In x ps -> is_primitive_symbol (CSym x) = false) -> minv s ->
  exists aps s', (if is_nil (syms_of ps) then ret ([], false) else compile_formals (syms_of ps) []) s
                 = ROk (aps, false) s' /\ minv s' /\ cext s s' /\ same_regs s s' /\ Forall2 (pname s') aps ps.
Proof.
  intros Hp MI. destruct ps as [|x ps].
  - exists [], s. split; [reflexivity|]. split; [exact MI|]. split; [apply cext_refl|]. split; [apply same_regs_refl|constructor].
  - rewrite syms_of_nil_iff. apply (compile_formals_ok (x :: ps) Hp [] s MI).
Qed.

Lemma put_cells_ok fs : forall s, minv s ->
  exists ptrs s', put_cells (map CSym fs) s = ROk ptrs s' /\ minv s' /\ cext s s' /\ same_regs s s' /\
    Forall2 (pname s') ptrs fs.
Proof.
  induction fs as [|x fs IH]; intros s MI.
  - exists [], s. split; [reflexivity|]. split; [exact MI|]. split; [apply cext_refl|]. split; [apply same_regs_refl|constructor].
  - cbn [map put_cells].
    destruct (put_sym_m_ok x s MI) as (a & s1 & E1 & MI1 & X1 & R1 & A & C & _ & _).
    destruct (IH s1 MI1) as (ptrs & s2 & E2 & MI2 & X2 & R2 & F2).
    exists (VPtr a :: ptrs), s2. unfold bindM at 1. rewrite E1. unfold bindM at 1. rewrite E2.
    split; [reflexivity|]. split; [exact MI2|]. split; [eapply cext_trans; eassumption|].
    split; [eapply same_regs_trans; eassumption|]. constructor; [|exact F2].
    eapply pname_ext; [exact X2|]. exists a. auto.
Qed.

(* nothing is captured: the free symbols of the lambda are not parameters of the enclosing one *)
Lemma free_part_nil l ps s frefs fs : hdr l ps s -> heap_inv (hp s) -> Forall2 (pname s) frefs fs ->
  (forall x, In x fs -> pindex x ps = None) -> ScopeProofs.free_part l frefs = [].
Proof.
  intros [E F] HI Fr Hn. unfold ScopeProofs.free_part.
  induction Fr as [|v x frefs fs (a & -> & A & C) _ IH]; [reflexivity|]. cbn [flat_map].
  rewrite IH by (intros y Hy; apply Hn; right; exact Hy).
  rewrite ScopeProofs.envmap_slot_fidx, E, ScopeProofs.fidx_is_sym_fst, ScopeProofs.enum_args_fst.
  rewrite (fidx_names s _ ps a x HI F A C), (Hn x (or_introl eq_refl)).
  change (find_index (fun a0 => vptr_eqb a0 (VPtr a)) (l_args l) 0)
    with (ScopeProofs.fidx (ScopeProofs.sym_is (VPtr a)) (l_args l)).
  rewrite (fidx_names s _ ps a x HI F A C), (Hn x (or_introl eq_refl)). reflexivity.
Qed.

(* a body that is not a definition has no internal definitions *)
Lemma sym_eq_pair a d n : sym_eq (CPair a d) n = false.
Proof. reflexivity. Qed.
Lemma ids_body body ps : wf_expr2 body ps -> is_define body = false ->
  internally_defined_symbols (CPair (cell_of2 body) CNil) = Ok [].
Proof.
  intros Hwf Hd. unfold internally_defined_symbols. cbn [cell_iter].
  destruct body; try discriminate; cbn [cell_of2 ids_loop]; try reflexivity.
  - destruct Hwf as [Hs _]. destruct c; try discriminate; reflexivity.
  - cbn [wf_expr2] in Hwf. destruct Hwf as (Hsp & _). unfold special_head in Hsp.
    apply Bool.orb_false_iff in Hsp as [Hsp _]. apply Bool.orb_false_iff in Hsp as [Hsp _].
    apply Bool.orb_false_iff in Hsp as [Hsp _]. apply Bool.orb_false_iff in Hsp as [Hsp _].
    apply Bool.orb_false_iff in Hsp as [Hsp _]. apply Bool.orb_false_iff in Hsp as [Hsp _].
    apply Bool.orb_false_iff in Hsp as [Hsp _]. rewrite Hsp. reflexivity.
Qed.

(* ============================================================ dynamic context *)
(* what the code of an expression leaves unchanged: [frame], and the existing environments *)
Record frame2 (m m' : vm) : Prop := {
  f2_frame : frame m m';
  f2_envs : forall j, j < next_id (st m) -> tget (envs (st m')) j = tget (envs (st m)) j
}.
Lemma frame2_refl m : frame2 m m.
Proof. split; [apply frame_refl|auto]. Qed.
Lemma frame2_trans a b c : frame2 a b -> frame2 b c -> frame2 a c.
Proof.
  intros [F1 E1] [F2 E2]. split; [eapply frame_trans; eassumption|].
  intros j Hj. rewrite E2, E1; auto. destruct (ce_store _ _ (fr_ext _ _ F1)). lia.
Qed.
Lemma same_mem_frame2 m m' : same_mem m m' -> frame2 m m'.
Proof.
  intros SM. split; [apply same_mem_frame; exact SM|]. destruct SM as (_ & Es & _). intros j _. rewrite Es. reflexivity.
Qed.
Lemma frame2_rext m m' : frame2 m m' -> rext m m'.
Proof. intros [F E]. split; [apply F|exact E]. Qed.

(* the parameters of the running lambda: slot i of the environment %ep points to holds a
   representation of the i-th value *)
Definition lrel (lv : list rval) (m : vm) : Prop :=
  forall i r, nth_error lv (N.to_nat i) = Some r ->
  exists eid slots v, allocated (hp m) (ep m) /\ cell_at (hp m) (ep m) = VLexEnv eid /\
    eid < next_id (st m) /\ tget (envs (st m)) eid = Some slots /\ list_get slots i = Some v /\
    vrep v r (hp m) (st m).
Lemma lrel_nil m : lrel [] m.
Proof. intros i r H. destruct (N.to_nat i); discriminate. Qed.
Lemma lrel_rext lv m m' : rext m m' -> ep m' = ep m -> lrel lv m -> lrel lv m'.
Proof.
  intros [X E] Hep L i r Hi. destruct (L i r Hi) as (eid & slots & v & A & C & Lt & T & G & V).
  destruct (ce_heap _ _ X _ A) as [A' C']. exists eid, slots, v. rewrite Hep.
  split; [exact A'|]. split; [congruence|]. split; [destruct (ce_store _ _ X); lia|].
  split; [rewrite E; assumption|]. split; [exact G|]. eapply vrep_ext; [exact V|apply cext_ext; exact X].
Qed.
Lemma lrel_frame2 lv m m' : frame2 m m' -> lrel lv m -> lrel lv m'.
Proof. intros F. apply lrel_rext; [apply frame2_rext; exact F|apply F]. Qed.

Lemma vrep_not_lexptr v r h s : vrep v r h s -> forall e j, v <> VLexPtr e j.
Proof.
  intros H e j ->. destruct r as [c|b]; cbn [vrep] in H.
  - destruct H as [R _]. destruct (R h s (ext_refl h s)) as [n Hn]. specialize (Hn (S n) ltac:(lia)). discriminate.
  - destruct H as (p & E & _). discriminate.
Qed.

(* the current frame (TailProofs.frame_at) lies below %sp *)
Definition tframe (m : vm) : Prop := exists k e i b, frame_at m k e i b /\ bp m + 4 <= sp m.
Lemma frame_at_keep m m' k e i b : frame_at m k e i b -> bp m + 4 <= sp m -> bp m' = bp m ->
  (forall j, j <= sp m -> sget m' j = sget m j) -> frame_at m' k e i b.
Proof.
  intros (H1 & H2 & H3 & H4 & H5) Hsp Hb Hk. unfold frame_at. rewrite Hb, !Hk by lia. auto.
Qed.
Lemma tframe_frame2 m m' : frame2 m m' -> tframe m -> tframe m'.
Proof.
  intros [F _] (k & e & i & b & Hf & Hsp). exists k, e, i, b.
  split; [eapply frame_at_keep; [exact Hf|exact Hsp|apply F|apply F]|]. rewrite (fr_bp _ _ F), (fr_sp _ _ F). exact Hsp.
Qed.

(* normal completion: the next instruction, registers and the stack below %sp as before *)
Definition ok_n (m : vm) (lp q : N) (r : rval) (rho' : env) : Prop :=
  exists n m', steps n m = Some m' /\ frame2 m m' /\ minv m' /\ ip m' = (lp, q) /\
    vrep (acc m') r (hp m') (st m') /\ genv_rel rho' m'.
(* completion through a tail call: the state the RET of the current frame produces *)
Definition ok_t (m : vm) (r : rval) (rho' : env) : Prop :=
  exists n m' k e i b, steps n m = Some m' /\ frame_at m k e i b /\ rext m m' /\ minv m' /\
    vrep (acc m') r (hp m') (st m') /\ genv_rel rho' m' /\
    sp m' = bp m - k /\ ep m' = e /\ ip m' = i /\ bp m' = b /\ out_log m' = out_log m /\
    (forall j, j <= bp m - k -> sget m' j = sget m j).

Lemma ok_t_pre m m1 n1 r rho' : steps n1 m = Some m1 -> frame2 m m1 -> bp m + 4 <= sp m ->
  ok_t m1 r rho' -> ok_t m r rho'.
Proof.
  intros St F Hsp (n & m' & k & e & i & b & St' & Hf & X & MI & V & G & E1 & E2 & E3 & E4 & E5 & K).
  pose proof (f2_frame _ _ F) as F0.
  assert (Hf0 : frame_at m k e i b).
  { destruct Hf as (H1 & H2 & H3 & H4 & H5). unfold frame_at.
    rewrite (fr_bp _ _ F0) in *. rewrite !(fr_stack _ _ F0) in * by lia. auto. }
  exists (n1 + n)%nat, m', k, e, i, b. split; [eapply steps_trans; eassumption|]. split; [exact Hf0|].
  split; [eapply rext_trans; [apply frame2_rext; exact F|exact X]|]. split; [exact MI|]. split; [exact V|].
  split; [exact G|]. rewrite (fr_bp _ _ F0) in *. split; [exact E1|]. split; [exact E2|]. split; [exact E3|].
  split; [exact E4|]. split; [rewrite E5; apply F0|].
  intros j Hj. rewrite K by exact Hj. apply (fr_stack _ _ F0). destruct Hf0 as (_ & _ & _ & _ & H5). lia.
Qed.

(* [exec2 s0 p code tail lv rho r rho']: on every machine that extends s0, holds [code] at
   [p, p + len code) of the current lambda, whose %ep environment holds lv: execution from
   ip = p computes r — ending at p + len code (ok_n), or, for code compiled in tail position
   inside a frame, possibly by returning from that frame (ok_t) *)
Definition exec2 (s0 : vm) (p : N) (code : list vcell) (tail : bool) (lv : list rval)
                 (rho : env) (r : rval) (rho' : env) : Prop :=
  forall m lp bc,
    cext s0 m -> minv m -> code_in m lp bc -> seg bc p code -> ip m = (lp, p) -> genv_rel rho m ->
    lrel lv m -> (tail = true -> tframe m) ->
    ok_n m lp (p + len code) r rho' \/ (tail = true /\ ok_t m r rho').

Lemma exec2_n s0 p code lv rho r rho' : exec2 s0 p code false lv rho r rho' ->
  forall m lp bc, cext s0 m -> minv m -> code_in m lp bc -> seg bc p code -> ip m = (lp, p) -> genv_rel rho m ->
    lrel lv m -> ok_n m lp (p + len code) r rho'.
Proof.
  intros EX m lp bc X MI Hc Hs Hip G L.
  destruct (EX m lp bc X MI Hc Hs Hip G L ltac:(discriminate)) as [H|[H _]]; [exact H|discriminate].
Qed.
Lemma exec2_ext s s' p code tail lv rho r rho' : cext s' s ->
  exec2 s' p code tail lv rho r rho' -> exec2 s p code tail lv rho r rho'.
Proof. intros Xs EX m lp bc Xm. apply EX. eapply cext_trans; eassumption. Qed.

Definition compile_ok2 (ps : list text) (e : expr2) : Prop :=
  forall f l tail s, (cell_size (cell_of2 e) < f)%nat -> hdr l ps s -> minv s ->
  exists l' s' code, compile_expression f l tail (cell_of2 e) s = ROk l' s' /\
    fwd l' = fwd l ++ code /\ same_hdr l l' /\ minv s' /\ cext s s' /\ same_regs s s' /\
    forall lv rho r rho', ref_eval2 ps lv rho e r rho' -> exec2 s' (len (fwd l)) code tail lv rho r rho'.

(* one instruction that changes %ip and %acc only *)
Lemma ok_n_same_mem m m' lp q r rho : run_one m = ROk false m' -> same_mem m m' -> minv m ->
  ip m' = (lp, q) -> vrep (acc m') r (hp m') (st m') -> genv_rel rho m -> ok_n m lp q r rho.
Proof.
  intros E SM MI Hip V G. exists 1%nat, m'. split; [apply steps_one; exact E|].
  split; [apply same_mem_frame2; exact SM|]. split; [eapply same_mem_minv; eassumption|].
  split; [exact Hip|]. split; [exact V|].
  eapply genv_rel_frame; [apply same_mem_frame; exact SM|apply SM|exact G].
Qed.

Lemma exec2_movimm s0 p v r tail lv rho : vrep v r (hp s0) (st s0) ->
  exec2 s0 p [VOp OMovImmediate; v; VAcc] tail lv rho r rho.
Proof.
  intros V m lp bc X MI Hc Hs Hip G L _. left.
  pose proof (vrep_ext _ _ _ _ _ _ V (cext_ext _ _ X)) as V'.
  pose proof (step_movimm ob m lp p bc v Hc Hip Hs (vrep_not_op _ _ _ _ V')) as E.
  eapply ok_n_same_mem; [exact E|repeat split|exact MI|reflexivity|exact V'|exact G].
Qed.

Lemma exec2_load_global s0 p a k x tail lv rho r :
  allocated (hp s0) a -> cell_at (hp s0) a = VSym x -> assoc_find (g_bind s0) a = Some k ->
  rho x = Some r -> r <> RDatum CUndef ->
  exec2 s0 p [VOp OMov; VGSlot k; VAcc] tail lv rho r rho.
Proof.
  intros A C B Hx Hr m lp bc X MI Hc Hs Hip G L _. left.
  destruct (G x r Hx) as (a' & k' & v & A' & C' & B' & Lk & V).
  destruct (ce_heap _ _ X a A) as [Am Cm]. rewrite C in Cm.
  assert (a = a') as <- by (apply (same_name_iff_same_cell (hp m) a a' x x (mi_heap _ MI) Am A' Cm C'); reflexivity).
  pose proof (ce_bind _ _ X a k B) as Bm. assert (k' = k) as -> by congruence.
  pose proof (step_load_global ob m lp p bc k v Hc Hip Hs Lk (vrep_not_undef _ _ _ _ V Hr)) as E.
  eapply ok_n_same_mem; [exact E|repeat split|exact MI|reflexivity|exact V|exact G].
Qed.

Lemma exec2_load_local s0 p i tail lv rho r : nth_error lv (N.to_nat i) = Some r ->
  exec2 s0 p [VOp OMov; VLexSlot i; VAcc] tail lv rho r rho.
Proof.
  intros Hi m lp bc X MI Hc Hs Hip G L _. left.
  destruct (L i r Hi) as (eid & slots & v & A & C & Lt & T & Gs & V).
  assert (Hg : heap_get (hp m) (ep m) = Ok (VLexEnv eid)) by (rewrite (heap_get_alloc _ _ A), C; reflexivity).
  pose proof (step_load_lex ob m lp p bc i eid slots v Hc Hip Hs Hg T Gs (vrep_not_lexptr _ _ _ _ V)) as E.
  eapply ok_n_same_mem; [exact E|repeat split|exact MI|reflexivity|exact V|exact G].
Qed.

(* ------------------------------------------------------------ constants, quote *)
Lemma cok2_datum ps (e : expr2) d :
  (forall f l tail, compile_expression (S f) l tail (cell_of2 e) =
     (dom v <- maybe_put_cell_m d; ret (emit (emit (emit_op l OMovImmediate) v) VAcc))) ->
  heap_datum d -> (forall lv rho r rho', ref_eval2 ps lv rho e r rho' -> r = RDatum d /\ rho' = rho) ->
  compile_ok2 ps e.
Proof.
  intros Heq Hd Hinv f l tail s Hf Hh MI. destruct f as [|f]; [lia|]. rewrite Heq.
  destruct (maybe_put_cell_m_ok d s Hd MI) as (v & s' & E & MI' & X & R & V).
  exists (emit (emit (emit_op l OMovImmediate) v) VAcc), s', [VOp OMovImmediate; v; VAcc].
  unfold bindM. rewrite E. split; [reflexivity|]. split; [apply fwd_emit3|]. split; [repeat split|].
  split; [exact MI'|]. split; [exact X|]. split; [exact R|].
  intros lv rho r rho' HR. destruct (Hinv _ _ _ _ HR) as [-> ->]. apply exec2_movimm. exact V.
Qed.

Lemma cok2_const ps c : wf_expr2 (XConst c) ps -> compile_ok2 ps (XConst c).
Proof.
  intros [Hs Hd]. apply (cok2_datum ps (XConst c) c); [intros; apply compile_const_eq; exact Hs|exact Hd|].
  intros lv rho r rho' HR. inversion HR; subst. auto.
Qed.
Lemma cok2_quote ps d : wf_expr2 (XQuote d) ps -> compile_ok2 ps (XQuote d).
Proof.
  intros Hd. apply (cok2_datum ps (XQuote d) d); [intros; apply compile_quote_form|exact Hd|].
  intros lv rho r rho' HR. inversion HR; subst. auto.
Qed.

(* ------------------------------------------------------------ variables *)
Lemma cok2_var ps x : wf_expr2 (XVar x) ps -> compile_ok2 ps (XVar x).
Proof.
  intros Hx f l tail s Hf Hh MI. destruct f as [|f]; [lia|]. cbn [cell_of2]. rewrite (compile_var_eq _ _ _ _ _ Hx).
  destruct (put_sym_m_ok x s MI) as (a & s1 & E1 & MI1 & X1 & R1 & A & C & Eb & Eg).
  pose proof (hdr_ext _ _ _ _ X1 Hh) as Hh1.
  destruct (pindex x ps) as [i|] eqn:Ei.
  - exists (emit (emit (emit_op l OMov) (VLexSlot i)) VAcc), s1, [VOp OMov; VLexSlot i; VAcc].
    unfold bindM at 1. rewrite E1. unfold bindM at 1.
    rewrite (location_local l ps s1 a x i Hh1 (mi_heap _ MI1) A C Ei).
    split; [reflexivity|]. split; [apply fwd_emit3|]. split; [repeat split|].
    split; [exact MI1|]. split; [exact X1|]. split; [exact R1|].
    intros lv rho r rho' HR. inversion HR; subst; [|congruence].
    assert (i0 = i) as -> by congruence. apply exec2_load_local. assumption.
  - destruct (get_binding_ok a s1 MI1) as (k & s2 & E2 & MI2 & X2 & R2 & Eh & Es & B).
    exists (emit (emit (emit_op l OMov) (VGSlot k)) VAcc), s2, [VOp OMov; VGSlot k; VAcc].
    unfold bindM at 1. rewrite E1. unfold bindM at 1.
    rewrite (location_global l ps s1 a x Hh1 (mi_heap _ MI1) A C Ei).
    unfold bindM at 1. rewrite E2. split; [reflexivity|]. split; [apply fwd_emit3|]. split; [repeat split|].
    split; [exact MI2|]. split; [eapply cext_trans; eassumption|]. split; [eapply same_regs_trans; eassumption|].
    intros lv rho r rho' HR. inversion HR; subst; [congruence|].
    apply (exec2_load_global s2 _ a k x); auto; rewrite Eh; assumption.
Qed.

(* ------------------------------------------------------------ define / set! (global) *)
Lemma exec_store_tail2 m1 lp bc i a k x rho r :
  minv m1 -> code_in m1 lp bc ->
  seg bc i [VOp OMov; VAcc; VGSlot k; VOp OMovImmediate; VVoid; VAcc] -> ip m1 = (lp, i) ->
  allocated (hp m1) a -> cell_at (hp m1) a = VSym x -> assoc_find (g_bind m1) a = Some k ->
  vrep (acc m1) r (hp m1) (st m1) -> genv_rel rho m1 ->
  exists m3, steps 2 m1 = Some m3 /\ frame2 m1 m3 /\ minv m3 /\ ip m3 = (lp, i + 6) /\
    acc m3 = VVoid /\ genv_rel (upd rho x r) m3.
Proof.
  intros MI Hc Hs Hip A C B V G.
  change [VOp OMov; VAcc; VGSlot k; VOp OMovImmediate; VVoid; VAcc]
    with ([VOp OMov; VAcc; VGSlot k] ++ [VOp OMovImmediate; VVoid; VAcc]) in Hs.
  apply seg_app in Hs as [Hs1 Hs2]. rewrite len3 in Hs2.
  assert (Hk : k < len (g_slots m1)) by (apply (proj1 (mi_glob _ MI) a); exact B).
  pose proof (step_store_global ob m1 lp i bc k Hc Hip Hs1 Hk) as E1.
  set (m2 := with_globals (with_ip m1 (lp, i + 3)) (g_bind m1) (list_set (g_slots m1) k (acc m1))) in *.
  assert (Hc2 : code_in m2 lp bc) by (eapply code_in_regs; [| |exact Hc]; reflexivity).
  pose proof (step_movimm ob m2 lp (i + 3) bc VVoid Hc2 eq_refl Hs2 ltac:(discriminate)) as E2.
  set (m3 := with_acc (with_ip m2 (lp, i + 3 + 3)) VVoid) in *.
  exists m3. split; [eapply (steps_trans ob 1 1); apply steps_one; eassumption|].
  assert (F : frame m1 m3).
  { constructor; try reflexivity; auto.
    apply cext_same; try reflexivity. cbn [g_slots m3 m2 with_acc with_ip with_globals].
    rewrite list_set_len. lia. }
  split; [split; [exact F|intros j _; reflexivity]|]. split.
  { destruct MI as [HI [G1 G2] SP]. constructor; [exact HI| |exact SP].
    split; cbn [g_bind g_slots m3 m2 with_acc with_ip with_globals]; [|exact G2].
    intros a0 k0 H0. rewrite list_set_len. eapply G1. exact H0. }
  split; [cbn [ip m3 with_acc with_ip]; f_equal; lia|]. split; [reflexivity|].
  intros y ry Hy. unfold upd in Hy. destruct (text_eqb y x) eqn:Eyx.
  - apply text_eqb_eq in Eyx. subst y. injection Hy as <-.
    exists a, k, (acc m1). split; [exact A|]. split; [exact C|]. split; [exact B|].
    split; [|exact V]. cbn [g_slots m3 m2 with_acc with_ip with_globals]. apply list_get_set_same. exact Hk.
  - destruct (G y ry Hy) as (ay & ky & vy & Ay & Cy & By & Ly & Vy).
    exists ay, ky, vy. split; [exact Ay|]. split; [exact Cy|]. split; [exact By|]. split; [|exact Vy].
    cbn [g_slots m3 m2 with_acc with_ip with_globals]. rewrite list_get_set_other; [exact Ly|].
    intros <-. assert (a = ay) as <- by (eapply (proj2 (mi_glob _ MI)); eassumption).
    rewrite C in Cy. injection Cy as <-. rewrite text_eqb_refl in Eyx. discriminate.
Qed.

Lemma cok2_store ps (e0 : expr2) x e :
  (forall f l tail s, compile_expression (S f) l tail (cell_of2 e0) s =
    (dom l1 <- compile_expression f l false (cell_of2 e);
     dom sym_ref <- put_cell_m (CSym x);
     dom operand <- location_operand (emit (emit_op l1 OMov) VAcc) sym_ref;
     ret (emit (emit (emit_op (emit (emit (emit_op l1 OMov) VAcc) operand) OMovImmediate) VVoid) VAcc)) s) ->
  (cell_size (cell_of2 e) < cell_size (cell_of2 e0))%nat -> pindex x ps = None ->
  (forall lv rho r rho', ref_eval2 ps lv rho e0 r rho' ->
     exists r1 rho1, ref_eval2 ps lv rho e r1 rho1 /\ r = RDatum CVoid /\ rho' = upd rho1 x r1) ->
  compile_ok2 ps e -> compile_ok2 ps e0.
Proof.
  intros Heq Hsz Hpx Hinv IH f l tail s Hf Hh MI. destruct f as [|f]; [lia|]. rewrite Heq.
  destruct (IH f l false s ltac:(lia) Hh MI) as (l1 & s1 & code & E1 & F1 & S1 & MI1 & X1 & R1 & EX1).
  destruct (put_sym_m_ok x s1 MI1) as (a & s2 & E2 & MI2 & X2 & R2 & A & C & Eb & Eg).
  destruct (get_binding_ok a s2 MI2) as (k & s3 & E3 & MI3 & X3 & R3 & Eh & Es & B).
  assert (Hh2 : hdr (emit (emit_op l1 OMov) VAcc) ps s2).
  { eapply hdr_same; [|eapply hdr_ext; [|exact Hh]].
    - eapply same_hdr_trans; [exact S1|repeat split].
    - eapply cext_trans; eassumption. }
  eexists; exists s3, (code ++ [VOp OMov; VAcc; VGSlot k; VOp OMovImmediate; VVoid; VAcc]).
  unfold bindM at 1. rewrite E1. unfold bindM at 1. rewrite E2. unfold bindM at 1.
  rewrite (location_global _ ps s2 a x Hh2 (mi_heap _ MI2) A C Hpx). unfold bindM at 1. rewrite E3.
  split; [reflexivity|]. split; [rewrite fwd_store, F1, <- app_assoc; reflexivity|].
  split; [eapply same_hdr_trans; [exact S1|repeat split]|]. split; [exact MI3|].
  assert (X13 : cext s1 s3) by (eapply cext_trans; eassumption).
  split; [eapply cext_trans; eassumption|].
  split; [eapply same_regs_trans; [exact R1|]; eapply same_regs_trans; eassumption|].
  intros lv rho r rho' HR. destruct (Hinv _ _ _ _ HR) as (r1 & rho1 & HR1 & -> & ->).
  intros m lp bc X MIm Hc Hs Hip G L _. left. apply seg_app in Hs as [Hs1 Hs2].
  destruct (exec2_n _ _ _ _ _ _ _ (EX1 _ _ _ _ HR1) m lp bc (cext_trans _ _ _ X13 X) MIm Hc Hs1 Hip G L)
    as (n1 & m1 & St1 & Fr1 & MIm1 & Hip1 & V1 & G1).
  pose proof (f2_frame _ _ Fr1) as Fr1'.
  assert (X3m1 : cext s3 m1) by (eapply cext_trans; [exact X|apply Fr1']).
  destruct (ce_heap _ _ X3m1 a) as [A1 C1]; [rewrite Eh; exact A|]. rewrite Eh, C in C1.
  pose proof (ce_bind _ _ X3m1 a k B) as B1.
  destruct (exec_store_tail2 m1 lp bc _ a k x rho1 r1 MIm1 (code_in_ext _ _ _ _ Hc (fr_ext _ _ Fr1')) Hs2 Hip1 A1 C1 B1 V1 G1)
    as (m3 & St3 & Fr3 & MIm3 & Hip3 & Hacc & G3).
  exists (n1 + 2)%nat, m3. split; [eapply steps_trans; eassumption|].
  split; [eapply frame2_trans; eassumption|]. split; [exact MIm3|].
  split; [rewrite Hip3, len_app; f_equal; change (len [VOp OMov; VAcc; VGSlot k; VOp OMovImmediate; VVoid; VAcc]) with 6; lia|].
  split; [rewrite Hacc; apply vrep_void|exact G3].
Qed.

Lemma cok2_define ps x e : wf_expr2 (XDefine x e) ps -> compile_ok2 ps e -> compile_ok2 ps (XDefine x e).
Proof.
  intros (Hx & Hp & _). apply (cok2_store ps (XDefine x e) x e).
  - intros. apply compile_define_eq. exact Hx.
  - cbn [cell_of2 cell_size]. lia.
  - exact Hp.
  - intros lv rho r rho' HR. inversion HR; subst. eauto.
Qed.
Lemma cok2_set ps x e : wf_expr2 (XSet x e) ps -> compile_ok2 ps e -> compile_ok2 ps (XSet x e).
Proof.
  intros (Hx & Hp & _). apply (cok2_store ps (XSet x e) x e).
  - intros. apply compile_set_eq. exact Hx.
  - cbn [cell_of2 cell_size]. lia.
  - exact Hp.
  - intros lv rho r rho' HR. inversion HR; subst. eauto.
Qed.

(* ------------------------------------------------------------ if *)
Lemma exec2_if s0 p cc ca cb X Y tail lv rho rc rho1 r rho2 (else_branch : bool) :
  X = p + len cc + 2 + len ca + 2 -> Y = X + len cb ->
  exec2 s0 p cc false lv rho rc rho1 ->
  is_false rc = else_branch ->
  (if else_branch then exec2 s0 X cb tail lv rho1 r rho2
   else exec2 s0 (p + len cc + 2) ca tail lv rho1 r rho2) ->
  exec2 s0 p (cc ++ [VOp OJnt; VPtr X] ++ ca ++ [VOp OJmp; VPtr Y] ++ cb) tail lv rho r rho2.
Proof.
  intros HX HY EXc Hrc EXb m lp bc Xm MI Hc Hs Hip G L Ht.
  apply seg_app in Hs as [Hsc Hs]. apply seg_app in Hs as [Hsj Hs]. rewrite len2 in Hs.
  apply seg_app in Hs as [Hsa Hs]. apply seg_app in Hs as [Hsm Hsb]. rewrite len2 in Hsb.
  destruct (exec2_n _ _ _ _ _ _ _ EXc m lp bc Xm MI Hc Hsc Hip G L) as (n1 & m1 & St1 & Fr1 & MI1 & Hip1 & V1 & G1).
  pose proof (f2_frame _ _ Fr1) as Fr1'.
  destruct (vrep_truth _ _ _ _ V1) as (w & Hw & Hwf).
  pose proof (code_in_ext _ _ _ _ Hc (fr_ext _ _ Fr1')) as Hc1.
  pose proof (step_jnt ob m1 lp _ bc X w Hc1 Hip1 Hsj Hw) as E2. fold (vfalse w) in E2.
  set (m2 := with_ip m1 (lp, if vfalse w then X else p + len cc + 2)) in *.
  assert (SM2 : same_mem m1 m2) by (repeat split).
  pose proof (same_mem_frame2 _ _ SM2) as Fr2.
  pose proof (same_mem_minv _ _ SM2 MI1) as MI2.
  assert (Hc2 : code_in m2 lp bc) by (apply code_in_ip; exact Hc1).
  assert (G2 : genv_rel rho1 m2) by (eapply genv_rel_frame; [apply Fr2|reflexivity|exact G1]).
  assert (X2 : cext s0 m2) by (eapply cext_trans; [exact Xm|]; eapply cext_trans; [apply Fr1'|apply Fr2]).
  assert (Fr02 : frame2 m m2) by (eapply frame2_trans; eassumption).
  assert (L2 : lrel lv m2) by (eapply lrel_frame2; eassumption).
  assert (Ht2 : tail = true -> tframe m2) by (intros E; eapply tframe_frame2; [exact Fr02|auto]).
  assert (St02 : steps (n1 + 1) m = Some m2) by (eapply steps_trans; [exact St1|apply steps_one; exact E2]).
  assert (Htail : forall r' rho', tail = true /\ ok_t m2 r' rho' -> tail = true /\ ok_t m r' rho').
  { intros r' rho' [Et Ok]. split; [exact Et|]. destruct (Ht Et) as (k & e & i & b & _ & Hsp).
    eapply ok_t_pre; eassumption. }
  destruct else_branch.
  - assert (Hv : vfalse w = true) by (apply vfalse_iff, Hwf; exact Hrc).
    assert (Hip2 : ip m2 = (lp, X)) by (unfold m2; rewrite Hv; reflexivity).
    replace (p + len cc + 2 + len ca + 2) with X in Hsb by lia.
    destruct (EXb m2 lp bc X2 MI2 Hc2 Hsb Hip2 G2 L2 Ht2) as [(n3 & m3 & St3 & Fr3 & MI3 & Hip3 & V3 & G3)|Hr];
      [left|right; apply Htail; exact Hr].
    exists (n1 + 1 + n3)%nat, m3.
    split; [eapply steps_trans; eassumption|].
    split; [eapply frame2_trans; eassumption|]. split; [exact MI3|].
    split; [rewrite Hip3; f_equal; lens; lia|]. split; assumption.
  - assert (Hv : vfalse w = false).
    { destruct (vfalse w) eqn:Ev; [|reflexivity]. apply vfalse_iff, Hwf in Ev. congruence. }
    assert (Hip2 : ip m2 = (lp, p + len cc + 2)) by (unfold m2; rewrite Hv; reflexivity).
    destruct (EXb m2 lp bc X2 MI2 Hc2 Hsa Hip2 G2 L2 Ht2) as [(n3 & m3 & St3 & Fr3 & MI3 & Hip3 & V3 & G3)|Hr];
      [left|right; apply Htail; exact Hr].
    pose proof (code_in_ext _ _ _ _ Hc2 (fr_ext _ _ (f2_frame _ _ Fr3))) as Hc3.
    pose proof (step_jmp ob m3 lp _ bc Y Hc3 Hip3 Hsm) as E4.
    set (m4 := with_ip m3 (lp, Y)) in *.
    assert (SM4 : same_mem m3 m4) by (repeat split).
    exists (n1 + 1 + n3 + 1)%nat, m4.
    split; [eapply steps_trans; [eapply steps_trans; [exact St02|exact St3]|apply steps_one; exact E4]|].
    split; [eapply frame2_trans; [eapply frame2_trans; eassumption|apply same_mem_frame2; exact SM4]|].
    split; [eapply same_mem_minv; eassumption|].
    split; [cbn [ip m4 with_ip]; f_equal; lens; lia|].
    split; [exact V3|]. eapply genv_rel_frame; [apply same_mem_frame; exact SM4|reflexivity|exact G3].
Qed.

Lemma cok2_if ps c a b : compile_ok2 ps c -> compile_ok2 ps a -> compile_ok2 ps b -> compile_ok2 ps (XIf c a b).
Proof.
  intros IHc IHa IHb f l tail s Hf Hh MI. destruct f as [|f]; [lia|].
  cbn [cell_of2] in *. cbn [cell_size] in Hf. rewrite compile_if3_eq.
  destruct (IHc f l false s ltac:(lia) Hh MI) as (l1 & s1 & cc & E1 & F1 & S1 & MI1 & X1 & R1 & EX1).
  set (l3 := emit (emit_op l1 OJnt) (VPtr CAFEBEEF)).
  assert (S3 : same_hdr l l3) by (eapply same_hdr_trans; [exact S1|repeat split]).
  destruct (IHa f l3 tail s1 ltac:(lia) (hdr_same _ _ _ _ S3 (hdr_ext _ _ _ _ X1 Hh)) MI1)
    as (l4 & s2 & ca & E4 & F4 & S4 & MI2 & X2 & R2 & EX4).
  destruct (if_layout l l1 l4 cc ca F1 F4) as [L6 F7].
  set (l6 := emit (emit_op l4 OJmp) (VPtr CAFEBEEF)) in *.
  set (l7 := bc_patch l6 (bc_len (emit_op l1 OJnt)) (VPtr (bc_len l6))) in *.
  assert (S7 : same_hdr l l7).
  { eapply same_hdr_trans; [exact S3|]. eapply same_hdr_trans; [exact S4|]. repeat split. }
  assert (X12 : cext s s2) by (eapply cext_trans; eassumption).
  destruct (IHb f l7 tail s2 ltac:(lia) (hdr_same _ _ _ _ S7 (hdr_ext _ _ _ _ X12 Hh)) MI2)
    as (l8 & s3 & cb & E8 & F8 & S8 & MI3 & X3 & R3 & EX8).
  set (p := len (fwd l)) in *.
  assert (L7 : len (fwd l7) = bc_len l6).
  { rewrite F7, L6. lens. fold p. lia. }
  assert (L3 : len (fwd l3) = p + len cc + 2).
  { unfold l3. rewrite fwd_emit, fwd_emit_op, F1. lens. fold p. lia. }
  assert (L8 : bc_len l8 = bc_len l6 + len cb) by (rewrite (bc_len_fwd l8), F8, len_app, L7; reflexivity).
  exists (bc_patch l8 (bc_len (emit_op l4 OJmp)) (VPtr (bc_len l8))), s3,
         (cc ++ [VOp OJnt; VPtr (bc_len l6)] ++ ca ++ [VOp OJmp; VPtr (bc_len l8)] ++ cb).
  unfold bindM at 1. rewrite E1. unfold bindM at 1. fold l3. rewrite E4. unfold bindM at 1. fold l6 l7. rewrite E8.
  split; [reflexivity|]. split.
  { rewrite (if_final l8 l4 (fwd l ++ cc ++ [VOp OJnt; VPtr (bc_len l6)] ++ ca) cb).
    - rewrite <- !app_assoc. reflexivity.
    - rewrite F8, F7, <- !app_assoc. reflexivity.
    - rewrite bc_len_fwd, fwd_emit_op, F4. lens. rewrite L3. lens. fold p. lia. }
  split; [eapply same_hdr_trans; [exact S7|]; eapply same_hdr_trans; [exact S8|repeat split]|].
  split; [exact MI3|].
  assert (X23 : cext s2 s3) by exact X3.
  assert (X13 : cext s1 s3) by (eapply cext_trans; eassumption).
  split; [eapply cext_trans; eassumption|].
  split; [eapply same_regs_trans; [exact R1|]; eapply same_regs_trans; eassumption|].
  intros lv rho r rho' HR. inversion HR; subst.
  - apply (exec2_if s3 p cc ca cb _ _ tail lv rho rc rho1 r rho' false L6 L8).
    + apply (exec2_ext s3 s1); [exact X13|]. apply EX1. assumption.
    + assumption.
    + cbv iota. rewrite <- L3. apply (exec2_ext s3 s2); [exact X23|]. apply EX4. assumption.
  - apply (exec2_if s3 p cc ca cb _ _ tail lv rho rc rho1 r rho' true L6 L8).
    + apply (exec2_ext s3 s1); [exact X13|]. apply EX1. assumption.
    + assumption.
    + cbv iota. rewrite <- L7. apply EX8. assumption.
Qed.

Lemma cok2_if1 ps c a : compile_ok2 ps c -> compile_ok2 ps a -> compile_ok2 ps (XIf1 c a).
Proof.
  intros IHc IHa f l tail s Hf Hh MI. destruct f as [|f]; [lia|].
  cbn [cell_of2] in *. cbn [cell_size] in Hf. rewrite compile_if2_eq.
  destruct (IHc f l false s ltac:(lia) Hh MI) as (l1 & s1 & cc & E1 & F1 & S1 & MI1 & X1 & R1 & EX1).
  set (l3 := emit (emit_op l1 OJnt) (VPtr CAFEBEEF)).
  assert (S3 : same_hdr l l3) by (eapply same_hdr_trans; [exact S1|repeat split]).
  destruct (IHa f l3 tail s1 ltac:(lia) (hdr_same _ _ _ _ S3 (hdr_ext _ _ _ _ X1 Hh)) MI1)
    as (l4 & s2 & ca & E4 & F4 & S4 & MI2 & X2 & R2 & EX4).
  destruct (if_layout l l1 l4 cc ca F1 F4) as [L6 F7].
  set (l6 := emit (emit_op l4 OJmp) (VPtr CAFEBEEF)) in *.
  set (l7 := bc_patch l6 (bc_len (emit_op l1 OJnt)) (VPtr (bc_len l6))) in *.
  assert (S7 : same_hdr l l7).
  { eapply same_hdr_trans; [exact S3|]. eapply same_hdr_trans; [exact S4|]. repeat split. }
  set (cb := [VOp OMovImmediate; VVoid; VAcc]).
  set (l8 := emit (emit (emit_op l7 OMovImmediate) VVoid) VAcc).
  assert (F8 : fwd l8 = fwd l7 ++ cb) by apply fwd_emit3.
  set (p := len (fwd l)) in *.
  assert (L7 : len (fwd l7) = bc_len l6).
  { rewrite F7, L6. lens. fold p. lia. }
  assert (L3 : len (fwd l3) = p + len cc + 2).
  { unfold l3. rewrite fwd_emit, fwd_emit_op, F1. lens. fold p. lia. }
  assert (L8 : bc_len l8 = bc_len l6 + len cb) by (rewrite (bc_len_fwd l8), F8, len_app, L7; reflexivity).
  exists (bc_patch l8 (bc_len (emit_op l4 OJmp)) (VPtr (bc_len l8))), s2,
         (cc ++ [VOp OJnt; VPtr (bc_len l6)] ++ ca ++ [VOp OJmp; VPtr (bc_len l8)] ++ cb).
  unfold bindM at 1. rewrite E1. unfold bindM at 1. fold l3. rewrite E4.
  split; [reflexivity|]. split.
  { rewrite (if_final l8 l4 (fwd l ++ cc ++ [VOp OJnt; VPtr (bc_len l6)] ++ ca) cb).
    - rewrite <- !app_assoc. reflexivity.
    - rewrite F8, F7, <- !app_assoc. reflexivity.
    - rewrite bc_len_fwd, fwd_emit_op, F4. lens. rewrite L3. lens. fold p. lia. }
  split; [eapply same_hdr_trans; [exact S7|repeat split]|].
  split; [exact MI2|].
  split; [eapply cext_trans; eassumption|]. split; [eapply same_regs_trans; eassumption|].
  intros lv rho r rho' HR. inversion HR; subst.
  - apply (exec2_if s2 p cc ca cb _ _ tail lv rho rc rho1 r rho' false L6 L8).
    + apply (exec2_ext s2 s1); [exact X2|]. apply EX1. assumption.
    + assumption.
    + cbv iota. rewrite <- L3. apply EX4. assumption.
  - apply (exec2_if s2 p cc ca cb _ _ tail lv rho rc rho' (RDatum CVoid) rho' true L6 L8).
    + apply (exec2_ext s2 s1); [exact X2|]. apply EX1. assumption.
    + assumption.
    + cbv iota. apply exec2_movimm. apply vrep_void.
Qed.

(* ------------------------------------------------------------ operands *)
Definition cells_of2 (args : list expr2) : cell := fold_right CPair CNil (map cell_of2 args).

Lemma cells2_size x r : (cell_size (cell_of2 x) < cell_size (cells_of2 (x :: r)))%nat /\
                        (cell_size (cells_of2 r) < cell_size (cells_of2 (x :: r)))%nat.
Proof. unfold cells_of2. cbn [map fold_right cell_size]. lia. Qed.

Definition exec_args2 (s0 : vm) (p : N) (code : list vcell) (ps : list text) (args : list expr2) : Prop :=
  forall lv rho rs rho', ref_evals2 ps lv rho args rs rho' ->
  forall m lp bc,
    cext s0 m -> minv m -> code_in m lp bc -> seg bc p code -> ip m = (lp, p) -> genv_rel rho m -> lrel lv m ->
    exists n m' vs, steps n m = Some m' /\ minv m' /\ ip m' = (lp, p + len code) /\ genv_rel rho' m' /\
      rext m m' /\ sp m' = sp m + len args /\ bp m' = bp m /\ ep m' = ep m /\ out_log m' = out_log m /\
      (forall j, j <= sp m -> sget m' j = sget m j) /\
      len vs = len args /\
      (forall i v, list_get vs i = Some v -> sget m' (sp m + 1 + i) = v) /\
      Forall2 (fun v r => vrep v r (hp m') (st m')) vs rs.

Lemma args_ok2 ps args : Forall (compile_ok2 ps) args ->
  forall f l n s, (cell_size (cells_of2 args) < f)%nat -> hdr l ps s -> minv s ->
  exists l' s' code, args_loop (compile_expression f) (cells_of2 args) l n s = ROk (l', n + len args) s' /\
    fwd l' = fwd l ++ code /\ same_hdr l l' /\ minv s' /\ cext s s' /\ same_regs s s' /\
    exec_args2 s' (len (fwd l)) code ps args.
Proof.
  induction 1 as [|x r Hx Hr IH]; intros f l n s Hf Hh MI.
  - exists l, s, []. cbn [cells_of2 map fold_right args_loop]. split; [unfold ret; f_equal; f_equal; cbn; lia|].
    split; [rewrite app_nil_r; reflexivity|]. split; [apply same_hdr_refl|]. split; [exact MI|].
    split; [apply cext_refl|]. split; [apply same_regs_refl|].
    intros lv rho rs rho' HR m lp bc X MIm Hc Hs Hip G L. inversion HR; subst.
    exists 0%nat, m, []. split; [reflexivity|]. split; [exact MIm|].
    split; [rewrite Hip; f_equal; cbn; lia|]. split; [exact G|]. split; [apply rext_refl|].
    split; [cbn; lia|]. do 3 (split; [reflexivity|]). split; [auto|]. split; [reflexivity|].
    split; [intros i v Hi; unfold list_get in Hi; destruct (N.to_nat i); discriminate|constructor].
  - destruct (cells2_size x r) as [Sx Sr].
    change (cells_of2 (x :: r)) with (CPair (cell_of2 x) (cells_of2 r)) in *. cbn [args_loop].
    destruct (Hx f l false s ltac:(lia) Hh MI) as (l1 & s1 & cx & E1 & F1 & S1 & MI1 & X1 & R1 & EX1).
    assert (S1' : same_hdr l (emit_op l1 OPushAcc)) by (eapply same_hdr_trans; [exact S1|repeat split]).
    destruct (IH f (emit_op l1 OPushAcc) (n + 1) s1 ltac:(lia) (hdr_same _ _ _ _ S1' (hdr_ext _ _ _ _ X1 Hh)) MI1)
      as (l2 & s2 & cr & E2 & F2 & S2 & MI2 & X2 & R2 & EX2).
    exists l2, s2, (cx ++ [VOp OPushAcc] ++ cr).
    unfold bindM at 1. rewrite E1, E2.
    split; [f_equal; f_equal; rewrite len_cons; lia|].
    split; [rewrite F2, fwd_emit_op, F1, <- !app_assoc; reflexivity|].
    split; [eapply same_hdr_trans; eassumption|]. split; [exact MI2|]. split; [eapply cext_trans; eassumption|].
    split; [eapply same_regs_trans; eassumption|].
    assert (Lp : len (fwd (emit_op l1 OPushAcc)) = len (fwd l) + len cx + 1) by (rewrite fwd_emit_op, F1; lens; lia).
    rewrite Lp in EX2.
    intros lv rho rs rho' HR m lp bc X MIm Hc Hs Hip G L. inversion HR; subst.
    apply seg_app in Hs as [Hsx Hs]. apply seg_app in Hs as [Hsp Hsr]. rewrite len1 in Hsr.
    match goal with H : ref_eval2 ps lv rho x _ _ |- _ => rename H into HRx end.
    match goal with H : ref_evals2 _ _ _ r _ _ |- _ => rename H into HRr end.
    destruct (exec2_n _ _ _ _ _ _ _ (EX1 _ _ _ _ HRx) m lp bc (cext_trans _ _ _ X2 X) MIm Hc Hsx Hip G L)
      as (n1 & m1 & St1 & Fr1 & MIm1 & Hip1 & V1 & G1).
    pose proof (f2_frame _ _ Fr1) as Fr1'.
    pose proof (code_in_ext _ _ _ _ Hc (fr_ext _ _ Fr1')) as Hc1.
    pose proof (step_pushacc ob m1 lp _ bc Hc1 Hip1 Hsp) as Ep.
    set (m2 := pushed (with_ip m1 (lp, len (fwd l) + len cx + 1)) (acc m1)) in *.
    assert (Xm12 : rext m1 m2) by (apply rext_same; try reflexivity; lia).
    assert (MIm2 : minv m2).
    { destruct MIm1 as [HI GI SP]. constructor; [exact HI|exact GI|]. apply pushed_sp_lt. exact SP. }
    assert (Hc2 : code_in m2 lp bc) by (eapply code_in_regs; [| |exact Hc1]; reflexivity).
    assert (G2 : genv_rel rho1 m2) by (eapply genv_rel_ext; [apply Xm12|reflexivity|exact G1]).
    assert (Xs2m2 : cext s2 m2) by (eapply cext_trans; [exact X|]; eapply cext_trans; [apply Fr1'|apply Xm12]).
    assert (Hsp2 : sp m2 = sp m + 1) by (cbn [sp m2 pushed with_scap with_stack with_ip]; rewrite (fr_sp _ _ Fr1'); reflexivity).
    assert (L2 : lrel lv m2).
    { eapply lrel_rext; [exact Xm12|reflexivity|]. eapply lrel_frame2; eassumption. }
    destruct (EX2 _ _ _ _ HRr m2 lp bc Xs2m2 MIm2 Hc2 Hsr eq_refl G2 L2)
      as (n3 & m3 & vs & St3 & MIm3 & Hip3 & G3 & Xm23 & Hsp3 & Hbp3 & Hep3 & Hlog3 & Hst3 & Hlen & Hvs & Vvs).
    exists (n1 + 1 + n3)%nat, m3, (acc m1 :: vs).
    split; [eapply steps_trans; [eapply steps_trans; [exact St1|apply steps_one; exact Ep]|exact St3]|].
    split; [exact MIm3|]. split; [rewrite Hip3; f_equal; lens; lia|]. split; [exact G3|].
    split; [eapply rext_trans; [apply frame2_rext; exact Fr1|]; eapply rext_trans; eassumption|].
    split; [rewrite Hsp3, Hsp2, len_cons; lia|].
    split; [rewrite Hbp3; cbn [bp m2 pushed with_scap with_stack with_ip]; apply Fr1'|].
    split; [rewrite Hep3; cbn [ep m2 pushed with_scap with_stack with_ip]; apply Fr1'|].
    split; [rewrite Hlog3; cbn [out_log m2 pushed with_scap with_stack with_ip]; apply Fr1'|].
    assert (Hkeep : forall j, j <= sp m -> sget m3 j = sget m j).
    { intros j Hj. rewrite Hst3 by lia. unfold m2. rewrite sget_pushed_other.
      - change (sget (with_ip m1 _) j) with (sget m1 j). apply Fr1'. exact Hj.
      - cbn [sp with_ip]. rewrite (fr_sp _ _ Fr1'). lia. }
    split; [exact Hkeep|]. split; [rewrite !len_cons, Hlen; reflexivity|].
    split.
    + intros i v Hi. destruct (N.eq_dec i 0) as [->|Hne].
      * cbn in Hi. injection Hi as <-. rewrite N.add_0_r. rewrite Hst3 by lia. unfold m2.
        replace (sp m + 1) with (sp (with_ip m1 (lp, len (fwd l) + len cx + 1)) + 1)
          by (cbn [sp with_ip]; rewrite (fr_sp _ _ Fr1'); reflexivity).
        apply sget_pushed_top.
      * replace i with (i - 1 + 1) in Hi by lia. rewrite list_get_cons_S in Hi.
        apply Hvs in Hi. rewrite Hsp2 in Hi. rewrite <- Hi. f_equal. lia.
    + constructor; [|exact Vvs]. eapply vrep_ext; [exact V1|]. apply cext_ext.
      eapply cext_trans; [apply Xm12|apply Xm23].
Qed.

End Sem2.
