(* CompileCorrect2.v — C01: semantic compile-and-run correctness, extended with LOCAL VARIABLES
   of lambda expressions applied in place (what `let` expands to):

     e ::= c | (quote d) | (if e e e) | (if e e) | x | (define x e) | (set! x e)
         | (e0 e1 ... en)                          operator evaluates to a builtin procedure
         | ((lambda (x1 ... xn) body) e1 ... en)   body: again an expression of the fragment

   A variable is a parameter of the innermost enclosing lambda or a global; `define` and `set!`
   act on globals only; no lambda captures a variable of an enclosing lambda.

   How marwood compiles this (compile.rs:424-460, environment.rs:94-125): EVERY parameter of a
   lambda is an entry (sym, Argument i) of its environment map, so a parameter reference is
   MOV (lexical slot i) %acc — never a stack-relative operand; (lambda ...) is MOV_IMMEDIATE
   <lambda> %acc; CLOSURE %acc (a closure over a new environment of undefined slots); the
   application is CALL %acc, or TCALL %acc in tail position; the callee's ENTER copies the n
   arguments from the stack into a NEW activation environment and sets %ep; RET pops the frame.

   Main results: compile_correct2 (induction over the extended fragment; non-tail code ends at
   the next instruction with sp/bp/ep and the stack below unchanged; tail code may instead
   leave through a TCALL, and then ends in the state the RET of the current frame produces),
   eval_fragment2 (Vm::eval reaches HALT with the reference value in %acc).               *)
From Coq Require Import String Lia FMapPositive.
From MW Require Import Model.Base Model.F64 Model.Num Model.Datum Model.TransformDef Model.Transform
  Model.VmTypes Model.Heap Model.Gc Model.VmBase Model.Compile Model.Vm
  Proofs.VmProofs0 Proofs.GcProofs Proofs.SymtabProofs Proofs.QuoteHeapProofs
  Proofs.CompileProofs Proofs.RunProofs Proofs.CompileCorrect Proofs.TailProofs Proofs.FrameSteps
  Proofs.CellFuelProofs.
From MW Require Proofs.ScopeProofs.
Open Scope N_scope.

Arguments N.add : simpl never.
Arguments N.sub : simpl never.
Arguments N.mul : simpl never.
Arguments N.eqb : simpl never.
Arguments N.ltb : simpl never.
Arguments N.leb : simpl never.

(* ============================================================ the extended fragment *)
Inductive expr2 :=
| XConst (c : cell)
| XQuote (d : cell)
| XIf (c a b : expr2)
| XIf1 (c a : expr2)
| XVar (x : text)
| XDefine (x : text) (e : expr2)
| XSet (x : text) (e : expr2)
| XApp (f : expr2) (args : list expr2)
| XLet (ps : list text) (body : expr2) (args : list expr2).

Definition LAMBDA_ : cell := CSym (S_ "lambda").
Definition syms_of (ps : list text) : cell := fold_right (fun x c => CPair (CSym x) c) CNil ps.
Definition lam_cell (ps : list text) (body : cell) : cell :=
  CPair LAMBDA_ (CPair (syms_of ps) (CPair body CNil)).

Fixpoint cell_of2 (e : expr2) : cell :=
  match e with
  | XConst c => c
  | XQuote d => quote_of d
  | XIf c a b => CPair IF_ (CPair (cell_of2 c) (CPair (cell_of2 a) (CPair (cell_of2 b) CNil)))
  | XIf1 c a => CPair IF_ (CPair (cell_of2 c) (CPair (cell_of2 a) CNil))
  | XVar x => CSym x
  | XDefine x e => CPair DEFINE_ (CPair (CSym x) (CPair (cell_of2 e) CNil))
  | XSet x e => CPair SET_ (CPair (CSym x) (CPair (cell_of2 e) CNil))
  | XApp f args => CPair (cell_of2 f) (fold_right CPair CNil (map cell_of2 args))
  | XLet ps body args => CPair (lam_cell ps (cell_of2 body)) (fold_right CPair CNil (map cell_of2 args))
  end.

(* the index of the first parameter named x *)
Definition pindex (x : text) (ps : list text) : option N := ScopeProofs.fidx (fun y => text_eqb y x) ps.

Definition is_define (e : expr2) : bool := match e with XDefine _ _ => true | _ => false end.

(* the compiler's own free-symbol analysis of the lambda expression finds no parameter of
   the enclosing lambda: nothing is captured *)
Definition nocapture (ps : list text) (lc : cell) : Prop :=
  exists fs, free_symbols lc = Ok (map CSym fs) /\ forall x, In x fs -> pindex x ps = None.

Fixpoint wf_expr2 (e : expr2) (ps : list text) {struct e} : Prop :=
  match e with
  | XConst c => self_eval c = true /\ heap_datum c
  | XQuote d => heap_datum d
  | XIf c a b => wf_expr2 c ps /\ wf_expr2 a ps /\ wf_expr2 b ps
  | XIf1 c a => wf_expr2 c ps /\ wf_expr2 a ps
  | XVar x => is_primitive_symbol (CSym x) = false
  | XDefine x e | XSet x e => is_primitive_symbol (CSym x) = false /\ pindex x ps = None /\ wf_expr2 e ps
  | XApp f args => special_head (cell_of2 f) = false /\ wf_expr2 f ps /\
                   (fix all (l : list expr2) : Prop := match l with [] => True | x :: r => wf_expr2 x ps /\ all r end) args
  | XLet ps' body args =>
      length args = length ps' /\ (forall x, In x ps' -> is_primitive_symbol (CSym x) = false) /\
      is_define body = false /\ nocapture ps (lam_cell ps' (cell_of2 body)) /\
      wf_expr2 body ps' /\
      (fix all (l : list expr2) : Prop := match l with [] => True | x :: r => wf_expr2 x ps /\ all r end) args
  end.

Lemma wf2_all ps args :
  (fix all (l : list expr2) : Prop := match l with [] => True | x :: r => wf_expr2 x ps /\ all r end) args
  <-> Forall (fun x => wf_expr2 x ps) args.
Proof.
  induction args as [|x r IH]; [split; constructor|]. split.
  - intros [A B]. constructor; [exact A|apply IH; exact B].
  - intros H. inversion H; subst. split; [assumption|apply IH; assumption].
Qed.

Section expr2_ind2.
Variable P : expr2 -> Prop.
Hypothesis Hconst : forall c, P (XConst c).
Hypothesis Hquote : forall d, P (XQuote d).
Hypothesis Hif : forall c a b, P c -> P a -> P b -> P (XIf c a b).
Hypothesis Hif1 : forall c a, P c -> P a -> P (XIf1 c a).
Hypothesis Hvar : forall x, P (XVar x).
Hypothesis Hdef : forall x e, P e -> P (XDefine x e).
Hypothesis Hset : forall x e, P e -> P (XSet x e).
Hypothesis Happ : forall f args, P f -> Forall P args -> P (XApp f args).
Hypothesis Hlet : forall ps body args, P body -> Forall P args -> P (XLet ps body args).
Fixpoint expr2_ind2 (e : expr2) : P e :=
  match e with
  | XConst c => Hconst c
  | XQuote d => Hquote d
  | XIf c a b => Hif c a b (expr2_ind2 c) (expr2_ind2 a) (expr2_ind2 b)
  | XIf1 c a => Hif1 c a (expr2_ind2 c) (expr2_ind2 a)
  | XVar x => Hvar x
  | XDefine x e => Hdef x e (expr2_ind2 e)
  | XSet x e => Hset x e (expr2_ind2 e)
  | XApp f args => Happ f args (expr2_ind2 f)
      ((fix go (l : list expr2) : Forall P l :=
          match l with [] => Forall_nil P | x :: r => Forall_cons x (expr2_ind2 x) (go r) end) args)
  | XLet ps body args => Hlet ps body args (expr2_ind2 body)
      ((fix go (l : list expr2) : Forall P l :=
          match l with [] => Forall_nil P | x :: r => Forall_cons x (expr2_ind2 x) (go r) end) args)
  end.
End expr2_ind2.

(* ============================================================ reference semantics *)
Section Sem2.
Variable ob : N -> M vcell.
Variable bsem : N -> list rval -> option rval.
Notation run_one := (Vm.run_one ob).
Notation steps := (RunProofs.steps ob).
Notation run_builtin := (Vm.run_builtin ob).

(* [ref_eval2 ps lv rho e r rho']: in the body of a lambda with parameters ps bound to the
   values lv (top level: both empty) and the global environment rho, e has the value r and
   leaves the global environment rho'.  Call by value, operands left to right, then the
   operator; the body of an applied lambda sees ITS parameters and the globals only. *)
Inductive ref_eval2 : list text -> list rval -> env -> expr2 -> rval -> env -> Prop :=
| R2_const ps lv rho c : ref_eval2 ps lv rho (XConst c) (RDatum c) rho
| R2_quote ps lv rho d : ref_eval2 ps lv rho (XQuote d) (RDatum d) rho
| R2_local ps lv rho x i r : pindex x ps = Some i -> nth_error lv (N.to_nat i) = Some r ->
    ref_eval2 ps lv rho (XVar x) r rho
| R2_global ps lv rho x r : pindex x ps = None -> rho x = Some r -> r <> RDatum CUndef ->
    ref_eval2 ps lv rho (XVar x) r rho
| R2_if_t ps lv rho c a b rc rho1 r rho2 :
    ref_eval2 ps lv rho c rc rho1 -> is_false rc = false -> ref_eval2 ps lv rho1 a r rho2 ->
    ref_eval2 ps lv rho (XIf c a b) r rho2
| R2_if_f ps lv rho c a b rc rho1 r rho2 :
    ref_eval2 ps lv rho c rc rho1 -> is_false rc = true -> ref_eval2 ps lv rho1 b r rho2 ->
    ref_eval2 ps lv rho (XIf c a b) r rho2
| R2_if1_t ps lv rho c a rc rho1 r rho2 :
    ref_eval2 ps lv rho c rc rho1 -> is_false rc = false -> ref_eval2 ps lv rho1 a r rho2 ->
    ref_eval2 ps lv rho (XIf1 c a) r rho2
| R2_if1_f ps lv rho c a rc rho1 :
    ref_eval2 ps lv rho c rc rho1 -> is_false rc = true -> ref_eval2 ps lv rho (XIf1 c a) (RDatum CVoid) rho1
| R2_define ps lv rho x e r rho1 :
    ref_eval2 ps lv rho e r rho1 -> ref_eval2 ps lv rho (XDefine x e) (RDatum CVoid) (upd rho1 x r)
| R2_set ps lv rho x e r rho1 old :
    ref_eval2 ps lv rho e r rho1 -> rho1 x = Some old -> ref_eval2 ps lv rho (XSet x e) (RDatum CVoid) (upd rho1 x r)
| R2_app ps lv rho f args rs rho1 b rho2 r :
    ref_evals2 ps lv rho args rs rho1 -> ref_eval2 ps lv rho1 f (RBuiltin b) rho2 -> bsem b rs = Some r ->
    ref_eval2 ps lv rho (XApp f args) r rho2
| R2_let ps lv rho ps' body args rs rho1 r rho2 :
    ref_evals2 ps lv rho args rs rho1 -> ref_eval2 ps' rs rho1 body r rho2 ->
    ref_eval2 ps lv rho (XLet ps' body args) r rho2
with ref_evals2 : list text -> list rval -> env -> list expr2 -> list rval -> env -> Prop :=
| R2_nil ps lv rho : ref_evals2 ps lv rho [] [] rho
| R2_cons ps lv rho x r rho1 xs rs rho2 :
    ref_eval2 ps lv rho x r rho1 -> ref_evals2 ps lv rho1 xs rs rho2 -> ref_evals2 ps lv rho (x :: xs) (r :: rs) rho2.

(* ============================================================ static context: the lambda header *)
(* [pname s a x]: the operand a is the interned symbol x *)
Definition pname (s : vm) (a : vcell) (x : text) : Prop :=
  exists p, a = VPtr p /\ allocated (hp s) p /\ cell_at (hp s) p = VSym x.
Lemma pname_ext s s' a x : cext s s' -> pname s a x -> pname s' a x.
Proof.
  intros X (p & -> & A & C). destruct (ce_heap _ _ X p A) as [A' C']. exists p. repeat split; try apply A'. congruence.
Qed.
Lemma pnames_ext s s' aps ps : cext s s' -> Forall2 (pname s) aps ps -> Forall2 (pname s') aps ps.
Proof. intros X H. induction H; constructor; [eapply pname_ext; eassumption|assumption]. Qed.

(* the lambda under construction has the parameters ps and an environment map that consists
   of them (nothing captured) *)
Definition hdr (l : lambda) (ps : list text) (s : vm) : Prop :=
  l_envmap l = ScopeProofs.enum_args (l_args l) 0 /\ Forall2 (pname s) (l_args l) ps.
Lemma hdr_ext l ps s s' : cext s s' -> hdr l ps s -> hdr l ps s'.
Proof. intros X [E F]. split; [exact E|eapply pnames_ext; eassumption]. Qed.
Lemma hdr_same l l' ps s : same_hdr l l' -> hdr l ps s -> hdr l' ps s.
Proof. intros (_ & _ & E & A & _) [H1 H2]. split; rewrite ?E, ?A; assumption. Qed.
Lemma top_hdr_hdr l s : top_hdr l -> hdr l [] s.
Proof. intros [E A]. split; rewrite ?E, ?A; [reflexivity|constructor]. Qed.

Lemma fidx_names s aps ps a x : heap_inv (hp s) -> Forall2 (pname s) aps ps ->
  allocated (hp s) a -> cell_at (hp s) a = VSym x ->
  ScopeProofs.fidx (ScopeProofs.sym_is (VPtr a)) aps = pindex x ps.
Proof.
  intros HI F A C. unfold pindex. induction F as [|v y aps ps (p & -> & Ap & Cp) _ IH]; [reflexivity|].
  rewrite !ScopeProofs.fidx_cons, IH. unfold ScopeProofs.sym_is at 1. cbn [vptr_eqb].
  pose proof (same_name_iff_same_cell (hp s) p a y x HI Ap A Cp C) as Hiff.
  destruct (N.eqb_spec p a) as [E|E]; destruct (text_eqb y x) eqn:T; try reflexivity.
  - apply Hiff in E. subst y. rewrite text_eqb_refl in T. discriminate.
  - apply text_eqb_eq in T. apply Hiff in T. contradiction.
Qed.

(* where a variable lives *)
Lemma location_local l ps s a x i : hdr l ps s -> heap_inv (hp s) ->
  allocated (hp s) a -> cell_at (hp s) a = VSym x -> pindex x ps = Some i ->
  location_operand l (VPtr a) s = ROk (VLexSlot i) s.
Proof.
  intros [E F] HI A C Hi. unfold location_operand, binding_location.
  rewrite ScopeProofs.envmap_slot_fidx, E, ScopeProofs.fidx_is_sym_fst, ScopeProofs.enum_args_fst.
  rewrite (fidx_names s _ ps a x HI F A C), Hi. reflexivity.
Qed.
Lemma location_global l ps s a x : hdr l ps s -> heap_inv (hp s) ->
  allocated (hp s) a -> cell_at (hp s) a = VSym x -> pindex x ps = None ->
  location_operand l (VPtr a) s = (dom slot <- get_binding a; ret (VGSlot slot)) s.
Proof.
  intros [E F] HI A C Hi. unfold location_operand, binding_location.
  rewrite ScopeProofs.envmap_slot_fidx, E, ScopeProofs.fidx_is_sym_fst, ScopeProofs.enum_args_fst.
  rewrite (fidx_names s _ ps a x HI F A C), Hi.
  change (find_index (fun a0 => vptr_eqb a0 (VPtr a)) (l_args l) 0)
    with (ScopeProofs.fidx (ScopeProofs.sym_is (VPtr a)) (l_args l)).
  rewrite (fidx_names s _ ps a x HI F A C), Hi. reflexivity.
Qed.

(* ============================================================ compiling a lambda expression *)
Lemma compile_lambda_eq f l tail ps b s :
  compile_expression (S f) l tail (lam_cell ps b) s =
  (dom (formals, vararg) <- (if is_nil (syms_of ps) then ret ([], false) else compile_formals (syms_of ps) []);
   dom free <- lift (free_symbols (lam_cell ps b));
   dom free_refs <- put_cells free;
   dom internal <- lift (internally_defined_symbols (CPair b CNil));
   dom internal_refs <- put_cells internal;
   let lam0 := set_desc (lambda_from_iof formals internal_refs l free_refs vararg) (syms_of ps) in
   let lam1 := if vararg then emit_op lam0 OVarArg else lam0 in
   let lam2 := emit_op lam1 OEnter in
   dom lam3 <- (dom lam' <- compile_expression f lam2 true b; ret lam');
   dom lp <- put_lambda (emit_op lam3 ORet);
   ret (emit_op (emit (emit (emit_op l OMovImmediate) lp) VAcc) OClosureAcc)) s.
Proof. reflexivity. Qed.

Lemma syms_of_nil_iff ps : is_nil (syms_of ps) = match ps with [] => true | _ => false end.
Proof. destruct ps; reflexivity. Qed.

Lemma compile_formals_ok ps : (forall x, In x ps -> is_primitive_symbol (CSym x) = false) ->
  forall acc s, minv s ->
  exists aps s', compile_formals (syms_of ps) acc s = ROk (rev acc ++ aps, false) s' /\ minv s' /\ cext s s' /\
    same_regs s s' /\ Forall2 (pname s') aps ps.
Proof.
  induction ps as [|x ps IH]; intros Hp acc s MI.
  - exists [], s. cbn [syms_of fold_right compile_formals]. rewrite app_nil_r.
    split; [reflexivity|]. split; [exact MI|]. split; [apply cext_refl|]. split; [apply same_regs_refl|constructor].
  - cbn [syms_of fold_right compile_formals is_symbol negb]. fold (syms_of ps).
    rewrite (Hp x (or_introl eq_refl)).
    destruct (put_sym_m_ok x s MI) as (a & s1 & E1 & MI1 & X1 & R1 & A & C & _ & _).
    destruct (IH (fun y Hy => Hp y (or_intror Hy)) (VPtr a :: acc) s1 MI1) as (aps & s2 & E2 & MI2 & X2 & R2 & F2).
    exists (VPtr a :: aps), s2. unfold bindM at 1. rewrite E1, E2. cbn [rev]. rewrite <- app_assoc.
    split; [reflexivity|]. split; [exact MI2|]. split; [eapply cext_trans; eassumption|].
    split; [eapply same_regs_trans; eassumption|]. constructor; [|exact F2].
    eapply pname_ext; [exact X2|]. exists a. auto.
Qed.

Lemma formals_ok ps s : (forall x, In x ps -> is_primitive_symbol (CSym x) = false) -> minv s ->
  exists aps s', (if is_nil (syms_of ps) then ret ([], false) else compile_formals (syms_of ps) []) s
                 = ROk (aps, false) s' /\ minv s' /\ cext s s' /\ same_regs s s' /\ Forall2 (pname s') aps ps.
Proof.
  intros Hp MI. destruct ps as [|x ps].
  - exists [], s. split; [reflexivity|]. split; [exact MI|]. split; [apply cext_refl|]. split; [apply same_regs_refl|constructor].
  - rewrite syms_of_nil_iff. apply (compile_formals_ok (x :: ps) Hp [] s MI).
Qed.

Lemma put_cells_ok fs : forall s, minv s ->
  exists ptrs s', put_cells (map CSym fs) s = ROk ptrs s' /\ minv s' /\ cext s s' /\ same_regs s s' /\
    Forall2 (pname s') ptrs fs.
Proof.
  induction fs as [|x fs IH]; intros s MI.
  - exists [], s. split; [reflexivity|]. split; [exact MI|]. split; [apply cext_refl|]. split; [apply same_regs_refl|constructor].
  - cbn [map put_cells].
    destruct (put_sym_m_ok x s MI) as (a & s1 & E1 & MI1 & X1 & R1 & A & C & _ & _).
    destruct (IH s1 MI1) as (ptrs & s2 & E2 & MI2 & X2 & R2 & F2).
    exists (VPtr a :: ptrs), s2. unfold bindM at 1. rewrite E1. unfold bindM at 1. rewrite E2.
    split; [reflexivity|]. split; [exact MI2|]. split; [eapply cext_trans; eassumption|].
    split; [eapply same_regs_trans; eassumption|]. constructor; [|exact F2].
    eapply pname_ext; [exact X2|]. exists a. auto.
Qed.

(* nothing is captured: the free symbols of the lambda are not parameters of the enclosing one *)
Lemma free_part_nil l ps s frefs fs : hdr l ps s -> heap_inv (hp s) -> Forall2 (pname s) frefs fs ->
  (forall x, In x fs -> pindex x ps = None) -> ScopeProofs.free_part l frefs = [].
Proof.
  intros [E F] HI Fr Hn. unfold ScopeProofs.free_part.
  induction Fr as [|v x frefs fs (a & -> & A & C) _ IH]; [reflexivity|]. cbn [flat_map].
  rewrite IH by (intros y Hy; apply Hn; right; exact Hy).
  rewrite ScopeProofs.envmap_slot_fidx, E, ScopeProofs.fidx_is_sym_fst, ScopeProofs.enum_args_fst.
  rewrite (fidx_names s _ ps a x HI F A C), (Hn x (or_introl eq_refl)).
  change (find_index (fun a0 => vptr_eqb a0 (VPtr a)) (l_args l) 0)
    with (ScopeProofs.fidx (ScopeProofs.sym_is (VPtr a)) (l_args l)).
  rewrite (fidx_names s _ ps a x HI F A C), (Hn x (or_introl eq_refl)). reflexivity.
Qed.

(* a body that is not a definition has no internal definitions *)
Lemma sym_eq_pair a d n : sym_eq (CPair a d) n = false.
Proof. reflexivity. Qed.
Lemma ids_body body ps : wf_expr2 body ps -> is_define body = false ->
  internally_defined_symbols (CPair (cell_of2 body) CNil) = Ok [].
Proof.
  intros Hwf Hd. unfold internally_defined_symbols. cbn [cell_iter].
  destruct body; try discriminate; cbn [cell_of2 ids_loop]; try reflexivity.
  - destruct Hwf as [Hs _]. destruct c; try discriminate; reflexivity.
  - cbn [wf_expr2] in Hwf. destruct Hwf as (Hsp & _). unfold special_head in Hsp.
    apply Bool.orb_false_iff in Hsp as [Hsp _]. apply Bool.orb_false_iff in Hsp as [Hsp _].
    apply Bool.orb_false_iff in Hsp as [Hsp _]. apply Bool.orb_false_iff in Hsp as [Hsp _].
    apply Bool.orb_false_iff in Hsp as [Hsp _]. apply Bool.orb_false_iff in Hsp as [Hsp _].
    apply Bool.orb_false_iff in Hsp as [Hsp _]. rewrite Hsp. reflexivity.
Qed.

(* ============================================================ dynamic context *)
(* what the code of an expression leaves unchanged: [frame], and the existing environments *)
Record frame2 (m m' : vm) : Prop := {
  f2_frame : frame m m';
  f2_envs : forall j, j < next_id (st m) -> tget (envs (st m')) j = tget (envs (st m)) j
}.
Lemma frame2_refl m : frame2 m m.
Proof. split; [apply frame_refl|auto]. Qed.
Lemma frame2_trans a b c : frame2 a b -> frame2 b c -> frame2 a c.
Proof.
  intros [F1 E1] [F2 E2]. split; [eapply frame_trans; eassumption|].
  intros j Hj. rewrite E2, E1; auto. destruct (ce_store _ _ (fr_ext _ _ F1)). lia.
Qed.
Lemma same_mem_frame2 m m' : same_mem m m' -> frame2 m m'.
Proof.
  intros SM. split; [apply same_mem_frame; exact SM|]. destruct SM as (_ & Es & _). intros j _. rewrite Es. reflexivity.
Qed.
Lemma frame2_rext m m' : frame2 m m' -> rext m m'.
Proof. intros [F E]. split; [apply F|exact E]. Qed.

(* the parameters of the running lambda: slot i of the environment %ep points to holds a
   representation of the i-th value *)
Definition lrel (lv : list rval) (m : vm) : Prop :=
  forall i r, nth_error lv (N.to_nat i) = Some r ->
  exists eid slots v, allocated (hp m) (ep m) /\ cell_at (hp m) (ep m) = VLexEnv eid /\
    eid < next_id (st m) /\ tget (envs (st m)) eid = Some slots /\ list_get slots i = Some v /\
    vrep v r (hp m) (st m).
Lemma lrel_nil m : lrel [] m.
Proof. intros i r H. destruct (N.to_nat i); discriminate. Qed.
Lemma lrel_rext lv m m' : rext m m' -> ep m' = ep m -> lrel lv m -> lrel lv m'.
Proof.
  intros [X E] Hep L i r Hi. destruct (L i r Hi) as (eid & slots & v & A & C & Lt & T & G & V).
  destruct (ce_heap _ _ X _ A) as [A' C']. exists eid, slots, v. rewrite Hep.
  split; [exact A'|]. split; [congruence|]. split; [destruct (ce_store _ _ X); lia|].
  split; [rewrite E; assumption|]. split; [exact G|]. eapply vrep_ext; [exact V|apply cext_ext; exact X].
Qed.
Lemma lrel_frame2 lv m m' : frame2 m m' -> lrel lv m -> lrel lv m'.
Proof. intros F. apply lrel_rext; [apply frame2_rext; exact F|apply F]. Qed.

Lemma vrep_not_lexptr v r h s : vrep v r h s -> forall e j, v <> VLexPtr e j.
Proof.
  intros H e j ->. destruct r as [c|b]; cbn [vrep] in H.
  - destruct H as [R _]. destruct (R h s (ext_refl h s)) as [n Hn]. specialize (Hn (S n) ltac:(lia)). discriminate.
  - destruct H as (p & E & _). discriminate.
Qed.

(* the current frame (TailProofs.frame_at) lies below %sp *)
Definition tframe (m : vm) : Prop := exists k e i b, frame_at m k e i b /\ bp m + 4 <= sp m.
Lemma frame_at_keep m m' k e i b : frame_at m k e i b -> bp m + 4 <= sp m -> bp m' = bp m ->
  (forall j, j <= sp m -> sget m' j = sget m j) -> frame_at m' k e i b.
Proof.
  intros (H1 & H2 & H3 & H4 & H5) Hsp Hb Hk. unfold frame_at. rewrite Hb, !Hk by lia. auto.
Qed.
Lemma tframe_frame2 m m' : frame2 m m' -> tframe m -> tframe m'.
Proof.
  intros [F _] (k & e & i & b & Hf & Hsp). exists k, e, i, b.
  split; [eapply frame_at_keep; [exact Hf|exact Hsp|apply F|apply F]|]. rewrite (fr_bp _ _ F), (fr_sp _ _ F). exact Hsp.
Qed.

(* normal completion: the next instruction, registers and the stack below %sp as before *)
Definition ok_n (m : vm) (lp q : N) (r : rval) (rho' : env) : Prop :=
  exists n m', steps n m = Some m' /\ frame2 m m' /\ minv m' /\ ip m' = (lp, q) /\
    vrep (acc m') r (hp m') (st m') /\ genv_rel rho' m'.
(* completion through a tail call: the state the RET of the current frame produces *)
Definition ok_t (m : vm) (r : rval) (rho' : env) : Prop :=
  exists n m' k e i b, steps n m = Some m' /\ frame_at m k e i b /\ rext m m' /\ minv m' /\
    vrep (acc m') r (hp m') (st m') /\ genv_rel rho' m' /\
    sp m' = bp m - k /\ ep m' = e /\ ip m' = i /\ bp m' = b /\ out_log m' = out_log m /\
    (forall j, j <= bp m - k -> sget m' j = sget m j).

Lemma ok_t_pre m m1 n1 r rho' : steps n1 m = Some m1 -> frame2 m m1 -> bp m + 4 <= sp m ->
  ok_t m1 r rho' -> ok_t m r rho'.
Proof.
  intros St F Hsp (n & m' & k & e & i & b & St' & Hf & X & MI & V & G & E1 & E2 & E3 & E4 & E5 & K).
  pose proof (f2_frame _ _ F) as F0.
  assert (Hf0 : frame_at m k e i b).
  { destruct Hf as (H1 & H2 & H3 & H4 & H5). unfold frame_at.
    rewrite (fr_bp _ _ F0) in *. rewrite !(fr_stack _ _ F0) in * by lia. auto. }
  exists (n1 + n)%nat, m', k, e, i, b. split; [eapply steps_trans; eassumption|]. split; [exact Hf0|].
  split; [eapply rext_trans; [apply frame2_rext; exact F|exact X]|]. split; [exact MI|]. split; [exact V|].
  split; [exact G|]. rewrite (fr_bp _ _ F0) in *. split; [exact E1|]. split; [exact E2|]. split; [exact E3|].
  split; [exact E4|]. split; [rewrite E5; apply F0|].
  intros j Hj. rewrite K by exact Hj. apply (fr_stack _ _ F0). destruct Hf0 as (_ & _ & _ & _ & H5). lia.
Qed.

(* [exec2 s0 p code tail lv rho r rho']: on every machine that extends s0, holds [code] at
   [p, p + len code) of the current lambda, whose %ep environment holds lv: execution from
   ip = p computes r — ending at p + len code (ok_n), or, for code compiled in tail position
   inside a frame, possibly by returning from that frame (ok_t) *)
Definition exec2 (s0 : vm) (p : N) (code : list vcell) (tail : bool) (lv : list rval)
                 (rho : env) (r : rval) (rho' : env) : Prop :=
  forall m lp bc,
    cext s0 m -> minv m -> code_in m lp bc -> seg bc p code -> ip m = (lp, p) -> genv_rel rho m ->
    lrel lv m -> (tail = true -> tframe m) ->
    ok_n m lp (p + len code) r rho' \/ (tail = true /\ ok_t m r rho').

Lemma exec2_n s0 p code lv rho r rho' : exec2 s0 p code false lv rho r rho' ->
  forall m lp bc, cext s0 m -> minv m -> code_in m lp bc -> seg bc p code -> ip m = (lp, p) -> genv_rel rho m ->
    lrel lv m -> ok_n m lp (p + len code) r rho'.
Proof.
  intros EX m lp bc X MI Hc Hs Hip G L.
  destruct (EX m lp bc X MI Hc Hs Hip G L ltac:(discriminate)) as [H|[H _]]; [exact H|discriminate].
Qed.
Lemma exec2_ext s s' p code tail lv rho r rho' : cext s' s ->
  exec2 s' p code tail lv rho r rho' -> exec2 s p code tail lv rho r rho'.
Proof. intros Xs EX m lp bc Xm. apply EX. eapply cext_trans; eassumption. Qed.

Definition compile_ok2 (ps : list text) (e : expr2) : Prop :=
  forall f l tail s, (cell_size (cell_of2 e) < f)%nat -> hdr l ps s -> minv s ->
  exists l' s' code, compile_expression f l tail (cell_of2 e) s = ROk l' s' /\
    fwd l' = fwd l ++ code /\ same_hdr l l' /\ minv s' /\ cext s s' /\ same_regs s s' /\
    forall lv rho r rho', ref_eval2 ps lv rho e r rho' -> exec2 s' (len (fwd l)) code tail lv rho r rho'.

(* one instruction that changes %ip and %acc only *)
Lemma ok_n_same_mem m m' lp q r rho : run_one m = ROk false m' -> same_mem m m' -> minv m ->
  ip m' = (lp, q) -> vrep (acc m') r (hp m') (st m') -> genv_rel rho m -> ok_n m lp q r rho.
Proof.
  intros E SM MI Hip V G. exists 1%nat, m'. split; [apply steps_one; exact E|].
  split; [apply same_mem_frame2; exact SM|]. split; [eapply same_mem_minv; eassumption|].
  split; [exact Hip|]. split; [exact V|].
  eapply genv_rel_frame; [apply same_mem_frame; exact SM|apply SM|exact G].
Qed.

Lemma exec2_movimm s0 p v r tail lv rho : vrep v r (hp s0) (st s0) ->
  exec2 s0 p [VOp OMovImmediate; v; VAcc] tail lv rho r rho.
Proof.
  intros V m lp bc X MI Hc Hs Hip G L _. left.
  pose proof (vrep_ext _ _ _ _ _ _ V (cext_ext _ _ X)) as V'.
  pose proof (step_movimm ob m lp p bc v Hc Hip Hs (vrep_not_op _ _ _ _ V')) as E.
  eapply ok_n_same_mem; [exact E|repeat split|exact MI|reflexivity|exact V'|exact G].
Qed.

Lemma exec2_load_global s0 p a k x tail lv rho r :
  allocated (hp s0) a -> cell_at (hp s0) a = VSym x -> assoc_find (g_bind s0) a = Some k ->
  rho x = Some r -> r <> RDatum CUndef ->
  exec2 s0 p [VOp OMov; VGSlot k; VAcc] tail lv rho r rho.
Proof.
  intros A C B Hx Hr m lp bc X MI Hc Hs Hip G L _. left.
  destruct (G x r Hx) as (a' & k' & v & A' & C' & B' & Lk & V).
  destruct (ce_heap _ _ X a A) as [Am Cm]. rewrite C in Cm.
  assert (a = a') as <- by (apply (same_name_iff_same_cell (hp m) a a' x x (mi_heap _ MI) Am A' Cm C'); reflexivity).
  pose proof (ce_bind _ _ X a k B) as Bm. assert (k' = k) as -> by congruence.
  pose proof (step_load_global ob m lp p bc k v Hc Hip Hs Lk (vrep_not_undef _ _ _ _ V Hr)) as E.
  eapply ok_n_same_mem; [exact E|repeat split|exact MI|reflexivity|exact V|exact G].
Qed.

Lemma exec2_load_local s0 p i tail lv rho r : nth_error lv (N.to_nat i) = Some r ->
  exec2 s0 p [VOp OMov; VLexSlot i; VAcc] tail lv rho r rho.
Proof.
  intros Hi m lp bc X MI Hc Hs Hip G L _. left.
  destruct (L i r Hi) as (eid & slots & v & A & C & Lt & T & Gs & V).
  assert (Hg : heap_get (hp m) (ep m) = Ok (VLexEnv eid)) by (rewrite (heap_get_alloc _ _ A), C; reflexivity).
  pose proof (step_load_lex ob m lp p bc i eid slots v Hc Hip Hs Hg T Gs (vrep_not_lexptr _ _ _ _ V)) as E.
  eapply ok_n_same_mem; [exact E|repeat split|exact MI|reflexivity|exact V|exact G].
Qed.

(* ------------------------------------------------------------ constants, quote *)
Lemma cok2_datum ps (e : expr2) d :
  (forall f l tail, compile_expression (S f) l tail (cell_of2 e) =
     (dom v <- maybe_put_cell_m d; ret (emit (emit (emit_op l OMovImmediate) v) VAcc))) ->
  heap_datum d -> (forall lv rho r rho', ref_eval2 ps lv rho e r rho' -> r = RDatum d /\ rho' = rho) ->
  compile_ok2 ps e.
Proof.
  intros Heq Hd Hinv f l tail s Hf Hh MI. destruct f as [|f]; [lia|]. rewrite Heq.
  destruct (maybe_put_cell_m_ok d s Hd MI) as (v & s' & E & MI' & X & R & V).
  exists (emit (emit (emit_op l OMovImmediate) v) VAcc), s', [VOp OMovImmediate; v; VAcc].
  unfold bindM. rewrite E. split; [reflexivity|]. split; [apply fwd_emit3|]. split; [repeat split|].
  split; [exact MI'|]. split; [exact X|]. split; [exact R|].
  intros lv rho r rho' HR. destruct (Hinv _ _ _ _ HR) as [-> ->]. apply exec2_movimm. exact V.
Qed.

Lemma cok2_const ps c : wf_expr2 (XConst c) ps -> compile_ok2 ps (XConst c).
Proof.
  intros [Hs Hd]. apply (cok2_datum ps (XConst c) c); [intros; apply compile_const_eq; [exact Hs|exact Hd]|exact Hd|].
  intros lv rho r rho' HR. inversion HR; subst. auto.
Qed.
Lemma cok2_quote ps d : wf_expr2 (XQuote d) ps -> compile_ok2 ps (XQuote d).
Proof.
  intros Hd. apply (cok2_datum ps (XQuote d) d); [intros; apply compile_quote_form; exact Hd|exact Hd|].
  intros lv rho r rho' HR. inversion HR; subst. auto.
Qed.

(* ------------------------------------------------------------ variables *)
Lemma cok2_var ps x : wf_expr2 (XVar x) ps -> compile_ok2 ps (XVar x).
Proof.
  intros Hx f l tail s Hf Hh MI. destruct f as [|f]; [lia|]. cbn [cell_of2]. rewrite (compile_var_eq _ _ _ _ _ Hx).
  destruct (put_sym_m_ok x s MI) as (a & s1 & E1 & MI1 & X1 & R1 & A & C & Eb & Eg).
  pose proof (hdr_ext _ _ _ _ X1 Hh) as Hh1.
  destruct (pindex x ps) as [i|] eqn:Ei.
  - exists (emit (emit (emit_op l OMov) (VLexSlot i)) VAcc), s1, [VOp OMov; VLexSlot i; VAcc].
    unfold bindM at 1. rewrite E1. unfold bindM at 1.
    rewrite (location_local l ps s1 a x i Hh1 (mi_heap _ MI1) A C Ei).
    split; [reflexivity|]. split; [apply fwd_emit3|]. split; [repeat split|].
    split; [exact MI1|]. split; [exact X1|]. split; [exact R1|].
    intros lv rho r rho' HR. inversion HR; subst; [|congruence].
    assert (i0 = i) as -> by congruence. apply exec2_load_local. assumption.
  - destruct (get_binding_ok a s1 MI1) as (k & s2 & E2 & MI2 & X2 & R2 & Eh & Es & B).
    exists (emit (emit (emit_op l OMov) (VGSlot k)) VAcc), s2, [VOp OMov; VGSlot k; VAcc].
    unfold bindM at 1. rewrite E1. unfold bindM at 1.
    rewrite (location_global l ps s1 a x Hh1 (mi_heap _ MI1) A C Ei).
    unfold bindM at 1. rewrite E2. split; [reflexivity|]. split; [apply fwd_emit3|]. split; [repeat split|].
    split; [exact MI2|]. split; [eapply cext_trans; eassumption|]. split; [eapply same_regs_trans; eassumption|].
    intros lv rho r rho' HR. inversion HR; subst; [congruence|].
    apply (exec2_load_global s2 _ a k x); auto; rewrite Eh; assumption.
Qed.

(* ------------------------------------------------------------ define / set! (global) *)
Lemma exec_store_tail2 m1 lp bc i a k x rho r :
  minv m1 -> code_in m1 lp bc ->
  seg bc i [VOp OMov; VAcc; VGSlot k; VOp OMovImmediate; VVoid; VAcc] -> ip m1 = (lp, i) ->
  allocated (hp m1) a -> cell_at (hp m1) a = VSym x -> assoc_find (g_bind m1) a = Some k ->
  vrep (acc m1) r (hp m1) (st m1) -> genv_rel rho m1 ->
  exists m3, steps 2 m1 = Some m3 /\ frame2 m1 m3 /\ minv m3 /\ ip m3 = (lp, i + 6) /\
    acc m3 = VVoid /\ genv_rel (upd rho x r) m3.
Proof.
  intros MI Hc Hs Hip A C B V G.
  change [VOp OMov; VAcc; VGSlot k; VOp OMovImmediate; VVoid; VAcc]
    with ([VOp OMov; VAcc; VGSlot k] ++ [VOp OMovImmediate; VVoid; VAcc]) in Hs.
  apply seg_app in Hs as [Hs1 Hs2]. rewrite len3 in Hs2.
  assert (Hk : k < len (g_slots m1)) by (apply (proj1 (mi_glob _ MI) a); exact B).
  pose proof (step_store_global ob m1 lp i bc k Hc Hip Hs1 Hk) as E1.
  set (m2 := with_globals (with_ip m1 (lp, i + 3)) (g_bind m1) (list_set (g_slots m1) k (acc m1))) in *.
  assert (Hc2 : code_in m2 lp bc) by (eapply code_in_regs; [| |exact Hc]; reflexivity).
  pose proof (step_movimm ob m2 lp (i + 3) bc VVoid Hc2 eq_refl Hs2 ltac:(discriminate)) as E2.
  set (m3 := with_acc (with_ip m2 (lp, i + 3 + 3)) VVoid) in *.
  exists m3. split; [eapply (steps_trans ob 1 1); apply steps_one; eassumption|].
  assert (F : frame m1 m3).
  { constructor; try reflexivity; auto.
    apply cext_same; try reflexivity. cbn [g_slots m3 m2 with_acc with_ip with_globals].
    rewrite list_set_len. lia. }
  split; [split; [exact F|intros j _; reflexivity]|]. split.
  { destruct MI as [HI [G1 G2] SP]. constructor; [exact HI| |exact SP].
    split; cbn [g_bind g_slots m3 m2 with_acc with_ip with_globals]; [|exact G2].
    intros a0 k0 H0. rewrite list_set_len. eapply G1. exact H0. }
  split; [cbn [ip m3 with_acc with_ip]; f_equal; lia|]. split; [reflexivity|].
  intros y ry Hy. unfold upd in Hy. destruct (text_eqb y x) eqn:Eyx.
  - apply text_eqb_eq in Eyx. subst y. injection Hy as <-.
    exists a, k, (acc m1). split; [exact A|]. split; [exact C|]. split; [exact B|].
    split; [|exact V]. cbn [g_slots m3 m2 with_acc with_ip with_globals]. apply list_get_set_same. exact Hk.
  - destruct (G y ry Hy) as (ay & ky & vy & Ay & Cy & By & Ly & Vy).
    exists ay, ky, vy. split; [exact Ay|]. split; [exact Cy|]. split; [exact By|]. split; [|exact Vy].
    cbn [g_slots m3 m2 with_acc with_ip with_globals]. rewrite list_get_set_other; [exact Ly|].
    intros <-. assert (a = ay) as <- by (eapply (proj2 (mi_glob _ MI)); eassumption).
    rewrite C in Cy. injection Cy as <-. rewrite text_eqb_refl in Eyx. discriminate.
Qed.

Lemma cok2_store ps (e0 : expr2) x e :
  (forall f l tail s, compile_expression (S f) l tail (cell_of2 e0) s =
    (dom l1 <- compile_expression f l false (cell_of2 e);
     dom sym_ref <- put_cell_m (CSym x);
     dom operand <- location_operand (emit (emit_op l1 OMov) VAcc) sym_ref;
     ret (emit (emit (emit_op (emit (emit (emit_op l1 OMov) VAcc) operand) OMovImmediate) VVoid) VAcc)) s) ->
  (cell_size (cell_of2 e) < cell_size (cell_of2 e0))%nat -> pindex x ps = None ->
  (forall lv rho r rho', ref_eval2 ps lv rho e0 r rho' ->
     exists r1 rho1, ref_eval2 ps lv rho e r1 rho1 /\ r = RDatum CVoid /\ rho' = upd rho1 x r1) ->
  compile_ok2 ps e -> compile_ok2 ps e0.
Proof.
  intros Heq Hsz Hpx Hinv IH f l tail s Hf Hh MI. destruct f as [|f]; [lia|]. rewrite Heq.
  destruct (IH f l false s ltac:(lia) Hh MI) as (l1 & s1 & code & E1 & F1 & S1 & MI1 & X1 & R1 & EX1).
  destruct (put_sym_m_ok x s1 MI1) as (a & s2 & E2 & MI2 & X2 & R2 & A & C & Eb & Eg).
  destruct (get_binding_ok a s2 MI2) as (k & s3 & E3 & MI3 & X3 & R3 & Eh & Es & B).
  assert (Hh2 : hdr (emit (emit_op l1 OMov) VAcc) ps s2).
  { eapply hdr_same; [|eapply hdr_ext; [|exact Hh]].
    - eapply same_hdr_trans; [exact S1|repeat split].
    - eapply cext_trans; eassumption. }
  eexists; exists s3, (code ++ [VOp OMov; VAcc; VGSlot k; VOp OMovImmediate; VVoid; VAcc]).
  unfold bindM at 1. rewrite E1. unfold bindM at 1. rewrite E2. unfold bindM at 1.
  rewrite (location_global _ ps s2 a x Hh2 (mi_heap _ MI2) A C Hpx). unfold bindM at 1. rewrite E3.
  split; [reflexivity|]. split; [rewrite fwd_store, F1, <- app_assoc; reflexivity|].
  split; [eapply same_hdr_trans; [exact S1|repeat split]|]. split; [exact MI3|].
  assert (X13 : cext s1 s3) by (eapply cext_trans; eassumption).
  split; [eapply cext_trans; eassumption|].
  split; [eapply same_regs_trans; [exact R1|]; eapply same_regs_trans; eassumption|].
  intros lv rho r rho' HR. destruct (Hinv _ _ _ _ HR) as (r1 & rho1 & HR1 & -> & ->).
  intros m lp bc X MIm Hc Hs Hip G L _. left. apply seg_app in Hs as [Hs1 Hs2].
  destruct (exec2_n _ _ _ _ _ _ _ (EX1 _ _ _ _ HR1) m lp bc (cext_trans _ _ _ X13 X) MIm Hc Hs1 Hip G L)
    as (n1 & m1 & St1 & Fr1 & MIm1 & Hip1 & V1 & G1).
  pose proof (f2_frame _ _ Fr1) as Fr1'.
  assert (X3m1 : cext s3 m1) by (eapply cext_trans; [exact X|apply Fr1']).
  destruct (ce_heap _ _ X3m1 a) as [A1 C1]; [rewrite Eh; exact A|]. rewrite Eh, C in C1.
  pose proof (ce_bind _ _ X3m1 a k B) as B1.
  destruct (exec_store_tail2 m1 lp bc _ a k x rho1 r1 MIm1 (code_in_ext _ _ _ _ Hc (fr_ext _ _ Fr1')) Hs2 Hip1 A1 C1 B1 V1 G1)
    as (m3 & St3 & Fr3 & MIm3 & Hip3 & Hacc & G3).
  exists (n1 + 2)%nat, m3. split; [eapply steps_trans; eassumption|].
  split; [eapply frame2_trans; eassumption|]. split; [exact MIm3|].
  split; [rewrite Hip3, len_app; f_equal; change (len [VOp OMov; VAcc; VGSlot k; VOp OMovImmediate; VVoid; VAcc]) with 6; lia|].
  split; [rewrite Hacc; apply vrep_void|exact G3].
Qed.

Lemma cok2_define ps x e : wf_expr2 (XDefine x e) ps -> compile_ok2 ps e -> compile_ok2 ps (XDefine x e).
Proof.
  intros (Hx & Hp & _). apply (cok2_store ps (XDefine x e) x e).
  - intros. apply compile_define_eq. exact Hx.
  - cbn [cell_of2 cell_size]. lia.
  - exact Hp.
  - intros lv rho r rho' HR. inversion HR; subst. eauto.
Qed.
Lemma cok2_set ps x e : wf_expr2 (XSet x e) ps -> compile_ok2 ps e -> compile_ok2 ps (XSet x e).
Proof.
  intros (Hx & Hp & _). apply (cok2_store ps (XSet x e) x e).
  - intros. apply compile_set_eq. exact Hx.
  - cbn [cell_of2 cell_size]. lia.
  - exact Hp.
  - intros lv rho r rho' HR. inversion HR; subst. eauto.
Qed.

(* ------------------------------------------------------------ if *)
Lemma exec2_if s0 p cc ca cb X Y tail lv rho rc rho1 r rho2 (else_branch : bool) :
  X = p + len cc + 2 + len ca + 2 -> Y = X + len cb ->
  exec2 s0 p cc false lv rho rc rho1 ->
  is_false rc = else_branch ->
  (if else_branch then exec2 s0 X cb tail lv rho1 r rho2
   else exec2 s0 (p + len cc + 2) ca tail lv rho1 r rho2) ->
  exec2 s0 p (cc ++ [VOp OJnt; VPtr X] ++ ca ++ [VOp OJmp; VPtr Y] ++ cb) tail lv rho r rho2.
Proof.
  intros HX HY EXc Hrc EXb m lp bc Xm MI Hc Hs Hip G L Ht.
  apply seg_app in Hs as [Hsc Hs]. apply seg_app in Hs as [Hsj Hs]. rewrite len2 in Hs.
  apply seg_app in Hs as [Hsa Hs]. apply seg_app in Hs as [Hsm Hsb]. rewrite len2 in Hsb.
  destruct (exec2_n _ _ _ _ _ _ _ EXc m lp bc Xm MI Hc Hsc Hip G L) as (n1 & m1 & St1 & Fr1 & MI1 & Hip1 & V1 & G1).
  pose proof (f2_frame _ _ Fr1) as Fr1'.
  destruct (vrep_truth _ _ _ _ V1) as (w & Hw & Hwf).
  pose proof (code_in_ext _ _ _ _ Hc (fr_ext _ _ Fr1')) as Hc1.
  pose proof (step_jnt ob m1 lp _ bc X w Hc1 Hip1 Hsj Hw) as E2. fold (vfalse w) in E2.
  set (m2 := with_ip m1 (lp, if vfalse w then X else p + len cc + 2)) in *.
  assert (SM2 : same_mem m1 m2) by (repeat split).
  pose proof (same_mem_frame2 _ _ SM2) as Fr2.
  pose proof (same_mem_minv _ _ SM2 MI1) as MI2.
  assert (Hc2 : code_in m2 lp bc) by (apply code_in_ip; exact Hc1).
  assert (G2 : genv_rel rho1 m2) by (eapply genv_rel_frame; [apply Fr2|reflexivity|exact G1]).
  assert (X2 : cext s0 m2) by (eapply cext_trans; [exact Xm|]; eapply cext_trans; [apply Fr1'|apply Fr2]).
  assert (Fr02 : frame2 m m2) by (eapply frame2_trans; eassumption).
  assert (L2 : lrel lv m2) by (eapply lrel_frame2; eassumption).
  assert (Ht2 : tail = true -> tframe m2) by (intros E; eapply tframe_frame2; [exact Fr02|auto]).
  assert (St02 : steps (n1 + 1) m = Some m2) by (eapply steps_trans; [exact St1|apply steps_one; exact E2]).
  assert (Htail : forall r' rho', tail = true /\ ok_t m2 r' rho' -> tail = true /\ ok_t m r' rho').
  { intros r' rho' [Et Ok]. split; [exact Et|]. destruct (Ht Et) as (k & e & i & b & _ & Hsp).
    eapply ok_t_pre; eassumption. }
  destruct else_branch.
  - assert (Hv : vfalse w = true) by (apply vfalse_iff, Hwf; exact Hrc).
    assert (Hip2 : ip m2 = (lp, X)) by (unfold m2; rewrite Hv; reflexivity).
    replace (p + len cc + 2 + len ca + 2) with X in Hsb by lia.
    destruct (EXb m2 lp bc X2 MI2 Hc2 Hsb Hip2 G2 L2 Ht2) as [(n3 & m3 & St3 & Fr3 & MI3 & Hip3 & V3 & G3)|Hr];
      [left|right; apply Htail; exact Hr].
    exists (n1 + 1 + n3)%nat, m3.
    split; [eapply steps_trans; eassumption|].
    split; [eapply frame2_trans; eassumption|]. split; [exact MI3|].
    split; [rewrite Hip3; f_equal; lens; lia|]. split; assumption.
  - assert (Hv : vfalse w = false).
    { destruct (vfalse w) eqn:Ev; [|reflexivity]. apply vfalse_iff, Hwf in Ev. congruence. }
    assert (Hip2 : ip m2 = (lp, p + len cc + 2)) by (unfold m2; rewrite Hv; reflexivity).
    destruct (EXb m2 lp bc X2 MI2 Hc2 Hsa Hip2 G2 L2 Ht2) as [(n3 & m3 & St3 & Fr3 & MI3 & Hip3 & V3 & G3)|Hr];
      [left|right; apply Htail; exact Hr].
    pose proof (code_in_ext _ _ _ _ Hc2 (fr_ext _ _ (f2_frame _ _ Fr3))) as Hc3.
    pose proof (step_jmp ob m3 lp _ bc Y Hc3 Hip3 Hsm) as E4.
    set (m4 := with_ip m3 (lp, Y)) in *.
    assert (SM4 : same_mem m3 m4) by (repeat split).
    exists (n1 + 1 + n3 + 1)%nat, m4.
    split; [eapply steps_trans; [eapply steps_trans; [exact St02|exact St3]|apply steps_one; exact E4]|].
    split; [eapply frame2_trans; [eapply frame2_trans; eassumption|apply same_mem_frame2; exact SM4]|].
    split; [eapply same_mem_minv; eassumption|].
    split; [cbn [ip m4 with_ip]; f_equal; lens; lia|].
    split; [exact V3|]. eapply genv_rel_frame; [apply same_mem_frame; exact SM4|reflexivity|exact G3].
Qed.

Lemma cok2_if ps c a b : compile_ok2 ps c -> compile_ok2 ps a -> compile_ok2 ps b -> compile_ok2 ps (XIf c a b).
Proof.
  intros IHc IHa IHb f l tail s Hf Hh MI. destruct f as [|f]; [lia|].
  cbn [cell_of2] in *. cbn [cell_size] in Hf. rewrite compile_if3_eq.
  destruct (IHc f l false s ltac:(lia) Hh MI) as (l1 & s1 & cc & E1 & F1 & S1 & MI1 & X1 & R1 & EX1).
  set (l3 := emit (emit_op l1 OJnt) (VPtr CAFEBEEF)).
  assert (S3 : same_hdr l l3) by (eapply same_hdr_trans; [exact S1|repeat split]).
  destruct (IHa f l3 tail s1 ltac:(lia) (hdr_same _ _ _ _ S3 (hdr_ext _ _ _ _ X1 Hh)) MI1)
    as (l4 & s2 & ca & E4 & F4 & S4 & MI2 & X2 & R2 & EX4).
  destruct (if_layout l l1 l4 cc ca F1 F4) as [L6 F7].
  set (l6 := emit (emit_op l4 OJmp) (VPtr CAFEBEEF)) in *.
  set (l7 := bc_patch l6 (bc_len (emit_op l1 OJnt)) (VPtr (bc_len l6))) in *.
  assert (S7 : same_hdr l l7).
  { eapply same_hdr_trans; [exact S3|]. eapply same_hdr_trans; [exact S4|]. repeat split. }
  assert (X12 : cext s s2) by (eapply cext_trans; eassumption).
  destruct (IHb f l7 tail s2 ltac:(lia) (hdr_same _ _ _ _ S7 (hdr_ext _ _ _ _ X12 Hh)) MI2)
    as (l8 & s3 & cb & E8 & F8 & S8 & MI3 & X3 & R3 & EX8).
  set (p := len (fwd l)) in *.
  assert (L7 : len (fwd l7) = bc_len l6).
  { rewrite F7, L6. lens. fold p. lia. }
  assert (L3 : len (fwd l3) = p + len cc + 2).
  { unfold l3. rewrite fwd_emit, fwd_emit_op, F1. lens. fold p. lia. }
  assert (L8 : bc_len l8 = bc_len l6 + len cb) by (rewrite (bc_len_fwd l8), F8, len_app, L7; reflexivity).
  exists (bc_patch l8 (bc_len (emit_op l4 OJmp)) (VPtr (bc_len l8))), s3,
         (cc ++ [VOp OJnt; VPtr (bc_len l6)] ++ ca ++ [VOp OJmp; VPtr (bc_len l8)] ++ cb).
  unfold bindM at 1. rewrite E1. unfold bindM at 1. fold l3. rewrite E4. unfold bindM at 1. fold l6 l7. rewrite E8.
  split; [reflexivity|]. split.
  { rewrite (if_final l8 l4 (fwd l ++ cc ++ [VOp OJnt; VPtr (bc_len l6)] ++ ca) cb).
    - rewrite <- !app_assoc. reflexivity.
    - rewrite F8, F7, <- !app_assoc. reflexivity.
    - rewrite bc_len_fwd, fwd_emit_op, F4. lens. rewrite L3. lens. fold p. lia. }
  split; [eapply same_hdr_trans; [exact S7|]; eapply same_hdr_trans; [exact S8|repeat split]|].
  split; [exact MI3|].
  assert (X23 : cext s2 s3) by exact X3.
  assert (X13 : cext s1 s3) by (eapply cext_trans; eassumption).
  split; [eapply cext_trans; eassumption|].
  split; [eapply same_regs_trans; [exact R1|]; eapply same_regs_trans; eassumption|].
  intros lv rho r rho' HR. inversion HR; subst.
  - apply (exec2_if s3 p cc ca cb _ _ tail lv rho rc rho1 r rho' false L6 L8).
    + apply (exec2_ext s3 s1); [exact X13|]. apply EX1. assumption.
    + assumption.
    + cbv iota. rewrite <- L3. apply (exec2_ext s3 s2); [exact X23|]. apply EX4. assumption.
  - apply (exec2_if s3 p cc ca cb _ _ tail lv rho rc rho1 r rho' true L6 L8).
    + apply (exec2_ext s3 s1); [exact X13|]. apply EX1. assumption.
    + assumption.
    + cbv iota. rewrite <- L7. apply EX8. assumption.
Qed.

Lemma cok2_if1 ps c a : compile_ok2 ps c -> compile_ok2 ps a -> compile_ok2 ps (XIf1 c a).
Proof.
  intros IHc IHa f l tail s Hf Hh MI. destruct f as [|f]; [lia|].
  cbn [cell_of2] in *. cbn [cell_size] in Hf. rewrite compile_if2_eq.
  destruct (IHc f l false s ltac:(lia) Hh MI) as (l1 & s1 & cc & E1 & F1 & S1 & MI1 & X1 & R1 & EX1).
  set (l3 := emit (emit_op l1 OJnt) (VPtr CAFEBEEF)).
  assert (S3 : same_hdr l l3) by (eapply same_hdr_trans; [exact S1|repeat split]).
  destruct (IHa f l3 tail s1 ltac:(lia) (hdr_same _ _ _ _ S3 (hdr_ext _ _ _ _ X1 Hh)) MI1)
    as (l4 & s2 & ca & E4 & F4 & S4 & MI2 & X2 & R2 & EX4).
  destruct (if_layout l l1 l4 cc ca F1 F4) as [L6 F7].
  set (l6 := emit (emit_op l4 OJmp) (VPtr CAFEBEEF)) in *.
  set (l7 := bc_patch l6 (bc_len (emit_op l1 OJnt)) (VPtr (bc_len l6))) in *.
  assert (S7 : same_hdr l l7).
  { eapply same_hdr_trans; [exact S3|]. eapply same_hdr_trans; [exact S4|]. repeat split. }
  set (cb := [VOp OMovImmediate; VVoid; VAcc]).
  set (l8 := emit (emit (emit_op l7 OMovImmediate) VVoid) VAcc).
  assert (F8 : fwd l8 = fwd l7 ++ cb) by apply fwd_emit3.
  set (p := len (fwd l)) in *.
  assert (L7 : len (fwd l7) = bc_len l6).
  { rewrite F7, L6. lens. fold p. lia. }
  assert (L3 : len (fwd l3) = p + len cc + 2).
  { unfold l3. rewrite fwd_emit, fwd_emit_op, F1. lens. fold p. lia. }
  assert (L8 : bc_len l8 = bc_len l6 + len cb) by (rewrite (bc_len_fwd l8), F8, len_app, L7; reflexivity).
  exists (bc_patch l8 (bc_len (emit_op l4 OJmp)) (VPtr (bc_len l8))), s2,
         (cc ++ [VOp OJnt; VPtr (bc_len l6)] ++ ca ++ [VOp OJmp; VPtr (bc_len l8)] ++ cb).
  unfold bindM at 1. rewrite E1. unfold bindM at 1. fold l3. rewrite E4.
  split; [reflexivity|]. split.
  { rewrite (if_final l8 l4 (fwd l ++ cc ++ [VOp OJnt; VPtr (bc_len l6)] ++ ca) cb).
    - rewrite <- !app_assoc. reflexivity.
    - rewrite F8, F7, <- !app_assoc. reflexivity.
    - rewrite bc_len_fwd, fwd_emit_op, F4. lens. rewrite L3. lens. fold p. lia. }
  split; [eapply same_hdr_trans; [exact S7|repeat split]|].
  split; [exact MI2|].
  split; [eapply cext_trans; eassumption|]. split; [eapply same_regs_trans; eassumption|].
  intros lv rho r rho' HR. inversion HR; subst.
  - apply (exec2_if s2 p cc ca cb _ _ tail lv rho rc rho1 r rho' false L6 L8).
    + apply (exec2_ext s2 s1); [exact X2|]. apply EX1. assumption.
    + assumption.
    + cbv iota. rewrite <- L3. apply EX4. assumption.
  - apply (exec2_if s2 p cc ca cb _ _ tail lv rho rc rho' (RDatum CVoid) rho' true L6 L8).
    + apply (exec2_ext s2 s1); [exact X2|]. apply EX1. assumption.
    + assumption.
    + cbv iota. apply exec2_movimm. apply vrep_void.
Qed.

(* ------------------------------------------------------------ operands *)
Definition cells_of2 (args : list expr2) : cell := fold_right CPair CNil (map cell_of2 args).

Lemma cells2_size x r : (cell_size (cell_of2 x) < cell_size (cells_of2 (x :: r)))%nat /\
                        (cell_size (cells_of2 r) < cell_size (cells_of2 (x :: r)))%nat.
Proof. unfold cells_of2. cbn [map fold_right cell_size]. lia. Qed.

Definition exec_args2 (s0 : vm) (p : N) (code : list vcell) (ps : list text) (args : list expr2) : Prop :=
  forall lv rho rs rho', ref_evals2 ps lv rho args rs rho' ->
  forall m lp bc,
    cext s0 m -> minv m -> code_in m lp bc -> seg bc p code -> ip m = (lp, p) -> genv_rel rho m -> lrel lv m ->
    exists n m' vs, steps n m = Some m' /\ minv m' /\ ip m' = (lp, p + len code) /\ genv_rel rho' m' /\
      rext m m' /\ sp m' = sp m + len args /\ bp m' = bp m /\ ep m' = ep m /\ out_log m' = out_log m /\
      (forall j, j <= sp m -> sget m' j = sget m j) /\
      len vs = len args /\
      (forall i v, list_get vs i = Some v -> sget m' (sp m + 1 + i) = v) /\
      Forall2 (fun v r => vrep v r (hp m') (st m')) vs rs.

Lemma args_ok2 ps args : Forall (compile_ok2 ps) args ->
  forall f l n s, (cell_size (cells_of2 args) < f)%nat -> hdr l ps s -> minv s ->
  exists l' s' code, args_loop (compile_expression f) (cells_of2 args) l n s = ROk (l', n + len args) s' /\
    fwd l' = fwd l ++ code /\ same_hdr l l' /\ minv s' /\ cext s s' /\ same_regs s s' /\
    exec_args2 s' (len (fwd l)) code ps args.
Proof.
  induction 1 as [|x r Hx Hr IH]; intros f l n s Hf Hh MI.
  - exists l, s, []. cbn [cells_of2 map fold_right args_loop]. split; [unfold ret; f_equal; f_equal; cbn; lia|].
    split; [rewrite app_nil_r; reflexivity|]. split; [apply same_hdr_refl|]. split; [exact MI|].
    split; [apply cext_refl|]. split; [apply same_regs_refl|].
    intros lv rho rs rho' HR m lp bc X MIm Hc Hs Hip G L. inversion HR; subst.
    exists 0%nat, m, []. split; [reflexivity|]. split; [exact MIm|].
    split; [rewrite Hip; f_equal; cbn; lia|]. split; [exact G|]. split; [apply rext_refl|].
    split; [cbn; lia|]. do 3 (split; [reflexivity|]). split; [auto|]. split; [reflexivity|].
    split; [intros i v Hi; unfold list_get in Hi; destruct (N.to_nat i); discriminate|constructor].
  - destruct (cells2_size x r) as [Sx Sr].
    change (cells_of2 (x :: r)) with (CPair (cell_of2 x) (cells_of2 r)) in *. cbn [args_loop].
    destruct (Hx f l false s ltac:(lia) Hh MI) as (l1 & s1 & cx & E1 & F1 & S1 & MI1 & X1 & R1 & EX1).
    assert (S1' : same_hdr l (emit_op l1 OPushAcc)) by (eapply same_hdr_trans; [exact S1|repeat split]).
    destruct (IH f (emit_op l1 OPushAcc) (n + 1) s1 ltac:(lia) (hdr_same _ _ _ _ S1' (hdr_ext _ _ _ _ X1 Hh)) MI1)
      as (l2 & s2 & cr & E2 & F2 & S2 & MI2 & X2 & R2 & EX2).
    exists l2, s2, (cx ++ [VOp OPushAcc] ++ cr).
    unfold bindM at 1. rewrite E1, E2.
    split; [f_equal; f_equal; rewrite len_cons; lia|].
    split; [rewrite F2, fwd_emit_op, F1, <- !app_assoc; reflexivity|].
    split; [eapply same_hdr_trans; eassumption|]. split; [exact MI2|]. split; [eapply cext_trans; eassumption|].
    split; [eapply same_regs_trans; eassumption|].
    assert (Lp : len (fwd (emit_op l1 OPushAcc)) = len (fwd l) + len cx + 1) by (rewrite fwd_emit_op, F1; lens; lia).
    rewrite Lp in EX2.
    intros lv rho rs rho' HR m lp bc X MIm Hc Hs Hip G L. inversion HR; subst.
    apply seg_app in Hs as [Hsx Hs]. apply seg_app in Hs as [Hsp Hsr]. rewrite len1 in Hsr.
    match goal with H : ref_eval2 ps lv rho x _ _ |- _ => rename H into HRx end.
    match goal with H : ref_evals2 _ _ _ r _ _ |- _ => rename H into HRr end.
    destruct (exec2_n _ _ _ _ _ _ _ (EX1 _ _ _ _ HRx) m lp bc (cext_trans _ _ _ X2 X) MIm Hc Hsx Hip G L)
      as (n1 & m1 & St1 & Fr1 & MIm1 & Hip1 & V1 & G1).
    pose proof (f2_frame _ _ Fr1) as Fr1'.
    pose proof (code_in_ext _ _ _ _ Hc (fr_ext _ _ Fr1')) as Hc1.
    pose proof (step_pushacc ob m1 lp _ bc Hc1 Hip1 Hsp) as Ep.
    set (m2 := pushed (with_ip m1 (lp, len (fwd l) + len cx + 1)) (acc m1)) in *.
    assert (Xm12 : rext m1 m2) by (apply rext_same; try reflexivity; lia).
    assert (MIm2 : minv m2).
    { destruct MIm1 as [HI GI SP]. constructor; [exact HI|exact GI|]. apply pushed_sp_lt. exact SP. }
    assert (Hc2 : code_in m2 lp bc) by (eapply code_in_regs; [| |exact Hc1]; reflexivity).
    assert (G2 : genv_rel rho1 m2) by (eapply genv_rel_ext; [apply Xm12|reflexivity|exact G1]).
    assert (Xs2m2 : cext s2 m2) by (eapply cext_trans; [exact X|]; eapply cext_trans; [apply Fr1'|apply Xm12]).
    assert (Hsp2 : sp m2 = sp m + 1) by (cbn [sp m2 pushed with_scap with_stack with_ip]; rewrite (fr_sp _ _ Fr1'); reflexivity).
    assert (L2 : lrel lv m2).
    { eapply lrel_rext; [exact Xm12|reflexivity|]. eapply lrel_frame2; eassumption. }
    destruct (EX2 _ _ _ _ HRr m2 lp bc Xs2m2 MIm2 Hc2 Hsr eq_refl G2 L2)
      as (n3 & m3 & vs & St3 & MIm3 & Hip3 & G3 & Xm23 & Hsp3 & Hbp3 & Hep3 & Hlog3 & Hst3 & Hlen & Hvs & Vvs).
    exists (n1 + 1 + n3)%nat, m3, (acc m1 :: vs).
    split; [eapply steps_trans; [eapply steps_trans; [exact St1|apply steps_one; exact Ep]|exact St3]|].
    split; [exact MIm3|]. split; [rewrite Hip3; f_equal; lens; lia|]. split; [exact G3|].
    split; [eapply rext_trans; [apply frame2_rext; exact Fr1|]; eapply rext_trans; eassumption|].
    split; [rewrite Hsp3, Hsp2, len_cons; lia|].
    split; [rewrite Hbp3; cbn [bp m2 pushed with_scap with_stack with_ip]; apply Fr1'|].
    split; [rewrite Hep3; cbn [ep m2 pushed with_scap with_stack with_ip]; apply Fr1'|].
    split; [rewrite Hlog3; cbn [out_log m2 pushed with_scap with_stack with_ip]; apply Fr1'|].
    assert (Hkeep : forall j, j <= sp m -> sget m3 j = sget m j).
    { intros j Hj. rewrite Hst3 by lia. unfold m2. rewrite sget_pushed_other.
      - change (sget (with_ip m1 _) j) with (sget m1 j). apply Fr1'. exact Hj.
      - cbn [sp with_ip]. rewrite (fr_sp _ _ Fr1'). lia. }
    split; [exact Hkeep|]. split; [rewrite !len_cons, Hlen; reflexivity|].
    split.
    + intros i v Hi. destruct (N.eq_dec i 0) as [->|Hne].
      * cbn in Hi. injection Hi as <-. rewrite N.add_0_r. rewrite Hst3 by lia. unfold m2.
        replace (sp m + 1) with (sp (with_ip m1 (lp, len (fwd l) + len cx + 1)) + 1)
          by (cbn [sp with_ip]; rewrite (fr_sp _ _ Fr1'); reflexivity).
        apply sget_pushed_top.
      * replace i with (i - 1 + 1) in Hi by lia. rewrite list_get_cons_S in Hi.
        apply Hvs in Hi. rewrite Hsp2 in Hi. rewrite <- Hi. f_equal. lia.
    + constructor; [|exact Vvs]. eapply vrep_ext; [exact V1|]. apply cext_ext.
      eapply cext_trans; [apply Xm12|apply Xm23].
Qed.

(* ------------------------------------------------------------ application of a builtin *)
(* besides [builtin_ok]: a builtin with a specified result leaves the lexical environments alone *)
Definition builtin_envs (b : N) : Prop :=
  forall m v m' rs r, bsem b rs = Some r -> run_builtin b m = ROk v m' -> envs (st m') = envs (st m).

Lemma wf2_app ps f args : wf_expr2 (XApp f args) ps <->
  special_head (cell_of2 f) = false /\ wf_expr2 f ps /\ Forall (fun x => wf_expr2 x ps) args.
Proof. cbn [wf_expr2]. rewrite wf2_all. reflexivity. Qed.

Lemma cok2_app ps f0 args : (forall b, builtin_ok ob bsem b) -> (forall b, builtin_envs b) ->
  wf_expr2 (XApp f0 args) ps ->
  compile_ok2 ps f0 -> Forall (compile_ok2 ps) args -> compile_ok2 ps (XApp f0 args).
Proof.
  intros Hb He Hwf IHf IHargs f l tail s Hf Hh MI. destruct f as [|f]; [lia|].
  apply wf2_app in Hwf as (Hsp & _ & _).
  cbn [cell_of2] in *. fold (cells_of2 args) in *. cbn [cell_size] in Hf.
  rewrite compile_application_eq by exact Hsp.
  destruct (args_ok2 ps args IHargs f l 0 s ltac:(lia) Hh MI) as (l1 & s1 & ca & E1 & F1 & S1 & MI1 & X1 & R1 & EX1).
  rewrite N.add_0_l in E1.
  set (l2 := emit (emit_op l1 OPushImmediate) (VArgc (len args))).
  assert (S2 : same_hdr l l2) by (eapply same_hdr_trans; [exact S1|repeat split]).
  destruct (IHf f l2 false s1 ltac:(lia) (hdr_same _ _ _ _ S2 (hdr_ext _ _ _ _ X1 Hh)) MI1)
    as (l3 & s2 & cf & E3 & F3 & S3 & MI2 & X2 & R2 & EX3).
  set (callop := VOp (if tail then OTCallAcc else OCallAcc)).
  exists (emit_op l3 (if tail then OTCallAcc else OCallAcc)), s2,
         (ca ++ [VOp OPushImmediate; VArgc (len args)] ++ cf ++ [callop]).
  unfold bindM at 1. rewrite E1. cbv beta iota. unfold bindM at 1. fold l2. rewrite E3.
  split; [reflexivity|].
  split; [rewrite fwd_emit_op, F3; unfold l2; rewrite fwd_emit, fwd_emit_op, F1, <- !app_assoc; reflexivity|].
  split; [eapply same_hdr_trans; [exact S2|]; eapply same_hdr_trans; [exact S3|repeat split]|].
  split; [exact MI2|]. split; [eapply cext_trans; eassumption|]. split; [eapply same_regs_trans; eassumption|].
  set (p := len (fwd l)) in *.
  assert (L2 : len (fwd l2) = p + len ca + 2) by (unfold l2; rewrite fwd_emit, fwd_emit_op, F1; lens; fold p; lia).
  rewrite L2 in EX3.
  intros lv rho r rho' HR. inversion HR; subst.
  match goal with H : ref_evals2 _ _ rho args _ _ |- _ => rename H into HRa end.
  match goal with H : ref_eval2 _ _ _ f0 _ _ |- _ => rename H into HRf end.
  match goal with H : bsem _ _ = Some r |- _ => rename H into Hsem end.
  intros m lp bc X MIm Hc Hs Hip G L _. left.
  apply seg_app in Hs as [Hsa Hs]. apply seg_app in Hs as [Hsi Hs]. rewrite len2 in Hs.
  apply seg_app in Hs as [Hsf Hsc].
  (* operands *)
  destruct (EX1 _ _ _ _ HRa m lp bc (cext_trans _ _ _ X2 X) MIm Hc Hsa Hip G L)
    as (n1 & m1 & vs & St1 & MIm1 & Hip1 & G1 & Xm1 & Hsp1 & Hbp1 & Hep1 & Hlog1 & Hst1 & Hlen & Hvs & Vvs).
  pose proof (code_in_ext _ _ _ _ Hc (rx_cext _ _ Xm1)) as Hc1.
  (* PUSH Argc n *)
  pose proof (step_pushimm ob m1 lp _ bc _ Hc1 Hip1 Hsi ltac:(discriminate)) as Ei.
  set (m2 := pushed (with_ip m1 (lp, p + len ca + 2)) (VArgc (len args))) in *.
  assert (Xm12 : rext m1 m2) by (apply rext_same; try reflexivity; lia).
  assert (MIm2 : minv m2).
  { destruct MIm1 as [HI GI SP]. constructor; [exact HI|exact GI|]. apply pushed_sp_lt. exact SP. }
  assert (Hc2 : code_in m2 lp bc) by (eapply code_in_regs; [| |exact Hc1]; reflexivity).
  assert (G2 : genv_rel rho1 m2) by (eapply genv_rel_ext; [apply Xm12|reflexivity|exact G1]).
  assert (Xs2m2 : cext s2 m2) by (eapply cext_trans; [exact X|]; eapply cext_trans; [apply Xm1|apply Xm12]).
  assert (Hsp2 : sp m2 = sp m + len args + 1) by (cbn [sp m2 pushed with_scap with_stack with_ip]; rewrite Hsp1; reflexivity).
  assert (L2' : lrel lv m2).
  { eapply lrel_rext; [exact Xm12|reflexivity|]. eapply lrel_rext; [exact Xm1|exact Hep1|exact L]. }
  (* operator *)
  destruct (exec2_n _ _ _ _ _ _ _ (EX3 _ _ _ _ HRf) m2 lp bc Xs2m2 MIm2 Hc2 Hsf eq_refl G2 L2')
    as (n3 & m3 & St3 & Fr3 & MIm3 & Hip3 & V3 & G3).
  pose proof (f2_frame _ _ Fr3) as Fr3'.
  pose proof (code_in_ext _ _ _ _ Hc2 (fr_ext _ _ Fr3')) as Hc3.
  destruct V3 as (pb & Hacc3 & Ab & Cb).
  assert (Hd3 : heap_deref (hp m3) (acc m3) = Ok (VBuiltin b)).
  { rewrite Hacc3. cbn [heap_deref]. rewrite (heap_get_alloc _ _ Ab), Cb. reflexivity. }
  set (q := p + len ca + 2 + len cf) in *.
  set (m3' := with_ip m3 (lp, q + 1)).
  assert (SM3 : same_mem m3 m3') by (repeat split).
  pose proof (same_mem_minv _ _ SM3 MIm3) as MIm3'.
  assert (Hsp3 : sp m3' = sp m + len vs + 1) by (cbn [sp m3' with_ip]; rewrite (fr_sp _ _ Fr3'), Hsp2, Hlen; reflexivity).
  assert (Hm23 : forall j, j <= sp m2 -> sget m3' j = sget m2 j) by (intros j Hj; apply (fr_stack _ _ Fr3'); exact Hj).
  assert (Htop : sget m3' (sp m3') = VArgc (len vs)).
  { rewrite Hsp3, Hm23 by (rewrite Hsp2, Hlen; lia). rewrite Hlen, <- Hsp1. unfold m2.
    change (sp m1) with (sp (with_ip m1 (lp, p + len ca + 2))). apply sget_pushed_top. }
  assert (Hargs : forall i v, list_get vs i = Some v -> sget m3' (sp m + 1 + i) = v).
  { intros i v Hi. pose proof (list_get_lt _ _ _ Hi) as Hlt. rewrite Hm23 by (rewrite Hsp2, <- Hlen; lia).
    unfold m2. rewrite sget_pushed_other by (cbn [sp with_ip]; rewrite Hsp1, <- Hlen; lia).
    change (sget (with_ip m1 _) (sp m + 1 + i)) with (sget m1 (sp m + 1 + i)). apply Hvs. exact Hi. }
  assert (Vvs3 : Forall2 (fun v r => vrep v r (hp m3') (st m3')) vs rs).
  { clear -Vvs Xm12 Fr3'. induction Vvs as [|v0 r0 vs0 rs0 V0 _ IHV]; constructor; [|exact IHV].
    eapply vrep_ext; [exact V0|]. apply (cext_ext m1 m3). eapply cext_trans; [apply Xm12|apply Fr3']. }
  destruct (Hb b m3' (sp m) vs rs r MIm3' Hsp3 Htop Hargs Vvs3 Hsem)
    as (v & m4 & Hrun & MIm4 & Xm34 & V4 & Hsp4 & Hst4 & Hbp4 & Hep4 & Hip4 & Hg4 & Hlog4).
  pose proof (He b m3' v m4 rs r Hsem Hrun) as Henv4.
  destruct (match v with VPtr _ => (v, hp m4) | _ => heap_maybe_put (hp m4) v end) as [v' h'] eqn:Ebox.
  destruct (vrep_box _ _ _ _ _ _ (mi_heap _ MIm4) V4 Ebox) as (HI5 & Hx5 & V5).
  pose proof (step_call_builtin ob m3 lp q bc tail b v m4 v' h' Hc3 Hip3 Hsc Hd3 Hrun Ebox) as Ec.
  set (m5 := with_acc (with_heap m4 h') v') in *.
  assert (Xm45 : cext m4 m5).
  { eapply cext_trans; [apply (cext_heap m4 h' Hx5)|]. apply cext_same; try reflexivity; cbn [g_slots with_acc with_heap]; lia. }
  assert (Xm35 : rext m3 m5).
  { split.
    - eapply cext_trans; [apply (fr_ext _ _ (same_mem_frame _ _ SM3))|]. eapply cext_trans; eassumption.
    - intros j _. change (st m5) with (st m4). rewrite Henv4. reflexivity. }
  assert (Xm05 : rext m m5).
  { eapply rext_trans; [exact Xm1|]. eapply rext_trans; [exact Xm12|]. eapply rext_trans; [apply frame2_rext; exact Fr3|exact Xm35]. }
  exists (n1 + 1 + n3 + 1)%nat, m5.
  split; [eapply steps_trans; [eapply steps_trans; [eapply steps_trans; [exact St1|apply steps_one; exact Ei]|exact St3]|apply steps_one; exact Ec]|].
  split.
  { split; [|apply Xm05]. constructor.
    - apply Xm05.
    - exact Hsp4.
    - change (bp m5) with (bp m4). rewrite Hbp4. change (bp m3') with (bp m3). rewrite (fr_bp _ _ Fr3'). exact Hbp1.
    - change (ep m5) with (ep m4). rewrite Hep4. change (ep m3') with (ep m3). rewrite (fr_ep _ _ Fr3'). exact Hep1.
    - change (out_log m5) with (out_log m4). rewrite Hlog4. change (out_log m3') with (out_log m3).
      rewrite (fr_log _ _ Fr3'). exact Hlog1.
    - intros j Hj. change (sget m5 j) with (sget m4 j). rewrite Hst4 by exact Hj.
      rewrite Hm23 by (rewrite Hsp2; lia). unfold m2.
      rewrite sget_pushed_other by (cbn [sp with_ip]; rewrite Hsp1; lia).
      change (sget (with_ip m1 _) j) with (sget m1 j). apply Hst1. exact Hj. }
  split.
  { destruct MIm4 as [HI4 GI4 SP4]. constructor; [exact HI5|exact GI4|exact SP4]. }
  split.
  { change (ip m5) with (ip m4). rewrite Hip4. cbn [ip m3' with_ip]. f_equal. unfold q. lens. lia. }
  split; [exact V5|].
  eapply genv_rel_ext; [apply Xm35| |exact G3]. change (g_slots m5) with (g_slots m4). rewrite Hg4. reflexivity.
Qed.

(* ------------------------------------------------------------ running an applied lambda *)
Definition lam_in (m : vm) (lamp : N) (lam : lambda) : Prop :=
  exists lid, allocated (hp m) lamp /\ cell_at (hp m) lamp = VLambda lid /\ lid < next_id (st m) /\
    tget (lams (st m)) lid = Some lam.
Lemma lam_in_ext m m' lamp lam : cext m m' -> lam_in m lamp lam -> lam_in m' lamp lam.
Proof.
  intros X (lid & A & C & Lt & T). destruct (ce_heap _ _ X lamp A) as [A' C'].
  exists lid. split; [exact A'|]. split; [congruence|]. split; [destruct (ce_store _ _ X); lia|].
  rewrite (ce_lams _ _ X) by assumption. exact T.
Qed.
Lemma lam_in_code m lamp lam : lam_in m lamp lam -> code_in m lamp (l_bc lam).
Proof. intros (lid & A & C & Lt & T). exists lid, lam. auto. Qed.
Lemma lam_in_regs m m' lamp lam : hp m' = hp m -> st m' = st m -> lam_in m lamp lam -> lam_in m' lamp lam.
Proof. intros Eh Es. unfold lam_in. rewrite Eh, Es. auto. Qed.

Lemma Forall2_nth_r {A B} (P : A -> B -> Prop) la lb : Forall2 P la lb ->
  forall i b, nth_error lb i = Some b -> exists a, nth_error la i = Some a /\ P a b.
Proof.
  induction 1 as [|a0 b0 la lb H0 _ IH]; intros i b Hi; [destruct i; discriminate|].
  destruct i as [|i]; cbn [nth_error] in *; [injection Hi as <-; eauto|apply IH; exact Hi].
Qed.
Lemma Forall2_len {A B} (P : A -> B -> Prop) la lb : Forall2 P la lb -> len la = len lb.
Proof. intros H. unfold len. f_equal. induction H; cbn [length]; congruence. Qed.

(* from the first instruction (ENTER) of a lambda entered with n arguments above the base B
   and the return information (e, l0, i0) to the state after its RET — or after the RET of a
   frame that a tail call of the body put in its place *)
Lemma callee_run sB lamp lam cb n B e l0 i0 vs rs rho1 r rho2 m5 cp cep ceid cslots :
  exec2 sB 1 cb true rs rho1 r rho2 ->
  cext sB m5 -> minv m5 -> lam_in m5 lamp lam -> l_bc lam = [VOp OEnter] ++ cb ++ [VOp ORet] ->
  l_envmap lam = ScopeProofs.enum_args (l_args lam) 0 -> len (l_args lam) = n ->
  ip m5 = (lamp, 0) -> acc m5 = VPtr cp -> heap_get (hp m5) cp = Ok (VClosure lamp cep) ->
  heap_get (hp m5) cep = Ok (VLexEnv ceid) -> tget (envs (st m5)) ceid = Some cslots -> len cslots = n ->
  sp m5 = B + n + 3 -> sget m5 (B + n + 1) = VArgc n -> sget m5 (B + n + 2) = VEp e ->
  sget m5 (B + n + 3) = VIp l0 i0 ->
  len vs = n -> (forall i v, list_get vs i = Some v -> sget m5 (B + 1 + i) = v) ->
  Forall2 (fun v r => vrep v r (hp m5) (st m5)) vs rs ->
  genv_rel rho1 m5 ->
  exists k m8, steps k m5 = Some m8 /\ rext m5 m8 /\ minv m8 /\ vrep (acc m8) r (hp m8) (st m8) /\
    genv_rel rho2 m8 /\ sp m8 = B /\ ep m8 = e /\ ip m8 = (l0, i0) /\ bp m8 = bp m5 /\
    out_log m8 = out_log m5 /\ (forall j, j <= B -> sget m8 j = sget m5 j).
Proof.
  intros EXb XB MI5 Hlam Hbc Henv Hlen Hip Hacc Hcp Hcep Hcs Hcl Hsp H1 H2 H3 Hvl Hvs Vvs G5.
  pose proof (lam_in_code _ _ _ Hlam) as Hc5. rewrite Hbc in Hc5.
  destruct Hlam as (lid & Al & Cl & Ltl & Tl).
  assert (Hgl : heap_get (hp m5) lamp = Ok (VLambda lid)) by (rewrite (heap_get_alloc _ _ Al), Cl; reflexivity).
  destruct (step_enter_closure ob m5 lamp _ cp cep lid lam ceid cslots n Hc5 Hip eq_refl MI5 Hacc Hcp Hgl Tl Henv Hlen
              Hcep Hcs Hcl ltac:(lia) ltac:(rewrite Hsp; replace (B + n + 3 - 2) with (B + n + 1) by lia; exact H1))
    as (m6 & evp & env & E6 & MI6 & X56 & Hsp6 & Hbp6 & Hep6 & Hip6 & Hacc6 & Hlog6 & Hg6 & Htop6 & Hst6 &
        Aev & Cev & Tev & Ltev & Lenv & Henvj).
  assert (Hbp6' : bp m6 = B + n) by (rewrite Hbp6, Hsp; lia).
  assert (Hk6 : forall j, j <= B + n + 3 -> sget m6 j = sget m5 j) by (intros j Hj; apply Hst6; lia).
  assert (Hfr6 : frame_at m6 n e (l0, i0) (bp m5)).
  { unfold frame_at. rewrite Hbp6'. rewrite !Hk6 by lia.
    replace (B + n + 4) with (sp m5 + 1) by lia. rewrite Htop6. cbn [fst snd]. repeat split; auto. lia. }
  assert (Ht6 : tframe m6) by (exists n, e, (l0, i0), (bp m5); split; [exact Hfr6|lia]).
  assert (L6 : lrel rs m6).
  { intros i ri Hi. destruct (Forall2_nth_r _ _ _ Vvs _ _ Hi) as (v & Hv & Vv).
    assert (Hlt : i < n).
    { rewrite <- Hvl. unfold len. assert (N.to_nat i < length vs)%nat by (apply nth_error_Some; congruence). lia. }
    exists (next_id (st m5)), env, v. rewrite Hep6. split; [exact Aev|]. split; [exact Cev|]. split; [exact Ltev|].
    split; [exact Tev|]. split.
    - rewrite (Henvj i Hlt). f_equal. rewrite <- (Hvs i v Hv). f_equal. lia.
    - eapply vrep_ext; [exact Vv|apply cext_ext, X56]. }
  assert (Hc6 : code_in m6 lamp ([VOp OEnter] ++ cb ++ [VOp ORet])) by (eapply code_in_ext; [exact Hc5|apply X56]).
  assert (Hsb : seg ([VOp OEnter] ++ cb ++ [VOp ORet]) 1 cb) by (exists [VOp OEnter], [VOp ORet]; auto).
  assert (G6 : genv_rel rho1 m6) by (eapply genv_rel_ext; [apply X56|exact Hg6|exact G5]).
  destruct (EXb m6 lamp _ (cext_trans _ _ _ XB (rx_cext _ _ X56)) MI6 Hc6 Hsb Hip6 G6 L6 (fun _ => Ht6))
    as [(n7 & m7 & St7 & Fr7 & MI7 & Hip7 & V7 & G7)|[_ (n7 & m8 & k' & e' & i' & b' & St8 & Hfr' & X68 & MI8 & V8 & G8 & E1 & E2 & E3 & E4 & E5 & K8)]].
  - (* the body ends at RET *)
    pose proof (f2_frame _ _ Fr7) as Fr7'.
    pose proof (code_in_ext _ _ _ _ Hc6 (fr_ext _ _ Fr7')) as Hc7.
    assert (Hsr : seg ([VOp OEnter] ++ cb ++ [VOp ORet]) (1 + len cb) [VOp ORet]).
    { exists ([VOp OEnter] ++ cb), []. rewrite app_nil_r, <- app_assoc. split; [reflexivity|]. lens. lia. }
    assert (Hbp7 : bp m7 = B + n) by (rewrite (fr_bp _ _ Fr7'); exact Hbp6').
    assert (Hsp7 : sp m7 = B + n + 4) by (rewrite (fr_sp _ _ Fr7'), Hsp6, Hsp; lia).
    assert (Hk7 : forall j, j <= B + n + 4 -> sget m7 j = sget m6 j) by (intros j Hj; apply (fr_stack _ _ Fr7'); lia).
    destruct Hfr6 as (F1 & F2 & F3 & F4 & _). rewrite Hbp6' in F1, F2, F3, F4. cbn [fst snd] in F3.
    pose proof (step_ret_n ob m7 lamp (1 + len cb) _ n e l0 i0 (bp m5) Hc7 Hip7 Hsr
                  ltac:(rewrite Hbp7, <- Hsp7; apply MI7) ltac:(lia)
                  ltac:(rewrite Hbp7, Hk7 by lia; exact F1) ltac:(rewrite Hbp7, Hk7 by lia; exact F2)
                  ltac:(rewrite Hbp7, Hk7 by lia; exact F3) ltac:(rewrite Hbp7, Hk7 by lia; exact F4)) as E8.
    set (m8 := with_bp (with_ip (with_ep (with_sp (with_ip m7 (lamp, 1 + len cb + 1)) (bp m7 - n)) e) (l0, i0)) (bp m5)) in *.
    assert (X78 : rext m7 m8) by (apply rext_same; try reflexivity; lia).
    exists (1 + n7 + 1)%nat, m8.
    split; [eapply steps_trans; [eapply steps_trans; [apply steps_one; exact E6|exact St7]|apply steps_one; exact E8]|].
    split; [eapply rext_trans; [exact X56|]; eapply rext_trans; [apply frame2_rext; exact Fr7|exact X78]|].
    split.
    { destruct MI7 as [HI GI SP]. constructor; [exact HI|exact GI|].
      cbn [sp scap m8 with_bp with_ip with_ep with_sp with_stack]. lia. }
    split; [exact V7|]. split; [eapply genv_rel_ext; [apply X78|reflexivity|exact G7]|].
    split; [cbn [sp m8 with_bp with_ip with_ep with_sp with_stack]; lia|].
    split; [reflexivity|]. split; [reflexivity|]. split; [reflexivity|].
    split; [cbn [out_log m8 with_bp with_ip with_ep with_sp with_stack]; rewrite (fr_log _ _ Fr7'); exact Hlog6|].
    intros j Hj. change (sget m8 j) with (sget m7 j). rewrite Hk7, Hk6 by lia. reflexivity.
  - (* the body left through a tail call *)
    destruct Hfr6 as (F1 & F2 & F3 & F4 & _). destruct Hfr' as (F1' & F2' & F3' & F4' & _).
    rewrite F1 in F1'. rewrite F2 in F2'. rewrite F3 in F3'. rewrite F4 in F4'.
    injection F1' as <-. injection F2' as <-. injection F4' as <-. cbn [fst snd] in F3'.
    assert (i' = (l0, i0)) as -> by (destruct i'; cbn [fst snd] in F3'; congruence).
    exists (1 + n7)%nat, m8. split; [eapply steps_trans; [apply steps_one; exact E6|exact St8]|].
    split; [eapply rext_trans; eassumption|]. split; [exact MI8|]. split; [exact V8|]. split; [exact G8|].
    split; [rewrite E1, Hbp6'; lia|]. split; [exact E2|]. split; [exact E3|]. split; [exact E4|].
    split; [rewrite E5; exact Hlog6|].
    intros j Hj. rewrite K8 by (rewrite Hbp6'; lia). apply Hk6. lia.
Qed.

(* ------------------------------------------------------------ ((lambda (x ...) body) e ...) *)
Lemma wf2_let ps ps' body args : wf_expr2 (XLet ps' body args) ps <->
  length args = length ps' /\ (forall x, In x ps' -> is_primitive_symbol (CSym x) = false) /\
  is_define body = false /\ nocapture ps (lam_cell ps' (cell_of2 body)) /\
  wf_expr2 body ps' /\ Forall (fun x => wf_expr2 x ps) args.
Proof. cbn [wf_expr2]. rewrite wf2_all. reflexivity. Qed.

Lemma lam_cell_size ps b : (cell_size b + 2 < cell_size (lam_cell ps b))%nat.
Proof. unfold lam_cell. cbn [cell_size]. lia. Qed.

Lemma cok2_let ps0 ps body args : wf_expr2 (XLet ps body args) ps0 ->
  compile_ok2 ps body -> Forall (compile_ok2 ps0) args -> compile_ok2 ps0 (XLet ps body args).
Proof.
  intros Hwf IHb IHargs f l tail s Hf Hh MI. destruct f as [|f]; [lia|].
  apply wf2_let in Hwf as (Hlen & Hprim & Hnd & (fs & Hfs & Hnc) & Hwb & _).
  cbn [cell_of2] in *. fold (cells_of2 args) in *. cbn [cell_size] in Hf.
  pose proof (lam_cell_size ps (cell_of2 body)) as Hlsz.
  rewrite compile_application_eq by reflexivity.
  destruct (args_ok2 ps0 args IHargs f l 0 s ltac:(lia) Hh MI) as (l1 & s1 & ca & E1 & F1 & S1 & MI1 & X1 & R1 & EX1).
  rewrite N.add_0_l in E1.
  set (n := len args) in *.
  set (l2 := emit (emit_op l1 OPushImmediate) (VArgc n)).
  assert (S2 : same_hdr l l2) by (eapply same_hdr_trans; [exact S1|repeat split]).
  destruct f as [|f']; [lia|].
  unfold bindM at 1. rewrite E1. cbv beta iota. unfold bindM at 1. fold l2. rewrite compile_lambda_eq.
  (* formals *)
  destruct (formals_ok ps s1 Hprim MI1) as (aps & s2 & E2 & MI2 & X2 & R2 & Fa).
  unfold bindM at 1. rewrite E2. cbv beta iota.
  (* free symbols *)
  unfold bindM at 1. unfold lift at 1. rewrite Hfs.
  destruct (put_cells_ok fs s2 MI2) as (frefs & s3 & E3 & MI3 & X3 & R3 & Ff).
  unfold bindM at 1. rewrite E3.
  unfold bindM at 1. unfold lift at 1. rewrite (ids_body body ps Hwb Hnd).
  unfold bindM at 1. cbn [put_cells]. unfold ret at 1. cbv beta iota zeta.
  set (lam2 := emit_op (set_desc (lambda_from_iof aps [] l2 frefs false) (syms_of ps)) OEnter).
  assert (X13 : cext s1 s3) by (eapply cext_trans; eassumption).
  assert (X03 : cext s s3) by (eapply cext_trans; eassumption).
  assert (Hh2 : hdr l2 ps0 s3) by (eapply hdr_same; [exact S2|]; eapply hdr_ext; eassumption).
  assert (Hem : l_envmap lam2 = ScopeProofs.enum_args aps 0).
  { change (l_envmap lam2) with (envmap_new aps [] l2 frefs).
    rewrite ScopeProofs.envmap_new_eq, (free_part_nil l2 ps0 s3 frefs fs Hh2 (mi_heap _ MI3) Ff Hnc).
    cbn [map]. rewrite !app_nil_r. reflexivity. }
  assert (Hhb : hdr lam2 ps s3) by (split; [exact Hem|eapply pnames_ext; [exact X3|exact Fa]]).
  (* body *)
  destruct (IHb f' lam2 true s3 ltac:(lia) Hhb MI3) as (lam3 & s4 & cb & E4 & F4 & S4 & MI4 & X4 & R4 & EX4).
  unfold bindM at 1. unfold bindM at 1. rewrite E4. unfold ret at 1.
  destruct (put_lambda_spec (emit_op lam3 ORet) s4 MI4) as (lamp & s5 & E5 & MI5 & X5 & R5 & Gb5 & _ & A5 & C5 & L5 & T5).
  unfold bindM at 1. rewrite E5. unfold ret at 1. unfold ret at 1.
  set (callop := VOp (if tail then OTCallAcc else OCallAcc)).
  set (lamF := lambda_finish (emit_op lam3 ORet)) in *.
  exists (emit_op (emit_op (emit (emit (emit_op l2 OMovImmediate) (VPtr lamp)) VAcc) OClosureAcc)
                  (if tail then OTCallAcc else OCallAcc)), s5,
         (ca ++ [VOp OPushImmediate; VArgc n] ++ [VOp OMovImmediate; VPtr lamp; VAcc; VOp OClosureAcc] ++ [callop]).
  split; [reflexivity|].
  split.
  { rewrite !fwd_emit_op, fwd_emit3. unfold l2. rewrite fwd_emit, fwd_emit_op, F1, <- !app_assoc. reflexivity. }
  split; [eapply same_hdr_trans; [exact S2|repeat split]|].
  split; [exact MI5|].
  assert (X35 : cext s3 s5) by (eapply cext_trans; eassumption).
  assert (X15 : cext s1 s5) by (eapply cext_trans; eassumption).
  split; [eapply cext_trans; eassumption|].
  split.
  { eapply same_regs_trans; [exact R1|]. eapply same_regs_trans; [exact R2|]. eapply same_regs_trans; [exact R3|].
    eapply same_regs_trans; eassumption. }
  (* the installed lambda *)
  assert (HlamF : lam_in s5 lamp lamF) by (exists (next_id (st s4)); auto).
  assert (HbcF : l_bc lamF = [VOp OEnter] ++ cb ++ [VOp ORet]).
  { change (l_bc lamF) with (fwd (emit_op lam3 ORet)). rewrite fwd_emit_op, F4. unfold lam2. rewrite fwd_emit_op.
    cbn [fwd set_desc lambda_from_iof l_bc rev app]. reflexivity. }
  assert (HargsF : l_args lamF = aps).
  { change (l_args lamF) with (l_args lam3). destruct S4 as (_ & _ & _ & -> & _). reflexivity. }
  assert (HenvF : l_envmap lamF = ScopeProofs.enum_args (l_args lamF) 0).
  { rewrite HargsF. change (l_envmap lamF) with (l_envmap lam3). destruct S4 as (_ & _ & -> & _ & _). exact Hem. }
  assert (HlenF : len (l_args lamF) = n).
  { rewrite HargsF, (Forall2_len _ _ _ Fa). unfold n, len. rewrite Hlen. reflexivity. }
  change (len (fwd lam2)) with 1 in EX4.
  set (p := len (fwd l)) in *.
  intros lv rho r rho' HR. inversion HR; subst.
  match goal with H : ref_evals2 _ _ rho args _ _ |- _ => rename H into HRa end.
  match goal with H : ref_eval2 ps _ _ body _ _ |- _ => rename H into HRb end.
  specialize (EX4 _ _ _ _ HRb).
  intros m lp bc X MIm Hc Hs Hip G L Ht.
  apply seg_app in Hs as [Hsa Hs]. apply seg_app in Hs as [Hsi Hs]. rewrite len2 in Hs.
  apply seg_app in Hs as [Hsm Hsc]. change (len [VOp OMovImmediate; VPtr lamp; VAcc; VOp OClosureAcc]) with 4 in Hsc.
  change [VOp OMovImmediate; VPtr lamp; VAcc; VOp OClosureAcc]
    with ([VOp OMovImmediate; VPtr lamp; VAcc] ++ [VOp OClosureAcc]) in Hsm.
  apply seg_app in Hsm as [Hsm Hscl]. rewrite len3 in Hscl.
  (* operands *)
  destruct (EX1 _ _ _ _ HRa m lp bc (cext_trans _ _ _ X15 X) MIm Hc Hsa Hip G L)
    as (n1 & m1 & vs & St1 & MIm1 & Hip1 & G1 & Xm1 & Hsp1 & Hbp1 & Hep1 & Hlog1 & Hst1 & Hvl & Hvs & Vvs).
  fold n in Hsp1, Hvl.
  pose proof (code_in_ext _ _ _ _ Hc (rx_cext _ _ Xm1)) as Hc1.
  (* PUSH Argc n *)
  pose proof (step_pushimm ob m1 lp _ bc _ Hc1 Hip1 Hsi ltac:(discriminate)) as Ei.
  set (m2 := pushed (with_ip m1 (lp, p + len ca + 2)) (VArgc n)) in *.
  assert (Xm12 : rext m1 m2) by (apply rext_same; try reflexivity; lia).
  assert (MIm2 : minv m2).
  { destruct MIm1 as [HI GI SP]. constructor; [exact HI|exact GI|]. apply pushed_sp_lt. exact SP. }
  assert (Hc2 : code_in m2 lp bc) by (eapply code_in_regs; [| |exact Hc1]; reflexivity).
  (* MOV lambda %acc *)
  pose proof (step_movimm ob m2 lp _ bc (VPtr lamp) Hc2 eq_refl Hsm ltac:(discriminate)) as Em.
  set (m3 := with_acc (with_ip m2 (lp, p + len ca + 2 + 3)) (VPtr lamp)) in *.
  assert (SM3 : same_mem m2 m3) by (repeat split).
  pose proof (same_mem_minv _ _ SM3 MIm2) as MIm3.
  assert (Hc3 : code_in m3 lp bc) by (eapply code_in_regs; [| |exact Hc2]; reflexivity).
  assert (Xm03 : rext m m3).
  { eapply rext_trans; [exact Xm1|]. eapply rext_trans; [exact Xm12|]. apply frame2_rext, same_mem_frame2, SM3. }
  assert (Hlam3 : lam_in m3 lamp lamF).
  { eapply lam_in_ext; [|exact HlamF]. eapply cext_trans; [exact X|apply Xm03]. }
  (* CLOSURE *)
  destruct Hlam3 as (lid & Al3 & Cl3 & Ltl3 & Tl3).
  destruct (step_closure ob m3 lp _ bc lamp lid lamF Hc3 eq_refl Hscl MIm3 eq_refl
              ltac:(rewrite (heap_get_alloc _ _ Al3), Cl3; reflexivity) Tl3 HenvF)
    as (m4 & cp & cep & eid & E4c & MIm4 & Xm34 & Hsp4 & Hbp4 & Hep4 & Hcap4 & Hstk4 & Hlog4 & Hg4 & Hip4 & Hacc4 &
        Acp & Ccp & Acep & Ccep & Lteid & Teid).
  assert (Xm04 : rext m m4) by (eapply rext_trans; eassumption).
  assert (Hsp4' : sp m4 = sp m + n + 1) by (rewrite Hsp4; cbn [sp m3 m2 pushed with_acc with_scap with_stack with_ip]; lia).
  assert (Hk4 : forall j, sget m4 j = sget m2 j) by (intros j; unfold sget; rewrite Hstk4; reflexivity).
  assert (Hk4lo : forall j, j <= sp m + n -> sget m4 j = sget m1 j).
  { intros j Hj. rewrite Hk4. unfold m2. rewrite sget_pushed_other by (cbn [sp with_ip]; lia). reflexivity. }
  assert (Htop4 : sget m4 (sp m + n + 1) = VArgc n).
  { rewrite Hk4. unfold m2. replace (sp m + n + 1) with (sp (with_ip m1 (lp, p + len ca + 2)) + 1) by (cbn [sp with_ip]; lia).
    apply sget_pushed_top. }
  assert (Hargs4 : forall i v, list_get vs i = Some v -> sget m4 (sp m + 1 + i) = v).
  { intros i v Hi. pose proof (list_get_lt _ _ _ Hi) as Hlt. rewrite Hk4lo by lia. apply Hvs. exact Hi. }
  assert (Hlow4 : forall j, j <= sp m -> sget m4 j = sget m j).
  { intros j Hj. rewrite Hk4lo by lia. apply Hst1. exact Hj. }
  assert (Vvs4 : Forall2 (fun v r => vrep v r (hp m4) (st m4)) vs rs).
  { clear -Vvs Xm12 SM3 Xm34. induction Vvs as [|v0 r0 vs0 rs0 V0 _ IHV]; constructor; [|exact IHV].
    eapply vrep_ext; [exact V0|]. apply cext_ext. eapply cext_trans; [apply Xm12|].
    eapply cext_trans; [apply (same_mem_frame _ _ SM3)|apply Xm34]. }
  assert (G4 : genv_rel rho1 m4).
  { eapply genv_rel_ext; [|exact Hg4|]; [apply Xm34|]. eapply genv_rel_ext; [apply (same_mem_frame _ _ SM3)|reflexivity|].
    eapply genv_rel_ext; [apply Xm12|reflexivity|exact G1]. }
  assert (Hbp4' : bp m4 = bp m) by (rewrite Hbp4; exact Hbp1).
  assert (Hep4' : ep m4 = ep m) by (rewrite Hep4; exact Hep1).
  assert (Hlog4' : out_log m4 = out_log m) by (rewrite Hlog4; exact Hlog1).
  assert (Hc4 : code_in m4 lp bc) by (eapply code_in_ext; [exact Hc3|apply Xm34]).
  assert (Hlam4 : lam_in m4 lamp lamF).
  { eapply lam_in_ext; [apply Xm34|]. exists lid; auto. }
  assert (Hgcp : heap_get (hp m4) cp = Ok (VClosure lamp cep)) by (rewrite (heap_get_alloc _ _ Acp), Ccp; reflexivity).
  assert (Hgcep : heap_get (hp m4) cep = Ok (VLexEnv eid)) by (rewrite (heap_get_alloc _ _ Acep), Ccep; reflexivity).
  assert (Hcl : len (repeat VUndef (length (l_args lamF))) = n).
  { unfold len. rewrite repeat_length. exact HlenF. }
  assert (St04 : steps (n1 + 1 + 1 + 1) m = Some m4).
  { eapply steps_trans; [eapply steps_trans; [eapply steps_trans; [exact St1|apply steps_one; exact Ei]|apply steps_one; exact Em]|apply steps_one; exact E4c]. }
  assert (Xs3m4 : cext s4 m4) by (eapply cext_trans; [exact X5|]; eapply cext_trans; [exact X|apply Xm04]).
  set (q := p + len ca + 2 + 3 + 1) in *.
  assert (Hq : p + len (ca ++ [VOp OPushImmediate; VArgc n] ++ [VOp OMovImmediate; VPtr lamp; VAcc; VOp OClosureAcc] ++ [callop]) = q + 1).
  { unfold q. lens. lia. }
  replace (p + len ca + 2 + 4) with q in Hsc by (unfold q; lia).
  destruct tail.
  - (* tail position: TCALL re-uses the current frame *)
    right. split; [reflexivity|].
    destruct (Ht eq_refl) as (k & e & i & b & Hfr & Hspf).
    assert (Hfr4 : frame_at m4 k e i b) by (eapply frame_at_keep; [exact Hfr|exact Hspf|exact Hbp4'|exact Hlow4]).
    destruct (step_tcall_closure ob m4 lp q bc cp lamp cep k e i b n Hc4 Hip4 Hsc Hacc4 Hgcp Hfr4
                ltac:(rewrite Hsp4'; exact Htop4) ltac:(rewrite Hbp4', Hsp4'; lia) (mi_sp _ MIm4))
      as (T & Et & TT1 & TT2 & TT3 & TT4 & TT5).
    rewrite Hbp4' in Et, TT1, TT2, TT3, TT4, TT5.
    set (B := bp m - k) in *.
    set (m5 := with_ip (with_bp (with_stack (with_ip m4 (lp, q + 1)) T (B + n + 3)) b) (lamp, 0)) in *.
    assert (Hs5 : forall j, sget m5 j = slot T j) by reflexivity.
    assert (Hkb : k <= bp m) by (destruct Hfr as (_ & _ & _ & _ & H5); exact H5).
    assert (X45 : rext m4 m5) by (apply rext_same; try reflexivity; lia).
    assert (MIm5 : minv m5).
    { destruct MIm4 as [HI GI SP]. constructor; [exact HI|exact GI|].
      cbn [sp scap m5 with_ip with_bp with_stack]. unfold B. lia. }
    destruct (callee_run s4 lamp lamF cb n B e (fst i) (snd i) vs rs rho1 r rho' m5 cp cep eid _ EX4
                (cext_trans _ _ _ Xs3m4 (rx_cext _ _ X45)) MIm5
                (lam_in_regs _ _ _ _ eq_refl eq_refl Hlam4) HbcF HenvF HlenF eq_refl Hacc4 Hgcp Hgcep Teid Hcl eq_refl
                ltac:(rewrite Hs5; exact TT2) ltac:(rewrite Hs5; exact TT3) ltac:(rewrite Hs5; exact TT4) Hvl)
      as (k8 & m8 & St8 & X58 & MI8 & V8 & G8 & Hsp8 & Hep8 & Hip8 & Hbp8 & Hlog8 & Hk8).
    { intros j v Hj. pose proof (list_get_lt _ _ _ Hj) as Hlt. rewrite Hs5, TT1 by lia.
      rewrite Hsp4'. replace (sp m + n + 1 - n + j) with (sp m + 1 + j) by lia. apply Hargs4. exact Hj. }
    { exact Vvs4. }
    { eapply genv_rel_ext; [apply X45|reflexivity|exact G4]. }
    exists (n1 + 1 + 1 + 1 + 1 + k8)%nat, m8, k, e, i, b.
    split; [eapply steps_trans; [eapply steps_trans; [exact St04|apply steps_one; exact Et]|exact St8]|].
    split; [exact Hfr|]. split; [eapply rext_trans; [exact Xm04|]; eapply rext_trans; eassumption|].
    split; [exact MI8|]. split; [exact V8|]. split; [exact G8|]. split; [exact Hsp8|]. split; [exact Hep8|].
    split; [rewrite Hip8; destruct i; reflexivity|]. split; [exact Hbp8|].
    split; [rewrite Hlog8; exact Hlog4'|].
    intros j Hj. rewrite Hk8 by exact Hj. rewrite Hs5, TT5 by exact Hj. apply Hlow4. unfold B in Hj. lia.
  - (* non-tail position: CALL pushes a new frame above %sp *)
    left.
    pose proof (step_call_closure ob m4 lp q bc cp lamp cep Hc4 Hip4 Hsc Hacc4 Hgcp) as Ecall.
    set (m5 := with_ip (pushed (pushed (with_ip m4 (lp, q + 1)) (VEp (ep m4))) (VIp lp (q + 1))) (lamp, 0)) in *.
    assert (X45 : rext m4 m5) by (apply rext_same; try reflexivity; lia).
    assert (MIm5 : minv m5).
    { destruct MIm4 as [HI GI SP]. constructor; [exact HI|exact GI|].
      unfold m5. change (sp (with_ip ?x _)) with (sp x). change (scap (with_ip ?x _)) with (scap x).
      apply pushed_sp_lt. apply pushed_sp_lt. exact SP. }
    assert (Hsp5 : sp m5 = sp m + n + 3) by (cbn [sp m5 pushed with_scap with_stack with_ip]; rewrite Hsp4'; lia).
    assert (Hk5 : forall j, j <= sp m + n + 1 -> sget m5 j = sget m4 j).
    { intros j Hj. unfold m5. change (sget (with_ip ?x _) ?jj) with (sget x jj).
      rewrite sget_pushed_other by (cbn [sp pushed with_scap with_stack with_ip]; rewrite Hsp4'; lia).
      rewrite sget_pushed_other by (cbn [sp with_ip]; rewrite Hsp4'; lia). reflexivity. }
    assert (H52 : sget m5 (sp m + n + 2) = VEp (ep m4)).
    { unfold m5. change (sget (with_ip ?x _) ?jj) with (sget x jj).
      rewrite sget_pushed_other by (cbn [sp pushed with_scap with_stack with_ip]; rewrite Hsp4'; lia).
      replace (sp m + n + 2) with (sp (with_ip m4 (lp, q + 1)) + 1) by (cbn [sp with_ip]; rewrite Hsp4'; lia).
      apply sget_pushed_top. }
    assert (H53 : sget m5 (sp m + n + 3) = VIp lp (q + 1)).
    { unfold m5. change (sget (with_ip ?x _) ?jj) with (sget x jj).
      replace (sp m + n + 3) with (sp (pushed (with_ip m4 (lp, q + 1)) (VEp (ep m4))) + 1)
        by (cbn [sp pushed with_scap with_stack with_ip]; rewrite Hsp4'; lia).
      apply sget_pushed_top. }
    destruct (callee_run s4 lamp lamF cb n (sp m) (ep m4) lp (q + 1) vs rs rho1 r rho' m5 cp cep eid _ EX4
                (cext_trans _ _ _ Xs3m4 (rx_cext _ _ X45)) MIm5
                (lam_in_regs _ _ _ _ eq_refl eq_refl Hlam4) HbcF HenvF HlenF eq_refl Hacc4 Hgcp Hgcep Teid Hcl Hsp5
                ltac:(rewrite Hk5 by lia; exact Htop4) H52 H53 Hvl)
      as (k8 & m8 & St8 & X58 & MI8 & V8 & G8 & Hsp8 & Hep8 & Hip8 & Hbp8 & Hlog8 & Hk8).
    { intros j v Hj. pose proof (list_get_lt _ _ _ Hj) as Hlt. rewrite Hk5 by lia. apply Hargs4. exact Hj. }
    { exact Vvs4. }
    { eapply genv_rel_ext; [apply X45|reflexivity|exact G4]. }
    assert (Xm08 : rext m m8) by (eapply rext_trans; [exact Xm04|]; eapply rext_trans; eassumption).
    exists (n1 + 1 + 1 + 1 + 1 + k8)%nat, m8.
    split; [eapply steps_trans; [eapply steps_trans; [exact St04|apply steps_one; exact Ecall]|exact St8]|].
    split.
    { split; [|apply Xm08]. constructor.
      - apply Xm08.
      - exact Hsp8.
      - rewrite Hbp8. exact Hbp4'.
      - rewrite Hep8. exact Hep4'.
      - rewrite Hlog8. exact Hlog4'.
      - intros j Hj. rewrite Hk8 by exact Hj. rewrite Hk5 by lia. apply Hlow4. exact Hj. }
    split; [exact MI8|]. split; [rewrite Hip8, Hq; reflexivity|]. split; [exact V8|exact G8].
Qed.

(* ------------------------------------------------------------ the extended fragment, by induction *)
Theorem compile_correct2 : (forall b, builtin_ok ob bsem b) -> (forall b, builtin_envs b) ->
  forall e ps, wf_expr2 e ps -> compile_ok2 ps e.
Proof.
  intros Hb He.
  induction e as [c|d|c a b IHc IHa IHb|c a IHc IHa|x|x e IH|x e IH|f0 args IHf IHargs|ps' body args IHbody IHargs]
    using expr2_ind2; intros ps Hwf.
  - apply cok2_const. exact Hwf.
  - apply cok2_quote. exact Hwf.
  - destruct Hwf as (Wc & Wa & Wb). apply cok2_if; auto.
  - destruct Hwf as (Wc & Wa). apply cok2_if1; auto.
  - apply cok2_var. exact Hwf.
  - apply cok2_define; [exact Hwf|]. apply IH. apply Hwf.
  - apply cok2_set; [exact Hwf|]. apply IH. apply Hwf.
  - pose proof Hwf as Hwf'. apply wf2_app in Hwf' as (_ & Wf & Wargs).
    apply cok2_app; auto.
    clear -IHargs Wargs. induction IHargs as [|x r Hx _ IH]; constructor; inversion Wargs; subst; auto.
  - pose proof Hwf as Hwf'. apply wf2_let in Hwf' as (_ & _ & _ & _ & Wb & Wargs).
    apply cok2_let; auto.
    clear -IHargs Wargs. induction IHargs as [|x r Hx _ IH]; constructor; inversion Wargs; subst; auto.
Qed.

(* ------------------------------------------------------------ Vm::eval *)
Section Eval2.
Hypothesis Hb : forall b, builtin_ok ob bsem b.
Hypothesis He : forall b, builtin_envs b.

Theorem eval_fragment2 e rho r rho' s :
  wf_expr2 e [] -> ref_eval2 [] [] rho e r rho' -> minv s -> genv_rel rho s ->
  transform_expr TRANSFORM_FUEL s (cell_of2 e) = Ok (cell_of2 e) ->
  exists n m, (forall fuel, (n <= fuel)%nat -> eval ob fuel (cell_of2 e) s = halt_result m) /\
    vrep (acc m) r (hp m) (st m) /\ genv_rel rho' m /\ minv m /\ cext s m /\
    sp m = sp s /\ bp m = bp s /\ ep m = ep s /\ out_log m = out_log s.
Proof.
  intros Hwf HR MI G Htr.
  assert (Ht : top_hdr top_lam) by (split; reflexivity).
  destruct (compile_correct2 Hb He e [] Hwf (S (S (cell_size (cell_of2 e)))) top_lam true s ltac:(lia) (top_hdr_hdr top_lam s Ht) MI)
    as (l1 & sA & code & E1 & F1 & S1 & MIA & XA & RA & EX).
  specialize (EX _ _ _ _ HR).
  destruct (put_lambda_spec (emit_op l1 ORet) sA MIA) as (a & sB & E2 & MIB & XB & RB & GbB & _ & AB & CB & LB & TB).
  destruct (put_lambda_spec (entry_lam (VPtr a)) sB MIB) as (a0 & sC & E3 & MIC & XC & RC & GbC & _ & AC & CC & LC & TC).
  set (m0 := with_ip sC (a0, 0)).
  assert (Hprep : prepare_eval (cell_of2 e) s = ROk tt m0).
  { unfold prepare_eval. unfold bindM at 1. rewrite compile_runnable_eq.
    unfold bindM at 1. unfold compile. rewrite Htr, E1. unfold bindM at 1. rewrite E2. unfold ret at 1.
    unfold bindM at 1. rewrite E3. reflexivity. }
  assert (XsC : cext s sC) by (eapply cext_trans; [exact XA|]; eapply cext_trans; eassumption).
  assert (RsC : same_regs s sC) by (eapply same_regs_trans; [exact RA|]; eapply same_regs_trans; eassumption).
  destruct RsC as (Rsp & Rbp & Rep & Rcap & Rstk & Rlog & more & Rg).
  pose proof (genv_rel_compile rho s sC XsC (conj Rsp (conj Rbp (conj Rep (conj Rcap (conj Rstk (conj Rlog (ex_intro _ more Rg))))))) G) as GC.
  (* the two code blocks *)
  set (bc0 := [VOp OPushImmediate; VArgc 0; VOp OMovImmediate; VPtr a; VAcc; VOp OCallAcc; VOp OHalt]).
  set (bc1 := ([VOp OEnter] ++ code) ++ [VOp ORet]).
  assert (Hbc1 : l_bc (lambda_finish (emit_op l1 ORet)) = bc1).
  { change (l_bc (lambda_finish (emit_op l1 ORet))) with (fwd (emit_op l1 ORet)). rewrite fwd_emit_op, F1. reflexivity. }
  assert (HcB : code_in sB a bc1).
  { eexists; eexists. split; [exact AB|]. split; [exact CB|]. split; [exact LB|]. split; [exact TB|exact Hbc1]. }
  assert (Hc1C : code_in sC a bc1) by (eapply code_in_ext; eassumption).
  assert (Hc0C : code_in sC a0 bc0).
  { eexists; eexists. split; [exact AC|]. split; [exact CC|]. split; [exact LC|]. split; [exact TC|reflexivity]. }
  assert (HgetA : heap_get (hp sC) a = Ok (VLambda (next_id (st sA)))).
  { destruct (ce_heap _ _ XC a AB) as [A' C']. rewrite (heap_get_alloc _ _ A'), C', CB. reflexivity. }
  assert (HlamA : tget (lams (st sC)) (next_id (st sA)) = Some (lambda_finish (emit_op l1 ORet))).
  { rewrite (ce_lams _ _ XC) by exact LB. exact TB. }
  assert (HargsA : l_args (lambda_finish (emit_op l1 ORet)) = []).
  { change (l_args (lambda_finish (emit_op l1 ORet))) with (l_args l1). destruct S1 as (_ & _ & _ & -> & _). reflexivity. }
  (* segments *)
  assert (Sg0 : forall pre x post, bc0 = pre ++ x ++ post -> seg bc0 (len pre) x) by (intros pre x post Hx; exists pre, post; auto).
  assert (Sg1 : forall pre x post, bc1 = pre ++ x ++ post -> seg bc1 (len pre) x) by (intros pre x post Hx; exists pre, post; auto).
  pose proof (mi_sp _ MIC) as HcapC.
  (* PUSH Argc 0 *)
  pose proof (step_pushimm ob m0 a0 0 bc0 (VArgc 0) (code_in_ip _ _ _ _ Hc0C) eq_refl
                (Sg0 [] [VOp OPushImmediate; VArgc 0] _ eq_refl) ltac:(discriminate)) as St1.
  set (m1 := pushed (with_ip m0 (a0, 0 + 2)) (VArgc 0)) in *.
  assert (Hc0_1 : code_in m1 a0 bc0) by (eapply code_in_regs; [| |exact Hc0C]; reflexivity).
  (* MOV lambda %acc *)
  pose proof (step_movimm ob m1 a0 (0 + 2) bc0 (VPtr a) Hc0_1 eq_refl
                (Sg0 [VOp OPushImmediate; VArgc 0] [VOp OMovImmediate; VPtr a; VAcc] _ eq_refl) ltac:(discriminate)) as St2.
  set (m2 := with_acc (with_ip m1 (a0, 0 + 2 + 3)) (VPtr a)) in *.
  assert (Hc0_2 : code_in m2 a0 bc0) by (eapply code_in_regs; [| |exact Hc0C]; reflexivity).
  (* CALL *)
  pose proof (step_call_lambda ob m2 a0 (0 + 2 + 3) bc0 a _ Hc0_2 eq_refl
                (Sg0 [VOp OPushImmediate; VArgc 0; VOp OMovImmediate; VPtr a; VAcc] [VOp OCallAcc] _ eq_refl)
                eq_refl HgetA) as St3.
  set (m3 := with_ip (pushed (pushed (with_ip m2 (a0, 0 + 2 + 3 + 1)) (VEp (ep m2))) (VIp a0 (0 + 2 + 3 + 1))) (a, 0)) in *.
  assert (Hc1_3 : code_in m3 a bc1) by (eapply code_in_regs; [| |exact Hc1C]; reflexivity).
  assert (Hsp3 : sp m3 = sp s + 3) by (cbn [sp m3 m2 m1 m0 pushed with_scap with_stack with_ip with_acc]; rewrite Rsp; lia).
  assert (Hcap3 : sp m3 < scap m3).
  { unfold m3. change (sp (with_ip ?x _)) with (sp x). change (scap (with_ip ?x _)) with (scap x).
    apply pushed_sp_lt. apply pushed_sp_lt. unfold m2, m1. cbn [sp scap with_ip with_acc].
    apply pushed_sp_lt. exact HcapC. }
  assert (Hs3_1 : sget m3 (sp s + 1) = VArgc 0).
  { unfold m3. change (sget (with_ip ?x _) ?j) with (sget x j).
    rewrite sget_pushed_other by (cbn [sp m2 m1 m0 pushed with_scap with_stack with_ip with_acc]; rewrite Rsp; lia).
    rewrite sget_pushed_other by (cbn [sp m2 m1 m0 pushed with_scap with_stack with_ip with_acc]; rewrite Rsp; lia).
    change (sget (with_ip m2 _) ?j) with (sget m1 j). unfold m1.
    replace (sp s + 1) with (sp (with_ip m0 (a0, 0 + 2)) + 1) by (cbn [sp m0 with_ip]; rewrite Rsp; reflexivity).
    apply sget_pushed_top. }
  assert (Hs3_2 : sget m3 (sp s + 2) = VEp (ep s)).
  { unfold m3. change (sget (with_ip ?x _) ?j) with (sget x j).
    rewrite sget_pushed_other by (cbn [sp m2 m1 m0 pushed with_scap with_stack with_ip with_acc]; rewrite Rsp; lia).
    replace (sp s + 2) with (sp (with_ip m2 (a0, 0 + 2 + 3 + 1)) + 1)
      by (cbn [sp m2 m1 m0 pushed with_scap with_stack with_ip with_acc]; rewrite Rsp; lia).
    rewrite sget_pushed_top. cbn [ep m2 m1 m0 pushed with_scap with_stack with_ip with_acc]. rewrite Rep. reflexivity. }
  assert (Hs3_3 : sget m3 (sp s + 3) = VIp a0 (0 + 2 + 3 + 1)).
  { unfold m3. change (sget (with_ip ?x _) ?j) with (sget x j).
    replace (sp s + 3) with (sp (pushed (with_ip m2 (a0, 0 + 2 + 3 + 1)) (VEp (ep m2))) + 1)
      by (cbn [sp m2 m1 m0 pushed with_scap with_stack with_ip with_acc]; rewrite Rsp; lia).
    apply sget_pushed_top. }
  (* ENTER *)
  pose proof (step_enter_top ob m3 a bc1 _ _ Hc1_3 eq_refl eq_refl eq_refl HgetA HlamA HargsA
                ltac:(lia) Hcap3 ltac:(rewrite Hsp3; replace (sp s + 3 - 2) with (sp s + 1) by lia; exact Hs3_1)) as St4.
  set (m4 := with_bp (pushed (with_ip m3 (a, 1)) (VBp (bp m3))) (sp m3 + 1 - 4)) in *.
  assert (Hsp4 : sp m4 = sp s + 4) by (cbn [sp m4 pushed with_bp with_scap with_stack with_ip]; rewrite Hsp3; lia).
  assert (Hbp4 : bp m4 = sp s) by (cbn [bp m4 with_bp]; rewrite Hsp3; lia).
  assert (Hkeep4 : forall j, j <= sp s + 3 -> sget m4 j = sget m3 j).
  { intros j Hj. unfold m4. change (sget (with_bp ?x _) ?k) with (sget x k).
    rewrite sget_pushed_other by (cbn [sp with_ip]; rewrite Hsp3; lia). reflexivity. }
  assert (Hs4_4 : sget m4 (sp s + 4) = VBp (bp s)).
  { unfold m4. change (sget (with_bp ?x _) ?k) with (sget x k).
    replace (sp s + 4) with (sp (with_ip m3 (a, 1)) + 1) by (cbn [sp with_ip]; rewrite Hsp3; lia).
    rewrite sget_pushed_top. cbn [bp m3 m2 m1 m0 pushed with_scap with_stack with_ip with_acc]. rewrite Rbp. reflexivity. }
  assert (XC4 : cext sC m4) by (apply cext_same; try reflexivity; lia).
  assert (MI4 : minv m4).
  { destruct MIC as [HI GI SP]. constructor; [exact HI|exact GI|].
    unfold m4. change (sp (with_bp ?x _)) with (sp x). change (scap (with_bp ?x _)) with (scap x).
    apply pushed_sp_lt. exact Hcap3. }
  assert (Hc1_4 : code_in m4 a bc1) by (eapply code_in_regs; [| |exact Hc1C]; reflexivity).
  assert (G4 : genv_rel rho m4) by (eapply genv_rel_ext; [exact XC4|reflexivity|exact GC]).
  (* the code of e: it ends at RET, or a tail call in it returns from the frame *)
  assert (Hfr4 : frame_at m4 0 (ep s) (a0, 0 + 2 + 3 + 1) (bp s)).
  { unfold frame_at. rewrite Hbp4. rewrite !Hkeep4 by lia. cbn [fst snd]. repeat split; auto. lia. }
  assert (Ht4 : tframe m4) by (exists 0, (ep s), (a0, 0 + 2 + 3 + 1), (bp s); split; [exact Hfr4|lia]).
  assert (Hret : exists k m6, steps k m4 = Some m6 /\ cext m4 m6 /\ minv m6 /\ vrep (acc m6) r (hp m6) (st m6) /\
            genv_rel rho' m6 /\ sp m6 = sp s /\ ep m6 = ep s /\ ip m6 = (a0, 0 + 2 + 3 + 1) /\ bp m6 = bp s /\
            out_log m6 = out_log m4).
  { destruct (EX m4 a bc1 (cext_trans _ _ _ XB (cext_trans _ _ _ XC XC4)) MI4 Hc1_4
              (Sg1 [VOp OEnter] code [VOp ORet] ltac:(unfold bc1; rewrite <- app_assoc; reflexivity)) eq_refl G4
              (lrel_nil m4) (fun _ => Ht4))
      as [(n & m5 & St5 & Fr5' & MI5 & Hip5 & V5 & G5)|[_ (n & m6 & k' & e' & i' & b' & St6 & Hfr' & X46 & MI6 & V6 & G6 & Q1 & Q2 & Q3 & Q4 & Q5 & _)]].
    - pose proof (f2_frame _ _ Fr5') as Fr5.
      change (len (fwd top_lam)) with 1 in Hip5.
      pose proof (code_in_ext _ _ _ _ Hc1_4 (fr_ext _ _ Fr5)) as Hc1_5.
      assert (Hbp5 : bp m5 = sp s) by (rewrite (fr_bp _ _ Fr5); exact Hbp4).
      assert (Hsp5 : sp m5 = sp s + 4) by (rewrite (fr_sp _ _ Fr5); exact Hsp4).
      assert (Hk5 : forall j, j <= sp s + 4 -> sget m5 j = sget m4 j) by (intros j Hj; apply (fr_stack _ _ Fr5); lia).
      assert (SgR : seg bc1 (1 + len code) [VOp ORet]).
      { replace (1 + len code) with (len ([VOp OEnter] ++ code)) by (lens; lia).
        apply (Sg1 _ _ []). unfold bc1. rewrite app_nil_r. reflexivity. }
      pose proof (step_ret ob m5 a (1 + len code) bc1 (ep s) a0 (0 + 2 + 3 + 1) (bp s) Hc1_5 Hip5 SgR) as St6.
      assert (Hcap5 : bp m5 + 4 < scap m5) by (rewrite Hbp5, <- Hsp5; apply MI5).
      specialize (St6 Hcap5).
      rewrite Hbp5 in St6.
      specialize (St6 ltac:(rewrite Hk5, Hkeep4 by lia; exact Hs3_1) ltac:(rewrite Hk5, Hkeep4 by lia; exact Hs3_2)
                      ltac:(rewrite Hk5, Hkeep4 by lia; exact Hs3_3) ltac:(rewrite Hk5 by lia; exact Hs4_4)).
      set (m6 := with_bp (with_ip (with_ep (with_sp (with_ip m5 (a, 1 + len code + 1)) (sp s - 0)) (ep s)) (a0, 0 + 2 + 3 + 1)) (bp s)) in *.
      assert (X56 : cext m5 m6) by (apply cext_same; try reflexivity; lia).
      exists (n + 1)%nat, m6. split; [eapply steps_trans; [exact St5|apply steps_one; exact St6]|].
      split; [eapply cext_trans; [apply Fr5|exact X56]|].
      split.
      { destruct MI5 as [HI GI SP]. constructor; [exact HI|exact GI|].
        cbn [sp scap m6 with_bp with_ip with_ep with_sp with_stack]. lia. }
      split; [exact V5|]. split; [eapply genv_rel_ext; [exact X56|reflexivity|exact G5]|].
      split; [cbn [sp m6 with_bp with_ip with_ep with_sp with_stack]; lia|].
      split; [reflexivity|]. split; [reflexivity|]. split; [reflexivity|].
      cbn [out_log m6 with_bp with_ip with_ep with_sp with_stack]. apply Fr5.
    - destruct Hfr4 as (W1 & W2 & W3 & W4 & _). destruct Hfr' as (W1' & W2' & W3' & W4' & _).
      rewrite W1 in W1'. rewrite W2 in W2'. rewrite W3 in W3'. rewrite W4 in W4'.
      injection W1' as <-. injection W2' as <-. injection W4' as <-. cbn [fst snd] in W3'.
      assert (i' = (a0, 0 + 2 + 3 + 1)) as -> by (destruct i'; cbn [fst snd] in W3'; congruence).
      exists n, m6. split; [exact St6|]. split; [apply X46|]. split; [exact MI6|]. split; [exact V6|].
      split; [exact G6|]. split; [rewrite Q1, Hbp4; lia|]. split; [exact Q2|]. split; [exact Q3|].
      split; [exact Q4|exact Q5]. }
  destruct Hret as (n & m6 & St6 & X46 & MI6 & V6 & G6 & Hsp6 & Hep6 & Hip6 & Hbp6 & Hlog6).
  (* HALT *)
  assert (Hc0_6 : code_in m6 a0 bc0).
  { eapply code_in_ext; [|exact X46]. eapply code_in_ext; [exact Hc0C|exact XC4]. }
  pose proof (step_halt ob m6 a0 (0 + 2 + 3 + 1) bc0 Hc0_6 Hip6
                (Sg0 [VOp OPushImmediate; VArgc 0; VOp OMovImmediate; VPtr a; VAcc; VOp OCallAcc] [VOp OHalt] [] eq_refl)) as St7.
  set (m7 := with_ip m6 (a0, 0 + 2 + 3 + 1 + 1)) in *.
  exists (1 + 1 + 1 + 1 + n + 1)%nat, m7. split.
  { intros fuel Hfuel. unfold eval. rewrite Hprep. unfold run_count.
    replace fuel with ((1 + 1 + 1 + 1 + n) + S (fuel - (1 + 1 + 1 + 1 + n + 1)))%nat by lia.
    rewrite (run_loop_steps ob (1 + 1 + 1 + 1 + n) m0 m6).
    - rewrite run_loop_S, St7. reflexivity.
    - eapply steps_trans; [|exact St6].
      eapply steps_trans; [|apply steps_one; exact St4].
      eapply steps_trans; [|apply steps_one; exact St3].
      eapply steps_trans; [apply steps_one; exact St1|apply steps_one; exact St2]. }
  assert (X67 : cext m6 m7) by (apply cext_same; try reflexivity; lia).
  split; [exact V6|].
  split; [eapply genv_rel_ext; [exact X67|reflexivity|exact G6]|].
  split.
  { destruct MI6 as [HI GI SP]. constructor; [exact HI|exact GI|exact SP]. }
  split; [eapply cext_trans; [exact XsC|]; eapply cext_trans; [exact XC4|]; eapply cext_trans; [exact X46|exact X67]|].
  split; [exact Hsp6|]. split; [exact Hbp6|]. split; [exact Hep6|].
  change (out_log m7) with (out_log m6). rewrite Hlog6.
  cbn [out_log m4 m3 m2 m1 m0 pushed with_bp with_scap with_stack with_ip with_acc]. exact Rlog.
Qed.

End Eval2.

End Sem2.

Print Assumptions compile_correct2.
Print Assumptions eval_fragment2.

(* ============================================================ the real `not` again *)
From MW Require Model.ListVec Model.Builtins.

Lemma bind_ok_inv2 {A B} (x : M A) (f : A -> M B) s r s' : bindM x f s = ROk r s' ->
  exists a s1, x s = ROk a s1 /\ f a s1 = ROk r s'.
Proof. unfold bindM. destruct (x s) as [a s1| | |]; try discriminate. eauto. Qed.
Lemma pop_raw_st m v m' : pop_raw m = ROk v m' -> st m' = st m.
Proof.
  unfold pop_raw. destruct (sp m =? 0); [discriminate|]. destruct (sp m <? scap m); [|discriminate].
  intros [= _ <-]. reflexivity.
Qed.
Lemma not_b_st m v m' : ListVec.not_b m = ROk v m' -> st m' = st m.
Proof.
  unfold ListVec.not_b. intros H.
  apply bind_ok_inv2 in H as (n & s1 & H1 & H).
  apply bind_ok_inv2 in H as (w & s2 & H2 & H). unfold ret in H. injection H as _ <-.
  unfold pop_argc in H1. apply bind_ok_inv2 in H1 as (v0 & s0 & P0 & H1).
  assert (s1 = s0) as ->.
  { destruct v0; try discriminate. destruct ((_ <? _) || _); [discriminate|]. injection H1 as _ <-. reflexivity. }
  unfold pop_value, pop_deref in H2. apply bind_ok_inv2 in H2 as (v1 & s3 & P1 & H2).
  unfold hderef, lift in H2. destruct (heap_deref (hp s3) v1); try discriminate. injection H2 as _ <-.
  rewrite (pop_raw_st _ _ _ P1). apply (pop_raw_st _ _ _ P0).
Qed.

Theorem builtin_envs_not : forall b, builtin_envs Builtins.other_builtin bsem_not b.
Proof.
  intros b m v m' rs r Hsem Hrun. unfold bsem_not in Hsem.
  destruct (N.eqb_spec b B_NOT) as [->|]; [|discriminate].
  rewrite run_builtin_not in Hrun. rewrite (not_b_st _ _ _ Hrun). reflexivity.
Qed.
Lemma builtin_envs_unspecified ob b : builtin_envs ob (fun _ _ => None) b.
Proof. intros m v m' rs r H. discriminate. Qed.

(* ============================================================ ... with the final conversion *)
Section EvalDone2.
Variable ob : N -> M vcell.
Variable bsem : N -> list rval -> option rval.
Hypothesis Hb : forall b, builtin_ok ob bsem b.
Hypothesis He : forall b, builtin_envs ob bsem b.

Theorem eval_fragment2_done e rho r rho' s :
  wf_expr2 e [] -> ref_eval2 bsem [] [] rho e r rho' -> minv s -> genv_rel rho s ->
  transform_expr TRANSFORM_FUEL s (cell_of2 e) = Ok (cell_of2 e) ->
  exists n m,
    vrep (acc m) r (hp m) (st m) /\ genv_rel rho' m /\ minv m /\ cext s m /\
    sp m = sp s /\ bp m = bp s /\ ep m = ep s /\ out_log m = out_log s /\
    (forall fuel, (n <= fuel)%nat -> eval ob fuel (cell_of2 e) s = halt_result m) /\
    (halt_result m <> RNoFuel \/ (no_ptr_cells (hp m) /\ (rcost r <= cell_fuel m)%nat) ->
     forall fuel, (n <= fuel)%nat ->
       eval ob fuel (cell_of2 e) s = ROk (Done (rcell r)) (with_stack m tempty (sp m))).
Proof.
  intros Hwf HR MI G Htr.
  destruct (eval_fragment2 ob bsem Hb He e rho r rho' s Hwf HR MI G Htr)
    as (n & m & Hev & V & G' & MI' & X & Hsp & Hbp & Hep & Hlog).
  exists n, m. do 8 (split; [assumption|]). split; [exact Hev|].
  intros Hprem fuel Hf. rewrite (Hev fuel Hf).
  destruct Hprem as [Hnf|[NP Hc]].
  - apply halt_result_done_nofuel; assumption.
  - apply halt_result_done_cost; assumption.
Qed.
End EvalDone2.
Print Assumptions eval_fragment2_done.

(* ============================================================ non-vacuity *)
(* ((lambda (x y) (if x y 'no)) #t '(1 2)) *)
Definition ex2_list : cell := CPair (CNum (Fixnum 1)) (CPair (CNum (Fixnum 2)) CNil).
Definition ex2_e : expr2 :=
  XLet [S_ "x"; S_ "y"] (XIf (XVar (S_ "x")) (XVar (S_ "y")) (XQuote (CSym (S_ "no"))))
       [XConst (CBool true); XQuote ex2_list].

Lemma ex2_hypotheses :
  wf_expr2 ex2_e [] /\ minv (vm_empty 8192) /\ genv_rel rho_empty (vm_empty 8192) /\
  ref_eval2 bsem_not [] [] rho_empty ex2_e (RDatum ex2_list) rho_empty.
Proof.
  split.
  { cbn [wf_expr2 ex2_e]. split; [reflexivity|]. split; [intros x [<-|[<-|[]]]; reflexivity|].
    split; [reflexivity|]. split; [exists []; split; [vm_compute; reflexivity|intros x []]|].
    split; [cbn; repeat split|cbn; repeat split]. }
  split; [apply minv_vm_empty; reflexivity|]. split; [intros x r H; discriminate|].
  eapply R2_let.
  - eapply R2_cons; [apply R2_const|]. eapply R2_cons; [apply R2_quote|apply R2_nil].
  - eapply R2_if_t.
    + apply (R2_local bsem_not _ _ _ _ 0); reflexivity.
    + reflexivity.
    + apply (R2_local bsem_not _ _ _ _ 1); reflexivity.
Qed.

(* ((lambda (x) ((lambda (y z) (if y z 'no)) x '(1 2))) #t): the inner application is in tail
   position of the outer body (TCALL, 2 arguments into a frame of 1), the outer one in tail
   position of the top-level lambda (TCALL, 1 argument into a frame of 0); the operand x of
   the inner application is a parameter of the outer lambda *)
Definition ex3_e : expr2 :=
  XLet [S_ "x"]
    (XLet [S_ "y"; S_ "z"] (XIf (XVar (S_ "y")) (XVar (S_ "z")) (XQuote (CSym (S_ "no"))))
          [XVar (S_ "x"); XQuote ex2_list])
    [XConst (CBool true)].

Lemma ex3_hypotheses :
  wf_expr2 ex3_e [] /\ ref_eval2 bsem_not [] [] rho_empty ex3_e (RDatum ex2_list) rho_empty.
Proof.
  split.
  { cbn [wf_expr2 ex3_e]. split; [reflexivity|]. split; [intros x [<-|[]]; reflexivity|].
    split; [reflexivity|]. split; [exists []; split; [vm_compute; reflexivity|intros x []]|].
    split; [|cbn; repeat split].
    split; [reflexivity|]. split; [intros x [<-|[<-|[]]]; reflexivity|].
    split; [reflexivity|]. split; [exists []; split; [vm_compute; reflexivity|intros x []]|].
    split; [cbn; repeat split|cbn; repeat split]. }
  eapply R2_let.
  - eapply R2_cons; [apply R2_const|apply R2_nil].
  - eapply R2_let.
    + eapply R2_cons; [apply (R2_local bsem_not _ _ _ _ 0); reflexivity|].
      eapply R2_cons; [apply R2_quote|apply R2_nil].
    + eapply R2_if_t.
      * apply (R2_local bsem_not _ _ _ _ 0); reflexivity.
      * reflexivity.
      * apply (R2_local bsem_not _ _ _ _ 1); reflexivity.
Qed.
