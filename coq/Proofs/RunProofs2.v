(* RunProofs2.v — C07: the failure exit of the run loop as a state EQUATION (what a failed
   evaluation leaves = what the completed instructions and the failing instruction did, with
   the registers and the stack reset), k consecutive failures; C13: sliced execution against
   Vm::eval.  Generic in the builtin table.                                             *)
From Coq Require Import String Lia.
From MW Require Import Model.Base Model.F64 Model.Num Model.Datum Model.Parse Model.TransformDef Model.Transform
  Model.VmTypes Model.Heap Model.VmBase Model.Compile Model.Vm Proofs.RunProofs.
Open Scope N_scope.

(* the error arm of run_count, run.rs:44-55: stack.clear(); sp = 0; bp = 0; ep = usize::MAX;
   acc = Undefined — and nothing else *)
Definition reset_regs (s : vm) : vm :=
  with_acc (with_ep (with_bp (with_stack s tempty 0) 0) USIZE_MAX) VUndef.

Lemma reset_regs_fields s :
  reset_regs s = mk_vm (hp s) (st s) (g_bind s) (g_slots s) tempty (scap s) 0 0 USIZE_MAX (ip s) VUndef (out_log s).
Proof. reflexivity. Qed.

Section Run2.
Variable ob : N -> M vcell.
Notation run_one := (Vm.run_one ob).
Notation run_loop := (Vm.run_loop ob).
Notation run_count := (Vm.run_count ob).
Notation steps := (RunProofs.steps ob).
Notation eval := (Vm.eval ob).

Lemma fail_result_inv e msg s r s' : fail_result e msg s = ROk r s' ->
  exists t, stack_trace s = Ok t /\ r = Failed e msg (Some t) /\ s' = reset_regs s.
Proof.
  unfold fail_result. destruct (stack_trace s) as [t| | |]; try discriminate.
  intros [= <- <-]. exists t. auto.
Qed.

(* ------------------------------------------------------------ the failure exit, exactly *)
(* a run that ends in a failure: n instructions completed ([steps]), the next one failed in
   the state s_f (the Rust mutates the Vm in place: s_f is the machine at the point where
   the instruction returned Err), the trace was taken from s_f, and the final state IS s_f
   with the stack cleared and sp / bp / ep / acc reset *)
Theorem failed_exit_equation fuel : forall cyc count s e msg tr s',
  run_loop fuel cyc count s = ROk (Failed e msg tr) s' ->
  exists n s_n s_f t, (n < fuel)%nat /\ steps n s = Some s_n /\ run_one s_n = RErr e msg s_f /\
    stack_trace s_f = Ok t /\ tr = Some t /\ s' = reset_regs s_f.
Proof.
  induction fuel as [|f IH]; intros cyc count s e msg tr s' H; [discriminate|].
  rewrite run_loop_S in H. destruct (run_one s) as [[|] s1|e1 m1 s1| |] eqn:E; try discriminate.
  - unfold halt_result in H. destruct (to_cell (acc s1) s1); discriminate.
  - destruct (match count with Some c => cyc + 1 =? c | None => false end); [discriminate|].
    destruct (IH _ _ _ _ _ _ _ H) as (n & s_n & s_f & t & Hn & Hs & Hr & Ht & Etr & Es).
    exists (S n), s_n, s_f, t. split; [lia|]. split; [cbn [RunProofs.steps]; rewrite E; exact Hs|]. auto.
  - destruct (fail_result_inv _ _ _ _ _ H) as (t & Ht & Er & Es). injection Er as -> -> ->.
    exists O, s, s1, t. split; [lia|]. split; [reflexivity|]. auto.
Qed.

(* and conversely, for the uninterrupted run: "exactly" *)
Lemma run_loop_steps' n : forall m m' f cyc, steps n m = Some m' ->
  run_loop (n + f) cyc None m = run_loop f 0 None m'.
Proof.
  induction n as [|n IH]; intros m m' f cyc H; cbn [RunProofs.steps] in H.
  - injection H as <-. cbn [Nat.add]. apply run_loop_none_cyc.
  - cbn [Nat.add]. rewrite run_loop_S.
    destruct (run_one m) as [[|] m1|e1 m1 s1| |]; try discriminate. apply IH. exact H.
Qed.

Theorem failed_exit_converse fuel cyc s n s_n s_f e msg t :
  (n < fuel)%nat -> steps n s = Some s_n -> run_one s_n = RErr e msg s_f -> stack_trace s_f = Ok t ->
  run_loop fuel cyc None s = ROk (Failed e msg (Some t)) (reset_regs s_f).
Proof.
  intros Hn Hs Hr Ht. replace fuel with (n + S (fuel - n - 1))%nat by lia.
  rewrite (run_loop_steps' n s s_n _ cyc Hs). rewrite run_loop_S, Hr. unfold fail_result. rewrite Ht.
  reflexivity.
Qed.

(* what stays: heap, Rc payloads, globals, output log and stack capacity of the final state
   are those of the failing instruction's state — the completed effects and nothing else *)
Corollary failure_preserves fuel cyc count s e msg tr s' :
  run_loop fuel cyc count s = ROk (Failed e msg tr) s' ->
  exists n s_n s_f, steps n s = Some s_n /\ run_one s_n = RErr e msg s_f /\
    hp s' = hp s_f /\ st s' = st s_f /\ g_bind s' = g_bind s_f /\ g_slots s' = g_slots s_f /\
    out_log s' = out_log s_f /\ scap s' = scap s_f /\ ip s' = ip s_f /\
    sp s' = 0 /\ bp s' = 0 /\ ep s' = USIZE_MAX /\ acc s' = VUndef /\ stack s' = tempty.
Proof.
  intros H. destruct (failed_exit_equation _ _ _ _ _ _ _ _ H) as (n & s_n & s_f & t & _ & Hs & Hr & _ & _ & ->).
  exists n, s_n, s_f. repeat split; assumption.
Qed.

(* Vm::eval *)
Theorem eval_failed_equation fuel c s e msg t s' :
  eval fuel c s = ROk (Failed e msg (Some t)) s' ->
  exists p n s_n s_f, prepare_eval c s = ROk tt p /\ (n < fuel)%nat /\ steps n p = Some s_n /\
    run_one s_n = RErr e msg s_f /\ stack_trace s_f = Ok t /\ s' = reset_regs s_f.
Proof.
  unfold Vm.eval. destruct (prepare_eval c s) as [[] p|e1 m1 s1| |] eqn:E; try discriminate.
  intros H. unfold Vm.run_count in H.
  destruct (failed_exit_equation _ _ _ _ _ _ _ _ H) as (n & s_n & s_f & t' & Hn & Hs & Hr & Ht & Etr & Es).
  injection Etr as <-. exists p, n, s_n, s_f. auto 8.
Qed.

(* ------------------------------------------------------------ k consecutive failures *)
(* k evaluations (any forms, any fuel), each failing at run time, each started on the machine
   the previous one left *)
Inductive fail_seq : nat -> vm -> vm -> Prop :=
| fs_0 s : fail_seq 0 s s
| fs_S k s s1 s2 fuel c e msg t :
    eval fuel c s = ROk (Failed e msg (Some t)) s1 -> fail_seq k s1 s2 -> fail_seq (S k) s s2.

Theorem k_failures_no_accumulation k s s' : fail_seq k s s' -> (0 < k)%nat ->
  sp s' = 0 /\ bp s' = 0 /\ ep s' = USIZE_MAX /\ acc s' = VUndef /\ stack s' = tempty.
Proof.
  induction 1 as [s|k s s1 s2 fuel c e msg t He Hseq IH]; intros Hk; [lia|].
  destruct k as [|k].
  - inversion Hseq; subst.
    destruct (eval_failed_equation _ _ _ _ _ _ _ He) as (p & n & s_n & s_f & _ & _ & _ & _ & _ & ->).
    repeat split.
  - apply IH. lia.
Qed.

(* the stack vector: the error arm does not touch its length; if no instruction and no
   compilation ever shrinks it (stack.rs: the Vec only grows, by doubling in push), the
   capacity after a failed evaluation is the maximum over every state the evaluation went
   through, and it is monotone along any sequence of failing evaluations *)
Definition cap_monotone : Prop :=
  (forall s r s', run_one s = ROk r s' -> scap s <= scap s') /\
  (forall s e m s', run_one s = RErr e m s' -> scap s <= scap s') /\
  (forall c s u s', prepare_eval c s = ROk u s' -> scap s <= scap s').

Lemma steps_cap n : cap_monotone -> forall s s', steps n s = Some s' -> scap s <= scap s'.
Proof.
  intros (H1 & _ & _). induction n as [|n IH]; intros s s' H; cbn [RunProofs.steps] in H.
  - injection H as <-. lia.
  - destruct (run_one s) as [[|] s1| | |] eqn:E; try discriminate.
    specialize (H1 _ _ _ E). specialize (IH _ _ H). lia.
Qed.

Theorem failure_capacity_is_max fuel c s e msg t s' : cap_monotone ->
  eval fuel c s = ROk (Failed e msg (Some t)) s' ->
  scap s <= scap s' /\
  exists p n, prepare_eval c s = ROk tt p /\ scap p <= scap s' /\
    forall j s_j, (j <= n)%nat -> steps j p = Some s_j -> scap s_j <= scap s'.
Proof.
  intros CM He. pose proof CM as (H1 & H2 & H3).
  destruct (eval_failed_equation _ _ _ _ _ _ _ He) as (p & n & s_n & s_f & Hp & _ & Hs & Hr & _ & ->).
  change (scap (reset_regs s_f)) with (scap s_f).
  pose proof (H3 _ _ _ _ Hp) as C0. pose proof (steps_cap n CM _ _ Hs) as C1. pose proof (H2 _ _ _ _ Hr) as C2.
  split; [lia|]. exists p, n. split; [exact Hp|]. split; [lia|].
  intros j s_j Hj Hsj.
  assert (Hrest : steps (n - j) s_j = Some s_n).
  { replace n with (j + (n - j))%nat in Hs by lia. rewrite steps_add, Hsj in Hs. exact Hs. }
  pose proof (steps_cap _ CM _ _ Hrest). lia.
Qed.

Theorem k_failures_capacity k s s' : cap_monotone -> fail_seq k s s' -> scap s <= scap s'.
Proof.
  intros CM. induction 1 as [s|k s s1 s2 fuel c e msg t He Hseq IH]; [lia|].
  destruct (failure_capacity_is_max _ _ _ _ _ _ _ CM He) as [C _]. lia.
Qed.


(* ------------------------------------------------------------ C13: sliced Vm::eval *)
(* the REPL's interface: prepare_eval once, then run_count(b1), run_count(b2), ... until a
   slice returns Some(cell) or Err *)
Definition eval_sliced (bs : list N) (c : cell) (s : vm) : res run_result :=
  match prepare_eval c s with
  | ROk _ s' => run_slices ob bs s'
  | RErr e m s' => ROk (Failed e m None) s'
  | RPanic k => RPanic k
  | RNoFuel => RNoFuel
  end.

(* whenever Vm::eval completes (value or failure) within [fuel] instructions, every sequence
   of positive budgets with enough total gives the same outcome AND the same machine *)
Theorem eval_sliced_equals_eval bs fuel c s r :
  eval fuel c s = r -> r <> RNoFuel ->
  Forall (fun b => 0 < b) bs -> N.of_nat fuel <= total bs ->
  eval_sliced bs c s = r.
Proof.
  unfold Vm.eval, eval_sliced. destruct (prepare_eval c s) as [u p|e1 m1 s1|k|]; auto.
  intros Hr Hn Hpos Hsum. exact (slices_equal_run ob bs fuel p r Hr Hn Hpos Hsum).
Qed.

(* the same, field by field *)
Corollary eval_sliced_same_state bs fuel c s out s1 :
  eval fuel c s = ROk out s1 ->
  Forall (fun b => 0 < b) bs -> N.of_nat fuel <= total bs ->
  exists s2, eval_sliced bs c s = ROk out s2 /\
    hp s2 = hp s1 /\ st s2 = st s1 /\ g_bind s2 = g_bind s1 /\ g_slots s2 = g_slots s1 /\
    stack s2 = stack s1 /\ scap s2 = scap s1 /\ sp s2 = sp s1 /\ bp s2 = bp s1 /\ ep s2 = ep s1 /\
    ip s2 = ip s1 /\ acc s2 = acc s1 /\ out_log s2 = out_log s1.
Proof.
  intros He Hpos Hsum. exists s1. split; [|repeat split].
  apply (eval_sliced_equals_eval bs fuel c s _ He); [discriminate|assumption|assumption].
Qed.

(* an evaluation never ends in "budget exhausted" *)
Lemma eval_never_yields fuel c s s1 : eval fuel c s <> ROk Yield s1.
Proof.
  unfold Vm.eval. destruct (prepare_eval c s) as [u p|e1 m1 s2|k|].
  - unfold Vm.run_count. apply run_none_not_yield.
  - discriminate.
  - discriminate.
  - discriminate.
Qed.

Corollary eval_sliced_completes bs fuel c s out s1 :
  eval fuel c s = ROk out s1 ->
  Forall (fun b => 0 < b) bs -> N.of_nat fuel <= total bs ->
  out <> Yield /\ eval_sliced bs c s = ROk out s1.
Proof.
  intros He Hpos Hsum. split.
  - intros E. rewrite E in He. exact (eval_never_yields _ _ _ _ He).
  - apply (eval_sliced_equals_eval bs fuel c s _ He); [discriminate|assumption|assumption].
Qed.

End Run2.

(* ------------------------------------------------------------ data of the examples in Props/C07.v, C13.v *)
Definition rx_dat (t : String.string) : cell := match parse_text (S_ t) with Ok (d, _) => d | _ => CNil end.
(* completes one effect (the definition of x), then fails: nosuch is unbound *)
Definition rx_fail : cell := rx_dat "(if (define x (quote (#t))) (nosuch 1) 2)".
(* succeeds after 20-odd instructions through CLOSURE, CALL, ENTER, a lexical MOV and RET *)
Definition rx_ok : cell := rx_dat "((lambda (a b) (if a b (quote no))) #t (quote (1 2)))".
Definition rx_state {A} (r : res A) (d : vm) : vm := match r with ROk _ s => s | _ => d end.
