(* DepthProofs3.v — work package c19c: the directions Props/C19.v still kept OPEN.
   get_as_cell / mark / equal? through QUOTE chains (''''a: every quote is the two-element
   list (quote x)), equal? through nested vectors, mark through chains of closures and of
   continuations.  Witness heaps are defined here (Model/Depth.v is not touched). *)
From Coq Require Import Lia FMapPositive String.
From MW Require Import Model.Base Model.F64 Model.Num Model.NumArith Model.Datum Model.Lex Model.Parse
  Model.TransformDef Model.Transform Model.VmTypes Model.Heap Model.VmBase Model.Compile Model.Gc
  Model.Depth Proofs.DepthProofs Proofs.DepthProofs2.
Open Scope nat_scope.

Local Ltac nm := unfold nmax in *.
Arguments N.add : simpl never.
Arguments N.sub : simpl never.
Arguments N.eqb : simpl never.
Arguments N.ltb : simpl never.
Arguments N.leb : simpl never.

(* ============================================================ the quote-chain heap *)
(* the heap image put_cell builds for ''''a, with the interned symbols shared:
     0: ()    1: quote    2: a
     level j >= 1:   2j+1: (D(j-1) . 0)      2j+2: (1 . 2j+1)        D j = 2j+2 *)
Definition qt_cells (i : N) : vcell :=
  if (i =? 0)%N then VNil else if (i =? 1)%N then VSym QUOTE else if (i =? 2)%N then VSym [97%N]
  else if N.odd i then VPair (i - 1) 0 else VPair 1 (i - 1).
Definition qt_heap (k : nat) : heap := heap_of_fun qt_cells (2 * k + 3).

Lemma qt_cells_inner : forall j, qt_cells (N.of_nat (2 * S j + 1)) = VPair (N.of_nat (2 * j + 2)) 0.
Proof.
  intro j. unfold qt_cells.
  destruct (N.eqb_spec (N.of_nat (2 * S j + 1)) 0); [lia|].
  destruct (N.eqb_spec (N.of_nat (2 * S j + 1)) 1); [lia|].
  destruct (N.eqb_spec (N.of_nat (2 * S j + 1)) 2); [lia|].
  replace (N.of_nat (2 * S j + 1)) with (1 + 2 * N.of_nat (S j))%N by lia.
  rewrite N.odd_add_mul_2. change (N.odd 1) with true. cbv iota. f_equal. lia.
Qed.
Lemma qt_cells_outer : forall j, qt_cells (N.of_nat (2 * S j + 2)) = VPair 1 (N.of_nat (2 * S j + 1)).
Proof.
  intro j. unfold qt_cells.
  destruct (N.eqb_spec (N.of_nat (2 * S j + 2)) 0); [lia|].
  destruct (N.eqb_spec (N.of_nat (2 * S j + 2)) 1); [lia|].
  destruct (N.eqb_spec (N.of_nat (2 * S j + 2)) 2); [lia|].
  replace (N.of_nat (2 * S j + 2)) with (0 + 2 * N.of_nat (S j + 1))%N by lia.
  rewrite N.odd_add_mul_2. change (N.odd 0) with false. cbv iota. f_equal. lia.
Qed.

Lemma qt_get0 : forall n, heap_get (qt_heap n) 0 = Ok VNil.
Proof. intro n. unfold qt_heap. rewrite heap_of_fun_get by lia. reflexivity. Qed.
Lemma qt_get1 : forall n, heap_get (qt_heap n) 1 = Ok (VSym QUOTE).
Proof. intro n. unfold qt_heap. rewrite heap_of_fun_get by lia. reflexivity. Qed.
Lemma qt_get2 : forall n, heap_get (qt_heap n) 2 = Ok (VSym [97%N]).
Proof. intro n. unfold qt_heap. rewrite heap_of_fun_get by lia. reflexivity. Qed.
Lemma qt_get_inner : forall n j, j < n ->
  heap_get (qt_heap n) (N.of_nat (2 * S j + 1)) = Ok (VPair (N.of_nat (2 * j + 2)) 0).
Proof. intros n j H. unfold qt_heap. rewrite heap_of_fun_get by lia. now rewrite qt_cells_inner. Qed.
Lemma qt_get_outer : forall n j, j < n ->
  heap_get (qt_heap n) (N.of_nat (2 * S j + 2)) = Ok (VPair 1 (N.of_nat (2 * S j + 1))).
Proof. intros n j H. unfold qt_heap. rewrite heap_of_fun_get by lia. now rewrite qt_cells_outer. Qed.

(* ================================================ get_as_cell through a quote chain *)
Section GacQuote.
Variable bname : N -> text.
Variable s : store.

Lemma gac_sym_eq : forall h f t, gac_d bname h s (S f) (VSym t) = (1, Ok (CSym t)).
Proof. reflexivity. Qed.

(* exactly two frames per quote: get_as_cell(Ptr) -> get_as_cell(Pair); the loop of the second
   one walks (quote x) and calls get_as_cell(Ptr x) *)
Lemma gac_quote_exact : forall n j fuel, j <= n -> fuel >= 4 * j + 2 ->
  gac_d bname (qt_heap n) s fuel (VPtr (N.of_nat (2 * j + 2))) = (2 * j + 2, Ok (quote_chain j)).
Proof.
  intros n. induction j as [|j IH]; intros fuel Hj Hf.
  - destruct fuel as [|[|f]]; try lia.
    rewrite gac_ptr_eq. change (N.of_nat (2 * 0 + 2)) with 2%N. rewrite qt_get2, gac_sym_eq. reflexivity.
  - destruct fuel as [|[|[|[|[|[|f]]]]]]; try lia.
    rewrite gac_ptr_eq, qt_get_outer by lia. rewrite gac_pair_eq, gac_loop_eq.
    rewrite gac_ptr_eq, qt_get1, gac_sym_eq.
    rewrite qt_get_inner by lia. rewrite gac_loop_eq.
    rewrite IH by lia. rewrite qt_get0. cbn [bind quote_chain]. nm. f_equal. lia.
Qed.

Lemma gac_quote_unbounded : forall k fuel, fuel >= 4 * k + 2 ->
  fst (gac_d bname (qt_heap k) s fuel (VPtr (N.of_nat (2 * k + 2)))) > k.
Proof. intros k fuel Hf. rewrite gac_quote_exact by lia. cbn [fst]. lia. Qed.
End GacQuote.

(* ======================================================= mark: general step lemmas *)
Section MarkSteps.
Variable s : store.
Variable vd : nat.

Definition leaf_cell (v : vcell) : bool :=
  match v with
  | VPair _ _ | VPtr _ | VCont _ | VLambda _ | VClosure _ _ | VLexEnv _ | VVec _ | VEp _ => false
  | _ => true
  end.

(* a cell without outgoing references: marked (if it was not), no nested call *)
Lemma mark_loop_leaf : forall h f p m, (p <? hlen h)%N = true -> leaf_cell (cell_at h p) = true ->
  mark_loop_d h s vd (S f) p m = (0, Ok (if g_is_used m p then m else tset m p GUsed)).
Proof.
  intros h f p m H1 H2. cbn [mark_loop_d]. rewrite H1. cbn [negb].
  destruct (g_is_used m p); [reflexivity|].
  destruct (cell_at h p); try discriminate H2; reflexivity.
Qed.

Lemma unused_after_leaf : forall (m : gmap) p q,
  p <> q -> g_is_used m q = false ->
  g_is_used (if g_is_used m p then m else tset m p GUsed) q = false.
Proof.
  intros m p q Hne H. destruct (g_is_used m p); [exact H|].
  rewrite g_is_used_tset_neq by exact Hne. exact H.
Qed.

(* a pair: the car is marked by a nested call of mark *)
Lemma mark_loop_pair_car_ge : forall h f p m car cdr,
  (p <? hlen h)%N = true -> g_is_used m p = false -> cell_at h p = VPair car cdr ->
  fst (mark_loop_d h s vd (S f) p m) >= S (fst (mark_loop_d h s vd f car (tset m p GUsed))).
Proof.
  intros h f p m car cdr H1 H2 H3. rewrite (mark_loop_pair s vd h f p m car cdr H1 H2 H3).
  destruct (mark_loop_d h s vd f car (tset m p GUsed)) as [d o]. cbn [fst].
  destruct o; cbn [fst]; try lia.
  destruct (mark_loop_d h s vd f cdr a) as [d2 o2]. cbn [fst]. nm. lia.
Qed.
(* ... and the cdr is followed in the same frame *)
Lemma mark_loop_pair_cdr_ge : forall h f p m car cdr d m1,
  (p <? hlen h)%N = true -> g_is_used m p = false -> cell_at h p = VPair car cdr ->
  mark_loop_d h s vd f car (tset m p GUsed) = (d, Ok m1) ->
  fst (mark_loop_d h s vd (S f) p m) >= fst (mark_loop_d h s vd f cdr m1).
Proof.
  intros h f p m car cdr d m1 H1 H2 H3 H4. rewrite (mark_loop_pair s vd h f p m car cdr H1 H2 H3).
  rewrite H4. destruct (mark_loop_d h s vd f cdr m1) as [d2 o2]. cbn [fst]. nm. lia.
Qed.

Lemma unused_tempty : forall p, g_is_used tempty p = false.
Proof. intro p. unfold g_is_used, g_get. rewrite tget_tempty. reflexivity. Qed.
End MarkSteps.

(* ======================================================= mark through a quote chain *)
Section MarkQuote.
Variable s : store.
Variable vd : nat.

Lemma qt_cell_at : forall n p, (p < N.of_nat (2 * n + 3))%N -> cell_at (qt_heap n) p = qt_cells p.
Proof. intros n p H. unfold qt_heap. apply heap_of_fun_cell_at. exact H. Qed.
Lemma qt_hlen : forall n p, (p < N.of_nat (2 * n + 3))%N -> (p <? hlen (qt_heap n))%N = true.
Proof. intros n p H. unfold qt_heap. rewrite hlen_heap_of_fun. apply N.ltb_lt. exact H. Qed.

(* one frame of mark per quote: mark on (quote x) marks `quote` by a nested call, follows the
   cdr in its loop and marks x by a nested call *)
Lemma mark_loop_quote_ge : forall n j fuel m, j <= n -> fuel >= 2 * j ->
  (forall i, 2 <= i -> i <= 2 * j + 2 -> g_is_used m (N.of_nat i) = false) ->
  fst (mark_loop_d (qt_heap n) s vd fuel (N.of_nat (2 * j + 2)) m) >= j.
Proof.
  intros n. induction j as [|j IH]; intros fuel m Hj Hf Hm; [lia|].
  destruct fuel as [|[|f]]; try lia.
  set (po := N.of_nat (2 * S j + 2)). set (pi := N.of_nat (2 * S j + 1)).
  assert (Ho1 : (po <? hlen (qt_heap n))%N = true) by (apply qt_hlen; subst po; lia).
  assert (Ho2 : g_is_used m po = false) by (apply Hm; lia).
  assert (Ho3 : cell_at (qt_heap n) po = VPair 1 pi).
  { subst po pi. rewrite qt_cell_at by lia. apply qt_cells_outer. }
  assert (Hq : mark_loop_d (qt_heap n) s vd (S f) 1%N (tset m po GUsed) =
               (0, Ok (if g_is_used (tset m po GUsed) 1%N then tset m po GUsed
                       else tset (tset m po GUsed) 1%N GUsed))).
  { apply mark_loop_leaf; [apply qt_hlen; lia|]. rewrite qt_cell_at by lia. reflexivity. }
  eapply Nat.le_trans; [|exact (mark_loop_pair_cdr_ge s vd _ _ _ _ _ _ _ _ Ho1 Ho2 Ho3 Hq)].
  set (m1 := if g_is_used (tset m po GUsed) 1%N then tset m po GUsed
             else tset (tset m po GUsed) 1%N GUsed).
  assert (Hm1 : forall i, 2 <= i -> i <= 2 * j + 3 -> g_is_used m1 (N.of_nat i) = false).
  { intros i H2 Hi. subst m1. apply unused_after_leaf; [lia|].
    rewrite g_is_used_tset_neq by (subst po; lia). apply Hm; lia. }
  assert (Hi1 : (pi <? hlen (qt_heap n))%N = true) by (apply qt_hlen; subst pi; lia).
  assert (Hi2 : g_is_used m1 pi = false) by (subst pi; apply Hm1; lia).
  assert (Hi3 : cell_at (qt_heap n) pi = VPair (N.of_nat (2 * j + 2)) 0).
  { subst pi. rewrite qt_cell_at by lia. apply qt_cells_inner. }
  eapply Nat.le_trans; [|exact (mark_loop_pair_car_ge s vd _ _ _ _ _ _ Hi1 Hi2 Hi3)].
  apply le_n_S. apply IH; [lia|lia|].
  intros i H2 Hi. rewrite g_is_used_tset_neq by (subst pi; lia). apply Hm1; lia.
Qed.

Lemma mark_quote_ge : forall n j fuel, j <= n -> fuel >= 2 * j ->
  fst (mark_d (qt_heap n) s vd fuel (N.of_nat (2 * j + 2)) tempty) >= S j.
Proof.
  intros n j fuel Hj Hf. unfold mark_d.
  pose proof (mark_loop_quote_ge n j fuel tempty Hj Hf) as H.
  destruct (mark_loop_d (qt_heap n) s vd fuel (N.of_nat (2 * j + 2)) tempty) as [d o]. cbn [fst] in *.
  assert (d >= j); [|lia]. apply H. intros i _ _. apply unused_tempty.
Qed.
End MarkQuote.

(* ===================================================== equal? through quote chains *)
(* two disjoint copies of ''''a in one heap; `quote` and `a` are interned, hence shared:
     0: ()   1: quote   2: a
     level j >= 1:  4j-1: (L(j-1) . 0)   4j: (R(j-1) . 0)   4j+1: (1 . 4j-1)   4j+2: (1 . 4j)
     L 0 = R 0 = 2,  L j = 4j+1,  R j = 4j+2 *)
Definition qt2_cells (i : N) : vcell :=
  if (i =? 0)%N then VNil else if (i =? 1)%N then VSym QUOTE else if (i =? 2)%N then VSym [97%N]
  else if (i mod 4 <? 1)%N || (2 <? i mod 4)%N
       then VPair (if (i <=? 4)%N then 2 else i - 2) 0
       else VPair 1 (i - 2).
Definition qt2_heap (k : nat) : heap := heap_of_fun qt2_cells (4 * k + 3).

Lemma mod4_of : forall q r, (r < 4)%N -> ((4 * q + r) mod 4 = r)%N.
Proof.
  intros q r Hr. rewrite N.add_comm, N.mul_comm, N.mod_add by lia. apply N.mod_small. exact Hr.
Qed.

Lemma qt2_cells_inner : forall q r, (1 <= q)%N -> (r = 3 \/ r = 4)%N ->
  qt2_cells (4 * (q - 1) + r) = VPair (if (q =? 1)%N then 2 else 4 * (q - 1) + r - 2) 0.
Proof.
  intros q r Hq Hr. unfold qt2_cells.
  destruct (N.eqb_spec (4 * (q - 1) + r) 0); [lia|].
  destruct (N.eqb_spec (4 * (q - 1) + r) 1); [lia|].
  destruct (N.eqb_spec (4 * (q - 1) + r) 2); [lia|].
  assert (Hm : ((4 * (q - 1) + r) mod 4 = if (r =? 3)%N then 3 else 0)%N).
  { destruct Hr as [->| ->].
    - change (3 =? 3)%N with true. cbv iota. apply mod4_of. lia.
    - change (4 =? 3)%N with false. cbv iota.
      replace (4 * (q - 1) + 4)%N with (4 * q + 0)%N by lia. apply mod4_of. lia. }
  rewrite Hm.
  assert (Hb : ((if (r =? 3)%N then 3%N else 0%N) <? 1)%N || (2 <? (if (r =? 3)%N then 3%N else 0%N))%N = true).
  { destruct Hr as [->| ->]; reflexivity. }
  rewrite Hb. f_equal.
  destruct (N.eqb_spec q 1) as [->|Hne].
  - destruct Hr as [->| ->]; reflexivity.
  - destruct (N.leb_spec (4 * (q - 1) + r) 4); [lia|reflexivity].
Qed.
Lemma qt2_cells_outer : forall q r, (1 <= q)%N -> (r = 1 \/ r = 2)%N ->
  qt2_cells (4 * q + r) = VPair 1 (4 * q + r - 2).
Proof.
  intros q r Hq Hr. unfold qt2_cells.
  destruct (N.eqb_spec (4 * q + r) 0); [lia|].
  destruct (N.eqb_spec (4 * q + r) 1); [lia|].
  destruct (N.eqb_spec (4 * q + r) 2); [lia|].
  rewrite mod4_of by lia.
  destruct Hr as [->| ->]; reflexivity.
Qed.

Section EqualQuote.
Variable prof : profile.
Variable s : store.

Lemma qt2_get : forall n p, (p < N.of_nat (4 * n + 3))%N -> heap_get (qt2_heap n) p = Ok (qt2_cells p).
Proof. intros n p H. unfold qt2_heap. apply heap_of_fun_get. exact H. Qed.

(* the addresses of the two copies of level j *)
Definition qL (j : nat) : N := match j with O => 2%N | _ => N.of_nat (4 * j + 1) end.
Definition qR (j : nat) : N := match j with O => 2%N | _ => N.of_nat (4 * j + 2) end.

Lemma qt2_get_outer_L : forall n j, 1 <= j -> j <= n ->
  heap_get (qt2_heap n) (qL j) = Ok (VPair 1 (N.of_nat (4 * j - 1))).
Proof.
  intros n j H1 Hn. destruct j as [|j]; [lia|]. unfold qL.
  rewrite qt2_get by lia.
  replace (N.of_nat (4 * S j + 1)) with (4 * N.of_nat (S j) + 1)%N by lia.
  rewrite qt2_cells_outer by lia. f_equal. f_equal. lia.
Qed.
Lemma qt2_get_outer_R : forall n j, 1 <= j -> j <= n ->
  heap_get (qt2_heap n) (qR j) = Ok (VPair 1 (N.of_nat (4 * j))).
Proof.
  intros n j H1 Hn. destruct j as [|j]; [lia|]. unfold qR.
  rewrite qt2_get by lia.
  replace (N.of_nat (4 * S j + 2)) with (4 * N.of_nat (S j) + 2)%N by lia.
  rewrite qt2_cells_outer by lia. f_equal. f_equal. lia.
Qed.
Lemma qt2_get_inner_L : forall n j, 1 <= j -> j <= n ->
  heap_get (qt2_heap n) (N.of_nat (4 * j - 1)) = Ok (VPair (qL (j - 1)) 0).
Proof.
  intros n j H1 Hn. rewrite qt2_get by lia.
  replace (N.of_nat (4 * j - 1)) with (4 * (N.of_nat j - 1) + 3)%N by lia.
  rewrite qt2_cells_inner by lia. f_equal. f_equal.
  destruct (N.eqb_spec (N.of_nat j) 1) as [E|E].
  - replace j with 1 by lia. reflexivity.
  - destruct j as [|[|j]]; try lia. unfold qL. cbn [Nat.sub]. lia.
Qed.
Lemma qt2_get_inner_R : forall n j, 1 <= j -> j <= n ->
  heap_get (qt2_heap n) (N.of_nat (4 * j)) = Ok (VPair (qR (j - 1)) 0).
Proof.
  intros n j H1 Hn. rewrite qt2_get by lia.
  replace (N.of_nat (4 * j)) with (4 * (N.of_nat j - 1) + 4)%N by lia.
  rewrite qt2_cells_inner by lia. f_equal. f_equal.
  destruct (N.eqb_spec (N.of_nat j) 1) as [E|E].
  - replace j with 1 by lia. reflexivity.
  - destruct j as [|[|j]]; try lia. unfold qR. cbn [Nat.sub]. lia.
Qed.
Lemma qt2_get0 : forall n, heap_get (qt2_heap n) 0 = Ok VNil.
Proof. intro n. rewrite qt2_get by lia. reflexivity. Qed.

(* equal? of the two copies of level j >= 1: exactly 2j+1 frames (equal -> compare_pair ->
   equal on the quoted datum, one level down), and the answer is #t; level 0 is the same
   interned symbol: eqv answers *)
Lemma equal_quote_exact : forall n j fuel, j <= n -> fuel >= 3 * j + 1 ->
  equal_d prof (qt2_heap n) s fuel (VPtr (qL j)) (VPtr (qR j)) = (2 * j + 1, Ok true).
Proof.
  intros n. induction j as [|j IH]; intros fuel Hj Hf.
  - destruct fuel as [|f]; [lia|]. apply equal_same_ptr.
  - destruct fuel as [|[|[|[|f]]]]; try lia.
    pose proof (qt2_get_outer_L n (S j) ltac:(lia) Hj) as HoL.
    pose proof (qt2_get_outer_R n (S j) ltac:(lia) Hj) as HoR.
    pose proof (qt2_get_inner_L n (S j) ltac:(lia) Hj) as HiL.
    pose proof (qt2_get_inner_R n (S j) ltac:(lia) Hj) as HiR.
    replace (S j - 1) with j in HiL, HiR by lia.
    rewrite equal_eq.
    rewrite (eqv_ptr_pairs prof s _ (qL (S j)) (qR (S j)) _ _ _ _ ltac:(unfold qL, qR; lia) HoL HoR).
    replace ((1 =? 1) && (N.of_nat (4 * S j - 1) =? N.of_nat (4 * S j)))%N%bool with false
      by (symmetry; apply andb_false_iff; right; apply N.eqb_neq; lia).
    unfold deref1. rewrite HoL, HoR.
    rewrite cmp_pair_loop_eq. rewrite equal_same_ptr, HiL, HiR. cbn [is_vpair andb].
    rewrite cmp_pair_loop_eq. rewrite IH by lia.
    rewrite qt2_get0. cbn [is_vpair andb]. rewrite equal_same_ptr.
    nm. f_equal. lia.
Qed.

Lemma equal_quote_unbounded : forall k fuel, fuel >= 3 * k + 4 ->
  fst (equal_d prof (qt2_heap (S k)) s fuel (VPtr (qL (S k))) (VPtr (qR (S k)))) > k.
Proof. intros k fuel Hf. rewrite equal_quote_exact by lia. cbn [fst]. lia. Qed.
End EqualQuote.

(* ==================================================== equal? through nested vectors *)
(* two disjoint copies of #(#(#( () ))) in one heap and one store:
     cell 0 = (),  cell i = Vector(Rc i);  Rc i = [Ptr (i-2)] (i >= 3), [Ptr 0] (i = 1, 2);
   level j sits at 2j-1 and 2j *)
Definition vec2_cells (i : N) : vcell := if (i =? 0)%N then VNil else VVec i.
Definition vec2_heap (k : nat) : heap := heap_of_fun vec2_cells (S (2 * k)).
Definition vec2_elems (i : N) : list vcell := [VPtr (if (i <=? 2)%N then 0 else i - 2)].
Definition vec2_store (k : nat) : store :=
  mk_store tempty (tbl_fill vec2_elems (S (2 * k)) tempty) tempty tempty tempty tempty (N.of_nat (S (2 * k))).

Lemma vec2_get : forall n p, (1 <= p)%N -> (p < N.of_nat (S (2 * n)))%N ->
  heap_get (vec2_heap n) p = Ok (VVec p).
Proof.
  intros n p H1 Hp. unfold vec2_heap. rewrite heap_of_fun_get by exact Hp. unfold vec2_cells.
  destruct (N.eqb_spec p 0); [lia|reflexivity].
Qed.
Lemma vec2_store_get : forall n p, (p < N.of_nat (S (2 * n)))%N ->
  tget (vecs (vec2_store n)) p = Some (vec2_elems p).
Proof.
  intros n p Hp. unfold vec2_store. cbn [vecs].
  replace p with (N.of_nat (N.to_nat p)) by lia. rewrite tbl_fill_get by lia. reflexivity.
Qed.

Section EqualVec.
Variable prof : profile.

Lemma eqv_ptr_vecs : forall h s a b x y, a <> b ->
  heap_get h a = Ok (VVec x) -> heap_get h b = Ok (VVec y) ->
  eqv_m prof h s (VPtr a) (VPtr b) = Ok false.
Proof.
  intros h s a b x y Hne Ha Hb. unfold eqv_m.
  rewrite if_false_eq by (apply N.eqb_neq; exact Hne).
  generalize dependent (heap_get h a). intros o ->. generalize dependent (heap_get h b). intros o ->.
  reflexivity.
Qed.

(* equal on two distinct one-element vectors: equal -> compare_vector -> equal on the elements *)
Lemma equal_vec1_eq : forall h s f a b x y ea eb, a <> b ->
  heap_get h a = Ok (VVec x) -> heap_get h b = Ok (VVec y) ->
  tget (vecs s) x = Some [ea] -> tget (vecs s) y = Some [eb] ->
  equal_d prof h s (S f) (VPtr a) (VPtr b) =
  let '(d1, o1) := equal_d prof h s f ea eb in (S (S d1), o1).
Proof.
  intros h s f a b x y ea eb Hne Ha Hb Hx Hy.
  rewrite equal_eq, (eqv_ptr_vecs h s a b x y Hne Ha Hb).
  unfold deref1. rewrite Ha, Hb, Hx, Hy. cbn [length Nat.eqb negb].
  destruct (equal_d prof h s f ea eb) as [d1 o1].
  destruct o1 as [[|]| | |]; try reflexivity. nm. rewrite Nat.max_0_r. reflexivity.
Qed.

(* exactly two frames per level, and the answer is #t *)
Lemma equal_vec_exact : forall n i fuel, 1 <= i -> i <= n -> fuel >= i + 1 ->
  equal_d prof (vec2_heap n) (vec2_store n) fuel (VPtr (N.of_nat (2 * i - 1))) (VPtr (N.of_nat (2 * i)))
  = (2 * i + 1, Ok true).
Proof.
  intros n. induction i as [|i IH]; intros fuel H1 Hn Hf; [lia|].
  destruct fuel as [|[|f]]; try lia.
  set (a := N.of_nat (2 * S i - 1)). set (b := N.of_nat (2 * S i)).
  rewrite (equal_vec1_eq (vec2_heap n) (vec2_store n) (S f) a b a b
             (VPtr (if (a <=? 2)%N then 0 else a - 2)%N) (VPtr (if (b <=? 2)%N then 0 else b - 2)%N));
    [|subst a b; lia|apply vec2_get; subst a; lia|apply vec2_get; subst b; lia
     |apply vec2_store_get; subst a; lia|apply vec2_store_get; subst b; lia].
  destruct i as [|i'].
  - replace (a <=? 2)%N with true by (symmetry; apply N.leb_le; subst a; lia).
    replace (b <=? 2)%N with true by (symmetry; apply N.leb_le; subst b; lia).
    rewrite equal_same_ptr. reflexivity.
  - replace (a <=? 2)%N with false by (symmetry; apply N.leb_gt; subst a; lia).
    replace (b <=? 2)%N with false by (symmetry; apply N.leb_gt; subst b; lia).
    replace (a - 2)%N with (N.of_nat (2 * S i' - 1)) by (subst a; lia).
    replace (b - 2)%N with (N.of_nat (2 * S i')) by (subst b; lia).
    rewrite IH by lia. f_equal. lia.
Qed.

Lemma equal_vec_unbounded : forall k fuel, fuel >= k + 2 ->
  fst (equal_d prof (vec2_heap (S k)) (vec2_store (S k)) fuel
         (VPtr (N.of_nat (2 * S k - 1))) (VPtr (N.of_nat (2 * S k)))) > k.
Proof. intros k fuel Hf. rewrite equal_vec_exact by lia. cbn [fst]. lia. Qed.
End EqualVec.

