(* GcIsoEx2.v — C03: two related machines with DIFFERENT free cells running an allocating
   program: PUSH %acc; PUSH %acc; CONS; HALT.  Machine 2 has one more (garbage) cell allocated,
   so its three allocations land at other addresses and force a heap growth. *)
From Coq Require Import Lia List.
From MW Require Import Model.Base Model.Num Model.VmTypes Model.Heap Model.Gc Model.VmBase Model.Vm
  Proofs.GcProofs Proofs.SymtabProofs Proofs.GcIso Proofs.GcIsoPrim Proofs.GcIsoStep Proofs.GcIsoSched
  Proofs.GcIsoEx Proofs.GcIsoAll Proofs.GcIsoSched2.
Open Scope N_scope.

Definition ax_lam : lambda :=
  mk_lambda true false [] [] [VOp OPushAcc; VOp OPushAcc; VOp OCons; VOp OHalt] None.
Definition ax_store : store := mk_store tempty tempty tempty (tset tempty 0 ax_lam) tempty tempty 1.
Definition ax_heap2 : heap := snd (heap_put ix_heap VNil).
Definition ax_vm1 : vm := mk_vm ix_heap ax_store [] [] tempty 256 0 0 USIZE_MAX (0, 0) VUndef [].
Definition ax_vm2 : vm := mk_vm ax_heap2 ax_store [] [] tempty 256 0 0 USIZE_MAX (0, 0) VUndef [].

Lemma ax_heap2_inv : heap_inv ax_heap2.
Proof. apply heap_inv_put_any, ix_heap_inv. Qed.

Lemma ax_srel : srel ix_W ax_vm1 ax_vm2.
Proof.
  assert (A0 : allocated ix_heap 0) by (split; [reflexivity|vm_compute; discriminate]).
  assert (A2 : allocated ax_heap2 0) by (split; [reflexivity|vm_compute; discriminate]).
  constructor; cbn [ix_W ax_vm1 ax_vm2 wa wi wf wtop hp st g_bind g_slots stack scap sp bp ep ip acc out_log fst snd].
  - reflexivity.
  - vm_compute. discriminate.
  - intros a b -> ->. reflexivity.
  - intros a ->. exact A0.
  - intros a ->. exact A2.
  - exact ix_heap_inv.
  - exact ax_heap2_inv.
  - intros a ->. change (cell_at ix_heap 0) with (VLambda 0). change (cell_at ax_heap2 0) with (VLambda 0).
    split; [reflexivity|]. split; [intros x []|intros i [<-|[]]; reflexivity].
  - constructor; try reflexivity; intros i Hi; try discriminate Hi.
    injection Hi as ->. cbn [ax_store lams]. rewrite tget_tset_same. cbn [orel]. split; [reflexivity|].
    split; [|split; constructor].
    cbn [bclive ax_lam l_bc is_jump]. repeat split; intros x [].
  - split; [reflexivity|intros x []].
  - split; [reflexivity|constructor].
  - intros i Hi. unfold sget. cbn [stack ax_vm1 ax_vm2]. rewrite !tget_tempty. apply vr_plain; reflexivity.
  - reflexivity.
  - reflexivity.
  - reflexivity.
  - reflexivity.
  - split; [reflexivity|right; reflexivity].
  - split; [split; [reflexivity|left; reflexivity]|reflexivity].
  - apply vr_plain; reflexivity.
  - reflexivity.
Qed.

(* the first free cell differs: 1 on the left, 2 on the right *)
Lemma ax_free : free_list (hp ax_vm1) = [1; 2; 3] /\ free_list (hp ax_vm2) = [2; 3].
Proof. split; reflexivity. Qed.

Ltac ax_cov := intros op s' E; vm_compute in E; injection E as <- <-; exact I.
Ltac ax_step := eexists; split; [vm_compute; reflexivity|]; split; [vm_compute; discriminate|]; split; [ax_cov|].

Lemma ax_ok ob : related ax_vm1 ax_vm2 /\ plain_ok_all ob 4 ax_vm1
  /\ (exists s', run_plain ob 4 ax_vm1 = ROk true s' /\ acc s' = VPtr 3 /\ hlen (hp s') = 4)
  /\ (exists s', run_plain ob 4 ax_vm2 = ROk true s' /\ acc s' = VPtr 7 /\ hlen (hp s') = 8).
Proof.
  split; [exists ix_W; exact ax_srel|]. split; [|split].
  - assert (E : exists s1, run_one ob ax_vm1 = ROk false s1 /\ bounded s1 /\ covered_all ob ax_vm1 /\
                exists s2, run_one ob s1 = ROk false s2 /\ bounded s2 /\ covered_all ob s1 /\
                exists s3, run_one ob s2 = ROk false s3 /\ bounded s3 /\ covered_all ob s2 /\
                exists s4, run_one ob s3 = ROk true s4 /\ bounded s4 /\ covered_all ob s3 /\ True).
    { ax_step. ax_step. ax_step. ax_step. exact I. }
    destruct E as (s1 & E1 & B1 & C1 & s2 & E2 & B2 & C2 & s3 & E3 & B3 & C3 & s4 & E4 & B4 & C4 & _).
    cbn [plain_ok_all]. rewrite E1. split; [exact C1|]. split; [exact B1|].
    rewrite E2. split; [exact C2|]. split; [exact B2|].
    rewrite E3. split; [exact C3|]. split; [exact B3|].
    rewrite E4. split; [exact C4|exact B4].
  - eexists. split; [vm_compute; reflexivity|]. split; reflexivity.
  - eexists. split; [vm_compute; reflexivity|]. split; reflexivity.
Qed.
