(* CmpProofs.v — number.rs PartialEq / PartialOrd and the comparison procedures of
   builtin/number.rs against the order of the mathematical values (C09).        *)
From Coq Require Import ZArith Lia Bool QArith List.
From MW Require Import Model.Base Model.F64 Model.Num Model.Ratio32 Model.NumArith Model.NumSpec
  Proofs.GcdProofs Proofs.Ratio32Proofs Proofs.NumProofs.
Import ListNotations.
Open Scope Z_scope.

Lemma inj_compare x y : (inject_Z x ?= inject_Z y)%Q = (x ?= y).
Proof. unfold Qcompare. cbn. now rewrite !Z.mul_1_r. Qed.

Lemma rwf_bounds n d : rwf 32 (n, d) -> - 2 ^ 31 <= n <= 2 ^ 31 - 1 /\ 1 <= d.
Proof.
  intros [[Hn [_ Pd]] _]. cbn [fst snd] in *. apply in_int_iff in Hn. unfold imin, imax in Hn.
  change (32 - 1) with 31 in Hn. lia.
Qed.

Lemma not_i32 l : in_i32 l = false -> l < - 2 ^ 31 \/ 2 ^ 31 - 1 < l.
Proof.
  unfold in_i32, I32_MIN, I32_MAX. intros H. apply andb_false_iff in H.
  destruct H as [H|H]; apply Z.leb_gt in H; lia.
Qed.

(* an integer outside i32 against a well-formed rational: decided by the sign *)
Lemma wide_int_vs_ratio l n d : in_i32 l = false -> rwf 32 (n, d) ->
  (inject_Z l ?= n # Z.to_pos d)%Q = (if 0 <? l then Gt else Lt).
Proof.
  intros Hl W. destruct (rwf_bounds n d W) as [Bn Bd]. apply not_i32 in Hl.
  unfold Qcompare. cbn [Qnum Qden inject_Z]. rewrite Z2Pos.id by lia. rewrite Z.mul_1_r.
  destruct (Z.ltb_spec 0 l); [apply Z.compare_gt_iff|apply Z.compare_lt_iff]; nia.
Qed.
Lemma ratio_vs_wide_int l n d : in_i32 l = false -> rwf 32 (n, d) ->
  (n # Z.to_pos d ?= inject_Z l)%Q = (if 0 <? l then Lt else Gt).
Proof.
  intros Hl W. destruct (rwf_bounds n d W) as [Bn Bd]. apply not_i32 in Hl.
  unfold Qcompare. cbn [Qnum Qden inject_Z]. rewrite Z2Pos.id by lia. rewrite Z.mul_1_r.
  destruct (Z.ltb_spec 0 l); [apply Z.compare_lt_iff|apply Z.compare_gt_iff]; nia.
Qed.

(* PartialOrd on exact operands: the order of the values, in every representation
   pair, in either profile (no panic, no fuel exhaustion) *)
Theorem cmp_exact p a b :
  wfb a = true -> wfb b = true -> is_exact a = true -> is_exact b = true ->
  num_partial_cmp p a b = Ok (Some (qv a ?= qv b)%Q).
Proof.
  intros Wa Wb Xa Xb.
  destruct a as [l|l|ln ld|fl]; destruct b as [r0|r0|rn rd|fr]; try discriminate;
    cbn [num_partial_cmp qv wfb] in *; unfold W32 in *;
    try (apply rwfb_rwf in Wa); try (apply rwfb_rwf in Wb);
    try (rewrite inj_compare; reflexivity).
  - destruct (in_i32 l) eqn:E.
    + unfold some_cmp. rewrite rcmp_Q by (try lia; auto using rok_int, rwf_rok). reflexivity.
    + now rewrite wide_int_vs_ratio.
  - destruct (in_i32 l) eqn:E.
    + unfold some_cmp. rewrite rcmp_Q by (try lia; auto using rok_int, rwf_rok). reflexivity.
    + now rewrite wide_int_vs_ratio.
  - destruct (in_i32 r0) eqn:E.
    + unfold some_cmp. rewrite rcmp_Q by (try lia; auto using rok_int, rwf_rok). reflexivity.
    + now rewrite ratio_vs_wide_int.
  - destruct (in_i32 r0) eqn:E.
    + unfold some_cmp. rewrite rcmp_Q by (try lia; auto using rok_int, rwf_rok). reflexivity.
    + now rewrite ratio_vs_wide_int.
  - unfold some_cmp. rewrite rcmp_Q by (try lia; auto using rwf_rok). reflexivity.
Qed.

Definition is_Eq (c : comparison) : bool := match c with Eq => true | _ => false end.

Lemma Qcompare_sym_eq x y : is_Eq (x ?= y)%Q = is_Eq (y ?= x)%Q.
Proof. rewrite <- (Qcompare_antisym x y). destruct (x ?= y)%Q; reflexivity. Qed.

(* PartialEq on exact operands *)
Theorem eq_exact p a b :
  wfb a = true -> wfb b = true -> is_exact a = true -> is_exact b = true ->
  num_eq p a b = Ok (is_Eq (qv a ?= qv b)%Q).
Proof.
  intros Wa Wb Xa Xb.
  destruct a as [l|l|ln ld|fl]; destruct b as [r0|r0|rn rd|fr]; try discriminate;
    cbn [num_eq qv wfb] in *; unfold W32 in *;
    try (apply rwfb_rwf in Wa); try (apply rwfb_rwf in Wb);
    try (rewrite inj_compare; f_equal; destruct (Z.compare_spec l r0); destruct (Z.eqb_spec l r0); try reflexivity; lia).
  - destruct (in_i32 l) eqn:E.
    + unfold req. rewrite rcmp_Q by (try lia; auto using rok_int, rwf_rok). reflexivity.
    + rewrite wide_int_vs_ratio by assumption. destruct (0 <? l); reflexivity.
  - destruct (in_i32 l) eqn:E.
    + unfold req. rewrite rcmp_Q by (try lia; auto using rok_int, rwf_rok). reflexivity.
    + rewrite wide_int_vs_ratio by assumption. destruct (0 <? l); reflexivity.
  - destruct (in_i32 r0) eqn:E.
    + unfold req. rewrite rcmp_Q by (try lia; auto using rok_int, rwf_rok). cbn [bind].
      f_equal. apply Qcompare_sym_eq.
    + rewrite ratio_vs_wide_int by assumption. destruct (0 <? r0); reflexivity.
  - destruct (in_i32 r0) eqn:E.
    + unfold req. rewrite rcmp_Q by (try lia; auto using rok_int, rwf_rok). reflexivity.
    + rewrite ratio_vs_wide_int by assumption. destruct (0 <? r0); reflexivity.
  - unfold req. rewrite rcmp_Q by (try lia; auto using rwf_rok). reflexivity.
Qed.

(* ---------------------------------------------- < <= > >= as Rust derives them *)
Section Derived.
Variables (p : profile) (a b : num).
Hypotheses (Wa : wfb a = true) (Wb : wfb b = true) (Xa : is_exact a = true) (Xb : is_exact b = true).

Lemma lt_exact : num_lt p a b = Ok (match (qv a ?= qv b)%Q with Lt => true | _ => false end).
Proof. unfold num_lt. now rewrite cmp_exact. Qed.
Lemma gt_exact : num_gt p a b = Ok (match (qv a ?= qv b)%Q with Gt => true | _ => false end).
Proof. unfold num_gt. now rewrite cmp_exact. Qed.
Lemma le_exact : num_le p a b = Ok (match (qv a ?= qv b)%Q with Gt => false | _ => true end).
Proof. unfold num_le. rewrite cmp_exact by assumption. cbn. destruct (qv a ?= qv b)%Q; reflexivity. Qed.
Lemma ge_exact : num_ge p a b = Ok (match (qv a ?= qv b)%Q with Lt => false | _ => true end).
Proof. unfold num_ge. rewrite cmp_exact by assumption. cbn. destruct (qv a ?= qv b)%Q; reflexivity. Qed.

(* cmp_exact in the property's words *)
Theorem lt_iff : num_lt p a b = Ok true <-> (qv a < qv b)%Q.
Proof.
  rewrite lt_exact, Qlt_alt. destruct (qv a ?= qv b)%Q; split; intros H; try reflexivity; try discriminate;
    inversion H.
Qed.
Theorem gt_iff : num_gt p a b = Ok true <-> (qv b < qv a)%Q.
Proof.
  rewrite gt_exact, Qgt_alt. destruct (qv a ?= qv b)%Q; split; intros H; try reflexivity; try discriminate;
    inversion H.
Qed.
Theorem eq_iff : num_eq p a b = Ok true <-> (qv a == qv b)%Q.
Proof.
  rewrite eq_exact by assumption. rewrite Qeq_alt.
  destruct (qv a ?= qv b)%Q; cbn; split; intros H; try reflexivity; try discriminate; inversion H.
Qed.

(* exactly one of < = > *)
Theorem trichotomy :
  exists lt eq gt, num_lt p a b = Ok lt /\ num_eq p a b = Ok eq /\ num_gt p a b = Ok gt /\
    ((lt = true /\ eq = false /\ gt = false) \/ (lt = false /\ eq = true /\ gt = false) \/
     (lt = false /\ eq = false /\ gt = true)).
Proof.
  rewrite lt_exact, gt_exact, eq_exact by assumption.
  destruct (qv a ?= qv b)%Q; do 3 eexists; repeat split; cbn; tauto.
Qed.

(* <= is (< or =), >= is (> or =) *)
Theorem le_ge_consistent :
  exists lt eq gt le ge, num_lt p a b = Ok lt /\ num_eq p a b = Ok eq /\ num_gt p a b = Ok gt /\
    num_le p a b = Ok le /\ num_ge p a b = Ok ge /\ le = (lt || eq) /\ ge = (gt || eq).
Proof.
  rewrite lt_exact, gt_exact, le_exact, ge_exact, eq_exact by assumption.
  destruct (qv a ?= qv b)%Q; do 5 eexists; repeat split.
Qed.
End Derived.

Theorem lt_trans p a b c :
  wfb a = true -> wfb b = true -> wfb c = true ->
  is_exact a = true -> is_exact b = true -> is_exact c = true ->
  num_lt p a b = Ok true -> num_lt p b c = Ok true -> num_lt p a c = Ok true.
Proof.
  intros Wa Wb Wc Xa Xb Xc. rewrite !lt_iff by assumption. apply Qlt_trans.
Qed.

Theorem eq_trans p a b c :
  wfb a = true -> wfb b = true -> wfb c = true ->
  is_exact a = true -> is_exact b = true -> is_exact c = true ->
  num_eq p a b = Ok true -> num_eq p b c = Ok true -> num_eq p a c = Ok true.
Proof.
  intros Wa Wb Wc Xa Xb Xc. rewrite !eq_iff by assumption. apply Qeq_trans.
Qed.

(* ------------------------------------------------ the variadic fold, num_comp *)
Fixpoint adj_conj (f : num -> num -> bool) (l : list num) : bool :=
  match l with
  | x :: ((y :: _) as t) => f x y && adj_conj f t
  | _ => true
  end.

Lemma adj_conj_snoc f l x z : adj_conj f ((l ++ [x]) ++ [z]) = adj_conj f (l ++ [x]) && f x z.
Proof.
  induction l as [|a l IH]; cbn [app].
  - cbn. now rewrite andb_true_r.
  - destruct l as [|b l]; cbn [app] in *.
    + cbn. now rewrite !andb_true_r.
    + change (f a b && adj_conj f (b :: (l ++ [x]) ++ [z]) = f a b && adj_conj f (b :: l ++ [x]) && f x z).
      rewrite IH. now rewrite andb_assoc.
Qed.

Section Variadic.
Variables (o : cmpop) (p : profile) (f : num -> num -> bool) (P : num -> Prop).
Hypothesis Hf : forall x y, P x -> P y -> apply_cmp o p x y = Ok (f x y).

Lemma loop_false rest y : P y -> Forall P rest ->
  num_comp_loop o p (map ANum rest) y false = Ok false.
Proof.
  intros Py H. revert y Py. induction H as [|x r Px Hr IH]; intros y Py; cbn [map num_comp_loop]; [reflexivity|].
  rewrite Hf by assumption. cbn [bind]. destruct (f x y); now apply IH.
Qed.

Lemma loop_true l : forall z, P z -> Forall P l ->
  num_comp_loop o p (rev (map ANum l)) z true = Ok (adj_conj f (l ++ [z])).
Proof.
  induction l as [|x l IH] using rev_ind; intros z Pz Hl.
  - reflexivity.
  - apply Forall_app in Hl. destruct Hl as [Hl Hx]. inversion Hx as [|? ? Px _]; subst.
    rewrite map_app, rev_app_distr. cbn [map rev app num_comp_loop].
    rewrite Hf by assumption. cbn [bind]. rewrite adj_conj_snoc.
    destruct (f x z).
    + rewrite IH by assumption. now rewrite andb_true_r.
    + rewrite andb_false_r. rewrite <- map_rev. apply loop_false; [exact Pz|]. now apply Forall_rev.
Qed.

(* (op x1 ... xn) on numbers = the conjunction of op over adjacent pairs *)
Theorem num_comp_adjacent l : l <> [] -> Forall P l ->
  b_num_comp o p (map ANum l) = Ok (RBool (adj_conj f l)).
Proof.
  intros Hne Hl. destruct (exists_last Hne) as [l' [z E]]. subst l.
  apply Forall_app in Hl. destruct Hl as [Hl Hz]. inversion Hz as [|? ? Pz _]; subst.
  unfold b_num_comp. rewrite map_app, rev_app_distr. cbn [map rev app].
  rewrite loop_true by assumption. reflexivity.
Qed.
End Variadic.

(* a non-number among the arguments: #f, not an error (kept, not claimed by C09) *)

(* instance: exact well-formed numbers, each comparison decided by the values *)
Definition exact_wf (x : num) : Prop := wfb x = true /\ is_exact x = true.
Definition cmp_spec (o : cmpop) (x y : num) : bool :=
  let c := (qv x ?= qv y)%Q in
  match o with
  | CEq => is_Eq c
  | CLt => match c with Lt => true | _ => false end
  | CGt => match c with Gt => true | _ => false end
  | CLe => match c with Gt => false | _ => true end
  | CGe => match c with Lt => false | _ => true end
  end.

Lemma apply_cmp_exact o p x y : exact_wf x -> exact_wf y -> apply_cmp o p x y = Ok (cmp_spec o x y).
Proof.
  intros [Wx Xx] [Wy Xy]. destruct o; cbn [apply_cmp cmp_spec].
  - now apply eq_exact. - now apply lt_exact. - now apply gt_exact. - now apply le_exact. - now apply ge_exact.
Qed.

Theorem variadic_exact o p l : l <> [] -> Forall exact_wf l ->
  b_num_comp o p (map ANum l) = Ok (RBool (adj_conj (cmp_spec o) l)).
Proof. intros. apply num_comp_adjacent with (P := exact_wf); auto. intros. now apply apply_cmp_exact. Qed.

(* ------------------------------------------- zero? positive? negative?, min / max *)
Lemma qv_zero : qv (Fixnum 0) = 0%Q. Proof. reflexivity. Qed.

Theorem sign_predicates p x : exact_wf x ->
  b_upred PZero p [ANum x] = Ok (RBool (is_Eq (qv x ?= 0)%Q)) /\
  b_upred PPositive p [ANum x] = Ok (RBool (match (qv x ?= 0)%Q with Gt => true | _ => false end)) /\
  b_upred PNegative p [ANum x] = Ok (RBool (match (qv x ?= 0)%Q with Lt => true | _ => false end)).
Proof.
  intros [W X]. cbn [b_upred].
  rewrite eq_exact, gt_exact, lt_exact by (auto; reflexivity). repeat split.
Qed.

(* min / max of two numbers is one of them and is below / above both *)
Theorem minmax_exact p (is_max : bool) a b : exact_wf a -> exact_wf b ->
  exists m, b_minmax is_max p [ANum a; ANum b] = Ok (RNum m) /\ (m = a \/ m = b) /\
    if is_max then (qv a <= qv m /\ qv b <= qv m)%Q else (qv m <= qv a /\ qv m <= qv b)%Q.
Proof.
  intros [Wa Xa] [Wb Xb]. unfold b_minmax. cbn [rev app pop_number bind minmax_loop].
  destruct is_max.
  - rewrite gt_exact by assumption. cbn [bind].
    destruct (qv a ?= qv b)%Q eqn:C; eexists; (split; [reflexivity|]); (split; [auto|]).
    + apply Qeq_alt in C. rewrite C. split; apply Qle_refl.
    + apply Qlt_alt in C. split; [now apply Qlt_le_weak|apply Qle_refl].
    + apply Qgt_alt in C. split; [apply Qle_refl|now apply Qlt_le_weak].
  - rewrite lt_exact by assumption. cbn [bind].
    destruct (qv a ?= qv b)%Q eqn:C; eexists; (split; [reflexivity|]); (split; [auto|]).
    + apply Qeq_alt in C. rewrite C. split; apply Qle_refl.
    + apply Qlt_alt in C. split; [apply Qle_refl|now apply Qlt_le_weak].
    + apply Qgt_alt in C. split; [now apply Qlt_le_weak|apply Qle_refl].
Qed.
