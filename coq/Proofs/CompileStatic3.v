(* CompileStatic3.v — C01: the COMPILE-TIME theorem for the fragment with closures as values
   (Proofs/Closures3.v): on a well-formed expression, under a header that binds the names sc,
   compile_expression succeeds, appends code to the lambda under construction, keeps its header,
   extends the compile-time state and leaves the registers and the table of lexical environments
   alone.  [lam_static3] additionally exports the shape of a compiled lambda expression (the
   installed code object, its environment map, the compilation of its body).               *)
From Coq Require Import String Lia FMapPositive.
From MW Require Import Model.Base Model.F64 Model.Num Model.Datum Model.TransformDef Model.Transform
  Model.VmTypes Model.Heap Model.Gc Model.VmBase Model.Compile Model.Vm
  Proofs.VmProofs0 Proofs.GcProofs Proofs.SymtabProofs Proofs.QuoteHeapProofs
  Proofs.CompileProofs Proofs.RunProofs Proofs.CompileCorrect Proofs.TailProofs Proofs.FrameSteps
  Proofs.CellFuelProofs Proofs.CompileCorrect2 Proofs.FrameSteps3 Proofs.Closures3.
From MW Require Proofs.ScopeProofs.
Open Scope N_scope.

Arguments N.add : simpl never.
Arguments N.sub : simpl never.
Arguments N.mul : simpl never.
Arguments N.eqb : simpl never.
Arguments N.ltb : simpl never.
Arguments N.leb : simpl never.

(* ============================================================ compilation leaves [envs] alone *)
Lemma mpc_envs c : forall h s v h' s', maybe_put_cell h s c = Ok (v, h', s') -> envs s' = envs s.
Proof.
  induction c as [c Hnp Hnv|ca cd IHa IHd|l HF] using cell_ind2; intros h s v h' s' H.
  - destruct c; cbn [maybe_put_cell] in H; try discriminate; try (injection H as _ _ <-; reflexivity).
    + exfalso. eapply Hnp. reflexivity.
    + unfold new_str in H. match type of H with context [heap_put ?a ?b] => destruct (heap_put a b) as [p h1] end.
      injection H as _ _ <-. reflexivity.
    + match type of H with context [heap_put ?a ?b] => destruct (heap_put a b) as [p h1] end.
      injection H as _ _ <-. reflexivity.
    + exfalso. eapply Hnv. reflexivity.
  - cbn [maybe_put_cell] in H.
    destruct (maybe_put_cell h s ca) as [[[va h1] s1]| | |] eqn:E1; cbn [bind] in H; try discriminate.
    destruct (match va with VPtr _ => (va, h1) | _ => heap_put h1 va end) as [pa h2].
    destruct (maybe_put_cell h2 s1 cd) as [[[vd h3] s3]| | |] eqn:E3; cbn [bind] in H; try discriminate.
    destruct (match vd with VPtr _ => (vd, h3) | _ => heap_put h3 vd end) as [pd h4].
    destruct pa; try discriminate. destruct pd; try discriminate.
    match type of H with context [heap_put ?a ?b] => destruct (heap_put a b) as [r h5] end. injection H as _ _ <-.
    rewrite (IHd _ _ _ _ _ E3). eapply IHa. exact E1.
  - cbn [maybe_put_cell] in H. fold elems_of in H.
    destruct (elems_of h s l []) as [[[vs h1] s1]| | |] eqn:E1; cbn [bind] in H; try discriminate.
    assert (L1 : envs s1 = envs s).
    { clear H. revert h s vs h1 s1 E1. generalize (@nil vcell).
      induction HF as [|x r Hx _ IH]; intros acc h s vs h1 s1 E1; cbn [elems_of] in E1.
      - injection E1 as _ _ <-. reflexivity.
      - destruct (maybe_put_cell h s x) as [[[vx hx] sx]| | |] eqn:Ex; cbn [bind] in E1; try discriminate.
        rewrite (IH _ _ _ _ _ _ E1). eapply Hx. exact Ex. }
    unfold new_vec in H. match type of H with context [heap_put ?a ?b] => destruct (heap_put a b) as [r h2] end.
    injection H as _ _ <-. cbn [envs]. exact L1.
Qed.

Lemma mpcm_envs d s v s' : maybe_put_cell_m d s = ROk v s' -> envs (st s') = envs (st s).
Proof.
  unfold maybe_put_cell_m. destruct (maybe_put_cell (hp s) (st s) d) as [[[v0 h] x]| | |] eqn:E; try discriminate.
  intros H. injection H as _ <-. cbn [st with_store with_heap]. eapply mpc_envs. exact E.
Qed.

Lemma put_sym_st x s v s' : put_cell_m (CSym x) s = ROk v s' -> st s' = st s.
Proof.
  unfold put_cell_m, put_cell. cbn [maybe_put_cell]. destruct (heap_put (hp s) (VSym x)) as [r h1]. cbn [bind].
  destruct r; try (match goal with |- context [heap_put ?a ?b] => destruct (heap_put a b) as [p2 h2] end);
    intros H; injection H as _ <-; reflexivity.
Qed.

Lemma get_binding_st a s k s' : get_binding a s = ROk k s' -> st s' = st s.
Proof.
  unfold get_binding. destruct (assoc_find (g_bind s) a); intros H; injection H as _ <-; reflexivity.
Qed.

Lemma put_lambda_envs L s v s' : put_lambda L s = ROk v s' -> envs (st s') = envs (st s).
Proof.
  unfold put_lambda, new_lam. cbv beta iota.
  destruct (heap_put (hp s) (VLambda (next_id (st s)))) as [r h]. intros H. injection H as _ <-. reflexivity.
Qed.

Lemma compile_formals_ok3 ps : (forall x, In x ps -> is_primitive_symbol (CSym x) = false) ->
  forall acc s, minv s ->
  exists aps s', compile_formals (syms_of ps) acc s = ROk (rev acc ++ aps, false) s' /\ minv s' /\ cext s s' /\
    same_regs s s' /\ Forall2 (pname s') aps ps /\ envs (st s') = envs (st s).
Proof.
  induction ps as [|x ps IH]; intros Hp acc s MI.
  - exists [], s. cbn [syms_of fold_right compile_formals]. rewrite app_nil_r.
    split; [reflexivity|]. split; [exact MI|]. split; [apply cext_refl|]. split; [apply same_regs_refl|].
    split; [constructor|reflexivity].
  - cbn [syms_of fold_right compile_formals is_symbol negb]. fold (syms_of ps).
    rewrite (Hp x (or_introl eq_refl)).
    destruct (put_sym_m_ok x s MI) as (a & s1 & E1 & MI1 & X1 & R1 & A & C & _ & _).
    destruct (IH (fun y Hy => Hp y (or_intror Hy)) (VPtr a :: acc) s1 MI1) as (aps & s2 & E2 & MI2 & X2 & R2 & F2 & En2).
    exists (VPtr a :: aps), s2. unfold bindM at 1. rewrite E1, E2. cbn [rev]. rewrite <- app_assoc.
    split; [reflexivity|]. split; [exact MI2|]. split; [eapply cext_trans; eassumption|].
    split; [eapply same_regs_trans; eassumption|]. split.
    + constructor; [|exact F2]. eapply pname_ext; [exact X2|]. exists a. auto.
    + rewrite En2, (put_sym_st _ _ _ _ E1). reflexivity.
Qed.

Lemma formals_ok3 ps s : (forall x, In x ps -> is_primitive_symbol (CSym x) = false) -> minv s ->
  exists aps s', (if is_nil (syms_of ps) then ret ([], false) else compile_formals (syms_of ps) []) s
                 = ROk (aps, false) s' /\ minv s' /\ cext s s' /\ same_regs s s' /\ Forall2 (pname s') aps ps /\
                 envs (st s') = envs (st s).
Proof.
  intros Hp MI. destruct ps as [|x ps].
  - exists [], s. split; [reflexivity|]. split; [exact MI|]. split; [apply cext_refl|]. split; [apply same_regs_refl|].
    split; [constructor|reflexivity].
  - rewrite syms_of_nil_iff. apply (compile_formals_ok3 (x :: ps) Hp [] s MI).
Qed.

Lemma put_cells_ok3 fs : forall s, minv s ->
  exists ptrs s', put_cells (map CSym fs) s = ROk ptrs s' /\ minv s' /\ cext s s' /\ same_regs s s' /\
    Forall2 (pname s') ptrs fs /\ envs (st s') = envs (st s).
Proof.
  induction fs as [|x fs IH]; intros s MI.
  - exists [], s. split; [reflexivity|]. split; [exact MI|]. split; [apply cext_refl|]. split; [apply same_regs_refl|].
    split; [constructor|reflexivity].
  - cbn [map put_cells].
    destruct (put_sym_m_ok x s MI) as (a & s1 & E1 & MI1 & X1 & R1 & A & C & _ & _).
    destruct (IH s1 MI1) as (ptrs & s2 & E2 & MI2 & X2 & R2 & F2 & En2).
    exists (VPtr a :: ptrs), s2. unfold bindM at 1. rewrite E1. unfold bindM at 1. rewrite E2.
    split; [reflexivity|]. split; [exact MI2|]. split; [eapply cext_trans; eassumption|].
    split; [eapply same_regs_trans; eassumption|]. split.
    + constructor; [|exact F2]. eapply pname_ext; [exact X2|]. exists a. auto.
    + rewrite En2, (put_sym_st _ _ _ _ E1). reflexivity.
Qed.

(* ============================================================ constants, quote *)
Lemma cs3_datum sc (e : expr3) d :
  (forall f l tail, compile_expression (S f) l tail (cell_of3 e) =
     (dom v <- maybe_put_cell_m d; ret (emit (emit (emit_op l OMovImmediate) v) VAcc))) ->
  heap_datum d -> compile_static3 sc e.
Proof.
  intros Heq Hd f l tail s Hf Hh MI. destruct f as [|f]; [lia|]. rewrite Heq.
  destruct (maybe_put_cell_m_ok d s Hd MI) as (v & s' & E & MI' & X & R & V).
  exists (emit (emit (emit_op l OMovImmediate) v) VAcc), s', [VOp OMovImmediate; v; VAcc].
  unfold bindM. rewrite E. split; [reflexivity|]. split; [apply fwd_emit3|]. split; [repeat split|].
  split; [exact MI'|]. split; [exact X|]. split; [exact R|]. eapply mpcm_envs. exact E.
Qed.

Lemma cs3_const sc c : wf3 (YConst c) sc -> compile_static3 sc (YConst c).
Proof. intros [Hs Hd]. apply (cs3_datum sc (YConst c) c); [intros; apply compile_const_eq; [exact Hs|exact Hd]|exact Hd]. Qed.
Lemma cs3_quote sc d : wf3 (YQuote d) sc -> compile_static3 sc (YQuote d).
Proof. intros Hd. apply (cs3_datum sc (YQuote d) d); [intros; apply compile_quote_form; exact Hd|exact Hd]. Qed.

(* ============================================================ variables *)
Lemma cs3_var sc x : wf3 (YVar x) sc -> compile_static3 sc (YVar x).
Proof.
  intros Hx f l tail s Hf Hh MI. destruct f as [|f]; [lia|]. cbn [cell_of3]. rewrite (compile_var_eq _ _ _ _ _ Hx).
  destruct (put_sym_m_ok x s MI) as (a & s1 & E1 & MI1 & X1 & R1 & A & C & Eb & Eg).
  pose proof (hdr3_ext _ _ _ _ X1 Hh) as Hh1.
  pose proof (put_sym_st _ _ _ _ E1) as St1.
  destruct (pindex x sc) as [i|] eqn:Ei.
  - exists (emit (emit (emit_op l OMov) (VLexSlot i)) VAcc), s1, [VOp OMov; VLexSlot i; VAcc].
    unfold bindM at 1. rewrite E1. unfold bindM at 1.
    rewrite (location_local3 l sc s1 a x i Hh1 (mi_heap _ MI1) A C Ei).
    split; [reflexivity|]. split; [apply fwd_emit3|]. split; [repeat split|].
    split; [exact MI1|]. split; [exact X1|]. split; [exact R1|]. rewrite St1. reflexivity.
  - destruct (get_binding_ok a s1 MI1) as (k & s2 & E2 & MI2 & X2 & R2 & Eh & Es & B).
    exists (emit (emit (emit_op l OMov) (VGSlot k)) VAcc), s2, [VOp OMov; VGSlot k; VAcc].
    unfold bindM at 1. rewrite E1. unfold bindM at 1.
    rewrite (location_global3 l sc s1 a x Hh1 (mi_heap _ MI1) A C Ei).
    unfold bindM at 1. rewrite E2. split; [reflexivity|]. split; [apply fwd_emit3|]. split; [repeat split|].
    split; [exact MI2|]. split; [eapply cext_trans; eassumption|]. split; [eapply same_regs_trans; eassumption|].
    rewrite Es, St1. reflexivity.
Qed.

(* ============================================================ define / set! (global) *)
Lemma cs3_store sc (e0 : expr3) x e :
  (forall f l tail s, compile_expression (S f) l tail (cell_of3 e0) s =
    (dom l1 <- compile_expression f l false (cell_of3 e);
     dom sym_ref <- put_cell_m (CSym x);
     dom operand <- location_operand (emit (emit_op l1 OMov) VAcc) sym_ref;
     ret (emit (emit (emit_op (emit (emit (emit_op l1 OMov) VAcc) operand) OMovImmediate) VVoid) VAcc)) s) ->
  (cell_size (cell_of3 e) < cell_size (cell_of3 e0))%nat -> pindex x sc = None ->
  compile_static3 sc e -> compile_static3 sc e0.
Proof.
  intros Heq Hsz Hpx IH f l tail s Hf Hh MI. destruct f as [|f]; [lia|]. rewrite Heq.
  destruct (IH f l false s ltac:(lia) Hh MI) as (l1 & s1 & code & E1 & F1 & S1 & MI1 & X1 & R1 & En1).
  destruct (put_sym_m_ok x s1 MI1) as (a & s2 & E2 & MI2 & X2 & R2 & A & C & Eb & Eg).
  destruct (get_binding_ok a s2 MI2) as (k & s3 & E3 & MI3 & X3 & R3 & Eh & Es & B).
  assert (Hh2 : hdr3 (emit (emit_op l1 OMov) VAcc) sc s2).
  { eapply hdr3_same; [|eapply hdr3_ext; [|exact Hh]].
    - eapply same_hdr_trans; [exact S1|repeat split].
    - eapply cext_trans; eassumption. }
  eexists; exists s3, (code ++ [VOp OMov; VAcc; VGSlot k; VOp OMovImmediate; VVoid; VAcc]).
  unfold bindM at 1. rewrite E1. unfold bindM at 1. rewrite E2. unfold bindM at 1.
  rewrite (location_global3 _ sc s2 a x Hh2 (mi_heap _ MI2) A C Hpx). unfold bindM at 1. rewrite E3.
  split; [reflexivity|]. split; [rewrite fwd_store, F1, <- app_assoc; reflexivity|].
  split; [eapply same_hdr_trans; [exact S1|repeat split]|]. split; [exact MI3|].
  assert (X13 : cext s1 s3) by (eapply cext_trans; eassumption).
  split; [eapply cext_trans; eassumption|].
  split; [eapply same_regs_trans; [exact R1|]; eapply same_regs_trans; eassumption|].
  rewrite Es, (put_sym_st _ _ _ _ E2). exact En1.
Qed.

Lemma cs3_define sc x e : wf3 (YDefine x e) sc -> compile_static3 sc e -> compile_static3 sc (YDefine x e).
Proof.
  intros (Hx & Hp & _). apply (cs3_store sc (YDefine x e) x e).
  - intros. apply compile_define_eq. exact Hx.
  - cbn [cell_of3 cell_size]. lia.
  - exact Hp.
Qed.
Lemma cs3_set sc x e : wf3 (YSet x e) sc -> compile_static3 sc e -> compile_static3 sc (YSet x e).
Proof.
  intros (Hx & Hp & _). apply (cs3_store sc (YSet x e) x e).
  - intros. apply compile_set_eq. exact Hx.
  - cbn [cell_of3 cell_size]. lia.
  - exact Hp.
Qed.

(* ============================================================ if *)
Lemma cs3_if sc c a b : compile_static3 sc c -> compile_static3 sc a -> compile_static3 sc b ->
  compile_static3 sc (YIf c a b).
Proof.
  intros IHc IHa IHb f l tail s Hf Hh MI. destruct f as [|f]; [lia|].
  cbn [cell_of3] in *. cbn [cell_size] in Hf. rewrite compile_if3_eq.
  destruct (IHc f l false s ltac:(lia) Hh MI) as (l1 & s1 & cc & E1 & F1 & S1 & MI1 & X1 & R1 & En1).
  set (l3 := emit (emit_op l1 OJnt) (VPtr CAFEBEEF)).
  assert (S3 : same_hdr l l3) by (eapply same_hdr_trans; [exact S1|repeat split]).
  destruct (IHa f l3 tail s1 ltac:(lia) (hdr3_same _ _ _ _ S3 (hdr3_ext _ _ _ _ X1 Hh)) MI1)
    as (l4 & s2 & ca & E4 & F4 & S4 & MI2 & X2 & R2 & En2).
  destruct (if_layout l l1 l4 cc ca F1 F4) as [L6 F7].
  set (l6 := emit (emit_op l4 OJmp) (VPtr CAFEBEEF)) in *.
  set (l7 := bc_patch l6 (bc_len (emit_op l1 OJnt)) (VPtr (bc_len l6))) in *.
  assert (S7 : same_hdr l l7).
  { eapply same_hdr_trans; [exact S3|]. eapply same_hdr_trans; [exact S4|]. repeat split. }
  assert (X12 : cext s s2) by (eapply cext_trans; eassumption).
  destruct (IHb f l7 tail s2 ltac:(lia) (hdr3_same _ _ _ _ S7 (hdr3_ext _ _ _ _ X12 Hh)) MI2)
    as (l8 & s3 & cb & E8 & F8 & S8 & MI3 & X3 & R3 & En3).
  set (p := len (fwd l)) in *.
  assert (L7 : len (fwd l7) = bc_len l6).
  { rewrite F7, L6. lens. fold p. lia. }
  assert (L3 : len (fwd l3) = p + len cc + 2).
  { unfold l3. rewrite fwd_emit, fwd_emit_op, F1. lens. fold p. lia. }
  exists (bc_patch l8 (bc_len (emit_op l4 OJmp)) (VPtr (bc_len l8))), s3,
         (cc ++ [VOp OJnt; VPtr (bc_len l6)] ++ ca ++ [VOp OJmp; VPtr (bc_len l8)] ++ cb).
  unfold bindM at 1. rewrite E1. unfold bindM at 1. fold l3. rewrite E4. unfold bindM at 1. fold l6 l7. rewrite E8.
  split; [reflexivity|]. split.
  { rewrite (if_final l8 l4 (fwd l ++ cc ++ [VOp OJnt; VPtr (bc_len l6)] ++ ca) cb).
    - rewrite <- !app_assoc. reflexivity.
    - rewrite F8, F7, <- !app_assoc. reflexivity.
    - rewrite bc_len_fwd, fwd_emit_op, F4. lens. rewrite L3. lens. fold p. lia. }
  split; [eapply same_hdr_trans; [exact S7|]; eapply same_hdr_trans; [exact S8|repeat split]|].
  split; [exact MI3|].
  split; [eapply cext_trans; eassumption|].
  split; [eapply same_regs_trans; [exact R1|]; eapply same_regs_trans; eassumption|].
  rewrite En3, En2. exact En1.
Qed.

Lemma cs3_if1 sc c a : compile_static3 sc c -> compile_static3 sc a -> compile_static3 sc (YIf1 c a).
Proof.
  intros IHc IHa f l tail s Hf Hh MI. destruct f as [|f]; [lia|].
  cbn [cell_of3] in *. cbn [cell_size] in Hf. rewrite compile_if2_eq.
  destruct (IHc f l false s ltac:(lia) Hh MI) as (l1 & s1 & cc & E1 & F1 & S1 & MI1 & X1 & R1 & En1).
  set (l3 := emit (emit_op l1 OJnt) (VPtr CAFEBEEF)).
  assert (S3 : same_hdr l l3) by (eapply same_hdr_trans; [exact S1|repeat split]).
  destruct (IHa f l3 tail s1 ltac:(lia) (hdr3_same _ _ _ _ S3 (hdr3_ext _ _ _ _ X1 Hh)) MI1)
    as (l4 & s2 & ca & E4 & F4 & S4 & MI2 & X2 & R2 & En2).
  destruct (if_layout l l1 l4 cc ca F1 F4) as [L6 F7].
  set (l6 := emit (emit_op l4 OJmp) (VPtr CAFEBEEF)) in *.
  set (l7 := bc_patch l6 (bc_len (emit_op l1 OJnt)) (VPtr (bc_len l6))) in *.
  assert (S7 : same_hdr l l7).
  { eapply same_hdr_trans; [exact S3|]. eapply same_hdr_trans; [exact S4|]. repeat split. }
  set (cb := [VOp OMovImmediate; VVoid; VAcc]).
  set (l8 := emit (emit (emit_op l7 OMovImmediate) VVoid) VAcc).
  assert (F8 : fwd l8 = fwd l7 ++ cb) by apply fwd_emit3.
  set (p := len (fwd l)) in *.
  assert (L3 : len (fwd l3) = p + len cc + 2).
  { unfold l3. rewrite fwd_emit, fwd_emit_op, F1. lens. fold p. lia. }
  exists (bc_patch l8 (bc_len (emit_op l4 OJmp)) (VPtr (bc_len l8))), s2,
         (cc ++ [VOp OJnt; VPtr (bc_len l6)] ++ ca ++ [VOp OJmp; VPtr (bc_len l8)] ++ cb).
  unfold bindM at 1. rewrite E1. unfold bindM at 1. fold l3. rewrite E4.
  split; [reflexivity|]. split.
  { rewrite (if_final l8 l4 (fwd l ++ cc ++ [VOp OJnt; VPtr (bc_len l6)] ++ ca) cb).
    - rewrite <- !app_assoc. reflexivity.
    - rewrite F8, F7, <- !app_assoc. reflexivity.
    - rewrite bc_len_fwd, fwd_emit_op, F4. lens. rewrite L3. lens. fold p. lia. }
  split; [eapply same_hdr_trans; [exact S7|repeat split]|].
  split; [exact MI2|].
  split; [eapply cext_trans; eassumption|]. split; [eapply same_regs_trans; eassumption|].
  rewrite En2. exact En1.
Qed.

(* ============================================================ operands, application *)
Definition cells_of3 (args : list expr3) : cell := fold_right CPair CNil (map cell_of3 args).

Lemma cells3_size x r : (cell_size (cell_of3 x) < cell_size (cells_of3 (x :: r)))%nat /\
                        (cell_size (cells_of3 r) < cell_size (cells_of3 (x :: r)))%nat.
Proof. unfold cells_of3. cbn [map fold_right cell_size]. lia. Qed.

Lemma args_static3 sc args : Forall (compile_static3 sc) args ->
  forall f l n s, (cell_size (cells_of3 args) < f)%nat -> hdr3 l sc s -> minv s ->
  exists l' s' code, args_loop (compile_expression f) (cells_of3 args) l n s = ROk (l', n + len args) s' /\
    fwd l' = fwd l ++ code /\ same_hdr l l' /\ minv s' /\ cext s s' /\ same_regs s s' /\
    envs (st s') = envs (st s).
Proof.
  induction 1 as [|x r Hx Hr IH]; intros f l n s Hf Hh MI.
  - exists l, s, []. cbn [cells_of3 map fold_right args_loop]. split; [unfold ret; f_equal; f_equal; cbn; lia|].
    split; [rewrite app_nil_r; reflexivity|]. split; [apply same_hdr_refl|]. split; [exact MI|].
    split; [apply cext_refl|]. split; [apply same_regs_refl|reflexivity].
  - destruct (cells3_size x r) as [Sx Sr].
    change (cells_of3 (x :: r)) with (CPair (cell_of3 x) (cells_of3 r)) in *. cbn [args_loop].
    destruct (Hx f l false s ltac:(lia) Hh MI) as (l1 & s1 & cx & E1 & F1 & S1 & MI1 & X1 & R1 & En1).
    assert (S1' : same_hdr l (emit_op l1 OPushAcc)) by (eapply same_hdr_trans; [exact S1|repeat split]).
    destruct (IH f (emit_op l1 OPushAcc) (n + 1) s1 ltac:(lia) (hdr3_same _ _ _ _ S1' (hdr3_ext _ _ _ _ X1 Hh)) MI1)
      as (l2 & s2 & cr & E2 & F2 & S2 & MI2 & X2 & R2 & En2).
    exists l2, s2, (cx ++ [VOp OPushAcc] ++ cr).
    unfold bindM at 1. rewrite E1, E2.
    split; [f_equal; f_equal; rewrite len_cons; lia|].
    split; [rewrite F2, fwd_emit_op, F1, <- !app_assoc; reflexivity|].
    split; [eapply same_hdr_trans; eassumption|]. split; [exact MI2|]. split; [eapply cext_trans; eassumption|].
    split; [eapply same_regs_trans; eassumption|]. rewrite En2. exact En1.
Qed.

Lemma cs3_app sc f0 args : wf3 (YApp f0 args) sc ->
  compile_static3 sc f0 -> Forall (compile_static3 sc) args -> compile_static3 sc (YApp f0 args).
Proof.
  intros Hwf IHf IHargs f l tail s Hf Hh MI. destruct f as [|f]; [lia|].
  apply wf3_app in Hwf as (Hsp & _ & _).
  cbn [cell_of3] in *. fold (cells_of3 args) in *. cbn [cell_size] in Hf.
  rewrite compile_application_eq by exact Hsp.
  destruct (args_static3 sc args IHargs f l 0 s ltac:(lia) Hh MI) as (l1 & s1 & ca & E1 & F1 & S1 & MI1 & X1 & R1 & En1).
  rewrite N.add_0_l in E1.
  set (l2 := emit (emit_op l1 OPushImmediate) (VArgc (len args))).
  assert (S2 : same_hdr l l2) by (eapply same_hdr_trans; [exact S1|repeat split]).
  destruct (IHf f l2 false s1 ltac:(lia) (hdr3_same _ _ _ _ S2 (hdr3_ext _ _ _ _ X1 Hh)) MI1)
    as (l3 & s2 & cf & E3 & F3 & S3 & MI2 & X2 & R2 & En2).
  exists (emit_op l3 (if tail then OTCallAcc else OCallAcc)), s2,
         (ca ++ [VOp OPushImmediate; VArgc (len args)] ++ cf ++ [VOp (if tail then OTCallAcc else OCallAcc)]).
  unfold bindM at 1. rewrite E1. cbv beta iota. unfold bindM at 1. fold l2. rewrite E3.
  split; [reflexivity|].
  split; [rewrite fwd_emit_op, F3; unfold l2; rewrite fwd_emit, fwd_emit_op, F1, <- !app_assoc; reflexivity|].
  split; [eapply same_hdr_trans; [exact S2|]; eapply same_hdr_trans; [exact S3|repeat split]|].
  split; [exact MI2|]. split; [eapply cext_trans; eassumption|]. split; [eapply same_regs_trans; eassumption|].
  rewrite En2. exact En1.
Qed.

(* ============================================================ lambda expressions *)
(* the captured part of the new environment map: one entry for every free symbol that the
   environment map of the enclosing lambda binds, with the slot it has there *)
Lemma free_part_spec l sc s frefs fs : hdr3 l sc s -> heap_inv (hp s) -> Forall2 (pname s) frefs fs ->
  Forall2 (fun e x => pname s (fst e) x /\ exists k, snd e = BIofEnvironment k /\ pindex x sc = Some k)
          (ScopeProofs.free_part l frefs) (capnames sc fs).
Proof.
  intros Hh HI Fr. pose proof Hh as (ps & cs & caps & Esc & M & F1 & F2).
  unfold ScopeProofs.free_part, capnames.
  induction Fr as [|v x frefs fs (a & -> & A & C) _ IH]; [constructor|]. cbn [flat_map filter].
  rewrite (hdr3_slot l sc s a x Hh HI A C). unfold bound_in at 1.
  destruct (pindex x sc) as [k|] eqn:Ek.
  - cbn [app]. constructor; [|exact IH]. cbn [fst snd]. split; [exists a; auto|exists k; auto].
  - change (find_index (fun a0 => vptr_eqb a0 (VPtr a)) (l_args l) 0)
      with (ScopeProofs.fidx (ScopeProofs.sym_is (VPtr a)) (l_args l)).
    rewrite Esc in Ek. rewrite (fidx_names s _ ps a x HI F1 A C), (pindex_app_none _ _ _ Ek). exact IH.
Qed.

Lemma caps_ext s s' sc caps cs : cext s s' ->
  Forall2 (fun e x => pname s (fst e) x /\ exists k, snd e = BIofEnvironment k /\ pindex x sc = Some k) caps cs ->
  Forall2 (fun e x => pname s' (fst e) x /\ exists k, snd e = BIofEnvironment k /\ pindex x sc = Some k) caps cs.
Proof.
  intros X H. induction H as [|e x caps cs [H1 H2] _ IH]; constructor; [|exact IH].
  split; [eapply pname_ext; eassumption|exact H2].
Qed.
Lemma caps_names s sc caps cs :
  Forall2 (fun e x => pname s (fst e) x /\ exists k, snd e = BIofEnvironment k /\ pindex x sc = Some k) caps cs ->
  Forall2 (pname s) (map fst caps) cs.
Proof. intros H. induction H as [|e x caps cs [H1 _] _ IH]; cbn [map]; constructor; assumption. Qed.

(* a body that is not a definition has no internal definitions *)
Lemma ids_body3 body sc : wf3 body sc -> is_define3 body = false ->
  internally_defined_symbols (CPair (cell_of3 body) CNil) = Ok [].
Proof.
  intros Hwf Hd. unfold internally_defined_symbols. cbn [cell_iter].
  destruct body; try discriminate; cbn [cell_of3 ids_loop]; try reflexivity.
  - destruct Hwf as [Hs _]. destruct c; try discriminate; reflexivity.
  - apply wf3_app in Hwf as (Hsp & _). unfold special_head in Hsp.
    apply Bool.orb_false_iff in Hsp as [Hsp _]. apply Bool.orb_false_iff in Hsp as [Hsp _].
    apply Bool.orb_false_iff in Hsp as [Hsp _]. apply Bool.orb_false_iff in Hsp as [Hsp _].
    apply Bool.orb_false_iff in Hsp as [Hsp _]. apply Bool.orb_false_iff in Hsp as [Hsp _].
    apply Bool.orb_false_iff in Hsp as [Hsp _]. rewrite Hsp. reflexivity.
Qed.

Lemma lam_static3 sc ps fs body : wf3 (YLam ps fs body) sc -> compile_static3 (ps ++ capnames sc fs) body ->
  forall f l tail s, (cell_size (lam_cell ps (cell_of3 body)) < f)%nat -> hdr3 l sc s -> minv s ->
  exists l' s' lamp lamF caps cb f' lam2 s3 lam3 s4,
    compile_expression f l tail (lam_cell ps (cell_of3 body)) s = ROk l' s' /\
    fwd l' = fwd l ++ [VOp OMovImmediate; VPtr lamp; VAcc; VOp OClosureAcc] /\
    same_hdr l l' /\ minv s' /\ cext s s' /\ same_regs s s' /\ envs (st s') = envs (st s) /\
    lam_in s' lamp lamF /\ l_envmap lamF = ScopeProofs.enum_args (l_args lamF) 0 ++ caps /\
    Forall2 (pname s') (l_args lamF) ps /\
    Forall2 (fun e x => pname s' (fst e) x /\ exists k, snd e = BIofEnvironment k /\ pindex x sc = Some k) caps (capnames sc fs) /\
    l_bc lamF = [VOp OEnter] ++ cb ++ [VOp ORet] /\
    (cell_size (cell_of3 body) < f')%nat /\ hdr3 lam2 (ps ++ capnames sc fs) s3 /\ minv s3 /\
    compile_expression f' lam2 true (cell_of3 body) s3 = ROk lam3 s4 /\
    fwd lam2 = [VOp OEnter] /\ fwd lam3 = fwd lam2 ++ cb /\ cext s4 s'.
Proof.
  intros Hwf IHb f l tail s Hf Hh MI. destruct f as [|f]; [lia|].
  cbn [wf3] in Hwf. destruct Hwf as (Hprim & Hnd & Hfs & _ & Hwb).
  pose proof (lam_cell_size ps (cell_of3 body)) as Hlsz.
  rewrite compile_lambda_eq.
  (* formals *)
  destruct (formals_ok3 ps s Hprim MI) as (aps & s2 & E2 & MI2 & X2 & R2 & Fa & En2).
  unfold bindM at 1. rewrite E2. cbv beta iota.
  (* free symbols *)
  unfold bindM at 1. unfold lift at 1. rewrite Hfs.
  destruct (put_cells_ok3 fs s2 MI2) as (frefs & s3 & E3 & MI3 & X3 & R3 & Ff & En3).
  unfold bindM at 1. rewrite E3.
  unfold bindM at 1. unfold lift at 1. rewrite (ids_body3 body _ Hwb Hnd).
  unfold bindM at 1. cbn [put_cells]. unfold ret at 1. cbv beta iota zeta.
  set (lam2 := emit_op (set_desc (lambda_from_iof aps [] l frefs false) (syms_of ps)) OEnter).
  assert (X03 : cext s s3) by (eapply cext_trans; eassumption).
  pose proof (free_part_spec l sc s3 frefs fs (hdr3_ext _ _ _ _ X03 Hh) (mi_heap _ MI3) Ff) as Hcaps.
  assert (Hem : l_envmap lam2 = ScopeProofs.enum_args aps 0 ++ ScopeProofs.free_part l frefs).
  { change (l_envmap lam2) with (envmap_new aps [] l frefs). rewrite ScopeProofs.envmap_new_eq. reflexivity. }
  assert (Hhb : hdr3 lam2 (ps ++ capnames sc fs) s3).
  { exists ps, (capnames sc fs), (ScopeProofs.free_part l frefs). split; [reflexivity|]. split; [exact Hem|].
    split; [eapply pnames_ext; [exact X3|exact Fa]|eapply caps_names; exact Hcaps]. }
  (* body *)
  destruct (IHb f lam2 true s3 ltac:(lia) Hhb MI3) as (lam3 & s4 & cb & E4 & F4 & S4 & MI4 & X4 & R4 & En4).
  unfold bindM at 1. unfold bindM at 1. rewrite E4. unfold ret at 1.
  destruct (put_lambda_spec (emit_op lam3 ORet) s4 MI4) as (lamp & s5 & E5 & MI5 & X5 & R5 & Gb5 & _ & A5 & C5 & L5 & T5).
  unfold bindM at 1. rewrite E5. unfold ret at 1.
  set (lamF := lambda_finish (emit_op lam3 ORet)) in *.
  assert (X35 : cext s3 s5) by (eapply cext_trans; eassumption).
  exists (emit_op (emit (emit (emit_op l OMovImmediate) (VPtr lamp)) VAcc) OClosureAcc), s5, lamp, lamF,
         (ScopeProofs.free_part l frefs), cb, f, lam2, s3, lam3, s4.
  split; [reflexivity|].
  split; [rewrite fwd_emit_op, fwd_emit3, <- app_assoc; reflexivity|].
  split; [repeat split|]. split; [exact MI5|].
  split; [eapply cext_trans; eassumption|].
  split; [eapply same_regs_trans; [exact R2|]; eapply same_regs_trans; [exact R3|]; eapply same_regs_trans; eassumption|].
  split; [rewrite (put_lambda_envs _ _ _ _ E5), En4, En3; exact En2|].
  split; [exists (next_id (st s4)); auto|].
  assert (HargsF : l_args lamF = aps).
  { change (l_args lamF) with (l_args lam3). destruct S4 as (_ & _ & _ & -> & _). reflexivity. }
  split.
  { rewrite HargsF. change (l_envmap lamF) with (l_envmap lam3). destruct S4 as (_ & _ & -> & _ & _). exact Hem. }
  split; [rewrite HargsF; eapply pnames_ext; [|exact Fa]; eapply cext_trans; eassumption|].
  split; [eapply caps_ext; [exact X35|exact Hcaps]|].
  split.
  { change (l_bc lamF) with (fwd (emit_op lam3 ORet)). rewrite fwd_emit_op, F4. unfold lam2. rewrite fwd_emit_op.
    cbn [fwd set_desc lambda_from_iof l_bc rev app]. reflexivity. }
  split; [lia|]. split; [exact Hhb|]. split; [exact MI3|]. split; [exact E4|].
  split; [reflexivity|]. split; [exact F4|exact X5].
Qed.

Lemma cs3_lam sc ps fs body : wf3 (YLam ps fs body) sc -> compile_static3 (ps ++ capnames sc fs) body ->
  compile_static3 sc (YLam ps fs body).
Proof.
  intros Hwf IHb f l tail s Hf Hh MI. cbn [cell_of3] in *.
  destruct (lam_static3 sc ps fs body Hwf IHb f l tail s Hf Hh MI)
    as (l' & s' & lamp & lamF & caps & cb & f' & lam2 & s3 & lam3 & s4 & E & F & S & MI' & X & R & En & _).
  exists l', s', [VOp OMovImmediate; VPtr lamp; VAcc; VOp OClosureAcc]. auto 10.
Qed.

(* ============================================================ the compile-time theorem *)
Theorem static3 : forall e sc, wf3 e sc -> compile_static3 sc e.
Proof.
  induction e as [c|d|c IHc a IHa b IHb|c IHc a IHa|x|x e IHe|x e IHe|f args IHf IHargs|ps fs body IHb]
    using expr3_ind2; intros sc Hwf.
  - apply cs3_const. exact Hwf.
  - apply cs3_quote. exact Hwf.
  - destruct Hwf as (Hc & Ha & Hb). apply cs3_if; auto.
  - destruct Hwf as (Hc & Ha). apply cs3_if1; auto.
  - apply cs3_var. exact Hwf.
  - apply cs3_define; [exact Hwf|]. apply IHe. apply Hwf.
  - apply cs3_set; [exact Hwf|]. apply IHe. apply Hwf.
  - pose proof Hwf as Hwf'. apply wf3_app in Hwf' as (_ & Hf & Hargs).
    apply cs3_app; [exact Hwf|apply IHf; exact Hf|].
    rewrite Forall_forall in *. intros x Hx. apply IHargs; [exact Hx|]. apply Hargs. exact Hx.
  - apply cs3_lam; [exact Hwf|]. apply IHb. apply Hwf.
Qed.
