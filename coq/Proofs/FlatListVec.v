(* FlatListVec.v — C02: every list/vector/predicate builtin of Model/ListVec.v keeps the
   flatness invariant [finv] of FlatProofs.v (no VLexPtr in a heap cell, a global, a vector
   payload, a continuation, the stack or %acc) and returns a value that is not a VLexPtr. *)
From Coq Require Import Lia List String.
From MW Require Import Model.Base Model.F64 Model.Num Model.Datum Model.TransformDef Model.Transform
  Model.VmTypes Model.Heap Model.Gc Model.VmBase Model.Compile Model.Vm Model.ListVec Model.Builtins
  Proofs.GcProofs Proofs.SymtabProofs Proofs.VmProofs0 Proofs.TailProofs Proofs.ScopeProofs
  Proofs.EnvProofs Proofs.FlatProofs Proofs.FlatPrims.
Open Scope N_scope.
Arguments N.add : simpl never.
Arguments N.sub : simpl never.
Arguments N.eqb : simpl never.
Arguments N.ltb : simpl never.
Arguments N.leb : simpl never.
Arguments N.mul : simpl never.

(* ------------------------------------------------------------------ helpers *)
Lemma pure_nofuel {A} : pure (@ListVec.nofuel A).
Proof. intros s. exact I. Qed.
Lemma pres_lv_nofuel {A} (Q : A -> Prop) : pres ListVec.nofuel Q.
Proof. intros s F _. exact I. Qed.

Lemma pure_lv_usub a b : pure (ListVec.usub a b).
Proof. unfold ListVec.usub. destruct (a <? b); [apply pure_panic|apply pure_ret]. Qed.
Lemma pres_lv_usub a b : pres (ListVec.usub a b) T.
Proof. apply pres_pure, pure_lv_usub. Qed.

Lemma pure_as_car v : pure (ListVec.as_car v).
Proof. destruct v; try apply pure_fail; apply pure_ret. Qed.
Lemma pure_as_cdr v : pure (ListVec.as_cdr v).
Proof. destruct v; try apply pure_fail; apply pure_ret. Qed.
Lemma pres_as_car v : pres (ListVec.as_car v) (fun r => exists a, r = VPtr a).
Proof. destruct v; try apply pres_fail. apply pres_ret. eauto. Qed.
Lemma pres_as_cdr v : pres (ListVec.as_cdr v) (fun r => exists a, r = VPtr a).
Proof. destruct v; try apply pres_fail. apply pres_ret. eauto. Qed.

Lemma pure_str_get sid : pure (str_get sid).
Proof. intros s. unfold str_get. destruct (tget (strs (st s)) sid); auto. Qed.
Lemma pure_vec_get vid : pure (vec_get vid).
Proof. intros s. unfold vec_get. destruct (tget (vecs (st s)) vid); auto. Qed.

Lemma pres_fail_cell {A} fuel v (Q : A -> Prop) : pres (ListVec.fail_cell fuel v) Q.
Proof. unfold ListVec.fail_cell. eapply pres_bind; [apply pres_as_cell|intros c _]. apply pres_fail. Qed.

Lemma pres_pop_index : pres ListVec.pop_index T.
Proof.
  unfold ListVec.pop_index. eapply pres_bind; [apply pres_pop_value|intros v Hv].
  destruct v; try apply pres_fail. destruct (ListVec.num_to_usize n); [apply pres_ret; exact I|apply pres_fail].
Qed.

Lemma ptr_clean r : (exists a, r = VPtr a) -> no_lexptr r.
Proof. intros [a ->]. exact I. Qed.

(* ------------------------------------------------------------------ list.rs *)
Lemma pres_car fuel : pres (ListVec.car fuel) no_lexptr.
Proof.
  unfold ListVec.car. eapply pres_bind; [apply pres_pop_argc|intros argc _].
  eapply pres_bind; [apply pres_pop_value|intros v Hv].
  destruct v; try apply pres_fail_cell. apply pres_ret. exact I.
Qed.

Lemma pres_cdr fuel : pres (ListVec.cdr fuel) no_lexptr.
Proof.
  unfold ListVec.cdr. eapply pres_bind; [apply pres_pop_argc|intros argc _].
  eapply pres_bind; [apply pres_pop_value|intros v Hv].
  destruct v; try apply pres_fail_cell. apply pres_ret. exact I.
Qed.

Lemma pres_cons_ : pres ListVec.cons_ no_lexptr.
Proof.
  unfold ListVec.cons_. eapply pres_bind; [apply pres_pop_argc|intros argc _].
  eapply pres_bind; [apply pres_pop_raw|intros a Ha].
  eapply pres_bind; [apply pres_hput; exact Ha|intros pd Hpd].
  eapply pres_bind; [apply pres_as_ptr|intros d _].
  eapply pres_bind; [apply pres_pop_raw|intros b Hb].
  eapply pres_bind; [apply pres_hput; exact Hb|intros pa Hpa].
  eapply pres_bind; [apply pres_as_ptr|intros a' _].
  apply pres_ret. exact I.
Qed.

Lemma pres_set_car : pres ListVec.set_car no_lexptr.
Proof.
  unfold ListVec.set_car. eapply pres_bind; [apply pres_pop_argc|intros argc _].
  eapply pres_bind; [apply pres_pop_raw|intros o Ho].
  eapply pres_bind; [apply pres_hput; exact Ho|intros obj Hobj].
  eapply pres_bind; [apply pres_pop_raw|intros pr Hpr].
  apply pres_read; [apply pure_hderef|]. intros s pv F Hd.
  destruct pv; try exact F.
  apply post_read; [apply pure_as_ptr|exact F|]. intros op Hop.
  apply post_read; [apply pure_as_ptr|exact F|]. intros pp Hpp.
  apply post_step; [exact F|exact (hset_after_hderef s pr pp _ _ _ _ F Hd Hpp)|].
  intros _. apply pres_ret. exact I.
Qed.

Lemma pres_set_cdr : pres ListVec.set_cdr no_lexptr.
Proof.
  unfold ListVec.set_cdr. eapply pres_bind; [apply pres_pop_argc|intros argc _].
  eapply pres_bind; [apply pres_pop_raw|intros o Ho].
  eapply pres_bind; [apply pres_hput; exact Ho|intros obj Hobj].
  eapply pres_bind; [apply pres_pop_raw|intros pr Hpr].
  apply pres_read; [apply pure_hderef|]. intros s pv F Hd.
  destruct pv; try exact F.
  apply post_read; [apply pure_as_ptr|exact F|]. intros op Hop.
  apply post_read; [apply pure_as_ptr|exact F|]. intros pp Hpp.
  apply post_step; [exact F|exact (hset_after_hderef s pr pp _ _ _ _ F Hd Hpp)|].
  intros _. apply pres_ret. exact I.
Qed.

(* clone_list: the fresh pairs, the head and the tail of the copy are heap pointers *)
Definition clean2 (p : vcell * vcell) : Prop := no_lexptr (fst p) /\ no_lexptr (snd p).

Lemma pres_clone_loop fuel : forall f list rest head tail nilp,
  no_lexptr rest -> no_lexptr head -> no_lexptr tail ->
  pres (ListVec.clone_loop fuel f list rest head tail nilp) clean2.
Proof.
  induction f as [|f IH]; intros list rest head tail nilp Hrest Hhead Htail; cbn [ListVec.clone_loop].
  - apply pres_lv_nofuel.
  - eapply pres_bind; [apply pres_as_car|intros ca Hca].
    eapply pres_bind; [apply pres_as_ptr|intros cap _].
    eapply pres_bind; [apply pres_hput; exact I|intros pr Hpr].
    assert (Hh' : no_lexptr (if ListVec.is_nil head then pr else head)).
    { destruct (ListVec.is_nil head); [apply ptr_clean, Hpr|exact Hhead]. }
    eapply pres_bind with (Q := no_lexptr).
    { destruct (ListVec.is_nil tail); [apply pres_ret, ptr_clean, Hpr|].
      apply pres_read; [apply pure_hderef|]. intros s lp F Hd.
      destruct lp; try exact F.
      apply post_read; [apply pure_as_car|exact F|]. intros lca _.
      apply post_read; [apply pure_as_ptr|exact F|]. intros lcap _.
      apply post_read; [apply pure_as_ptr|exact F|]. intros pp _.
      apply post_read; [apply pure_as_ptr|exact F|]. intros tp Htp.
      apply post_step; [exact F|exact (hset_after_hderef s tail tp _ _ _ _ F Hd Htp)|].
      intros _. apply pres_ret, ptr_clean, Hpr. }
    intros tail' Htail'.
    eapply pres_bind; [apply pres_as_cdr|intros cd Hcd].
    eapply pres_bind; [apply pres_hderef, ptr_clean, Hcd|intros rest' Hrest'].
    destruct (ListVec.is_pair rest'); [apply IH; assumption|].
    destruct (ListVec.is_nil rest'); [|apply pres_fail_cell].
    apply pres_ret. split; assumption.
Qed.

Lemma pres_clone_list fuel list : no_lexptr list -> pres (ListVec.clone_list fuel list) clean2.
Proof.
  intros Hl. unfold ListVec.clone_list. destruct (negb (ListVec.is_pair list)); [apply pres_fail_cell|].
  eapply pres_bind; [apply pres_hput; exact I|intros pn Hpn].
  eapply pres_bind; [apply pres_as_ptr|intros nilp _].
  apply pres_clone_loop; [exact Hl|exact I|exact I].
Qed.

Lemma pres_append_loop fuel : forall n tail, no_lexptr tail -> pres (ListVec.append_loop fuel n tail) no_lexptr.
Proof.
  induction n as [|n IH]; intros tail Htail; cbn [ListVec.append_loop].
  - apply pres_ret, Htail.
  - eapply pres_bind; [apply pres_pop_value|intros list Hlist].
    destruct list; try apply pres_fail_cell.
    + apply IH, Htail.
    + eapply pres_bind; [apply pres_clone_list; exact I|intros p Hp].
      destruct p as [head sub_tail]. destruct Hp as [Hhead Hsub]. cbn [fst snd] in Hhead, Hsub.
      apply pres_read; [apply pure_hderef|]. intros s sp F Hd.
      destruct sp; try exact F.
      apply post_read; [apply pure_as_car|exact F|]. intros sca _.
      apply post_read; [apply pure_as_ptr|exact F|]. intros scap _.
      apply post_read; [apply pure_as_ptr|exact F|]. intros tp _.
      apply post_read; [apply pure_as_ptr|exact F|]. intros stp Hstp.
      apply post_step; [exact F|exact (hset_after_hderef s sub_tail stp _ _ _ _ F Hd Hstp)|].
      intros _. apply IH, Hhead.
Qed.

Lemma pres_append fuel : pres (ListVec.append fuel) no_lexptr.
Proof.
  unfold ListVec.append. eapply pres_bind; [apply pres_pop_argc|intros argc _].
  destruct (argc =? 0); [apply pres_ret; exact I|].
  eapply pres_bind; [apply pres_pop_raw|intros last Hlast].
  eapply pres_bind; [apply pres_hput; exact Hlast|intros tail Htail].
  eapply pres_bind; [apply pres_lv_usub|intros n _].
  apply pres_append_loop, ptr_clean, Htail.
Qed.

Lemma pres_reverse_loop fuel : forall f list rest tail,
  pres (ListVec.reverse_loop fuel f list rest tail) no_lexptr.
Proof.
  induction f as [|f IH]; intros list rest tail; cbn [ListVec.reverse_loop].
  - apply pres_lv_nofuel.
  - eapply pres_bind; [apply pres_as_car|intros ca Hca].
    eapply pres_bind; [apply pres_as_ptr|intros cap _].
    eapply pres_bind; [apply pres_as_ptr|intros tp _].
    eapply pres_bind; [apply pres_hput; exact I|intros tail' Htail'].
    eapply pres_bind; [apply pres_as_cdr|intros cd Hcd].
    eapply pres_bind; [apply pres_hderef, ptr_clean, Hcd|intros rest' Hrest'].
    destruct (ListVec.is_pair rest'); [apply IH|].
    destruct (ListVec.is_nil rest'); [|apply pres_fail_cell].
    apply pres_ret, ptr_clean, Htail'.
Qed.

Lemma pres_reverse fuel : pres (ListVec.reverse fuel) no_lexptr.
Proof.
  unfold ListVec.reverse. eapply pres_bind; [apply pres_pop_argc|intros argc _].
  eapply pres_bind; [apply pres_pop_value|intros list Hlist].
  destruct (negb (ListVec.is_pair list)).
  - destruct (ListVec.is_nil list); [apply pres_ret, Hlist|apply pres_fail_cell].
  - eapply pres_bind; [apply pres_hput; exact I|intros tail Htail]. apply pres_reverse_loop.
Qed.

Lemma pres_get_list_tail_loop fuel : forall f list rest idx,
  no_lexptr rest -> pres (ListVec.get_list_tail_loop fuel f list rest idx) no_lexptr.
Proof.
  induction f as [|f IH]; intros list rest idx Hrest; cbn [ListVec.get_list_tail_loop].
  - apply pres_lv_nofuel.
  - destruct (idx =? 0); [apply pres_ret, Hrest|].
    eapply pres_bind; [apply pres_lv_usub|intros ri _].
    eapply pres_bind; [apply pres_hderef, Hrest|intros node Hnode].
    destruct ((negb (ListVec.is_pair node) && negb (ri =? 0)) || ListVec.is_nil node)%bool; [apply pres_fail_cell|].
    eapply pres_bind; [apply pres_as_cdr|intros cd Hcd].
    apply IH, ptr_clean, Hcd.
Qed.

Lemma pres_get_list_tail fuel list idx : no_lexptr list -> pres (ListVec.get_list_tail fuel list idx) no_lexptr.
Proof. intros H. unfold ListVec.get_list_tail. apply pres_get_list_tail_loop, H. Qed.

Lemma pres_list_ref fuel : pres (ListVec.list_ref fuel) no_lexptr.
Proof.
  unfold ListVec.list_ref. eapply pres_bind; [apply pres_pop_argc|intros argc _].
  eapply pres_bind; [apply pres_pop_index|intros idx _].
  eapply pres_bind; [apply pres_pop_raw|intros lp Hlp].
  eapply pres_bind; [apply pres_hderef, Hlp|intros list Hlist].
  destruct (negb (ListVec.is_pair list) && negb (ListVec.is_nil list))%bool; [apply pres_fail_cell|].
  eapply pres_bind; [apply pres_get_list_tail, Hlp|intros tail Htail].
  eapply pres_bind; [apply pres_hderef, Htail|intros tv Htv].
  destruct tv; try apply pres_fail_cell. apply pres_ret. exact I.
Qed.

Lemma pres_list_tail fuel : pres (ListVec.list_tail fuel) no_lexptr.
Proof.
  unfold ListVec.list_tail. eapply pres_bind; [apply pres_pop_argc|intros argc _].
  eapply pres_bind; [apply pres_pop_index|intros idx _].
  eapply pres_bind; [apply pres_pop_raw|intros lp Hlp].
  eapply pres_bind; [apply pres_hderef, Hlp|intros list Hlist].
  destruct (negb (ListVec.is_pair list) && negb (ListVec.is_nil list))%bool; [apply pres_fail_cell|].
  apply pres_get_list_tail, Hlp.
Qed.

(* ------------------------------------------------------------------ vector.rs *)
Lemma in_drop {A} (x : A) : forall n l, In x (ListVec.drop n l) -> In x l.
Proof.
  induction n as [|n IH]; intros l H; [exact H|]. destruct l as [|y r]; [exact H|].
  cbn [ListVec.drop] in H. right. apply IH, H.
Qed.
Lemma in_take {A} (x : A) : forall n l, In x (ListVec.take n l) -> In x l.
Proof.
  induction n as [|n IH]; intros l H; [destruct H|]. destruct l as [|y r]; [destruct H|].
  cbn [ListVec.take] in H. destruct H as [H|H]; [left; exact H|right; apply IH, H].
Qed.

Lemma clean_vget l i v : clean_list l -> ListVec.vget l i = Some v -> no_lexptr v.
Proof. intros Hl. unfold ListVec.vget. destruct (i <? len l); [apply Hl|discriminate]. Qed.
Lemma clean_vput l i v : clean_list l -> no_lexptr v -> clean_list (ListVec.vput l i v).
Proof. intros Hl Hv. unfold ListVec.vput. destruct (i <? len l); [apply clean_list_set; assumption|exact Hl]. Qed.
Lemma clean_put_all : forall vals l at_, clean_list l -> clean_list vals -> clean_list (ListVec.put_all l at_ vals).
Proof.
  induction vals as [|v r IH]; intros l at_ Hl Hv; cbn [ListVec.put_all]; [exact Hl|].
  apply clean_cons_inv in Hv as [Hv Hr]. apply IH; [apply clean_vput; assumption|exact Hr].
Qed.

Lemma pres_clone_vector l start end_ : clean_list l -> pres (ListVec.clone_vector l start end_) clean_list.
Proof.
  intros Hl. unfold ListVec.clone_vector. cbv zeta.
  match goal with |- pres (if ?c then _ else _) _ => destruct c end; [apply pres_panic|].
  apply pres_ret. apply (clean_sublist l); [exact Hl|]. intros v Hv. apply in_take, in_drop in Hv. exact Hv.
Qed.

Lemma pres_pop_n : forall n acc0, clean_list acc0 -> pres (ListVec.pop_n n acc0) clean_list.
Proof.
  induction n as [|n IH]; intros acc0 Hacc; cbn [ListVec.pop_n]; [apply pres_ret, Hacc|].
  eapply pres_bind; [apply pres_pop_raw|intros v Hv]. apply IH, clean_cons; assumption.
Qed.

Lemma pres_vector : pres ListVec.vector no_lexptr.
Proof.
  unfold ListVec.vector. eapply pres_bind; [apply pres_pop_argc|intros n _].
  eapply pres_bind; [apply pres_pop_n, clean_nil|intros l Hl]. apply pres_vec_new, Hl.
Qed.

Lemma pres_make_vector : pres ListVec.make_vector no_lexptr.
Proof.
  unfold ListVec.make_vector. eapply pres_bind; [apply pres_pop_argc|intros argc _].
  eapply pres_bind with (Q := no_lexptr).
  { destruct (argc =? 2); [apply pres_pop_raw|apply pres_ret; exact I]. }
  intros fill Hfill.
  eapply pres_bind; [apply pres_pop_value|intros lv Hlv].
  destruct lv; try apply pres_fail. destruct (ListVec.num_to_usize n) as [k|]; [|apply pres_fail].
  match goal with |- pres (if ?c then _ else _) _ => destruct c end; [apply pres_panic|].
  apply pres_vec_new, clean_repeat, Hfill.
Qed.

Lemma pres_vector_length : pres ListVec.vector_length no_lexptr.
Proof.
  unfold ListVec.vector_length. eapply pres_bind; [apply pres_pop_argc|intros argc _].
  eapply pres_bind; [apply pres_pop_vector|intros vid _].
  eapply pres_bind; [apply pres_vec_get'|intros l Hl]. apply pres_ret. exact I.
Qed.

Lemma pres_vector_ref : pres ListVec.vector_ref no_lexptr.
Proof.
  unfold ListVec.vector_ref. eapply pres_bind; [apply pres_pop_argc|intros argc _].
  eapply pres_bind; [apply pres_pop_index|intros idx _].
  eapply pres_bind; [apply pres_pop_vector|intros vid _].
  eapply pres_bind; [apply pres_vec_get'|intros l Hl].
  destruct (ListVec.vget l idx) as [v|] eqn:E; [|apply pres_fail].
  apply pres_ret. exact (clean_vget l idx v Hl E).
Qed.

Lemma pres_vector_set : pres ListVec.vector_set no_lexptr.
Proof.
  unfold ListVec.vector_set. eapply pres_bind; [apply pres_pop_argc|intros argc _].
  eapply pres_bind; [apply pres_pop_raw|intros value Hvalue].
  eapply pres_bind; [apply pres_pop_index|intros idx _].
  eapply pres_bind; [apply pres_pop_vector|intros vid _].
  eapply pres_bind; [apply pres_vec_get'|intros l Hl].
  destruct (len l <=? idx); [apply pres_fail|].
  eapply pres_bind; [apply pres_vec_set', clean_vput; assumption|intros _ _]. apply pres_ret. exact I.
Qed.

Lemma pres_vector_fill : pres ListVec.vector_fill no_lexptr.
Proof.
  unfold ListVec.vector_fill. eapply pres_bind; [apply pres_pop_argc|intros argc _].
  eapply pres_bind; [apply pres_pop_raw|intros value Hvalue].
  eapply pres_bind; [apply pres_pop_vector|intros vid _].
  eapply pres_bind; [apply pres_vec_get'|intros l Hl].
  eapply pres_bind; [apply pres_vec_set', clean_map_const, Hvalue|intros _ _]. apply pres_ret. exact I.
Qed.

Lemma pres_v2l_loop : forall rev_elems tail,
  clean_list rev_elems -> no_lexptr tail -> pres (ListVec.v2l_loop rev_elems tail) no_lexptr.
Proof.
  induction rev_elems as [|x r IH]; intros tail Hl Htail; cbn [ListVec.v2l_loop]; [apply pres_ret, Htail|].
  apply clean_cons_inv in Hl as [Hx Hr].
  eapply pres_bind; [apply pres_hput, Hx|intros ca Hca].
  eapply pres_bind; [apply pres_as_ptr|intros cap _].
  eapply pres_bind; [apply pres_as_ptr|intros tp _].
  eapply pres_bind; [apply pres_hput; exact I|intros tail' Htail'].
  apply IH; [exact Hr|apply ptr_clean, Htail'].
Qed.

Lemma pres_vector_to_list : pres ListVec.vector_to_list no_lexptr.
Proof.
  unfold ListVec.vector_to_list. eapply pres_bind; [apply pres_pop_argc|intros argc _].
  eapply pres_bind; [apply pres_pop_vector|intros vid _].
  eapply pres_bind; [apply pres_vec_get'|intros l Hl].
  eapply pres_bind; [apply pres_hput; exact I|intros tail Htail].
  apply pres_v2l_loop; [apply clean_rev, Hl|apply ptr_clean, Htail].
Qed.

Lemma pres_l2v_loop : forall f lst acc0,
  clean_list acc0 -> pres (ListVec.l2v_loop f lst acc0) (fun p => clean_list (fst p)).
Proof.
  induction f as [|f IH]; intros lst acc0 Hacc; cbn [ListVec.l2v_loop]; [apply pres_lv_nofuel|].
  destruct (ListVec.is_pair lst); [|apply pres_ret; cbn [fst]; apply clean_rev, Hacc].
  eapply pres_bind; [apply pres_as_car|intros ca Hca].
  eapply pres_bind; [apply pres_as_cdr|intros cd Hcd].
  eapply pres_bind; [apply pres_hderef, ptr_clean, Hcd|intros lst' Hlst'].
  apply IH, clean_cons; [apply ptr_clean, Hca|exact Hacc].
Qed.

Lemma pres_list_to_vector fuel : pres (ListVec.list_to_vector fuel) no_lexptr.
Proof.
  unfold ListVec.list_to_vector. eapply pres_bind; [apply pres_pop_argc|intros argc _].
  eapply pres_bind; [apply pres_pop_value|intros list Hlist].
  destruct (negb (ListVec.is_pair list)).
  - destruct (ListVec.is_nil list); [apply pres_vec_new, clean_nil|apply pres_fail_cell].
  - eapply pres_bind; [apply pres_l2v_loop, clean_nil|intros p Hp]. destruct p as [outv rest]. cbn [fst] in Hp.
    destruct (negb (ListVec.is_nil rest)); [apply pres_fail|apply pres_vec_new, Hp].
Qed.

Lemma pres_opt_index (c : bool) : pres (if c then dom e <- ListVec.pop_index; ret (Some e) else ret None) T.
Proof.
  destruct c; [|apply pres_ret; exact I].
  eapply pres_bind; [apply pres_pop_index|intros e _]. apply pres_ret. exact I.
Qed.

Lemma pres_vector_copy : pres ListVec.vector_copy no_lexptr.
Proof.
  unfold ListVec.vector_copy. eapply pres_bind; [apply pres_pop_argc|intros argc _].
  eapply pres_bind; [apply pres_opt_index|intros end_ _].
  eapply pres_bind; [apply pres_opt_index|intros start _].
  eapply pres_bind; [apply pres_pop_vector|intros vid _].
  eapply pres_bind; [apply pres_vec_get'|intros l Hl]. cbv zeta.
  repeat match goal with |- pres (if ?c then _ else _) _ => destruct c; [apply pres_fail|] end.
  eapply pres_bind; [apply pres_clone_vector, Hl|intros out Hout]. apply pres_vec_new, Hout.
Qed.

Lemma pres_collect_range l : clean_list l -> forall n i, pres (ListVec.collect_range l i n) clean_list.
Proof.
  intros Hl. induction n as [|n IH]; intros i; cbn [ListVec.collect_range]; [apply pres_ret, clean_nil|].
  destruct (ListVec.vget l i) as [v|] eqn:E; [|apply pres_panic].
  eapply pres_bind; [apply IH|intros r Hr]. apply pres_ret, clean_cons; [exact (clean_vget l i v Hl E)|exact Hr].
Qed.

Lemma pres_vmc_after start end_ : pres (ListVec.vmc_after start end_) no_lexptr.
Proof.
  unfold ListVec.vmc_after. eapply pres_bind; [apply pres_pop_vector|intros from _].
  eapply pres_bind; [apply pres_pop_index|intros at_ _].
  eapply pres_bind; [apply pres_pop_vector|intros to _].
  eapply pres_bind; [apply pres_vec_get'|intros tl Htl].
  eapply pres_bind; [apply pres_vec_get'|intros fl Hfl]. cbv zeta.
  repeat match goal with |- pres (if ?c then _ else _) _ => destruct c; [apply pres_fail|] end.
  eapply pres_bind; [apply pres_lv_usub|intros n _].
  match goal with |- pres (if ?c then _ else _) _ => destruct c; [apply pres_fail|] end.
  eapply pres_bind; [apply pres_collect_range, Hfl|intros vals Hvals].
  eapply pres_bind; [apply pres_vec_get'|intros tl' Htl'].
  eapply pres_bind; [apply pres_vec_set', clean_put_all; assumption|intros _ _]. apply pres_ret. exact I.
Qed.

Lemma pres_vector_mut_copy : pres ListVec.vector_mut_copy no_lexptr.
Proof.
  unfold ListVec.vector_mut_copy. eapply pres_bind; [apply pres_pop_argc|intros argc _].
  eapply pres_bind; [apply pres_opt_index|intros end_ _].
  eapply pres_bind; [apply pres_opt_index|intros start _].
  apply pres_vmc_after.
Qed.

(* ------------------------------------------------------------------ compare.rs: read only *)
Lemma pure_eqv l r : pure (ListVec.eqv l r).
Proof.
  unfold ListVec.eqv. cbv zeta.
  match goal with |- pure (if ?c then _ else _) => destruct c end; [apply pure_ret|].
  apply pure_bind; [apply pure_hderef|intros l0]. apply pure_bind; [apply pure_hderef|intros r0].
  destruct l0; try apply pure_ret; destruct r0; try apply pure_ret.
  apply pure_bind; [apply pure_str_get|intros ta]. apply pure_bind; [apply pure_str_get|intros tb]. apply pure_ret.
Qed.

Lemma pure_all2_m p : (forall x y, pure (p x y)) -> forall xs ys, pure (ListVec.all2_m p xs ys).
Proof.
  intros Hp. induction xs as [|x xr IH]; intros ys; cbn [ListVec.all2_m]; [apply pure_ret|].
  destruct ys as [|y yr]; [apply pure_ret|].
  apply pure_bind; [apply Hp|intros e]. destruct e; [apply IH|apply pure_ret].
Qed.

Lemma equal_S f l r :
  ListVec.equal (S f) l r =
  (dom e <- ListVec.eqv l r;
   if e then ret true
   else
     dom l0 <- hderef l;
     dom r0 <- hderef r;
     match l0, r0 with
     | VPair _ _, VPair _ _ => ListVec.compare_pair f l0 r0
     | VVec a, VVec b =>
         dom la <- vec_get a; dom lb <- vec_get b;
         if negb (len la =? len lb) then ret false
         else ListVec.all2_m (ListVec.equal f) la lb
     | VStr a, VStr b => dom ta <- str_get a; dom tb <- str_get b; ret (text_eqb ta tb)
     | _, _ => ListVec.eqv l0 r0
     end).
Proof. reflexivity. Qed.
Lemma compare_pair_S f l r :
  ListVec.compare_pair (S f) l r =
  (if negb (ListVec.is_pair l) || negb (ListVec.is_pair r) then ListVec.eqv l r
   else
     dom lcar <- ListVec.as_car l; dom rcar <- ListVec.as_car r;
     dom e <- ListVec.equal f lcar rcar;
     if negb e then ret false
     else
       dom lcdr <- ListVec.as_cdr l; dom rcdr <- ListVec.as_cdr r;
       dom l2 <- hderef lcdr;
       dom r2 <- hderef rcdr;
       if negb (ListVec.is_pair l2) || negb (ListVec.is_pair r2) then ListVec.equal f lcdr rcdr
       else ListVec.compare_pair f l2 r2)%bool.
Proof. reflexivity. Qed.

Lemma pure_equal_cp : forall f,
  (forall l r, pure (ListVec.equal f l r)) /\ (forall l r, pure (ListVec.compare_pair f l r)).
Proof.
  induction f as [|f [IHe IHc]]; split; intros l r; try apply pure_nofuel.
  - rewrite equal_S. apply pure_bind; [apply pure_eqv|intros e]. destruct e; [apply pure_ret|].
    apply pure_bind; [apply pure_hderef|intros l0]. apply pure_bind; [apply pure_hderef|intros r0].
    destruct l0; try apply pure_eqv; destruct r0; try apply pure_eqv.
    + apply IHc.
    + apply pure_bind; [apply pure_str_get|intros ta]. apply pure_bind; [apply pure_str_get|intros tb]. apply pure_ret.
    + apply pure_bind; [apply pure_vec_get|intros la]. apply pure_bind; [apply pure_vec_get|intros lb].
      destruct (negb (len la =? len lb)); [apply pure_ret|]. apply pure_all2_m, IHe.
  - rewrite compare_pair_S.
    destruct (negb (ListVec.is_pair l) || negb (ListVec.is_pair r))%bool; [apply pure_eqv|].
    apply pure_bind; [apply pure_as_car|intros lcar]. apply pure_bind; [apply pure_as_car|intros rcar].
    apply pure_bind; [apply IHe|intros e]. destruct (negb e); [apply pure_ret|].
    apply pure_bind; [apply pure_as_cdr|intros lcdr]. apply pure_bind; [apply pure_as_cdr|intros rcdr].
    apply pure_bind; [apply pure_hderef|intros l2]. apply pure_bind; [apply pure_hderef|intros r2].
    destruct (negb (ListVec.is_pair l2) || negb (ListVec.is_pair r2))%bool; [apply IHe|apply IHc].
Qed.
Lemma pure_equal f l r : pure (ListVec.equal f l r).
Proof. apply pure_equal_cp. Qed.
Lemma pure_compare_pair f l r : pure (ListVec.compare_pair f l r).
Proof. apply pure_equal_cp. Qed.
Lemma pres_eqv l r : pres (ListVec.eqv l r) T.
Proof. apply pres_pure, pure_eqv. Qed.
Lemma pres_equal f l r : pres (ListVec.equal f l r) T.
Proof. apply pres_pure, pure_equal. Qed.
Lemma pres_compare_pair f l r : pres (ListVec.compare_pair f l r) T.
Proof. apply pres_pure, pure_compare_pair. Qed.

(* ------------------------------------------------------------------ predicate.rs *)
Lemma pres_type_pred p : pres (ListVec.type_pred p) no_lexptr.
Proof.
  unfold ListVec.type_pred. eapply pres_bind; [apply pres_pop_argc|intros argc _].
  eapply pres_bind; [apply pres_pop_value|intros v Hv]. apply pres_ret. exact I.
Qed.
Lemma pres_is_boolean : pres ListVec.is_boolean no_lexptr. Proof. apply pres_type_pred. Qed.
Lemma pres_is_char : pres ListVec.is_char no_lexptr. Proof. apply pres_type_pred. Qed.
Lemma pres_is_null : pres ListVec.is_null no_lexptr. Proof. apply pres_type_pred. Qed.
Lemma pres_is_number : pres ListVec.is_number no_lexptr. Proof. apply pres_type_pred. Qed.
Lemma pres_is_complex : pres ListVec.is_complex no_lexptr. Proof. apply pres_type_pred. Qed.
Lemma pres_is_real : pres ListVec.is_real no_lexptr. Proof. apply pres_type_pred. Qed.
Lemma pres_is_rational : pres ListVec.is_rational no_lexptr. Proof. apply pres_type_pred. Qed.
Lemma pres_is_integer : pres ListVec.is_integer no_lexptr. Proof. apply pres_type_pred. Qed.
Lemma pres_is_pair_b : pres ListVec.is_pair_b no_lexptr. Proof. apply pres_type_pred. Qed.
Lemma pres_is_procedure : pres ListVec.is_procedure no_lexptr. Proof. apply pres_type_pred. Qed.
Lemma pres_is_string : pres ListVec.is_string no_lexptr. Proof. apply pres_type_pred. Qed.
Lemma pres_is_symbol : pres ListVec.is_symbol no_lexptr. Proof. apply pres_type_pred. Qed.
Lemma pres_is_vector : pres ListVec.is_vector no_lexptr. Proof. apply pres_type_pred. Qed.

Lemma pres_is_port : pres ListVec.is_port no_lexptr.
Proof.
  unfold ListVec.is_port. eapply pres_bind; [apply pres_pop_argc|intros argc _].
  eapply pres_bind; [apply pres_pop_raw|intros v Hv]. apply pres_ret. exact I.
Qed.

Lemma pres_eq_b : pres ListVec.eq_b no_lexptr.
Proof.
  unfold ListVec.eq_b. eapply pres_bind; [apply pres_pop_argc|intros argc _].
  eapply pres_bind; [apply pres_pop_raw|intros lft Hl].
  eapply pres_bind; [apply pres_pop_raw|intros rgt Hr].
  eapply pres_bind; [apply pres_eqv|intros b _]. apply pres_ret. exact I.
Qed.
Lemma pres_eqv_b : pres ListVec.eqv_b no_lexptr.
Proof. apply pres_eq_b. Qed.
Lemma pres_equal_b fuel : pres (ListVec.equal_b fuel) no_lexptr.
Proof.
  unfold ListVec.equal_b. eapply pres_bind; [apply pres_pop_argc|intros argc _].
  eapply pres_bind; [apply pres_pop_raw|intros lft Hl].
  eapply pres_bind; [apply pres_pop_raw|intros rgt Hr].
  eapply pres_bind; [apply pres_equal|intros b _]. apply pres_ret. exact I.
Qed.

Lemma pres_not_b : pres ListVec.not_b no_lexptr.
Proof.
  unfold ListVec.not_b. eapply pres_bind; [apply pres_pop_argc|intros argc _].
  eapply pres_bind; [apply pres_pop_value|intros v Hv]. apply pres_ret. exact I.
Qed.

Lemma pres_is_list_loop : forall f rest slow advance,
  pres (ListVec.is_list_loop f rest slow advance) no_lexptr.
Proof.
  induction f as [|f IH]; intros rest slow advance; cbn [ListVec.is_list_loop]; [apply pres_lv_nofuel|].
  destruct (negb (ListVec.is_pair rest)); [apply pres_ret; exact I|].
  eapply pres_bind; [apply pres_as_cdr|intros cd Hcd].
  eapply pres_bind; [apply pres_hderef, ptr_clean, Hcd|intros rest' Hrest'].
  destruct advance; [|apply IH].
  eapply pres_bind; [apply pres_as_cdr|intros scd Hscd].
  eapply pres_bind; [apply pres_hderef, ptr_clean, Hscd|intros slow' Hslow'].
  destruct (ListVec.is_pair rest' && ListVec.pair_eqb rest' slow')%bool; [apply pres_ret; exact I|apply IH].
Qed.

Lemma pres_is_list fuel : pres (ListVec.is_list fuel) no_lexptr.
Proof.
  unfold ListVec.is_list. eapply pres_bind; [apply pres_pop_argc|intros argc _].
  eapply pres_bind; [apply pres_pop_value|intros rest Hrest]. apply pres_is_list_loop.
Qed.

(* ------------------------------------------------------------------ the table of Model/Builtins.v *)
Theorem pres_lv_builtin : forall b, pres (lv_builtin b) no_lexptr.
Proof.
  intros b. unfold lv_builtin. cbv zeta.
  repeat match goal with
         | |- pres (if ?c then _ else _) _ => destruct c
         end;
    first [ apply pres_car | apply pres_cdr | apply pres_cons_ | apply pres_set_car | apply pres_set_cdr
          | apply pres_append | apply pres_reverse | apply pres_list_tail | apply pres_list_ref
          | apply pres_vector | apply pres_make_vector | apply pres_vector_length | apply pres_vector_ref
          | apply pres_vector_set | apply pres_vector_fill | apply pres_vector_to_list
          | apply pres_list_to_vector | apply pres_vector_copy | apply pres_vector_mut_copy
          | apply pres_is_boolean | apply pres_is_char | apply pres_is_null | apply pres_is_number
          | apply pres_is_complex | apply pres_is_real | apply pres_is_rational | apply pres_is_integer
          | apply pres_is_pair_b | apply pres_is_procedure | apply pres_is_string | apply pres_is_symbol
          | apply pres_is_vector | apply pres_is_port | apply pres_is_list | apply pres_eq_b
          | apply pres_eqv_b | apply pres_equal_b | apply pres_not_b | apply pres_panic ].
Qed.
