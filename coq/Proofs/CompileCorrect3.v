(* CompileCorrect3.v — work package c01c (stub) *)
