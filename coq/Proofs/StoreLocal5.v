(* StoreLocal5.v — C01 (work package c01d, groundwork): the run-time side of (set! x e) on a
   LOCAL variable, in isolation.

   [rext] / [frame2] (FrameSteps.v, CompileCorrect2.v) say "the payload of every existing
   lexical environment is unchanged"; that is exactly what MOV %acc (lexical slot i) breaks.
   Here: the relation weakened by a set L of LOCATIONS (environment id, slot) at which a payload
   may change ([rextL], [frameL]), its algebra, the stability of the representation of data and
   builtin values under it, the machine-level notion "the location of slot i of the running
   activation" ([loc_of]: the direct slot itself, or the target of the pointer the slot holds)
   and the run-time theorem for the store sequence and for code_e ++ store sequence.       *)
From Coq Require Import String Lia FMapPositive.
From MW Require Import Model.Base Model.F64 Model.Num Model.Datum Model.TransformDef Model.Transform
  Model.VmTypes Model.Heap Model.Gc Model.VmBase Model.Compile Model.Vm
  Proofs.VmProofs0 Proofs.GcProofs Proofs.SymtabProofs Proofs.QuoteHeapProofs
  Proofs.CompileProofs Proofs.RunProofs Proofs.CompileCorrect Proofs.TailProofs Proofs.FrameSteps
  Proofs.CellFuelProofs Proofs.CompileCorrect2 Proofs.FrameSteps3 Proofs.Closures3 Proofs.CompileStatic3
  Proofs.CompileCorrect3 Proofs.FrameSteps5.
From MW Require Proofs.ScopeProofs.
Open Scope N_scope.

Arguments N.add : simpl never.
Arguments N.sub : simpl never.
Arguments N.mul : simpl never.
Arguments N.eqb : simpl never.
Arguments N.ltb : simpl never.
Arguments N.leb : simpl never.

(* ============================================================ the weakened frame condition *)
Definition locset := N -> N -> Prop.
Definition loc_none : locset := fun _ _ => False.
Definition loc_one (e j : N) : locset := fun e' j' => e' = e /\ j' = j.
Definition loc_union (L1 L2 : locset) : locset := fun e j => L1 e j \/ L2 e j.

(* [cext], and every existing environment keeps its length and its slots outside L *)
Record rextL (L : locset) (m m' : vm) : Prop := {
  rl_cext : cext m m';
  rl_envs : forall e sl, e < next_id (st m) -> tget (envs (st m)) e = Some sl ->
    exists sl', tget (envs (st m')) e = Some sl' /\ len sl' = len sl /\
      forall k, ~ L e k -> list_get sl' k = list_get sl k
}.

Lemma rextL_refl L m : rextL L m m.
Proof. split; [apply cext_refl|]. intros e sl _ T. exists sl. auto. Qed.
Lemma rextL_mono (L L' : locset) m m' : (forall e j, L e j -> L' e j) -> rextL L m m' -> rextL L' m m'.
Proof.
  intros HL [X E]. split; [exact X|]. intros e sl Lt T. destruct (E e sl Lt T) as (sl' & T' & Ln & K).
  exists sl'. split; [exact T'|]. split; [exact Ln|]. intros k Hk. apply K. intros H. apply Hk, HL, H.
Qed.
Lemma rextL_trans L a b c : rextL L a b -> rextL L b c -> rextL L a c.
Proof.
  intros [X1 E1] [X2 E2]. split; [eapply cext_trans; eassumption|].
  intros e sl Lt T. destruct (E1 e sl Lt T) as (sl1 & T1 & Ln1 & K1).
  destruct (E2 e sl1 ltac:(destruct (ce_store _ _ X1); lia) T1) as (sl2 & T2 & Ln2 & K2).
  exists sl2. split; [exact T2|]. split; [congruence|]. intros k Hk. rewrite K2, K1; auto.
Qed.
Lemma rextL_trans2 L1 L2 a b c : rextL L1 a b -> rextL L2 b c -> rextL (loc_union L1 L2) a c.
Proof.
  intros H1 H2. eapply rextL_trans; (eapply rextL_mono; [|eassumption]); intros e j H; [left|right]; exact H.
Qed.
(* the old relation is the instance L = {} *)
Lemma rext_rextL L m m' : rext m m' -> rextL L m m'.
Proof.
  intros [X E]. split; [exact X|]. intros e sl Lt T. exists sl. rewrite E by exact Lt. auto.
Qed.
Lemma list_get_ext {A} (a : list A) : forall b, len a = len b -> (forall k, list_get a k = list_get b k) -> a = b.
Proof.
  induction a as [|x a IH]; intros [|y b] Hl Hk; [reflexivity| | |].
  - rewrite len_nil, len_cons in Hl. lia.
  - rewrite len_nil, len_cons in Hl. lia.
  - pose proof (Hk 0) as H0. rewrite !list_get_0 in H0. injection H0 as <-. f_equal. apply IH.
    + rewrite !len_cons in Hl. lia.
    + intros k. specialize (Hk (k + 1)). rewrite !list_get_cons_S in Hk. exact Hk.
Qed.
Lemma rextL_none_envs m m' : rextL loc_none m m' ->
  forall e sl, e < next_id (st m) -> tget (envs (st m)) e = Some sl -> tget (envs (st m')) e = Some sl.
Proof.
  intros [X E] e sl Lt T. destruct (E e sl Lt T) as (sl' & T' & Ln & K). rewrite T'. f_equal.
  apply list_get_ext; [exact Ln|]. intros k. apply K. intros [].
Qed.

(* [frame] (registers, stack, log, heap extension) with the weakened environment clause *)
Record frameL (L : locset) (m m' : vm) : Prop := {
  fl_frame : frame m m';
  fl_envs : forall e sl, e < next_id (st m) -> tget (envs (st m)) e = Some sl ->
    exists sl', tget (envs (st m')) e = Some sl' /\ len sl' = len sl /\
      forall k, ~ L e k -> list_get sl' k = list_get sl k
}.
Lemma frameL_rextL L m m' : frameL L m m' -> rextL L m m'.
Proof. intros [F E]. split; [apply F|exact E]. Qed.
Lemma frameL_refl L m : frameL L m m.
Proof. split; [apply frame_refl|apply (rl_envs _ _ _ (rextL_refl L m))]. Qed.
Lemma frameL_trans L a b c : frameL L a b -> frameL L b c -> frameL L a c.
Proof.
  intros F1 F2. split; [eapply frame_trans; [apply F1|apply F2]|].
  apply (rl_envs _ _ _ (rextL_trans L a b c (frameL_rextL _ _ _ F1) (frameL_rextL _ _ _ F2))).
Qed.
Lemma frameL_mono (L L' : locset) m m' : (forall e j, L e j -> L' e j) -> frameL L m m' -> frameL L' m m'.
Proof.
  intros HL F. split; [apply F|]. apply (rl_envs _ _ _ (rextL_mono L L' m m' HL (frameL_rextL _ _ _ F))).
Qed.
Lemma frame2_frameL L m m' : frame2 m m' -> frameL L m m'.
Proof.
  intros F. split; [apply F|]. apply (rl_envs _ _ _ (rext_rextL L m m' (frame2_rext _ _ F))).
Qed.

(* ============================================================ stability of base values *)
(* the representation of a datum or a builtin does not read the table of lexical environments:
   it is stable under [cext] alone, hence under [rextL L] for every L *)
Lemma vrep3_base_cext m m' v b : cext m m' -> vrep3 m v (R3Base b) -> vrep3 m' v (R3Base b).
Proof. intros X H. cbn [vrep3] in *. eapply vrep_ext; [exact H|apply cext_ext, X]. Qed.
Lemma vrep3_base_rextL L m m' v b : rextL L m m' -> vrep3 m v (R3Base b) -> vrep3 m' v (R3Base b).
Proof. intros R. apply vrep3_base_cext, R. Qed.

(* a global environment all of whose values are data or builtins *)
Definition base_env (rho : env3) : Prop := forall x r, rho x = Some r -> exists b, r = R3Base b.
Lemma base_env_upd rho x b : base_env rho -> base_env (upd3 rho x (R3Base b)).
Proof.
  intros H y r. unfold upd3. destruct (text_eqb y x); [intros E; injection E as <-; exists b; reflexivity|apply H].
Qed.
Lemma genv_rel3_base_cext rho m m' : base_env rho -> cext m m' -> g_slots m' = g_slots m ->
  genv_rel3 rho m -> genv_rel3 rho m'.
Proof.
  intros HB X Eg G x r Hx. destruct (G x r Hx) as (a & k & v & A & C & B & Lk & V).
  destruct (HB x r Hx) as (b & ->). destruct (ce_heap _ _ X a A) as [A' C'].
  exists a, k, v. split; [exact A'|]. split; [congruence|]. split; [apply (ce_bind _ _ X); exact B|].
  split; [rewrite Eg; exact Lk|]. eapply vrep3_base_cext; eassumption.
Qed.

(* ============================================================ locations at machine level *)
Definition nonptr (w : vcell) : Prop := forall a k, w <> VLexPtr a k.
(* (e, j) — environment id, slot — is a location: an existing slot that holds a direct value *)
Definition loc_ok (m : vm) (e j : N) : Prop :=
  exists sl w, e < next_id (st m) /\ tget (envs (st m)) e = Some sl /\ list_get sl j = Some w /\ nonptr w.
Definition loc_val (m : vm) (e j : N) (w : vcell) : Prop :=
  exists sl, tget (envs (st m)) e = Some sl /\ list_get sl j = Some w.
(* the location of slot i of the running activation: the slot itself if it holds a direct
   value, the target of the pointer otherwise (one indirection) *)
Definition loc_of (m : vm) (i e j : N) : Prop :=
  exists eid slots v, allocated (hp m) (ep m) /\ cell_at (hp m) (ep m) = VLexEnv eid /\
    eid < next_id (st m) /\ tget (envs (st m)) eid = Some slots /\ list_get slots i = Some v /\
    ((nonptr v /\ e = eid /\ j = i) \/
     (exists a, v = VLexPtr a j /\ allocated (hp m) a /\ cell_at (hp m) a = VLexEnv e /\ loc_ok m e j)).

Lemma loc_of_ok m i e j : loc_of m i e j -> loc_ok m e j.
Proof.
  intros (eid & slots & v & A & C & Lt & T & G & [(Hn & -> & ->)|(a & _ & _ & _ & H)]); [|exact H].
  exists slots, v. auto.
Qed.
Lemma loc_of_same m m' i e j : hp m' = hp m -> st m' = st m -> ep m' = ep m -> loc_of m i e j -> loc_of m' i e j.
Proof. intros Eh Es Ee. unfold loc_of, loc_ok. rewrite Eh, Es, Ee. auto. Qed.
Lemma loc_val_same m m' e j w : st m' = st m -> loc_val m e j w -> loc_val m' e j w.
Proof. intros Es. unfold loc_val. rewrite Es. auto. Qed.

(* [lrel3] (Closures3.v) provides the location of every slot of the scope and its content *)
Lemma lrel3_loc lv m i r : lrel3 lv m -> nth_error lv (N.to_nat i) = Some r ->
  exists e j w, loc_of m i e j /\ loc_val m e j w /\ vrep3 m w r.
Proof.
  intros L Hi. destruct (L i r Hi) as (eid & slots & v & A & C & Lt & T & G & SH).
  destruct SH as [[Hn V]|(a & j & eid2 & sl & w & -> & A2 & C2 & Lt2 & T2 & G2 & Hw & V)].
  - exists eid, i, v. split; [|split; [exists slots; auto|exact V]].
    exists eid, slots, v. do 5 (split; [assumption|]). left. auto.
  - exists eid2, j, w. split; [|split; [exists sl; auto|exact V]].
    exists eid, slots, (VLexPtr a j). do 5 (split; [assumption|]). right. exists a.
    split; [reflexivity|]. split; [exact A2|]. split; [exact C2|]. exists sl, w. auto.
Qed.

(* ------------------------------------------------------------ a store into a location *)
Section StoreFacts.
Variables (m : vm) (q : N * N) (e : N) (sl : list vcell) (j : N) (v w0 : vcell).
Hypothesis Lt : e < next_id (st m).
Hypothesis T : tget (envs (st m)) e = Some sl.
Hypothesis G : list_get sl j = Some w0.
Hypothesis Hw0 : nonptr w0.
Hypothesis Hv : nonptr v.
Let m2 := env_stored m q e sl j v.

Lemma stored_frameL : frameL (loc_one e j) m m2.
Proof.
  split; [apply env_stored_frame|]. intros e' sl' Lt' T'. destruct (N.eq_dec e' e) as [->|Hne].
  - rewrite T in T'. injection T' as <-. exists (list_set sl j v). split; [apply env_stored_same|].
    split; [apply list_set_len|]. intros k Hk. apply list_get_set_other. intros <-. apply Hk. split; reflexivity.
  - exists sl'. split; [unfold m2; rewrite env_stored_other by exact Hne; exact T'|]. auto.
Qed.
Lemma stored_val : loc_val m2 e j v.
Proof.
  exists (list_set sl j v). split; [apply env_stored_same|]. apply list_get_set_same. eapply list_get_lt. exact G.
Qed.
Lemma stored_val_other e' j' w : (e', j') <> (e, j) -> loc_val m e' j' w -> loc_val m2 e' j' w.
Proof.
  intros Hne (sl' & T' & G'). destruct (N.eq_dec e' e) as [->|He].
  - rewrite T in T'. injection T' as <-. exists (list_set sl j v). split; [apply env_stored_same|].
    rewrite list_get_set_other; [exact G'|]. intros <-. apply Hne. reflexivity.
  - exists sl'. split; [unfold m2; rewrite env_stored_other by exact He; exact T'|exact G'].
Qed.
Lemma stored_loc_ok e' j' : loc_ok m e' j' -> loc_ok m2 e' j'.
Proof.
  intros (sl' & w & Lt' & T' & G' & Hw). destruct (N.eq_dec e' e) as [->|He].
  - rewrite T in T'. injection T' as <-. destruct (N.eq_dec j' j) as [->|Hj].
    + exists (list_set sl j v), v. split; [exact Lt'|]. split; [apply env_stored_same|].
      split; [apply list_get_set_same; eapply list_get_lt; exact G|exact Hv].
    + exists (list_set sl j v), w. split; [exact Lt'|]. split; [apply env_stored_same|].
      split; [rewrite list_get_set_other by congruence; exact G'|exact Hw].
  - exists sl', w. split; [exact Lt'|]. split; [unfold m2; rewrite env_stored_other by exact He; exact T'|]. auto.
Qed.
(* the location map of the running activation is unchanged: direct slots stay direct, pointer
   slots are not written *)
Lemma stored_loc_of i' e' j' : loc_of m i' e' j' -> loc_of m2 i' e' j'.
Proof.
  intros (eid & slots & v0 & A & C & Lt' & T' & G' & Hcase).
  assert (Hptr : forall a, v0 = VLexPtr a j' -> allocated (hp m) a /\ cell_at (hp m) a = VLexEnv e' /\ loc_ok m e' j' ->
                 exists a0, v0 = VLexPtr a0 j' /\ allocated (hp m2) a0 /\ cell_at (hp m2) a0 = VLexEnv e' /\ loc_ok m2 e' j').
  { intros a -> (A2 & C2 & LO). exists a. split; [reflexivity|]. split; [exact A2|]. split; [exact C2|].
    apply stored_loc_ok. exact LO. }
  destruct (N.eq_dec eid e) as [->|He].
  - rewrite T in T'. injection T' as <-. destruct (N.eq_dec i' j) as [->|Hi].
    + (* the slot written: it held a direct value, it holds one now *)
      rewrite G in G'. injection G' as <-.
      destruct Hcase as [(_ & -> & ->)|(a & -> & _)]; [|exfalso; eapply Hw0; reflexivity].
      exists e, (list_set sl j v), v. split; [exact A|]. split; [exact C|]. split; [exact Lt'|].
      split; [apply env_stored_same|]. split; [apply list_get_set_same; eapply list_get_lt; exact G|].
      left. auto.
    + exists e, (list_set sl j v), v0. split; [exact A|]. split; [exact C|]. split; [exact Lt'|].
      split; [apply env_stored_same|]. split; [rewrite list_get_set_other by congruence; exact G'|].
      destruct Hcase as [H|(a & E & H)]; [left; exact H|right; eapply Hptr; eassumption].
  - exists eid, slots, v0. split; [exact A|]. split; [exact C|]. split; [exact Lt'|].
    split; [unfold m2; rewrite env_stored_other by exact He; exact T'|]. split; [exact G'|].
    destruct Hcase as [H|(a & E & H)]; [left; exact H|right; eapply Hptr; eassumption].
Qed.
End StoreFacts.

Lemma frameL_val_other L m m' e j w : frameL L m m' -> ~ L e j -> e < next_id (st m) ->
  loc_val m e j w -> loc_val m' e j w.
Proof.
  intros F Hn Lt (sl & T & G). destruct (fl_envs _ _ _ F e sl Lt T) as (sl' & T' & _ & K).
  exists sl'. split; [exact T'|]. rewrite K by exact Hn. exact G.
Qed.

(* code that leaves the existing payloads alone ([rext], e.g. all code of fragment 3) leaves the
   location map of the running activation alone *)
Lemma loc_ok_rext m m' e j : rext m m' -> loc_ok m e j -> loc_ok m' e j.
Proof.
  intros [X E] (sl & w & Lt & T & G & Hw). exists sl, w.
  split; [destruct (ce_store _ _ X); lia|]. split; [rewrite E by exact Lt; exact T|]. auto.
Qed.
Lemma loc_of_rext m m' i e j : rext m m' -> ep m' = ep m -> loc_of m i e j -> loc_of m' i e j.
Proof.
  intros R Ee (eid & slots & v & A & C & Lt & T & G & Hcase). pose proof (rx_cext _ _ R) as X.
  destruct (ce_heap _ _ X _ A) as [A' C']. exists eid, slots, v. rewrite Ee.
  split; [exact A'|]. split; [congruence|]. split; [destruct (ce_store _ _ X); lia|].
  split; [rewrite (rx_envs _ _ R) by exact Lt; exact T|]. split; [exact G|].
  destruct Hcase as [H|(a & Ev & A2 & C2 & LO)]; [left; exact H|right].
  destruct (ce_heap _ _ X _ A2) as [A2' C2']. exists a. split; [exact Ev|]. split; [exact A2'|].
  split; [congruence|]. eapply loc_ok_rext; eassumption.
Qed.

(* ============================================================ the run-time theorem *)
Definition store_code (i : N) : list vcell := [VOp OMov; VAcc; VLexSlot i; VOp OMovImmediate; VVoid; VAcc].

Section Exec5.
Variable ob : N -> M vcell.
Notation run_one := (Vm.run_one ob).
Notation steps := (RunProofs.steps ob).

(* MOV %acc (lexical slot i) writes the location of slot i, whichever of the two shapes the
   slot has *)
Lemma store_local_step m1 lp bc p i e j : code_in m1 lp bc -> ip m1 = (lp, p) ->
  seg bc p [VOp OMov; VAcc; VLexSlot i] -> loc_of m1 i e j ->
  exists sl w0, e < next_id (st m1) /\ tget (envs (st m1)) e = Some sl /\ list_get sl j = Some w0 /\
    nonptr w0 /\ run_one m1 = ROk false (env_stored m1 (lp, p + 3) e sl j (acc m1)).
Proof.
  intros Hc Hip Hs (eid & slots & v & A & C & Lt & T & G & Hcase).
  assert (Hg : heap_get (hp m1) (ep m1) = Ok (VLexEnv eid)) by (rewrite (heap_get_alloc _ _ A), C; reflexivity).
  destruct Hcase as [(Hn & -> & ->)|(a & -> & A2 & C2 & (sl & w0 & Lt2 & T2 & G2 & Hw))].
  - exists slots, v. split; [exact Lt|]. split; [exact T|]. split; [exact G|]. split; [exact Hn|].
    eapply step_store_lex_direct; eassumption.
  - exists sl, w0. split; [exact Lt2|]. split; [exact T2|]. split; [exact G2|]. split; [exact Hw|].
    assert (Hg2 : heap_get (hp m1) a = Ok (VLexEnv e)) by (rewrite (heap_get_alloc _ _ A2), C2; reflexivity).
    eapply step_store_lex_ptr; try eassumption. eapply list_get_lt. exact G2.
Qed.

(* MOV %acc (lexical slot i); MOVIMM #<void> %acc *)
Lemma store_local_tail m1 lp bc p i e j :
  minv m1 -> code_in m1 lp bc -> seg bc p (store_code i) -> ip m1 = (lp, p) ->
  loc_of m1 i e j -> nonptr (acc m1) ->
  exists m3, steps 2 m1 = Some m3 /\ frameL (loc_one e j) m1 m3 /\ minv m3 /\ ip m3 = (lp, p + 6) /\
    acc m3 = VVoid /\ loc_val m3 e j (acc m1) /\ g_slots m3 = g_slots m1 /\
    (forall i' e' j', loc_of m1 i' e' j' -> loc_of m3 i' e' j').
Proof.
  intros MI Hc Hs Hip HL Hacc. unfold store_code in Hs.
  change [VOp OMov; VAcc; VLexSlot i; VOp OMovImmediate; VVoid; VAcc]
    with ([VOp OMov; VAcc; VLexSlot i] ++ [VOp OMovImmediate; VVoid; VAcc]) in Hs.
  apply seg_app in Hs as [Hs1 Hs2]. rewrite len3 in Hs2.
  destruct (store_local_step m1 lp bc p i e j Hc Hip Hs1 HL) as (sl & w0 & Lt & T & G & Hw0 & E1).
  set (m2 := env_stored m1 (lp, p + 3) e sl j (acc m1)) in *.
  assert (Hc2 : code_in m2 lp bc) by (apply env_stored_code_in; exact Hc).
  pose proof (step_movimm ob m2 lp (p + 3) bc VVoid Hc2 eq_refl Hs2 ltac:(discriminate)) as E2.
  set (m3 := with_acc (with_ip m2 (lp, p + 3 + 3)) VVoid) in *.
  assert (SM : same_mem m2 m3) by (repeat split).
  exists m3. split; [eapply (steps_trans ob 1 1); apply steps_one; eassumption|].
  split; [eapply frameL_trans; [apply (stored_frameL m1 (lp, p + 3) e sl j (acc m1) T)|apply frame2_frameL, same_mem_frame2, SM]|].
  split; [eapply same_mem_minv; [exact SM|apply env_stored_minv; exact MI]|].
  split; [cbn [ip m3 with_acc with_ip]; f_equal; lia|]. split; [reflexivity|].
  split; [eapply loc_val_same; [|apply (stored_val m1 (lp, p + 3) e sl j (acc m1) w0 G)]; reflexivity|].
  split; [reflexivity|].
  intros i' e' j' H. eapply loc_of_same; [| | |apply (stored_loc_of m1 (lp, p + 3) e sl j (acc m1) w0 T G Hw0 Hacc i' e' j' H)]; reflexivity.
Qed.

(* code_e; MOV %acc (lexical slot i); MOVIMM #<void> %acc, where code_e has the exec property of
   fragment 3 ([exec3], Closures3.v) with a DATA or BUILTIN value: the machine reaches the end
   of the code, %acc = #<void>; the location (e, j) of slot i — the one it had at the start —
   holds a representation of the value; NOTHING ELSE has changed in any existing environment
   ([frameL (loc_one e j)]); registers, stack, log as before; the location map of the running
   activation is unchanged.  The global environment must consist of data/builtins (closure
   values: see the findings at the end of the file). *)
Theorem exec5_store_local s0 p code i lv rho b rold rho1 :
  exec3 ob s0 p code false lv rho (R3Base b) rho1 -> base_env rho1 ->
  nth_error lv (N.to_nat i) = Some rold ->
  forall m lp bc, cext s0 m -> minv m -> code_in m lp bc ->
    seg bc p (code ++ store_code i) -> ip m = (lp, p) -> genv_rel3 rho m -> lrel3 lv m ->
    exists n m' e j w, steps n m = Some m' /\ loc_of m i e j /\ frameL (loc_one e j) m m' /\ minv m' /\
      ip m' = (lp, p + len (code ++ store_code i)) /\ acc m' = VVoid /\ genv_rel3 rho1 m' /\
      loc_val m' e j w /\ vrep3 m' w (R3Base b) /\
      (forall i' e' j', loc_of m i' e' j' -> loc_of m' i' e' j').
Proof.
  intros EX HB Hi m lp bc X MIm Hc Hs Hip G L. apply seg_app in Hs as [Hs1 Hs2].
  destruct (exec3_n ob _ _ _ _ _ _ _ EX m lp bc X MIm Hc Hs1 Hip G L)
    as (n1 & m1 & St1 & Fr1 & MIm1 & Hip1 & V1 & G1).
  pose proof (frame2_rext _ _ Fr1) as R1. pose proof (f2_frame _ _ Fr1) as Fr1'.
  destruct (lrel3_loc lv m i rold L Hi) as (e & j & wold & HL & _ & _).
  pose proof (loc_of_rext _ _ _ _ _ R1 (fr_ep _ _ Fr1') HL) as HL1.
  destruct (store_local_tail m1 lp bc _ i e j MIm1 (code_in_ext _ _ _ _ Hc (fr_ext _ _ Fr1')) Hs2 Hip1 HL1
              (vrep3_not_lexptr _ _ _ V1))
    as (m3 & St3 & Fr3 & MIm3 & Hip3 & Hacc & LV & Eg & Keep).
  exists (n1 + 2)%nat, m3, e, j, (acc m1). split; [eapply steps_trans; eassumption|].
  split; [exact HL|]. split; [eapply frameL_trans; [apply frame2_frameL; exact Fr1|exact Fr3]|].
  split; [exact MIm3|].
  split; [rewrite Hip3, len_app; f_equal; change (len (store_code i)) with 6; lia|].
  split; [exact Hacc|]. pose proof (fr_ext _ _ (fl_frame _ _ _ Fr3)) as X13.
  split; [eapply genv_rel3_base_cext; eassumption|]. split; [exact LV|].
  split; [eapply vrep3_base_cext; eassumption|].
  intros i' e' j' H. apply Keep. eapply loc_of_rext; [exact R1|apply Fr1'|exact H].
Qed.
End Exec5.

(* ============================================================ findings: closure values *)
(* [vrep3] of a closure (Closures3.v) PINS THE CONTENT of every captured location: for the k-th
   captured value cv there is a location whose current content represents cv.  A store into
   that location (with a value that does not represent cv) therefore falsifies the
   representation of every closure that captured the variable — although nothing the closure
   consists of (its heap cells, its closure environment, the pointers in it, its code) has
   changed.  This is the only place where [vrep3_ext] needs [rext] rather than [cext] plus
   "pointer slots are not written".  With values that capture LOCATIONS ([rval5], Closures5.v) the
   representation of a closure mentions the pointer (a, j) = mu(location) only, and is stable
   under [rextL L] for every set L of direct slots; the content moves into a separate store
   relation (sigma(l) is represented by the content of mu(l)), which a store into mu(l) updates
   at l exactly as [sset5] does. *)
Lemma vrep3_clo_pins m v ps cs body cvals k cv : vrep3 m v (R3Clo ps cs body cvals) ->
  nth_error cvals k = Some cv ->
  exists e j w, loc_ok m e j /\ loc_val m e j w /\ vrep3 m w cv.
Proof.
  cbn [vrep3]. intros (cp & lamp & cep & ceid & cslots & _ & _ & _ & _ & _ & _ & _ & _ & _ & _ & All) Hk.
  rewrite all_idx_nth in All. destruct (All k cv Hk) as (v' & _ & (a & j & eid & sl & w & _ & _ & _ & Lt & T & G & Hw & V)).
  exists eid, j, w. split; [exists sl, w; auto|]. split; [exists sl; auto|exact V].
Qed.
(* closures without captured variables are as stable as base values as far as locations are
   concerned: only their own closure environment (never a location: its parameter slots hold
   #<undefined> and are never read) must keep its payload *)
Lemma vrep3_clo0_stable m m' v ps body : cext m m' ->
  (forall e sl, e < next_id (st m) -> tget (envs (st m)) e = Some sl -> len sl = len ps ->
     exists sl', tget (envs (st m')) e = Some sl' /\ len sl' = len sl) ->
  vrep3 m v (R3Clo ps [] body []) -> vrep3 m' v (R3Clo ps [] body []).
Proof.
  intros X E. cbn [vrep3].
  intros (cp & lamp & cep & ceid & cslots & -> & A1 & C1 & A2 & C2 & Lt & T & Ln & Lc & CC & _).
  destruct (ce_heap _ _ X cp A1) as [A1' C1']. destruct (ce_heap _ _ X cep A2) as [A2' C2'].
  rewrite len_nil in Ln. destruct (E ceid cslots Lt T ltac:(lia)) as (sl' & T' & Ln').
  exists cp, lamp, cep, ceid, sl'. split; [reflexivity|]. split; [exact A1'|]. split; [congruence|].
  split; [exact A2'|]. split; [congruence|]. split; [destruct (ce_store _ _ X); lia|].
  split; [exact T'|]. split; [rewrite len_nil; lia|]. split; [reflexivity|].
  split; [eapply closure_code_ext; eassumption|exact I].
Qed.
