(* StoreLocal5.v — C01 (work package c01d, groundwork): the run-time side of (set! x e) on a
   LOCAL variable, in isolation.

   [rext] / [frame2] (FrameSteps.v, CompileCorrect2.v) say "the payload of every existing
   lexical environment is unchanged"; that is exactly what MOV %acc (lexical slot i) breaks.
   Here: the relation weakened by a set L of LOCATIONS (environment id, slot) at which a payload
   may change ([rextL], [frameL]), its algebra, the stability of the representation of data and
   builtin values under it, the machine-level notion "the location of slot i of the running
   activation" ([loc_of]: the direct slot itself, or the target of the pointer the slot holds)
   and the run-time theorem for the store sequence and for code_e ++ store sequence.       *)
From Coq Require Import String Lia FMapPositive.
From MW Require Import Model.Base Model.F64 Model.Num Model.Datum Model.TransformDef Model.Transform
  Model.VmTypes Model.Heap Model.Gc Model.VmBase Model.Compile Model.Vm
  Proofs.VmProofs0 Proofs.GcProofs Proofs.SymtabProofs Proofs.QuoteHeapProofs
  Proofs.CompileProofs Proofs.RunProofs Proofs.CompileCorrect Proofs.TailProofs Proofs.FrameSteps
  Proofs.CellFuelProofs Proofs.CompileCorrect2 Proofs.FrameSteps3 Proofs.Closures3 Proofs.CompileStatic3
  Proofs.CompileCorrect3 Proofs.FrameSteps5.
From MW Require Proofs.ScopeProofs.
Open Scope N_scope.

Arguments N.add : simpl never.
Arguments N.sub : simpl never.
Arguments N.mul : simpl never.
Arguments N.eqb : simpl never.
Arguments N.ltb : simpl never.
Arguments N.leb : simpl never.

(* ============================================================ the weakened frame condition *)
Definition locset := N -> N -> Prop.
Definition loc_none : locset := fun _ _ => False.
Definition loc_one (e j : N) : locset := fun e' j' => e' = e /\ j' = j.
Definition loc_union (L1 L2 : locset) : locset := fun e j => L1 e j \/ L2 e j.

(* [cext], and every existing environment keeps its length and its slots outside L *)
Record rextL (L : locset) (m m' : vm) : Prop := {
  rl_cext : cext m m';
  rl_envs : forall e sl, e < next_id (st m) -> tget (envs (st m)) e = Some sl ->
    exists sl', tget (envs (st m')) e = Some sl' /\ len sl' = len sl /\
      forall k, ~ L e k -> list_get sl' k = list_get sl k
}.

Lemma rextL_refl L m : rextL L m m.
Proof. split; [apply cext_refl|]. intros e sl _ T. exists sl. auto. Qed.
Lemma rextL_mono (L L' : locset) m m' : (forall e j, L e j -> L' e j) -> rextL L m m' -> rextL L' m m'.
Proof.
  intros HL [X E]. split; [exact X|]. intros e sl Lt T. destruct (E e sl Lt T) as (sl' & T' & Ln & K).
  exists sl'. split; [exact T'|]. split; [exact Ln|]. intros k Hk. apply K. intros H. apply Hk, HL, H.
Qed.
Lemma rextL_trans L a b c : rextL L a b -> rextL L b c -> rextL L a c.
Proof.
  intros [X1 E1] [X2 E2]. split; [eapply cext_trans; eassumption|].
  intros e sl Lt T. destruct (E1 e sl Lt T) as (sl1 & T1 & Ln1 & K1).
  destruct (E2 e sl1 ltac:(destruct (ce_store _ _ X1); lia) T1) as (sl2 & T2 & Ln2 & K2).
  exists sl2. split; [exact T2|]. split; [congruence|]. intros k Hk. rewrite K2, K1; auto.
Qed.
Lemma rextL_trans2 L1 L2 a b c : rextL L1 a b -> rextL L2 b c -> rextL (loc_union L1 L2) a c.
Proof.
  intros H1 H2. eapply rextL_trans; (eapply rextL_mono; [|eassumption]); intros e j H; [left|right]; exact H.
Qed.
(* the old relation is the instance L = {} *)
Lemma rext_rextL L m m' : rext m m' -> rextL L m m'.
Proof.
  intros [X E]. split; [exact X|]. intros e sl Lt T. exists sl. rewrite E by exact Lt. auto.
Qed.
Lemma list_get_ext {A} (a : list A) : forall b, len a = len b -> (forall k, list_get a k = list_get b k) -> a = b.
Proof.
  induction a as [|x a IH]; intros [|y b] Hl Hk; [reflexivity| | |].
  - rewrite len_nil, len_cons in Hl. lia.
  - rewrite len_nil, len_cons in Hl. lia.
  - pose proof (Hk 0) as H0. rewrite !list_get_0 in H0. injection H0 as <-. f_equal. apply IH.
    + rewrite !len_cons in Hl. lia.
    + intros k. specialize (Hk (k + 1)). rewrite !list_get_cons_S in Hk. exact Hk.
Qed.
Lemma rextL_none_envs m m' : rextL loc_none m m' ->
  forall e sl, e < next_id (st m) -> tget (envs (st m)) e = Some sl -> tget (envs (st m')) e = Some sl.
Proof.
  intros [X E] e sl Lt T. destruct (E e sl Lt T) as (sl' & T' & Ln & K). rewrite T'. f_equal.
  apply list_get_ext; [exact Ln|]. intros k. apply K. intros [].
Qed.

(* [frame] (registers, stack, log, heap extension) with the weakened environment clause *)
Record frameL (L : locset) (m m' : vm) : Prop := {
  fl_frame : frame m m';
  fl_envs : forall e sl, e < next_id (st m) -> tget (envs (st m)) e = Some sl ->
    exists sl', tget (envs (st m')) e = Some sl' /\ len sl' = len sl /\
      forall k, ~ L e k -> list_get sl' k = list_get sl k
}.
Lemma frameL_rextL L m m' : frameL L m m' -> rextL L m m'.
Proof. intros [F E]. split; [apply F|exact E]. Qed.
Lemma frameL_refl L m : frameL L m m.
Proof. split; [apply frame_refl|apply (rl_envs _ _ _ (rextL_refl L m))]. Qed.
Lemma frameL_trans L a b c : frameL L a b -> frameL L b c -> frameL L a c.
Proof.
  intros F1 F2. split; [eapply frame_trans; [apply F1|apply F2]|].
  apply (rl_envs _ _ _ (rextL_trans L a b c (frameL_rextL _ _ _ F1) (frameL_rextL _ _ _ F2))).
Qed.
Lemma frameL_mono (L L' : locset) m m' : (forall e j, L e j -> L' e j) -> frameL L m m' -> frameL L' m m'.
Proof.
  intros HL F. split; [apply F|]. apply (rl_envs _ _ _ (rextL_mono L L' m m' HL (frameL_rextL _ _ _ F))).
Qed.
Lemma frame2_frameL L m m' : frame2 m m' -> frameL L m m'.
Proof.
  intros F. split; [apply F|]. apply (rl_envs _ _ _ (rext_rextL L m m' (frame2_rext _ _ F))).
Qed.

(* ============================================================ stability of base values *)
(* the representation of a datum or a builtin does not read the table of lexical environments:
   it is stable under [cext] alone, hence under [rextL L] for every L *)
Lemma vrep3_base_cext m m' v b : cext m m' -> vrep3 m v (R3Base b) -> vrep3 m' v (R3Base b).
Proof. intros X H. cbn [vrep3] in *. eapply vrep_ext; [exact H|apply cext_ext, X]. Qed.
Lemma vrep3_base_rextL L m m' v b : rextL L m m' -> vrep3 m v (R3Base b) -> vrep3 m' v (R3Base b).
Proof. intros R. apply vrep3_base_cext, R. Qed.

(* a global environment all of whose values are data or builtins *)
Definition base_env (rho : env3) : Prop := forall x r, rho x = Some r -> exists b, r = R3Base b.
Lemma base_env_upd rho x b : base_env rho -> base_env (upd3 rho x (R3Base b)).
Proof.
  intros H y r. unfold upd3. destruct (text_eqb y x); [intros E; injection E as <-; exists b; reflexivity|apply H].
Qed.
Lemma genv_rel3_base_cext rho m m' : base_env rho -> cext m m' -> g_slots m' = g_slots m ->
  genv_rel3 rho m -> genv_rel3 rho m'.
Proof.
  intros HB X Eg G x r Hx. destruct (G x r Hx) as (a & k & v & A & C & B & Lk & V).
  destruct (HB x r Hx) as (b & ->). destruct (ce_heap _ _ X a A) as [A' C'].
  exists a, k, v. split; [exact A'|]. split; [congruence|]. split; [apply (ce_bind _ _ X); exact B|].
  split; [rewrite Eg; exact Lk|]. eapply vrep3_base_cext; eassumption.
Qed.
