(* MonoBase.v — a RELATIONAL calculus over the VM monad: [mono R m] = whenever m ends
   (normally or with an error) in a state s', R relates the start state to s'.
   Two relations:
     [sframe]  stack contents, capacity, sp, bp, ep, ip, acc and the output log are UNCHANGED,
               Rc ids only grow, continuation objects below next_id are kept
               (what the compiler and the heap-only builtins do);
     [kmono]   the stack capacity does not shrink, Rc ids only grow, continuation objects
               below next_id are kept (what EVERY instruction and builtin does).
   [pure] (TailProofs) is [mono eq].                                                    *)
From Coq Require Import Lia List.
From MW Require Import Model.Base Model.F64 Model.Num Model.Datum Model.TransformDef Model.Transform
  Model.VmTypes Model.Heap Model.VmBase Model.Compile Model.Vm
  Proofs.VmProofs0 Proofs.TailProofs.
Open Scope N_scope.
Arguments N.add : simpl never.
Arguments N.sub : simpl never.
Arguments N.eqb : simpl never.
Arguments N.ltb : simpl never.
Arguments N.leb : simpl never.
Arguments N.mul : simpl never.

(* ------------------------------------------------------------------ the relations *)
(* Rc side tables: ids only grow, continuation objects already allocated are kept *)
Definition sext (x x' : store) : Prop :=
  next_id x <= next_id x' /\ forall j, j < next_id x -> tget (conts x') j = tget (conts x) j.

Lemma sext_refl x : sext x x.
Proof. split; [lia|auto]. Qed.
Lemma sext_trans a b c : sext a b -> sext b c -> sext a c.
Proof.
  intros [A1 A2] [B1 B2]. split; [lia|]. intros j Hj. rewrite B2 by lia. apply A2. exact Hj.
Qed.

Record sframe (s s' : vm) : Prop := {
  sf_stack : stack s' = stack s;
  sf_scap : scap s' = scap s;
  sf_sp : sp s' = sp s;
  sf_bp : bp s' = bp s;
  sf_ep : ep s' = ep s;
  sf_ip : ip s' = ip s;
  sf_acc : acc s' = acc s;
  sf_log : out_log s' = out_log s;
  sf_store : sext (st s) (st s');
  (* global environment: fresh slots (Undefined) and their bindings are appended, nothing else *)
  sf_slots : exists k, g_slots s' = g_slots s ++ repeat VUndef k;
  sf_bind : exists nb, g_bind s' = nb ++ g_bind s
}.

Record kmono (s s' : vm) : Prop := {
  km_cap : scap s <= scap s';
  km_store : sext (st s) (st s')
}.

Ltac sf_globals_same :=
  try (exists 0%nat; cbn [repeat]; rewrite app_nil_r; reflexivity); try (exists []; reflexivity).
Lemma sframe_refl s : sframe s s.
Proof. split; try reflexivity; sf_globals_same. apply sext_refl. Qed.
Lemma sframe_trans a b c : sframe a b -> sframe b c -> sframe a c.
Proof.
  intros [A1 A2 A3 A4 A5 A6 A7 A8 A9 [k1 A10] [n1 A11]] [B1 B2 B3 B4 B5 B6 B7 B8 B9 [k2 B10] [n2 B11]].
  split; try congruence.
  - eapply sext_trans; eassumption.
  - exists (k1 + k2)%nat. rewrite B10, A10, <- app_assoc, repeat_app. reflexivity.
  - exists (n2 ++ n1). rewrite B11, A11, app_assoc. reflexivity.
Qed.
Lemma kmono_refl s : kmono s s.
Proof. split; [lia|apply sext_refl]. Qed.
Lemma kmono_trans a b c : kmono a b -> kmono b c -> kmono a c.
Proof. intros [A1 A2] [B1 B2]. split; [lia|eapply sext_trans; eassumption]. Qed.
Lemma sframe_kmono s s' : sframe s s' -> kmono s s'.
Proof. intros H. split; [rewrite (sf_scap _ _ H); lia|exact (sf_store _ _ H)]. Qed.

(* the relations this calculus is about: preorders that contain [sframe] *)
Class Fr (R : vm -> vm -> Prop) : Prop := {
  fr_refl : forall s, R s s;
  fr_trans : forall a b c, R a b -> R b c -> R a c;
  fr_sub : forall s s', sframe s s' -> R s s'
}.
#[export] Instance Fr_sframe : Fr sframe.
Proof. split; [exact sframe_refl|exact sframe_trans|auto]. Qed.
#[export] Instance Fr_kmono : Fr kmono.
Proof. split; [exact kmono_refl|exact kmono_trans|exact sframe_kmono]. Qed.

(* ------------------------------------------------------------------ mono *)
Definition rpost {A} (R : vm -> vm -> Prop) (s : vm) (r : res A) : Prop :=
  match r with ROk _ s' => R s s' | RErr _ _ s' => R s s' | _ => True end.
Definition mono {A} (R : vm -> vm -> Prop) (m : M A) : Prop := forall s, rpost R s (m s).

Lemma mono_ok {A} R (m : M A) s a s' : mono R m -> m s = ROk a s' -> R s s'.
Proof. intros H E. specialize (H s). rewrite E in H. exact H. Qed.
Lemma mono_err {A} R (m : M A) s e msg s' : mono R m -> m s = RErr e msg s' -> R s s'.
Proof. intros H E. specialize (H s). rewrite E in H. exact H. Qed.

Lemma pure_mono {A} R `{Fr R} (m : M A) : pure m -> mono R m.
Proof.
  intros P s. specialize (P s). unfold rpost. destruct (m s); try exact I; subst; apply fr_refl.
Qed.
Lemma mono_sub {A} R `{Fr R} (m : M A) : mono sframe m -> mono R m.
Proof.
  intros P s. specialize (P s). unfold rpost in *. destruct (m s); try exact I; apply fr_sub; exact P.
Qed.

Lemma mono_bind {A B} R `{Fr R} (m : M A) (f : A -> M B) :
  mono R m -> (forall a, mono R (f a)) -> mono R (bindM m f).
Proof.
  intros Hm Hf s. unfold bindM. specialize (Hm s). unfold rpost in *.
  destruct (m s) as [a s1|e msg s1|k|]; try exact I; [|exact Hm].
  specialize (Hf a s1). destruct (f a s1); try exact I; eapply fr_trans; eassumption.
Qed.
Lemma mono_ret {A} R `{Fr R} (a : A) : mono R (ret a).
Proof. intros s. exact (fr_refl s). Qed.
Lemma mono_fail {A} R `{Fr R} e : mono R (@fail A e).
Proof. intros s. exact (fr_refl s). Qed.
Lemma mono_fail_msg {A} R `{Fr R} e msg : mono R (@fail_msg A e msg).
Proof. intros s. exact (fr_refl s). Qed.
Lemma mono_panic {A} R k : mono R (@panic A k).
Proof. intros s. exact I. Qed.
Lemma mono_lift {A} R `{Fr R} (o : out A) : mono R (lift o).
Proof. apply pure_mono; [assumption|apply pure_lift]. Qed.
Lemma mono_get_vm R `{Fr R} : mono R get_vm.
Proof. intros s. exact (fr_refl s). Qed.
Lemma mono_nofuel {A} R : mono R (fun _ => @RNoFuel A).
Proof. intros s. exact I. Qed.

(* ------------------------------------------------------------------ field updates *)
Lemma sframe_mem s h x : sext (st s) x -> sframe s (with_store (with_heap s h) x).
Proof. intros H. split; try reflexivity; sf_globals_same. exact H. Qed.
Lemma sframe_heap s h : sframe s (with_heap s h).
Proof. split; try reflexivity; sf_globals_same. apply sext_refl. Qed.
Lemma sframe_store s x : sext (st s) x -> sframe s (with_store s x).
Proof. intros H. split; try reflexivity; sf_globals_same. exact H. Qed.
(* GlobalEnvironment::get_binding of an unbound symbol: one fresh Undefined slot *)
Lemma sframe_new_global s b : sframe s (with_globals s (b :: g_bind s) (g_slots s ++ [VUndef])).
Proof.
  split; try reflexivity; [apply sext_refl|exists 1%nat; reflexivity|exists [b]; reflexivity].
Qed.

Lemma sext_new_str x t : sext x (snd (new_str x t)).
Proof. split; cbn; [lia|auto]. Qed.
Lemma sext_new_vec x t : sext x (snd (new_vec x t)).
Proof. split; cbn; [lia|auto]. Qed.
Lemma sext_new_env x t : sext x (snd (new_env x t)).
Proof. split; cbn; [lia|auto]. Qed.
Lemma sext_new_lam x t : sext x (snd (new_lam x t)).
Proof. split; cbn; [lia|auto]. Qed.
Lemma sext_new_macro x t : sext x (snd (new_macro x t)).
Proof. split; cbn; [lia|auto]. Qed.
Lemma sext_new_cont x k : sext x (snd (new_cont x k)).
Proof. split; cbn; [lia|]. intros j Hj. apply VmProofs0.tget_tset_other. lia. Qed.
Lemma sext_set_str x i t : sext x (set_str x i t).
Proof. split; cbn; [lia|auto]. Qed.
Lemma sext_set_vec x i t : sext x (set_vec x i t).
Proof. split; cbn; [lia|auto]. Qed.
Lemma sext_set_env x i t : sext x (set_env x i t).
Proof. split; cbn; [lia|auto]. Qed.

(* ------------------------------------------------------------------ primitives, any R *)
Section Prims.
Context (R : vm -> vm -> Prop) `{FR : Fr R}.

Ltac viapure L := apply (pure_mono R); apply L.

Lemma mono_hget p : mono R (hget p). Proof. viapure pure_hget. Qed.
Lemma mono_hderef v : mono R (hderef v). Proof. viapure pure_hderef. Qed.
Lemma mono_stack_get i : mono R (stack_get i). Proof. viapure pure_stack_get. Qed.
Lemma mono_stack_get_offset z : mono R (stack_get_offset z). Proof. viapure pure_stack_get_offset. Qed.
Lemma mono_as_ptr v : mono R (as_ptr v). Proof. viapure pure_as_ptr. Qed.
Lemma mono_as_argc v : mono R (as_argc v). Proof. viapure pure_as_argc. Qed.
Lemma mono_as_lexenv v : mono R (as_lexenv v). Proof. viapure pure_as_lexenv. Qed.
Lemma mono_as_lambda v : mono R (as_lambda v). Proof. viapure pure_as_lambda. Qed.
Lemma mono_get_lambda v : mono R (get_lambda v). Proof. viapure pure_get_lambda. Qed.
Lemma mono_usub a b : mono R (usub a b). Proof. viapure pure_usub. Qed.
Lemma mono_env_slots e : mono R (env_slots e). Proof. viapure pure_env_slots. Qed.
Lemma mono_env_get e i : mono R (env_get e i). Proof. viapure pure_env_get. Qed.

Lemma mono_str_get sid : mono R (str_get sid).
Proof. intros s. unfold str_get. destruct (tget _ _); [exact (fr_refl s)|exact I]. Qed.
Lemma mono_vec_get vid : mono R (vec_get vid).
Proof. intros s. unfold vec_get. destruct (tget _ _); [exact (fr_refl s)|exact I]. Qed.
Lemma mono_as_cell bn f v : mono R (as_cell bn f v).
Proof. intros s. unfold as_cell. apply (mono_lift R). Qed.
Lemma mono_to_cell v : mono R (to_cell v).
Proof. intros s. unfold to_cell. apply mono_as_cell. Qed.
Lemma mono_cur_lambda : mono R cur_lambda.
Proof.
  intros s. unfold cur_lambda. destruct (heap_get _ _) as [[]| | |]; try exact I; try exact (fr_refl s).
  apply mono_get_lambda.
Qed.

Lemma mono_hset p v : mono R (hset p v).
Proof.
  intros s. unfold hset. destruct (heap_set _ _ _); try exact I; [|exact (fr_refl s)].
  unfold rpost; apply fr_sub, sframe_heap.
Qed.
Lemma mono_hput v : mono R (hput v).
Proof. intros s. unfold hput. destruct (heap_put _ _). unfold rpost; apply fr_sub, sframe_heap. Qed.
Lemma mono_hmaybe_put v : mono R (hmaybe_put v).
Proof. intros s. unfold hmaybe_put. destruct (heap_maybe_put _ _). unfold rpost; apply fr_sub, sframe_heap. Qed.
Lemma mono_str_set i t : mono R (str_set i t).
Proof. intros s. unfold rpost; apply fr_sub, sframe_store, sext_set_str. Qed.
Lemma mono_vec_set i t : mono R (vec_set i t).
Proof. intros s. unfold rpost; apply fr_sub, sframe_store, sext_set_vec. Qed.
Lemma mono_str_new t : mono R (str_new t).
Proof. intros s. unfold rpost; apply fr_sub, sframe_store, sext_new_str. Qed.
Lemma mono_vec_new t : mono R (vec_new t).
Proof. intros s. unfold rpost; apply fr_sub, sframe_store, sext_new_vec. Qed.
Lemma mono_env_new t : mono R (env_new t).
Proof. intros s. unfold rpost; apply fr_sub, sframe_store, sext_new_env. Qed.
Lemma mono_to_continuation : mono R to_continuation.
Proof. intros s. unfold rpost; apply fr_sub, sframe_store, sext_new_cont. Qed.
Lemma mono_env_put e i v : mono R (env_put e i v).
Proof.
  unfold env_put. apply (mono_bind R); [apply mono_env_slots|]. intros l.
  destruct (i <? len l); [|apply mono_panic]. intros s. unfold rpost; apply fr_sub, sframe_store, sext_set_env.
Qed.
Lemma mono_get_binding p : mono R (get_binding p).
Proof.
  intros s. unfold get_binding. destruct (assoc_find _ _); [exact (fr_refl s)|].
  unfold rpost; apply fr_sub, sframe_new_global.
Qed.
Lemma mono_put_lambda l : mono R (put_lambda l).
Proof.
  intros s. unfold put_lambda. cbv beta iota delta [new_lam]. destruct (heap_put _ _). unfold rpost.
  apply fr_sub, sframe_mem. exact (sext_new_lam (st s) (lambda_finish l)).
Qed.
End Prims.

(* ------------------------------------------------------------------ primitives, kmono only *)
Lemma kmono_regs s s' : scap s <= scap s' -> st s' = st s -> kmono s s'.
Proof. intros H E. split; [exact H|rewrite E; apply sext_refl]. Qed.

Lemma mono_push v : mono kmono (push v).
Proof.
  intros s. unfold push, rpost. unfold rpost; apply kmono_regs; [|reflexivity]. cbn [scap with_scap].
  destruct (sp s + 1 <? scap s); lia.
Qed.
Lemma mono_pop_raw : mono kmono pop_raw.
Proof.
  intros s. unfold pop_raw. destruct (sp s =? 0); [unfold rpost; apply kmono_refl|].
  destruct (sp s <? scap s); unfold rpost; apply kmono_regs; cbn; try reflexivity; lia.
Qed.
Lemma mono_stack_put i v : mono kmono (stack_put i v).
Proof.
  intros s. unfold stack_put. destruct (i <? scap s); [|unfold rpost; apply kmono_refl].
  unfold rpost; apply kmono_regs; cbn; try reflexivity; lia.
Qed.
Lemma mono_stack_put_offset z v : mono kmono (stack_put_offset z v).
Proof.
  intros s. unfold stack_put_offset. destruct (_ <? 0)%Z; [unfold rpost; apply kmono_refl|apply mono_stack_put].
Qed.
Lemma mono_set_ip i : mono kmono (set_ip i).
Proof. intros s. unfold rpost; apply kmono_regs; cbn; try reflexivity; lia. Qed.
Lemma mono_set_acc i : mono kmono (set_acc i).
Proof. intros s. unfold rpost; apply kmono_regs; cbn; try reflexivity; lia. Qed.
Lemma mono_set_bp i : mono kmono (set_bp i).
Proof. intros s. unfold rpost; apply kmono_regs; cbn; try reflexivity; lia. Qed.
Lemma mono_set_ep i : mono kmono (set_ep i).
Proof. intros s. unfold rpost; apply kmono_regs; cbn; try reflexivity; lia. Qed.
Lemma mono_set_sp i : mono kmono (set_sp i).
Proof. intros s. unfold rpost; apply kmono_regs; cbn; try reflexivity; lia. Qed.
Lemma mono_dec_ip : mono kmono dec_ip.
Proof.
  intros s. unfold dec_ip. destruct (snd (ip s) =? 0); [exact I|].
  unfold rpost; apply kmono_regs; cbn; try reflexivity; lia.
Qed.
(* invoking a continuation restores slots, sp, bp, ep, ip: the capacity is NOT touched (the
   model panics — as split_at_mut would — if the saved stack were longer than the vector) *)
Lemma mono_restore_continuation cid : mono kmono (restore_continuation cid).
Proof.
  intros s. unfold restore_continuation. destruct (tget _ _); [|exact I].
  destruct (scap s <? _); [exact I|]. unfold rpost; apply kmono_regs; cbn; try reflexivity; lia.
Qed.
Lemma mono_set_globals (b : vm -> list (N * N)) (l : vm -> list vcell) :
  mono kmono (fun s => ROk tt (with_globals s (b s) (l s))).
Proof. intros s. unfold rpost; apply kmono_regs; cbn; try reflexivity; lia. Qed.
Lemma mono_log (f : vm -> list outev) (v : vcell) : mono kmono (fun s => ROk v (with_log s (f s))).
Proof. intros s. unfold rpost; apply kmono_regs; cbn; try reflexivity; lia. Qed.

(* ------------------------------------------------------------------ the tactic *)
Create HintDb mono discriminated.
#[export] Hint Resolve Fr_sframe Fr_kmono : mono.

Ltac mhead t := lazymatch t with ?f _ => mhead f | _ => t end.
Ltac mprim :=
  lazymatch goal with
  | |- mono _ (ret _) => apply mono_ret
  | |- mono _ (fail _) => apply mono_fail
  | |- mono _ (fail_msg _ _) => apply mono_fail_msg
  | |- mono _ (panic _) => apply mono_panic
  | |- mono _ (lift _) => apply mono_lift
  | |- mono _ get_vm => apply mono_get_vm
  | |- mono _ (hget _) => apply mono_hget
  | |- mono _ (hderef _) => apply mono_hderef
  | |- mono _ (stack_get _) => apply mono_stack_get
  | |- mono _ (stack_get_offset _) => apply mono_stack_get_offset
  | |- mono _ (as_ptr _) => apply mono_as_ptr
  | |- mono _ (as_argc _) => apply mono_as_argc
  | |- mono _ (as_lexenv _) => apply mono_as_lexenv
  | |- mono _ (as_lambda _) => apply mono_as_lambda
  | |- mono _ (get_lambda _) => apply mono_get_lambda
  | |- mono _ (usub _ _) => apply mono_usub
  | |- mono _ (env_slots _) => apply mono_env_slots
  | |- mono _ (env_get _ _) => apply mono_env_get
  | |- mono _ (str_get _) => apply mono_str_get
  | |- mono _ (vec_get _) => apply mono_vec_get
  | |- mono _ (as_cell _ _ _) => apply mono_as_cell
  | |- mono _ (to_cell _) => apply mono_to_cell
  | |- mono _ cur_lambda => apply mono_cur_lambda
  | |- mono _ (hset _ _) => apply mono_hset
  | |- mono _ (hput _) => apply mono_hput
  | |- mono _ (hmaybe_put _) => apply mono_hmaybe_put
  | |- mono _ (str_set _ _) => apply mono_str_set
  | |- mono _ (vec_set _ _) => apply mono_vec_set
  | |- mono _ (str_new _) => apply mono_str_new
  | |- mono _ (vec_new _) => apply mono_vec_new
  | |- mono _ (env_new _) => apply mono_env_new
  | |- mono _ to_continuation => apply mono_to_continuation
  | |- mono _ (env_put _ _ _) => apply mono_env_put
  | |- mono _ (get_binding _) => apply mono_get_binding
  | |- mono _ (put_lambda _) => apply mono_put_lambda
  | |- mono _ (push _) => apply mono_push
  | |- mono _ pop_raw => apply mono_pop_raw
  | |- mono _ (stack_put _ _) => apply mono_stack_put
  | |- mono _ (stack_put_offset _ _) => apply mono_stack_put_offset
  | |- mono _ (set_ip _) => apply mono_set_ip
  | |- mono _ (set_acc _) => apply mono_set_acc
  | |- mono _ (set_bp _) => apply mono_set_bp
  | |- mono _ (set_ep _) => apply mono_set_ep
  | |- mono _ (set_sp _) => apply mono_set_sp
  | |- mono _ dec_ip => apply mono_dec_ip
  | |- mono _ (restore_continuation _) => apply mono_restore_continuation
  | |- mono _ (fun _ => RNoFuel) => apply mono_nofuel
  end.

Ltac mgo :=
  lazymatch goal with
  | |- Fr _ => exact _
  | |- forall _, _ => intro; cbv beta; mgo
  | |- mono _ (bindM _ _) => apply mono_bind; mgo
  | |- mono _ (match ?x with _ => _ end) => destruct x; mgo
  | |- mono _ (let _ := _ in _) => cbv zeta; mgo
  | |- mono _ _ =>
      first [ mprim; try exact _
            | solve [auto with mono]
            | lazymatch goal with |- mono _ ?m => let h := mhead m in unfold h end; cbv beta; mgo ]
  end.

(* derived operations *)
Section Derived.
Context (R : vm -> vm -> Prop) `{FR : Fr R}.
Lemma mono_read_opcode_k : mono kmono read_opcode. Proof. mgo. Qed.
Lemma mono_read_operand_k : mono kmono read_operand. Proof. mgo. Qed.
Lemma mono_load_lex_slot k : mono R (load_lex_slot k). Proof. mgo. Qed.
Lemma mono_store_lex_slot k v : mono R (store_lex_slot k v). Proof. mgo. Qed.
Lemma mono_load_arg i : mono R (load_arg i). Proof. mgo. Qed.
End Derived.
Lemma mono_pop_deref : mono kmono pop_deref. Proof. mgo. Qed.
Lemma mono_pop_argc a b : mono kmono (pop_argc a b). Proof. mgo. Qed.
Lemma mono_pop_value : mono kmono pop_value. Proof. mgo. Qed.
#[export] Hint Resolve mono_load_lex_slot mono_store_lex_slot mono_load_arg mono_pop_deref mono_pop_argc
  mono_pop_value mono_read_opcode_k mono_read_operand_k : mono.
