(* Closures3.v — C01: the fragment extended with CLOSURES AS VALUES.

     e ::= c | (quote d) | (if e e e) | (if e e) | x | (define x e) | (set! x e)     (x global in define/set!)
         | (lambda (x1 ... xn) body)        in ANY expression position; body: one expression of the fragment
         | (e0 e1 ... en)                   e0 evaluates to a builtin procedure or to a closure

   A variable is a parameter of an enclosing lambda (captured by the inner lambdas that mention
   it) or a global.  How marwood compiles this (compile.rs:424-460, environment.rs:94-125,
   run.rs:518-578): the environment map of a lambda is its own parameters followed by those FREE
   SYMBOLS of the lambda expression (the compiler's analysis, environment.rs:355-451) that the
   environment map of the enclosing lambda binds; CLOSURE builds a closure environment whose
   captured slots are POINTERS (environment address, slot) to the slot of the activation
   environment that owns the variable (an existing pointer is copied: at most one indirection);
   ENTER copies the arguments and those pointers into a new activation environment; a variable
   reference is MOV (lexical slot i) %acc, which follows at most one pointer.

   This file: the syntax [expr3], the values [rval3] (data, builtins, closures = parameters,
   captured names, body, captured values), the reference semantics [ref_eval3], the
   representation relation [vrep3] and its stability, the static context [hdr3].
   The compile-time theorem is in Proofs/CompileStatic3.v, the exec lemmas of the basic forms in
   Proofs/CompileCorrect3.v, the run-time theorem (by induction on the reference derivation),
   Vm::eval and the examples in Proofs/EvalFragment3.v.                                        *)
From Coq Require Import String Lia FMapPositive.
From MW Require Import Model.Base Model.F64 Model.Num Model.Datum Model.TransformDef Model.Transform
  Model.VmTypes Model.Heap Model.Gc Model.VmBase Model.Compile Model.Vm
  Proofs.VmProofs0 Proofs.GcProofs Proofs.SymtabProofs Proofs.QuoteHeapProofs
  Proofs.CompileProofs Proofs.RunProofs Proofs.CompileCorrect Proofs.TailProofs Proofs.FrameSteps
  Proofs.CellFuelProofs Proofs.CompileCorrect2.
From MW Require Proofs.ScopeProofs.
Open Scope N_scope.

Arguments N.add : simpl never.
Arguments N.sub : simpl never.
Arguments N.mul : simpl never.
Arguments N.eqb : simpl never.
Arguments N.ltb : simpl never.
Arguments N.leb : simpl never.

(* ============================================================ syntax *)
(* [YLam ps fs body]: fs is an ANNOTATION, the list of free symbols the compiler's analysis
   reports for the lambda expression ([wf3] demands exactly that); it does not occur in the datum *)
Inductive expr3 :=
| YConst (c : cell)
| YQuote (d : cell)
| YIf (c a b : expr3)
| YIf1 (c a : expr3)
| YVar (x : text)
| YDefine (x : text) (e : expr3)
| YSet (x : text) (e : expr3)
| YApp (f : expr3) (args : list expr3)
| YLam (ps fs : list text) (body : expr3).

Fixpoint cell_of3 (e : expr3) : cell :=
  match e with
  | YConst c => c
  | YQuote d => quote_of d
  | YIf c a b => CPair IF_ (CPair (cell_of3 c) (CPair (cell_of3 a) (CPair (cell_of3 b) CNil)))
  | YIf1 c a => CPair IF_ (CPair (cell_of3 c) (CPair (cell_of3 a) CNil))
  | YVar x => CSym x
  | YDefine x e => CPair DEFINE_ (CPair (CSym x) (CPair (cell_of3 e) CNil))
  | YSet x e => CPair SET_ (CPair (CSym x) (CPair (cell_of3 e) CNil))
  | YApp f args => CPair (cell_of3 f) (fold_right CPair CNil (map cell_of3 args))
  | YLam ps fs body => lam_cell ps (cell_of3 body)
  end.

Definition is_define3 (e : expr3) : bool := match e with YDefine _ _ => true | _ => false end.

Definition bound_in (sc : list text) (x : text) : bool :=
  match pindex x sc with Some _ => true | None => false end.
(* the captured variables of a lambda with free symbols fs inside the scope sc, in the order
   of the environment map *)
Definition capnames (sc fs : list text) : list text := filter (bound_in sc) fs.

(* every variable name mentioned in e (also under nested lambdas) *)
Fixpoint allvars3 (e : expr3) : list text :=
  match e with
  | YConst _ | YQuote _ => []
  | YIf c a b => allvars3 c ++ allvars3 a ++ allvars3 b
  | YIf1 c a => allvars3 c ++ allvars3 a
  | YVar x => [x]
  | YDefine x e | YSet x e => x :: allvars3 e
  | YApp f args => allvars3 f ++ flat_map allvars3 args
  | YLam _ _ body => allvars3 body
  end.

(* [wf3 e sc]: e is well formed inside a lambda whose environment map binds the names sc.
   For a lambda: the annotation is the compiler's free-symbol list, and it COVERS every
   variable of the body that the scope binds (so that the restriction of the environment to
   the captured names agrees with ordinary lexical scoping). *)
Fixpoint wf3 (e : expr3) (sc : list text) {struct e} : Prop :=
  match e with
  | YConst c => self_eval c = true /\ heap_datum c
  | YQuote d => heap_datum d
  | YIf c a b => wf3 c sc /\ wf3 a sc /\ wf3 b sc
  | YIf1 c a => wf3 c sc /\ wf3 a sc
  | YVar x => is_primitive_symbol (CSym x) = false
  | YDefine x e | YSet x e => is_primitive_symbol (CSym x) = false /\ pindex x sc = None /\ wf3 e sc
  | YApp f args => special_head (cell_of3 f) = false /\ wf3 f sc /\
                   (fix all (l : list expr3) : Prop := match l with [] => True | x :: r => wf3 x sc /\ all r end) args
  | YLam ps fs body =>
      (forall x, In x ps -> is_primitive_symbol (CSym x) = false) /\ is_define3 body = false /\
      free_symbols (lam_cell ps (cell_of3 body)) = Ok (map CSym fs) /\
      (forall x, In x (allvars3 body) -> In x ps \/ bound_in sc x = false \/ In x fs) /\
      wf3 body (ps ++ capnames sc fs)
  end.

Lemma wf3_all sc args :
  (fix all (l : list expr3) : Prop := match l with [] => True | x :: r => wf3 x sc /\ all r end) args
  <-> Forall (fun x => wf3 x sc) args.
Proof.
  induction args as [|x r IH]; [split; constructor|]. split.
  - intros [A B]. constructor; [exact A|apply IH; exact B].
  - intros H. inversion H; subst. split; [assumption|apply IH; assumption].
Qed.
Lemma wf3_app sc f args : wf3 (YApp f args) sc <->
  special_head (cell_of3 f) = false /\ wf3 f sc /\ Forall (fun x => wf3 x sc) args.
Proof. cbn [wf3]. rewrite wf3_all. reflexivity. Qed.

Section expr3_ind2.
Variable P : expr3 -> Prop.
Hypothesis Hconst : forall c, P (YConst c).
Hypothesis Hquote : forall d, P (YQuote d).
Hypothesis Hif : forall c a b, P c -> P a -> P b -> P (YIf c a b).
Hypothesis Hif1 : forall c a, P c -> P a -> P (YIf1 c a).
Hypothesis Hvar : forall x, P (YVar x).
Hypothesis Hdef : forall x e, P e -> P (YDefine x e).
Hypothesis Hset : forall x e, P e -> P (YSet x e).
Hypothesis Happ : forall f args, P f -> Forall P args -> P (YApp f args).
Hypothesis Hlam : forall ps fs body, P body -> P (YLam ps fs body).
Fixpoint expr3_ind2 (e : expr3) : P e :=
  match e with
  | YConst c => Hconst c
  | YQuote d => Hquote d
  | YIf c a b => Hif c a b (expr3_ind2 c) (expr3_ind2 a) (expr3_ind2 b)
  | YIf1 c a => Hif1 c a (expr3_ind2 c) (expr3_ind2 a)
  | YVar x => Hvar x
  | YDefine x e => Hdef x e (expr3_ind2 e)
  | YSet x e => Hset x e (expr3_ind2 e)
  | YApp f args => Happ f args (expr3_ind2 f)
      ((fix go (l : list expr3) : Forall P l :=
          match l with [] => Forall_nil P | x :: r => Forall_cons x (expr3_ind2 x) (go r) end) args)
  | YLam ps fs body => Hlam ps fs body (expr3_ind2 body)
  end.
End expr3_ind2.

(* ============================================================ values *)
(* a closure: parameters, captured names, body, the values of the captured variables *)
Inductive rval3 :=
| R3Base (r : rval)
| R3Clo (ps cs : list text) (body : expr3) (cvals : list rval3).

Section rval3_ind2.
Variable P : rval3 -> Prop.
Hypothesis Hbase : forall r, P (R3Base r).
Hypothesis Hclo : forall ps cs body cvals, Forall P cvals -> P (R3Clo ps cs body cvals).
Fixpoint rval3_ind2 (r : rval3) : P r :=
  match r with
  | R3Base b => Hbase b
  | R3Clo ps cs body cvals => Hclo ps cs body cvals
      ((fix go (l : list rval3) : Forall P l :=
          match l with [] => Forall_nil P | x :: t => Forall_cons x (rval3_ind2 x) (go t) end) cvals)
  end.
End rval3_ind2.

Definition rcell3 (r : rval3) : cell :=
  match r with R3Base b => rcell b | R3Clo ps _ _ _ => CProc None end.
Definition is_false3 (r : rval3) : bool := match r with R3Base b => is_false b | _ => false end.

Definition env3 := text -> option rval3.
Definition upd3 (rho : env3) (x : text) (r : rval3) : env3 :=
  fun y => if text_eqb y x then Some r else rho y.
Definition rho3_empty : env3 := fun _ => None.

(* ============================================================ reference semantics *)
Section Sem3.
Variable bsem : N -> list rval -> option rval.

(* [ref_eval3 sc lv rho e r rho']: inside a lambda whose environment binds the names sc to the
   values lv (top level: both empty), with the global environment rho, e has the value r and
   leaves the global environment rho'.  Call by value, operands left to right, then the operator,
   then the body of the closure with its parameters bound to the operands and its captured names
   to the captured values.  Local variables are immutable (set! acts on globals only), so a
   captured variable is represented by its value. *)
Inductive ref_eval3 : list text -> list rval3 -> env3 -> expr3 -> rval3 -> env3 -> Prop :=
| R3_const sc lv rho c : ref_eval3 sc lv rho (YConst c) (R3Base (RDatum c)) rho
| R3_quote sc lv rho d : ref_eval3 sc lv rho (YQuote d) (R3Base (RDatum d)) rho
| R3_local sc lv rho x i r : pindex x sc = Some i -> nth_error lv (N.to_nat i) = Some r ->
    ref_eval3 sc lv rho (YVar x) r rho
| R3_global sc lv rho x r : pindex x sc = None -> rho x = Some r -> r <> R3Base (RDatum CUndef) ->
    ref_eval3 sc lv rho (YVar x) r rho
| R3_if_t sc lv rho c a b rc rho1 r rho2 :
    ref_eval3 sc lv rho c rc rho1 -> is_false3 rc = false -> ref_eval3 sc lv rho1 a r rho2 ->
    ref_eval3 sc lv rho (YIf c a b) r rho2
| R3_if_f sc lv rho c a b rc rho1 r rho2 :
    ref_eval3 sc lv rho c rc rho1 -> is_false3 rc = true -> ref_eval3 sc lv rho1 b r rho2 ->
    ref_eval3 sc lv rho (YIf c a b) r rho2
| R3_if1_t sc lv rho c a rc rho1 r rho2 :
    ref_eval3 sc lv rho c rc rho1 -> is_false3 rc = false -> ref_eval3 sc lv rho1 a r rho2 ->
    ref_eval3 sc lv rho (YIf1 c a) r rho2
| R3_if1_f sc lv rho c a rc rho1 :
    ref_eval3 sc lv rho c rc rho1 -> is_false3 rc = true ->
    ref_eval3 sc lv rho (YIf1 c a) (R3Base (RDatum CVoid)) rho1
| R3_define sc lv rho x e r rho1 :
    ref_eval3 sc lv rho e r rho1 -> ref_eval3 sc lv rho (YDefine x e) (R3Base (RDatum CVoid)) (upd3 rho1 x r)
| R3_set sc lv rho x e r rho1 old :
    ref_eval3 sc lv rho e r rho1 -> rho1 x = Some old ->
    ref_eval3 sc lv rho (YSet x e) (R3Base (RDatum CVoid)) (upd3 rho1 x r)
| R3_lam sc lv rho ps fs body cvals :
    Forall2 (fun x v => exists i, pindex x sc = Some i /\ nth_error lv (N.to_nat i) = Some v)
            (capnames sc fs) cvals ->
    ref_eval3 sc lv rho (YLam ps fs body) (R3Clo ps (capnames sc fs) body cvals) rho
| R3_app_builtin sc lv rho f args rbs rho1 b rho2 r :
    ref_evals3 sc lv rho args (map R3Base rbs) rho1 -> ref_eval3 sc lv rho1 f (R3Base (RBuiltin b)) rho2 ->
    bsem b rbs = Some r ->
    ref_eval3 sc lv rho (YApp f args) (R3Base r) rho2
| R3_app_closure sc lv rho f args rs rho1 ps cs body cvals rho2 r rho3 :
    ref_evals3 sc lv rho args rs rho1 -> ref_eval3 sc lv rho1 f (R3Clo ps cs body cvals) rho2 ->
    length rs = length ps ->
    ref_eval3 (ps ++ cs) (rs ++ cvals) rho2 body r rho3 ->
    ref_eval3 sc lv rho (YApp f args) r rho3
with ref_evals3 : list text -> list rval3 -> env3 -> list expr3 -> list rval3 -> env3 -> Prop :=
| R3_nil sc lv rho : ref_evals3 sc lv rho [] [] rho
| R3_cons sc lv rho x r rho1 xs rs rho2 :
    ref_eval3 sc lv rho x r rho1 -> ref_evals3 sc lv rho1 xs rs rho2 ->
    ref_evals3 sc lv rho (x :: xs) (r :: rs) rho2.

Scheme ref_eval3_mut := Induction for ref_eval3 Sort Prop
  with ref_evals3_mut := Induction for ref_evals3 Sort Prop.
Scheme ref_eval3_min := Minimality for ref_eval3 Sort Prop
  with ref_evals3_min := Minimality for ref_evals3 Sort Prop.
End Sem3.

(* ============================================================ static context *)
(* the lambda under construction: its environment map is its own parameters followed by
   captured entries; the names the map binds, in slot order, are sc *)
Definition hdr3 (l : lambda) (sc : list text) (s : vm) : Prop :=
  exists ps cs caps, sc = ps ++ cs /\ l_envmap l = ScopeProofs.enum_args (l_args l) 0 ++ caps /\
    Forall2 (pname s) (l_args l) ps /\ Forall2 (pname s) (map fst caps) cs.

Lemma hdr3_ext l sc s s' : cext s s' -> hdr3 l sc s -> hdr3 l sc s'.
Proof.
  intros X (ps & cs & caps & E & M & F1 & F2). exists ps, cs, caps.
  split; [exact E|]. split; [exact M|]. split; eapply pnames_ext; eassumption.
Qed.
Lemma hdr3_same l l' sc s : same_hdr l l' -> hdr3 l sc s -> hdr3 l' sc s.
Proof.
  intros (_ & _ & E & A & _) (ps & cs & caps & E1 & M & F1 & F2). exists ps, cs, caps.
  rewrite E, A. auto.
Qed.
Lemma top_hdr_hdr3 l s : top_hdr l -> hdr3 l [] s.
Proof.
  intros [E A]. exists [], [], []. rewrite E, A. split; [reflexivity|]. split; [reflexivity|]. split; constructor.
Qed.

Lemma Forall2_app_pname s a1 a2 p1 p2 : Forall2 (pname s) a1 p1 -> Forall2 (pname s) a2 p2 ->
  Forall2 (pname s) (a1 ++ a2) (p1 ++ p2).
Proof. intros H1 H2. induction H1; cbn [app]; [exact H2|constructor; assumption]. Qed.

Lemma hdr3_slot l sc s a x : hdr3 l sc s -> heap_inv (hp s) ->
  allocated (hp s) a -> cell_at (hp s) a = VSym x ->
  envmap_slot (l_envmap l) (VPtr a) = pindex x sc.
Proof.
  intros (ps & cs & caps & -> & M & F1 & F2) HI A C.
  rewrite ScopeProofs.envmap_slot_fidx, ScopeProofs.fidx_is_sym_fst, M, map_app, ScopeProofs.enum_args_fst.
  apply (fidx_names s _ _ a x HI (Forall2_app_pname _ _ _ _ _ F1 F2) A C).
Qed.

Lemma pindex_app_none x ps cs : pindex x (ps ++ cs) = None -> pindex x ps = None.
Proof.
  unfold pindex. rewrite ScopeProofs.fidx_app. destruct (ScopeProofs.fidx _ ps); [discriminate|reflexivity].
Qed.

Lemma location_local3 l sc s a x i : hdr3 l sc s -> heap_inv (hp s) ->
  allocated (hp s) a -> cell_at (hp s) a = VSym x -> pindex x sc = Some i ->
  location_operand l (VPtr a) s = ROk (VLexSlot i) s.
Proof.
  intros Hh HI A C Hi. unfold location_operand, binding_location.
  rewrite (hdr3_slot l sc s a x Hh HI A C), Hi. reflexivity.
Qed.
Lemma location_global3 l sc s a x : hdr3 l sc s -> heap_inv (hp s) ->
  allocated (hp s) a -> cell_at (hp s) a = VSym x -> pindex x sc = None ->
  location_operand l (VPtr a) s = (dom slot <- get_binding a; ret (VGSlot slot)) s.
Proof.
  intros Hh HI A C Hi. unfold location_operand, binding_location.
  rewrite (hdr3_slot l sc s a x Hh HI A C), Hi.
  destruct Hh as (ps & cs & caps & -> & M & F1 & F2).
  change (find_index (fun a0 => vptr_eqb a0 (VPtr a)) (l_args l) 0)
    with (ScopeProofs.fidx (ScopeProofs.sym_is (VPtr a)) (l_args l)).
  rewrite (fidx_names s _ ps a x HI F1 A C), (pindex_app_none _ _ _ Hi). reflexivity.
Qed.

(* ============================================================ representation of values *)
Section AllIdx.
Context {A : Type} (P : N -> A -> Prop).
Fixpoint all_idx (l : list A) (i : N) {struct l} : Prop :=
  match l with [] => True | x :: r => P i x /\ all_idx r (i + 1) end.
End AllIdx.
Lemma all_idx_nth {A} (P : N -> A -> Prop) l : forall i,
  all_idx P l i <-> forall k x, nth_error l k = Some x -> P (i + N.of_nat k) x.
Proof.
  induction l as [|y l IH]; intros i; cbn [all_idx].
  - split; [intros _ k x H; destruct k; discriminate|auto].
  - rewrite IH. split.
    + intros [H0 Hr] k x Hk. destruct k as [|k]; cbn [nth_error] in Hk.
      * injection Hk as <-. replace (i + N.of_nat 0) with i by lia. exact H0.
      * replace (i + N.of_nat (S k)) with (i + 1 + N.of_nat k) by lia. apply Hr. exact Hk.
    + intros H. split.
      * replace i with (i + N.of_nat 0) by lia. apply H. reflexivity.
      * intros k x Hk. replace (i + 1 + N.of_nat k) with (i + N.of_nat (S k)) by lia. apply H. exact Hk.
Qed.

(* a slot value that is a pointer to a direct slot (heap address of the environment, index)
   whose content satisfies P *)
Definition ptr_slot (m : vm) (v : vcell) (P : vcell -> Prop) : Prop :=
  exists a j eid sl w, v = VLexPtr a j /\ allocated (hp m) a /\ cell_at (hp m) a = VLexEnv eid /\
    eid < next_id (st m) /\ tget (envs (st m)) eid = Some sl /\ list_get sl j = Some w /\
    (forall e i, w <> VLexPtr e i) /\ P w.

(* the code object of a closure: a lambda with parameters ps and captured entries for cs whose
   bytecode is ENTER; cb; RET where cb is what compile_expression emitted for the body in tail
   position, under a header binding ps ++ cs, in some earlier state s0' that m extends *)
Definition closure_code (m : vm) (lamp : N) (ps cs : list text) (body : expr3) : Prop :=
  exists lam caps cb f lam2 s0 lam3 s0',
    lam_in m lamp lam /\ l_envmap lam = ScopeProofs.enum_args (l_args lam) 0 ++ caps /\
    Forall2 (pname m) (l_args lam) ps /\
    Forall (fun e => exists k, snd e = BIofEnvironment k) caps /\ length caps = length cs /\
    l_bc lam = [VOp OEnter] ++ cb ++ [VOp ORet] /\
    (cell_size (cell_of3 body) < f)%nat /\ wf3 body (ps ++ cs) /\ hdr3 lam2 (ps ++ cs) s0 /\ minv s0 /\
    compile_expression f lam2 true (cell_of3 body) s0 = ROk lam3 s0' /\
    fwd lam2 = [VOp OEnter] /\ fwd lam3 = fwd lam2 ++ cb /\ cext s0' m.

Fixpoint vrep3 (m : vm) (v : vcell) (r : rval3) {struct r} : Prop :=
  match r with
  | R3Base b => vrep v b (hp m) (st m)
  | R3Clo ps cs body cvals =>
      exists cp lamp cep ceid cslots, v = VPtr cp /\
        allocated (hp m) cp /\ cell_at (hp m) cp = VClosure lamp cep /\
        allocated (hp m) cep /\ cell_at (hp m) cep = VLexEnv ceid /\ ceid < next_id (st m) /\
        tget (envs (st m)) ceid = Some cslots /\ len cslots = len ps + len cs /\
        length cvals = length cs /\ closure_code m lamp ps cs body /\
        all_idx (fun i cv => exists v', list_get cslots i = Some v' /\ ptr_slot m v' (fun w => vrep3 m w cv))
                cvals (len ps)
  end.

Lemma closure_code_ext m m' lamp ps cs body : cext m m' -> closure_code m lamp ps cs body ->
  closure_code m' lamp ps cs body.
Proof.
  intros X (lam & caps & cb & f & lam2 & s0 & lam3 & s0' & H1 & H2 & H3 & H4 & H5 & H6 & H7 & H8 & H9 & H10 & H11 & H12 & H13 & H14).
  exists lam, caps, cb, f, lam2, s0, lam3, s0'.
  split; [eapply lam_in_ext; eassumption|]. split; [exact H2|]. split; [eapply pnames_ext; eassumption|].
  do 10 (split; [assumption|]). eapply cext_trans; eassumption.
Qed.

Lemma ptr_slot_ext m m' v (P Q : vcell -> Prop) : rext m m' -> (forall w, P w -> Q w) ->
  ptr_slot m v P -> ptr_slot m' v Q.
Proof.
  intros [X E] HPQ (a & j & eid & sl & w & -> & A & C & Lt & T & G & Hw & Pw).
  destruct (ce_heap _ _ X a A) as [A' C'].
  exists a, j, eid, sl, w. split; [reflexivity|]. split; [exact A'|]. split; [congruence|].
  split; [destruct (ce_store _ _ X); lia|]. split; [rewrite E; assumption|]. split; [exact G|]. split; [exact Hw|auto].
Qed.

Lemma vrep3_ext m m' : rext m m' -> forall r v, vrep3 m v r -> vrep3 m' v r.
Proof.
  intros R. induction r as [b|ps cs body cvals IH] using rval3_ind2; intros v H.
  - cbn [vrep3] in *. eapply vrep_ext; [exact H|apply cext_ext, R].
  - cbn [vrep3] in *.
    destruct H as (cp & lamp & cep & ceid & cslots & -> & A1 & C1 & A2 & C2 & Lt & T & L & Lc & CC & All).
    pose proof (rx_cext _ _ R) as X.
    destruct (ce_heap _ _ X cp A1) as [A1' C1']. destruct (ce_heap _ _ X cep A2) as [A2' C2'].
    exists cp, lamp, cep, ceid, cslots. split; [reflexivity|]. split; [exact A1'|]. split; [congruence|].
    split; [exact A2'|]. split; [congruence|]. split; [destruct (ce_store _ _ X); lia|].
    split; [rewrite (rx_envs _ _ R) by exact Lt; exact T|]. split; [exact L|]. split; [exact Lc|].
    split; [eapply closure_code_ext; eassumption|].
    rewrite all_idx_nth in *. intros k cv Hk. destruct (All k cv Hk) as (v' & G & PS).
    exists v'. split; [exact G|]. eapply ptr_slot_ext; [exact R| |exact PS].
    intros w Hw. rewrite Forall_forall in IH. apply IH; [eapply nth_error_In; exact Hk|exact Hw].
Qed.

Lemma vrep3_truth m v r : vrep3 m v r ->
  exists w, heap_deref (hp m) v = Ok w /\ (w = VBool false <-> is_false3 r = true).
Proof.
  destruct r as [b|ps cs body cvals]; cbn [vrep3 is_false3].
  - apply vrep_truth.
  - intros (cp & lamp & cep & ceid & cslots & -> & A1 & C1 & _).
    exists (VClosure lamp cep). cbn [heap_deref]. rewrite (heap_get_alloc _ _ A1), C1.
    split; [reflexivity|]. split; discriminate.
Qed.
Lemma vrep3_not_op m v r : vrep3 m v r -> forall o, v <> VOp o.
Proof.
  destruct r as [b|ps cs body cvals]; cbn [vrep3].
  - apply vrep_not_op.
  - intros (cp & lamp & cep & ceid & cslots & -> & _) o. discriminate.
Qed.
Lemma vrep3_not_undef m v r : vrep3 m v r -> r <> R3Base (RDatum CUndef) -> v <> VUndef.
Proof.
  destruct r as [b|ps cs body cvals]; cbn [vrep3].
  - intros H Hr. eapply vrep_not_undef; [exact H|]. intros ->. apply Hr. reflexivity.
  - intros (cp & lamp & cep & ceid & cslots & -> & _) _. discriminate.
Qed.
Lemma vrep3_not_lexptr m v r : vrep3 m v r -> forall e j, v <> VLexPtr e j.
Proof.
  destruct r as [b|ps cs body cvals]; cbn [vrep3].
  - apply vrep_not_lexptr.
  - intros (cp & lamp & cep & ceid & cslots & -> & _) e j. discriminate.
Qed.

(* ============================================================ dynamic context *)
Definition genv_rel3 (rho : env3) (m : vm) : Prop :=
  forall x r, rho x = Some r -> exists a k v,
    allocated (hp m) a /\ cell_at (hp m) a = VSym x /\ assoc_find (g_bind m) a = Some k /\
    list_get (g_slots m) k = Some v /\ vrep3 m v r.

Lemma genv_rel3_ext rho m m' : rext m m' -> g_slots m' = g_slots m -> genv_rel3 rho m -> genv_rel3 rho m'.
Proof.
  intros R Eg G x r Hx. destruct (G x r Hx) as (a & k & v & A & C & B & L & V).
  pose proof (rx_cext _ _ R) as X. destruct (ce_heap _ _ X a A) as [A' C'].
  exists a, k, v. split; [exact A'|]. split; [congruence|]. split; [apply (ce_bind _ _ X); exact B|].
  split; [rewrite Eg; exact L|]. eapply vrep3_ext; eassumption.
Qed.
Lemma genv_rel3_empty m : genv_rel3 rho3_empty m.
Proof. intros x r H. discriminate. Qed.

(* the environment %ep points to: slot i holds the i-th value directly, or a pointer to a
   direct slot that holds it *)
Definition slot_holds (m : vm) (v : vcell) (r : rval3) : Prop :=
  ((forall e j, v <> VLexPtr e j) /\ vrep3 m v r) \/ ptr_slot m v (fun w => vrep3 m w r).
Definition lrel3 (lv : list rval3) (m : vm) : Prop :=
  forall i r, nth_error lv (N.to_nat i) = Some r ->
  exists eid slots v, allocated (hp m) (ep m) /\ cell_at (hp m) (ep m) = VLexEnv eid /\
    eid < next_id (st m) /\ tget (envs (st m)) eid = Some slots /\ list_get slots i = Some v /\
    slot_holds m v r.
Lemma lrel3_nil m : lrel3 [] m.
Proof. intros i r H. destruct (N.to_nat i); discriminate. Qed.
Lemma slot_holds_ext m m' v r : rext m m' -> slot_holds m v r -> slot_holds m' v r.
Proof.
  intros R [[Hn V]|PS]; [left; split; [exact Hn|eapply vrep3_ext; eassumption]|right].
  eapply ptr_slot_ext; [exact R| |exact PS]. intros w. apply vrep3_ext. exact R.
Qed.
Lemma lrel3_rext lv m m' : rext m m' -> ep m' = ep m -> lrel3 lv m -> lrel3 lv m'.
Proof.
  intros R Hep L i r Hi. destruct (L i r Hi) as (eid & slots & v & A & C & Lt & T & G & V).
  pose proof (rx_cext _ _ R) as X.
  destruct (ce_heap _ _ X _ A) as [A' C']. exists eid, slots, v. rewrite Hep.
  split; [exact A'|]. split; [congruence|]. split; [destruct (ce_store _ _ X); lia|].
  split; [rewrite (rx_envs _ _ R); assumption|]. split; [exact G|]. eapply slot_holds_ext; eassumption.
Qed.
Lemma lrel3_frame2 lv m m' : frame2 m m' -> lrel3 lv m -> lrel3 lv m'.
Proof. intros F. apply lrel3_rext; [apply frame2_rext; exact F|apply F]. Qed.

Section Exec3.
Variable ob : N -> M vcell.
Notation steps := (RunProofs.steps ob).

Definition ok_n3 (m : vm) (lp q : N) (r : rval3) (rho' : env3) : Prop :=
  exists n m', steps n m = Some m' /\ frame2 m m' /\ minv m' /\ ip m' = (lp, q) /\
    vrep3 m' (acc m') r /\ genv_rel3 rho' m'.
Definition ok_t3 (m : vm) (r : rval3) (rho' : env3) : Prop :=
  exists n m' k e i b, steps n m = Some m' /\ frame_at m k e i b /\ rext m m' /\ minv m' /\
    vrep3 m' (acc m') r /\ genv_rel3 rho' m' /\
    sp m' = bp m - k /\ ep m' = e /\ ip m' = i /\ bp m' = b /\ out_log m' = out_log m /\
    (forall j, j <= bp m - k -> sget m' j = sget m j).

Lemma ok_t3_pre m m1 n1 r rho' : steps n1 m = Some m1 -> frame2 m m1 -> bp m + 4 <= sp m ->
  ok_t3 m1 r rho' -> ok_t3 m r rho'.
Proof.
  intros St F Hsp (n & m' & k & e & i & b & St' & Hf & X & MI & V & G & E1 & E2 & E3 & E4 & E5 & K).
  pose proof (f2_frame _ _ F) as F0.
  assert (Hf0 : frame_at m k e i b).
  { destruct Hf as (H1 & H2 & H3 & H4 & H5). unfold frame_at.
    rewrite (fr_bp _ _ F0) in *. rewrite !(fr_stack _ _ F0) in * by lia. auto. }
  exists (n1 + n)%nat, m', k, e, i, b. split; [eapply steps_trans; eassumption|]. split; [exact Hf0|].
  split; [eapply rext_trans; [apply frame2_rext; exact F|exact X]|]. split; [exact MI|]. split; [exact V|].
  split; [exact G|]. rewrite (fr_bp _ _ F0) in *. split; [exact E1|]. split; [exact E2|]. split; [exact E3|].
  split; [exact E4|]. split; [rewrite E5; apply F0|].
  intros j Hj. rewrite K by exact Hj. apply (fr_stack _ _ F0). destruct Hf0 as (_ & _ & _ & _ & H5). lia.
Qed.

Definition exec3 (s0 : vm) (p : N) (code : list vcell) (tail : bool) (lv : list rval3)
                 (rho : env3) (r : rval3) (rho' : env3) : Prop :=
  forall m lp bc,
    cext s0 m -> minv m -> code_in m lp bc -> seg bc p code -> ip m = (lp, p) -> genv_rel3 rho m ->
    lrel3 lv m -> (tail = true -> tframe m) ->
    ok_n3 m lp (p + len code) r rho' \/ (tail = true /\ ok_t3 m r rho').

Lemma exec3_n s0 p code lv rho r rho' : exec3 s0 p code false lv rho r rho' ->
  forall m lp bc, cext s0 m -> minv m -> code_in m lp bc -> seg bc p code -> ip m = (lp, p) -> genv_rel3 rho m ->
    lrel3 lv m -> ok_n3 m lp (p + len code) r rho'.
Proof.
  intros EX m lp bc X MI Hc Hs Hip G L.
  destruct (EX m lp bc X MI Hc Hs Hip G L ltac:(discriminate)) as [H|[H _]]; [exact H|discriminate].
Qed.
Lemma exec3_ext s s' p code tail lv rho r rho' : cext s' s ->
  exec3 s' p code tail lv rho r rho' -> exec3 s p code tail lv rho r rho'.
Proof. intros Xs EX m lp bc Xm. apply EX. eapply cext_trans; eassumption. Qed.
End Exec3.

(* compilation: what the compile-time theorem provides *)
Definition compile_static3 (sc : list text) (e : expr3) : Prop :=
  forall f l tail s, (cell_size (cell_of3 e) < f)%nat -> hdr3 l sc s -> minv s ->
  exists l' s' code, compile_expression f l tail (cell_of3 e) s = ROk l' s' /\
    fwd l' = fwd l ++ code /\ same_hdr l l' /\ minv s' /\ cext s s' /\ same_regs s s' /\
    envs (st s') = envs (st s).
