(* ScopeProofs.v — C02, compile-time half: how a symbol is resolved in a lambda built
   from its immediately enclosing lambda (environment.rs:94-135, lambda.rs:118-126).
   Symbols are heap pointers (interned: equal names = equal pointers, C18).       *)
From Coq Require Import Lia.
From MW Require Import Model.Base Model.F64 Model.Num Model.Datum Model.TransformDef Model.Transform
  Model.VmTypes Model.Heap Model.VmBase Model.Compile.
Open Scope N_scope.
Arguments N.add : simpl never.
Arguments N.sub : simpl never.

(* ------------------------------------------------------------ find_index *)
Definition fidx {A} (p : A -> bool) (l : list A) : option N := find_index p l 0.

Lemma find_index_shift {A} (p : A -> bool) l : forall i,
  find_index p l i = option_map (N.add i) (find_index p l 0).
Proof.
  induction l as [|x l IH]; intros i; cbn [find_index]; [reflexivity|].
  destruct (p x); [cbn [option_map]; f_equal; lia|].
  rewrite (IH (i + 1)), (IH (0 + 1)). destruct (find_index p l 0); cbn [option_map]; [f_equal; lia|reflexivity].
Qed.

Lemma fidx_cons {A} (p : A -> bool) x l :
  fidx p (x :: l) = if p x then Some 0 else option_map (N.add 1) (fidx p l).
Proof. unfold fidx. cbn [find_index]. destruct (p x); [reflexivity|]. rewrite find_index_shift. reflexivity. Qed.

Lemma fidx_app {A} (p : A -> bool) a b :
  fidx p (a ++ b) = match fidx p a with Some k => Some k | None => option_map (N.add (len a)) (fidx p b) end.
Proof.
  induction a as [|x a IH]; cbn [app].
  - unfold len. cbn [length N.of_nat]. change (fidx p []) with (@None N).
    destruct (fidx p b); cbn [option_map]; [f_equal; lia|reflexivity].
  - rewrite !fidx_cons. destruct (p x); [reflexivity|]. rewrite IH.
    destruct (fidx p a); cbn [option_map]; [reflexivity|].
    destruct (fidx p b); cbn [option_map]; [|reflexivity]. f_equal. unfold len. cbn [length]. lia.
Qed.

Lemma fidx_map {A B} (f : A -> B) (p : B -> bool) l : fidx p (map f l) = fidx (fun x => p (f x)) l.
Proof.
  induction l as [|x l IH]; [reflexivity|]. cbn [map]. rewrite !fidx_cons, IH. reflexivity.
Qed.

Lemma fidx_some {A} (p : A -> bool) l k : fidx p l = Some k ->
  exists x, nth_error l (N.to_nat k) = Some x /\ p x = true /\
            forall j y, (j < N.to_nat k)%nat -> nth_error l j = Some y -> p y = false.
Proof.
  revert k; induction l as [|x l IH]; intros k; [discriminate|]. rewrite fidx_cons.
  destruct (p x) eqn:Ep.
  - intros [= <-]. exists x. cbn. split; [reflexivity|]. split; [exact Ep|]. intros j y Hj; lia.
  - destruct (fidx p l) as [k'|] eqn:E; cbn [option_map]; [|discriminate]. intros Ek.
    assert (Hk : k = 1 + k') by congruence. subst k. clear Ek.
    destruct (IH k' eq_refl) as (y & Hn & Hp & Hb). exists y.
    replace (N.to_nat (1 + k')) with (S (N.to_nat k')) by lia. cbn [nth_error].
    split; [exact Hn|]. split; [exact Hp|].
    intros j z Hj Hz. destruct j as [|j]; cbn in Hz; [injection Hz as <-; exact Ep|].
    eapply Hb; [|exact Hz]. lia.
Qed.

Lemma fidx_none {A} (p : A -> bool) l : fidx p l = None <-> forall x, In x l -> p x = false.
Proof.
  induction l as [|x l IH]; [split; [intros _ y []|reflexivity]|]. rewrite fidx_cons.
  destruct (p x) eqn:Ep.
  - split; [discriminate|]. intros H. rewrite (H x (or_introl eq_refl)) in Ep. discriminate.
  - destruct (fidx p l) eqn:E; cbn [option_map].
    + split; [discriminate|]. intros H. exfalso. apply proj2 in IH.
      assert (Hn : @Some N n = None) by (apply IH; intros y Hy; apply H; right; exact Hy). discriminate Hn.
    + split; [|reflexivity]. intros _ y [<-|Hy]; [exact Ep|]. apply (proj1 IH eq_refl). exact Hy.
Qed.

(* --------------------------------------------------------- envmap layout *)
Fixpoint enum_args (l : list vcell) (i : N) : list (vcell * bsrc) :=
  match l with [] => [] | x :: r => (x, BArgument i) :: enum_args r (i + 1) end.

Lemma enum_args_fst l : forall i, map fst (enum_args l i) = l.
Proof. induction l as [|x l IH]; intros i; cbn; [reflexivity|]. rewrite IH. reflexivity. Qed.

Lemma enum_args_len l i : len (enum_args l i) = len l.
Proof. unfold len. rewrite <- (enum_args_fst l i) at 2. rewrite map_length. reflexivity. Qed.

Lemma enum_args_nth l : forall i k x, nth_error l k = Some x ->
  nth_error (enum_args l i) k = Some (x, BArgument (i + N.of_nat k)).
Proof.
  induction l as [|a l IH]; intros i k x; [destruct k; discriminate|].
  destruct k as [|k]; cbn [nth_error enum_args].
  - intros [= <-]. do 3 f_equal. lia.
  - intros H. rewrite (IH (i + 1) k x H). do 3 f_equal. lia.
Qed.

(* EnvironmentMap::new_from_iof = own arguments, then internal definitions, then
   the free symbols the enclosing lambda can resolve *)
Definition free_part (iof : lambda) (free : list vcell) : list (vcell * bsrc) :=
  flat_map (fun sym =>
       match envmap_slot (l_envmap iof) sym with
       | Some slot => [(sym, BIofEnvironment slot)]
       | None => match find_index (fun a => vptr_eqb a sym) (l_args iof) 0 with
                 | Some n => [(sym, BIofArgument n)]
                 | None => []
                 end
       end) free.

Lemma envmap_new_eq args internal iof free :
  envmap_new args internal iof free =
  enum_args args 0 ++ map (fun x => (x, BInternalDefinition)) internal ++ free_part iof free.
Proof. reflexivity. Qed.

Definition is_sym (sym : vcell) (e : vcell * bsrc) : bool := vptr_eqb (fst e) sym.
Definition sym_is (sym : vcell) (a : vcell) : bool := vptr_eqb a sym.

Lemma envmap_slot_fidx m sym : envmap_slot m sym = fidx (is_sym sym) m.
Proof. reflexivity. Qed.

Lemma fidx_is_sym_fst sym m : fidx (is_sym sym) m = fidx (sym_is sym) (map fst m).
Proof. rewrite fidx_map. reflexivity. Qed.

(* ------------------------------------------ binding_location, case by case *)
Section Resolution.
Variables (args internal free : list vcell) (iof : lambda) (vararg : bool).
Let l := lambda_from_iof args internal iof free vararg.

Lemma l_envmap_eq : l_envmap l =
  enum_args args 0 ++ map (fun x => (x, BInternalDefinition)) internal ++ free_part iof free.
Proof. reflexivity. Qed.

(* 1. an own parameter wins over everything inherited or global — also over an
      internal definition or a captured variable of the same name: the location is the
      environment slot of its FIRST occurrence among the formals, and that slot is
      filled from the argument itself at ENTER (source Argument) *)
Theorem resolve_own_parameter sym i :
  fidx (sym_is sym) args = Some i ->
  binding_location l sym = LEnvironment i /\
  exists a, nth_error args (N.to_nat i) = Some a /\
            nth_error (l_envmap l) (N.to_nat i) = Some (a, BArgument i).
Proof.
  intros Hf. unfold binding_location. rewrite envmap_slot_fidx, l_envmap_eq, fidx_app.
  rewrite fidx_is_sym_fst, enum_args_fst, Hf. split; [reflexivity|].
  destruct (fidx_some _ _ _ Hf) as (a & Ha & _ & _). exists a. split; [exact Ha|].
  rewrite nth_error_app1.
  - rewrite (enum_args_nth args 0 _ a Ha). do 3 f_equal. lia.
  - pose proof (enum_args_len args 0) as Hl. unfold len in Hl.
    assert (N.to_nat i < length args)%nat by (apply nth_error_Some; congruence). lia.
Qed.

(* 2. otherwise an internal definition of the body: its slot has no outside source
      (InternalDefinition): every activation owns a fresh one *)
Theorem resolve_internal_definition sym j :
  fidx (sym_is sym) args = None ->
  fidx (sym_is sym) internal = Some j ->
  binding_location l sym = LEnvironment (len args + j) /\
  exists a, nth_error internal (N.to_nat j) = Some a /\
            nth_error (l_envmap l) (N.to_nat (len args + j)) = Some (a, BInternalDefinition).
Proof.
  intros Ha Hi. unfold binding_location. rewrite envmap_slot_fidx, l_envmap_eq, fidx_app.
  rewrite fidx_is_sym_fst, enum_args_fst, Ha. rewrite fidx_app.
  rewrite fidx_is_sym_fst, map_map. cbn [fst]. rewrite map_id, Hi. cbn [option_map].
  rewrite enum_args_len. split; [reflexivity|].
  destruct (fidx_some _ _ _ Hi) as (a & Hna & _ & _). exists a. split; [exact Hna|].
  pose proof (enum_args_len args 0) as Hl. unfold len in Hl |- *.
  rewrite nth_error_app2 by lia.
  replace (N.to_nat (N.of_nat (length args) + j) - length (enum_args args 0))%nat with (N.to_nat j) by lia.
  rewrite nth_error_app1.
  - rewrite nth_error_map, Hna. reflexivity.
  - rewrite map_length. apply nth_error_Some. congruence.
Qed.

(* 3. otherwise a variable of an enclosing procedure, provided the free-symbol
      analysis reported it and the enclosing lambda resolves it lexically: the slot is
      sourced from the enclosing lambda's environment slot (or, for a lambda without
      environment map, its argument) *)
Theorem resolve_captured sym :
  fidx (sym_is sym) args = None ->
  fidx (sym_is sym) internal = None ->
  match fidx (is_sym sym) (free_part iof free) with
  | Some k =>
      binding_location l sym = LEnvironment (len args + len internal + k) /\
      exists e, nth_error (free_part iof free) (N.to_nat k) = Some e /\ fst e = sym /\
        ((exists slot, envmap_slot (l_envmap iof) sym = Some slot /\ snd e = BIofEnvironment slot) \/
         (envmap_slot (l_envmap iof) sym = None /\
          exists n, fidx (sym_is sym) (l_args iof) = Some n /\ snd e = BIofArgument n))
  | None => binding_location l sym = LGlobal
  end.
Proof.
  intros Ha Hi.
  assert (Hloc : binding_location l sym =
                 match fidx (is_sym sym) (free_part iof free) with
                 | Some k => LEnvironment (len args + len internal + k)
                 | None => LGlobal end).
  { unfold binding_location. rewrite envmap_slot_fidx, l_envmap_eq, fidx_app.
    rewrite fidx_is_sym_fst, enum_args_fst, Ha. rewrite fidx_app.
    rewrite fidx_is_sym_fst, map_map. cbn [fst]. rewrite map_id, Hi. cbn [option_map].
    rewrite enum_args_len.
    destruct (fidx (is_sym sym) (free_part iof free)) as [k|]; cbn [option_map].
    - f_equal. unfold len. rewrite map_length. lia.
    - subst l. cbn [l_args lambda_from_iof].
      change (find_index (fun a => vptr_eqb a sym) args 0) with (fidx (sym_is sym) args).
      rewrite Ha. reflexivity. }
  destruct (fidx (is_sym sym) (free_part iof free)) as [k|] eqn:Ef; [|exact Hloc].
  split; [exact Hloc|].
  destruct (fidx_some _ _ _ Ef) as (e & Hne & Hpe & _). exists e. split; [exact Hne|].
  apply nth_error_In in Hne. unfold free_part in Hne. apply in_flat_map in Hne as (s0 & Hs0 & He).
  assert (Hes : fst e = s0).
  { destruct (envmap_slot (l_envmap iof) s0); [destruct He as [<-|[]]; reflexivity|].
    destruct (find_index _ (l_args iof) 0); [destruct He as [<-|[]]; reflexivity|destruct He]. }
  unfold is_sym in Hpe. rewrite Hes in Hpe.
  assert (Hs : s0 = sym).
  { unfold vptr_eqb in Hpe. destruct s0, sym; try discriminate. apply N.eqb_eq in Hpe. congruence. }
  split; [congruence|]. rewrite Hs in He.
  destruct (envmap_slot (l_envmap iof) sym) as [slot|] eqn:Es.
  - destruct He as [<-|[]]. left. eauto.
  - destruct (find_index (fun a => vptr_eqb a sym) (l_args iof) 0) as [n|] eqn:En; [|destruct He].
    destruct He as [<-|[]]. right. split; [reflexivity|]. exists n. split; [exact En|reflexivity].
Qed.

(* a symbol that the enclosing lambda cannot resolve lexically is global here too *)
Corollary resolve_global sym :
  fidx (sym_is sym) args = None -> fidx (sym_is sym) internal = None ->
  envmap_slot (l_envmap iof) sym = None -> fidx (sym_is sym) (l_args iof) = None ->
  binding_location l sym = LGlobal.
Proof.
  intros Ha Hi He Hg. pose proof (resolve_captured sym Ha Hi) as H.
  destruct (fidx (is_sym sym) (free_part iof free)) as [k|] eqn:Ef; [|exact H].
  destruct H as (_ & e & _ & _ & [(slot & Hs & _)|(_ & n & Hn & _)]); congruence.
Qed.

(* conversely: a reported free symbol that the enclosing lambda resolves IS captured *)
Theorem captured_if_reported sym :
  fidx (sym_is sym) args = None -> fidx (sym_is sym) internal = None ->
  In sym free -> (exists p, sym = VPtr p) ->
  (envmap_slot (l_envmap iof) sym <> None \/ fidx (sym_is sym) (l_args iof) <> None) ->
  exists k, binding_location l sym = LEnvironment k.
Proof.
  intros Ha Hi Hin (p & ->) Hres. pose proof (resolve_captured (VPtr p) Ha Hi) as H.
  destruct (fidx (is_sym (VPtr p)) (free_part iof free)) as [k|] eqn:Ef.
  - destruct H as (H & _). eauto.
  - exfalso. rewrite fidx_none in Ef.
    destruct (envmap_slot (l_envmap iof) (VPtr p)) as [slot|] eqn:Es.
    + specialize (Ef (VPtr p, BIofEnvironment slot)).
      assert (Hin' : In (VPtr p, BIofEnvironment slot) (free_part iof free)).
      { unfold free_part. apply in_flat_map. exists (VPtr p). split; [exact Hin|]. rewrite Es. left; reflexivity. }
      specialize (Ef Hin'). unfold is_sym, vptr_eqb in Ef. cbn in Ef. rewrite N.eqb_refl in Ef. discriminate.
    + destruct Hres as [Hr|Hr]; [congruence|].
      destruct (fidx (sym_is (VPtr p)) (l_args iof)) as [n|] eqn:En; [|congruence].
      specialize (Ef (VPtr p, BIofArgument n)).
      assert (Hin' : In (VPtr p, BIofArgument n) (free_part iof free)).
      { unfold free_part. apply in_flat_map. exists (VPtr p). split; [exact Hin|]. rewrite Es.
        unfold fidx, sym_is in En. rewrite En. left; reflexivity. }
      specialize (Ef Hin'). unfold is_sym, vptr_eqb in Ef. cbn in Ef. rewrite N.eqb_refl in Ef. discriminate.
Qed.

End Resolution.

(* ======================================================================== *)
(* C02, run-time half: closure creation, activation, loads and stores        *)
From MW Require Import Model.Vm Proofs.VmProofs0 Proofs.TailProofs.

(* the environment object a heap address denotes *)
Definition env_at (s : vm) (p : N) : option (N * list vcell) :=
  match heap_get (hp s) p with
  | Ok (VLexEnv eid) => match tget (envs (st s)) eid with Some l => Some (eid, l) | None => None end
  | _ => None
  end.

(* The mutable LOCATION a slot of an environment stands for: the slot itself, or —
   through ONE indirection — the slot of another environment it points to. *)
Definition location (s : vm) (p : N) (k : N) : option (N * N) :=
  match env_at s p with
  | Some (eid, l) =>
      match list_get l k with
      | Some (VLexPtr q k2) => match env_at s q with Some (eid2, _) => Some (eid2, k2) | None => None end
      | Some _ => Some (eid, k)
      | None => None
      end
  | None => None
  end.

(* ---- CLOSURE: what each slot of a new closure environment holds (run.rs:518-543) *)
Definition closure_slot (s : vm) (src : bsrc) (v : vcell) : Prop :=
  match src with
  | BIofArgument a => load_arg a s = ROk v s
  | BIofEnvironment j =>
      exists eid l cur, env_at s (ep s) = Some (eid, l) /\ list_get l j = Some cur /\
        v = match cur with VLexPtr _ _ => cur | _ => VLexPtr (ep s) j end
  | _ => v = VUndef
  end.

Lemma pure_load_arg a : pure (load_arg a).
Proof.
  unfold load_arg. apply pure_bind; [apply pure_get_vm|]. intros s0.
  apply pure_bind; [apply pure_stack_get|]. intros x.
  apply pure_bind; [apply pure_as_argc|]. intros n.
  apply pure_bind; [apply pure_usub|]. intros b. apply pure_stack_get.
Qed.

Theorem closure_environment_slots envmap s r s' :
  build_closure_environment envmap s = ROk r s' ->
  s' = s /\ Forall2 (fun e v => closure_slot s (snd e) v) envmap r.
Proof.
  unfold build_closure_environment.
  match goal with |- ?g _ _ _ = _ -> _ =>
    assert (H : forall m acc r0 s0, g m acc s = ROk r0 s0 ->
              s0 = s /\ exists tl, r0 = rev acc ++ tl /\ Forall2 (fun e v => closure_slot s (snd e) v) m tl) end.
  { induction m as [|[sym src] m IH]; intros acc r0 s0 H0.
    - cbn in H0. unfold ret in H0. injection H0 as <- <-. split; [reflexivity|].
      exists []. rewrite app_nil_r. split; [reflexivity|constructor].
    - cbn in H0. destruct src.
      + apply IH in H0 as (-> & tl & -> & Hf). split; [reflexivity|].
        exists (VUndef :: tl). cbn [rev]. rewrite <- app_assoc. split; [reflexivity|].
        constructor; [reflexivity|exact Hf].
      + apply IH in H0 as (-> & tl & -> & Hf). split; [reflexivity|].
        exists (VUndef :: tl). cbn [rev]. rewrite <- app_assoc. split; [reflexivity|].
        constructor; [reflexivity|exact Hf].
      + apply bind_pure_ok in H0 as (v & Hv & H0); [|apply pure_load_arg].
        apply IH in H0 as (-> & tl & -> & Hf). split; [reflexivity|].
        exists (v :: tl). cbn [rev]. rewrite <- app_assoc. split; [reflexivity|].
        constructor; [exact Hv|exact Hf].
      + apply bind_pure_ok in H0 as (s1 & Hs1 & H0); [|apply pure_get_vm]. injection Hs1 as <-.
        apply bind_pure_ok in H0 as (ev & Hev & H0); [|apply pure_hget].
        apply bind_pure_ok in H0 as (eid & Heid & H0); [|apply pure_as_lexenv].
        apply bind_pure_ok in H0 as (cur & Hcur & H0); [|apply pure_env_get].
        assert (Henv : exists l, env_at s (ep s) = Some (eid, l) /\ list_get l n = Some cur).
        { unfold hget, lift in Hev. destruct (heap_get (hp s) (ep s)) as [x| | |] eqn:Eh; try discriminate.
          injection Hev as ->. destruct ev; try discriminate. cbn in Heid. injection Heid as ->.
          unfold env_get, bindM, env_slots in Hcur.
          destruct (tget (envs (st s)) eid) as [l|] eqn:El; [|discriminate].
          destruct (list_get l n) as [c|] eqn:Ec; [|discriminate]. injection Hcur as ->.
          exists l. unfold env_at. rewrite Eh, El. auto. }
        destruct Henv as (l & Hl1 & Hl2).
        assert (Hgo : exists v, v = match cur with VLexPtr _ _ => cur | _ => VLexPtr (ep s) n end /\
                                 exists acc', acc' = v :: acc /\ True) by eauto.
        destruct cur; (apply IH in H0 as (-> & tl & -> & Hf); split; [reflexivity|];
          eexists (_ :: tl); cbn [rev]; rewrite <- app_assoc; split; [reflexivity|];
          constructor; [exists eid, l; eexists; split; [exact Hl1|]; split; [exact Hl2|reflexivity]|exact Hf]).
      + apply IH in H0 as (-> & tl & -> & Hf). split; [reflexivity|].
        exists (VUndef :: tl). cbn [rev]. rewrite <- app_assoc. split; [reflexivity|].
        constructor; [reflexivity|exact Hf]. }
  intros H0. apply H in H0 as (-> & tl & -> & Hf). cbn. auto.
Qed.

(* a captured variable denotes, in the new closure environment, the very location it
   denotes in the creating activation (given the closure environment is installed at
   heap address [cp] with the slots just computed, and locations are flat: the cell a
   pointer leads to does not itself hold a pointer) *)
Theorem closure_shares_location s j cur eid l :
  env_at s (ep s) = Some (eid, l) -> list_get l j = Some cur ->
  forall v, v = match cur with VLexPtr _ _ => cur | _ => VLexPtr (ep s) j end ->
  match v with
  | VLexPtr q k2 => match env_at s q with Some (e2, _) => Some (e2, k2) | None => None end
  | _ => None
  end = location s (ep s) j.
Proof.
  intros He Hl v ->. unfold location. rewrite He, Hl.
  destruct cur; try (rewrite He; reflexivity). reflexivity.
Qed.

(* ---- loads and stores go through the location (run.rs:394-401, 424-437) *)
Theorem load_reads_location s k e j l v :
  location s (ep s) k = Some (e, j) ->
  tget (envs (st s)) e = Some l -> list_get l j = Some v ->
  load_lex_slot k s = ROk v s.
Proof.
  unfold location, env_at. intros Hloc Hl Hv.
  unfold load_lex_slot, bindM, get_vm, hget, lift.
  destruct (heap_get (hp s) (ep s)) as [x| | |] eqn:Eh; try discriminate.
  destruct x; try discriminate. cbn [as_lexenv ret].
  destruct (tget (envs (st s)) eid) as [l0|] eqn:El0; [|discriminate].
  unfold env_get, bindM, env_slots. rewrite El0.
  destruct (list_get l0 k) as [c|] eqn:Ec; [|discriminate]. unfold ret.
  destruct c; try (injection Hloc as <- <-; rewrite El0 in Hl; injection Hl as <-;
                   rewrite Ec in Hv; injection Hv as <-; reflexivity).
  (* one indirection *)
  destruct (heap_get (hp s) env) as [y| | |] eqn:Eh2; try discriminate.
  destruct y; try discriminate.
  destruct (tget (envs (st s)) eid0) as [l2|] eqn:El2; [|discriminate].
  injection Hloc as <- <-. cbn [as_lexenv ret]. rewrite El2 in Hl |- *. injection Hl as <-.
  rewrite Hv. reflexivity.
Qed.

Theorem store_writes_location s k e j l v :
  location s (ep s) k = Some (e, j) ->
  tget (envs (st s)) e = Some l -> j < len l ->
  store_lex_slot k v s = ROk tt (with_store s (set_env (st s) e (list_set l j v))).
Proof.
  unfold location, env_at. intros Hloc Hl Hj.
  unfold store_lex_slot, bindM, get_vm, hget, lift.
  destruct (heap_get (hp s) (ep s)) as [x| | |] eqn:Eh; try discriminate.
  destruct x; try discriminate. cbn [as_lexenv ret].
  destruct (tget (envs (st s)) eid) as [l0|] eqn:El0; [|discriminate].
  unfold env_get, bindM, env_slots. rewrite El0.
  destruct (list_get l0 k) as [c|] eqn:Ec; [|discriminate]. unfold ret.
  assert (Hput : forall e0 l1, tget (envs (st s)) e0 = Some l1 -> j < len l1 ->
            env_put e0 j v s = ROk tt (with_store s (set_env (st s) e0 (list_set l1 j v)))).
  { intros e0 l1 H1 H2. unfold env_put, bindM, env_slots. rewrite H1.
    apply N.ltb_lt in H2. rewrite H2. reflexivity. }
  destruct c; try (injection Hloc as <- <-; apply Hput; assumption).
  destruct (heap_get (hp s) env) as [y| | |] eqn:Eh2; try discriminate.
  destruct y; try discriminate.
  destruct (tget (envs (st s)) eid0) as [l2|] eqn:El2; [|discriminate].
  injection Hloc as <- <-. cbn [as_lexenv ret]. apply Hput; assumption.
Qed.

(* two names for one location see each other's assignments: a store through slot k
   followed by a load through ANY slot k' of ANY environment installed at [ep] that
   denotes the same location returns the stored value *)
Theorem shared_location_visible s k v e j l s1 k' :
  location s (ep s) k = Some (e, j) ->
  tget (envs (st s)) e = Some l -> j < len l ->
  store_lex_slot k v s = ROk tt s1 ->
  location s1 (ep s1) k' = Some (e, j) ->
  load_lex_slot k' s1 = ROk v s1.
Proof.
  intros Hloc Hl Hj Hst Hloc'.
  rewrite (store_writes_location s k e j l v Hloc Hl Hj) in Hst. injection Hst as <-.
  eapply load_reads_location; [exact Hloc'| |].
  - cbn [st with_store envs set_env]. apply tget_tset_same.
  - unfold list_set, list_get.
    assert (G : forall (A : Type) (l0 : list A) n x, (n < length l0)%nat -> nth_error (list_set_nat l0 n x) n = Some x).
    { induction l0 as [|y l0 IH]; intros n x Hn; [cbn in Hn; lia|].
      destruct n; cbn; [reflexivity|]. apply IH. cbn in Hn. lia. }
    unfold list_set, list_get. apply G. unfold len in Hj. lia.
Qed.
