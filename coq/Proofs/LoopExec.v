(* LoopExec.v — C04: the exec lemmas of Proofs/CompileCorrect3.v (constants, variable
   references, global stores, if, the operand loop, application of a builtin) restated with the
   high-water bounds of Proofs/LoopSpace.v.  The step structure is that of CompileCorrect3.v;
   what is added is the stack pointer of every intermediate state.                          *)
From Coq Require Import String Lia FMapPositive.
From MW Require Import Model.Base Model.F64 Model.Num Model.Datum Model.TransformDef Model.Transform
  Model.VmTypes Model.Heap Model.Gc Model.VmBase Model.Compile Model.Vm
  Proofs.VmProofs0 Proofs.GcProofs Proofs.SymtabProofs Proofs.QuoteHeapProofs
  Proofs.CompileProofs Proofs.RunProofs Proofs.CompileCorrect Proofs.TailProofs Proofs.FrameSteps
  Proofs.CellFuelProofs Proofs.CompileCorrect2 Proofs.FrameSteps3 Proofs.Closures3 Proofs.CompileCorrect3
  Proofs.LoopSpace.
From MW Require Proofs.ScopeProofs.
Open Scope N_scope.

Arguments N.add : simpl never.
Arguments N.sub : simpl never.
Arguments N.mul : simpl never.
Arguments N.eqb : simpl never.
Arguments N.ltb : simpl never.
Arguments N.leb : simpl never.
Arguments N.max : simpl never.

Section Exec3bLemmas.
Variable ob : N -> M vcell.
Variable bsem : N -> list rval -> option rval.
Notation run_one := (Vm.run_one ob).
Notation steps := (RunProofs.steps ob).
Notation run_builtin := (Vm.run_builtin ob).
Notation hwb := (LoopSpace.hwb ob).

(* one instruction that does not move the stack pointer *)
Lemma hwb_one_same m m' hi : run_one m = ROk false m' -> sp m' = sp m -> sp m <= hi -> hwb (sp m) hi 1 m.
Proof. intros E Hs Hh. eapply hwb_one; [exact E| | |]; rewrite ?Hs; lia. Qed.

(* one instruction that changes %ip and %acc only *)
Lemma ok_n3b_same_mem m m' lp q r rho hi : run_one m = ROk false m' -> same_mem m m' -> minv m ->
  ip m' = (lp, q) -> vrep3 m' (acc m') r -> genv_rel3 rho m -> sp m <= hi -> ok_n3b ob m lp q r rho (sp m + 0) hi.
Proof.
  intros E SM MI Hip V G Hhi. exists 1%nat, m'. split; [apply steps_one; exact E|].
  split; [rewrite N.add_0_r; apply (hwb_one_same m m'); [exact E|apply SM|exact Hhi]|].
  split; [apply same_mem_frame2; exact SM|]. split; [eapply same_mem_minv; eassumption|].
  split; [exact Hip|]. split; [exact V|].
  eapply genv_rel3_ext; [apply frame2_rext, same_mem_frame2; exact SM|apply SM|exact G].
Qed.

Lemma exec3b_movimm s0 p v b tail lv rho : vrep v b (hp s0) (st s0) ->
  exec3b ob s0 p [VOp OMovImmediate; v; VAcc] tail lv rho (R3Base b) rho 0 0 0.
Proof.
  intros V m lp bc hi X MI Hc Hs Hip G L Hhi _. left.
  pose proof (vrep_ext _ _ _ _ _ _ V (cext_ext _ _ X)) as V'.
  pose proof (step_movimm ob m lp p bc v Hc Hip Hs (vrep_not_op _ _ _ _ V')) as E.
  eapply ok_n3b_same_mem; [exact E|repeat split|exact MI|reflexivity| |exact G|lia].
  cbn [vrep3]. exact V'.
Qed.

Lemma exec3b_load_global s0 p a k x tail lv rho r :
  allocated (hp s0) a -> cell_at (hp s0) a = VSym x -> assoc_find (g_bind s0) a = Some k ->
  rho x = Some r -> r <> R3Base (RDatum CUndef) ->
  exec3b ob s0 p [VOp OMov; VGSlot k; VAcc] tail lv rho r rho 0 0 0.
Proof.
  intros A C B Hx Hr m lp bc hi X MI Hc Hs Hip G L Hhi _. left.
  destruct (G x r Hx) as (a' & k' & v & A' & C' & B' & Lk & V).
  destruct (ce_heap _ _ X a A) as [Am Cm]. rewrite C in Cm.
  assert (a = a') as <- by (apply (same_name_iff_same_cell (hp m) a a' x x (mi_heap _ MI) Am A' Cm C'); reflexivity).
  pose proof (ce_bind _ _ X a k B) as Bm. assert (k' = k) as -> by congruence.
  pose proof (step_load_global ob m lp p bc k v Hc Hip Hs Lk (vrep3_not_undef _ _ _ V Hr)) as E.
  eapply ok_n3b_same_mem; [exact E|repeat split|exact MI|reflexivity| |exact G|lia].
  eapply vrep3_ext; [|exact V]. apply rext_same; first [reflexivity|cbn [g_slots with_acc with_ip]; lia].
Qed.

Lemma exec3b_load_local s0 p i tail lv rho r : nth_error lv (N.to_nat i) = Some r ->
  exec3b ob s0 p [VOp OMov; VLexSlot i; VAcc] tail lv rho r rho 0 0 0.
Proof.
  intros Hi m lp bc hi X MI Hc Hs Hip G L Hhi _. left.
  destruct (L i r Hi) as (eid & slots & v & A & C & Lt & T & Gs & SH).
  assert (Hg : heap_get (hp m) (ep m) = Ok (VLexEnv eid)) by (rewrite (heap_get_alloc _ _ A), C; reflexivity).
  destruct SH as [[Hn V]|(a & j & eid2 & sl & w & -> & A2 & C2 & Lt2 & T2 & G2 & Hw & V)].
  - pose proof (step_load_lex ob m lp p bc i eid slots v Hc Hip Hs Hg T Gs Hn) as E.
    eapply ok_n3b_same_mem; [exact E|repeat split|exact MI|reflexivity| |exact G|lia].
    eapply vrep3_ext; [|exact V]. apply rext_same; first [reflexivity|cbn [g_slots with_acc with_ip]; lia].
  - assert (Hg2 : heap_get (hp m) a = Ok (VLexEnv eid2)) by (rewrite (heap_get_alloc _ _ A2), C2; reflexivity).
    pose proof (step_load_lex_ptr ob m lp p bc i eid slots a j eid2 sl w Hc Hip Hs Hg T Gs Hg2 T2 G2) as E.
    eapply ok_n3b_same_mem; [exact E|repeat split|exact MI|reflexivity| |exact G|lia].
    eapply vrep3_ext; [|exact V]. apply rext_same; first [reflexivity|cbn [g_slots with_acc with_ip]; lia].
Qed.

(* ------------------------------------------------------------ define / set! (global) *)
Lemma exec_store_tail3b m1 lp bc i a k x rho r hi :
  minv m1 -> code_in m1 lp bc ->
  seg bc i [VOp OMov; VAcc; VGSlot k; VOp OMovImmediate; VVoid; VAcc] -> ip m1 = (lp, i) ->
  allocated (hp m1) a -> cell_at (hp m1) a = VSym x -> assoc_find (g_bind m1) a = Some k ->
  vrep3 m1 (acc m1) r -> genv_rel3 rho m1 -> sp m1 <= hi ->
  exists m3, steps 2 m1 = Some m3 /\ hwb (sp m1) hi 2 m1 /\ frame2 m1 m3 /\ minv m3 /\ ip m3 = (lp, i + 6) /\
    acc m3 = VVoid /\ genv_rel3 (upd3 rho x r) m3.
Proof.
  intros MI Hc Hs Hip A C B V G Hhi.
  change [VOp OMov; VAcc; VGSlot k; VOp OMovImmediate; VVoid; VAcc]
    with ([VOp OMov; VAcc; VGSlot k] ++ [VOp OMovImmediate; VVoid; VAcc]) in Hs.
  apply seg_app in Hs as [Hs1 Hs2]. rewrite len3 in Hs2.
  assert (Hk : k < len (g_slots m1)) by (apply (proj1 (mi_glob _ MI) a); exact B).
  pose proof (step_store_global ob m1 lp i bc k Hc Hip Hs1 Hk) as E1.
  set (m2 := with_globals (with_ip m1 (lp, i + 3)) (g_bind m1) (list_set (g_slots m1) k (acc m1))) in *.
  assert (Hc2 : code_in m2 lp bc) by (eapply code_in_regs; [| |exact Hc]; reflexivity).
  pose proof (step_movimm ob m2 lp (i + 3) bc VVoid Hc2 eq_refl Hs2 ltac:(discriminate)) as E2.
  set (m3 := with_acc (with_ip m2 (lp, i + 3 + 3)) VVoid) in *.
  exists m3. split; [eapply (steps_trans ob 1 1); apply steps_one; eassumption|].
  split.
  { eapply hwb_weak; [eapply (hwb_trans ob 1 1 m1 m2); [apply steps_one; exact E1| |]| |].
    - apply (hwb_one_same m1 m2 hi E1); [reflexivity|exact Hhi].
    - apply (hwb_one_same m2 m3 hi E2); [reflexivity|exact Hhi].
    - change (sp m2) with (sp m1). lia.
    - lia. }
  assert (F : frame m1 m3).
  { constructor; try reflexivity; auto.
    apply cext_same; try reflexivity. cbn [g_slots m3 m2 with_acc with_ip with_globals].
    rewrite list_set_len. lia. }
  assert (F2 : frame2 m1 m3) by (split; [exact F|intros j _; reflexivity]).
  pose proof (frame2_rext _ _ F2) as R13.
  split; [exact F2|]. split.
  { destruct MI as [HI [G1 G2] SP]. constructor; [exact HI| |exact SP].
    split; cbn [g_bind g_slots m3 m2 with_acc with_ip with_globals]; [|exact G2].
    intros a0 k0 H0. rewrite list_set_len. eapply G1. exact H0. }
  split; [cbn [ip m3 with_acc with_ip]; f_equal; lia|]. split; [reflexivity|].
  intros y ry Hy. unfold upd3 in Hy. destruct (text_eqb y x) eqn:Eyx.
  - apply text_eqb_eq in Eyx. subst y. injection Hy as <-.
    exists a, k, (acc m1). split; [exact A|]. split; [exact C|]. split; [exact B|].
    split; [|eapply vrep3_ext; [exact R13|exact V]].
    cbn [g_slots m3 m2 with_acc with_ip with_globals]. apply list_get_set_same. exact Hk.
  - destruct (G y ry Hy) as (ay & ky & vy & Ay & Cy & By & Ly & Vy).
    exists ay, ky, vy. split; [exact Ay|]. split; [exact Cy|]. split; [exact By|].
    split; [|eapply vrep3_ext; [exact R13|exact Vy]].
    cbn [g_slots m3 m2 with_acc with_ip with_globals]. rewrite list_get_set_other; [exact Ly|].
    intros <-. assert (a = ay) as <- by (eapply (proj2 (mi_glob _ MI)); eassumption).
    rewrite C in Cy. injection Cy as <-. rewrite text_eqb_refl in Eyx. discriminate.
Qed.

Lemma exec3b_store s0 p code a k x tail lv rho r1 rho1 dl dn dt :
  exec3b ob s0 p code false lv rho r1 rho1 dl dn dt ->
  allocated (hp s0) a -> cell_at (hp s0) a = VSym x -> assoc_find (g_bind s0) a = Some k ->
  exec3b ob s0 p (code ++ [VOp OMov; VAcc; VGSlot k; VOp OMovImmediate; VVoid; VAcc]) tail lv rho
        (R3Base (RDatum CVoid)) (upd3 rho1 x r1) dl (N.max dn dt) 0.
Proof.
  intros EX1 A C B m lp bc hi X MIm Hc Hs Hip G L Hhi _. left. apply seg_app in Hs as [Hs1 Hs2].
  destruct (exec3b_n ob _ _ _ _ _ _ _ _ _ _ EX1 m lp bc hi X MIm Hc Hs1 Hip G L Hhi)
    as (n1 & m1 & St1 & HW1 & Fr1 & MIm1 & Hip1 & V1 & G1).
  pose proof (f2_frame _ _ Fr1) as Fr1'.
  assert (X0m1 : cext s0 m1) by (eapply cext_trans; [exact X|apply Fr1']).
  destruct (ce_heap _ _ X0m1 a A) as [A1 C1]. rewrite C in C1.
  pose proof (ce_bind _ _ X0m1 a k B) as B1.
  destruct (exec_store_tail3b m1 lp bc _ a k x rho1 r1 hi MIm1 (code_in_ext _ _ _ _ Hc (fr_ext _ _ Fr1')) Hs2 Hip1 A1 C1 B1 V1 G1
              ltac:(rewrite (fr_sp _ _ Fr1'); lia))
    as (m3 & St3 & HW3 & Fr3 & MIm3 & Hip3 & Hacc & G3).
  exists (n1 + 2)%nat, m3. split; [eapply steps_trans; eassumption|].
  split; [eapply hwb_weak; [eapply hwb_trans; eassumption|lia|lia]|].
  split; [eapply frame2_trans; eassumption|]. split; [exact MIm3|].
  split; [rewrite Hip3, len_app; f_equal; change (len [VOp OMov; VAcc; VGSlot k; VOp OMovImmediate; VVoid; VAcc]) with 6; lia|].
  split; [rewrite Hacc; cbn [vrep3]; apply vrep_void|exact G3].
Qed.

(* ------------------------------------------------------------ if *)
Lemma exec3b_if s0 p cc ca cb X Y tail lv rho rc rho1 r rho2 (else_branch : bool) dlc dnc dtc dl dn dt :
  X = p + len cc + 2 + len ca + 2 -> Y = X + len cb ->
  exec3b ob s0 p cc false lv rho rc rho1 dlc dnc dtc ->
  is_false3 rc = else_branch ->
  (if else_branch then exec3b ob s0 X cb tail lv rho1 r rho2 dl dn dt
   else exec3b ob s0 (p + len cc + 2) ca tail lv rho1 r rho2 dl dn dt) ->
  exec3b ob s0 p (cc ++ [VOp OJnt; VPtr X] ++ ca ++ [VOp OJmp; VPtr Y] ++ cb) tail lv rho r rho2
         (N.max dlc dl) (N.max (N.max dnc dtc) dn) dt.
Proof.
  intros HX HY EXc Hrc EXb m lp bc hi Xm MI Hc Hs Hip G L Hhi Ht.
  apply seg_app in Hs as [Hsc Hs]. apply seg_app in Hs as [Hsj Hs]. rewrite len2 in Hs.
  apply seg_app in Hs as [Hsa Hs]. apply seg_app in Hs as [Hsm Hsb]. rewrite len2 in Hsb.
  destruct (exec3b_n ob _ _ _ _ _ _ _ _ _ _ EXc m lp bc hi Xm MI Hc Hsc Hip G L ltac:(lia))
    as (n1 & m1 & St1 & HW1 & Fr1 & MI1 & Hip1 & V1 & G1).
  pose proof (f2_frame _ _ Fr1) as Fr1'.
  destruct (vrep3_truth _ _ _ V1) as (w & Hw & Hwf).
  pose proof (code_in_ext _ _ _ _ Hc (fr_ext _ _ Fr1')) as Hc1.
  pose proof (step_jnt ob m1 lp _ bc X w Hc1 Hip1 Hsj Hw) as E2. fold (vfalse w) in E2.
  set (m2 := with_ip m1 (lp, if vfalse w then X else p + len cc + 2)) in *.
  assert (SM2 : same_mem m1 m2) by (repeat split).
  pose proof (same_mem_frame2 _ _ SM2) as Fr2.
  pose proof (same_mem_minv _ _ SM2 MI1) as MI2.
  assert (Hc2 : code_in m2 lp bc) by (apply code_in_ip; exact Hc1).
  assert (G2 : genv_rel3 rho1 m2) by (eapply genv_rel3_ext; [apply frame2_rext; exact Fr2|reflexivity|exact G1]).
  assert (X2 : cext s0 m2) by (eapply cext_trans; [exact Xm|]; eapply cext_trans; [apply Fr1'|apply Fr2]).
  assert (Fr02 : frame2 m m2) by (eapply frame2_trans; eassumption).
  assert (L2 : lrel3 lv m2) by (eapply lrel3_frame2; eassumption).
  assert (Hsp1 : sp m1 = sp m) by apply Fr1'.
  assert (Hsp2 : sp m2 = sp m) by exact Hsp1.
  assert (Ht2 : tbound tail m2 dt hi) by (eapply tbound_frame2; eassumption).
  assert (St02 : steps (n1 + 1) m = Some m2) by (eapply steps_trans; [exact St1|apply steps_one; exact E2]).
  assert (HW02 : hwb (sp m + dlc) hi (n1 + 1) m).
  { eapply hwb_weak; [eapply hwb_trans; [exact St1|exact HW1|apply (hwb_one_same m1 m2 hi E2 eq_refl)]| |]; lia. }
  assert (Htail : forall r' rho', tail = true /\ ok_t3b ob m2 r' rho' (sp m2 + dl) hi ->
                    tail = true /\ ok_t3b ob m r' rho' (sp m + N.max dlc dl) hi).
  { intros r' rho' [Et Ok]. split; [exact Et|]. subst tail. destruct Ht as (k & e & i & b & _ & Hsp & _).
    destruct (ok_t3b_pre ob m m2 (n1 + 1) r' rho' _ _ hi St02 HW02 Fr02 Hsp Ok)
      as (n & m' & k' & e' & i' & b' & St' & HW' & Rest).
    exists n, m', k', e', i', b'. split; [exact St'|]. split; [|exact Rest].
    eapply hwb_weak; [exact HW'|lia|lia]. }
  destruct else_branch.
  - assert (Hv : vfalse w = true) by (apply vfalse_iff, Hwf; exact Hrc).
    assert (Hip2 : ip m2 = (lp, X)) by (unfold m2; rewrite Hv; reflexivity).
    replace (p + len cc + 2 + len ca + 2) with X in Hsb by lia.
    destruct (EXb m2 lp bc hi X2 MI2 Hc2 Hsb Hip2 G2 L2 ltac:(lia) Ht2)
      as [(n3 & m3 & St3 & HW3 & Fr3 & MI3 & Hip3 & V3 & G3)|Hr];
      [left|right; apply Htail; exact Hr].
    exists (n1 + 1 + n3)%nat, m3.
    split; [eapply steps_trans; eassumption|].
    split; [eapply hwb_weak; [eapply hwb_trans; [exact St02|exact HW02|exact HW3]|lia|lia]|].
    split; [eapply frame2_trans; eassumption|]. split; [exact MI3|].
    split; [rewrite Hip3; f_equal; lens; lia|]. split; assumption.
  - assert (Hv : vfalse w = false).
    { destruct (vfalse w) eqn:Ev; [|reflexivity]. apply vfalse_iff, Hwf in Ev. congruence. }
    assert (Hip2 : ip m2 = (lp, p + len cc + 2)) by (unfold m2; rewrite Hv; reflexivity).
    destruct (EXb m2 lp bc hi X2 MI2 Hc2 Hsa Hip2 G2 L2 ltac:(lia) Ht2)
      as [(n3 & m3 & St3 & HW3 & Fr3 & MI3 & Hip3 & V3 & G3)|Hr];
      [left|right; apply Htail; exact Hr].
    pose proof (code_in_ext _ _ _ _ Hc2 (fr_ext _ _ (f2_frame _ _ Fr3))) as Hc3.
    pose proof (step_jmp ob m3 lp _ bc Y Hc3 Hip3 Hsm) as E4.
    set (m4 := with_ip m3 (lp, Y)) in *.
    assert (SM4 : same_mem m3 m4) by (repeat split).
    pose proof (frame2_rext _ _ (same_mem_frame2 _ _ SM4)) as R34.
    assert (Hsp3 : sp m3 = sp m) by (rewrite (fr_sp _ _ (f2_frame _ _ Fr3)); exact Hsp2).
    exists (n1 + 1 + n3 + 1)%nat, m4.
    split; [eapply steps_trans; [eapply steps_trans; [exact St02|exact St3]|apply steps_one; exact E4]|].
    split.
    { eapply hwb_weak; [eapply hwb_trans; [eapply steps_trans; [exact St02|exact St3]|
        eapply hwb_trans; [exact St02|exact HW02|exact HW3]|apply (hwb_one_same m3 m4 hi E4 eq_refl)]| |]; lia. }
    split; [eapply frame2_trans; [eapply frame2_trans; eassumption|apply same_mem_frame2; exact SM4]|].
    split; [eapply same_mem_minv; eassumption|].
    split; [cbn [ip m4 with_ip]; f_equal; lens; lia|].
    split; [eapply vrep3_ext; [exact R34|exact V3]|].
    eapply genv_rel3_ext; [exact R34|reflexivity|exact G3].
Qed.

(* ------------------------------------------------------------ operands *)
Definition exec_args3b (s0 : vm) (p : N) (code : list vcell) (nargs : N) (lv : list rval3)
                       (rho : env3) (rs : list rval3) (rho' : env3) (dl dn : N) : Prop :=
  forall m lp bc hi,
    cext s0 m -> minv m -> code_in m lp bc -> seg bc p code -> ip m = (lp, p) -> genv_rel3 rho m -> lrel3 lv m ->
    sp m + dn <= hi ->
    exists n m' vs, steps n m = Some m' /\ hwb (sp m + dl) hi n m /\
      minv m' /\ ip m' = (lp, p + len code) /\ genv_rel3 rho' m' /\
      rext m m' /\ sp m' = sp m + nargs /\ bp m' = bp m /\ ep m' = ep m /\ out_log m' = out_log m /\
      (forall j, j <= sp m -> sget m' j = sget m j) /\
      len vs = nargs /\
      (forall i v, list_get vs i = Some v -> sget m' (sp m + 1 + i) = v) /\
      Forall2 (fun v r => vrep3 m' v r) vs rs.

Lemma exec_args3b_nil s0 p lv rho : exec_args3b s0 p [] 0 lv rho [] rho 0 0.
Proof.
  intros m lp bc hi X MIm Hc Hs Hip G L Hhi.
  exists 0%nat, m, []. split; [reflexivity|]. split; [apply hwb_zero; lia|]. split; [exact MIm|].
  split; [rewrite Hip; f_equal; cbn; lia|]. split; [exact G|]. split; [apply rext_refl|].
  split; [lia|]. do 3 (split; [reflexivity|]). split; [auto|]. split; [reflexivity|].
  split; [intros i v Hi; unfold list_get in Hi; destruct (N.to_nat i); discriminate|constructor].
Qed.

Lemma exec_args3b_cons s0 p cx cr n lv rho r rho1 rs rho2 dl dn dt dls dns :
  exec3b ob s0 p cx false lv rho r rho1 dl dn dt ->
  exec_args3b s0 (p + len cx + 1) cr n lv rho1 rs rho2 dls dns ->
  exec_args3b s0 p (cx ++ [VOp OPushAcc] ++ cr) (n + 1) lv rho (r :: rs) rho2
              (N.max dl (1 + dls)) (N.max (N.max dn dt) (1 + dns)).
Proof.
  intros EX1 EX2 m lp bc hi X MIm Hc Hs Hip G L Hhi.
  apply seg_app in Hs as [Hsx Hs]. apply seg_app in Hs as [Hsp Hsr]. rewrite len1 in Hsr.
  destruct (exec3b_n ob _ _ _ _ _ _ _ _ _ _ EX1 m lp bc hi X MIm Hc Hsx Hip G L ltac:(lia))
    as (n1 & m1 & St1 & HW1 & Fr1 & MIm1 & Hip1 & V1 & G1).
  pose proof (f2_frame _ _ Fr1) as Fr1'.
  pose proof (code_in_ext _ _ _ _ Hc (fr_ext _ _ Fr1')) as Hc1.
  pose proof (step_pushacc ob m1 lp _ bc Hc1 Hip1 Hsp) as Ep.
  set (m2 := pushed (with_ip m1 (lp, p + len cx + 1)) (acc m1)) in *.
  assert (Xm12 : rext m1 m2) by (apply rext_same; try reflexivity; lia).
  assert (MIm2 : minv m2).
  { destruct MIm1 as [HI GI SP]. constructor; [exact HI|exact GI|]. apply pushed_sp_lt. exact SP. }
  assert (Hc2 : code_in m2 lp bc) by (eapply code_in_regs; [| |exact Hc1]; reflexivity).
  assert (G2 : genv_rel3 rho1 m2) by (eapply genv_rel3_ext; [exact Xm12|reflexivity|exact G1]).
  assert (Xs2m2 : cext s0 m2) by (eapply cext_trans; [exact X|]; eapply cext_trans; [apply Fr1'|apply Xm12]).
  assert (Hsp1 : sp m1 = sp m) by apply Fr1'.
  assert (Hsp2 : sp m2 = sp m + 1) by (cbn [sp m2 pushed with_scap with_stack with_ip]; rewrite (fr_sp _ _ Fr1'); reflexivity).
  assert (L2 : lrel3 lv m2).
  { eapply lrel3_rext; [exact Xm12|reflexivity|]. eapply lrel3_frame2; eassumption. }
  destruct (EX2 m2 lp bc hi Xs2m2 MIm2 Hc2 Hsr eq_refl G2 L2 ltac:(lia))
    as (n3 & m3 & vs & St3 & HW3 & MIm3 & Hip3 & G3 & Xm23 & Hsp3 & Hbp3 & Hep3 & Hlog3 & Hst3 & Hlen & Hvs & Vvs).
  exists (n1 + 1 + n3)%nat, m3, (acc m1 :: vs).
  split; [eapply steps_trans; [eapply steps_trans; [exact St1|apply steps_one; exact Ep]|exact St3]|].
  split.
  { eapply hwb_weak; [eapply hwb_trans; [eapply steps_trans; [exact St1|apply steps_one; exact Ep]|
      eapply hwb_trans; [exact St1|exact HW1|eapply (hwb_one ob (sp m1) hi m1 m2 Ep)]|exact HW3]| |]; lia. }
  split; [exact MIm3|]. split; [rewrite Hip3; f_equal; lens; lia|]. split; [exact G3|].
  split; [eapply rext_trans; [apply frame2_rext; exact Fr1|]; eapply rext_trans; eassumption|].
  split; [rewrite Hsp3, Hsp2; lia|].
  split; [rewrite Hbp3; cbn [bp m2 pushed with_scap with_stack with_ip]; apply Fr1'|].
  split; [rewrite Hep3; cbn [ep m2 pushed with_scap with_stack with_ip]; apply Fr1'|].
  split; [rewrite Hlog3; cbn [out_log m2 pushed with_scap with_stack with_ip]; apply Fr1'|].
  assert (Hkeep : forall j, j <= sp m -> sget m3 j = sget m j).
  { intros j Hj. rewrite Hst3 by lia. unfold m2. rewrite sget_pushed_other.
    - change (sget (with_ip m1 _) j) with (sget m1 j). apply Fr1'. exact Hj.
    - cbn [sp with_ip]. rewrite (fr_sp _ _ Fr1'). lia. }
  split; [exact Hkeep|]. split; [rewrite len_cons, Hlen; reflexivity|].
  split.
  + intros i v Hi. destruct (N.eq_dec i 0) as [->|Hne].
    * cbn in Hi. injection Hi as <-. rewrite N.add_0_r. rewrite Hst3 by lia. unfold m2.
      replace (sp m + 1) with (sp (with_ip m1 (lp, p + len cx + 1)) + 1)
        by (cbn [sp with_ip]; rewrite (fr_sp _ _ Fr1'); reflexivity).
      apply sget_pushed_top.
    * replace i with (i - 1 + 1) in Hi by lia. rewrite list_get_cons_S in Hi.
      apply Hvs in Hi. rewrite Hsp2 in Hi. rewrite <- Hi. f_equal. lia.
  + constructor; [|exact Vvs]. eapply vrep3_ext; [|exact V1].
    eapply rext_trans; [exact Xm12|exact Xm23].
Qed.

Lemma exec_args3b_ext s s' p code n lv rho rs rho' dl dn : cext s' s ->
  exec_args3b s' p code n lv rho rs rho' dl dn -> exec_args3b s p code n lv rho rs rho' dl dn.
Proof. intros Xs EX m lp bc hi Xm. apply EX. eapply cext_trans; eassumption. Qed.

(* ------------------------------------------------------------ application of a builtin *)
Lemma exec3b_app_builtin s0 p ca cf n (tail : bool) lv rho rbs rho1 b rho2 r dla dna dlf dnf dtf :
  (forall b, builtin_ok ob bsem b) -> (forall b, builtin_envs ob bsem b) ->
  exec_args3b s0 p ca n lv rho (map R3Base rbs) rho1 dla dna ->
  exec3b ob s0 (p + len ca + 2) cf false lv rho1 (R3Base (RBuiltin b)) rho2 dlf dnf dtf ->
  bsem b rbs = Some r ->
  exec3b ob s0 p (ca ++ [VOp OPushImmediate; VArgc n] ++ cf ++ [VOp (if tail then OTCallAcc else OCallAcc)])
        tail lv rho (R3Base r) rho2 (N.max dla (n + 1 + dlf)) (N.max dna (n + 1 + N.max dnf dtf)) 0.
Proof.
  intros Hb He EX1 EX3 Hsem m lp bc hi X MIm Hc Hs Hip G L Hhi _. left.
  apply seg_app in Hs as [Hsa Hs]. apply seg_app in Hs as [Hsi Hs]. rewrite len2 in Hs.
  apply seg_app in Hs as [Hsf Hsc].
  (* operands *)
  destruct (EX1 m lp bc hi X MIm Hc Hsa Hip G L ltac:(lia))
    as (n1 & m1 & vs & St1 & HW1 & MIm1 & Hip1 & G1 & Xm1 & Hsp1 & Hbp1 & Hep1 & Hlog1 & Hst1 & Hlen & Hvs & Vvs).
  pose proof (code_in_ext _ _ _ _ Hc (rx_cext _ _ Xm1)) as Hc1.
  (* PUSH Argc n *)
  pose proof (step_pushimm ob m1 lp _ bc _ Hc1 Hip1 Hsi ltac:(discriminate)) as Ei.
  set (m2 := pushed (with_ip m1 (lp, p + len ca + 2)) (VArgc n)) in *.
  assert (Xm12 : rext m1 m2) by (apply rext_same; try reflexivity; lia).
  assert (MIm2 : minv m2).
  { destruct MIm1 as [HI GI SP]. constructor; [exact HI|exact GI|]. apply pushed_sp_lt. exact SP. }
  assert (Hc2 : code_in m2 lp bc) by (eapply code_in_regs; [| |exact Hc1]; reflexivity).
  assert (G2 : genv_rel3 rho1 m2) by (eapply genv_rel3_ext; [exact Xm12|reflexivity|exact G1]).
  assert (Xs2m2 : cext s0 m2) by (eapply cext_trans; [exact X|]; eapply cext_trans; [apply Xm1|apply Xm12]).
  assert (Hsp2 : sp m2 = sp m + n + 1) by (cbn [sp m2 pushed with_scap with_stack with_ip]; rewrite Hsp1; reflexivity).
  assert (L2' : lrel3 lv m2).
  { eapply lrel3_rext; [exact Xm12|reflexivity|]. eapply lrel3_rext; [exact Xm1|exact Hep1|exact L]. }
  assert (St12 : steps (n1 + 1) m = Some m2) by (eapply steps_trans; [exact St1|apply steps_one; exact Ei]).
  assert (HW12 : hwb (sp m + dla) hi (n1 + 1) m).
  { eapply hwb_weak; [eapply hwb_trans; [exact St1|exact HW1|eapply (hwb_one ob (sp m1) hi m1 m2 Ei)]| |]; lia. }
  (* operator *)
  destruct (exec3b_n ob _ _ _ _ _ _ _ _ _ _ EX3 m2 lp bc hi Xs2m2 MIm2 Hc2 Hsf eq_refl G2 L2' ltac:(lia))
    as (n3 & m3 & St3 & HW3 & Fr3 & MIm3 & Hip3 & V3 & G3).
  pose proof (f2_frame _ _ Fr3) as Fr3'.
  pose proof (code_in_ext _ _ _ _ Hc2 (fr_ext _ _ Fr3')) as Hc3.
  cbn [vrep3 vrep] in V3. destruct V3 as (pb & Hacc3 & Ab & Cb).
  assert (Hd3 : heap_deref (hp m3) (acc m3) = Ok (VBuiltin b)).
  { rewrite Hacc3. cbn [heap_deref]. rewrite (heap_get_alloc _ _ Ab), Cb. reflexivity. }
  set (q := p + len ca + 2 + len cf) in *.
  set (m3' := with_ip m3 (lp, q + 1)).
  assert (SM3 : same_mem m3 m3') by (repeat split).
  pose proof (same_mem_minv _ _ SM3 MIm3) as MIm3'.
  assert (Hsp3 : sp m3' = sp m + len vs + 1) by (cbn [sp m3' with_ip]; rewrite (fr_sp _ _ Fr3'), Hsp2, Hlen; reflexivity).
  assert (Hm23 : forall j, j <= sp m2 -> sget m3' j = sget m2 j) by (intros j Hj; apply (fr_stack _ _ Fr3'); exact Hj).
  assert (Htop : sget m3' (sp m3') = VArgc (len vs)).
  { rewrite Hsp3, Hm23 by (rewrite Hsp2, Hlen; lia). rewrite Hlen, <- Hsp1. unfold m2.
    change (sp m1) with (sp (with_ip m1 (lp, p + len ca + 2))). apply sget_pushed_top. }
  assert (Hargs : forall i v, list_get vs i = Some v -> sget m3' (sp m + 1 + i) = v).
  { intros i v Hi. pose proof (list_get_lt _ _ _ Hi) as Hlt. rewrite Hm23 by (rewrite Hsp2, <- Hlen; lia).
    unfold m2. rewrite sget_pushed_other by (cbn [sp with_ip]; rewrite Hsp1, <- Hlen; lia).
    change (sget (with_ip m1 _) (sp m + 1 + i)) with (sget m1 (sp m + 1 + i)). apply Hvs. exact Hi. }
  assert (Vvs3 : Forall2 (fun v r => vrep v r (hp m3') (st m3')) vs rbs).
  { apply vrep3_base_list in Vvs.
    clear -Vvs Xm12 Fr3'. induction Vvs as [|v0 r0 vs0 rs0 V0 _ IHV]; constructor; [|exact IHV].
    eapply vrep_ext; [exact V0|]. apply (cext_ext m1 m3). eapply cext_trans; [apply Xm12|apply Fr3']. }
  destruct (Hb b m3' (sp m) vs rbs r MIm3' Hsp3 Htop Hargs Vvs3 Hsem)
    as (v & m4 & Hrun & MIm4 & Xm34 & V4 & Hsp4 & Hst4 & Hbp4 & Hep4 & Hip4 & Hg4 & Hlog4).
  pose proof (He b m3' v m4 rbs r Hsem Hrun) as Henv4.
  destruct (match v with VPtr _ => (v, hp m4) | _ => heap_maybe_put (hp m4) v end) as [v' h'] eqn:Ebox.
  destruct (vrep_box _ _ _ _ _ _ (mi_heap _ MIm4) V4 Ebox) as (HI5 & Hx5 & V5).
  pose proof (step_call_builtin ob m3 lp q bc tail b v m4 v' h' Hc3 Hip3 Hsc Hd3 Hrun Ebox) as Ec.
  set (m5 := with_acc (with_heap m4 h') v') in *.
  assert (Xm45 : cext m4 m5).
  { eapply cext_trans; [apply (cext_heap m4 h' Hx5)|]. apply cext_same; try reflexivity; cbn [g_slots with_acc with_heap]; lia. }
  assert (Xm35 : rext m3 m5).
  { split.
    - eapply cext_trans; [apply (fr_ext _ _ (same_mem_frame _ _ SM3))|]. eapply cext_trans; eassumption.
    - intros j _. change (st m5) with (st m4). rewrite Henv4. reflexivity. }
  assert (Xm05 : rext m m5).
  { eapply rext_trans; [exact Xm1|]. eapply rext_trans; [exact Xm12|]. eapply rext_trans; [apply frame2_rext; exact Fr3|exact Xm35]. }
  assert (Hsp3m : sp m3 = sp m + n + 1) by (rewrite (fr_sp _ _ Fr3'); exact Hsp2).
  assert (Hsp5 : sp m5 = sp m) by exact Hsp4.
  assert (St03 : steps (n1 + 1 + n3) m = Some m3) by (eapply steps_trans; eassumption).
  exists (n1 + 1 + n3 + 1)%nat, m5.
  split; [eapply steps_trans; [exact St03|apply steps_one; exact Ec]|].
  split.
  { eapply hwb_weak; [eapply hwb_trans; [exact St03|eapply hwb_trans; [exact St12|exact HW12|exact HW3]|
      eapply (hwb_one ob (sp m3) hi m3 m5 Ec)]| |]; lia. }
  split.
  { split; [|apply Xm05]. constructor.
    - apply Xm05.
    - exact Hsp4.
    - change (bp m5) with (bp m4). rewrite Hbp4. change (bp m3') with (bp m3). rewrite (fr_bp _ _ Fr3'). exact Hbp1.
    - change (ep m5) with (ep m4). rewrite Hep4. change (ep m3') with (ep m3). rewrite (fr_ep _ _ Fr3'). exact Hep1.
    - change (out_log m5) with (out_log m4). rewrite Hlog4. change (out_log m3') with (out_log m3).
      rewrite (fr_log _ _ Fr3'). exact Hlog1.
    - intros j Hj. change (sget m5 j) with (sget m4 j). rewrite Hst4 by exact Hj.
      rewrite Hm23 by (rewrite Hsp2; lia). unfold m2.
      rewrite sget_pushed_other by (cbn [sp with_ip]; rewrite Hsp1; lia).
      change (sget (with_ip m1 _) j) with (sget m1 j). apply Hst1. exact Hj. }
  split.
  { destruct MIm4 as [HI4 GI4 SP4]. constructor; [exact HI5|exact GI4|exact SP4]. }
  split.
  { change (ip m5) with (ip m4). rewrite Hip4. cbn [ip m3' with_ip]. f_equal. unfold q. lens. lia. }
  split; [cbn [vrep3]; exact V5|].
  eapply genv_rel3_ext; [exact Xm35| |exact G3]. change (g_slots m5) with (g_slots m4). rewrite Hg4. reflexivity.
Qed.

End Exec3bLemmas.
