(* RootsProofs2.v — C03 roots_complete, further instances (after RootsProofs.v: lexical
   accesses): the heap addresses handed to Heap::get by ENTER, CALL / TCALL (resolve_callee),
   CLOSURE, and by MOV / PUSH when they load their operand (a raw pointer operand, a lexical
   slot, and the code object itself).  Each trace is shown to lie inside [reach] of the root
   set that Model/Gc.v [mark_roots] marks (Proofs/GcProofs.v [root]): %acc is a root VALUE
   (so the address it holds is a root), the cell it points to is traversed by the collector
   (a closure cell yields its lambda and its environment), %ip.0 and %ep are roots, and the
   operands of the current code object are traversed through its VLambda cell.            *)
From Coq Require Import Lia List.
From MW Require Import Model.Base Model.F64 Model.Num Model.Datum Model.TransformDef Model.Transform
  Model.VmTypes Model.Heap Model.Gc Model.VmBase Model.Compile Model.Vm
  Proofs.GcProofs Proofs.SymtabProofs Proofs.VmProofs0 Proofs.TailProofs Proofs.ScopeProofs Proofs.EnvProofs
  Proofs.RootsProofs Proofs.FlatProofs.
Open Scope N_scope.

Lemma reach_acc_ptr s p : acc s = VPtr p -> reach s p.
Proof.
  intros E. apply rf_root. unfold root. do 3 right. left. rewrite E. exists 1%nat. cbn. auto.
Qed.
Lemma reach_ip s : reach s (fst (ip s)).
Proof. apply rf_root. unfold root. do 4 right. left. reflexivity. Qed.
Lemma reach_ep s : reach s (ep s).
Proof. apply rf_root. unfold root. do 5 right. reflexivity. Qed.
Lemma reach_closure_parts s p lam env a :
  reach s p -> heap_get (hp s) p = Ok (VClosure lam env) -> a = lam \/ a = env -> reach s a.
Proof.
  intros R H Ha. apply heap_get_ok in H as (L & C).
  apply rf_step with (a := p); [exact R|exact L|]. rewrite C. exists 0%nat. cbn.
  destruct Ha as [-> | ->]; auto.
Qed.

(* ---- ENTER (run.rs:237-265): Heap::get(%acc), then the lambda and the closure environment *)
Definition enter_derefs (s : vm) : list N :=
  match acc s with
  | VPtr p => p :: match heap_get (hp s) p with
                   | Ok (VClosure lam env) => [lam; env]
                   | _ => []
                   end
  | VClosure lam env => [lam; env]
  | _ => []
  end.
Theorem enter_derefs_reachable s a : In a (enter_derefs s) -> reach s a.
Proof.
  unfold enter_derefs. destruct (acc s) eqn:E; try (intros []; fail).
  - (* a closure VALUE in %acc *)
    intros [<-|[<-|[]]]; apply rf_root; unfold root; do 3 right; left; rewrite E; exists 1%nat; cbn; auto.
  - intros [<-|Hin]; [apply reach_acc_ptr; exact E|].
    destruct (heap_get (hp s) p) as [c| | |] eqn:H; try (destruct Hin; fail).
    destruct c; try (destruct Hin; fail).
    apply (reach_closure_parts s p lam env a (reach_acc_ptr s p E) H).
    destruct Hin as [<-|[<-|[]]]; auto.
Qed.
(* the trace is the one ENTER uses: the two later reads are at addresses from the trace *)
Theorem enter_derefs_complete s lam cep r s' :
  heap_deref (hp s) (acc s) = Ok (VClosure lam cep) -> enter_frame s = ROk r s' ->
  In lam (enter_derefs s) /\ In cep (enter_derefs s).
Proof.
  intros H _. unfold enter_derefs, heap_deref in *. destruct (acc s); try discriminate.
  - injection H as -> ->. cbn. auto.
  - rewrite H. cbn. auto.
Qed.

(* ---- CALL / TCALL (run.rs:146-170, 178-202): Heap::get(%acc) *)
Definition call_derefs (s : vm) : list N := match acc s with VPtr p => [p] | _ => [] end.
Theorem call_derefs_reachable s a : In a (call_derefs s) -> reach s a.
Proof.
  unfold call_derefs. destruct (acc s) eqn:E; try (intros []; fail).
  intros [<-|[]]. apply reach_acc_ptr, E.
Qed.

(* ---- CLOSURE (run.rs:266-283, 518-543): the lambda %acc points to; %ep for captured slots *)
Definition closure_derefs (s : vm) : list N := ep s :: match acc s with VPtr p => [p] | _ => [] end.
Theorem closure_derefs_reachable s a : In a (closure_derefs s) -> reach s a.
Proof.
  unfold closure_derefs. intros [<-|Hin]; [apply reach_ep|].
  destruct (acc s) eqn:E; try (destruct Hin; fail). destruct Hin as [<-|[]]. apply reach_acc_ptr, E.
Qed.

(* ---- MOV / PUSH loading their operand (run.rs:364-404); [s] is the state in which
   load_operand runs (%ip at the operand): the code object %ip.0, a raw pointer operand,
   and the addresses of a lexical access *)
Definition operand_derefs (s : vm) : list N :=
  fst (ip s) ::
  match code_at s with
  | Some l => match list_get (l_bc l) (snd (ip s)) with
              | Some (VPtr p) => [p]
              | Some (VLexSlot k) => lex_derefs k s
              | _ => []
              end
  | None => []
  end.
Theorem operand_derefs_reachable s a : In a (operand_derefs s) -> reach s a.
Proof.
  unfold operand_derefs. intros [<-|Hin]; [apply reach_ip|].
  unfold code_at in Hin.
  destruct (heap_get (hp s) (fst (ip s))) as [c| | |] eqn:H; try (destruct Hin; fail).
  destruct c; try (destruct Hin; fail).
  destruct (tget (lams (st s)) lid) as [l|] eqn:El; [|destruct Hin].
  destruct (list_get (l_bc l) (snd (ip s))) as [o|] eqn:Eo; [|destruct Hin].
  destruct o; try (destruct Hin; fail).
  - apply (lex_derefs_reachable i s a Hin).
  - destruct Hin as [<-|[]]. apply heap_get_ok in H as (L & C).
    apply rf_step with (a := fst (ip s)); [apply reach_ip|exact L|]. rewrite C.
    exists 1%nat. cbn [cell_refs val_refs]. rewrite El. apply in_or_app. left.
    apply in_flat_map. exists (VPtr p). split; [eapply nth_error_In; exact Eo|]. cbn. auto.
Qed.
(* the operand read there is the one load_operand dereferences *)
Theorem operand_derefs_complete s p v s' :
  read_operand s = ROk (VPtr p) s' -> hget p s' = ROk v s' -> In p (operand_derefs s).
Proof.
  intros H _. unfold read_operand, bindM in H.
  destruct (cur_lambda s) as [l s1| | |] eqn:Ec; try discriminate.
  apply cur_lambda_ok in Ec as (Ec & ->). unfold get_vm in H. unfold operand_derefs. rewrite Ec.
  destruct (list_get (l_bc l) (snd (ip s))) as [o|]; [|discriminate].
  destruct o; try discriminate. unfold set_ip, ret in H. injection H as ->. right. left. reflexivity.
Qed.

(* non-vacuity on the example machines *)
Lemma ex_enter_derefs : enter_derefs (ex_vm (VBool false)) = [2; 0; 1].
Proof. vm_compute. reflexivity. Qed.
