(* KeepRun.v — C01 (R2): every INSTRUCTION, the builtins of procedure.rs / ports.rs, the run
   loop, Vm::eval and the boot sequence keep the invariant [J] of KeepCalc.v; together with
   FlatAll's [finv] (which contains heap_inv) this gives [minv] of CompileCorrect.v for the
   booted machine and for every state a session can reach — by preservation, never by
   evaluating [booted].                                                                   *)
From Coq Require Import Lia List String.
From MW Require Import Model.Base Model.F64 Model.Num Model.Datum Model.Lex Model.Parse Model.TransformDef
  Model.Transform Model.VmTypes Model.Heap Model.Gc Model.VmBase Model.Compile Model.Vm Model.Builtins
  Proofs.GcProofs Proofs.SymtabProofs Proofs.VmProofs0 Proofs.TailProofs Proofs.ScopeProofs
  Proofs.EnvProofs Proofs.FlatProofs Proofs.FlatPrims Proofs.FlatCompile Proofs.FlatListVec Proofs.FlatPkg
  Proofs.FlatAll Proofs.QuoteHeapProofs Proofs.CompileCorrect Proofs.KeepCalc Proofs.KeepCompile
  Proofs.KeepListVec Proofs.KeepPkg.
Open Scope N_scope.
Arguments N.add : simpl never.
Arguments N.sub : simpl never.
Arguments N.eqb : simpl never.
Arguments N.ltb : simpl never.
Arguments N.leb : simpl never.
Arguments N.mul : simpl never.

(* ------------------------------------------------------------------ operands *)
Lemma kp_cur_lambda : kp cur_lambda. Proof. apply kp_pure, pure_cur_lambda. Qed.
#[export] Hint Resolve kp_cur_lambda kp_set_global : kp.
Lemma kp_read_opcode : kp read_opcode. Proof. unfold read_opcode. kpa. Qed.
Lemma kp_read_operand : kp read_operand. Proof. unfold read_operand. kpa. Qed.
#[export] Hint Resolve kp_read_opcode kp_read_operand : kp.
Lemma kp_load_lex_slot k : kp (load_lex_slot k). Proof. unfold load_lex_slot. kpa. Qed.
Lemma kp_store_lex_slot k v : kp (store_lex_slot k v). Proof. unfold store_lex_slot. kpa. Qed.
#[export] Hint Resolve kp_load_lex_slot kp_store_lex_slot : kp.
Lemma kp_load_operand : kp load_operand. Proof. unfold load_operand. kpa. Qed.
Lemma kp_store_operand v : kp (store_operand v). Proof. unfold store_operand. kpa. Qed.
Lemma kp_load_arg a : kp (load_arg a). Proof. apply kp_pure, pure_load_arg. Qed.
Lemma kp_bce m : kp (build_closure_environment m). Proof. apply kp_pure, pure_build_closure_environment. Qed.
Lemma kp_ble l c e : kp (build_lexical_environment l c e). Proof. apply kp_pure, pure_build_lexical_environment. Qed.
#[export] Hint Resolve kp_load_operand kp_store_operand kp_load_arg kp_bce kp_ble : kp.

(* ------------------------------------------------------------------ setting sp *)
Lemma jpost_bind_pure {A B} (m : M A) (f : A -> M B) s :
  pure m -> J s -> (forall a, m s = ROk a s -> jpost (f a s)) -> jpost (bindM m f s).
Proof.
  intros P Hs K. unfold bindM. specialize (P s). destruct (m s) as [a s1|e msg s1|k|]; cbn [jpost]; auto.
  - subst s1. apply K. reflexivity.
  - subst s1. exact Hs.
Qed.
Lemma set_sp_then {B} p (f : unit -> M B) s : J s -> p < scap s -> kp (f tt) -> jpost (bindM (set_sp p) f s).
Proof. intros Hs Hp K. unfold bindM, set_sp. apply K, J_with_sp; assumption. Qed.
Lemma stack_get_lt i s v : stack_get i s = ROk v s -> i < scap s.
Proof. unfold stack_get. destruct (N.ltb_spec i (scap s)); [auto|discriminate]. Qed.
Lemma usub_le a b r s : Vm.usub a b s = ROk r s -> r <= a.
Proof. unfold Vm.usub. destruct (a <? b); [discriminate|]. intros [= <-]. lia. Qed.

(* ------------------------------------------------------------------ continuations *)
Lemma range_asc_len n : forall a, length (range_asc a n) = n.
Proof. induction n as [|n IH]; intros a; cbn [range_asc length]; [reflexivity|]. rewrite IH. reflexivity. Qed.
Lemma len_stack_to_sp s : len (stack_to_sp s) = sp s + 1.
Proof. unfold len, stack_to_sp. rewrite map_length, range_asc_len. lia. Qed.
Lemma kp_to_continuation : kp to_continuation.
Proof.
  intros s [G S K]. unfold to_continuation. cbn [new_cont jpost]. constructor; [exact G|exact S|].
  intros cid k E. cbn [st with_store conts] in E. rewrite tget_tset in E. destruct (next_id (st s) =? cid).
  - injection E as <-. cbn [k_sp k_stack]. rewrite len_stack_to_sp. lia.
  - exact (K cid k E).
Qed.
Lemma kp_restore_continuation cid : kp (restore_continuation cid).
Proof.
  intros s [G S K]. unfold restore_continuation. destruct (tget (conts (st s)) cid) as [k|] eqn:E; [|exact I].
  destruct (N.ltb_spec (scap s) (len (k_stack k))) as [Hlt|Hge]; [exact I|]. cbn [jpost].
  constructor; [exact G| |exact K]. cbn [sp scap with_acc with_bp with_ip with_ep with_stack].
  pose proof (K cid k E). lia.
Qed.
#[export] Hint Resolve kp_to_continuation kp_restore_continuation : kp.

(* ------------------------------------------------------------------ procedure.rs, ports.rs *)
Lemma kp_pop_n_cells n : forall acc0, kp (pop_n_cells n acc0).
Proof. induction n as [|n IH]; intros acc0; cbn [pop_n_cells]; kpa. Qed.
#[export] Hint Resolve kp_pop_n_cells : kp.
Lemma kp_b_error : kp b_error. Proof. unfold b_error. kpa. Qed.
Lemma kp_b_display wr : kp (b_display wr).
Proof. unfold b_display. kpa. intros s. apply J_same; reflexivity. Qed.
Lemma kp_b_call_cc : kp b_call_cc. Proof. unfold b_call_cc. kpa. Qed.
Lemma kp_b_apply : kp b_apply.
Proof.
  unfold b_apply. apply kp_bind; [auto with kp|intros argc]. apply kp_bind; [auto with kp|intros rest].
  assert (G : forall (shift : nat -> M unit) (spread : nat -> vcell -> N -> M N),
            (forall k, kp (shift k)) -> (forall f r n, kp (spread f r n)) ->
            kp (dom proc <- stack_get_offset (- (Z.of_N argc - 2))%Z;
                dom _ <- shift (N.to_nat (argc - 2));
                dom _ <- pop_raw;
                dom s <- get_vm;
                dom n <- spread (cell_fuel s) rest (argc - 2);
                dom _ <- push (VArgc n);
                dom _ <- dec_ip;
                ret proc)).
  { intros shift spread Hshift Hspread. kpa. }
  assert (Hshift : forall k, kp ((fix shift (k : nat) : M unit :=
                     match k with
                     | O => ret tt
                     | S k' => let it := Z.of_nat k' in
                               dom v <- stack_get_offset (- it)%Z;
                               dom _ <- stack_put_offset (- it - 1)%Z v;
                               shift k'
                     end) k)).
  { induction k as [|k IH]; [apply kp_ret|]. cbv zeta. apply kp_bind; [auto with kp|intros v].
    apply kp_bind; [auto with kp|intros _]. apply IH. }
  assert (Hspread : forall f r n,
            kp ((fix spread (fuel : nat) (r : vcell) (n : N) : M N :=
                     match fuel with
                     | O => fun _ => RNoFuel
                     | S f =>
                         match r with
                         | VPair a d => dom _ <- push (VPtr a); dom r' <- hget d; spread f r' (n + 1)
                         | VNil => ret n
                         | _ => fail E_OTHER
                         end
                     end) f r n)).
  { induction f as [|f IH]; intros r n; [apply kp_nofuel|].
    destruct r; try apply kp_fail; [apply kp_ret|].
    apply kp_bind; [auto with kp|intros _]. apply kp_bind; [auto with kp|intros r']. apply IH. }
  destruct rest; try apply kp_fail; exact (G _ _ Hshift Hspread).
Qed.

Section Run.
Variable ob : N -> M vcell.
Hypothesis Hob : forall b, kp (ob b).

Theorem kp_run_builtin b : kp (run_builtin ob b).
Proof.
  unfold run_builtin.
  repeat match goal with |- kp (if ?c then _ else _) => destruct c end;
    first [exact kp_b_apply|exact kp_b_call_cc|exact kp_b_error|exact kp_b_eval|apply kp_b_display|apply Hob].
Qed.
Hint Resolve kp_run_builtin : kp.

Lemma kp_resolve_callee : kp (resolve_callee ob).
Proof. unfold resolve_callee. kpa. Qed.
Hint Resolve kp_resolve_callee : kp.

Lemma kp_tcall_copy k : forall it, kp (tcall_copy k it).
Proof. induction k as [|k IH]; intros it; cbn [tcall_copy]; kpa. Qed.
Lemma kp_tcall_rebuild k saved : kp (tcall_rebuild k saved).
Proof. induction k as [|k IH]; cbn [tcall_rebuild]; kpa. Qed.
Lemma kp_vararg_collect k : forall v, kp (vararg_collect k v).
Proof. induction k as [|k IH]; intros v; cbn [vararg_collect]; kpa. Qed.
Hint Resolve kp_tcall_copy kp_tcall_rebuild kp_vararg_collect : kp.

Lemma tcall_copy_scap k : forall it s s1, tcall_copy k it s = ROk tt s1 -> scap s1 = scap s.
Proof.
  induction k as [|k IH]; intros it s s1 E1.
  - injection E1 as <-. reflexivity.
  - cbn [tcall_copy] in E1. unfold bindM in E1.
    pose proof (pure_stack_get_offset (-1 - Z.of_N it)%Z s) as P1.
    destruct (stack_get_offset (-1 - Z.of_N it)%Z s) as [v s2| | |]; try discriminate. subst s2.
    unfold get_vm in E1. pose proof (pure_usub (bp s) it s) as P2.
    destruct (Vm.usub (bp s) it s) as [dst s2| | |]; try discriminate. subst s2.
    unfold stack_put in E1. destruct (dst <? scap s); [|discriminate].
    apply IH in E1. exact E1.
Qed.

Lemma kp_tcall_frame lam : kp (tcall_frame lam).
Proof.
  intros s Hs. unfold tcall_frame.
  apply jpost_bind_pure; [apply pure_stack_get_offset|exact Hs|intros a _].
  apply jpost_bind_pure; [apply pure_as_argc|exact Hs|intros argc _].
  apply jpost_bind_pure; [apply pure_get_vm|exact Hs|intros s0 E0]. injection E0 as <-.
  apply jpost_bind_pure; [apply pure_stack_get|exact Hs|intros fa Hfa]. apply stack_get_lt in Hfa.
  apply jpost_bind_pure; [apply pure_as_argc|exact Hs|intros frame_argc _].
  destruct (argc =? frame_argc).
  - apply jpost_bind_pure; [apply pure_stack_get|exact Hs|intros saved_bp Hsb]. apply stack_get_lt in Hsb.
    apply jpost_bind; [apply kp_tcall_copy, Hs|intros [] s1 E1 H1].
    pose proof (tcall_copy_scap _ _ _ _ E1) as Hc.
    apply set_sp_then; [exact H1|rewrite Hc; lia|]. kpa.
  - apply jpost_bind_pure; [apply pure_stack_get|exact Hs|intros saved_ep _].
    apply jpost_bind_pure; [apply pure_stack_get|exact Hs|intros saved_ip _].
    apply jpost_bind_pure; [apply pure_stack_get|exact Hs|intros saved_bp _].
    apply jpost_bind_pure; [apply pure_usub|exact Hs|intros nsp Hn]. apply usub_le in Hn.
    apply set_sp_then; [exact Hs|lia|]. kpa.
Qed.
Hint Resolve kp_tcall_frame : kp.

Lemma kp_enter_frame : kp enter_frame.
Proof. unfold enter_frame. kpa. Qed.

Lemma kp_ret_instr :
  kp (dom s <- get_vm;
      dom a <- stack_get (bp s + 1); dom n <- as_argc a;
      dom nsp <- Vm.usub (bp s) n;
      dom _ <- set_sp nsp;
      dom e <- stack_get (bp s + 2); dom e' <- as_ep e; dom _ <- set_ep e';
      dom i <- stack_get (bp s + 3); dom i' <- as_ip i; dom _ <- set_ip i';
      dom b <- stack_get (bp s + 4); dom b' <- as_bp b; dom _ <- set_bp b';
      ret false).
Proof.
  intros s Hs.
  apply jpost_bind_pure; [apply pure_get_vm|exact Hs|intros s0 E0]. injection E0 as <-.
  apply jpost_bind_pure; [apply pure_stack_get|exact Hs|intros a Ha]. apply stack_get_lt in Ha.
  apply jpost_bind_pure; [apply pure_as_argc|exact Hs|intros n _].
  apply jpost_bind_pure; [apply pure_usub|exact Hs|intros nsp Hn]. apply usub_le in Hn.
  apply set_sp_then; [exact Hs|lia|]. kpa.
Qed.

Theorem kp_run_one : kp (run_one ob).
Proof.
  unfold run_one. apply kp_bind; [apply kp_read_opcode|intros op].
  destruct op; try exact kp_ret_instr; try exact kp_enter_frame; kpa.
Qed.

(* ------------------------------------------------------------------ the run loop, eval *)
Theorem run_loop_J : forall fuel cycles count s, J s -> jpost (run_loop ob fuel cycles count s).
Proof.
  induction fuel as [|f IH]; intros cycles count s Hs; cbn [run_loop]; [exact I|]. cbv zeta.
  pose proof (kp_run_one s Hs) as P.
  destruct (run_one ob s) as [[|] s1|e m s1|k|]; cbn [jpost] in P; try exact I.
  - pose proof (pure_to_cell (acc s1) s1) as Hp.
    destruct (to_cell (acc s1) s1) as [c s2|e m s2|k|]; try exact I; subst s2; cbn [jpost]; [|exact P].
    revert P. apply J_same; reflexivity.
  - destruct (match count with Some c => cycles + 1 =? c | None => false end); [exact P|]. apply IH, P.
  - destruct (stack_trace s1); try exact I. cbn [jpost]. destruct P as [G S K].
    constructor; [exact G| |exact K]. cbn [sp scap with_acc with_ep with_bp with_stack]. lia.
Qed.

Theorem eval_J fuel e s : J s -> jpost (eval ob fuel e s).
Proof.
  intros Hs. rewrite eval_unfold. pose proof (kp_prepare_eval e s Hs) as P.
  destruct (prepare_eval e s) as [u s1|er m s1|k|]; cbn [jpost] in *; auto.
  exact (run_loop_J fuel 0 None s1 P).
Qed.
End Run.

(* ------------------------------------------------------------------ the real builtin table *)
Theorem kp_other_builtin : forall b, kp (other_builtin b).
Proof. apply kp_pkg_builtin; [apply kp_maybe_put_cell_m|apply kp_lv_builtin]. Qed.

Theorem eval_other_J fuel e s : J s -> jpost (eval other_builtin fuel e s).
Proof. apply eval_J, kp_other_builtin. Qed.
