(* NoPanicNum.v — C06: the premise [num_panics_ok] of NoPanicPkg.v holds.  Every [Panic k] leaf
   of the value-level numeric models (Model/Ratio32.v, NumArith.v, NumFmt.v, NumProc.v) is one
   of the named sites 20-23 / 200-207, none of which is in the excluded set of [xsiteb]; the
   proof walks the definitions top-down in the [pok] calculus of NoPanicPkg.v. *)
From Coq Require Import ZArith List.
From MW Require Import Model.Base Model.F64 Model.F64More Model.Num Model.Ratio32 Model.NumArith
  Model.Datum Proofs.NoPanicBase Proofs.NoPanicPkg.
From MW Require Model.NumFmt Model.NumProc.
Open Scope Z_scope.

(* one step of a [pok] goal, as [pok_go], after beta/zeta *)
Ltac pg :=
  repeat (cbv beta zeta;
  lazymatch goal with
  | |- pok (Ok _) => apply pok_ok
  | |- pok (Err _) => apply pok_err
  | |- pok NoFuel => apply pok_nofuel
  | |- pok err => apply pok_err
  | |- pok (Panic _) => apply pok_panic; reflexivity
  | |- pok (bind _ _) => apply pok_bind; [|intros ?]
  | |- pok (let '(_, _) := ?p in _) => destruct p
  | |- pok (if ?c then _ else _) => destruct c
  | |- pok (match (if ?c then _ else _) with _ => _ end) => destruct c
  | |- pok (match ?v with _ => _ end) => destruct v
  | |- _ => solve [auto with pok]
  end).

(* ------------------------------------------------------------------ Ratio32.v *)
Lemma pok_ovf p w z : pok (ovf p w z).
Proof. unfold ovf. pg. Qed.
#[export] Hint Resolve pok_ovf : pok.
Lemma pok_iadd p w a b : pok (iadd p w a b). Proof. unfold iadd. pg. Qed.
Lemma pok_isub p w a b : pok (isub p w a b). Proof. unfold isub. pg. Qed.
Lemma pok_imul p w a b : pok (imul p w a b). Proof. unfold imul. pg. Qed.
Lemma pok_ineg p w a : pok (ineg p w a). Proof. unfold ineg. pg. Qed.
#[export] Hint Resolve pok_iadd pok_isub pok_imul pok_ineg : pok.
Lemma pok_iabs p w a : pok (iabs p w a). Proof. unfold iabs. pg. Qed.
Lemma pok_idiv w a b : pok (idiv w a b). Proof. unfold idiv. pg. Qed.
Lemma pok_irem w a b : pok (irem w a b). Proof. unfold irem. pg. Qed.
#[export] Hint Resolve pok_iabs pok_idiv pok_irem : pok.

Lemma pok_ipow_loop p w fuel : forall base acc e, pok (ipow_loop fuel p w base acc e).
Proof. induction fuel as [|f IH]; intros base acc e; cbn [ipow_loop]; pg. Qed.
#[export] Hint Resolve pok_ipow_loop : pok.
Lemma pok_ipow p w b e : pok (ipow p w b e). Proof. unfold ipow. pg. Qed.
#[export] Hint Resolve pok_ipow : pok.

Lemma pok_igcd p w m n : pok (igcd p w m n). Proof. unfold igcd. pg. Qed.
#[export] Hint Resolve pok_igcd : pok.
Lemma pok_ilcm p w a b : pok (ilcm p w a b). Proof. unfold ilcm. pg. Qed.
Lemma pok_idiv_mod_floor p w a b : pok (idiv_mod_floor p w a b).
Proof. unfold idiv_mod_floor. pg. Qed.
#[export] Hint Resolve pok_ilcm pok_idiv_mod_floor : pok.

Lemma pok_rreduce p w r : pok (rreduce p w r). Proof. unfold rreduce. pg. Qed.
#[export] Hint Resolve pok_rreduce : pok.
Lemma pok_rnew p w n d : pok (rnew p w n d). Proof. unfold rnew. pg. Qed.
#[export] Hint Resolve pok_rnew : pok.

Lemma pok_rcmp_fuel p w fuel : forall a b, pok (rcmp_fuel fuel p w a b).
Proof. induction fuel as [|f IH]; intros a b; cbn [rcmp_fuel]; pg. Qed.
#[export] Hint Resolve pok_rcmp_fuel : pok.
Lemma pok_rcmp p w a b : pok (rcmp p w a b). Proof. unfold rcmp. pg. Qed.
#[export] Hint Resolve pok_rcmp : pok.
Lemma pok_req p w a b : pok (req p w a b). Proof. unfold req. pg. Qed.
Lemma pok_rlt p w a b : pok (rlt p w a b). Proof. unfold rlt. pg. Qed.
Lemma pok_rge p w a b : pok (rge p w a b). Proof. unfold rge. pg. Qed.
#[export] Hint Resolve pok_req pok_rlt pok_rge : pok.

Lemma pok_rtrunc w r : pok (rtrunc w r). Proof. unfold rtrunc. pg. Qed.
Lemma pok_rfract w r : pok (rfract w r). Proof. unfold rfract. pg. Qed.
Lemma pok_rto_integer w r : pok (rto_integer w r). Proof. unfold rto_integer. pg. Qed.
#[export] Hint Resolve pok_rtrunc pok_rfract pok_rto_integer : pok.
Lemma pok_rfloor p w r : pok (rfloor p w r). Proof. unfold rfloor. pg. Qed.
Lemma pok_rceil p w r : pok (rceil p w r). Proof. unfold rceil. pg. Qed.
#[export] Hint Resolve pok_rfloor pok_rceil : pok.

Lemma pok_apply_aop o p w a b : pok (apply_aop o p w a b). Proof. unfold apply_aop. pg. Qed.
#[export] Hint Resolve pok_apply_aop : pok.
Lemma pok_rarith o p w a b : pok (rarith o p w a b). Proof. unfold rarith. pg. Qed.
#[export] Hint Resolve pok_rarith : pok.
Lemma pok_radd p w a b : pok (radd p w a b). Proof. unfold radd. pg. Qed.
Lemma pok_rsub p w a b : pok (rsub p w a b). Proof. unfold rsub. pg. Qed.
Lemma pok_rrem p w a b : pok (rrem p w a b). Proof. unfold rrem. pg. Qed.
#[export] Hint Resolve pok_radd pok_rsub pok_rrem : pok.
Lemma pok_rdiv p w a b : pok (rdiv p w a b). Proof. unfold rdiv. pg. Qed.
#[export] Hint Resolve pok_rdiv : pok.
Lemma pok_rround p w r : pok (rround p w r). Proof. unfold rround. pg. Qed.
#[export] Hint Resolve pok_rround : pok.

Lemma pok_rchecked_mul p w a b : pok (rchecked_mul p w a b). Proof. unfold rchecked_mul. pg. Qed.
Lemma pok_rchecked_div p w a b : pok (rchecked_div p w a b). Proof. unfold rchecked_div. pg. Qed.
Lemma pok_rchecked_addsub s p w a b : pok (rchecked_addsub s p w a b).
Proof. unfold rchecked_addsub. pg. Qed.
#[export] Hint Resolve pok_rchecked_mul pok_rchecked_div pok_rchecked_addsub : pok.
Lemma pok_rchecked_add p w a b : pok (rchecked_add p w a b). Proof. unfold rchecked_add. pg. Qed.
Lemma pok_rchecked_sub p w a b : pok (rchecked_sub p w a b). Proof. unfold rchecked_sub. pg. Qed.
#[export] Hint Resolve pok_rchecked_add pok_rchecked_sub : pok.

Lemma pok_rneg p w r : pok (rneg p w r). Proof. unfold rneg. pg. Qed.
#[export] Hint Resolve pok_rneg : pok.
Lemma pok_rabs p w r : pok (rabs p w r). Proof. unfold rabs. pg. Qed.
Lemma pok_rinto_recip p w r : pok (rinto_recip p w r). Proof. unfold rinto_recip. pg. Qed.
#[export] Hint Resolve pok_rabs pok_rinto_recip : pok.
Lemma pok_rpow p w r e : pok (rpow p w r e). Proof. unfold rpow. pg. Qed.
#[export] Hint Resolve pok_rpow : pok.

Lemma pok_af_step p val s : pok (af_step p val s). Proof. unfold af_step. pg. Qed.
#[export] Hint Resolve pok_af_step : pok.
Lemma pok_af_loop p val iters : forall s, pok (af_loop iters p val s).
Proof. induction iters as [|k IH]; intros s; cbn [af_loop]; pg. Qed.
#[export] Hint Resolve pok_af_loop : pok.
Lemma pok_approximate_float_unsigned p val : pok (approximate_float_unsigned p val).
Proof. unfold approximate_float_unsigned. pg. Qed.
#[export] Hint Resolve pok_approximate_float_unsigned : pok.
Lemma pok_ratio32_from_f64 p val : pok (ratio32_from_f64 p val).
Proof. unfold ratio32_from_f64. pg. Qed.
#[export] Hint Resolve pok_ratio32_from_f64 : pok.

(* ------------------------------------------------------------------ NumArith.v: number.rs *)
Lemma pok_r_f64_unwrap r : pok (r_f64_unwrap r). Proof. unfold r_f64_unwrap. pg. Qed.
#[export] Hint Resolve pok_r_f64_unwrap : pok.
Lemma pok_or_float o fb : pok o -> pok (or_float o fb).
Proof. intros H. unfold or_float. pg. Qed.
#[export] Hint Resolve pok_or_float : pok.

Lemma pok_num_add p a b : pok (num_add p a b). Proof. unfold num_add. pg. Qed.
Lemma pok_num_mul p a b : pok (num_mul p a b). Proof. unfold num_mul. pg. Qed.
Lemma pok_num_sub p a b : pok (num_sub p a b). Proof. unfold num_sub. pg. Qed.
#[export] Hint Resolve pok_num_add pok_num_mul pok_num_sub : pok.
Lemma pok_ratio_of_ints p l r : pok (ratio_of_ints p l r). Proof. unfold ratio_of_ints. pg. Qed.
#[export] Hint Resolve pok_ratio_of_ints : pok.
Lemma pok_num_div p a b : pok (num_div p a b). Proof. unfold num_div. pg. Qed.
#[export] Hint Resolve pok_num_div : pok.

Lemma pok_big_div a b : pok (big_div a b). Proof. unfold big_div. pg. Qed.
Lemma pok_big_rem a b : pok (big_rem a b). Proof. unfold big_rem. pg. Qed.
#[export] Hint Resolve pok_big_div pok_big_rem : pok.
Lemma pok_some_fix o : pok o -> pok (some_fix o). Proof. intros H. unfold some_fix. pg. Qed.
Lemma pok_some_big o : pok o -> pok (some_big o). Proof. intros H. unfold some_big. pg. Qed.
#[export] Hint Resolve pok_some_fix pok_some_big : pok.
Lemma pok_fix_quot l r : pok (fix_quot l r). Proof. unfold fix_quot. pg. Qed.
Lemma pok_fix_wrapping_rem l r : pok (fix_wrapping_rem l r). Proof. unfold fix_wrapping_rem. pg. Qed.
#[export] Hint Resolve pok_fix_quot pok_fix_wrapping_rem : pok.

Lemma pok_num_quotient p a b : pok (num_quotient p a b). Proof. unfold num_quotient. pg. Qed.
Lemma pok_num_rem p a b : pok (num_rem p a b). Proof. unfold num_rem. pg. Qed.
#[export] Hint Resolve pok_num_quotient pok_num_rem : pok.
Lemma pok_num_modulo p a b : pok (num_modulo p a b). Proof. unfold num_modulo. pg. Qed.
#[export] Hint Resolve pok_num_modulo : pok.

Lemma pok_num_eq p a b : pok (num_eq p a b). Proof. unfold num_eq. pg. Qed.
#[export] Hint Resolve pok_num_eq : pok.
Lemma pok_some_cmp o : pok o -> pok (some_cmp o). Proof. intros H. unfold some_cmp. pg. Qed.
#[export] Hint Resolve pok_some_cmp : pok.
Lemma pok_num_partial_cmp p a b : pok (num_partial_cmp p a b).
Proof. unfold num_partial_cmp. pg. Qed.
#[export] Hint Resolve pok_num_partial_cmp : pok.
Lemma pok_num_lt p a b : pok (num_lt p a b). Proof. unfold num_lt. pg. Qed.
Lemma pok_num_le p a b : pok (num_le p a b). Proof. unfold num_le. pg. Qed.
Lemma pok_num_gt p a b : pok (num_gt p a b). Proof. unfold num_gt. pg. Qed.
Lemma pok_num_ge p a b : pok (num_ge p a b). Proof. unfold num_ge. pg. Qed.
#[export] Hint Resolve pok_num_lt pok_num_le pok_num_gt pok_num_ge : pok.
Lemma pok_num_is_zero p a : pok (num_is_zero p a). Proof. unfold num_is_zero. pg. Qed.
#[export] Hint Resolve pok_num_is_zero : pok.

Lemma pok_num_to_inexact a : pok (num_to_inexact a). Proof. unfold num_to_inexact. pg. Qed.
Lemma pok_num_to_exact p a : pok (num_to_exact p a). Proof. unfold num_to_exact. pg. Qed.
Lemma pok_num_abs p a : pok (num_abs p a). Proof. unfold num_abs. pg. Qed.
Lemma pok_num_round p a : pok (num_round p a). Proof. unfold num_round. pg. Qed.
Lemma pok_num_floor p a : pok (num_floor p a). Proof. unfold num_floor. pg. Qed.
Lemma pok_num_ceil p a : pok (num_ceil p a). Proof. unfold num_ceil. pg. Qed.
Lemma pok_num_truncate a : pok (num_truncate a). Proof. unfold num_truncate. pg. Qed.
Lemma pok_num_pow p a e : pok (num_pow p a e). Proof. unfold num_pow. pg. Qed.
Lemma pok_num_to_u32 a : pok (num_to_u32 a). Proof. unfold num_to_u32. pg. Qed.
#[export] Hint Resolve pok_num_to_inexact pok_num_to_exact pok_num_abs pok_num_round pok_num_floor
  pok_num_ceil pok_num_truncate pok_num_pow pok_num_to_u32 : pok.

(* ------------------------------------------------------------------ builtin/number.rs *)
Lemma pok_pop_number a : pok (pop_number a). Proof. unfold pop_number. pg. Qed.
#[export] Hint Resolve pok_pop_number : pok.
Lemma pok_pop_integer a : pok (pop_integer a). Proof. unfold pop_integer. pg. Qed.
#[export] Hint Resolve pok_pop_integer : pok.

Lemma pok_apply_cmp o p x y : pok (apply_cmp o p x y). Proof. unfold apply_cmp. pg. Qed.
#[export] Hint Resolve pok_apply_cmp : pok.
Lemma pok_num_comp_loop o p rest : forall y result, pok (num_comp_loop o p rest y result).
Proof. induction rest as [|[x|] r IH]; intros y result; cbn [num_comp_loop]; pg. Qed.
#[export] Hint Resolve pok_num_comp_loop : pok.
Lemma pok_opt_num_eq p a b : pok (opt_num_eq p a b). Proof. unfold opt_num_eq. pg. Qed.
#[export] Hint Resolve pok_opt_num_eq : pok.

Lemma pok_fold_args f : (forall a b, pok (f a b)) -> forall rest acc, pok (fold_args f acc rest).
Proof.
  intros Hf rest. induction rest as [|[n|] r IH]; intros acc; cbn [fold_args]; pg.
Qed.
Lemma pok_fold_add p acc rest : pok (fold_args (num_add p) acc rest).
Proof. apply pok_fold_args. intros a b. apply pok_num_add. Qed.
Lemma pok_fold_mul p acc rest : pok (fold_args (num_mul p) acc rest).
Proof. apply pok_fold_args. intros a b. apply pok_num_mul. Qed.
#[export] Hint Resolve pok_fold_add pok_fold_mul : pok.

Lemma pok_minmax_loop m p rest : forall result, pok (minmax_loop m p rest result).
Proof. induction rest as [|a r IH]; intros result; cbn [minmax_loop]; pg. Qed.
#[export] Hint Resolve pok_minmax_loop : pok.

Lemma fpok_of f : (forall p args, pok (f p args)) -> fpok f.
Proof. intros H args k E. exact (H Debug args k E). Qed.

Lemma fpok_b_plus : fpok b_plus.
Proof. apply fpok_of. intros p args. unfold b_plus. pg. Qed.
Lemma fpok_b_multiply : fpok b_multiply.
Proof. apply fpok_of. intros p args. unfold b_multiply. pg. Qed.
Lemma fpok_b_minus : fpok b_minus.
Proof. apply fpok_of. intros p args. unfold b_minus. pg. Qed.
Lemma fpok_b_divide : fpok b_divide.
Proof. apply fpok_of. intros p args. unfold b_divide. pg. Qed.
Lemma fpok_b_num_comp o : fpok (b_num_comp o).
Proof. apply fpok_of. intros p args. unfold b_num_comp. pg. Qed.
Lemma fpok_b_upred u : fpok (b_upred u).
Proof. apply fpok_of. intros p args. unfold b_upred. pg. Qed.
Lemma fpok_b_intdiv o : fpok (b_intdiv o).
Proof. apply fpok_of. intros p args. unfold b_intdiv. pg. Qed.
Lemma fpok_b_expt : fpok b_expt.
Proof. apply fpok_of. intros p args. unfold b_expt. pg. Qed.
Lemma fpok_b_unary u : fpok (b_unary u).
Proof. apply fpok_of. intros p args. unfold b_unary. pg. Qed.
Lemma fpok_b_minmax m : fpok (b_minmax m).
Proof. apply fpok_of. intros p args. unfold b_minmax. pg. Qed.

(* ------------------------------------------------------------------ NumFmt.v / NumProc.v *)
Lemma pok_sub_i32 p a b : pok (NumFmt.sub_i32 p a b).
Proof. unfold NumFmt.sub_i32. pg. Qed.
#[export] Hint Resolve pok_sub_i32 : pok.
Lemma pok_ratio32_new p n d : pok (NumFmt.ratio32_new p n d).
Proof. unfold NumFmt.ratio32_new. pg. Qed.
#[export] Hint Resolve pok_ratio32_new : pok.
Lemma pok_ratio32_from_str_radix p t r : pok (NumFmt.ratio32_from_str_radix p t r).
Proof. unfold NumFmt.ratio32_from_str_radix. pg. Qed.
#[export] Hint Resolve pok_ratio32_from_str_radix : pok.
Lemma pok_parse_rational p t r : pok (NumFmt.parse_rational p t r).
Proof. unfold NumFmt.parse_rational. pg. Qed.
#[export] Hint Resolve pok_parse_rational : pok.
Lemma pok_number_parse p t r : pok (NumFmt.number_parse p t r).
Proof. unfold NumFmt.number_parse. pg. Qed.
#[export] Hint Resolve pok_number_parse : pok.
Lemma pok_fmt_ratio32_from_f64 p f : pok (NumFmt.ratio32_from_f64 p f).
Proof. unfold NumFmt.ratio32_from_f64. pg. Qed.
#[export] Hint Resolve pok_fmt_ratio32_from_f64 : pok.
Lemma pok_to_exact p n : pok (NumFmt.to_exact p n).
Proof. unfold NumFmt.to_exact. pg. Qed.
#[export] Hint Resolve pok_to_exact : pok.
Lemma pok_parse_with_exactness_p p t ex r : pok (NumFmt.parse_with_exactness_p p t ex r).
Proof. unfold NumFmt.parse_with_exactness_p. pg. Qed.
#[export] Hint Resolve pok_parse_with_exactness_p : pok.

Lemma pok_write_float_fract fuel : forall n r first, pok (NumFmt.write_float_fract fuel n r first).
Proof.
  induction fuel as [|fu IH]; intros n r first; cbn [NumFmt.write_float_fract]; pg.
Qed.
#[export] Hint Resolve pok_write_float_fract : pok.
Lemma pok_float_fmt_radix r f : pok (NumFmt.float_fmt_radix r f).
Proof. unfold NumFmt.float_fmt_radix. pg. Qed.
#[export] Hint Resolve pok_float_fmt_radix : pok.
Lemma pok_num_fmt_radix r n : pok (NumFmt.num_fmt_radix r n).
Proof. unfold NumFmt.num_fmt_radix. pg. Qed.
#[export] Hint Resolve pok_num_fmt_radix : pok.

Lemma pok_pop_usize c : pok (NumProc.pop_usize c).
Proof. unfold NumProc.pop_usize. pg. Qed.
#[export] Hint Resolve pok_pop_usize : pok.
Lemma pok_number_to_text r n : pok (NumProc.number_to_text r n).
Proof. unfold NumProc.number_to_text. pg. Qed.
#[export] Hint Resolve pok_number_to_text : pok.
Lemma pok_string_to_number p s r : pok (NumProc.string_to_number p s r).
Proof. unfold NumProc.string_to_number. pg. Qed.
#[export] Hint Resolve pok_string_to_number : pok.

Lemma cpok_number_string : cpok NumProc.number_string.
Proof. intros cs. change (pok (NumProc.number_string cs)). unfold NumProc.number_string. pg. Qed.
Lemma cpok_string_number : cpok NumProc.string_number.
Proof. intros cs. change (pok (NumProc.string_number cs)). unfold NumProc.string_number. pg. Qed.

(* ------------------------------------------------------------------ the premise *)
Theorem num_panics_ok_holds : num_panics_ok.
Proof.
  constructor.
  - exact fpok_b_plus.
  - exact fpok_b_multiply.
  - exact fpok_b_minus.
  - exact fpok_b_divide.
  - exact fpok_b_num_comp.
  - exact fpok_b_upred.
  - exact fpok_b_intdiv.
  - exact fpok_b_expt.
  - exact fpok_b_unary.
  - exact fpok_b_minmax.
  - exact cpok_number_string.
  - exact cpok_string_number.
Qed.
